"""C10 — incremental APIs: chunking, get-then-continue, state relocation change nothing.

Proof : Bee2V/C10/Props*.lean over the Bundle/Call/run framework (Defs.lean) instantiated with the executable
        state machines of the C01 (belt) and C03 (bash, brng, botp) models (Machines.lean):
        chunk_indep_X, get_observational_X, relocatable_X (+ Gen/C10Structs: no pointer members, kernel `decide`).
Tie   : (a) xlate/x_c10_structs.py regenerates Bee2V/Gen/C10Structs.lean from clang's record layouts on every run;
        (b) SESSIONS `start; (step | get | verify | relocate)*` are fed to harness/c10.c (real library, state in an
        exact-size heap block, `m` = memcpy to a fresh block + 0xA5 poison + free) and to drv_c10, outputs diffed,
        configurations asan (64-bit words) and w32 (32-bit words).
Search: implementation only — fragmented == one-shot high-level function; get-then-continue == never-got;
        relocated == in-place.
"""
import os, sys, itertools, re
import vcommon
from vcommon import VERIF

PROPS = ["Bee2V/C10/PropsStructs.lean", "Bee2V/C10/Props.lean"]
OPTIONAL_PROPS = ["Bee2V/C10/PropsModes.lean", "Bee2V/C10/PropsAead.lean", "Bee2V/C10/PropsAbsorb.lean",
                  "Bee2V/C10/PropsGen.lean", "Bee2V/C10/PropsBrng.lean", "Bee2V/C10/PropsRefined.lean",
                  "Bee2V/C10/PropsStd.lean"]


def props_list():
    ps = ["Bee2V/C10/PropsStructs.lean", "Bee2V/C10/Props.lean"]
    src = open(os.path.join(vcommon.LEAN, "Bee2V/C10/Props.lean")).read()
    for p in OPTIONAL_PROPS:
        if "import " + p[:-5].replace("/", ".") in src:
            ps.append(p)
    return ps


PROPS = props_list()     # the root file and every Props module it imports (tools_manifest.py reads this attribute)


def regen(ctx):
    sys.path.insert(0, os.path.join(VERIF, "xlate"))
    import importlib
    import x_c10_structs
    importlib.reload(x_c10_structs)
    ctx.regen("Bee2V/Gen/C10Structs.lean", x_c10_structs.generate())


# ------------------------------------------------------------------------------------------ helpers
def hx(b):
    return b.hex() if len(b) else "-"


def unhx(s):
    return b"" if s == "-" else bytes.fromhex(s)


def rb(rng, n):
    return bytes(rng.randrange(256) for _ in range(n))


def points(n, B, interior=False):
    """candidate cut points of a message of n octets relative to the B-octet internal buffer: exact fill, one
    short, one over (every block), start, end; `interior`: two points strictly inside every block"""
    P = {0, 1, n - 1, n}
    k = 1
    while k * B - 1 <= n:
        P |= {k * B - 1, k * B, k * B + 1}
        k += 1
    if interior:
        k = 0
        while k * B < n:
            P |= {k * B + 5, k * B + 9}
            k += 1
    return sorted(p for p in P if 0 <= p <= n)


def cutsets(P, kmax):
    """all multisets of at most kmax cut points (a repeated point = an empty fragment)"""
    for k in range(kmax + 1):
        for c in itertools.combinations_with_replacement(P, k):
            yield c


def split(msg, cuts):
    out, a = [], 0
    for c in list(cuts) + [len(msg)]:
        out.append(msg[a:c])
        a = c
    return out


def lengths(B, nblocks=4):
    L = {0, 1}
    for k in range(1, nblocks + 1):
        L |= {k * B - 1, k * B, k * B + 1}
    L.discard(nblocks * B + 1)
    return sorted(L)


def choose_cutsets(ctx, n, B, interior=True):
    """quick: every cut multiset with <= 2 cuts over the boundary points + a sample with 3..5 cuts (boundary and
    interior points); thorough: EVERY multiset of <= 5 cuts over the boundary points (1..6 fragments) and every
    multiset of <= 3 cuts over boundary + interior points."""
    P1 = points(n, B)
    P2 = points(n, B, True)
    res = set()
    if ctx.tier == "thorough":
        res |= set(cutsets(P1, 5))
        if interior:
            res |= set(cutsets(P2, 3))
    else:
        res |= set(cutsets(P1, 2))
        if interior:
            res |= set(cutsets([p for p in P2 if p not in P1], 2))
        for _ in range(12):
            k = ctx.rng.randrange(3, 6)
            res.add(tuple(sorted(ctx.rng.choice(P2 if interior else P1) for _ in range(k))))
    return sorted(res)


def with_relocs(ops, rng, mode):
    """insert `m` (relocation): mode 'all' = between any two calls and at both ends, int i = before call i"""
    if mode == "all":
        out = ["m"]
        for o in ops:
            out += [o, "m"]
        return out
    return ops[:mode] + ["m"] + ops[mode:]


def with_dumps(ops, rng):
    """krp / bhash / totp: `D` = dump of ALL members of the C state struct (scratch members included), compared with
    the refined Lean model; after every call, or only at the end, or not at all"""
    mode = rng.choice(("all", "end", "end", "none"))
    if mode == "none":
        return ops
    if mode == "end":
        return ops + ["D"]
    out = ["D"]
    for o in ops:
        out += [o, "D"]
    return out


KEYLENS = (16, 24, 32)


class Sess:
    __slots__ = ("b", "start", "ops", "meta")

    def __init__(self, b, start, ops, meta=None):
        self.b, self.start, self.ops, self.meta = b, list(start), list(ops), meta or {}

    def line(self):
        return " ".join([self.b] + self.start + self.ops)


def nout(op):
    return 2 if op.startswith("E:") else 1


# ------------------------------------------------------------------------------------------ generators
def variants(ctx, base_ops, get_tokens, rng, final=None, every=False):
    """sessions derived from a base op list: Get/Verify tokens after every position, relocation between any
    two calls.  `every`: one variant per single position (otherwise a random position per kind)."""
    out = []
    fin = [final] if final else []
    n = len(base_ops)
    out.append(base_ops + fin)
    for g in get_tokens:
        allg = []
        for o in base_ops:
            allg += [o, g() if callable(g) else g]
        out.append(allg + fin)
        pos = range(n + 1) if every else [rng.randrange(n + 1)]
        for i in pos:
            out.append(base_ops[:i] + [g() if callable(g) else g] + base_ops[i:] + fin)
    full = base_ops + fin
    out.append(with_relocs(full, rng, "all"))
    pos = range(len(full) + 1) if every else [rng.randrange(len(full) + 1)]
    for i in pos:
        out.append(with_relocs(full, rng, i))
    # gets and relocations together
    if get_tokens:
        g = get_tokens[0]
        mix = []
        for o in base_ops:
            mix += [o, "m", g() if callable(g) else g, "m"]
        out.append(mix + fin)
    return out


def gen_stream(ctx, sessions):
    """ecb, cbc (admissible CTS splits, exhaustive), bde (whole blocks, empty fragments), cfb, ctr (every split)"""
    rng = ctx.rng
    thorough = ctx.tier == "thorough"
    # ECB / CBC: all fragments whole blocks >= 16, ragged tail only last
    for b in ("ecb", "cbc"):
        for n in (16, 17, 31, 32, 33, 47, 48, 49, 63, 64, 65, 79, 80, 95):
            cutpts = [c for c in range(16, n, 16) if n - c >= 16]
            for k in range(len(cutpts) + 1):
                for cuts in itertools.combinations(cutpts, k):
                    if len(cuts) > 5:
                        continue
                    for d in "ed":
                        key = rb(rng, rng.choice(KEYLENS))
                        start = [hx(key)] + ([hx(rb(rng, 16))] if b == "cbc" else [])
                        msg = rb(rng, n)
                        ops = [d + ":" + hx(f) for f in split(msg, cuts)]
                        for v in variants(ctx, ops, [], rng, every=thorough or len(cuts) <= 1):
                            sessions.append(Sess(b, start, v))
    # BDE: whole blocks, empty fragments allowed
    for n in (0, 16, 32, 48, 64):
        P = list(range(0, n + 1, 16))
        for cuts in cutsets(P, 5 if thorough else 3):
            for d in "ed":
                key = rb(rng, rng.choice(KEYLENS))
                msg = rb(rng, n)
                ops = [d + ":" + hx(f) for f in split(msg, cuts)]
                vs = variants(ctx, ops, [], rng, every=thorough) if (thorough or len(cuts) <= 2) else [ops]
                for v in vs:
                    sessions.append(Sess("bde", [hx(key), hx(rb(rng, 16))], v))
    # CFB / CTR: every split, incl. fragments inside a block followed by more data
    for b in ("cfb", "ctr"):
        for n in lengths(16):
            for cuts in choose_cutsets(ctx, n, 16):
                for d in ("ed" if b == "cfb" else "e"):
                    key = rb(rng, rng.choice(KEYLENS))
                    msg = rb(rng, n)
                    ops = [d + ":" + hx(f) for f in split(msg, cuts)]
                    vs = variants(ctx, ops, [], rng, every=thorough and len(cuts) <= 3) if len(cuts) <= (3 if thorough else 1) else [ops, with_relocs(ops, rng, "all")]
                    for v in vs:
                        sessions.append(Sess(b, [hx(key), hx(rb(rng, 16))], v))
        # mixed directions on one state (CFB: model only; CTR: E = D)
        for _ in range(60 if thorough else 15):
            key = rb(rng, rng.choice(KEYLENS))
            ops = [rng.choice("ed") + ":" + hx(rb(rng, rng.choice((0, 1, 3, 5, 11, 15, 16, 17, 31, 32, 33)))) for _ in range(rng.randrange(2, 7))]
            sessions.append(Sess(b, [hx(key), hx(rb(rng, 16))], with_relocs(ops, rng, rng.randrange(len(ops) + 1))))
    # SDE: sector-wise, one state for many sectors
    for _ in range(120 if thorough else 30):
        key = rb(rng, rng.choice(KEYLENS))
        ops = []
        for _ in range(rng.randrange(1, 5)):
            n = rng.choice((32, 48, 64, 80, 96, 512))
            ops.append("%s:%s:%s" % (rng.choice("ed"), hx(rb(rng, 16)), hx(rb(rng, n))))
        for v in variants(ctx, ops, [], rng, every=True):
            sessions.append(Sess("sde", [hx(key)], v))


def wrong(rng, n):
    return hx(rb(rng, n))


def gen_absorb(ctx, sessions):
    """mac, hash, hmac, bhash: absorb fragments; Get / right Verify / wrong Verify at every position"""
    rng = ctx.rng
    thorough = ctx.tier == "thorough"
    cfgs = [("mac", 16, 8), ("hash", 32, 32), ("hmac", 32, 32), ("bhash", 64, 64), ("bhash", 96, 48), ("bhash", 128, 32)]
    for b, B, tagn in cfgs:
        exhaustive_here = thorough and not (b == "bhash" and B != 64)
        for n in lengths(B):
            cs = choose_cutsets(ctx, n, B, interior=False) if (exhaustive_here or not thorough) else \
                list(cutsets(points(n, B), 2))
            for cuts in cs:
                if b == "mac":
                    start = [hx(rb(rng, rng.choice(KEYLENS)))]
                elif b == "hmac":
                    start = [hx(rb(rng, rng.choice((0, 1, 16, 31, 32, 33, 64, 65))))]
                elif b == "bhash":
                    start = [str({64: 256, 96: 192, 128: 128}[B])]
                else:
                    start = []
                msg = rb(rng, n)
                ops = ["a:" + hx(f) for f in split(msg, cuts)]
                tn = rng.choice((tagn, tagn, tagn, 1, tagn // 2, 0))
                gets = ["g:%d" % tn, "V:%d" % tn, (lambda tn=tn: "v:" + wrong(rng, max(tn, 1)))]
                if len(cuts) <= (3 if thorough else 1):
                    vs = variants(ctx, ops, gets, rng, final="g:%d" % tagn, every=thorough and len(cuts) <= 2)
                else:
                    vs = [ops + ["g:%d" % tagn], with_relocs(ops + ["g:%d" % tagn], rng, "all")]
                for v in vs:
                    sessions.append(Sess(b, start, with_dumps(v, rng) if b == "bhash" else v))


def gen_aead(ctx, sessions):
    rng = ctx.rng
    thorough = ctx.tier == "thorough"
    for b in ("dwp", "che"):
        # (1) wrap flow: I*, (E+A)*, G — AD fragmentation x data fragmentation
        adl = (0, 1, 15, 16, 17, 32, 33)
        gets = ["g", "V", (lambda: "v:" + wrong(rng, 8))]

        def emit(ad, ac, msg, dc, full_variants):
            key = rb(rng, rng.choice(KEYLENS))
            start = [hx(key), hx(rb(rng, 16))]
            ops = ["i:" + hx(f) for f in split(ad, ac)] + ["E:" + hx(f) for f in split(msg, dc)]
            if full_variants:
                vs = variants(ctx, ops, gets, rng, final="g", every=thorough and len(ops) <= 3)
            elif len(ops) <= 5:
                vs = [ops + ["g"], with_relocs(ops + ["g"], rng, "all")]
            else:
                vs = [ops + ["g"]]
            for v in vs:
                sessions.append(Sess(b, start, v))
        # (1a) every fragmentation of the critical data (AD in one piece, empty or ending inside a block)
        for na in (0, 17):
            for nd in lengths(16):
                cs = choose_cutsets(ctx, nd, 16, interior=False)
                if not thorough:
                    cs = rng.sample(cs, min(len(cs), 20))
                for dc in cs:
                    emit(rb(rng, na), (), rb(rng, nd), dc, False)
        # (1b) every fragmentation of the open data (critical data in one piece, empty or ragged)
        for nd in (0, 17):
            for na in lengths(16):
                cs = choose_cutsets(ctx, na, 16, interior=False)
                if not thorough:
                    cs = rng.sample(cs, min(len(cs), 20))
                for ac in cs:
                    if len(ac) <= 4:
                        emit(rb(rng, na), ac, rb(rng, nd), (), False)
        # (1c) both fragmented, Get / Verify (right, wrong) after every position, relocation between any two calls
        for na in adl:
            for nd in lengths(16, 3):
                ad_cs = list(cutsets(points(na, 16), 1))
                d_cs = list(cutsets(points(nd, 16), 1))
                ad_cs = rng.sample(ad_cs, min(len(ad_cs), 3 if thorough else 2))
                d_cs = rng.sample(d_cs, min(len(d_cs), 4 if thorough else 2))
                for ac in ad_cs:
                    for dc in d_cs:
                        emit(rb(rng, na), ac, rb(rng, nd), dc, True)
        # (2) unwrap flow: I*, A*, V (right / wrong), D*; and E before I (allowed: E and I are independent)
        for _ in range(400 if thorough else 80):
            key = rb(rng, rng.choice(KEYLENS))
            start = [hx(key), hx(rb(rng, 16))]
            na, nd = rng.choice(adl), rng.choice(lengths(16, 3))
            ad, ct = rb(rng, na), rb(rng, nd)
            ac = sorted(rng.choice(points(na, 16)) for _ in range(rng.randrange(0, 3)))
            dc = sorted(rng.choice(points(nd, 16, True)) for _ in range(rng.randrange(0, 4)))
            fr = split(ct, dc)
            ops = ["i:" + hx(f) for f in split(ad, ac)] + ["a:" + hx(f) for f in fr]
            ops += [rng.choice(["V", "v:" + wrong(rng, 8), "g"])]
            dc2 = sorted(rng.choice(points(nd, 16, True)) for _ in range(rng.randrange(0, 4)))
            ops += ["d:" + hx(f) for f in split(ct, dc2)]
            if rng.random() < 0.4:
                ops += ["V"]
            mode = rng.choice(["none", "all", "one"])
            if mode == "all":
                ops = with_relocs(ops, rng, "all")
            elif mode == "one":
                ops = with_relocs(ops, rng, rng.randrange(len(ops) + 1))
            sessions.append(Sess(b, start, ops))
        for _ in range(200 if thorough else 40):
            # E first, then I, then A of the cipher text in other fragments: needs the ct -> use e: + later a: of
            # random data is not a wrap; so interleave i: between E: tokens (I and E touch disjoint parts)
            key = rb(rng, rng.choice(KEYLENS))
            start = [hx(key), hx(rb(rng, 16))]
            ops = ["e:" + hx(rb(rng, rng.choice((0, 3, 16, 21))))]
            ops += ["i:" + hx(rb(rng, rng.choice((0, 5, 16, 27))))]
            ops += ["e:" + hx(rb(rng, rng.choice((0, 13, 16, 17))))]
            if rng.random() < 0.5:
                # an EMPTY critical fragment between open-data fragments (StepI's ASSERT allows it: no critical data
                # has been processed yet): it must not flush the pending open-data block
                ops += [rng.choice(["a:-", "E:-"])]
            ops += ["i:" + hx(rb(rng, rng.choice((0, 11, 16))))]
            ops += ["a:" + hx(rb(rng, rng.choice((1, 15, 16, 40)))), "g"]
            sessions.append(Sess(b, start, with_relocs(ops, rng, rng.randrange(len(ops) + 1))))


def gen_krp(ctx, sessions):
    rng = ctx.rng
    for _ in range(150 if ctx.tier == "thorough" else 40):
        kl = rng.choice(KEYLENS)
        ops = []
        for _ in range(rng.randrange(1, 6)):
            n = rng.choice([x for x in KEYLENS if x <= kl])
            ops.append("g:%d:%s" % (n, hx(rb(rng, 16))))
        ops += [ops[0]]     # the first request again: must give the first answer again
        for v in variants(ctx, ops, [], rng, every=True):
            sessions.append(Sess("krp", [hx(rb(rng, kl)), hx(rb(rng, 12))], with_dumps(v, rng)))


def prg_rate(l, d, keyed):
    return 192 - l * (2 + d) // 16 if keyed else 192 - d * l // 4


def gen_prg(ctx, sessions):
    """absorb / squeeze / encr / decr steps of the automaton: every phase fragmented"""
    rng = ctx.rng
    thorough = ctx.tier == "thorough"
    cfgs = [(l, d, k) for l in (128, 192, 256) for d in (1, 2) for k in (0, 1)]
    for l, d, keyed in cfgs:
        B = prg_rate(l, d, keyed)
        ann = rb(rng, rng.choice((0, 4, 8)))
        key = rb(rng, rng.choice([x for x in (16, 24, 32, 40) if x >= l // 8])) if keyed else b""
        start = [str(l), str(d), hx(ann), hx(key)]
        big = thorough and (l, d) == (256, 2)
        for phase in (("A", "a"), ("S", "s")) + ((("E", "e"), ("D", "d")) if keyed else ()):
            for n in lengths(B, 2 if not big else 3):
                P = points(n, B)
                cs = list(cutsets(P, 3 if big else 1))
                if not thorough:
                    cs = rng.sample(cs, min(len(cs), 6))
                for cuts in cs:
                    msg = rb(rng, n)
                    fr = split(msg, cuts)
                    if phase[1] == "s":
                        steps = ["s:%d" % len(f) for f in fr]
                    else:
                        steps = [phase[1] + ":" + hx(f) for f in fr]
                    pre = rng.choice([[], ["A", "a:" + hx(rb(rng, rng.choice((1, B - 1, B, B + 3))))]])
                    ops = pre + [phase[0]] + steps + ["S", "s:%d" % rng.choice((8, B, B + 1))]
                    if len(ops) <= 50:
                        sessions.append(Sess("prg", start, ops))
                        sessions.append(Sess("prg", start, with_relocs(ops, rng, "all" if len(ops) < 20 else rng.randrange(len(ops)))))
        for _ in range(30 if thorough else 6):
            ops = []
            for _ in range(rng.randrange(2, 6)):
                ph = rng.choice("ASED" if keyed else "AS") if rng.random() < 0.85 else "T"
                ops.append(ph)
                if ph == "T":
                    continue
                for _ in range(rng.randrange(0, 4)):
                    n = rng.choice((0, 1, 7, B - 1, B, B + 1, 2 * B))
                    ops.append("s:%d" % n if ph == "S" else ph.lower() + ":" + hx(rb(rng, n)))
            ops += ["S", "s:16"]
            sessions.append(Sess("prg", start, with_relocs(ops, rng, rng.randrange(len(ops) + 1))))


def gen_brng(ctx, sessions):
    rng = ctx.rng
    thorough = ctx.tier == "thorough"
    # CTR with zero-filled buffers: every split; Get at every position
    ivs = [bytes([255] * 32), bytes([255] * 31 + [254]), bytes([254] + [255] * 31), bytes(32)]
    for n in lengths(32):
        for cuts in choose_cutsets(ctx, n, 32, interior=True):
            key = rb(rng, 32)
            iv = rng.choice(ivs) if rng.random() < 0.3 else rb(rng, 32)
            ops = ["r:" + hx(bytes(len(f))) for f in split(bytes(n), cuts)]
            if len(cuts) <= (3 if thorough else 1):
                vs = variants(ctx, ops, ["g"], rng, final="g", every=thorough and len(cuts) <= 2)
            else:
                vs = [ops + ["g"], with_relocs(ops + ["g"], rng, "all")]
            for v in vs:
                sessions.append(Sess("bctr", [hx(key), hx(iv)], v))
    # CTR with additional input in the buffers (correspondence; relocation / get oracles)
    for _ in range(300 if thorough else 60):
        ops = ["r:" + hx(rb(rng, rng.choice((0, 1, 5, 31, 32, 33, 63, 64, 65, 96)))) for _ in range(rng.randrange(1, 6))]
        for v in variants(ctx, ops, ["g"], rng, final="g"):
            sessions.append(Sess("bctr", [hx(rb(rng, 32)), hx(rb(rng, 32))], v))
    # HMAC: iv_len 0, 1..64, > 64 x key lengths x splits x relocation
    ivlens = (0, 1, 31, 32, 33, 63, 64, 65, 66, 100, 200)
    keylens = (0, 1, 31, 32, 33, 64, 65)
    for ivn in ivlens:
        for n in lengths(32, 3):
            cs = choose_cutsets(ctx, n, 32, interior=False)
            if not thorough:
                cs = rng.sample(cs, min(len(cs), 10))
            elif ivn not in (0, 64, 65):
                cs = [c for c in cs if len(c) <= 3]
            for cuts in cs:
                key, iv = rb(rng, rng.choice(keylens)), rb(rng, ivn)
                ops = ["r:%d" % len(f) for f in split(bytes(n), cuts)]
                vs = variants(ctx, ops, [], rng, every=thorough and len(cuts) <= 2) if len(cuts) <= 2 else [ops, with_relocs(ops, rng, "all")]
                for v in vs:
                    sessions.append(Sess("bhmac", [hx(key), hx(iv)], v))


SUITES = ["OCRA-1:HOTP-HBELT-6:QN08", "OCRA-1:HOTP-HBELT-8:C-QN08-PHBELT", "OCRA-1:HOTP-HBELT-7:QA10-T1M",
          "OCRA-1:HOTP-HBELT-6:C-QH64-S032", "OCRA-1:HOTP-HBELT-8:C-QN08-PSHA1-S016-T30S", "OCRA-1:HOTP-HBELT-6:C-QA04"]


def suite_info(s):
    ctr = ":C-" in s
    p = {"PHBELT": 32, "PSHA1": 20, "PSHA256": 32, "PSHA512": 64}
    pl = 0
    for k, v in p.items():
        if "-" + k in s:
            pl = v
    m = re.search(r"-S(\d\d\d)", s)
    sl = int(m.group(1)) if m else 0
    qm = int(re.search(r"Q[ANH](\d\d)", s).group(1))
    return ctr, pl, sl, qm, "-T" in s


def rand_otp(rng, dg):
    """a random password: mostly of the right length, sometimes one digit shorter / longer (a verification with a
    password of another length must not change what later calls return)"""
    n = rng.choice((dg, dg, dg, dg - 1, dg + 1))
    return hx(bytes(rng.choice(b"0123456789") for _ in range(n)))


def gen_botp(ctx, sessions):
    rng = ctx.rng
    thorough = ctx.tier == "thorough"
    ctrs = [bytes([255] * 8), bytes([0] * 7 + [255]), bytes([0] * 6 + [255, 255]), bytes([255] * 7 + [254]), bytes(8)]
    for _ in range(400 if thorough else 80):
        dg = rng.choice((6, 7, 8, 6, 8, 4, 9))
        key = rb(rng, rng.choice((0, 1, 16, 32, 33, 64, 65)))
        c = rng.choice(ctrs) if rng.random() < 0.5 else rb(rng, 8)
        ops = []
        for _ in range(rng.randrange(2, 9)):
            ops.append(rng.choice(["r", "r", "V", "N", "N", "v:" + rand_otp(rng, dg), "g",
                                   "S:" + hx(rng.choice(ctrs))]))
        ops += ["r", "g"]
        for v in (ops, with_relocs(ops, rng, "all"), with_relocs(ops, rng, rng.randrange(len(ops) + 1))):
            sessions.append(Sess("hotp", [str(dg), hx(key), hx(c)], v))
    for _ in range(200 if thorough else 40):
        dg = rng.choice((6, 7, 8, 4, 9))
        key = rb(rng, rng.choice((0, 1, 16, 32, 33, 64, 65)))
        ops = []
        for _ in range(rng.randrange(2, 8)):
            t = rng.choice((0, 1, 59, 2 ** 31, 2 ** 32, 2 ** 63, 2 ** 64 - 2, rng.randrange(2 ** 40)))
            ops.append(rng.choice(["r:%d" % t, "V:%d" % t, "v:%d:%s" % (t, rand_otp(rng, dg))]))
        ops += ["r:%d" % 12345]
        for v in (ops, with_relocs(ops, rng, "all"), with_relocs(ops, rng, rng.randrange(len(ops) + 1))):
            sessions.append(Sess("totp", [str(dg), hx(key)], with_dumps(v, rng)))
    for _ in range(300 if thorough else 60):
        su = rng.choice(SUITES)
        ctr, pl, sl, qm, ts = suite_info(su)
        key = rb(rng, rng.choice((0, 16, 32, 33, 65)))
        dg = int(su.split("HBELT-")[1][0])
        ops = ["S:%s:%s:%s" % (hx(rng.choice(ctrs)), hx(rb(rng, pl)), hx(rb(rng, sl)))]
        for _ in range(rng.randrange(2, 7)):
            q = rb(rng, rng.choice((4, qm - 1, qm, qm + 1, 2 * qm)))
            t = rng.choice((0, 1, 2 ** 32, rng.randrange(2 ** 40)))
            k = rng.choice(["r", "r", "V", "N", "N", "v", "g"])
            if k == "g":
                ops.append("g")
            elif k == "v":
                ops.append("v:%s:%d:%s" % (hx(q), t, rand_otp(rng, dg)))
            else:
                ops.append("%s:%s:%d" % (k, hx(q), t))
        ops += ["r:%s:%d" % (hx(rb(rng, 4)), 7), "g"]
        for v in (ops, with_relocs(ops, rng, "all"), with_relocs(ops, rng, rng.randrange(len(ops) + 1))):
            sessions.append(Sess("ocra", [hx(su.encode()), hx(key)], v))


def corpus_sessions():
    out = []
    p = os.path.join(VERIF, "gen", "c10_corpus.txt")
    if os.path.exists(p):
        for l in open(p):
            l = l.strip()
            if l and not l.startswith("#"):
                out.append(sess_of_line(l))
    return out


NSTART = {"ecb": 1, "cbc": 2, "cfb": 2, "ctr": 2, "bde": 2, "sde": 1, "mac": 1, "hash": 0, "hmac": 1, "dwp": 2, "che": 2,
          "krp": 2, "bhash": 1, "prg": 4, "bctr": 2, "bhmac": 2, "hotp": 3, "totp": 2, "ocra": 2}


def sess_of_line(l):
    w = l.split(" ")
    k = NSTART[w[0]]
    return Sess(w[0], w[1:1 + k], w[1 + k:])


def generate(ctx):
    sessions = []
    gen_stream(ctx, sessions)
    gen_absorb(ctx, sessions)
    gen_aead(ctx, sessions)
    gen_krp(ctx, sessions)
    gen_prg(ctx, sessions)
    gen_brng(ctx, sessions)
    gen_botp(ctx, sessions)
    ok = [s for s in sessions if 1 + len(s.start) + len(s.ops) <= 63]
    return ok


# ------------------------------------------------------------------------------------------ search oracle
GETLIKE = {
    "mac": ("g", "V", "v"), "hash": ("g", "V", "v"), "hmac": ("g", "V", "v"), "bhash": ("g", "V", "v"),
    "dwp": ("g", "V", "v"), "che": ("g", "V", "v"), "bctr": ("g",), "hotp": ("g",), "ocra": ("g",),
    "totp": ("r", "V", "v"),
}


def out_tokens(s, out):
    """list of (op, [output tokens]) or None if the output is not a well-formed answer"""
    toks = out.split(" ")
    need = sum(nout(o) for o in s.ops)
    if out in ("bad-op", "bad-format") or out.startswith("CRASH") or (len(toks) != need and not (need == 0 and out == "-")):
        return None
    res, i = [], 0
    for o in s.ops:
        k = nout(o)
        res.append((o, toks[i:i + k]))
        i += k
    return res


def is_getlike(s, op, outs):
    """tokens that the documentation allows to be followed by more processing without influence on it"""
    kind = op.split(":")[0]
    if kind in GETLIKE.get(s.b, ()):
        if s.b == "totp":
            return True
        return True
    if s.b in ("hotp", "ocra") and kind in ("N", "v", "V") and outs == ["0"]:
        return True       # failed verification: the counter must not advance
    return False


def strip_gets(s, pairs):
    """(stripped session, indices of the kept ops) — the last op is always kept (it is the observation)"""
    # `D` (dump of the scratch members) is dropped as well: Get-type calls legitimately change the scratch members
    dump = ("D",) if s.b in ("krp", "bhash", "totp") else ()      # in `prg` the token D is DecrStart
    calls_ = [i for i, (o, t) in enumerate(pairs) if o != "m" and o not in dump]
    last = calls_[-1] if calls_ else -1
    keep = [i for i in calls_ if i == last or not is_getlike(s, pairs[i][0], pairs[i][1])]
    keep_m = [i for i, (o, t) in enumerate(pairs) if o == "m" or i in keep]
    return Sess(s.b, s.start, [pairs[i][0] for i in keep_m]), keep_m


def strip_relocs(s):
    keep = [i for i, o in enumerate(s.ops) if o != "m"]
    return Sess(s.b, s.start, [s.ops[i] for i in keep]), keep


def bump(c):
    return ((int.from_bytes(c, "big") + 1) % 2 ** 64).to_bytes(8, "big")


def hl_requests(s, pairs):
    """one-shot expectations of a session: list of (hl_line or None, fn(hl_out) -> error text or None)"""
    reqs = []
    b = s.b
    st = s.start

    def cat(xs):
        return b"".join(xs)
    if b in ("ecb", "cbc", "cfb", "ctr", "bde"):
        dirs = set(o[0] for o, _ in pairs if o != "m")
        if len(dirs) == 1 or (b == "ctr" and dirs):
            d = "e" if b == "ctr" else dirs.pop()
            data = cat(unhx(o.split(":")[1]) for o, _ in pairs if o != "m")
            got = cat(unhx(t[0]) for o, t in pairs if o != "m")
            if b in ("ecb", "cbc") and len(data) < 16 or b == "bde" and (len(data) < 16):
                return reqs
            line = "hl %s %s %s %s" % (b, d, " ".join(st), hx(data))
            reqs.append((line, lambda h, got=got: None if h == hx(got) else "concatenated fragments %s != one-shot %s" % (hx(got), h)))
    elif b == "sde":
        for o, t in pairs:
            if o == "m":
                continue
            d, iv, x = o.split(":")
            line = "hl sde %s %s %s %s" % (d, st[0], iv, x)
            reqs.append((line, lambda h, t=t: None if h == t[0] else "sector on a used state %s != one-shot %s" % (t[0], h)))
    elif b in ("mac", "hash", "hmac", "bhash"):
        X = b""
        for o, t in pairs:
            f = o.split(":")
            if f[0] == "a":
                X += unhx(f[1])
            elif f[0] in ("g", "V", "v"):
                line = "hl %s %s%s" % (b, (" ".join(st) + " ") if st else "", hx(X))
                if f[0] == "g":
                    n = int(f[1])
                    reqs.append((line, lambda h, t=t, n=n: None if hx(unhx(h)[:n]) == t[0] else "Get %s != one-shot %s" % (t[0], h)))
                elif f[0] == "V":
                    reqs.append((None, lambda h, t=t: None if t[0] == "1" else "right tag rejected"))
                else:
                    tag = unhx(f[1])
                    reqs.append((line, lambda h, t=t, tag=tag: None if t[0] == ("1" if unhx(h)[:len(tag)] == tag else "0") else "verdict %s for tag %s, one-shot %s" % (t[0], hx(tag), h)))
    elif b in ("dwp", "che"):
        I, A, Ein, Eout = b"", b"", b"", b""
        dseen = False
        for o, t in pairs:
            f = o.split(":")
            if f[0] == "i":
                I += unhx(f[1])
            elif f[0] == "a":
                A += unhx(f[1])
            elif f[0] == "e":
                Ein += unhx(f[1]); Eout += unhx(t[0])
            elif f[0] == "E":
                Ein += unhx(f[1]); Eout += unhx(t[0]); A += unhx(t[0])
            elif f[0] == "d":
                dseen = True
            elif f[0] == "V":
                reqs.append((None, lambda h, t=t: None if t[0] == "1" else "right tag rejected"))
            elif f[0] == "g" and not dseen:
                if A == Eout:
                    line = "hl %s w %s %s %s" % (b, " ".join(st), hx(I), hx(Ein))
                    exp = hx(Eout) + " " + t[0]
                    reqs.append((line, lambda h, exp=exp: None if h == exp else "fragmented (ct mac) %s != Wrap %s" % (exp, h)))
                else:
                    line = "hl %s u %s %s %s %s" % (b, " ".join(st), hx(I), hx(A), t[0])
                    reqs.append((line, lambda h: None if not h.startswith("err") else "tag of the fragmented session rejected by Unwrap: " + h))
            elif f[0] == "v" and not dseen:
                line = "hl %s u %s %s %s %s" % (b, " ".join(st), hx(I), hx(A), f[1])
                reqs.append((line, lambda h, t=t: None if (t[0] == "1") == (not h.startswith("err")) else "StepV verdict %s but Unwrap says %s" % (t[0], h)))
        # decryption after verification: concat of d outputs == keystream applied to the concat -> via ctr/e
    elif b == "krp":
        for o, t in pairs:
            if o in ("m", "D"):
                continue
            _, n, h = o.split(":")
            line = "hl krp %s %s %s" % (n, " ".join(st), h)
            reqs.append((line, lambda hh, t=t: None if hh == t[0] else "StepG on a used state %s != one-shot %s" % (t[0], hh)))
    elif b == "bctr":
        bufs = [unhx(o.split(":")[1]) for o, _ in pairs if o.startswith("r:")]
        if all(x == bytes(len(x)) for x in bufs):
            tot, got = 0, b""
            for o, t in pairs:
                if o.startswith("r:"):
                    tot += len(unhx(o.split(":")[1])); got += unhx(t[0])
                elif o == "g" and tot > 0:
                    line = "hl bctr %s %s" % (" ".join(st), hx(bytes(tot)))
                    exp = hx(got) + " " + t[0]
                    reqs.append((line, lambda h, exp=exp: None if h == exp else "fragmented (data iv) %s != one-shot %s" % (exp, h)))
    elif b == "bhmac":
        tot = sum(int(o.split(":")[1]) for o, _ in pairs if o.startswith("r:"))
        got = cat(unhx(t[0]) for o, t in pairs if o.startswith("r:"))
        line = "hl bhmac %s %d" % (" ".join(st), tot)
        reqs.append((line, lambda h, got=got: None if h == hx(got) else "fragmented %s != one-shot %s" % (hx(got), h)))
    elif b == "hotp":
        dg, key, c = st
        c = unhx(c)
        if 6 <= int(dg) <= 8:
            for o, t in pairs:
                f = o.split(":")
                if f[0] == "S":
                    c = unhx(f[1])
                elif f[0] == "r":
                    line = "hl hotp %s %s %s" % (dg, key, hx(c))
                    reqs.append((line, lambda h, t=t: None if h == t[0] else "StepR %s != one-shot %s" % (t[0], h)))
                    c = bump(c)
                elif f[0] == "V":
                    reqs.append((None, lambda h, t=t: None if t[0] == "1" else "right password rejected"))
                    c = bump(c)
                elif f[0] == "N":
                    reqs.append((None, lambda h, t=t: None if t[0] == "0" else "password of the NEXT counter accepted"))
                elif f[0] == "v":
                    if t[0] == "1":
                        line = "hl hotp %s %s %s" % (dg, key, hx(c))
                        reqs.append((line, lambda h, o=f[1]: None if h == o else "accepted password %s != one-shot %s" % (o, h)))
                        c = bump(c)
                elif f[0] == "g":
                    reqs.append((None, lambda h, t=t, c=c: None if t[0] == hx(c) else "counter %s, expected %s" % (t[0], hx(c))))
    elif b == "totp":
        dg, key = st
        if 6 <= int(dg) <= 8:
            for o, t in pairs:
                f = o.split(":")
                if f[0] == "r" and int(f[1]) != 2 ** 64 - 1:
                    line = "hl totp %s %s %s" % (dg, key, f[1])
                    reqs.append((line, lambda h, t=t: None if h == t[0] else "StepR %s != one-shot %s" % (t[0], h)))
                elif f[0] == "V":
                    reqs.append((None, lambda h, t=t: None if t[0] == "1" else "right password rejected"))
    elif b == "ocra":
        su = unhx(st[0]).decode()
        ctr, pl, sl, qm, ts = suite_info(su)
        c, p, sd = bytes(8), bytes(pl), bytes(sl)
        have = False
        for o, t in pairs:
            f = o.split(":")
            if f[0] == "S":
                c, p, sd, have = unhx(f[1]) if ctr else c, unhx(f[2]), unhx(f[3]), True
            elif f[0] == "r" and have:
                line = "hl ocra %s %s %s %s %s %s %s" % (st[0], st[1], f[1], hx(c) if ctr else hx(bytes(8)), hx(p) if pl else "00", hx(sd) if sl else "00", f[2])
                reqs.append((line, lambda h, t=t: None if h == t[0] or h.startswith("err") else "StepR %s != one-shot %s" % (t[0], h)))
                if ctr:
                    c = bump(c)
            elif f[0] == "V":
                reqs.append((None, lambda h, t=t: None if t[0] == "1" else "right password rejected"))
                if ctr:
                    c = bump(c)
            elif f[0] == "N" and ctr:
                reqs.append((None, lambda h, t=t: None if t[0] == "0" else "password of the NEXT counter accepted"))
            elif f[0] == "v" and t[0] == "1" and ctr:
                c = bump(c)
            elif f[0] == "g" and ctr and have:
                reqs.append((None, lambda h, t=t, c=c: None if t[0] == hx(c) else "counter %s, expected %s" % (t[0], hx(c))))
    return reqs


def merge_prg(s):
    """the one-shot form of an automaton session: consecutive Steps of one command merged, relocations dropped;
    returns (session, groups) where groups[i] = indices of the original ops merged into op i"""
    ops, groups = [], []
    for i, o in enumerate(s.ops):
        if o == "m":
            continue
        k = o[0]
        if ":" in o and ops and ops[-1][0] == k and ":" in ops[-1] and k in "ased":
            if k == "s":
                ops[-1] = "s:%d" % (int(ops[-1][2:]) + int(o[2:]))
            else:
                ops[-1] = k + ":" + hx(unhx(ops[-1][2:]) + unhx(o[2:]))
            groups[-1].append(i)
        else:
            ops.append(o)
            groups.append([i])
    return Sess(s.b, s.start, ops), groups


def run_all(ctx, exe, lines):
    """outputs of the harness for ALL lines: after a crash (sanitizer abort) the line is marked CRASH(...) and the
    run continues behind it (a crash is a result for that line only)"""
    out, pos = [], 0
    while pos < len(lines):
        o, err, rc = ctx.run_lines(exe, lines[pos:])
        if rc == 0 and len(o) == len(lines) - pos:
            out += o
            break
        k = min(len(o), len(lines) - pos - 1)
        msg = err.strip().split("\n") or ["?"]
        summ = [l for l in msg if "ERROR" in l or "SUMMARY" in l or "Assertion" in l or "runtime error" in l][:3]
        out += o[:k] + ["CRASH(rc=%d): %s" % (rc, " | ".join(summ) or msg[-1][:200])]
        pos += k + 1
        if len(out) > 0 and sum(1 for x in out if x.startswith("CRASH")) > 200:
            out += ["CRASH(skipped: too many crashes)"] * (len(lines) - pos)
            break
    return out


def oracle(ctx, exe, sessions, c_out, label, limit=None):
    """the three implementation-only tests; returns list of (key, session, text)"""
    fails = []
    aux, aux_idx = [], {}

    def want(line):
        if line not in aux_idx:
            aux_idx[line] = len(aux)
            aux.append(line)
        return aux_idx[line]
    plan = []
    for si, s in enumerate(sessions):
        if limit is not None and si not in limit:
            continue
        out = c_out[si]
        pairs = out_tokens(s, out)
        if pairs is None:
            if out.startswith("CRASH"):
                fails.append(("%s:crash" % s.b, s, "sanitizer / crash: " + out[:300]))
            continue
        for line, fn in hl_requests(s, pairs):
            plan.append((s, "chunk", want(line) if line else None, fn))
        if any(o == "m" for o in s.ops):
            t, keep = strip_relocs(s)
            plan.append((s, "relocate", want(t.line()), (keep, pairs, t)))
        t, keep = strip_gets(s, pairs)
        if len(t.ops) != len(s.ops):
            plan.append((s, "get-then-continue", want(t.line()), (keep, pairs, t)))
        if s.b == "prg":
            t, groups = merge_prg(s)
            if len(t.ops) != len(s.ops):
                plan.append((s, "chunk", want(t.line()), (groups, pairs, t)))
    a_out = run_all(ctx, exe, aux) if aux else []
    seen = set()
    for s, kind, ai, arg in plan:
        key = "%s:%s" % (s.b, kind)
        if callable(arg):
            if ai is not None and a_out[ai].startswith("CRASH"):
                fails.append((key, s, "one-shot call crashed: %s -> %s" % (aux[ai][:300], a_out[ai][:300])))
                continue
            msg = arg(a_out[ai] if ai is not None else "")
            if msg:
                fails.append((key, s, msg + ("   [one-shot: %s]" % aux[ai] if ai is not None else "")))
        else:
            keep, pairs, t = arg
            tp = out_tokens(t, a_out[ai])
            if tp is None:
                fails.append((key, s, "derived session failed: %s -> %s" % (t.line()[:200], a_out[ai][:200])))
                continue
            if kind == "chunk":       # prg: merged
                for gi, grp in enumerate(keep):
                    a = "".join(x for i in grp for x in pairs[i][1] if x not in (".", "-"))
                    bb = "".join(x for x in tp[gi][1] if x not in (".", "-"))
                    if a != bb:
                        fails.append((key, s, "fragmented steps %s give %s, one merged step gives %s" % ([pairs[i][0] for i in grp], a, bb)))
                        break
            else:
                for j, i in enumerate(keep):
                    if pairs[i][1] != tp[j][1]:
                        fails.append((key, s, "%s: output of call #%d (%s) is %s, but %s without the %s" % (
                            kind, i, pairs[i][0][:60], pairs[i][1], tp[j][1], "relocations" if kind == "relocate" else "Get/Verify calls")))
                        break
    ctx.cov["oracle_checks_" + label] = len(plan)
    ctx.cov["oracle_aux_lines_" + label] = len(aux)
    return fails


def replay_text(key, s, what, cfg):
    return "\n".join(["# property C10 (%s), configuration %s" % (key, cfg), "# " + what.replace("\n", " ")[:1500],
                      "cfg " + cfg, "session " + s.line()]) + "\n"


# ------------------------------------------------------------------------------------------ run
def run(ctx):
    translator_error = None
    try:
        regen(ctx)
    except Exception as e:
        translator_error = "%s: %s" % (type(e).__name__, e)
    props = props_list()
    if translator_error:
        proof_ok, log = False, "translator: " + translator_error
    else:
        proof_ok, log = ctx.prove([p[:-5].replace("/", ".") for p in props], props)
    sessions = corpus_sessions() + generate(ctx)
    lines = [s.line() for s in sessions]
    ctx.cov["sessions"] = len(sessions)
    per = {}
    for s in sessions:
        per[s.b] = per.get(s.b, 0) + 1
    ctx.cov["sessions_per_bundle"] = per
    ctx.cov["relocations"] = sum(s.ops.count("m") for s in sessions)
    ctx.cov["get_verify_calls"] = sum(1 for s in sessions for o in s.ops if o[0] in "gVvN")
    ctx.cov["empty_fragments"] = sum(1 for s in sessions for o in s.ops if o.endswith(":-") or o.endswith(":0"))
    ctx.cov["max_fragments"] = max(len([o for o in s.ops if o != "m"]) for s in sessions)
    ctx.cov["distinct_nontrivial"] = len(set(lines))
    have_driver = os.path.exists(ctx.driver())
    reported = set()
    for cfg in ("asan", "w32"):
        exe = ctx.cc("harness/c10.c", cfg)
        mism = []
        c_out = run_all(ctx, exe, lines)
        if have_driver:
            l_out, l_err, lrc = ctx.run_lines(ctx.driver(), lines)
            if lrc != 0 or len(l_out) != len(lines):
                ctx.notes.append("Lean driver failed (rc=%d): %s" % (lrc, l_err[-300:]))
                mism = [(-1, "driver", "", "Lean driver failed (rc=%d): %s" % (lrc, l_err[-300:]))]
            else:
                mism = [(i, lines[i], c_out[i], l_out[i]) for i in range(len(lines)) if c_out[i] != l_out[i]]
        else:
            mism = [(-1, "driver", "", "drv_c10 was not built")]
        ctx.cov["ops_" + cfg] = len(lines)
        ctx.cov["ops_total"] = ctx.cov.get("ops_total", 0) + len(lines)
        ctx.cov["correspondence_disagreements_" + cfg] = len(mism)
        fails = oracle(ctx, exe, sessions[:len(c_out)], c_out, cfg)
        for key, s, text in fails:
            if (key, cfg) in reported:
                continue
            reported.add((key, cfg))
            ctx.violation(key, replay_text(key, s, text, cfg), True, "[%s] %s\n  session: %s" % (cfg, text, s.line()[:600]))
        if mism and not fails:
            bad = [m for m in mism if m[0] >= 0]
            seen_b = set()
            for i, op, c, l in bad:
                b = op.split(" ")[0]
                if b in seen_b:
                    continue
                seen_b.add(b)
                ctx.violation("%s:correspondence" % b, replay_text("%s:correspondence" % b, sessions[i], "impl %s | model %s" % (c[:400], l[:400]), cfg),
                              False, "[%s] model and implementation disagree on %d sessions (first of bundle %s): %s\n  impl  %s\n  model %s" % (
                                  cfg, len(bad), b, op[:300], c[:300], l[:300]))
            if not bad:
                ctx.violation("driver", "# C10: the Lean driver could not be run: %s\n" % mism[0][3], False, mism[0][3][:300])
        if cfg == "asan":
            for i in (0, len(lines) // 3, 2 * len(lines) // 3):
                ctx.samples.append({"session": lines[i][:300], "impl": c_out[i][:200]})
    if not proof_ok and not ctx.violations:
        errs = "\n".join("# " + l for l in log.split("\n") if "error" in l)[:3000]
        ctx.violation("proof", "# property C10: the theorems no longer check (%s); the search oracle found no failing session\n%s\n" % (
            translator_error or "; ".join(ctx.cov.get("lake_errors", [])), errs), False,
            "theorems no longer check: " + (translator_error or "; ".join(ctx.cov.get("lake_errors", [])) or log[-300:])[:400])
    ctx.samples.append({"theorem": "Bee2V.C10.no_pointer_members", "statement": "∀ r ∈ records, r.id ≠ brngHmacId → pointerCount r = 0"})
    return ctx.finish(
        level="proof",
        assumptions=[
            "executable models of C01 (belt) and C03 (bash, brng, botp) are tied to the sources by their own checks and, for "
            "SESSIONS, by this check's correspondence run (asan + w32)",
            "xlate/x_c10_structs.py reads clang-14's record layouts; uses of brng_hmac_st.iv are classified from the JSON AST (fail-closed)",
            "relocation is the identity in the model; faithful because of no_pointer_members / brng_hmac_iv_exception and the harness really moving the state",
            "brng.h: for iv_len > 64 the caller keeps the iv buffer valid (documented external pointer)",
        ],
        rule="sessions start;(step|get|verify|relocate)*: cut multisets over boundary points {0,1,kB-1,kB,kB+1,n-1,n} (+2 interior points per block) of "
             "messages of 0..4 internal blocks (quick: all <=2 cuts + sample of 3..5 cuts; thorough: ALL multisets of <=5 cuts = 1..6 fragments incl. empty ones), "
             "Get / right Verify / wrong Verify after every position, relocation between any two calls; ECB/CBC: all admissible block splits; "
             "distinct_nontrivial = number of distinct session lines",
        exhaustive=(ctx.tier == "thorough"))


def replay(ctx, path):
    cfg, line = "asan", None
    for l in open(path):
        l = l.rstrip("\n")
        if l.startswith("cfg "):
            cfg = l[4:].strip()
        elif l.startswith("session "):
            line = l[8:]
    if line is None:
        print("replay file names a theorem/correspondence, not a session: nothing to execute")
        return 0
    if line.startswith("hl "):
        exe = ctx.cc("harness/c10.c", cfg)
        out = ctx.run_lines(exe, [line])[0]
        print(line, "->", out)
        return 1 if (not out or out[0].startswith("CRASH")) else 0
    s = sess_of_line(line)
    exe = ctx.cc("harness/c10.c", cfg)
    out, err, rc = ctx.run_lines(exe, [line])
    if rc != 0 or not out:
        print("session crashes the harness:", err[-400:])
        return 1
    print("session :", line[:400])
    print("impl    :", out[0][:400])
    fails = oracle(ctx, exe, [s], out, "replay")
    for key, _, text in fails:
        print("FAILS %s: %s" % (key, text))
    if os.path.exists(ctx.driver()):
        l_out = ctx.run_lines(ctx.driver(), [line])[0]
        print("model   :", l_out[0][:400])
        if l_out[0] != out[0] and not fails:
            print("model and implementation disagree")
            return 1
    return 1 if fails else 0


# ------------------------------------------------------------------------------------------ C19 adapter
def c19_stream():
    """(harness, driver, fn(ctx, exe, w) -> op lines, uses_bash) for property C19 (all build configurations compute
    the same function): a QUICK-sized stream of sessions (corpus + at most 8000 generated sessions, every bundle
    represented), drawn with ctx.rng.  Sessions are octet-level (no word-size dependent token), so the 64-bit stream
    is replayed on the 32-bit-word build as well.  uses_bash = False: the bundle name `hash` is belt-hash here."""
    def fn(ctx, exe, w):
        saved = ctx.tier
        ctx.tier = "quick"
        try:
            sessions = generate(ctx)
        finally:
            ctx.tier = saved
        per = {}
        for s in sessions:
            per.setdefault(s.b, []).append(s)
        budget = 8000
        quota = max(1, budget // len(per))
        picked = []
        for b in sorted(per):
            l = per[b]
            picked += l if len(l) <= quota else ctx.rng.sample(l, quota)
        rest = budget - len(picked)
        if rest > 0:
            chosen = set(id(x) for x in picked)
            pool = [x for x in sessions if id(x) not in chosen]
            picked += ctx.rng.sample(pool, min(rest, len(pool)))
        return [s.line() for s in corpus_sessions()] + [s.line() for s in picked]
    return ("harness/c10.c", "drv_c10", fn, False)

#!/bin/bash
# builds /repo's HEAD working tree with the guard OFF in a scratch dir and runs the pinned suite
D=/var/tmp/bee2v.suite.$$
cmake -G Ninja -S /repo -B $D -DCMAKE_BUILD_TYPE=Release >/dev/null 2>&1 && cmake --build $D -j8 >/dev/null 2>&1 || { echo "BUILD FAILED"; rm -rf $D; exit 1; }
OUT=$($D/test/testbee2 2>&1); RC=$?
echo "testbee2 rc=$RC ok=$(echo "$OUT" | grep -c 'Test: OK') err=$(echo "$OUT" | grep -c 'Err')"
rm -rf $D

#!/bin/bash
# runs the thorough tier of the given checks sequentially on /repo (clean tree); log lines per check
cd /verif
for id in "$@"; do s=$(date +%s); r=$(./check $id --tier thorough 2>&1 | grep "^OK\|^VIOLATION\|^ERROR" | head -3 | tr '\n' ' '); echo "$id: $r ($(( $(date +%s) - s )) s)"; done

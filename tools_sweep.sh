#!/bin/bash
# usage: tools_sweep.sh <prop> <seed-id>...   -> one summary line per seeded change (private worktrees)
P=$1; shift
for s in "$@"; do
  out=$(timeout 2400 /verif/tools_try.sh /verif/seeded/$s/patch.diff $P 2>&1)
  if echo "$out" | grep -q "^VIOLATION"; then r="CAUGHT $(echo "$out" | grep -c '^VIOLATION') $(echo "$out" | grep '^VIOLATION' | head -1 | grep -o 'no-failing-input-found')"; elif echo "$out" | grep -q "^OK"; then r="MISSED"; else r="ERROR $(echo "$out" | tail -2 | tr '\n' ' ')"; fi
  echo "$P vs $s: $r"
done

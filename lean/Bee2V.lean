-- Root of the `Bee2V` library: every property module.
import Bee2V.C20.Props

-- Root of the `Bee2V` library: every property module (`./check --setup` builds this).
import Bee2V.C03.Props
import Bee2V.C08.Props
import Bee2V.C08.Props2
import Bee2V.C11.Props
import Bee2V.C14.Props
import Bee2V.Gen.C14Obl
import Bee2V.C14.PropsCmp
import Bee2V.C18.Props
import Bee2V.C20.Props

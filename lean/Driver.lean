/-
Line-protocol driver: reads one operation per line on stdin, writes one result line per
operation on stdout.  First token selects the area handler.  Imports models only (no
Mathlib), so it links as a native executable.
-/
import Bee2V.C20.Drv

def dispatch (line : String) : String :=
  match line.trimAscii.toString.splitOn " " with
  | "pwd" :: args => Bee2V.C20.Drv.handle args
  | _ => "bad-op"

partial def loop (hin : IO.FS.Stream) (hout : IO.FS.Stream) : IO Unit := do
  let line ← hin.getLine
  if line.isEmpty then return ()
  hout.putStrLn (dispatch line)
  loop hin hout

def main : IO Unit := do
  let hin ← IO.getStdin
  let hout ← IO.getStdout
  loop hin hout
  hout.flush

/-
Line-protocol helpers shared by the driver handlers (no Mathlib: the driver is a compiled exe).
Conventions: one operation per line, tokens separated by single spaces, octet strings in
lower-case hex ("-" for the empty string), naturals in decimal.
-/
namespace Bee2V.Proto

def hexDigit (c : Char) : Option Nat :=
  if '0' ≤ c ∧ c ≤ '9' then some (c.toNat - '0'.toNat)
  else if 'a' ≤ c ∧ c ≤ 'f' then some (c.toNat - 'a'.toNat + 10)
  else if 'A' ≤ c ∧ c ≤ 'F' then some (c.toNat - 'A'.toNat + 10)
  else none

def parseHexAux : List Char → List UInt8 → Option (List UInt8)
  | [], acc => some acc.reverse
  | [_], _ => none
  | a :: b :: rest, acc =>
    match hexDigit a, hexDigit b with
    | some x, some y => parseHexAux rest (UInt8.ofNat (16 * x + y) :: acc)
    | _, _ => none

/-- "-" is the empty octet string -/
def parseHex (s : String) : Option (List UInt8) :=
  if s = "-" then some [] else parseHexAux s.toList []

def hexChar (n : Nat) : Char :=
  if n < 10 then Char.ofNat ('0'.toNat + n) else Char.ofNat ('a'.toNat + n - 10)

def toHex (bs : List UInt8) : String :=
  if bs.isEmpty then "-" else
  String.ofList (bs.foldr (fun b acc => hexChar (b.toNat / 16) :: hexChar (b.toNat % 16) :: acc) [])

def toHexA (bs : Array UInt8) : String := toHex bs.toList

/-- little-endian octets -> Nat -/
def leNat (bs : List UInt8) : Nat := bs.foldr (fun b acc => b.toNat + 256 * acc) 0

/-- Nat -> n little-endian octets (truncating) -/
def natLE : Nat → Nat → List UInt8
  | 0, _ => []
  | n + 1, v => UInt8.ofNat (v % 256) :: natLE n (v / 256)

def parseNat (s : String) : Option Nat := s.toNat?

end Bee2V.Proto

namespace Bee2V.Proto

partial def loopAux (hin hout : IO.FS.Stream) (dispatch : List String → String) : IO Unit := do
  let line ← hin.getLine
  if line.isEmpty then return ()
  hout.putStrLn (dispatch (line.trimAscii.toString.splitOn " "))
  loopAux hin hout dispatch

/-- the line loop of every per-area driver: one op per line in, one result line out -/
def runLoop (dispatch : List String → String) : IO Unit := do
  let hin ← IO.getStdin
  let hout ← IO.getStdout
  loopAux hin hout dispatch
  hout.flush

end Bee2V.Proto

/-
C10 — refined models of the three bundles whose C01/C03 model state carries NO scratch fields, so that "Get does
not disturb the state" would be structural there: KRP (`belt_krp_st`: `block`, `key_new`), bash hash
(`bash_hash_st`: `s1`), TOTP (`botp_totp_st`: `t`, `mac`, `otp`, the working copy of the HMAC state).
The refined states have the members of the C structs (field lists: Bee2V.Gen.C10Structs); what the memory of the
state held before `Start` is a parameter (`junk…`: Start does not initialise the scratch members; the harness
fills the block with 0xC3).  The driver runs THESE machines and dumps the scratch members (`D` token), the
theorems of PropsRefined.lean show that they refine the C01/C03 machines.  No Mathlib.
-/
import Bee2V.C10.Machines
namespace Bee2V.C10
open Bee2V Bee2V.Gen.C01

/-! ### KRP: `belt_krp_st { u32 key[8]; size_t len; u32 block[8]; u32 key_new[8]; }` -/

structure KrpR where
  key : Bytes        -- formatted key (32 octets)
  len : Nat
  block : Bytes      -- r ‖ level ‖ header (32 octets)
  keyNew : Bytes     -- 32 octets
  deriving Repr

/-- `beltKRPStart`: `beltKeyExpand2(st->key, key, len); st->len = len; u32From(st->block + 1, level, 12)` —
`block[0..4)`, `block[16..32)` and `key_new` keep whatever the memory held -/
def krpRStart (key level junkBlock junkKeyNew : Bytes) : KrpR :=
  ⟨C01.fmtKey key, key.length, C01.putAt junkBlock 4 level, junkKeyNew⟩

/-- `beltKRPStepG(key_, key_len, header, state)`:
`u32From(block, H + 4(len−16) + 2(key_len−16), 4); u32From(block + 4, header, 16); key_new ← key;
beltCompr(key_new, block); u32To(key_, key_len, key_new)` -/
def krpRStepG (C : C01.Cipher) (st : KrpR) (keyLen : Nat) (header : Bytes) : KrpR × Bytes :=
  let r := (H.toList.drop (4 * (st.len - 16) + 2 * (keyLen - 16))).take 4
  let block := C01.putAt (C01.putAt st.block 0 r) 16 header
  let keyNew := C01.compr C st.key block
  ({ st with block := block, keyNew := keyNew }, keyNew.take keyLen)

def krpRB (C : C01.Cipher) : Bundle KrpR KrpOp :=
  { step := fun st op => match op with
      | .get n h => let r := krpRStepG C st n h; (r.1, .data r.2),
    isGet := fun _ => true }

/-- the documented preconditions of `beltKRPStepG`: `key_len ∈ {16, 24, 32}`, `header[16]` -/
def KrpOp.ok : KrpOp → Prop
  | .get n h => (n = 16 ∨ n = 24 ∨ n = 32) ∧ h.length = 16

/-- what the abstract C01 state sees of the refined one: `level` lives in `block[4..16)` -/
def KrpR.abs (st : KrpR) : C01.KrpSt := ⟨st.key, st.len, (st.block.drop 4).take 12⟩

/-! ### bash hash: `bash_hash_st { octet s[192]; octet s1[192]; size_t buf_len; size_t pos; }` -/

structure BashHashR where
  sp : C03.Sp        -- s, buf_len, pos
  s1 : Bytes         -- copy of s used by StepG / StepV
  deriving Repr

def bashHashRStart (l : Nat) (junkS1 : Bytes) : BashHashR := ⟨C03.hashStart l, junkS1⟩

/-- `bashHashStepG_internal`: `memCopy(s1, s, 192)`, pad inside `s1`, `bashF(s1)` — `s`, `pos` untouched -/
def bashHashRFinish (F : Bytes → Bytes) (st : BashHashR) : BashHashR :=
  let s1 := st.sp.s
  let s1 :=
    if st.sp.pos ≠ 0 then
      ((C03.opAt C03.copyOp s1 st.sp.pos (C03.zeros (st.sp.bufLen - st.sp.pos))).1).set st.sp.pos 0x40
    else
      ((C03.opAt C03.copyOp s1 0 (C03.zeros st.sp.bufLen)).1).set 0 0x40
  { st with s1 := F s1 }

def bashHashRB (F : Bytes → Bytes) : Bundle BashHashR AOp :=
  { step := fun st op => match op with
      | .absorb d => ({ st with sp := C03.hashStepH F d st.sp }, .none)
      | .get n => let st := bashHashRFinish F st; (st, .data (st.s1.take n))
      | .verify t => let st := bashHashRFinish F st; (st, .verdict (decide (t = st.s1.take t.length))),
    isGet := AOp.isGet }

/-! ### TOTP: `botp_totp_st { size_t digit; octet t[8]; octet mac[32]; char otp[10]; stack = 2 HMAC states }` -/

structure TotpR where
  digit : Nat
  t : Bytes                     -- octet t[8]
  mac : Bytes                   -- octet mac[32]
  otp : Bytes                   -- char otp[10]
  work : C03.Belt.HmacSt        -- stack[0 .. keep): working copy
  keySt : C03.Belt.HmacSt       -- stack[keep .. 2 keep): beltHMAC state after the key

/-- `botpTOTPStart`: only `digit` and the key state are written -/
def totpRStart (digit : Nat) (key junkT junkMac junkOtp : Bytes) : TotpR :=
  ⟨digit, junkT, junkMac, junkOtp, C03.Belt.hmacStart [], C03.Belt.hmacStart key⟩

/-- `botpTOTPStepR(otp, t, state)`: `memCopy(stack, stack + keep, keep); botpTimeToCtr(st->t, t);
beltHMACStepA(st->t, 8, stack); beltHMACStepG(st->mac, stack); botpDT(otp, digit, mac, 32)` -/
def totpRStepR (st : TotpR) (t : Nat) : TotpR × Bytes :=
  let tt := C03.botpTimeToCtr t
  let work := C03.Belt.hmacStepA tt st.keySt
  let mac := C03.Belt.hmacStepG work
  ({ st with t := tt, work := work, mac := mac }, C03.botpDT st.digit mac)

/-- `botpTOTPStepV(otp, t, state)`: `botpTOTPStepR(st->otp, t, state); return strEq(st->otp, otp)` — the password
(with its terminating NUL) is written into `st->otp` -/
def totpRStepV (st : TotpR) (t : Nat) (otp : Bytes) : TotpR × Bool :=
  let r := totpRStepR st t
  ({ r.1 with otp := C01.putAt r.1.otp 0 (r.2 ++ [0]) }, decide (r.2 = otp))

def totpRB : Bundle TotpR TotpOp :=
  { step := fun st op => match op with
      | .next t => let r := totpRStepR st t; (r.1, .data r.2)
      | .verify t o => let r := totpRStepV st t o; (r.1, .verdict r.2),
    isGet := fun _ => true }

def TotpR.abs (st : TotpR) : TotpSt := ⟨st.digit, st.keySt⟩

end Bee2V.C10

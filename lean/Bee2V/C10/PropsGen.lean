/-
C10 property theorems — bash (hash, programmable automaton) and botp (HOTP, TOTP, OCRA) bundles:
chunk independence and get-then-continue, about exactly the state machines `bashHashB`, `prgB`, `hotpB`, `totpB`,
`ocraB` of `Machines.lean`.  `F` (the sponge function) is arbitrary.  The chunk-independence facts of the sponge
skeleton are lifted from C03 (`C03.bashHash_chunk_independent`, `C03.stepGen_append`).
Only property theorems and non-vacuity examples; helper lemmas are in `LemmasGen.lean`.
-/
import Bee2V.C10.LemmasGen
namespace Bee2V.C10
open Bee2V.C10.Gen

/-! ### bash hash -/

/-- CHUNK INDEPENDENCE of bash-hash: from every state with `pos < buf_len` (the invariant; `bashHashStart` makes
it, next theorem), any list of `bashHashStepH` fragments leaves EXACTLY the state of one call on the
concatenation -/
theorem chunk_indep_bashHash (F : Bytes → Bytes) (st : C03.Sp) (h : st.pos < st.bufLen) (cs : List Bytes) :
    after (bashHashB F) st (calls AOp.absorb cs) = C03.hashStepH F cs.flatten st := by
  rw [bashHash_after, C03.bashHash_chunk_independent F cs st h]

/-- ... hence a `bashHashStepG` after the fragments returns the hash of the concatenation -/
theorem chunk_indep_bashHash_get (F : Bytes → Bytes) (st : C03.Sp) (h : st.pos < st.bufLen) (cs : List Bytes)
    (n : Nat) :
    ((bashHashB F).step (after (bashHashB F) st (calls AOp.absorb cs)) (.get n)).2 =
      .data (C03.hashStepG F n (C03.hashStepH F cs.flatten st)) := by
  rw [chunk_indep_bashHash F st h cs]
  rfl

/-- from `bashHashStart(l)`, `l ≤ 256`: fragments + StepG = the one-shot Start, StepH, StepG -/
theorem chunk_indep_bashHash_start (F : Bytes → Bytes) (l : Nat) (hl : l ≤ 256) (cs : List Bytes) (n : Nat) :
    outs (bashHashB F) (C03.hashStart l) (calls AOp.absorb cs ++ [.op (.get n)]) =
      List.replicate cs.length .none ++ [.data (C03.hashStepG F n (C03.hashStepH F cs.flatten (C03.hashStart l)))] := by
  have h := chunk_indep_bashHash_get F _ (C03.bashHashStart_inv l hl) cs n
  have ho : ∀ (cs : List Bytes) (st : C03.Sp),
      outs (bashHashB F) st (calls AOp.absorb cs) = List.replicate cs.length .none := by
    intro cs
    induction cs with
    | nil => intro st; rfl
    | cons c cs ih =>
      intro st
      show Out.none :: outs (bashHashB F) (C03.hashStepH F c st) (calls AOp.absorb cs) = _
      rw [ih]; rfl
  simp only [outs, run_append, run] at ho h ⊢
  rw [ho]
  show _ ++ [((bashHashB F).step (after (bashHashB F) (C03.hashStart l) (calls AOp.absorb cs)) (.get n)).2] = _
  rw [h]

/-- 5 octets cut 2 + 0 + 3 at level 256 (rate 64), a toy sponge function -/
example :
    let F : Bytes → Bytes := fun s => s.map (· + 1)
    (C03.hashStart 256).pos < (C03.hashStart 256).bufLen ∧
    outs (bashHashB F) (C03.hashStart 256) (calls AOp.absorb [[1, 2], [], [3, 4, 5]] ++ [.op (.get 4)]) =
      [.none, .none, .none, .data [2, 3, 4, 5]] ∧
    C03.hashStepG F 4 (C03.hashStepH F [1, 2, 3, 4, 5] (C03.hashStart 256)) = [2, 3, 4, 5] := by decide +kernel

/-- GET-THEN-CONTINUE of bash-hash, from EVERY state: StepG / StepV work on a copy (`s1`) -/
theorem get_observational_bashHash (F : Bytes → Bytes) (st : C03.Sp) : GetObservational (bashHashB F) st :=
  getObservational_of_getId (bashHashB F) (bashHash_getId F) st

example :
    let F : Bytes → Bytes := fun s => s.map (· + 1)
    let st := C03.hashStart 256
    outs (bashHashB F) (after (bashHashB F) st [.op (.absorb [1, 2]), .op (.verify [0])]) [.op (.absorb [3]), .op (.get 3)] =
      outs (bashHashB F) (after (bashHashB F) st [.op (.absorb [1, 2])]) [.op (.absorb [3]), .op (.get 3)] ∧
    outs (bashHashB F) st [.op (.absorb [1, 2]), .op (.verify [0])] = [.none, .verdict false] := by decide +kernel

/-! ### the programmable automaton -/

/-- CHUNK INDEPENDENCE of `bashPrgAbsorbStep` (no output: the state) -/
theorem chunk_indep_prg_absorb (F : Bytes → Bytes) (st : C03.PrgSt) (h : st.sp.pos < st.sp.bufLen) (cs : List Bytes) :
    after (prgB F) st (calls PrgOp.absorb cs) = C03.prgAbsorbStep F cs.flatten st :=
  prg_absorb_run F cs st h

/-- CHUNK INDEPENDENCE of `bashPrgEncrStep`: output and final state of any fragmentation = one call -/
theorem chunk_indep_prg_encr (F : Bytes → Bytes) (st : C03.PrgSt) (h : st.sp.pos < st.sp.bufLen) (cs : List Bytes) :
    dataOf (outs (prgB F) st (calls PrgOp.encr cs)) = (C03.prgEncrStep F cs.flatten st).2 ∧
    after (prgB F) st (calls PrgOp.encr cs) = (C03.prgEncrStep F cs.flatten st).1 := by
  have := prg_run F C03.encOp PrgOp.encr id (fun _ _ => rfl) cs st h
  rw [List.map_id] at this
  exact ⟨this.2, this.1⟩

/-- CHUNK INDEPENDENCE of `bashPrgDecrStep` -/
theorem chunk_indep_prg_decr (F : Bytes → Bytes) (st : C03.PrgSt) (h : st.sp.pos < st.sp.bufLen) (cs : List Bytes) :
    dataOf (outs (prgB F) st (calls PrgOp.decr cs)) = (C03.prgDecrStep F cs.flatten st).2 ∧
    after (prgB F) st (calls PrgOp.decr cs) = (C03.prgDecrStep F cs.flatten st).1 := by
  have := prg_run F C03.decOp PrgOp.decr id (fun _ _ => rfl) cs st h
  rw [List.map_id] at this
  exact ⟨this.2, this.1⟩

/-- CHUNK INDEPENDENCE of `bashPrgSqueezeStep`: squeezing `n1, n2, …` octets in turn = squeezing `n1 + n2 + …`
octets at once (the prior content of the output buffer is irrelevant to the model: zero buffers) -/
theorem chunk_indep_prg_squeeze (F : Bytes → Bytes) (st : C03.PrgSt) (h : st.sp.pos < st.sp.bufLen) (ns : List Nat) :
    dataOf (outs (prgB F) st (ns.map (fun n => Call.op (PrgOp.squeeze n)))) =
      (C03.prgSqueezeStep F (C03.zeros ns.sum) st).2 ∧
    after (prgB F) st (ns.map (fun n => Call.op (PrgOp.squeeze n))) =
      (C03.prgSqueezeStep F (C03.zeros ns.sum) st).1 := by
  have := prg_run F C03.sqzOp PrgOp.squeeze C03.zeros (fun _ _ => rfl) ns st h
  rw [zeros_flatten] at this
  exact ⟨this.2, this.1⟩

/-- a state with `pos < buf_len`, rate 4, toy sponge function: fragments that end inside a block, cross a block
boundary, are empty -/
example :
    let F : Bytes → Bytes := fun s => s.map (· + 1)
    let st : C03.PrgSt := ⟨128, 1, ⟨[1, 2, 3, 4, 5, 6], 4, 1⟩, []⟩
    st.sp.pos < st.sp.bufLen ∧
    dataOf (outs (prgB F) st (calls PrgOp.encr [[10, 20], [], [30, 40, 50, 60, 70]])) =
      (C03.prgEncrStep F [10, 20, 30, 40, 50, 60, 70] st).2 ∧
    (C03.prgEncrStep F [10, 20, 30, 40, 50, 60, 70] st).2 ≠ [10, 20, 30, 40, 50, 60, 70] ∧
    dataOf (outs (prgB F) st (calls PrgOp.decr [[10, 20], [], [30, 40, 50, 60, 70]])) =
      (C03.prgDecrStep F [10, 20, 30, 40, 50, 60, 70] st).2 ∧
    dataOf (outs (prgB F) st ([2, 0, 5].map (fun n => Call.op (PrgOp.squeeze n)))) =
      (C03.prgSqueezeStep F (C03.zeros 7) st).2 ∧
    (after (prgB F) st (calls PrgOp.absorb [[10, 20], [], [30, 40, 50, 60, 70]])).sp =
      (C03.prgAbsorbStep F [10, 20, 30, 40, 50, 60, 70] st).sp := by decide +kernel

/-! ### TOTP -/

/-- no TOTP call changes the state (`t`, `mac`, `otp` are scratch rewritten by every call before use):
after ANY session the state is the start state -/
theorem totp_state_const (st : TotpSt) (s : List (Call TotpOp)) : after totpB st s = st :=
  totp_after s st

/-- hence every call of ANY session returns what the same call returns as the first call:
`StepR(t)` the one-shot password `botpTOTPRand(digit, key, t)`, `StepV(t, otp)` the corresponding verdict -/
theorem totp_outs_spec (st : TotpSt) (s : List (Call TotpOp)) : outs totpB st s = s.map (totpSpecOut st) :=
  totp_outs s st

/-- every `StepR(t)` in any session returns `totpStepR digit key t` -/
theorem totp_next_spec (st : TotpSt) (pre : List (Call TotpOp)) (t : Nat) :
    (totpB.step (after totpB st pre) (.next t)).2 = .data (C03.totpStepR st.digit st.keySt t) := by
  rw [totp_after]; rfl

/-- GET-THEN-CONTINUE of TOTP (every call is Get-type), from every state -/
theorem get_observational_totp (st : TotpSt) : GetObservational totpB st :=
  getObservational_of_getId totpB (fun s g _ => by cases g <;> rfl) st

/-- non-vacuity.  (Evaluating belt-HMAC in the kernel takes minutes, so the examples observe what does not need the
MAC value: a 6-digit password is never the empty string — the verdict `false` is decided structurally — and the
symbolic instances below cover the successful verdict.) -/
example :
    let st := totpStart 6 [1, 2, 3]
    let s : List (Call TotpOp) := [.op (.verify 5 []), .reloc, .op (.next 5), .op (.next 6)]
    (outs totpB st s)[0]? = some (.verdict false) ∧ (outs totpB st s)[1]? = some .none ∧
    (after totpB st s).digit = 6 := by decide +kernel
/-- the password of `StepR(t)` verifies at time `t`, in any session -/
example (st : TotpSt) (pre : List (Call TotpOp)) (t : Nat) :
    (totpB.step (after totpB st pre) (.verify t (C03.totpStepR st.digit st.keySt t))).2 = .verdict true := by
  rw [totp_state_const]
  show Out.verdict (C03.totpStepV _ _ _ _) = _
  simp only [C03.totpStepV, decide_true]

/-! ### HOTP -/

/-- the `k`-th `StepR` of a run of `StepR` calls returns the one-shot password for the counter advanced `k` times
(`botpHOTPRand(digit, key, ctr + k)`; `botpCtrNext` = +1 mod 2^64 by `C03.botpCtrNext_eq`) -/
theorem hotp_next_spec (st : C03.HotpSt) (n : Nat) :
    outs hotpB st (List.replicate n (.op .next)) =
      (List.range n).map (fun k =>
        Out.data (C03.hotpStepR { st with ctr := Nat.repeat C03.botpCtrNext k st.ctr }).2) :=
  hotp_next_outs n st

/-- GET-THEN-CONTINUE of HOTP (`StepG` returns the counter), from every state -/
theorem get_observational_hotp (st : C03.HotpSt) : GetObservational hotpB st :=
  getObservational_of_getId hotpB hotp_getId st

/-- a FAILING `StepV` leaves the state unchanged (the counter does not advance) -/
theorem hotp_verify_fail_unobservable (st : C03.HotpSt) (o : Bytes) (h : (C03.hotpStepV o st).2 = false) :
    (hotpB.step st (.verify o)).1 = st :=
  hotp_verify_fail o st h

/-- a SUCCESSFUL `StepV` leaves the state of a `StepR` call (the counter advances once), and the password is the
one `StepR` would have returned -/
theorem hotp_verify_ok_advances (st : C03.HotpSt) (o : Bytes) (h : (C03.hotpStepV o st).2 = true) :
    (hotpB.step st (.verify o)).1 = (hotpB.step st .next).1 ∧ (hotpB.step st .next).2 = .data o := by
  have := hotp_verify_ok o st h
  exact ⟨this.1, by show Out.data (C03.hotpStepR st).2 = _; rw [this.2]⟩

/-- failed-Verify-then-continue: after any session `pre`, a failing `StepV` followed by any session `post` yields
the outputs of `post` without that call -/
theorem hotp_failed_verify_observational (st : C03.HotpSt) (pre post : List (Call HotpOp)) (o : Bytes)
    (h : (C03.hotpStepV o (after hotpB st pre)).2 = false) :
    outs hotpB (after hotpB st (pre ++ [.op (.verify o)])) post = outs hotpB (after hotpB st pre) post :=
  outs_skip hotpB st pre post (.verify o) (hotp_verify_fail o _ h)

/-- non-vacuity: `StepR`, a failing `StepV` (empty password against 6 digits), relocation, `StepG`, `StepR`, `StepG`:
the failing `StepV` did not advance the counter -/
example :
    let st := C03.hotpStart 6 [1, 2, 3]
    let s : List (Call HotpOp) := [.op .next, .op (.verify []), .reloc, .op .get, .op .next, .op .get]
    (C03.hotpStepV [] (after hotpB st [.op .next])).2 = false ∧
    (outs hotpB st s)[1]? = some (.verdict false) ∧
    (outs hotpB st s)[3]? = some (.data [0, 0, 0, 0, 0, 0, 0, 1]) ∧
    (outs hotpB st s)[5]? = some (.data [0, 0, 0, 0, 0, 0, 0, 2]) ∧
    Nat.repeat C03.botpCtrNext 3 [0, 0, 0, 0, 0, 0, 0xFF, 0xFE] = [0, 0, 0, 0, 0, 1, 0, 1] := by decide +kernel
/-- both verdicts occur from EVERY state: the password of `StepR` verifies, a longer one does not -/
example (st : C03.HotpSt) : (C03.hotpStepV (C03.hotpStepR st).2 st).2 = true := by
  simp only [C03.hotpStepV, if_true]
example (st : C03.HotpSt) : (C03.hotpStepV ((C03.hotpStepR st).2 ++ [0]) st).2 = false := by
  have hne : ¬ (C03.hotpStepR st).2 = (C03.hotpStepR st).2 ++ [0] := by
    intro h
    have := congrArg List.length h
    simp only [List.length_append, List.length_cons, List.length_nil] at this
    omega
  simp only [C03.hotpStepV, if_neg hne]

/-! ### OCRA -/

/-- the `k`-th `StepR(q_k, t_k)` of a run of `StepR` calls returns the one-shot password for the counter advanced
`k` times (not at all for a suite without counter): see `ocraNextOuts` -/
theorem ocra_next_spec (st : C03.OcraSt) (qts : List (Bytes × Nat)) :
    outs ocraB st (qts.map (fun qt => Call.op (OcraOp.next qt.1 qt.2))) = ocraNextOuts st 0 qts := by
  have := ocra_next_outs st qts 0
  rw [ocraCtrAt_zero] at this
  exact this

/-- GET-THEN-CONTINUE of OCRA (`StepG` returns the counter), from every state -/
theorem get_observational_ocra (st : C03.OcraSt) : GetObservational ocraB st :=
  getObservational_of_getId ocraB ocra_getId st

/-- a FAILING `StepV` leaves the state unchanged: the code restores the saved counter, and `StepR` changes nothing
else -/
theorem ocra_verify_fail_unobservable (st : C03.OcraSt) (q : Bytes) (t : Nat) (o : Bytes)
    (h : (C03.ocraStepV o q t st).2 = false) : (ocraB.step st (.verify q t o)).1 = st :=
  ocra_verify_fail o q t st h

/-- a SUCCESSFUL `StepV` leaves the state of the `StepR` call with the same `q`, `t` -/
theorem ocra_verify_ok_advances (st : C03.OcraSt) (q : Bytes) (t : Nat) (o : Bytes)
    (h : (C03.ocraStepV o q t st).2 = true) :
    (ocraB.step st (.verify q t o)).1 = (ocraB.step st (.next q t)).1 ∧ (ocraB.step st (.next q t)).2 = .data o := by
  have := ocra_verify_ok o q t st h
  exact ⟨this.1, by show Out.data (C03.ocraStepR q t st).2 = _; rw [this.2]⟩

theorem ocra_failed_verify_observational (st : C03.OcraSt) (pre post : List (Call OcraOp)) (q : Bytes) (t : Nat)
    (o : Bytes) (h : (C03.ocraStepV o q t (after ocraB st pre)).2 = false) :
    outs ocraB (after ocraB st (pre ++ [.op (.verify q t o)])) post = outs ocraB (after ocraB st pre) post :=
  outs_skip ocraB st pre post (.verify q t o) (ocra_verify_fail o q t _ h)

/-- non-vacuity: a state as `botpOCRAStart("OCRA-1:HOTP-HBELT-6:C-QN08", key)` makes it (6 digits, 8-octet counter);
`StepR`, a failing `StepV`, `StepG`, `StepR`, `StepG`: the failing `StepV` restored the counter; and a suite without
counter, where `StepR` leaves the counter alone -/
example :
    let st : C03.OcraSt := { digit := 6, ctrLen := 8, qType := 78, qMax := 8, keySt := C03.Belt.hmacStart [1, 2, 3] }
    let st' : C03.OcraSt := { digit := 6, ctrLen := 0, qType := 78, qMax := 8, keySt := C03.Belt.hmacStart [1, 2, 3] }
    let s : List (Call OcraOp) := [.op (.next [1, 2] 0), .op (.verify [3] 0 []), .reloc, .op .get, .op (.next [4] 0),
      .op .get]
    (C03.ocraStepV [] [3] 0 (after ocraB st [.op (.next [1, 2] 0)])).2 = false ∧
    (outs ocraB st s)[1]? = some (.verdict false) ∧
    (outs ocraB st s)[3]? = some (.data [0, 0, 0, 0, 0, 0, 0, 1]) ∧
    (outs ocraB st s)[5]? = some (.data [0, 0, 0, 0, 0, 0, 0, 2]) ∧
    (outs ocraB st' s)[5]? = some (.data [0, 0, 0, 0, 0, 0, 0, 0]) ∧
    ocraCtrAt st 2 = [0, 0, 0, 0, 0, 0, 0, 2] ∧ ocraCtrAt st' 2 = [0, 0, 0, 0, 0, 0, 0, 0] := by decide +kernel
example (st : C03.OcraSt) (q : Bytes) (t : Nat) : (C03.ocraStepV (C03.ocraStepR q t st).2 q t st).2 = true := by
  simp only [C03.ocraStepV, if_true]
example (st : C03.OcraSt) (q : Bytes) (t : Nat) :
    (C03.ocraStepV ((C03.ocraStepR q t st).2 ++ [0]) q t st).2 = false := by
  have hne : ¬ (C03.ocraStepR q t st).2 = (C03.ocraStepR q t st).2 ++ [0] := by
    intro h
    have := congrArg List.length h
    simp only [List.length_append, List.length_cons, List.length_nil] at this
    omega
  simp only [C03.ocraStepV, if_neg hne]

end Bee2V.C10

/-
C10 helper lemmas for the bash (hash, programmable automaton) and botp (HOTP, TOTP, OCRA) bundles.
The chunk-independence facts of the sponge skeleton are LIFTED from C03 (`stepGen_append`, `stepChunks_eq`,
`bashHash_chunk_independent`), not re-proved; here they are restated for sessions of the C10 bundles.
-/
import Bee2V.C10.Stmts
import Bee2V.C03.Props
namespace Bee2V.C10.Gen
open Bee2V

/-! ### Get/Verify-type calls that leave the model state alone -/

/-- if every Get-type call returns the state unchanged, get-then-continue holds from every state -/
theorem getObservational_of_getId {σ ι : Type} (B : Bundle σ ι)
    (h : ∀ s g, B.isGet g = true → (B.step s g).1 = s) (s0 : σ) : GetObservational B s0 :=
  getObservational_of_sim B (fun s a => s = a) B.step
    (fun s a i e => by subst e; exact ⟨rfl, rfl⟩) h s0 s0 rfl

/-- a call that returns the state unchanged can be dropped from a session -/
theorem outs_skip {σ ι : Type} (B : Bundle σ ι) (s0 : σ) (pre post : List (Call ι)) (i : ι)
    (h : (B.step (after B s0 pre) i).1 = after B s0 pre) :
    outs B (after B s0 (pre ++ [.op i])) post = outs B (after B s0 pre) post := by
  rw [after_append]
  show outs B (B.step (after B s0 pre) i).1 post = _
  rw [h]

/-! ### bash hash -/

theorem bashHash_after (F : Bytes → Bytes) (cs : List Bytes) : ∀ st : C03.Sp,
    after (bashHashB F) st (calls AOp.absorb cs) = cs.foldl (fun st c => C03.hashStepH F c st) st := by
  induction cs with
  | nil => intro st; rfl
  | cons c cs ih => intro st; exact ih (C03.hashStepH F c st)

theorem bashHash_getId (F : Bytes → Bytes) (s : C03.Sp) (g : AOp) (hg : (bashHashB F).isGet g = true) :
    ((bashHashB F).step s g).1 = s := by
  cases g with
  | absorb d => exact absurd hg (Bool.false_ne_true)
  | get n => rfl
  | verify t => rfl

/-! ### the programmable automaton -/

/-- the shape shared by `bashPrgAbsorbStep` / `SqueezeStep` / `EncrStep` / `DecrStep` -/
def prgStep (F : Bytes → Bytes) (op : C03.OpB) (buf : Bytes) (st : C03.PrgSt) : C03.PrgSt × Bytes :=
  ({ st with sp := (C03.stepGen F op buf st.sp).1 }, (C03.stepGen F op buf st.sp).2)

theorem prgStep_nil (F : Bytes → Bytes) (op : C03.OpB) (st : C03.PrgSt) (h : st.sp.pos < st.sp.bufLen) :
    prgStep F op [] st = (st, []) := by
  unfold prgStep
  rw [C03.stepGen_eq_fold F op [] st.sp h]
  rfl

theorem prgStep_append (F : Bytes → Bytes) (op : C03.OpB) (a b : Bytes) (st : C03.PrgSt)
    (h : st.sp.pos < st.sp.bufLen) :
    prgStep F op (a ++ b) st =
      ((prgStep F op b (prgStep F op a st).1).1, (prgStep F op a st).2 ++ (prgStep F op b (prgStep F op a st).1).2) := by
  unfold prgStep
  rw [C03.stepGen_append F op a b st.sp h]

theorem prgStep_inv (F : Bytes → Bytes) (op : C03.OpB) (a : Bytes) (st : C03.PrgSt)
    (h : st.sp.pos < st.sp.bufLen) : (prgStep F op a st).1.sp.pos < (prgStep F op a st).1.sp.bufLen :=
  C03.stepGen_pos_lt F op a st.sp h

/-- a session of Step calls with output (`mk` = the call, `bufOf` = the buffer it passes to the skeleton) -/
theorem prg_run (F : Bytes → Bytes) (op : C03.OpB) {α : Type} (mk : α → PrgOp) (bufOf : α → Bytes)
    (hstep : ∀ (x : α) (st : C03.PrgSt), (prgB F).step st (mk x) =
      ((prgStep F op (bufOf x) st).1, Out.data (prgStep F op (bufOf x) st).2))
    (xs : List α) : ∀ st : C03.PrgSt, st.sp.pos < st.sp.bufLen →
      after (prgB F) st (xs.map (fun x => Call.op (mk x))) = (prgStep F op (xs.map bufOf).flatten st).1 ∧
      dataOf (outs (prgB F) st (xs.map (fun x => Call.op (mk x)))) = (prgStep F op (xs.map bufOf).flatten st).2 := by
  induction xs with
  | nil =>
    intro st h
    simp only [List.map_nil, List.flatten_nil]
    rw [prgStep_nil F op st h]; exact ⟨rfl, rfl⟩
  | cons x xs ih =>
    intro st h
    have hi := ih (prgStep F op (bufOf x) st).1 (prgStep_inv F op _ st h)
    simp only [List.map_cons, List.flatten_cons]
    rw [prgStep_append F op _ _ st h, ← hi.1, ← hi.2]
    constructor
    · show after (prgB F) ((prgB F).step st (mk x)).1 _ = _
      rw [hstep]
    · show dataOf (((prgB F).step st (mk x)).2 :: outs (prgB F) ((prgB F).step st (mk x)).1 _) = _
      rw [hstep]
      rfl

/-- a session of `bashPrgAbsorbStep` calls (no output) -/
theorem prg_absorb_run (F : Bytes → Bytes) (cs : List Bytes) : ∀ st : C03.PrgSt, st.sp.pos < st.sp.bufLen →
    after (prgB F) st (calls PrgOp.absorb cs) = C03.prgAbsorbStep F cs.flatten st := by
  induction cs with
  | nil =>
    intro st h
    have := prgStep_nil F C03.xorOp st h
    show st = (prgStep F C03.xorOp [] st).1
    rw [this]
  | cons c cs ih =>
    intro st h
    have hi := ih (C03.prgAbsorbStep F c st) (prgStep_inv F C03.xorOp c st h)
    have ha := prgStep_append F C03.xorOp c cs.flatten st h
    show after (prgB F) (C03.prgAbsorbStep F c st) (calls PrgOp.absorb cs) = (prgStep F C03.xorOp (c ++ cs.flatten) st).1
    rw [hi, ha]
    rfl

theorem zeros_flatten (ns : List Nat) : (ns.map C03.zeros).flatten = C03.zeros ns.sum := by
  induction ns with
  | nil => rfl
  | cons n ns ih =>
    rw [List.map_cons, List.flatten_cons, ih, List.sum_cons]
    simp only [C03.zeros, List.replicate_append_replicate]

/-! ### TOTP -/

theorem totp_after (s : List (Call TotpOp)) : ∀ st : TotpSt, after totpB st s = st := by
  induction s with
  | nil => intro st; rfl
  | cons c s ih =>
    intro st
    cases c with
    | reloc => exact ih st
    | op o => cases o <;> exact ih st

/-- what a TOTP session returns, call by call: a function of the start state and the call alone -/
def totpSpecOut (st : TotpSt) : Call TotpOp → Out
  | .reloc => .none
  | .op (.next t) => .data (C03.totpStepR st.digit st.keySt t)
  | .op (.verify t o) => .verdict (C03.totpStepV o st.digit st.keySt t)

theorem totp_outs (s : List (Call TotpOp)) : ∀ st : TotpSt, outs totpB st s = s.map (totpSpecOut st) := by
  induction s with
  | nil => intro st; rfl
  | cons c s ih =>
    intro st
    cases c with
    | reloc => show Out.none :: outs totpB st s = _; rw [ih]; rfl
    | op o =>
      cases o with
      | next t => show Out.data _ :: outs totpB st s = _; rw [ih]; rfl
      | verify t o => show Out.verdict _ :: outs totpB st s = _; rw [ih]; rfl

/-! ### HOTP -/

theorem hotp_getId (s : C03.HotpSt) (g : HotpOp) (hg : hotpB.isGet g = true) : (hotpB.step s g).1 = s := by
  cases g with
  | get => rfl
  | set c => exact absurd hg Bool.false_ne_true
  | next => exact absurd hg Bool.false_ne_true
  | verify o => exact absurd hg Bool.false_ne_true

theorem repeat_succ' {α : Type} (f : α → α) (n : Nat) : ∀ a : α, Nat.repeat f (n + 1) a = Nat.repeat f n (f a) := by
  induction n with
  | zero => intro a; rfl
  | succ n ih => intro a; show f (Nat.repeat f (n + 1) a) = f (Nat.repeat f n (f a)); rw [ih]

theorem hotpStepR_fst (st : C03.HotpSt) : (C03.hotpStepR st).1 = { st with ctr := C03.botpCtrNext st.ctr } := rfl

theorem hotp_next_outs (n : Nat) : ∀ st : C03.HotpSt,
    outs hotpB st (List.replicate n (.op .next)) =
      (List.range n).map (fun k => Out.data (C03.hotpStepR { st with ctr := Nat.repeat C03.botpCtrNext k st.ctr }).2) := by
  induction n with
  | zero => intro st; rfl
  | succ n ih =>
    intro st
    rw [List.replicate_succ, List.range_succ_eq_map, List.map_cons, List.map_map]
    show Out.data (C03.hotpStepR st).2 :: outs hotpB (C03.hotpStepR st).1 (List.replicate n (.op .next)) = _
    rw [ih, hotpStepR_fst]
    have e0 : ({ st with ctr := Nat.repeat C03.botpCtrNext 0 st.ctr } : C03.HotpSt) = st := rfl
    have hcons : ∀ (a b : Out) (l m : List Out), a = b → l = m → a :: l = b :: m := by
      intro a b l m h1 h2; rw [h1, h2]
    apply hcons
    · show _ = Out.data (C03.hotpStepR { st with ctr := Nat.repeat C03.botpCtrNext 0 st.ctr }).2
      rw [e0]
    apply List.map_congr_left
    intro k _
    show Out.data (C03.hotpStepR { st with ctr := Nat.repeat C03.botpCtrNext k (C03.botpCtrNext st.ctr) }).2 =
      Out.data (C03.hotpStepR { st with ctr := Nat.repeat C03.botpCtrNext (k + 1) st.ctr }).2
    rw [repeat_succ']

theorem hotp_verify_fail (o : List UInt8) (st : C03.HotpSt) (h : (C03.hotpStepV o st).2 = false) :
    (C03.hotpStepV o st).1 = st := by
  unfold C03.hotpStepV at h ⊢
  dsimp only at h ⊢
  split
  · rename_i hc; rw [if_pos hc] at h; exact Bool.noConfusion h
  · rfl

theorem hotp_verify_ok (o : List UInt8) (st : C03.HotpSt) (h : (C03.hotpStepV o st).2 = true) :
    (C03.hotpStepV o st).1 = (C03.hotpStepR st).1 ∧ (C03.hotpStepR st).2 = o := by
  unfold C03.hotpStepV at h ⊢
  dsimp only at h ⊢
  split
  · rename_i hc; exact ⟨rfl, hc⟩
  · rename_i hc; rw [if_neg hc] at h; exact Bool.noConfusion h

/-! ### OCRA -/

theorem ocra_getId (s : C03.OcraSt) (g : OcraOp) (hg : ocraB.isGet g = true) : (ocraB.step s g).1 = s := by
  cases g with
  | get => rfl
  | set c p s => exact absurd hg Bool.false_ne_true
  | next q t => exact absurd hg Bool.false_ne_true
  | verify q t o => exact absurd hg Bool.false_ne_true

/-- the counter after `StepR`: advanced iff the suite has a counter -/
def ocraCtrNext (st : C03.OcraSt) : Bytes := if st.ctrLen ≠ 0 then C03.botpCtrNext st.ctr else st.ctr

/-- `botpOCRAStepR` changes the counter only -/
theorem ocraStepR_fst (q : Bytes) (t : Nat) (st : C03.OcraSt) :
    (C03.ocraStepR q t st).1 = { st with ctr := ocraCtrNext st } := by
  unfold C03.ocraStepR ocraCtrNext
  by_cases h : st.ctrLen ≠ 0
  · simp only [if_pos h]
  · simp only [if_neg h]

theorem ocra_verify_fail (o q : Bytes) (t : Nat) (st : C03.OcraSt) (h : (C03.ocraStepV o q t st).2 = false) :
    (C03.ocraStepV o q t st).1 = st := by
  unfold C03.ocraStepV at h ⊢
  dsimp only at h ⊢
  split
  · rename_i hc; rw [if_pos hc] at h; exact Bool.noConfusion h
  · rw [ocraStepR_fst]

theorem ocra_verify_ok (o q : Bytes) (t : Nat) (st : C03.OcraSt) (h : (C03.ocraStepV o q t st).2 = true) :
    (C03.ocraStepV o q t st).1 = (C03.ocraStepR q t st).1 ∧ (C03.ocraStepR q t st).2 = o := by
  unfold C03.ocraStepV at h ⊢
  dsimp only at h ⊢
  split
  · rename_i hc; exact ⟨rfl, hc⟩
  · rename_i hc; rw [if_neg hc] at h; exact Bool.noConfusion h

/-- the counter before the `k`-th `StepR` of a run of `StepR` calls -/
def ocraCtrAt (st : C03.OcraSt) (k : Nat) : Bytes :=
  if st.ctrLen ≠ 0 then Nat.repeat C03.botpCtrNext k st.ctr else st.ctr

/-- what a run of `StepR(q_k, t_k)` calls returns: the `k`-th call returns the one-shot password for the
counter advanced `k` times (`j` = number of calls made before) -/
def ocraNextOuts (st : C03.OcraSt) : Nat → List (Bytes × Nat) → List Out
  | _, [] => []
  | j, qt :: r => Out.data (C03.ocraStepR qt.1 qt.2 { st with ctr := ocraCtrAt st j }).2 :: ocraNextOuts st (j + 1) r

theorem ocra_next_outs (st : C03.OcraSt) (qts : List (Bytes × Nat)) : ∀ j : Nat,
    outs ocraB { st with ctr := ocraCtrAt st j } (qts.map (fun qt => Call.op (OcraOp.next qt.1 qt.2))) =
      ocraNextOuts st j qts := by
  induction qts with
  | nil => intro j; rfl
  | cons qt qts ih =>
    intro j
    have hn : (C03.ocraStepR qt.1 qt.2 { st with ctr := ocraCtrAt st j }).1 = { st with ctr := ocraCtrAt st (j + 1) } := by
      rw [ocraStepR_fst]
      unfold ocraCtrNext ocraCtrAt
      by_cases h : st.ctrLen ≠ 0
      · simp only [if_pos h]; rfl
      · simp only [if_neg h]
    show Out.data (C03.ocraStepR qt.1 qt.2 { st with ctr := ocraCtrAt st j }).2 ::
      outs ocraB (C03.ocraStepR qt.1 qt.2 { st with ctr := ocraCtrAt st j }).1 _ = _
    rw [hn, ih (j + 1)]
    rfl

theorem ocraCtrAt_zero (st : C03.OcraSt) : { st with ctr := ocraCtrAt st 0 } = st := by
  unfold ocraCtrAt
  by_cases h : st.ctrLen ≠ 0
  · simp only [if_pos h]; rfl
  · simp only [if_neg h]

end Bee2V.C10.Gen

/-
C10 property theorems: REFINEMENT for the three bundles whose C01/C03 model state has no scratch fields — KRP,
bash hash, TOTP.  `Refined.lean` models the state with the members the C structs have (`belt_krp_st.block/key_new`,
`bash_hash_st.s1`, `botp_totp_st.t/mac/otp` + working HMAC copy), with ARBITRARY prior memory content where `Start`
does not initialise a member.  Proved: every session of the refined machine returns what the abstract machine
returns (so all chunk-independence theorems transfer), Get/Verify-type calls write ONLY scratch members — members
that every later call overwrites before reading — and hence get-then-continue holds for the machine that has the
fields the C has.  The driver executes the refined machines and their scratch members are compared with the real
structs (`D` token of the protocol).
-/
import Bee2V.C10.LemmasRefined
import Bee2V.C10.PropsAbsorb
namespace Bee2V.C10
open Bee2V Bee2V.Gen.C01 Refined

/-! ### KRP -/

/-- the invariant of a KRP state: 32-octet block, admissible length of the original key -/
def KrpR.wf (st : KrpR) : Prop := st.block.length = 32 ∧ (st.len = 16 ∨ st.len = 24 ∨ st.len = 32)

/-- ONE `beltKRPStepG` on the refined state (preconditions of the header: `key_len ∈ {16,24,32}`, `header[16]`):
it returns what the abstract model returns; it rewrites `block[0..4)`, `block[16..32)` and `key_new` — all three
are rewritten by EVERY call before being read — and leaves `key`, `len` and `block[4..16)` (= `level`) alone. -/
theorem krpR_step_refines (C : C01.Cipher) (st : KrpR) (hw : st.wf) (n : Nat) (h : Bytes) (hok : KrpOp.ok (.get n h)) :
    (krpRStepG C st n h).2 = C01.krpStepG C st.abs n h ∧ (krpRStepG C st n h).1.abs = st.abs ∧
    (krpRStepG C st n h).1.wf ∧ (krpRStepG C st n h).1.key = st.key ∧ (krpRStepG C st n h).1.len = st.len := by
  obtain ⟨hb, hl⟩ := hw
  obtain ⟨hn, hh⟩ := hok
  have hr : ((H.toList.drop (4 * (st.len - 16) + 2 * (n - 16))).take 4).length = 4 := by
    apply rLen; rcases hl with h | h | h <;> rcases hn with g | g | g <;> simp only [h, g] <;> omega
  have hL : ((st.block.drop 4).take 12).length = 12 := by rw [List.length_take, List.length_drop]; omega
  have hblk := block_written st.block _ h hb hr hh
  refine ⟨?_, ?_, ⟨?_, hl⟩, rfl, rfl⟩
  · show (C01.compr C st.key _).take n = (C01.compr C st.key _).take n
    rw [hblk]; simp only [KrpR.abs, List.append_assoc]
  · show C01.KrpSt.mk st.key st.len _ = C01.KrpSt.mk st.key st.len _
    congr 1
    show ((C01.putAt (C01.putAt st.block 0 _) 16 h).drop 4).take 12 = _
    rw [hblk, level_kept _ _ _ hr hL]
  · show (C01.putAt (C01.putAt st.block 0 _) 16 h).length = 32
    rw [hblk]; simp only [List.length_append, hr, hL, hh]

/-- `beltKRPStart` establishes the invariant and stores `level` where the abstract state keeps it, whatever the
memory of the state held before (`junkBlock`, `junkKeyNew`) -/
theorem krpR_start_refines (key level jb jk : Bytes) (hk : C01.validKeyLen key.length = true)
    (hl : level.length = 12) (hj : jb.length = 32) :
    (krpRStart key level jb jk).abs = C01.krpStart key level ∧ (krpRStart key level jb jk).wf := by
  obtain ⟨h1, h2⟩ := level_stored jb level hj hl
  refine ⟨?_, h2, ?_⟩
  · show C01.KrpSt.mk _ _ _ = C01.KrpSt.mk _ _ _
    congr 1
  · show key.length = 16 ∨ key.length = 24 ∨ key.length = 32
    simpa [C01.validKeyLen, or_assoc] using hk

/-- REFINEMENT of whole sessions: the KRP machine with the C struct's members returns, in every session that
respects the preconditions, what the abstract machine returns -/
theorem krpR_refines (C : C01.Cipher) (key level jb jk : Bytes) (hk : C01.validKeyLen key.length = true)
    (hl : level.length = 12) (hj : jb.length = 32) (s : List (Call KrpOp)) (hs : SessionOk KrpOp.ok s) :
    outs (krpRB C) (krpRStart key level jb jk) s = outs (krpB C) (C01.krpStart key level) s := by
  obtain ⟨h1, h2⟩ := krpR_start_refines key level jb jk hk hl hj
  refine (outs_refine KrpOp.ok (krpRB C) (krpB C) (fun st a => st.abs = a ∧ st.wf) ?_ s hs _ _ ⟨h1, h2⟩).1
  intro st a i hi ⟨ha, hw⟩
  cases i with
  | get n h =>
    obtain ⟨e1, e2, e3, _, _⟩ := krpR_step_refines C st hw n h hi
    subst ha
    exact ⟨⟨e2, e3⟩, congrArg Out.data e1⟩

/-- GET-THEN-CONTINUE for the KRP machine that has the scratch members of `belt_krp_st`: any `beltKRPStepG`
(it rewrites `block[0..4)`, `block[16..32)`, `key_new`) is invisible to all later calls -/
theorem get_observational_krpR (C : C01.Cipher) (key level jb jk : Bytes) (hk : C01.validKeyLen key.length = true)
    (hl : level.length = 12) (hj : jb.length = 32) :
    GetObservationalOn KrpOp.ok (krpRB C) (krpRStart key level jb jk) := by
  obtain ⟨h1, h2⟩ := krpR_start_refines key level jb jk hk hl hj
  refine getObservationalOn_of_sim KrpOp.ok (krpRB C) (fun st a => st.abs = a ∧ st.wf) (krpB C).step ?_ ?_ _ _ ⟨h1, h2⟩
  · intro st a i hi ⟨ha, hw⟩
    cases i with
    | get n h =>
      obtain ⟨e1, e2, e3, _, _⟩ := krpR_step_refines C st hw n h hi
      subst ha
      exact ⟨⟨e2, e3⟩, congrArg Out.data e1⟩
  · intro a g _
    cases g with | get n h => rfl

/-- every `beltKRPStepG` in any admissible session on the refined state = the one-shot `beltKRP` -/
theorem chunk_indep_krpR (C : C01.Cipher) (key level jb jk : Bytes) (hk : C01.validKeyLen key.length = true)
    (hl : level.length = 12) (hj : jb.length = 32) (s : List (Call KrpOp)) (hs : SessionOk KrpOp.ok s)
    (m : Nat) (header : Bytes) (hm : C01.validKeyLen m = true) (hmn : m ≤ key.length) (hh : header.length = 16) :
    ((krpRB C).step (after (krpRB C) (krpRStart key level jb jk) s) (.get m header)).2 =
      .data ((C01.krpHL C m key level header).2.getD []) := by
  obtain ⟨h1, h2⟩ := krpR_start_refines key level jb jk hk hl hj
  have hR := (outs_refine KrpOp.ok (krpRB C) (krpB C) (fun st a => st.abs = a ∧ st.wf) (by
    intro st a i hi ⟨ha, hw⟩
    cases i with
    | get n h =>
      obtain ⟨e1, e2, e3, _, _⟩ := krpR_step_refines C st hw n h hi
      subst ha
      exact ⟨⟨e2, e3⟩, congrArg Out.data e1⟩) s hs _ _ ⟨h1, h2⟩).2
  have hmv : m = 16 ∨ m = 24 ∨ m = 32 := by simpa [C01.validKeyLen, or_assoc] using hm
  obtain ⟨e1, _⟩ := krpR_step_refines C _ hR.2 m header ⟨hmv, hh⟩
  rw [← chunk_indep_krp C key level s m header hm hk hmn, ← hR.1]
  exact congrArg Out.data e1

/-- non-vacuity: two different junk memories, same outputs; the scratch members do change -/
example : outs (krpRB C01.chunkToy2) (krpRStart (C01.zeros 32) (C01.zeros 12) (List.replicate 32 0xC3) (List.replicate 32 0xC3))
      [.op (.get 16 (C01.zeros 16)), .reloc, .op (.get 32 (List.replicate 16 7)), .op (.get 16 (C01.zeros 16))] =
    outs (krpB C01.chunkToy2) (C01.krpStart (C01.zeros 32) (C01.zeros 12))
      [.op (.get 16 (C01.zeros 16)), .reloc, .op (.get 32 (List.replicate 16 7)), .op (.get 16 (C01.zeros 16))] ∧
    (after (krpRB C01.chunkToy2) (krpRStart (C01.zeros 32) (C01.zeros 12) (List.replicate 32 0xC3) (List.replicate 32 0xC3))
      [.op (.get 32 (List.replicate 16 7))]).block.drop 16 = List.replicate 16 7 := by
  decide +kernel

/-! ### bash hash -/

/-- `bashHashStepG` / `bashHashStepV` write ONLY `s1` (which every Get/Verify overwrites from `s` first): `s`,
`buf_len`, `pos` are untouched; `bashHashStepH` never reads or writes `s1` -/
theorem bashHashR_frame (F : Bytes → Bytes) (st : BashHashR) (n : Nat) (t d : Bytes) :
    ((bashHashRB F).step st (.get n)).1.sp = st.sp ∧ ((bashHashRB F).step st (.verify t)).1.sp = st.sp ∧
    ((bashHashRB F).step st (.absorb d)).1.s1 = st.s1 := ⟨rfl, rfl, rfl⟩

/-- one call of the refined bash-hash machine returns what the C03 machine returns on the projected state -/
theorem bashHashR_step_refines (F : Bytes → Bytes) (st : BashHashR) (op : AOp) :
    ((bashHashRB F).step st op).1.sp = ((bashHashB F).step st.sp op).1 ∧
    ((bashHashRB F).step st op).2 = ((bashHashB F).step st.sp op).2 := by
  cases op <;> exact ⟨rfl, rfl⟩

/-- REFINEMENT of whole sessions (no precondition) -/
theorem bashHashR_refines (F : Bytes → Bytes) (l : Nat) (junk : Bytes) (s : List (Call AOp)) :
    outs (bashHashRB F) (bashHashRStart l junk) s = outs (bashHashB F) (C03.hashStart l) s :=
  (outs_refine (fun _ => True) (bashHashRB F) (bashHashB F) (fun st a => st.sp = a)
    (fun st a i _ h => by subst h; exact bashHashR_step_refines F st i) s
    (fun c _ => by cases c <;> trivial) _ _ rfl).1

/-- GET-THEN-CONTINUE for the bash-hash machine that has `s1`: from EVERY state, all sessions -/
theorem get_observational_bashHashR (F : Bytes → Bytes) (st : BashHashR) : GetObservational (bashHashRB F) st := by
  refine getObservational_of_sim (bashHashRB F) (fun st a => st.sp = a) (bashHashB F).step ?_ ?_ st st.sp rfl
  · intro st a i h; subst h; exact bashHashR_step_refines F st i
  · intro a g hg
    cases g with
    | absorb d => exact absurd hg Bool.false_ne_true
    | get n => rfl
    | verify t => rfl

/-- Get with 2 octets pending writes the padded, permuted copy into `s1`; the final hash is that of all data -/
example : outs (bashHashRB (fun s => s.map (· + 1))) (bashHashRStart 256 (List.replicate 192 0xC3))
      [.op (.absorb [1, 2]), .op (.get 4), .op (.verify [0]), .reloc, .op (.absorb [3]), .op (.get 4)] =
    outs (bashHashB (fun s => s.map (· + 1))) (C03.hashStart 256)
      [.op (.absorb [1, 2]), .op (.get 4), .op (.verify [0]), .reloc, .op (.absorb [3]), .op (.get 4)] ∧
    (after (bashHashRB (fun s => s.map (· + 1))) (bashHashRStart 256 (List.replicate 192 0xC3))
      [.op (.absorb [1, 2]), .op (.get 4)]).s1.take 4 = [2, 3, 0x41, 1] := by
  decide +kernel

/-! ### TOTP -/

/-- `botpTOTPStepR` / `botpTOTPStepV` write only `t`, `mac`, `otp` and the working HMAC copy — each of them is
rewritten by every call before it is read; `digit` and the key state are never written -/
theorem totpR_frame (st : TotpR) (op : TotpOp) : (totpRB.step st op).1.abs = st.abs := by
  cases op <;> rfl

/-- one call returns what the C03 machine returns -/
theorem totpR_step_refines (st : TotpR) (op : TotpOp) :
    (totpRB.step st op).1.abs = (totpB.step st.abs op).1 ∧ (totpRB.step st op).2 = (totpB.step st.abs op).2 := by
  cases op with
  | next t => exact ⟨rfl, rfl⟩
  | verify t o =>
    refine ⟨rfl, ?_⟩
    show Out.verdict (decide (C03.botpDT st.digit _ = o)) = Out.verdict (C03.totpStepV o st.digit st.keySt t)
    simp only [C03.totpStepV, C03.totpStepR]
    congr

/-- REFINEMENT of whole sessions, for any prior content of `t`, `mac`, `otp` -/
theorem totpR_refines (digit : Nat) (key jt jm jo : Bytes) (s : List (Call TotpOp)) :
    outs totpRB (totpRStart digit key jt jm jo) s = outs totpB (totpStart digit key) s :=
  (outs_refine (fun _ => True) totpRB totpB (fun st a => st.abs = a)
    (fun st a i _ h => by subst h; exact totpR_step_refines st i) s
    (fun c _ => by cases c <;> trivial) _ _ rfl).1

/-- GET-THEN-CONTINUE for the TOTP machine with the members of `botp_totp_st`: every call is a Get -/
theorem get_observational_totpR (st : TotpR) : GetObservational totpRB st := by
  refine getObservational_of_sim totpRB (fun st a => st.abs = a) totpB.step ?_ ?_ st st.abs rfl
  · intro st a i h; subst h; exact totpR_step_refines st i
  · intro a g _; cases g <;> rfl

/-- the scratch members do change: a failed verification leaves the computed password in `st->otp` -/
example (st : TotpR) (t : Nat) : (totpRB.step st (.verify t [])).1.otp =
    C01.putAt st.otp 0 (C03.totpStepR st.digit st.keySt t ++ [0]) := rfl

end Bee2V.C10

/-
C10 — the bundles of bee2 as `Bundle`s over the executable state machines of the C01 (belt) and C03
(bash, brng, botp) models.  The driver `drv_c10` executes exactly these definitions; the theorems of
`Props*.lean` are about exactly these definitions.  No Mathlib.
-/
import Bee2V.C10.Defs
import Bee2V.C01.Model.Modes
import Bee2V.C01.Model.Hash
import Bee2V.C01.Model.Aead
import Bee2V.C01.Model.Wbl
import Bee2V.C03.Sponge
import Bee2V.C03.Brng
import Bee2V.C03.Botp
namespace Bee2V.C10
open Bee2V

/-! ### call alphabets -/

/-- encrypting bundles: ECB, CBC, CFB, CTR, BDE -/
inductive EOp
  | encr (d : Bytes)
  | decr (d : Bytes)
  deriving Repr

/-- absorbing bundles with Get/Verify: belt-MAC, belt-hash, belt-HMAC, bash-hash -/
inductive AOp
  | absorb (d : Bytes)
  | get (n : Nat)
  | verify (t : Bytes)
  deriving Repr

def AOp.isGet : AOp → Bool
  | .absorb _ => false
  | _ => true

/-- DWP / CHE -/
inductive AeadOp
  | ad (d : Bytes)          -- StepI
  | encr (d : Bytes)        -- StepE
  | auth (d : Bytes)        -- StepA
  | decr (d : Bytes)        -- StepD
  | get                     -- StepG
  | verify (t : Bytes)      -- StepV
  deriving Repr

def AeadOp.isGet : AeadOp → Bool
  | .get => true
  | .verify _ => true
  | _ => false

/-- SDE: every call processes one sector under its own IV -/
inductive SdeOp
  | encr (iv d : Bytes)
  | decr (iv d : Bytes)
  deriving Repr

/-- KRP: `beltKRPStepG(key_, key_len, header, state)` -/
inductive KrpOp
  | get (n : Nat) (header : Bytes)
  deriving Repr

/-- bash programmable automaton -/
inductive PrgOp
  | absorbStart | absorb (d : Bytes)
  | squeezeStart | squeeze (n : Nat)
  | encrStart | encr (d : Bytes)
  | decrStart | decr (d : Bytes)
  | ratchet
  deriving Repr

/-- brng: `StepR(buf, count)` (for CTR the prior content of `buf` is additional input), `StepG` (CTR only) -/
inductive RngOp
  | gen (buf : Bytes)
  | get
  deriving Repr

def RngOp.isGet : RngOp → Bool
  | .get => true
  | _ => false

inductive HotpOp
  | set (ctr : Bytes)       -- StepS
  | next                    -- StepR
  | verify (otp : Bytes)    -- StepV
  | get                     -- StepG
  deriving Repr

def HotpOp.isGet : HotpOp → Bool
  | .get => true
  | _ => false

inductive TotpOp
  | next (t : Nat)                   -- StepR
  | verify (t : Nat) (otp : Bytes)   -- StepV
  deriving Repr

inductive OcraOp
  | set (ctr p s : Bytes)                    -- StepS
  | next (q : Bytes) (t : Nat)               -- StepR
  | verify (q : Bytes) (t : Nat) (otp : Bytes)  -- StepV
  | get                                      -- StepG
  deriving Repr

def OcraOp.isGet : OcraOp → Bool
  | .get => true
  | _ => false

/-! ### belt -/

def ecbB (C : C01.Cipher) : Bundle Bytes EOp :=
  { step := fun key op => match op with
      | .encr d => (key, .data (C01.ecbStepE C key d))
      | .decr d => (key, .data (C01.ecbStepD C key d)),
    isGet := fun _ => false }

def cbcB (C : C01.Cipher) : Bundle C01.CbcSt EOp :=
  { step := fun st op => match op with
      | .encr d => let r := C01.cbcStepE C st d; (r.1, .data r.2)
      | .decr d => let r := C01.cbcStepD C st d; (r.1, .data r.2),
    isGet := fun _ => false }

def cfbB (C : C01.Cipher) : Bundle C01.CfbSt EOp :=
  { step := fun st op => match op with
      | .encr d => let r := C01.cfbStepE C st d; (r.1, .data r.2)
      | .decr d => let r := C01.cfbStepD C st d; (r.1, .data r.2),
    isGet := fun _ => false }

/-- `beltCTRStepD` is a macro for `beltCTRStepE` -/
def ctrB (C : C01.Cipher) : Bundle C01.CtrSt EOp :=
  { step := fun st op => match op with
      | .encr d => let r := C01.ctrStepE C st d; (r.1, .data r.2)
      | .decr d => let r := C01.ctrStepE C st d; (r.1, .data r.2),
    isGet := fun _ => false }

def bdeB (C : C01.Cipher) : Bundle C01.BdeSt EOp :=
  { step := fun st op => match op with
      | .encr d => let r := C01.bdeStepE C st d; (r.1, .data r.2)
      | .decr d => let r := C01.bdeStepD C st d; (r.1, .data r.2),
    isGet := fun _ => false }

/-- the SDE state keeps the formatted key (the per-call `s = E(iv)` is scratch) -/
def sdeB (C : C01.Cipher) : Bundle Bytes SdeOp :=
  { step := fun key op => match op with
      | .encr iv d => (key, .data (C01.sdeStepE C key iv d))
      | .decr iv d => (key, .data (C01.sdeStepD C key iv d)),
    isGet := fun _ => false }

def macB (C : C01.Cipher) : Bundle C01.MacSt AOp :=
  { step := fun st op => match op with
      | .absorb d => (C01.macStepA C st d, .none)
      | .get n => let r := C01.macStepG C st n; (r.1, .data r.2)
      | .verify t => let r := C01.macStepV C st t; (r.1, .verdict r.2),
    isGet := AOp.isGet }

def hashB (C : C01.Cipher) : Bundle C01.HashSt AOp :=
  { step := fun st op => match op with
      | .absorb d => (C01.hashStepH C st d, .none)
      | .get n => let r := C01.hashStepG C st n; (r.1, .data r.2)
      | .verify t => let r := C01.hashStepV C st t; (r.1, .verdict r.2),
    isGet := AOp.isGet }

def hmacB (C : C01.Cipher) : Bundle C01.HmacSt AOp :=
  { step := fun st op => match op with
      | .absorb d => (C01.hmacStepA C st d, .none)
      | .get n => let r := C01.hmacStepG C st n; (r.1, .data r.2)
      | .verify t => let r := C01.hmacStepV C st t; (r.1, .verdict r.2),
    isGet := AOp.isGet }

/-- word size of `beltHalfBlockAddBitSizeW` (proved irrelevant below 2^64 octets in C01) -/
def wBits : Nat := 64

def dwpB (C : C01.Cipher) : Bundle C01.DwpSt AeadOp :=
  { step := fun st op => match op with
      | .ad d => (C01.dwpStepI wBits st d, .none)
      | .auth d => (C01.dwpStepA wBits st d, .none)
      | .encr d => let r := C01.dwpStepE C st d; (r.1, .data r.2)
      | .decr d => let r := C01.dwpStepE C st d; (r.1, .data r.2)
      | .get => let r := C01.dwpStepG C st; (r.1, .data r.2)
      | .verify t => let r := C01.dwpStepV C st t; (r.1, .verdict r.2),
    isGet := AeadOp.isGet }

def cheB (C : C01.Cipher) : Bundle C01.CheSt AeadOp :=
  { step := fun st op => match op with
      | .ad d => (C01.cheStepI wBits st d, .none)
      | .auth d => (C01.cheStepA wBits st d, .none)
      | .encr d => let r := C01.cheStepE C st d; (r.1, .data r.2)
      | .decr d => let r := C01.cheStepE C st d; (r.1, .data r.2)
      | .get => let r := C01.cheStepG C st; (r.1, .data r.2)
      | .verify t => let r := C01.cheStepV C st t; (r.1, .verdict r.2),
    isGet := AeadOp.isGet }

def krpB (C : C01.Cipher) : Bundle C01.KrpSt KrpOp :=
  { step := fun st op => match op with
      | .get n h => (st, .data (C01.krpStepG C st n h)),
    isGet := fun _ => true }

/-! ### bash -/

/-- bash-hash: the state and the security level (`bashHashStepG(hash, hash_len, state)`, `hash_len ≤ l/4`) -/
def bashHashB (F : Bytes → Bytes) : Bundle C03.Sp AOp :=
  { step := fun st op => match op with
      | .absorb d => (C03.hashStepH F d st, .none)
      | .get n => (st, .data (C03.hashStepG F n st))
      | .verify t => (st, .verdict (decide (t = C03.hashStepG F t.length st))),
    isGet := AOp.isGet }

def prgB (F : Bytes → Bytes) : Bundle C03.PrgSt PrgOp :=
  { step := fun st op => match op with
      | .absorbStart => (C03.prgAbsorbStart F st, .none)
      | .absorb d => (C03.prgAbsorbStep F d st, .none)
      | .squeezeStart => (C03.prgSqueezeStart F st, .none)
      | .squeeze n => let r := C03.prgSqueezeStep F (C03.zeros n) st; (r.1, .data r.2)
      | .encrStart => (C03.prgEncrStart F st, .none)
      | .encr d => let r := C03.prgEncrStep F d st; (r.1, .data r.2)
      | .decrStart => (C03.prgDecrStart F st, .none)
      | .decr d => let r := C03.prgDecrStep F d st; (r.1, .data r.2)
      | .ratchet => (C03.prgRatchet F st, .none),
    isGet := fun _ => false }

/-! ### brng -/

/-- word size in octets of the `brngBlockInc` loop (C03 proves 8 and 4 give the same function) -/
def wOctets : Nat := 8

def brngCtrB : Bundle C03.CtrSt RngOp :=
  { step := fun st op => match op with
      | .gen buf => let r := C03.ctrStepR wOctets buf st; (r.1, .data r.2)
      | .get => (st, .data (C03.ctrStepG st)),
    isGet := RngOp.isGet }

def brngHmacB : Bundle C03.HmacGenSt RngOp :=
  { step := fun st op => match op with
      | .gen buf => let r := C03.hmacGenStepR buf.length st; (r.1, .data r.2)
      | .get => (st, .none),
    isGet := RngOp.isGet }

/-! ### botp -/

def hotpB : Bundle C03.HotpSt HotpOp :=
  { step := fun st op => match op with
      | .set c => (C03.hotpStepS c st, .none)
      | .next => let r := C03.hotpStepR st; (r.1, .data r.2)
      | .verify o => let r := C03.hotpStepV o st; (r.1, .verdict r.2)
      | .get => (st, .data st.ctr),
    isGet := HotpOp.isGet }

/-- persistent part of `botp_totp_st` (`t`, `mac`, `otp` are scratch, rewritten by every call before use) -/
structure TotpSt where
  digit : Nat
  keySt : C03.Belt.HmacSt

def totpStart (digit : Nat) (key : Bytes) : TotpSt := ⟨digit, C03.Belt.hmacStart key⟩

def totpB : Bundle TotpSt TotpOp :=
  { step := fun st op => match op with
      | .next t => (st, .data (C03.totpStepR st.digit st.keySt t))
      | .verify t o => (st, .verdict (C03.totpStepV o st.digit st.keySt t)),
    isGet := fun _ => true }

def ocraB : Bundle C03.OcraSt OcraOp :=
  { step := fun st op => match op with
      | .set c p s => (C03.ocraStepS c p s st, .none)
      | .next q t => let r := C03.ocraStepR q t st; (r.1, .data r.2)
      | .verify q t o => let r := C03.ocraStepV o q t st; (r.1, .verdict r.2)
      | .get => (st, .data st.ctr),
    isGet := OcraOp.isGet }

end Bee2V.C10

/-
C10 property theorems, belt encryption modes: CHUNK INDEPENDENCE of the incremental interfaces
`beltECBStepE/D`, `beltCBCStepE/D`, `beltCFBStepE/D`, `beltBDEStepE/D` (and sector independence of
`beltSDEStepE/D`).  A session `Start; Step(c1); …; Step(cm)` returns, fragment after fragment, exactly the octets
that the one-shot call on the concatenation `c1 ++ … ++ cm` returns, and ends in the same state — for every
fragmentation that the header belt.h admits:
  * ECB, CBC (ciphertext stealing): every fragment at least one block, all but the last whole blocks
    (`admissibleCTS`);
  * CFB: no restriction at all (empty fragments, cuts inside a block, …);
  * BDE: fragments of whole blocks (`wholeBlocks`, empty fragments allowed).
Stated for an arbitrary block cipher `C`; where a proof needs that `C.enc` / `C.dec` return 16 octets on 16
octets, exactly the needed half of `BlockLen C` is a hypothesis (`hE` / `hD`); the `belt_*` corollaries discharge
it for `beltCipher`.  Only property theorems and non-vacuity examples; helper lemmas are in LemmasModes.lean.
-/
import Bee2V.C10.LemmasModes
import Bee2V.C01.PropsStream
namespace Bee2V.C10
open Bee2V Bee2V.C10.Modes

/-- 33 octets 0, 1, …, 32 -/
def d33 : Bytes := (List.range 33).map UInt8.ofNat
/-- 37 octets 0, 1, …, 36 -/
def d37 : Bytes := (List.range 37).map UInt8.ofNat
/-- 48 octets 0, 1, …, 47 -/
def d48 : Bytes := (List.range 48).map UInt8.ofNat

/-- the hypotheses `hE`, `hD` of the theorems below (the two halves of `BlockLen`) are satisfiable: the toy
cipher of the examples has them … -/
example : BlockLen C01.toyC := by
  constructor <;> intro k x h <;>
    simp only [C01.toyC, List.length_map, C01.Stream.length_xorb, List.length_take, List.length_append, C01.zeros,
      List.length_replicate] <;> omega

/-- … and so has belt -/
theorem belt_blockLen : BlockLen C01.beltCipher :=
  ⟨C01.belt_hlen, fun k x h => C01.length_blockDecr k x h⟩

/-- the header's example: 33 = 16 + 17 is admissible, 33 = 32 + 1 is not, nor is 8 + 25 -/
example : admissibleCTS [d33.take 16, d33.drop 16] := by decide
example : ¬ admissibleCTS [d33.take 32, d33.drop 32] := by decide
example : ¬ admissibleCTS [d33.take 8, d33.drop 8] := by decide
example : ¬ admissibleCTS [d33.take 16, [], d33.drop 16] := by decide

/-! ### ECB -/

/-- CHUNK INDEPENDENCE of `beltECBStepE`: for every admissible fragmentation the concatenation of the returned
buffers is the result of the one-shot call (incl. the ciphertext-stealing tail of the last fragment). -/
theorem chunk_indep_ecb_encr (C : C01.Cipher) (hE : ∀ k x, x.length = 16 → (C.enc k x).length = 16)
    (key : Bytes) (cs : List Bytes) (h : admissibleCTS cs) :
    dataOf (outs (ecbB C) key (calls EOp.encr cs)) = C01.ecbStepE C key cs.flatten :=
  (fold_cts (ecbB C) EOp.encr _ (ecb_isStepE C) (fun _ => True) (fun _ _ _ _ _ => trivial)
    (fun s a b _ _ h2 h3 => by simp only [C01.ecbStepE_eq, ecbStep_split _ (hE s) a b h2 h3]) cs key trivial h).1

/-- 33 octets cut 16 + 17: the second call steals from ITS first block -/
example : dataOf (outs (ecbB C01.toyC) [1, 2, 3] (calls EOp.encr [d33.take 16, d33.drop 16]))
    = C01.ecbStepE C01.toyC [1, 2, 3] d33 := by decide +kernel
/-- the restriction is needed: the inadmissible cut 32 + 1 gives something else -/
example : dataOf (outs (ecbB C01.toyC) [1, 2, 3] (calls EOp.encr [d33.take 32, d33.drop 32]))
    ≠ C01.ecbStepE C01.toyC [1, 2, 3] d33 := by decide +kernel

/-- the hypothesis `hE` is needed: with a "cipher" that returns 8 octets the stealing step of the one-shot call
reaches back into the previous block's output and the two results differ (9 octets vs 17) -/
example : dataOf (outs (ecbB ⟨fun _ x => x.take 8, fun _ x => x.take 8⟩) [] (calls EOp.encr [d33.take 16, d33.drop 16]))
    ≠ C01.ecbStepE ⟨fun _ x => x.take 8, fun _ x => x.take 8⟩ [] d33 := by decide +kernel

/-- CHUNK INDEPENDENCE of `beltECBStepD` -/
theorem chunk_indep_ecb_decr (C : C01.Cipher) (hD : ∀ k x, x.length = 16 → (C.dec k x).length = 16)
    (key : Bytes) (cs : List Bytes) (h : admissibleCTS cs) :
    dataOf (outs (ecbB C) key (calls EOp.decr cs)) = C01.ecbStepD C key cs.flatten :=
  (fold_cts (ecbB C) EOp.decr _ (ecb_isStepD C) (fun _ => True) (fun _ _ _ _ _ => trivial)
    (fun s a b _ _ h2 h3 => by simp only [C01.ecbStepD_eq, ecbStep_split _ (hD s) a b h2 h3]) cs key trivial h).1

example : dataOf (outs (ecbB C01.toyC) [1, 2, 3] (calls EOp.decr [d48.take 32, d48.drop 32 ++ [7]]))
    = C01.ecbStepD C01.toyC [1, 2, 3] (d48 ++ [7]) := by decide +kernel

/-- `beltECBEncr` on the concatenation = `beltECBStart` + any admissible session of `beltECBStepE` -/
theorem ecbEncr_chunked (C : C01.Cipher) (hE : ∀ k x, x.length = 16 → (C.enc k x).length = 16)
    (key : Bytes) (hk : C01.validKeyLen key.length = true) (cs : List Bytes) (h : admissibleCTS cs) :
    C01.ecbEncr C cs.flatten key = (.ok, some (dataOf (outs (ecbB C) (C01.fmtKey key) (calls EOp.encr cs)))) := by
  have hl := admissibleCTS_length cs h
  simp only [C01.ecbEncr, hk, chunk_indep_ecb_encr C hE _ cs h, Bool.not_true, Bool.or_false, decide_eq_true_eq,
    show ¬ cs.flatten.length < 16 by omega, if_false]

theorem ecbDecr_chunked (C : C01.Cipher) (hD : ∀ k x, x.length = 16 → (C.dec k x).length = 16)
    (key : Bytes) (hk : C01.validKeyLen key.length = true) (cs : List Bytes) (h : admissibleCTS cs) :
    C01.ecbDecr C cs.flatten key = (.ok, some (dataOf (outs (ecbB C) (C01.fmtKey key) (calls EOp.decr cs)))) := by
  have hl := admissibleCTS_length cs h
  simp only [C01.ecbDecr, hk, chunk_indep_ecb_decr C hD _ cs h, Bool.not_true, Bool.or_false, decide_eq_true_eq,
    show ¬ cs.flatten.length < 16 by omega, if_false]

/-- for the real cipher -/
theorem belt_ecbEncr_chunked (key : Bytes) (hk : C01.validKeyLen key.length = true) (cs : List Bytes)
    (h : admissibleCTS cs) :
    C01.ecbEncr C01.beltCipher cs.flatten key =
      (.ok, some (dataOf (outs (ecbB C01.beltCipher) (C01.fmtKey key) (calls EOp.encr cs)))) :=
  ecbEncr_chunked _ belt_blockLen.1 key hk cs h

theorem belt_ecbDecr_chunked (key : Bytes) (hk : C01.validKeyLen key.length = true) (cs : List Bytes)
    (h : admissibleCTS cs) :
    C01.ecbDecr C01.beltCipher cs.flatten key =
      (.ok, some (dataOf (outs (ecbB C01.beltCipher) (C01.fmtKey key) (calls EOp.decr cs)))) :=
  ecbDecr_chunked _ belt_blockLen.2 key hk cs h

example : C01.validKeyLen (C01.zeros 24).length = true := by decide

/-! ### BDE -/

/-- CHUNK INDEPENDENCE of `beltBDEStepE`: fragments of whole blocks (empty ones included), any state; the data
returned and the FINAL STATE (all fields, incl. the scratch copy `block` of the tweak register) are those of the
one-shot call.  No hypothesis on the cipher or on the state. -/
theorem chunk_indep_bde_encr (C : C01.Cipher) (st : C01.BdeSt) (cs : List Bytes) (h : wholeBlocks cs) :
    dataOf (outs (bdeB C) st (calls EOp.encr cs)) = (C01.bdeStepE C st cs.flatten).2 ∧
    after (bdeB C) st (calls EOp.encr cs) = (C01.bdeStepE C st cs.flatten).1 :=
  fold_free (bdeB C) EOp.encr (bdeStep C.enc) (bde_isStepE C) (fun _ => True) (fun c => c.length % 16 = 0)
    (fun s _ => bdeStep_nil _ s) (fun _ _ _ _ => trivial) (fun s a b _ ha => bdeStep_split _ s a b ha) cs st trivial h

theorem chunk_indep_bde_decr (C : C01.Cipher) (st : C01.BdeSt) (cs : List Bytes) (h : wholeBlocks cs) :
    dataOf (outs (bdeB C) st (calls EOp.decr cs)) = (C01.bdeStepD C st cs.flatten).2 ∧
    after (bdeB C) st (calls EOp.decr cs) = (C01.bdeStepD C st cs.flatten).1 :=
  fold_free (bdeB C) EOp.decr (bdeStep C.dec) (bde_isStepD C) (fun _ => True) (fun c => c.length % 16 = 0)
    (fun s _ => bdeStep_nil _ s) (fun _ _ _ _ => trivial) (fun s a b _ ha => bdeStep_split _ s a b ha) cs st trivial h

/-- … after `beltBDEStart(key, iv)` (no hypothesis on `iv` needed) -/
theorem chunk_indep_bde_encr_start (C : C01.Cipher) (key iv : Bytes) (cs : List Bytes) (h : wholeBlocks cs) :
    dataOf (outs (bdeB C) (C01.bdeStart C key iv) (calls EOp.encr cs))
      = (C01.bdeStepE C (C01.bdeStart C key iv) cs.flatten).2 ∧
    after (bdeB C) (C01.bdeStart C key iv) (calls EOp.encr cs)
      = (C01.bdeStepE C (C01.bdeStart C key iv) cs.flatten).1 :=
  chunk_indep_bde_encr C _ cs h

theorem chunk_indep_bde_decr_start (C : C01.Cipher) (key iv : Bytes) (cs : List Bytes) (h : wholeBlocks cs) :
    dataOf (outs (bdeB C) (C01.bdeStart C key iv) (calls EOp.decr cs))
      = (C01.bdeStepD C (C01.bdeStart C key iv) cs.flatten).2 ∧
    after (bdeB C) (C01.bdeStart C key iv) (calls EOp.decr cs)
      = (C01.bdeStepD C (C01.bdeStart C key iv) cs.flatten).1 :=
  chunk_indep_bde_decr C _ cs h

/-- 48 octets cut 16 + 0 + 32 -/
example : wholeBlocks [d48.take 16, [], d48.drop 16] := by unfold wholeBlocks; decide
example : dataOf (outs (bdeB C01.toyC) (C01.bdeStart C01.toyC [1, 2, 3] (d48.take 16))
      (calls EOp.encr [d48.take 16, [], d48.drop 16]))
    = (C01.bdeStepE C01.toyC (C01.bdeStart C01.toyC [1, 2, 3] (d48.take 16)) d48).2 := by decide +kernel
example : (fun st : C01.BdeSt => (st.key, st.s, st.block)) (after (bdeB C01.toyC)
      (C01.bdeStart C01.toyC [1, 2, 3] (d48.take 16)) (calls EOp.decr [d48.take 16, [], d48.drop 16, []]))
    = (fun st : C01.BdeSt => (st.key, st.s, st.block))
      (C01.bdeStepD C01.toyC (C01.bdeStart C01.toyC [1, 2, 3] (d48.take 16)) d48).1 := by decide +kernel

/-- `beltBDEEncr` on the concatenation (at least one block) = `beltBDEStart` + any session of `beltBDEStepE` on
whole-block fragments -/
theorem bdeEncr_chunked (C : C01.Cipher) (key iv : Bytes) (hk : C01.validKeyLen key.length = true)
    (cs : List Bytes) (h : wholeBlocks cs) (h16 : 16 ≤ cs.flatten.length) :
    C01.bdeEncr C cs.flatten key iv =
      (.ok, some (dataOf (outs (bdeB C) (C01.bdeStart C key iv) (calls EOp.encr cs)))) := by
  have hw := wholeBlocks_flatten cs h
  simp only [C01.bdeEncr, hk, (chunk_indep_bde_encr C _ cs h).1, hw, Bool.not_true, Bool.or_false, ne_eq,
    not_true_eq_false, decide_false, show ¬ cs.flatten.length < 16 by omega, Bool.false_eq_true, if_false]

theorem bdeDecr_chunked (C : C01.Cipher) (key iv : Bytes) (hk : C01.validKeyLen key.length = true)
    (cs : List Bytes) (h : wholeBlocks cs) (h16 : 16 ≤ cs.flatten.length) :
    C01.bdeDecr C cs.flatten key iv =
      (.ok, some (dataOf (outs (bdeB C) (C01.bdeStart C key iv) (calls EOp.decr cs)))) := by
  have hw := wholeBlocks_flatten cs h
  simp only [C01.bdeDecr, hk, (chunk_indep_bde_decr C _ cs h).1, hw, Bool.not_true, Bool.or_false, ne_eq,
    not_true_eq_false, decide_false, show ¬ cs.flatten.length < 16 by omega, Bool.false_eq_true, if_false]

theorem belt_bdeEncr_chunked (key iv : Bytes) (hk : C01.validKeyLen key.length = true)
    (cs : List Bytes) (h : wholeBlocks cs) (h16 : 16 ≤ cs.flatten.length) :
    C01.bdeEncr C01.beltCipher cs.flatten key iv =
      (.ok, some (dataOf (outs (bdeB C01.beltCipher) (C01.bdeStart C01.beltCipher key iv) (calls EOp.encr cs)))) :=
  bdeEncr_chunked _ key iv hk cs h h16

theorem belt_bdeDecr_chunked (key iv : Bytes) (hk : C01.validKeyLen key.length = true)
    (cs : List Bytes) (h : wholeBlocks cs) (h16 : 16 ≤ cs.flatten.length) :
    C01.bdeDecr C01.beltCipher cs.flatten key iv =
      (.ok, some (dataOf (outs (bdeB C01.beltCipher) (C01.bdeStart C01.beltCipher key iv) (calls EOp.decr cs)))) :=
  bdeDecr_chunked _ key iv hk cs h h16

/-! ### CFB -/

/-- CHUNK INDEPENDENCE of `beltCFBStepE`: EVERY fragmentation (no restriction on `cs`: empty fragments, cuts
inside a block, fragments that end inside the reserve of gamma, …), from every state with a 16-octet `block` and
`reserved ≤ 16`: the returned octets and the final state (all fields) are those of the one-shot call on the
concatenation. -/
theorem chunk_indep_cfb_encr (C : C01.Cipher) (hE : ∀ k x, x.length = 16 → (C.enc k x).length = 16)
    (st : C01.CfbSt) (hr : st.reserved ≤ 16) (hb : st.block.length = 16) (cs : List Bytes) :
    dataOf (outs (cfbB C) st (calls EOp.encr cs)) = (C01.cfbStepE C st cs.flatten).2 ∧
    after (cfbB C) st (calls EOp.encr cs) = (C01.cfbStepE C st cs.flatten).1 := by
  rw [cfbStepE_eq]
  exact cfbG_chunks fbE C hE EOp.encr (cfb_isStepE C) st ⟨hb, hr⟩ cs

/-- CHUNK INDEPENDENCE of `beltCFBStepD`, every fragmentation -/
theorem chunk_indep_cfb_decr (C : C01.Cipher) (hE : ∀ k x, x.length = 16 → (C.enc k x).length = 16)
    (st : C01.CfbSt) (hr : st.reserved ≤ 16) (hb : st.block.length = 16) (cs : List Bytes) :
    dataOf (outs (cfbB C) st (calls EOp.decr cs)) = (C01.cfbStepD C st cs.flatten).2 ∧
    after (cfbB C) st (calls EOp.decr cs) = (C01.cfbStepD C st cs.flatten).1 := by
  rw [cfbStepD_eq]
  exact cfbG_chunks fbD C hE EOp.decr (cfb_isStepD C) st ⟨hb, hr⟩ cs

/-- … after `beltCFBStart(key, iv)` -/
theorem chunk_indep_cfb_encr_start (C : C01.Cipher) (hE : ∀ k x, x.length = 16 → (C.enc k x).length = 16)
    (key iv : Bytes) (hiv : iv.length = 16) (cs : List Bytes) :
    dataOf (outs (cfbB C) (C01.cfbStart key iv) (calls EOp.encr cs))
      = (C01.cfbStepE C (C01.cfbStart key iv) cs.flatten).2 ∧
    after (cfbB C) (C01.cfbStart key iv) (calls EOp.encr cs) = (C01.cfbStepE C (C01.cfbStart key iv) cs.flatten).1 :=
  chunk_indep_cfb_encr C hE _ (Nat.zero_le _) hiv cs

theorem chunk_indep_cfb_decr_start (C : C01.Cipher) (hE : ∀ k x, x.length = 16 → (C.enc k x).length = 16)
    (key iv : Bytes) (hiv : iv.length = 16) (cs : List Bytes) :
    dataOf (outs (cfbB C) (C01.cfbStart key iv) (calls EOp.decr cs))
      = (C01.cfbStepD C (C01.cfbStart key iv) cs.flatten).2 ∧
    after (cfbB C) (C01.cfbStart key iv) (calls EOp.decr cs) = (C01.cfbStepD C (C01.cfbStart key iv) cs.flatten).1 :=
  chunk_indep_cfb_decr C hE _ (Nat.zero_le _) hiv cs

/-- 37 octets cut 5 + 0 + 20 + 12: the third fragment starts inside a block (offset 5) and ends inside the next
one (offset 9), the fourth one ends at offset 5 of the third block -/
example : dataOf (outs (cfbB C01.toyC) (C01.cfbStart [1, 2, 3] (d48.take 16))
      (calls EOp.encr [d37.take 5, [], (d37.drop 5).take 20, d37.drop 25]))
    = (C01.cfbStepE C01.toyC (C01.cfbStart [1, 2, 3] (d48.take 16)) d37).2 := by decide +kernel
example : (fun st : C01.CfbSt => (st.key, st.block, st.reserved)) (after (cfbB C01.toyC)
      (C01.cfbStart [1, 2, 3] (d48.take 16)) (calls EOp.encr [d37.take 5, [], (d37.drop 5).take 20, d37.drop 25]))
    = (fun st : C01.CfbSt => (st.key, st.block, st.reserved))
      (C01.cfbStepE C01.toyC (C01.cfbStart [1, 2, 3] (d48.take 16)) d37).1 := by decide +kernel
example : dataOf (outs (cfbB C01.toyC) (C01.cfbStart [1, 2, 3] (d48.take 16))
      (calls EOp.decr [d37.take 5, [], (d37.drop 5).take 20, d37.drop 25]))
    = (C01.cfbStepD C01.toyC (C01.cfbStart [1, 2, 3] (d48.take 16)) d37).2 := by decide +kernel
/-- … from a state in the middle of a block (`reserved = 11`), fragments 3 + 8 + 0 + 22 (the second one uses up
the reserve exactly) -/
example : dataOf (outs (cfbB C01.toyC) ⟨[1, 2, 3], d48.drop 32, 11⟩
      (calls EOp.decr [d33.take 3, (d33.drop 3).take 8, [], d33.drop 11]))
    = (C01.cfbStepD C01.toyC ⟨[1, 2, 3], d48.drop 32, 11⟩ d33).2 := by decide +kernel
/-- the result is not the identity -/
example : (C01.cfbStepE C01.toyC (C01.cfbStart [1, 2, 3] (d48.take 16)) d37).2 ≠ d37 := by decide +kernel

/-- `beltCFBEncr` on the concatenation = `beltCFBStart` + ANY session of `beltCFBStepE` -/
theorem cfbEncr_chunked (C : C01.Cipher) (hE : ∀ k x, x.length = 16 → (C.enc k x).length = 16)
    (key iv : Bytes) (hk : C01.validKeyLen key.length = true) (hiv : iv.length = 16) (cs : List Bytes) :
    C01.cfbEncr C cs.flatten key iv =
      (.ok, some (dataOf (outs (cfbB C) (C01.cfbStart key iv) (calls EOp.encr cs)))) := by
  simp only [C01.cfbEncr, hk, (chunk_indep_cfb_encr_start C hE key iv hiv cs).1, Bool.not_true, Bool.false_eq_true,
    if_false]

theorem cfbDecr_chunked (C : C01.Cipher) (hE : ∀ k x, x.length = 16 → (C.enc k x).length = 16)
    (key iv : Bytes) (hk : C01.validKeyLen key.length = true) (hiv : iv.length = 16) (cs : List Bytes) :
    C01.cfbDecr C cs.flatten key iv =
      (.ok, some (dataOf (outs (cfbB C) (C01.cfbStart key iv) (calls EOp.decr cs)))) := by
  simp only [C01.cfbDecr, hk, (chunk_indep_cfb_decr_start C hE key iv hiv cs).1, Bool.not_true, Bool.false_eq_true,
    if_false]

theorem belt_cfbEncr_chunked (key iv : Bytes) (hk : C01.validKeyLen key.length = true) (hiv : iv.length = 16)
    (cs : List Bytes) :
    C01.cfbEncr C01.beltCipher cs.flatten key iv =
      (.ok, some (dataOf (outs (cfbB C01.beltCipher) (C01.cfbStart key iv) (calls EOp.encr cs)))) :=
  cfbEncr_chunked _ belt_blockLen.1 key iv hk hiv cs

theorem belt_cfbDecr_chunked (key iv : Bytes) (hk : C01.validKeyLen key.length = true) (hiv : iv.length = 16)
    (cs : List Bytes) :
    C01.cfbDecr C01.beltCipher cs.flatten key iv =
      (.ok, some (dataOf (outs (cfbB C01.beltCipher) (C01.cfbStart key iv) (calls EOp.decr cs)))) :=
  cfbDecr_chunked _ belt_blockLen.1 key iv hk hiv cs

/-! ### CBC -/

/-- CHUNK INDEPENDENCE of `beltCBCStepE`: every admissible fragmentation, from every state with a 16-octet chaining
block: returned octets (incl. the ciphertext-stealing tail of the last fragment) and final state (all fields) are
those of the one-shot call. -/
theorem chunk_indep_cbc_encr (C : C01.Cipher) (hE : ∀ k x, x.length = 16 → (C.enc k x).length = 16)
    (st : C01.CbcSt) (hb : st.block.length = 16) (cs : List Bytes) (h : admissibleCTS cs) :
    dataOf (outs (cbcB C) st (calls EOp.encr cs)) = (C01.cbcStepE C st cs.flatten).2 ∧
    after (cbcB C) st (calls EOp.encr cs) = (C01.cbcStepE C st cs.flatten).1 :=
  fold_cts (cbcB C) EOp.encr (C01.cbcStepE C) (cbc_isStepE C) (fun s => s.block.length = 16)
    (fun s c hs _ h2 => cbcStepE_inv C hE s hs c h2)
    (fun s a b hs _ h2 h3 => cbcStepE_split C hE s hs a b h2 h3) cs st hb h

/-- CHUNK INDEPENDENCE of `beltCBCStepD` (the loop `while (count >= 32 || count == 16)` + the stealing tail for
`16 < count < 32`): every admissible fragmentation, from EVERY state, for every cipher; final states are equal in
all fields (incl. the scratch block `block2`). -/
theorem chunk_indep_cbc_decr (C : C01.Cipher) (st : C01.CbcSt) (cs : List Bytes) (h : admissibleCTS cs) :
    dataOf (outs (cbcB C) st (calls EOp.decr cs)) = (C01.cbcStepD C st cs.flatten).2 ∧
    after (cbcB C) st (calls EOp.decr cs) = (C01.cbcStepD C st cs.flatten).1 :=
  fold_cts (cbcB C) EOp.decr (C01.cbcStepD C) (cbc_isStepD C) (fun _ => True)
    (fun _ _ _ _ _ => trivial)
    (fun s a b _ _ h2 h3 => cbcStepD_split C s a b h2 h3) cs st trivial h

/-- … after `beltCBCStart(key, iv)` -/
theorem chunk_indep_cbc_encr_start (C : C01.Cipher) (hE : ∀ k x, x.length = 16 → (C.enc k x).length = 16)
    (key iv : Bytes) (hiv : iv.length = 16) (cs : List Bytes) (h : admissibleCTS cs) :
    dataOf (outs (cbcB C) (C01.cbcStart key iv) (calls EOp.encr cs))
      = (C01.cbcStepE C (C01.cbcStart key iv) cs.flatten).2 ∧
    after (cbcB C) (C01.cbcStart key iv) (calls EOp.encr cs) = (C01.cbcStepE C (C01.cbcStart key iv) cs.flatten).1 :=
  chunk_indep_cbc_encr C hE _ hiv cs h

/-- … `beltCBCStepD` after `beltCBCStart(key, iv)` (no hypothesis on `iv` needed) -/
theorem chunk_indep_cbc_decr_start (C : C01.Cipher) (key iv : Bytes) (cs : List Bytes) (h : admissibleCTS cs) :
    dataOf (outs (cbcB C) (C01.cbcStart key iv) (calls EOp.decr cs))
      = (C01.cbcStepD C (C01.cbcStart key iv) cs.flatten).2 ∧
    after (cbcB C) (C01.cbcStart key iv) (calls EOp.decr cs) = (C01.cbcStepD C (C01.cbcStart key iv) cs.flatten).1 :=
  chunk_indep_cbc_decr C _ cs h

/-- 33 octets cut 16 + 17, 48 + 1 octets cut 16 + 16 + 17 -/
example : dataOf (outs (cbcB C01.toyC) (C01.cbcStart [1, 2, 3] (d48.drop 32)) (calls EOp.encr [d33.take 16, d33.drop 16]))
    = (C01.cbcStepE C01.toyC (C01.cbcStart [1, 2, 3] (d48.drop 32)) d33).2 := by decide +kernel
example : dataOf (outs (cbcB C01.toyC) (C01.cbcStart [1, 2, 3] (d48.drop 32))
      (calls EOp.decr [d48.take 16, (d48.drop 16).take 16, d48.drop 32 ++ [9]]))
    = (C01.cbcStepD C01.toyC (C01.cbcStart [1, 2, 3] (d48.drop 32)) (d48 ++ [9])).2 := by decide +kernel
example : dataOf (outs (cbcB C01.toyC) (C01.cbcStart [1, 2, 3] (d48.drop 32)) (calls EOp.decr [d33.take 16, d33.drop 16]))
    = (C01.cbcStepD C01.toyC (C01.cbcStart [1, 2, 3] (d48.drop 32)) d33).2 := by decide +kernel
example : (fun st : C01.CbcSt => (st.key, st.block, st.block2)) (after (cbcB C01.toyC)
      (C01.cbcStart [1, 2, 3] (d48.drop 32)) (calls EOp.decr [d33.take 16, d33.drop 16]))
    = (fun st : C01.CbcSt => (st.key, st.block, st.block2))
      (C01.cbcStepD C01.toyC (C01.cbcStart [1, 2, 3] (d48.drop 32)) d33).1 := by decide +kernel
/-- the restriction is needed: the inadmissible cut 32 + 1 gives something else -/
example : dataOf (outs (cbcB C01.toyC) (C01.cbcStart [1, 2, 3] (d48.drop 32)) (calls EOp.encr [d33.take 32, d33.drop 32]))
    ≠ (C01.cbcStepE C01.toyC (C01.cbcStart [1, 2, 3] (d48.drop 32)) d33).2 := by decide +kernel
example : dataOf (outs (cbcB C01.toyC) (C01.cbcStart [1, 2, 3] (d48.drop 32)) (calls EOp.decr [d33.take 32, d33.drop 32]))
    ≠ (C01.cbcStepD C01.toyC (C01.cbcStart [1, 2, 3] (d48.drop 32)) d33).2 := by decide +kernel

/-- `beltCBCEncr` on the concatenation = `beltCBCStart` + any admissible session of `beltCBCStepE` -/
theorem cbcEncr_chunked (C : C01.Cipher) (hE : ∀ k x, x.length = 16 → (C.enc k x).length = 16)
    (key iv : Bytes) (hk : C01.validKeyLen key.length = true) (hiv : iv.length = 16) (cs : List Bytes)
    (h : admissibleCTS cs) :
    C01.cbcEncr C cs.flatten key iv =
      (.ok, some (dataOf (outs (cbcB C) (C01.cbcStart key iv) (calls EOp.encr cs)))) := by
  have hl := admissibleCTS_length cs h
  simp only [C01.cbcEncr, hk, (chunk_indep_cbc_encr_start C hE key iv hiv cs h).1, Bool.not_true, Bool.or_false,
    decide_eq_true_eq, show ¬ cs.flatten.length < 16 by omega, if_false]

/-- `beltCBCDecr` on the concatenation = `beltCBCStart` + any admissible session of `beltCBCStepD` (any cipher,
any `iv`) -/
theorem cbcDecr_chunked (C : C01.Cipher) (key iv : Bytes) (hk : C01.validKeyLen key.length = true)
    (cs : List Bytes) (h : admissibleCTS cs) :
    C01.cbcDecr C cs.flatten key iv =
      (.ok, some (dataOf (outs (cbcB C) (C01.cbcStart key iv) (calls EOp.decr cs)))) := by
  have hl := admissibleCTS_length cs h
  simp only [C01.cbcDecr, hk, (chunk_indep_cbc_decr C _ cs h).1, Bool.not_true, Bool.or_false,
    decide_eq_true_eq, show ¬ cs.flatten.length < 16 by omega, if_false]

theorem belt_cbcEncr_chunked (key iv : Bytes) (hk : C01.validKeyLen key.length = true) (hiv : iv.length = 16)
    (cs : List Bytes) (h : admissibleCTS cs) :
    C01.cbcEncr C01.beltCipher cs.flatten key iv =
      (.ok, some (dataOf (outs (cbcB C01.beltCipher) (C01.cbcStart key iv) (calls EOp.encr cs)))) :=
  cbcEncr_chunked _ belt_blockLen.1 key iv hk hiv cs h

theorem belt_cbcDecr_chunked (key iv : Bytes) (hk : C01.validKeyLen key.length = true)
    (cs : List Bytes) (h : admissibleCTS cs) :
    C01.cbcDecr C01.beltCipher cs.flatten key iv =
      (.ok, some (dataOf (outs (cbcB C01.beltCipher) (C01.cbcStart key iv) (calls EOp.decr cs)))) :=
  cbcDecr_chunked _ key iv hk cs h

/-! ### SDE: sector independence -/

/-- SECTOR INDEPENDENCE of `beltSDEStepE/D`: in a session `beltSDEStart(key); Step(iv1, d1); …; Step(ivm, dm)`
(encryptions and decryptions mixed, every `d_i` a sector: whole blocks, at least two) the buffer returned by the
i-th call is exactly what the one-shot `beltSDEEncr(d_i, key, iv_i)` / `beltSDEDecr(d_i, key, iv_i)` returns —
earlier calls leave no trace — and the state is the formatted key throughout.  (`okOut (.data b) = (ERR_OK, b)`;
`sdeOneShot C key (.encr iv d) = sdeEncr C d key iv`.) -/
theorem chunk_indep_sde (C : C01.Cipher) (key : Bytes) (hk : C01.validKeyLen key.length = true)
    (ops : List SdeOp) (hs : ∀ op ∈ ops, sector (sdeData op)) :
    (outs (sdeB C) (C01.fmtKey key) (ops.map Call.op)).map okOut = ops.map (sdeOneShot C key) ∧
    after (sdeB C) (C01.fmtKey key) (ops.map Call.op) = C01.fmtKey key :=
  sde_session C key hk ops hs

/-- the same, position by position -/
theorem chunk_indep_sde_at (C : C01.Cipher) (key : Bytes) (hk : C01.validKeyLen key.length = true)
    (ops : List SdeOp) (hs : ∀ op ∈ ops, sector (sdeData op)) (i : Nat) (hi : i < ops.length) :
    ∃ b, (outs (sdeB C) (C01.fmtKey key) (ops.map Call.op))[i]? = some (Out.data b) ∧
      sdeOneShot C key ops[i] = (.ok, some b) := by
  have h := congrArg (fun l => l[i]?) (chunk_indep_sde C key hk ops hs).1
  simp only [List.getElem?_map, List.getElem?_eq_getElem hi, Option.map_some] at h
  cases ho : (outs (sdeB C) (C01.fmtKey key) (ops.map Call.op))[i]? with
  | none => rw [ho] at h; simp at h
  | some o =>
    rw [ho] at h
    simp only [Option.map_some, Option.some.injEq] at h
    obtain ⟨hs1, hs2⟩ := hs ops[i] (List.getElem_mem hi)
    have hok : (sdeOneShot C key ops[i]).1 = .ok := by
      cases hop : ops[i] with
      | encr iv d =>
        rw [hop] at hs1 hs2
        simp only [sdeData] at hs1 hs2
        simp only [sdeOneShot, C01.sdeEncr, hk, hs1, ne_eq, not_true_eq_false, decide_false, Bool.not_true,
          Bool.or_false, show ¬ d.length < 32 by omega, Bool.false_eq_true, if_false]
      | decr iv d =>
        rw [hop] at hs1 hs2
        simp only [sdeData] at hs1 hs2
        simp only [sdeOneShot, C01.sdeDecr, hk, hs1, ne_eq, not_true_eq_false, decide_false, Bool.not_true,
          Bool.or_false, show ¬ d.length < 32 by omega, Bool.false_eq_true, if_false]
    cases o with
    | data b => exact ⟨b, rfl, h.symm⟩
    | none => rw [← h] at hok; simp [okOut] at hok
    | verdict v => rw [← h] at hok; simp [okOut] at hok

/-- two sectors (48 and 32 octets) under different IVs, an encryption followed by a decryption -/
example : ∀ op ∈ [SdeOp.encr (d48.take 16) d48, SdeOp.decr (d48.drop 32) (d37.take 32)], sector (sdeData op) := by
  unfold sector; decide
example : (outs (sdeB C01.toyC) (C01.fmtKey (C01.zeros 16))
      ([SdeOp.encr (d48.take 16) d48, SdeOp.decr (d48.drop 32) (d37.take 32)].map Call.op)).map okOut
    = [C01.sdeEncr C01.toyC d48 (C01.zeros 16) (d48.take 16),
       C01.sdeDecr C01.toyC (d37.take 32) (C01.zeros 16) (d48.drop 32)] := by decide +kernel
/-- the one-shot results are successes that change the data -/
example : C01.sdeEncr C01.toyC d48 (C01.zeros 16) (d48.take 16) ≠ (.ok, some d48) ∧
    (C01.sdeEncr C01.toyC d48 (C01.zeros 16) (d48.take 16)).1 = .ok := by decide +kernel

theorem belt_chunk_indep_sde (key : Bytes) (hk : C01.validKeyLen key.length = true)
    (ops : List SdeOp) (hs : ∀ op ∈ ops, sector (sdeData op)) :
    (outs (sdeB C01.beltCipher) (C01.fmtKey key) (ops.map Call.op)).map okOut = ops.map (sdeOneShot C01.beltCipher key) :=
  (chunk_indep_sde C01.beltCipher key hk ops hs).1

end Bee2V.C10

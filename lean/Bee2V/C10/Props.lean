/-
C10 property theorems — root file.  `relocatable_X` for every bundle: a relocation anywhere in a session changes
neither the later outputs nor the state (`RelocInvisible`: trivially true of the model, which has no addresses),
TOGETHER WITH the fact that makes the model faithful: the C state struct of the bundle, as laid out by the compiler
for the current sources, has no pointer member, and all records nested in it are in the checked table
(`no_pointer_members`, `nested_closed` in PropsStructs.lean).  The chunk-independence and get-then-continue theorems
are in PropsModes / PropsAead / PropsAbsorb / PropsGen / PropsBrng (imported below).
-/
import Bee2V.C10.PropsStructs
import Bee2V.C10.Stmts
import Bee2V.C10.PropsModes
import Bee2V.C10.PropsAead
import Bee2V.C10.PropsAbsorb
import Bee2V.C10.PropsGen
import Bee2V.C10.PropsBrng
import Bee2V.C10.PropsRefined
import Bee2V.C10.PropsStd
namespace Bee2V.C10
open Bee2V.Gen.C10Structs

/-- position independence of one record: no pointer member, nested records resolved inside the table -/
abbrev PositionIndependent (r : Rec) : Prop := pointerCount r = 0 ∧ nestedOk r = true ∧ records.any (fun q => q.id == r.id) = true

theorem relocatable_ecb (C : C01.Cipher) :
    RelocInvisible (ecbB C) ∧ PositionIndependent belt_ecb_st :=
  ⟨relocInvisible _, by decide⟩

theorem relocatable_cbc (C : C01.Cipher) :
    RelocInvisible (cbcB C) ∧ PositionIndependent belt_cbc_st :=
  ⟨relocInvisible _, by decide⟩

theorem relocatable_cfb (C : C01.Cipher) :
    RelocInvisible (cfbB C) ∧ PositionIndependent belt_cfb_st :=
  ⟨relocInvisible _, by decide⟩

theorem relocatable_ctr (C : C01.Cipher) :
    RelocInvisible (ctrB C) ∧ PositionIndependent belt_ctr_st :=
  ⟨relocInvisible _, by decide⟩

theorem relocatable_bde (C : C01.Cipher) :
    RelocInvisible (bdeB C) ∧ PositionIndependent belt_bde_st :=
  ⟨relocInvisible _, by decide⟩

theorem relocatable_sde (C : C01.Cipher) :
    RelocInvisible (sdeB C) ∧ PositionIndependent belt_sde_st :=
  ⟨relocInvisible _, by decide⟩

theorem relocatable_mac (C : C01.Cipher) :
    RelocInvisible (macB C) ∧ PositionIndependent belt_mac_st :=
  ⟨relocInvisible _, by decide⟩

theorem relocatable_hash (C : C01.Cipher) :
    RelocInvisible (hashB C) ∧ PositionIndependent belt_hash_st :=
  ⟨relocInvisible _, by decide⟩

theorem relocatable_hmac (C : C01.Cipher) :
    RelocInvisible (hmacB C) ∧ PositionIndependent belt_hmac_st :=
  ⟨relocInvisible _, by decide⟩

theorem relocatable_dwp (C : C01.Cipher) :
    RelocInvisible (dwpB C) ∧ PositionIndependent belt_dwp_st :=
  ⟨relocInvisible _, by decide⟩

theorem relocatable_che (C : C01.Cipher) :
    RelocInvisible (cheB C) ∧ PositionIndependent belt_che_st :=
  ⟨relocInvisible _, by decide⟩

theorem relocatable_krp (C : C01.Cipher) :
    RelocInvisible (krpB C) ∧ PositionIndependent belt_krp_st :=
  ⟨relocInvisible _, by decide⟩

theorem relocatable_bashHash (F : Bytes → Bytes) :
    RelocInvisible (bashHashB F) ∧ PositionIndependent bash_hash_st :=
  ⟨relocInvisible _, by decide⟩

theorem relocatable_bashPrg (F : Bytes → Bytes) :
    RelocInvisible (prgB F) ∧ PositionIndependent bash_prg_st :=
  ⟨relocInvisible _, by decide⟩

theorem relocatable_brngCTR :
    RelocInvisible (brngCtrB) ∧ PositionIndependent brng_ctr_st :=
  ⟨relocInvisible _, by decide⟩

theorem relocatable_hotp :
    RelocInvisible (hotpB) ∧ PositionIndependent botp_hotp_st :=
  ⟨relocInvisible _, by decide⟩

theorem relocatable_totp :
    RelocInvisible (totpB) ∧ PositionIndependent botp_totp_st :=
  ⟨relocInvisible _, by decide⟩

theorem relocatable_ocra :
    RelocInvisible (ocraB) ∧ PositionIndependent botp_ocra_st :=
  ⟨relocInvisible _, by decide⟩

/-- brng HMAC: relocation is invisible in the model; the C struct has ONE pointer member, `iv`, which is only ever
read when `iv_len > 64`, where it holds the caller's buffer (documented in brng.h to stay valid) — never a pointer
into the state itself (`brng_hmac_iv_exception`).  The harness relocates states with iv_len ≤ 64 AND > 64. -/
theorem relocatable_brngHMAC :
    RelocInvisible brngHmacB ∧ pointerCount brng_hmac_st = 1 ∧ brngHmacIvUses.all (ivUseOk 64) = true ∧
    brng_hmac_st.id = brngHmacId :=
  ⟨relocInvisible _, by decide⟩

/-- non-vacuity: a relocation in the middle of a MAC session (toy cipher) -/
example : (run (macB ⟨fun _ x => x.map (· + 1), fun _ x => x⟩) (C01.macStart ⟨fun _ x => x.map (· + 1), fun _ x => x⟩ [])
    [.op (.absorb [1, 2, 3]), .reloc, .op (.get 2)]).2 = [.none, .none, .data (C01.macStepG ⟨fun _ x => x.map (· + 1), fun _ x => x⟩
      (C01.macStepA ⟨fun _ x => x.map (· + 1), fun _ x => x⟩ (C01.macStart ⟨fun _ x => x.map (· + 1), fun _ x => x⟩ []) [1, 2, 3]) 2).2] := by decide

end Bee2V.C10

/-
C10 helper lemmas, brng generators (brng.c: `brngCTRStepR`, `brngHMACStepR`).

Both generators have the same buffering skeleton: serve the request from the unread tail of `block`
(`reserved` octets), then whole 32-octet blocks straight into the caller's buffer, then one more block into
`block` of which a prefix is returned.  The skeleton is developed once (`G`, `gStep`) over an abstract block
function `nx : κ → κ × Bytes` on the part `κ` of the state that drives generation; `brngHMACStepR` and
`brngCTRStepR` on zero-filled buffers are shown to BE this skeleton (`hmacGenStepR_eq`, `ctrStepR_zeros`).
The property theorems are in PropsBrng.lean.
-/
import Bee2V.C10.Stmts
import Bee2V.C03.BeltLemmas
import Bee2V.C03.LemmasCtr
namespace Bee2V.C10.Brng
open Bee2V

/-! ### the buffering skeleton -/

/-- generator state: `core` drives generation; `block[32 - reserved ..]` is generated but not yet returned -/
structure G (κ : Type) where
  core : κ
  block : Bytes
  reserved : Nat

section skeleton
variable {κ : Type} (nx : κ → κ × Bytes)

/-- `n` blocks straight to the caller -/
def gFull : κ → Nat → κ × Bytes
  | c, 0 => (c, [])
  | c, n + 1 => ((gFull (nx c).1 n).1, (nx c).2 ++ (gFull (nx c).1 n).2)

/-- the part of StepR after the reserve has been used up -/
def gGen (s : G κ) (count : Nat) : G κ × Bytes :=
  if count % 32 ≠ 0 then
    (⟨(nx (gFull nx s.core (count / 32)).1).1, (nx (gFull nx s.core (count / 32)).1).2, 32 - count % 32⟩,
     (gFull nx s.core (count / 32)).2 ++ (nx (gFull nx s.core (count / 32)).1).2.take (count % 32))
  else (⟨(gFull nx s.core (count / 32)).1, s.block, s.reserved⟩, (gFull nx s.core (count / 32)).2)

/-- StepR(count) -/
def gStep (count : Nat) (s : G κ) : G κ × Bytes :=
  if s.reserved ≠ 0 then
    if s.reserved ≥ count then
      (⟨s.core, s.block, s.reserved - count⟩, (s.block.drop (32 - s.reserved)).take count)
    else
      ((gGen nx ⟨s.core, s.block, 0⟩ (count - s.reserved)).1,
       (s.block.drop (32 - s.reserved)).take s.reserved ++ (gGen nx ⟨s.core, s.block, 0⟩ (count - s.reserved)).2)
  else gGen nx s count

/-- a session of requests: final state and the list of returned buffers -/
def gRun : G κ → List Nat → G κ × List Bytes
  | s, [] => (s, [])
  | s, n :: ns => ((gRun (gStep nx n s).1 ns).1, (gStep nx n s).2 :: (gRun (gStep nx n s).1 ns).2)

/-- invariant of the state -/
def GInv (s : G κ) : Prop := s.reserved ≤ 32 ∧ s.block.length = 32

/-- equal up to the already returned (scratch) part of `block` -/
def GEqv (s t : G κ) : Prop :=
  s.core = t.core ∧ s.reserved = t.reserved ∧ s.block.drop (32 - s.reserved) = t.block.drop (32 - t.reserved)

theorem GEqv.refl (s : G κ) : GEqv s s := ⟨rfl, rfl, rfl⟩
theorem GEqv.symm {s t : G κ} (h : GEqv s t) : GEqv t s := ⟨h.1.symm, h.2.1.symm, h.2.2.symm⟩
theorem GEqv.trans {s t u : G κ} (h : GEqv s t) (h' : GEqv t u) : GEqv s u :=
  ⟨h.1.trans h'.1, h.2.1.trans h'.2.1, h.2.2.trans h'.2.2⟩

theorem gFull_add (c : κ) (a b : Nat) :
    gFull nx c (a + b) = ((gFull nx (gFull nx c a).1 b).1, (gFull nx c a).2 ++ (gFull nx (gFull nx c a).1 b).2) := by
  induction a generalizing c with
  | zero => simp only [Nat.zero_add, gFull, List.nil_append]
  | succ a ih =>
    rw [Nat.succ_add]
    simp only [gFull, ih, List.append_assoc]

theorem gGen_zero (s : G κ) : gGen nx s 0 = (s, []) := by
  cases s
  simp [gGen, gFull]

/-- `q` whole blocks first -/
theorem gGen_shift (s : G κ) (q c : Nat) :
    gGen nx s (32 * q + c) =
      ((gGen nx ⟨(gFull nx s.core q).1, s.block, s.reserved⟩ c).1,
       (gFull nx s.core q).2 ++ (gGen nx ⟨(gFull nx s.core q).1, s.block, s.reserved⟩ c).2) := by
  have e1 : (32 * q + c) / 32 = q + c / 32 := by omega
  have e2 : (32 * q + c) % 32 = c % 32 := by omega
  simp only [gGen, e1, e2, gFull_add]
  by_cases h : c % 32 = 0
  · simp only [h, ne_eq, not_true_eq_false, if_false]
  · simp only [h, ne_eq, not_false_eq_true, if_true, List.append_assoc]

/-- reserve first, then the rest -/
theorem gStep_decomp (count : Nat) (s : G κ) :
    gStep nx count s =
      ((gGen nx ⟨s.core, s.block, s.reserved - min count s.reserved⟩ (count - min count s.reserved)).1,
       (s.block.drop (32 - s.reserved)).take (min count s.reserved) ++
        (gGen nx ⟨s.core, s.block, s.reserved - min count s.reserved⟩ (count - min count s.reserved)).2) := by
  by_cases h0 : s.reserved = 0
  · cases s with
    | mk core block reserved =>
      simp only at h0
      subst h0
      simp [gStep]
  · by_cases h : s.reserved ≥ count
    · have e : min count s.reserved = count := by omega
      simp only [gStep, h0, ne_eq, not_false_eq_true, if_true, h, e, Nat.sub_self, gGen_zero, List.append_nil]
    · have e : min count s.reserved = s.reserved := by omega
      simp only [gStep, h0, ne_eq, not_false_eq_true, if_true, h, if_false, e, Nat.sub_self]

/-- after the reserve is exhausted the old content of `block` does not matter -/
theorem gGen_block_irrel (k : κ) (B1 B2 : Bytes) (h1 : B1.length = 32) (h2 : B2.length = 32) (c : Nat) :
    (gGen nx ⟨k, B1, 0⟩ c).2 = (gGen nx ⟨k, B2, 0⟩ c).2 ∧ GEqv (gGen nx ⟨k, B1, 0⟩ c).1 (gGen nx ⟨k, B2, 0⟩ c).1 := by
  unfold gGen
  by_cases h : c % 32 = 0
  · simp only [h, ne_eq, not_true_eq_false, if_false, true_and]
    refine ⟨rfl, rfl, ?_⟩
    simp only [Nat.sub_zero]
    rw [List.drop_eq_nil_of_le (by omega), List.drop_eq_nil_of_le (by omega)]
  · simp only [h, ne_eq, not_false_eq_true, if_true, true_and]
    exact GEqv.refl _

end skeleton

section skeleton2
variable {κ : Type} (nx : κ → κ × Bytes) (hlen : ∀ c, (nx c).2.length = 32)
include hlen

theorem gGen_inv (s : G κ) (hi : GInv s) (c : Nat) : GInv (gGen nx s c).1 := by
  unfold gGen
  split
  · exact ⟨Nat.sub_le _ _, hlen _⟩
  · exact hi

theorem gStep_inv (c : Nat) (s : G κ) (hi : GInv s) : GInv (gStep nx c s).1 := by
  rw [gStep_decomp]
  exact gGen_inv nx hlen ⟨s.core, s.block, s.reserved - min c s.reserved⟩
    ⟨by show s.reserved - min c s.reserved ≤ 32; have := hi.1; omega, hi.2⟩ _

/-- a partial block of `t` octets has been returned; the next request -/
theorem gGen_split_partial (k : κ) (B : Bytes) (hB : B.length = 32) (t n : Nat) (ht0 : 0 < t) (ht : t < 32) :
    (gGen nx ⟨k, B, 0⟩ (t + n)).2 = (gGen nx ⟨k, B, 0⟩ t).2 ++ (gStep nx n (gGen nx ⟨k, B, 0⟩ t).1).2 ∧
    GEqv (gGen nx ⟨k, B, 0⟩ (t + n)).1 (gStep nx n (gGen nx ⟨k, B, 0⟩ t).1).1 := by
  have hY := hlen k
  have eG : gGen nx ⟨k, B, 0⟩ t = (⟨(nx k).1, (nx k).2, 32 - t⟩, (nx k).2.take t) := by
    have e1 : t / 32 = 0 := by omega
    have e2 : t % 32 = t := by omega
    have e3 : t ≠ 0 := by omega
    simp only [gGen, e1, e2, e3, gFull, ne_eq, not_false_eq_true, if_true, List.nil_append]
  rw [eG, gStep_decomp]
  simp only []
  have eo : 32 - (32 - t) = t := by omega
  rw [eo]
  by_cases hs : t + n < 32
  · -- still inside the block
    have em : min n (32 - t) = n := by omega
    have e1 : (t + n) / 32 = 0 := by omega
    have e2 : (t + n) % 32 = t + n := by omega
    have e3 : t + n ≠ 0 := by omega
    rw [em, Nat.sub_self, gGen_zero]
    simp only [gGen, e1, e2, e3, gFull, ne_eq, not_false_eq_true, if_true, List.nil_append, List.append_nil]
    refine ⟨List.take_add, rfl, by simp only []; omega, ?_⟩
    simp only []
    rw [show 32 - (32 - (t + n)) = t + n by omega, show 32 - (32 - t - n) = t + n by omega]
  · -- the block is used up, `n'` more octets
    have em : min n (32 - t) = 32 - t := by omega
    have en : t + n = 32 * 1 + (n - (32 - t)) := by omega
    rw [em, Nat.sub_self, en, gGen_shift]
    simp only [gFull, List.append_nil]
    obtain ⟨c1, c2⟩ := gGen_block_irrel nx (nx k).1 B (nx k).2 hB hY (n - (32 - t))
    refine ⟨?_, c2⟩
    rw [c1, ← List.append_assoc]
    congr 1
    have : ((nx k).2.drop t).take (32 - t) = (nx k).2.drop t :=
      List.take_of_length_le (by simp only [List.length_drop]; omega)
    rw [this, List.take_append_drop]

/-- the rest part: a request of `a + n` octets = a request of `a`, then one of `n` -/
theorem gGen_split (k : κ) (B : Bytes) (hB : B.length = 32) (a n : Nat) :
    (gGen nx ⟨k, B, 0⟩ (a + n)).2 = (gGen nx ⟨k, B, 0⟩ a).2 ++ (gStep nx n (gGen nx ⟨k, B, 0⟩ a).1).2 ∧
    GEqv (gGen nx ⟨k, B, 0⟩ (a + n)).1 (gStep nx n (gGen nx ⟨k, B, 0⟩ a).1).1 := by
  have ea : 32 * (a / 32) + a % 32 = a := by omega
  have ean : 32 * (a / 32) + (a % 32 + n) = a + n := by omega
  have hA := gGen_shift nx ⟨k, B, 0⟩ (a / 32) (a % 32)
  have hAN := gGen_shift nx ⟨k, B, 0⟩ (a / 32) (a % 32 + n)
  rw [ea] at hA
  rw [ean] at hAN
  rw [hAN, hA]
  simp only []
  by_cases ht : a % 32 = 0
  · rw [ht, Nat.zero_add, gGen_zero]
    simp only [List.append_nil, gStep, ne_eq, not_true_eq_false, if_false]
    exact ⟨trivial, GEqv.refl _⟩
  · obtain ⟨p1, p2⟩ := gGen_split_partial nx hlen (gFull nx k (a / 32)).1 B hB (a % 32) n (by omega) (by omega)
    refine ⟨?_, p2⟩
    rw [p1, List.append_assoc]

/-- THE SPLIT LEMMA: a request of `m + n` octets returns what requests of `m` and of `n` octets return, and
ends in an equivalent state -/
theorem gStep_split (s : G κ) (hi : GInv s) (m n : Nat) :
    (gStep nx (m + n) s).2 = (gStep nx m s).2 ++ (gStep nx n (gStep nx m s).1).2 ∧
    GEqv (gStep nx (m + n) s).1 (gStep nx n (gStep nx m s).1).1 := by
  obtain ⟨hr, hb⟩ := hi
  by_cases hm : m ≤ s.reserved
  · -- the first request is served from the reserve
    have e1 : min m s.reserved = m := by omega
    have hA : gStep nx m s = (⟨s.core, s.block, s.reserved - m⟩, (s.block.drop (32 - s.reserved)).take m) := by
      rw [gStep_decomp, e1, Nat.sub_self, gGen_zero]
      simp only [List.append_nil]
    rw [hA]
    simp only []
    rw [gStep_decomp nx (m + n) s, gStep_decomp nx n]
    simp only []
    have e2 : min (m + n) s.reserved = m + min n (s.reserved - m) := by omega
    have e3 : 32 - (s.reserved - m) = 32 - s.reserved + m := by omega
    have e4 : m + n - (m + min n (s.reserved - m)) = n - min n (s.reserved - m) := by omega
    have e5 : s.reserved - (m + min n (s.reserved - m)) = s.reserved - m - min n (s.reserved - m) := by omega
    rw [e2, e3, e4, e5, List.take_add, List.drop_drop, List.append_assoc]
    exact ⟨rfl, GEqv.refl _⟩
  · have e1 : min m s.reserved = s.reserved := by omega
    have e2 : min (m + n) s.reserved = s.reserved := by omega
    have e3 : m + n - s.reserved = (m - s.reserved) + n := by omega
    rw [gStep_decomp nx (m + n) s, gStep_decomp nx m s, e1, e2, Nat.sub_self, e3]
    simp only []
    obtain ⟨p1, p2⟩ := gGen_split nx hlen s.core s.block hb (m - s.reserved) n
    refine ⟨?_, p2⟩
    rw [p1, List.append_assoc]

omit hlen in
/-- equivalent states answer alike and stay equivalent -/
theorem gStep_congr (s t : G κ) (hs : GInv s) (ht : GInv t) (he : GEqv s t) (c : Nat) :
    (gStep nx c s).2 = (gStep nx c t).2 ∧ GEqv (gStep nx c s).1 (gStep nx c t).1 := by
  obtain ⟨h1, h2, h3⟩ := he
  rw [← h2] at h3
  rw [gStep_decomp nx c s, gStep_decomp nx c t]
  simp only []
  rw [← h1, ← h2, h3]
  by_cases hc : c ≤ s.reserved
  · have e : min c s.reserved = c := by omega
    rw [e, Nat.sub_self, gGen_zero, gGen_zero]
    refine ⟨rfl, rfl, rfl, ?_⟩
    simp only []
    have e3 : 32 - (s.reserved - c) = 32 - s.reserved + c := by have := hs.1; omega
    rw [e3, ← List.drop_drop, ← List.drop_drop, h3]
  · have e : min c s.reserved = s.reserved := by omega
    rw [e, Nat.sub_self]
    obtain ⟨c1, c2⟩ := gGen_block_irrel nx s.core s.block t.block hs.2 ht.2 (c - s.reserved)
    exact ⟨by rw [c1], c2⟩

/-- CHUNK INDEPENDENCE of the skeleton: any list of requests vs one request of the total size -/
theorem gRun_sum : ∀ (ns : List Nat) (s : G κ), GInv s →
    (gRun nx s ns).2.flatten = (gStep nx ns.sum s).2 ∧ GEqv (gRun nx s ns).1 (gStep nx ns.sum s).1 ∧
    GInv (gRun nx s ns).1 := by
  intro ns
  induction ns with
  | nil =>
    intro s hi
    have h0 : gStep nx 0 s = (s, []) := by
      rw [gStep_decomp]
      simp only [Nat.zero_min, Nat.sub_zero, gGen_zero, List.take_zero, List.nil_append]
    simp only [gRun, List.flatten_nil, List.sum_nil, h0]
    exact ⟨trivial, GEqv.refl _, hi⟩
  | cons n ns ih =>
    intro s hi
    obtain ⟨i1, i2, i3⟩ := ih (gStep nx n s).1 (gStep_inv nx hlen n s hi)
    obtain ⟨p1, p2⟩ := gStep_split nx hlen s hi n ns.sum
    simp only [gRun, List.flatten_cons, List.sum_cons, i1, p1]
    exact ⟨trivial, i2.trans p2.symm, i3⟩

/-- equivalent states: all later answers agree -/
theorem gRun_congr : ∀ (ns : List Nat) (s t : G κ), GInv s → GInv t → GEqv s t →
    (gRun nx s ns).2 = (gRun nx t ns).2 := by
  intro ns
  induction ns with
  | nil => intros; rfl
  | cons n ns ih =>
    intro s t hs ht he
    obtain ⟨c1, c2⟩ := gStep_congr nx s t hs ht he n
    simp only [gRun, c1, ih _ _ (gStep_inv nx hlen n s hs) (gStep_inv nx hlen n t ht) c2]

end skeleton2

theorem dataOf_map_data (l : List Bytes) : dataOf (l.map Out.data) = l.flatten := by
  induction l with
  | nil => rfl
  | cons b l ih => simp only [List.map_cons, dataOf, ih, List.flatten_cons]

/-! ### brngHMAC is the skeleton -/

/-- the part of `brng_hmac_st` that drives generation: `iv`, `r`, the keyed HMAC state -/
abbrev HCore := Bytes × Bytes × C03.Belt.HmacSt

/-- `r ← hmac(key, r)`, `Y ← hmac(key, r_old ‖ iv)` -/
def nxH (c : HCore) : HCore × Bytes :=
  ((c.1, C03.Belt.hmacStepG (C03.Belt.hmacStepA c.2.1 c.2.2), c.2.2),
   C03.Belt.hmacStepG (C03.Belt.hmacStepA c.1 (C03.Belt.hmacStepA c.2.1 c.2.2)))

theorem nxH_len (c : HCore) : (nxH c).2.length = 32 := C03.Belt.hmacStepG_length _

def toGh (st : C03.HmacGenSt) : G HCore := ⟨(st.iv, st.r, st.keySt), st.block, st.reserved⟩
def ofGh (g : G HCore) : C03.HmacGenSt := ⟨g.core.1, g.core.2.1, g.block, g.reserved, g.core.2.2⟩

theorem ofGh_toGh (st : C03.HmacGenSt) : ofGh (toGh st) = st := by cases st; rfl
theorem toGh_ofGh (g : G HCore) : toGh (ofGh g) = g := by
  rcases g with ⟨⟨a, b, c⟩, d, e⟩; rfl

theorem hmacGenNext_eq (g : G HCore) :
    C03.hmacGenNext (ofGh g) = (ofGh ⟨(nxH g.core).1, g.block, g.reserved⟩, (nxH g.core).2) := rfl

theorem hmacGenFull_eq (n : Nat) : ∀ g : G HCore,
    C03.hmacGenFull (ofGh g) n = (ofGh ⟨(gFull nxH g.core n).1, g.block, g.reserved⟩, (gFull nxH g.core n).2) := by
  induction n with
  | zero => intro g; rfl
  | succ n ih =>
    intro g
    simp only [C03.hmacGenFull, hmacGenNext_eq, ih, gFull]

theorem hmacGenGen_eq (g : G HCore) (c : Nat) :
    C03.hmacGenGen (ofGh g) c = (ofGh (gGen nxH g c).1, (gGen nxH g c).2) := by
  simp only [C03.hmacGenGen, hmacGenFull_eq, hmacGenNext_eq, gGen]
  by_cases h : c % 32 = 0
  · simp only [h, ne_eq, not_true_eq_false, if_false]
  · simp only [h, ne_eq, not_false_eq_true, if_true]
    rfl

/-- `brngHMACStepR` is the skeleton over `nxH` -/
theorem hmacGenStepR_eq (c : Nat) (g : G HCore) :
    C03.hmacGenStepR c (ofGh g) = (ofGh (gStep nxH c g).1, (gStep nxH c g).2) := by
  have e0 : ({ ofGh g with reserved := 0 } : C03.HmacGenSt) = ofGh ⟨g.core, g.block, 0⟩ := rfl
  unfold C03.hmacGenStepR gStep
  rw [e0, hmacGenGen_eq, hmacGenGen_eq]
  by_cases h0 : g.reserved = 0
  · have : (ofGh g).reserved = 0 := h0
    simp only [this, h0, ne_eq, not_true_eq_false, if_false]
  · have hr : (ofGh g).reserved = g.reserved := rfl
    simp only [hr, h0, ne_eq, not_false_eq_true, if_true]
    by_cases h : g.reserved ≥ c
    · simp only [h, if_true]; rfl
    · simp only [h, if_false]; rfl

/-- a session of requests on `brngHmacB` is a run of the skeleton -/
theorem hmac_run : ∀ (cs : List Bytes) (g : G HCore),
    run brngHmacB (ofGh g) (calls RngOp.gen cs) =
      (ofGh (gRun nxH g (cs.map List.length)).1, (gRun nxH g (cs.map List.length)).2.map Out.data) := by
  intro cs
  induction cs with
  | nil => intro g; rfl
  | cons c cs ih =>
    intro g
    have e : run brngHmacB (ofGh g) (calls RngOp.gen (c :: cs)) =
        ((run brngHmacB (C03.hmacGenStepR c.length (ofGh g)).1 (calls RngOp.gen cs)).1,
         Out.data (C03.hmacGenStepR c.length (ofGh g)).2 ::
          (run brngHmacB (C03.hmacGenStepR c.length (ofGh g)).1 (calls RngOp.gen cs)).2) := rfl
    rw [e, hmacGenStepR_eq, ih]
    rfl

/-- invariant of `brng_hmac_st` -/
def HInv (st : C03.HmacGenSt) : Prop := st.reserved ≤ 32 ∧ st.block.length = 32

/-- equality up to the already returned part of `block` -/
def HEqv (a b : C03.HmacGenSt) : Prop :=
  a.iv = b.iv ∧ a.r = b.r ∧ a.reserved = b.reserved ∧ a.keySt = b.keySt ∧
    a.block.drop (32 - a.reserved) = b.block.drop (32 - b.reserved)

theorem HEqv_of_GEqv {g h : G HCore} (e : GEqv g h) : HEqv (ofGh g) (ofGh h) := by
  obtain ⟨e1, e2, e3⟩ := e
  refine ⟨congrArg (·.1) e1, congrArg (·.2.1) e1, e2, congrArg (·.2.2) e1, e3⟩

theorem GEqv_of_HEqv {a b : C03.HmacGenSt} (e : HEqv a b) : GEqv (toGh a) (toGh b) := by
  obtain ⟨e1, e2, e3, e4, e5⟩ := e
  refine ⟨?_, e3, e5⟩
  show (a.iv, a.r, a.keySt) = (b.iv, b.r, b.keySt)
  rw [e1, e2, e4]

theorem hmac_chunks (st : C03.HmacGenSt) (hi : HInv st) (cs : List Bytes) :
    dataOf (outs brngHmacB st (calls RngOp.gen cs)) = (C03.hmacGenStepR cs.flatten.length st).2 ∧
    HEqv (after brngHmacB st (calls RngOp.gen cs)) (C03.hmacGenStepR cs.flatten.length st).1 ∧
    HInv (after brngHmacB st (calls RngOp.gen cs)) ∧ HInv (C03.hmacGenStepR cs.flatten.length st).1 := by
  have hg : GInv (toGh st) := hi
  obtain ⟨r1, r2, r3⟩ := gRun_sum nxH nxH_len (cs.map List.length) (toGh st) hg
  have r4 := gStep_inv nxH nxH_len (cs.map List.length).sum (toGh st) hg
  simp only [outs, after]
  rw [← ofGh_toGh st, hmac_run, List.length_flatten, hmacGenStepR_eq]
  simp only [dataOf_map_data, r1]
  exact ⟨trivial, HEqv_of_GEqv r2, r3, r4⟩

/-- equivalent states answer every later session alike (requests, `Get` no-ops and relocations) -/
theorem hmac_outs_congr : ∀ (post : List (Call RngOp)) (a b : C03.HmacGenSt), HInv a → HInv b → HEqv a b →
    outs brngHmacB a post = outs brngHmacB b post := by
  intro post
  induction post with
  | nil => intros; rfl
  | cons p post ih =>
    intro a b ha hb he
    cases p with
    | reloc =>
      show Out.none :: outs brngHmacB a post = Out.none :: outs brngHmacB b post
      rw [ih a b ha hb he]
    | op i =>
      cases i with
      | get =>
        show Out.none :: outs brngHmacB a post = Out.none :: outs brngHmacB b post
        rw [ih a b ha hb he]
      | gen buf =>
        show Out.data (C03.hmacGenStepR buf.length a).2 :: outs brngHmacB (C03.hmacGenStepR buf.length a).1 post =
          Out.data (C03.hmacGenStepR buf.length b).2 :: outs brngHmacB (C03.hmacGenStepR buf.length b).1 post
        obtain ⟨c1, c2⟩ := gStep_congr nxH (toGh a) (toGh b) ha hb (GEqv_of_HEqv he) buf.length
        have ia : HInv (ofGh (gStep nxH buf.length (toGh a)).1) := gStep_inv nxH nxH_len buf.length (toGh a) ha
        have ib : HInv (ofGh (gStep nxH buf.length (toGh b)).1) := gStep_inv nxH nxH_len buf.length (toGh b) hb
        rw [← ofGh_toGh a, ← ofGh_toGh b, hmacGenStepR_eq, hmacGenStepR_eq]
        simp only [c1]
        rw [ih _ _ ia ib (HEqv_of_GEqv c2)]

/-! ### brngCTR on zero-filled buffers is the skeleton -/

/-- the part of `brng_ctr_st` that drives generation: the memory `s ‖ r` and the keyed hash state -/
abbrev CCore := Bytes × C03.Belt.HashSt

/-- one block with the additional input `X = 0^256` -/
def nxC (wb : Nat) (c : CCore) : CCore × Bytes :=
  (((C03.ctrNext wb ⟨c.1, [], 0, c.2⟩ [C03.zeros 32]).1.mem, c.2), (C03.ctrNext wb ⟨c.1, [], 0, c.2⟩ [C03.zeros 32]).2)

theorem nxC_len (wb : Nat) (c : CCore) : (nxC wb c).2.length = 32 := C03.Belt.hashStepG_length _

def toGc (st : C03.CtrSt) : G CCore := ⟨(st.mem, st.keySt), st.block, st.reserved⟩
def ofGc (g : G CCore) : C03.CtrSt := ⟨g.core.1, g.block, g.reserved, g.core.2⟩

theorem ofGc_toGc (st : C03.CtrSt) : ofGc (toGc st) = st := by cases st; rfl

theorem ctrNext_zeros (wb : Nat) (g : G CCore) :
    C03.ctrNext wb (ofGc g) [C03.zeros 32] = (ofGc ⟨(nxC wb g.core).1, g.block, g.reserved⟩, (nxC wb g.core).2) := rfl

theorem zeros_append (a b : Nat) : C03.zeros a ++ C03.zeros b = C03.zeros (a + b) := by
  simp [C03.zeros]

/-- a partial request feeds `X` as `0^count` then `0^(32-count)`: the same hash input (needs `filled < 32` of the
keyed hash state, which `beltHashStepH` maintains) -/
theorem ctrNext_partial (wb : Nat) (st : C03.CtrSt) (hw : st.keySt.WF) (count : Nat) (hc : count ≤ 32) :
    C03.ctrNext wb st [C03.zeros count, C03.zeros (32 - count)] = C03.ctrNext wb st [C03.zeros 32] := by
  have w1 := C03.Belt.hashStepH_WF st.s st.keySt hw
  have e : C03.zeros count ++ C03.zeros (32 - count) = C03.zeros 32 := by
    rw [zeros_append]; congr 1; omega
  simp only [C03.ctrNext, List.foldl_cons, List.foldl_nil, C03.Belt.hashStepH_append _ w1, e]

theorem zeros_take (n c : Nat) (h : n ≤ c) : (C03.zeros c).take n = C03.zeros n := by
  simp only [C03.zeros, List.take_replicate]; congr 1; omega
theorem zeros_drop (n c : Nat) : (C03.zeros c).drop n = C03.zeros (c - n) := by
  simp only [C03.zeros, List.drop_replicate]
theorem zeros_length (c : Nat) : (C03.zeros c).length = c := by simp [C03.zeros]

theorem ctrFull_zeros (wb : Nat) : ∀ (n c : Nat), c ≤ n → ∀ g : G CCore,
    C03.ctrFull wb (ofGc g) (C03.zeros c) =
      (ofGc ⟨(gFull (nxC wb) g.core (c / 32)).1, g.block, g.reserved⟩, C03.zeros (c % 32),
       (gFull (nxC wb) g.core (c / 32)).2) := by
  intro n
  induction n with
  | zero =>
    intro c hc g
    have : c = 0 := by omega
    subst this
    rw [C03.ctrFull]
    simp [zeros_length, gFull]
  | succ n ih =>
    intro c hc g
    rw [C03.ctrFull]
    by_cases h : 32 ≤ c
    · have e1 : c / 32 = (c - 32) / 32 + 1 := by omega
      have e2 : c % 32 = (c - 32) % 32 := by omega
      simp only [zeros_length, h, dite_true, zeros_take 32 c h, zeros_drop, ctrNext_zeros, ih (c - 32) (by omega), e1,
        e2, gFull]
    · have e1 : c / 32 = 0 := by omega
      have e2 : c % 32 = c := by omega
      simp only [zeros_length, h, dite_false, e1, e2, gFull]

/-- the keyed hash state is never changed by the skeleton -/
theorem gFull_key (wb : Nat) (n : Nat) : ∀ c : CCore, (gFull (nxC wb) c n).1.2 = c.2 := by
  induction n with
  | zero => intro c; rfl
  | succ n ih => intro c; simp only [gFull, ih]; rfl

theorem ctrGen_zeros (wb : Nat) (g : G CCore) (hw : g.core.2.WF) (c : Nat) :
    C03.ctrGen wb (ofGc g) (C03.zeros c) = (ofGc (gGen (nxC wb) g c).1, (gGen (nxC wb) g c).2) := by
  simp only [C03.ctrGen, ctrFull_zeros wb c c (Nat.le_refl _) g, zeros_length, gGen]
  by_cases h : c % 32 = 0
  · simp only [h, ne_eq, not_true_eq_false, if_false]
  · simp only [h, ne_eq, not_false_eq_true, if_true]
    rw [ctrNext_partial wb _ (by show (gFull (nxC wb) g.core (c / 32)).1.2.WF; rw [gFull_key]; exact hw) (c % 32)
      (by omega), ctrNext_zeros]
    rfl

/-- `brngCTRStepR` on a zero-filled buffer of `c` octets is the skeleton over `nxC` -/
theorem ctrStepR_zeros (wb : Nat) (g : G CCore) (hw : g.core.2.WF) (c : Nat) :
    C03.ctrStepR wb (C03.zeros c) (ofGc g) = (ofGc (gStep (nxC wb) c g).1, (gStep (nxC wb) c g).2) := by
  have e0 : ({ ofGc g with reserved := 0 } : C03.CtrSt) = ofGc ⟨g.core, g.block, 0⟩ := rfl
  unfold C03.ctrStepR gStep
  rw [e0, zeros_drop, ctrGen_zeros wb g hw, ctrGen_zeros wb ⟨g.core, g.block, 0⟩ hw]
  have hr : (ofGc g).reserved = g.reserved := rfl
  by_cases h0 : g.reserved = 0
  · simp only [hr, h0, ne_eq, not_true_eq_false, if_false]
  · simp only [hr, h0, ne_eq, not_false_eq_true, if_true, zeros_length]
    by_cases h : g.reserved ≥ c
    · simp only [h, if_true]; rfl
    · simp only [h, if_false]; rfl

theorem zeroBufs_cons (c : Bytes) (cs : List Bytes) (h : zeroBufs (c :: cs)) :
    c = C03.zeros c.length ∧ zeroBufs cs :=
  ⟨h c (List.mem_cons_self ..), fun d hd => h d (List.mem_cons_of_mem _ hd)⟩

theorem zeroBufs_flatten : ∀ cs : List Bytes, zeroBufs cs → cs.flatten = C03.zeros cs.flatten.length
  | [], _ => rfl
  | c :: cs, h => by
    obtain ⟨h1, h2⟩ := zeroBufs_cons c cs h
    have ih := zeroBufs_flatten cs h2
    rw [List.flatten_cons, List.length_append, ← zeros_append, ← h1, ← ih]

/-- invariant of `brng_ctr_st` (as far as chunking is concerned) -/
def CInv (st : C03.CtrSt) : Prop := st.reserved ≤ 32 ∧ st.block.length = 32

/-- equality up to the already returned part of `block` -/
def CEqv (a b : C03.CtrSt) : Prop :=
  a.mem = b.mem ∧ a.keySt = b.keySt ∧ a.reserved = b.reserved ∧
    a.block.drop (32 - a.reserved) = b.block.drop (32 - b.reserved)

theorem CEqv_of_GEqv {g h : G CCore} (e : GEqv g h) : CEqv (ofGc g) (ofGc h) := by
  obtain ⟨e1, e2, e3⟩ := e
  exact ⟨congrArg (·.1) e1, congrArg (·.2) e1, e2, e3⟩

theorem GEqv_of_CEqv {a b : C03.CtrSt} (e : CEqv a b) : GEqv (toGc a) (toGc b) := by
  obtain ⟨e1, e2, e3, e4⟩ := e
  refine ⟨?_, e3, e4⟩
  show (a.mem, a.keySt) = (b.mem, b.keySt)
  rw [e1, e2]

theorem gGen_key (wb : Nat) (g : G CCore) (c : Nat) : (gGen (nxC wb) g c).1.core.2 = g.core.2 := by
  unfold gGen
  split
  · show (nxC wb _).1.2 = _
    show (gFull (nxC wb) g.core (c / 32)).1.2 = _
    exact gFull_key wb _ _
  · exact gFull_key wb _ _

theorem gStep_key (wb : Nat) (g : G CCore) (c : Nat) : (gStep (nxC wb) c g).1.core.2 = g.core.2 := by
  rw [gStep_decomp]
  exact gGen_key wb _ _

/-- a session of requests with zero-filled buffers on `brngCtrB` is a run of the skeleton -/
theorem ctr_run : ∀ (cs : List Bytes), zeroBufs cs → ∀ (g : G CCore), g.core.2.WF →
    run brngCtrB (ofGc g) (calls RngOp.gen cs) =
      (ofGc (gRun (nxC wOctets) g (cs.map List.length)).1,
       (gRun (nxC wOctets) g (cs.map List.length)).2.map Out.data) := by
  intro cs
  induction cs with
  | nil => intro _ g _; rfl
  | cons c cs ih =>
    intro hz g hw
    obtain ⟨h1, h2⟩ := zeroBufs_cons c cs hz
    have e : run brngCtrB (ofGc g) (calls RngOp.gen (c :: cs)) =
        ((run brngCtrB (C03.ctrStepR wOctets c (ofGc g)).1 (calls RngOp.gen cs)).1,
         Out.data (C03.ctrStepR wOctets c (ofGc g)).2 ::
          (run brngCtrB (C03.ctrStepR wOctets c (ofGc g)).1 (calls RngOp.gen cs)).2) := rfl
    rw [e]
    conv => lhs; rw [h1]
    rw [ctrStepR_zeros wOctets g hw, ih h2 _ (by rw [gStep_key]; exact hw)]
    rfl

theorem ctr_chunks (st : C03.CtrSt) (hi : CInv st) (hw : st.keySt.WF) (cs : List Bytes) (hz : zeroBufs cs) :
    dataOf (outs brngCtrB st (calls RngOp.gen cs)) = (C03.ctrStepR wOctets cs.flatten st).2 ∧
    CEqv (after brngCtrB st (calls RngOp.gen cs)) (C03.ctrStepR wOctets cs.flatten st).1 ∧
    CInv (after brngCtrB st (calls RngOp.gen cs)) ∧ CInv (C03.ctrStepR wOctets cs.flatten st).1 := by
  have hg : GInv (toGc st) := hi
  have hw' : (toGc st).core.2.WF := hw
  obtain ⟨r1, r2, r3⟩ := gRun_sum (nxC wOctets) (nxC_len wOctets) (cs.map List.length) (toGc st) hg
  have r4 := gStep_inv (nxC wOctets) (nxC_len wOctets) (cs.map List.length).sum (toGc st) hg
  simp only [outs, after]
  rw [zeroBufs_flatten cs hz, ← ofGc_toGc st, ctr_run cs hz _ hw', List.length_flatten,
    ctrStepR_zeros wOctets _ hw']
  simp only [dataOf_map_data, r1]
  exact ⟨trivial, CEqv_of_GEqv r2, r3, r4⟩

/-- every request of the session comes with a zero-filled buffer -/
def zeroSession (post : List (Call RngOp)) : Prop :=
  ∀ buf, Call.op (RngOp.gen buf) ∈ post → buf = C03.zeros buf.length

/-- equivalent states answer every later session alike (requests with zero-filled buffers, `brngCTRStepG`,
relocations) -/
theorem ctr_outs_congr : ∀ (post : List (Call RngOp)), zeroSession post → ∀ (a b : C03.CtrSt), CInv a → CInv b →
    a.keySt.WF → CEqv a b → outs brngCtrB a post = outs brngCtrB b post := by
  intro post
  induction post with
  | nil => intros; rfl
  | cons p post ih =>
    intro hz a b ha hb hw he
    have hz' : zeroSession post := fun buf h => hz buf (List.mem_cons_of_mem _ h)
    cases p with
    | reloc =>
      show Out.none :: outs brngCtrB a post = Out.none :: outs brngCtrB b post
      rw [ih hz' a b ha hb hw he]
    | op i =>
      cases i with
      | get =>
        show Out.data (C03.ctrStepG a) :: outs brngCtrB a post = Out.data (C03.ctrStepG b) :: outs brngCtrB b post
        rw [ih hz' a b ha hb hw he]
        simp only [C03.ctrStepG, C03.CtrSt.s, he.1]
      | gen buf =>
        show Out.data (C03.ctrStepR wOctets buf a).2 :: outs brngCtrB (C03.ctrStepR wOctets buf a).1 post =
          Out.data (C03.ctrStepR wOctets buf b).2 :: outs brngCtrB (C03.ctrStepR wOctets buf b).1 post
        have hbuf := hz buf (List.mem_cons_self ..)
        have hwb : b.keySt.WF := he.2.1 ▸ hw
        obtain ⟨c1, c2⟩ := gStep_congr (nxC wOctets) (toGc a) (toGc b) ha hb (GEqv_of_CEqv he) buf.length
        have ia : CInv (ofGc (gStep (nxC wOctets) buf.length (toGc a)).1) :=
          gStep_inv (nxC wOctets) (nxC_len wOctets) buf.length (toGc a) ha
        have ib : CInv (ofGc (gStep (nxC wOctets) buf.length (toGc b)).1) :=
          gStep_inv (nxC wOctets) (nxC_len wOctets) buf.length (toGc b) hb
        have iw : (ofGc (gStep (nxC wOctets) buf.length (toGc a)).1).keySt.WF := by
          show (gStep (nxC wOctets) buf.length (toGc a)).1.core.2.WF
          rw [gStep_key]; exact hw
        rw [hbuf, ← ofGc_toGc a, ← ofGc_toGc b, ctrStepR_zeros wOctets _ hw,
          ctrStepR_zeros wOctets _ hwb]
        simp only [c1]
        rw [ih hz' _ _ ia ib iw (CEqv_of_GEqv c2)]

end Bee2V.C10.Brng

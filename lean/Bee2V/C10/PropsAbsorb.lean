/-
C10 property theorems: the absorbing bundles with Get/Verify of belt — MAC, hash, HMAC — and KRP.
Chunk independence is LIFTED from C01 (`PropsChunk.lean`: `mac_chunk_independent`, `hash_chunk_independent`,
`hmac_chunk_independent`) into the session vocabulary of C10; get-then-continue is proved here in the full
observational form (`GetObservational`: ANY session before, ANY session after, Get or Verify, right or wrong tag)
by the simulation principle `getObservational_of_sim`, with C01's state invariants (`MacInv`, `HashInv`, `HmacInv`:
"the state describes the absorbed data X, up to the scratch fields") as the simulation relation.
Only property theorems and non-vacuity examples (plus the two-line bridge lemmas they need).
-/
import Bee2V.C10.Stmts
import Bee2V.C01.PropsChunk
import Bee2V.C01.PropsSpecHash
namespace Bee2V.C10
open Bee2V

/-- the state after a session of absorbing calls is the fold of the Step function -/
theorem after_absorbs {σ : Type} (B : Bundle σ AOp) (f : σ → Bytes → σ)
    (hf : ∀ st d, (B.step st (.absorb d)).1 = f st d) (cs : List Bytes) (st : σ) :
    after B st (calls AOp.absorb cs) = cs.foldl f st := by
  induction cs generalizing st with
  | nil => rfl
  | cons c cs ih =>
    show after B (B.step st (.absorb c)).1 (calls AOp.absorb cs) = _
    rw [ih, hf]; rfl

/-! ### belt-MAC -/

/-- CHUNK INDEPENDENCE of belt-MAC in session form: after `beltMACStepA(c1); …; beltMACStepA(cm)` (any
fragmentation, empty fragments included) `beltMACStepG2` returns what it returns after ONE `beltMACStepA` of the
concatenation; `beltMACStepV2` gives the same verdict. -/
theorem chunk_indep_mac (C : C01.Cipher) (key : Bytes) (cs : List Bytes) (n : Nat) (t : Bytes) :
    ((macB C).step (after (macB C) (C01.macStart C key) (calls AOp.absorb cs)) (.get n)).2 =
      .data (C01.macStepG C (C01.macStepA C (C01.macStart C key) cs.flatten) n).2 ∧
    ((macB C).step (after (macB C) (C01.macStart C key) (calls AOp.absorb cs)) (.verify t)).2 =
      .verdict (C01.macStepV C (C01.macStepA C (C01.macStart C key) cs.flatten) t).2 := by
  rw [after_absorbs (macB C) (C01.macStepA C) (fun _ _ => rfl)]
  exact ⟨congrArg Out.data (C01.mac_chunk_independent C key cs n),
    congrArg Out.verdict (C01.mac_chunk_independent_V C key cs t)⟩

/-- … and equals the high-level `beltMAC(mac, src, count, key, len)` -/
theorem macHL_session (C : C01.Cipher) (key : Bytes) (hk : C01.validKeyLen key.length = true) (cs : List Bytes) :
    ((macB C).step (after (macB C) (C01.macStart C key) (calls AOp.absorb cs)) (.get 8)).2 =
      .data ((C01.macHL C cs.flatten key).2.getD []) := by
  rw [(chunk_indep_mac C key cs 8 []).1]
  simp only [C01.macHL, hk, Bool.not_true, Bool.false_eq_true, if_false, Option.getD_some]

/-- GET-THEN-CONTINUE for belt-MAC, observational: from the state reached by any session after `beltMACStart`,
a `beltMACStepG2` / `beltMACStepV2` call (right or wrong tag) followed by any session gives the outputs of that
session without the call.  (`StepG` writes `st->mac` and the padding octets `block[filled..16)`; both are
overwritten before they are read again.) -/
theorem get_observational_mac (C : C01.Cipher) (key : Bytes) :
    GetObservational (macB C) (C01.macStart C key) := by
  let k := C01.fmtKey key
  let r := C.enc k (C01.zeros 16)
  refine getObservational_of_sim (macB C) (fun st X => C01.MacInv C k r X st)
    (fun X op => match op with
      | .absorb d => (X ++ d, .none)
      | .get n => (X, .data ((C01.macTagSpec C k r X).take n))
      | .verify t => (X, .verdict (decide (t = (C01.macTagSpec C k r X).take t.length))))
    ?_ ?_ (C01.macStart C key) [] (C01.macInv_start C key)
  · intro st X op h
    cases op with
    | absorb d => exact ⟨C01.macInv_stepA h d, rfl⟩
    | get n =>
      refine ⟨C01.macInv_stepG h, ?_⟩
      show Out.data ((C01.macStepGInternal C st).mac.take n) = _
      rw [C01.macInv_tag h]
    | verify t =>
      refine ⟨C01.macInv_stepG h, ?_⟩
      show Out.verdict (decide (t = (C01.macStepGInternal C st).mac.take t.length)) = _
      rw [C01.macInv_tag h]
  · intro X g hg
    cases g with
    | absorb d => exact absurd hg Bool.false_ne_true
    | get n => rfl
    | verify t => rfl

/-- for the real cipher -/
theorem get_observational_beltMAC (key : Bytes) : GetObservational (macB C01.beltCipher) (C01.macStart C01.beltCipher key) :=
  get_observational_mac _ key

/-- non-vacuity: Get with 5 octets pending, a wrong Verify, a relocation, then more data — the final tag is the
tag of the whole data, although the intermediate calls changed `block` -/
example : outs (macB C01.chunkToy) (C01.macStart C01.chunkToy (C01.zeros 16))
      [.op (.absorb (C01.chunkToyData.take 21)), .op (.get 8), .op (.verify [1, 2]), .reloc,
       .op (.absorb (C01.chunkToyData.drop 21)), .op (.get 8)] =
    [.none, .data (C01.macStepG C01.chunkToy (C01.macStepA C01.chunkToy (C01.macStart C01.chunkToy (C01.zeros 16)) (C01.chunkToyData.take 21)) 8).2, .verdict false, .none, .none,
     .data (C01.macStepG C01.chunkToy (C01.macStepA C01.chunkToy (C01.macStart C01.chunkToy (C01.zeros 16)) C01.chunkToyData) 8).2] := by
  decide +kernel

/-! ### belt-hash -/

/-- CHUNK INDEPENDENCE of belt-hash in session form (total length below 2^64 octets, as `size_t` demands) -/
theorem chunk_indep_hash (C : C01.Cipher) (cs : List Bytes) (n : Nat) (t : Bytes) (hb : cs.flatten.length < 2 ^ 64) :
    ((hashB C).step (after (hashB C) C01.hashStart (calls AOp.absorb cs)) (.get n)).2 =
      .data (C01.hashStepG C (C01.hashStepH C C01.hashStart cs.flatten) n).2 ∧
    ((hashB C).step (after (hashB C) C01.hashStart (calls AOp.absorb cs)) (.verify t)).2 =
      .verdict (C01.hashStepV C (C01.hashStepH C C01.hashStart cs.flatten) t).2 := by
  rw [after_absorbs (hashB C) (C01.hashStepH C) (fun _ _ => rfl)]
  exact ⟨congrArg Out.data (C01.hash_chunk_independent C cs n hb),
    congrArg Out.verdict (C01.hash_chunk_independent_V C cs t hb)⟩

/-- … and equals the high-level `beltHash(hash, src, count)` -/
theorem hashHL_session (C : C01.Cipher) (cs : List Bytes) (hb : cs.flatten.length < 2 ^ 64) :
    ((hashB C).step (after (hashB C) C01.hashStart (calls AOp.absorb cs)) (.get 32)).2 =
      .data ((C01.hashHL C cs.flatten).2.getD []) := by
  rw [(chunk_indep_hash C cs 32 [] hb).1]
  simp only [C01.hashHL, Option.getD_some]

/-- GET-THEN-CONTINUE for belt-hash, observational, no bound on lengths: `beltHashStepG2` / `beltHashStepV2`
anywhere in a session are invisible to the rest of the session (they write `s1`, `h1` and the zero padding of
`block[filled..32)`). -/
theorem get_observational_hash (C : C01.Cipher) : GetObservational (hashB C) C01.hashStart := by
  refine getObservational_of_sim (hashB C) (fun st (a : Bytes × Bytes) => C01.HashInv C a.1 a.2 st)
    (fun a op => match op with
      | .absorb d => ((C01.addBitSizeBlock a.1 d.length, a.2 ++ d), .none)
      | .get n => (a, .data ((C01.hashOutSpec C a.1 a.2).take n))
      | .verify t => (a, .verdict (decide (t = (C01.hashOutSpec C a.1 a.2).take t.length))))
    ?_ ?_ C01.hashStart (C01.zeros 16, []) (C01.hashInv_start C)
  · intro st a op h
    cases op with
    | absorb d => exact ⟨C01.hashInv_stepH h d, rfl⟩
    | get n =>
      refine ⟨C01.hashInv_stepG h, ?_⟩
      show Out.data ((C01.hashStepGInternal C st).h1.take n) = _
      rw [C01.hashInv_out h]
    | verify t =>
      refine ⟨C01.hashInv_stepG h, ?_⟩
      show Out.verdict (decide (t = (C01.hashStepGInternal C st).h1.take t.length)) = _
      rw [C01.hashInv_out h]
  · intro a g hg
    cases g with
    | absorb d => exact absurd hg Bool.false_ne_true
    | get n => rfl
    | verify t => rfl

/-- Get with 5 octets pending (zero padding written into `block`), then the rest: the final value is the hash of
the whole data -/
example : (outs (hashB C01.chunkToy2) C01.hashStart
      [.op (.absorb (C01.chunkToyData.take 5)), .op (.get 32), .reloc, .op (.verify [0]),
       .op (.absorb (C01.chunkToyData.drop 5)), .op (.get 4)]).getLast? =
    some (.data (C01.hashStepG C01.chunkToy2 (C01.hashStepH C01.chunkToy2 C01.hashStart C01.chunkToyData) 4).2) := by
  decide +kernel

/-! ### belt-HMAC -/

/-- CHUNK INDEPENDENCE of belt-HMAC in session form, for EVERY key length (keys longer than 32 octets are hashed
first; `hlen`: the cipher returns 16 octets on 16 octets — true for belt; the bounds are the `size_t` range) -/
theorem chunk_indep_hmac (C : C01.Cipher) (hlen : ∀ k x : Bytes, x.length = 16 → (C.enc k x).length = 16)
    (key : Bytes) (hk : key.length < 2 ^ 64) (cs : List Bytes) (n : Nat) (hb : cs.flatten.length < 2 ^ 64) :
    ((hmacB C).step (after (hmacB C) (C01.hmacStart C key) (calls AOp.absorb cs)) (.get n)).2 =
      .data (C01.hmacStepG C (C01.hmacStepA C (C01.hmacStart C key) cs.flatten) n).2 := by
  rw [after_absorbs (hmacB C) (C01.hmacStepA C) (fun _ _ => rfl)]
  exact congrArg Out.data (C01.hmac_chunk_independent_anykey C hlen key hk cs n hb)

/-- … and equals the high-level `beltHMAC(mac, src, count, key, len)` -/
theorem hmacHL_session (C : C01.Cipher) (hlen : ∀ k x : Bytes, x.length = 16 → (C.enc k x).length = 16)
    (key : Bytes) (hk : key.length < 2 ^ 64) (cs : List Bytes) (hb : cs.flatten.length < 2 ^ 64) :
    ((hmacB C).step (after (hmacB C) (C01.hmacStart C key) (calls AOp.absorb cs)) (.get 32)).2 =
      .data ((C01.hmacHL C cs.flatten key).2.getD []) := by
  rw [chunk_indep_hmac C hlen key hk cs 32 hb]
  simp only [C01.hmacHL, Option.getD_some]

/-- for the real cipher: no hypothesis beyond `size_t` -/
theorem belt_chunk_indep_hmac (key : Bytes) (hk : key.length < 2 ^ 64) (cs : List Bytes) (n : Nat)
    (hb : cs.flatten.length < 2 ^ 64) :
    ((hmacB C01.beltCipher).step (after (hmacB C01.beltCipher) (C01.hmacStart C01.beltCipher key)
      (calls AOp.absorb cs)) (.get n)).2 =
      .data (C01.hmacStepG C01.beltCipher (C01.hmacStepA C01.beltCipher (C01.hmacStart C01.beltCipher key)
        cs.flatten) n).2 :=
  chunk_indep_hmac _ (fun k x h => C01.length_blockEncr k x h) key hk cs n hb

/-- GET-THEN-CONTINUE for belt-HMAC from any state with an empty buffer (in particular after `beltHMACStart`):
`beltHMACStepG2` / `beltHMACStepV2` (they write `h1_in`, `h1_out`, `s1` and the zero padding of `block`) are
invisible to the rest of the session. -/
theorem get_observational_hmac_of_state (C : C01.Cipher) (st0 : C01.HmacSt) (hl : 16 ≤ st0.ls_in.length)
    (hblk : st0.block.length = 32) (hf : st0.filled = 0) : GetObservational (hmacB C) st0 := by
  let s0 := st0.ls_in.drop 16
  let h0 := st0.h_in
  let lo := st0.ls_out
  let ho := st0.h_out
  refine getObservational_of_sim (hmacB C) (fun st (a : Bytes × Bytes) => C01.HmacInv C a.1 s0 h0 lo ho a.2 st)
    (fun a op => match op with
      | .absorb d => ((C01.addBitSizeBlock a.1 d.length, a.2 ++ d), .none)
      | .get n => (a, .data ((C01.hmacOutSpec C a.1 s0 h0 lo ho a.2).take n))
      | .verify t => (a, .verdict (decide (t = (C01.hmacOutSpec C a.1 s0 h0 lo ho a.2).take t.length))))
    ?_ ?_ st0 (st0.ls_in.take 16, []) (C01.hmacInv_init C st0 hl hblk hf)
  · intro st a op h
    cases op with
    | absorb d => exact ⟨C01.hmacInv_stepA h d, rfl⟩
    | get n =>
      refine ⟨C01.hmacInv_stepG h, ?_⟩
      show Out.data ((C01.hmacStepGInternal C st).h1_out.take n) = _
      rw [C01.hmacInv_out h]
    | verify t =>
      refine ⟨C01.hmacInv_stepG h, ?_⟩
      show Out.verdict (decide (t = (C01.hmacStepGInternal C st).h1_out.take t.length)) = _
      rw [C01.hmacInv_out h]
  · intro a g hg
    cases g with
    | absorb d => exact absurd hg Bool.false_ne_true
    | get n => rfl
    | verify t => rfl

/-- after `beltHMACStart(key)`, EVERY key length -/
theorem get_observational_hmac (C : C01.Cipher) (hlen : ∀ k x : Bytes, x.length = 16 → (C.enc k x).length = 16)
    (key : Bytes) (hk : key.length < 2 ^ 64) : GetObservational (hmacB C) (C01.hmacStart C key) := by
  refine get_observational_hmac_of_state C _ ?_ (C01.SpecHashL.length_hmacStart_block C hlen key hk) rfl
  show 16 ≤ (C01.addBitSizeBlock (C01.zeros 16) 32 ++ _).length
  rw [List.length_append, C01.Aead.length_addBitSizeBlock _ _ rfl]; omega

/-- for the real cipher -/
theorem get_observational_beltHMAC (key : Bytes) (hk : key.length < 2 ^ 64) :
    GetObservational (hmacB C01.beltCipher) (C01.hmacStart C01.beltCipher key) :=
  get_observational_hmac _ (fun k x h => C01.length_blockEncr k x h) key hk

/-- a key of 37 octets (hashed first), Get in the middle -/
example : (outs (hmacB C01.chunkToy2) (C01.hmacStart C01.chunkToy2 C01.chunkToyData)
      [.op (.absorb (C01.chunkToyData.take 21)), .op (.get 32), .op (.verify [9]), .reloc,
       .op (.absorb (C01.chunkToyData.drop 21)), .op (.get 32)]).getLast? =
    some (.data (C01.hmacStepG C01.chunkToy2 (C01.hmacStepA C01.chunkToy2 (C01.hmacStart C01.chunkToy2 C01.chunkToyData)
      C01.chunkToyData) 32).2) := by
  decide +kernel

example : (outs (hmacB C01.chunkToy2) (C01.hmacStart C01.chunkToy2 [1, 2, 3])
      [.op (.absorb (C01.chunkToyData.take 21)), .op (.get 32), .op (.verify [9]), .reloc,
       .op (.absorb (C01.chunkToyData.drop 21)), .op (.get 32)]).getLast? =
    some (.data (C01.hmacStepG C01.chunkToy2 (C01.hmacStepA C01.chunkToy2 (C01.hmacStart C01.chunkToy2 [1, 2, 3])
      C01.chunkToyData) 32).2) := by
  decide +kernel

/-! ### KRP -/

/-- the KRP state never changes: `beltKRPStepG` only reads `key`, `len`, `level` (its `block` / `key_new` are
scratch rewritten by every call) -/
theorem after_krp (C : C01.Cipher) (st : C01.KrpSt) (s : List (Call KrpOp)) : after (krpB C) st s = st := by
  induction s with
  | nil => rfl
  | cons c s ih =>
    cases c with
    | reloc => exact ih
    | op i => cases i with | get n h => exact ih

/-- "CHUNK INDEPENDENCE" of KRP: in ANY session on one state — any number of earlier `beltKRPStepG` calls with
other lengths and headers, relocations — a `beltKRPStepG(key_len, header)` returns what the high-level
`beltKRP(dest, m, src, n, level, header)` returns. -/
theorem chunk_indep_krp (C : C01.Cipher) (key level : Bytes) (s : List (Call KrpOp)) (m : Nat) (header : Bytes)
    (hm : C01.validKeyLen m = true) (hn : C01.validKeyLen key.length = true) (hmn : m ≤ key.length) :
    ((krpB C).step (after (krpB C) (C01.krpStart key level) s) (.get m header)).2 =
      .data ((C01.krpHL C m key level header).2.getD []) := by
  rw [after_krp]
  have : ¬ m > key.length := by omega
  simp only [krpB, C01.krpHL, this, hm, hn, decide_false, Bool.not_true, Bool.or_false, Bool.false_eq_true,
    if_false, Option.getD_some]

/-- every KRP call is a Get: none of them influences a later one -/
theorem get_observational_krp (C : C01.Cipher) (st : C01.KrpSt) : GetObservational (krpB C) st := by
  intro pre post g _
  rw [after_krp, after_krp]

example : outs (krpB C01.chunkToy2) (C01.krpStart (C01.zeros 32) (C01.zeros 12))
      [.op (.get 16 (C01.zeros 16)), .reloc, .op (.get 32 (C01.zeros 16)), .op (.get 16 (C01.zeros 16))] =
    [.data (C01.krpStepG C01.chunkToy2 (C01.krpStart (C01.zeros 32) (C01.zeros 12)) 16 (C01.zeros 16)), .none,
     .data (C01.krpStepG C01.chunkToy2 (C01.krpStart (C01.zeros 32) (C01.zeros 12)) 32 (C01.zeros 16)),
     .data (C01.krpStepG C01.chunkToy2 (C01.krpStart (C01.zeros 32) (C01.zeros 12)) 16 (C01.zeros 16))] := by
  decide +kernel

end Bee2V.C10

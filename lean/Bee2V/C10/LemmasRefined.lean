/-
C10 — helper lemmas for PropsRefined.lean: the KRP block `r ‖ level ‖ header` written in place.
-/
import Bee2V.C10.Refined
import Bee2V.C01.Lemmas.Wbl
namespace Bee2V.C10.Refined
open Bee2V Bee2V.C10 Bee2V.Gen.C01

theorem H_length : H.toList.length = 256 := by decide +kernel

/-- the four octets `H[k .. k+4)` exist for every offset the code can form -/
theorem rLen (k : Nat) (hk : k + 4 ≤ 256) : ((H.toList.drop k).take 4).length = 4 := by
  rw [List.length_take, List.length_drop, H_length]; omega

/-- a 32-octet block is `block[0..4) ‖ block[4..16) ‖ block[16..32)` -/
theorem block_split (block : Bytes) (hb : block.length = 32) :
    block = block.take 4 ++ ((block.drop 4).take 12 ++ block.drop 16) := by
  have h2 : block.drop 16 = (block.drop 4).drop 12 := by rw [List.drop_drop]
  rw [h2, List.take_append_drop, List.take_append_drop]

/-- writing `r` (4 octets) at 0 and `header` (16 octets) at 16 into a 32-octet block leaves `block[4..16)` -/
theorem block_written (block r header : Bytes) (hb : block.length = 32) (hr : r.length = 4) (hh : header.length = 16) :
    C01.putAt (C01.putAt block 0 r) 16 header = r ++ ((block.drop 4).take 12 ++ header) := by
  have hL : ((block.drop 4).take 12).length = 12 := by rw [List.length_take, List.length_drop]; omega
  have hZ : (block.drop 16).length = 16 := by rw [List.length_drop]; omega
  have h1 : C01.putAt block 0 r = r ++ ((block.drop 4).take 12 ++ block.drop 16) := by
    conv => lhs; rw [block_split block hb]
    have := C01.Wbl.putAt_append [] (block.take 4) ((block.drop 4).take 12 ++ block.drop 16) r 0 rfl
      (by rw [hr, List.length_take]; omega)
    simpa using this
  rw [h1]
  have := C01.Wbl.putAt_append (r ++ (block.drop 4).take 12) (block.drop 16) [] header 16
    (by rw [List.length_append, hr, hL]) (by rw [hh, hZ])
  simpa [List.append_assoc] using this

theorem level_kept (r L header : Bytes) (hr : r.length = 4) (hL : L.length = 12) :
    ((r ++ (L ++ header)).drop 4).take 12 = L := by
  rw [List.drop_left' hr, List.take_left' hL]

/-- `level` written by `beltKRPStart` into `block[4..16)` of a 32-octet memory -/
theorem level_stored (junk level : Bytes) (hj : junk.length = 32) (hl : level.length = 12) :
    ((C01.putAt junk 4 level).drop 4).take 12 = level ∧ (C01.putAt junk 4 level).length = 32 := by
  have ht : (junk.take 4).length = 4 := by rw [List.length_take]; omega
  constructor
  · simp only [C01.putAt, List.append_assoc]
    rw [List.drop_left' ht, List.take_left' hl]
  · simp only [C01.putAt, List.length_append, List.length_take, List.length_drop, hl, hj]; omega

end Bee2V.C10.Refined

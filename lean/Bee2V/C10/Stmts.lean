/-
C10 — shared vocabulary of the theorem statements: fragment lists, admissibility as the headers state it,
concatenation of the returned data.  No Mathlib.
-/
import Bee2V.C10.Machines
namespace Bee2V.C10

/-- concatenation of the data returned by a session (`Out.none` and verdicts are skipped) -/
def dataOf : List Out → Bytes
  | [] => []
  | .data b :: r => b ++ dataOf r
  | _ :: r => dataOf r

/-- the session `StepX(c1); StepX(c2); …` -/
def calls {ι : Type} (f : Bytes → ι) (cs : List Bytes) : List (Call ι) := cs.map (fun c => Call.op (f c))

/-- belt.h, `beltECBStepE` / `beltCBCStepE`: "count ≥ 16; the function may be called several times with buffers
of whole blocks; an incomplete block may be passed only in the last call" (e.g. 33 = 16 + 17 but not 32 + 1) -/
def admissibleCTS : List Bytes → Prop
  | [] => False
  | [c] => 16 ≤ c.length
  | c :: cs => 16 ≤ c.length ∧ c.length % 16 = 0 ∧ admissibleCTS cs

instance : (cs : List Bytes) → Decidable (admissibleCTS cs)
  | [] => isFalse (fun h => h)
  | [c] => inferInstanceAs (Decidable (16 ≤ c.length))
  | c :: d :: cs =>
    have := instDecidableAdmissibleCTS (d :: cs)
    inferInstanceAs (Decidable (16 ≤ c.length ∧ c.length % 16 = 0 ∧ admissibleCTS (d :: cs)))

/-- belt.h, `beltBDEStepE`: `count % 16 == 0` (empty fragments allowed) -/
def wholeBlocks (cs : List Bytes) : Prop := ∀ c ∈ cs, c.length % 16 = 0

/-- belt.h, `beltSDEStepE`: `count % 16 == 0 && count >= 32` -/
def sector (d : Bytes) : Prop := d.length % 16 = 0 ∧ 32 ≤ d.length

/-- brng.h, `brngCTRStepR`: the prior content of the buffer is additional input; chunk independence is claimed
for zero-filled buffers only -/
def zeroBufs (cs : List Bytes) : Prop := ∀ c ∈ cs, c = List.replicate c.length 0

/-- the cipher returns 16 octets on 16 octets (true for belt: `C01.belt_hlen`) -/
def BlockLen (C : C01.Cipher) : Prop :=
  (∀ k x, x.length = 16 → (C.enc k x).length = 16) ∧ (∀ k x, x.length = 16 → (C.dec k x).length = 16)

end Bee2V.C10

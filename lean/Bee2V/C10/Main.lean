import Bee2V.C10.Drv

def main : IO Unit := Bee2V.Proto.runLoop Bee2V.C10.Drv.dispatch

/-
C10 property theorems, relocation: the state structs of the incremental bundles are position independent.
`Bee2V.Gen.C10Structs` is regenerated on every run from clang's record layouts of the current sources
(xlate/x_c10_structs.py); the theorems below are re-checked by the kernel against the regenerated table, so a new
pointer member, a new use of the one existing pointer member, or a nested record that is not in the table makes
them fail.  In the model relocation is the identity (`relocInvisible`, Defs.lean); these theorems are what makes
that modelling decision faithful.  The harness additionally moves every state for real (memcpy + poison + free).
-/
import Bee2V.Gen.C10Structs
import Bee2V.C10.Machines
namespace Bee2V.C10
open Bee2V.Gen.C10Structs

def isPtr (f : Field) : Bool := match f.kind with | .pointer => true | _ => false

/-- number of pointer members of a record (members of nested records are counted in their own record) -/
def pointerCount (r : Rec) : Nat := (r.fields.filter isPtr).length

/-- every nested member refers to a record of the table -/
def nestedOk (r : Rec) : Bool :=
  r.fields.all fun f => match f.kind with
    | .nested i => records.any (fun q => q.id == i)
    | _ => true

/-- members lie inside the record, in increasing order (sanity of the translated layout) -/
def layoutOk (r : Rec) : Bool :=
  r.fields.all (fun f => f.off + f.span ≤ r.size) &&
    (r.fields.zip r.fields.tail).all (fun p => p.1.off + p.1.span == p.2.off)

/-- the admissible uses of `brng_hmac_st.iv`: the state's own buffer is stored only in the `iv_len ≤ b` arm, the
caller's pointer only in the `iv_len > b` arm, and the member is read only in the `iv_len > b` arm -/
def ivUseOk (b : Nat) : IvUse → Bool
  | .writeSelf b' t => t && b' == b
  | .writeExt b' e => e && b' == b
  | .readGuarded b' => b' == b
  | .other => false

/-- NO POINTER MEMBERS: every state struct (21 records: belt ECB/CBC/CFB/CTR/MAC/DWP/CHE/hash/HMAC/BDE/SDE/KRP/
WBL/FMT, bash hash/prg, brng CTR, botp HOTP/TOTP/OCRA) except `brng_hmac_st` consists of integer scalars, integer
arrays and nested records of the same table only. -/
theorem no_pointer_members : ∀ r ∈ records, r.id ≠ brngHmacId → pointerCount r = 0 := by decide

/-- ids are positions in the table and every nested record is in the table, so `no_pointer_members` is
transitive (e.g. `belt_dwp_st.ctr : belt_ctr_st[1]`, `belt_sde_st.wbl : belt_wbl_st[1]`). -/
theorem nested_closed : (records.map (·.id) = List.range records.length) ∧ ∀ r ∈ records, nestedOk r = true := by
  decide

/-- the translated layouts are consistent: members are contiguous up to padding and inside `sizeof` -/
theorem layouts_consistent : ∀ r ∈ records, layoutOk r = true := by decide

/-- THE EXCEPTION, explicit: `brng_hmac_st` has exactly one pointer member (`iv`, offset 0); brng.c stores the
address of the state's own `iv_buf` into it only when `iv_len ≤ 64` and READS it only when `iv_len > 64`, where it
holds the caller's buffer, which brng.h requires to stay valid and unchanged ("\expect … iv_len > 64 …"); there is
an array member of 64 octets to hold shorter IVs.  So a relocated state never dereferences a pointer into its old
location: the pointer that is dereferenced is documented, external, and never a self-pointer. -/
theorem brng_hmac_iv_exception :
    (∀ r ∈ records, r.id = brngHmacId →
      pointerCount r = 1 ∧ (r.fields.head?.map (fun f => isPtr f && f.off == 0)) = some true ∧
      r.fields.any (fun f => f.kind == .array && f.span == 64) = true) ∧
    brngHmacIvUses.all (ivUseOk 64) = true ∧ brngHmacIvUses.any (· == .readGuarded 64) = true ∧
    records.any (fun r => r.id == brngHmacId) = true := by decide

/-- the headers of belt (0), brng (2) and botp (3) declare their states copyable ("Состояние можно копировать
как фрагмент памяти"); bash.h (1) does not say so — its two structs are checked all the same. -/
theorem documented_copyable : copyableFamilies = [0, 2, 3] := by decide

/-- non-vacuity: the table is not empty, and the checker does see a pointer where there is one -/
example : records.length = 21 ∧ (records.map pointerCount).sum = 1 := by decide
example : pointerCount brng_hmac_st = 1 ∧ pointerCount belt_dwp_st = 0 := by decide

end Bee2V.C10

/-
C10 helper lemmas for the key-stream and AEAD bundles (belt_ctr.c, belt_dwp.c, belt_che.c).

Technique: both buffering schemes of these files (the reserve of key stream in `beltCTRStepE` / `beltCHEStepE`
and the pending block of `beltDWPStepI` / `beltDWPStepA`) are shown to be *octet-serial*: a call on
`c :: buf` is a call on `[c]` followed by a call on `buf` (same state, same output).  Chunk independence is
then an induction over the first fragment.
-/
import Bee2V.C10.Stmts
import Bee2V.C01.Lemmas.Lists
import Bee2V.C01.Lemmas.Stream
import Bee2V.C01.Lemmas.Aead
import Bee2V.C01.Lemmas.Chunk
import Bee2V.C01.Lemmas.Block
namespace Bee2V.C10.Aead
open Bee2V.C01 hiding Bytes
open Bee2V.C01.Aead (ksStep ksBody)

/-! ### small facts on xor of buffers -/

theorem xorb_cons (a g : UInt8) (as gs : Bytes) : xorb (a :: as) (g :: gs) = (a ^^^ g) :: xorb as gs := by
  simp only [xorb, List.zipWith_cons_cons]

theorem xorb_nil (g : Bytes) : xorb [] g = [] := by simp only [xorb, List.zipWith_nil_left]

theorem drop_cons_of_lt (g : Bytes) (k : Nat) (h : k < g.length) : g.drop k = g[k] :: g.drop (k + 1) :=
  List.drop_eq_getElem_cons h

/-! ### the key-stream step is octet-serial -/

/-- state invariant of a key-stream mode: counter and gamma block of 16 octets, at most 16 octets in reserve -/
structure KsInv (x blk : Bytes) (res : Nat) : Prop where
  x : x.length = 16
  blk : blk.length = 16
  res : res ≤ 16

/-- `ksStep` after the reserve has been used up (the loop over whole blocks and the ragged tail) -/
def ksMain (f e : Bytes → Bytes) (x blk : Bytes) (buf : Bytes) : (Bytes × Bytes × Nat) × Bytes :=
  let l := C01.fullBlocks 16 (ksBody f e) (x, blk) buf
  if l.2.2.length ≠ 0 then
    ((f l.1.1, e (f l.1.1), 16 - l.2.2.length), l.2.1 ++ xorb l.2.2 (e (f l.1.1)))
  else ((l.1.1, l.1.2, 0), l.2.1)

theorem ksStep_res (f e : Bytes → Bytes) (x blk : Bytes) (res : Nat) (buf : Bytes)
    (h : res ≠ 0 ∧ res ≥ buf.length) :
    ksStep f e x blk res buf = ((x, blk, res - buf.length), xorb buf (blk.drop (16 - res))) := by
  unfold ksStep
  rw [if_pos h, Stream.xorb_take_right]

theorem ksStep_main (f e : Bytes → Bytes) (x blk : Bytes) (res : Nat) (buf : Bytes)
    (h : ¬ (res ≠ 0 ∧ res ≥ buf.length)) :
    ksStep f e x blk res buf = ((ksMain f e x blk (buf.drop res)).1,
      xorb (buf.take res) (blk.drop (16 - res)) ++ (ksMain f e x blk (buf.drop res)).2) := by
  unfold ksStep ksMain
  rw [if_neg h]
  by_cases hr : res = 0
  · subst hr
    simp only [ne_eq, not_true_eq_false, if_false, List.take_zero, xorb_nil, List.drop_zero, List.nil_append]
    split <;> simp only [Stream.xorb_take_right]
  · simp only [hr, ne_eq, not_false_eq_true, if_true]
    split <;> simp only [List.append_assoc, Stream.xorb_take_right]

theorem ksMain_nil (f e : Bytes → Bytes) (x blk : Bytes) : ksMain f e x blk [] = ((x, blk, 0), []) := by
  unfold ksMain
  rw [C01.Aead.fullBlocks_short _ _ [] (by decide)]
  rfl

theorem ksMain_short (f e : Bytes → Bytes) (x blk buf : Bytes) (h0 : buf.length ≠ 0) (h : buf.length < 16) :
    ksMain f e x blk buf = ((f x, e (f x), 16 - buf.length), xorb buf (e (f x))) := by
  unfold ksMain
  rw [C01.Aead.fullBlocks_short _ _ buf h]
  simp only [h0, ne_eq, not_false_eq_true, if_true, List.nil_append]

theorem ksMain_ge (f e : Bytes → Bytes) (x blk buf : Bytes) (h : 16 ≤ buf.length) :
    ksMain f e x blk buf = ((ksMain f e (f x) (e (f x)) (buf.drop 16)).1,
      xorb (buf.take 16) (e (f x)) ++ (ksMain f e (f x) (e (f x)) (buf.drop 16)).2) := by
  unfold ksMain
  rw [Stream.fullBlocks_ge 16 (by decide) (ksBody f e) (x, blk) buf h]
  have hb1 : (ksBody f e (x, blk) (buf.take 16)).1 = (f x, e (f x)) := rfl
  have hb2 : (ksBody f e (x, blk) (buf.take 16)).2 = xorb (buf.take 16) (e (f x)) := rfl
  rw [hb1, hb2]
  dsimp only
  split <;> simp only [List.append_assoc]

theorem ksStep_nil (f e : Bytes → Bytes) (x blk : Bytes) (res : Nat) :
    ksStep f e x blk res [] = ((x, blk, res), []) := by
  by_cases h : res ≠ 0
  · rw [ksStep_res f e x blk res [] ⟨h, Nat.zero_le _⟩, xorb_nil]; rfl
  · have h0 : res = 0 := by omega
    subst h0
    rw [ksStep_main f e x blk 0 [] (fun h' => h'.1 rfl)]
    simp only [List.drop_nil, List.take_nil, ksMain_nil, xorb_nil, List.nil_append]

theorem ksStep_one (f e : Bytes → Bytes) (x blk : Bytes) (res : Nat) (c : UInt8) :
    ksStep f e x blk res [c] =
      if res = 0 then ((f x, e (f x), 15), xorb [c] (e (f x)))
      else ((x, blk, res - 1), xorb [c] (blk.drop (16 - res))) := by
  by_cases h : res = 0
  · subst h
    rw [ksStep_main f e x blk 0 [c] (fun h' => h'.1 rfl), if_pos rfl]
    simp only [List.drop_zero, List.take_zero, xorb_nil, List.nil_append]
    rw [ksMain_short f e x blk [c] (by simp only [List.length_cons, List.length_nil]; omega)
      (by simp only [List.length_cons, List.length_nil]; omega)]
    rfl
  · rw [ksStep_res f e x blk res [c] ⟨h, by simp only [List.length_cons, List.length_nil]; omega⟩, if_neg h]
    rfl

theorem xorb_cons_split (c : UInt8) (buf g : Bytes) (k : Nat) (hk : k < g.length) :
    xorb (c :: buf) (g.drop k) = xorb [c] (g.drop k) ++ xorb buf (g.drop (k + 1)) := by
  rw [drop_cons_of_lt g k hk]
  simp only [xorb_cons, xorb_nil, List.cons_append, List.nil_append]

/-- `StepE(c :: buf)` = `StepE([c]); StepE(buf)`: same final state, outputs concatenated -/
theorem ksStep_cons (f e : Bytes → Bytes) (hf : ∀ x, x.length = 16 → (f x).length = 16)
    (he : ∀ x, x.length = 16 → (e x).length = 16) (x blk : Bytes) (res : Nat) (hi : KsInv x blk res)
    (c : UInt8) (buf : Bytes) :
    ksStep f e x blk res (c :: buf) =
      ((ksStep f e (ksStep f e x blk res [c]).1.1 (ksStep f e x blk res [c]).1.2.1
          (ksStep f e x blk res [c]).1.2.2 buf).1,
       (ksStep f e x blk res [c]).2 ++
        (ksStep f e (ksStep f e x blk res [c]).1.1 (ksStep f e x blk res [c]).1.2.1
          (ksStep f e x blk res [c]).1.2.2 buf).2) := by
  rw [ksStep_one]
  cases res with
  | zero =>
    -- no reserve: a new gamma block is produced
    rw [if_pos rfl]
    dsimp only
    have hg : (e (f x)).length = 16 := he _ (hf _ hi.x)
    have hsp : ∀ b : Bytes, xorb (c :: b) (e (f x)) = xorb [c] (e (f x)) ++ xorb b ((e (f x)).drop 1) := by
      intro b
      have := xorb_cons_split c b (e (f x)) 0 (by omega)
      simpa only [List.drop_zero, Nat.zero_add] using this
    rw [ksStep_main f e x blk 0 (c :: buf) (fun h' => h'.1 rfl)]
    simp only [List.drop_zero, List.take_zero, xorb_nil, List.nil_append]
    by_cases hs : buf.length + 1 < 16
    · -- the whole buffer is shorter than a block
      rw [ksMain_short f e x blk (c :: buf) (by simp only [List.length_cons]; omega)
        (by simpa only [List.length_cons] using hs)]
      rw [ksStep_res f e (f x) (e (f x)) 15 buf ⟨by decide, by omega⟩, hsp]
      refine Prod.ext (Prod.ext rfl (Prod.ext rfl ?_)) rfl
      simp only [List.length_cons]; omega
    · -- at least one whole block
      rw [ksMain_ge f e x blk (c :: buf) (by simp only [List.length_cons]; omega)]
      have ht : (c :: buf).take 16 = c :: buf.take 15 := by simp only [List.take_succ_cons]
      have hd : (c :: buf).drop 16 = buf.drop 15 := by simp only [List.drop_succ_cons]
      rw [ht, hd, hsp]
      by_cases h15 : buf.length = 15
      · have hbt : buf.take 15 = buf := List.take_of_length_le (by omega)
        have hbd : buf.drop 15 = [] := List.drop_eq_nil_of_le (by omega)
        rw [ksStep_res f e (f x) (e (f x)) 15 buf ⟨by decide, by omega⟩, hbt, hbd, ksMain_nil]
        refine Prod.ext (Prod.ext rfl (Prod.ext rfl ?_)) (by simp only [List.append_nil])
        simp only []; omega
      · rw [ksStep_main f e (f x) (e (f x)) 15 buf (fun h' => by omega)]
        simp only [List.append_assoc]
  | succ m =>
    have hm : m ≤ 15 := by have := hi.res; omega
    have hne : m + 1 ≠ 0 := by omega
    rw [if_neg hne]
    dsimp only
    have hk : 16 - (m + 1) = 15 - m := by omega
    have hk1 : 16 - m = 15 - m + 1 := by omega
    have hsp : ∀ b : Bytes, xorb (c :: b) (blk.drop (15 - m)) =
        xorb [c] (blk.drop (15 - m)) ++ xorb b (blk.drop (15 - m + 1)) :=
      fun b => xorb_cons_split c b blk (15 - m) (by have := hi.blk; omega)
    rw [hk, Nat.add_sub_cancel]
    by_cases hs : m + 1 ≥ buf.length + 1
    · -- everything comes from the reserve
      rw [ksStep_res f e x blk (m + 1) (c :: buf) ⟨hne, by simpa only [List.length_cons] using hs⟩, hk, hsp]
      by_cases hm0 : m = 0
      · subst hm0
        have hb : buf = [] := List.eq_nil_of_length_eq_zero (by omega)
        subst hb
        rw [ksStep_nil, xorb_nil]
        rfl
      · rw [ksStep_res f e x blk m buf ⟨hm0, by omega⟩, hk1]
        refine Prod.ext (Prod.ext rfl (Prod.ext rfl ?_)) rfl
        simp only [List.length_cons]; omega
    · -- the reserve is used up inside `buf`
      rw [ksStep_main f e x blk (m + 1) (c :: buf) (fun h' => hs (by simpa only [List.length_cons] using h'.2))]
      rw [ksStep_main f e x blk m buf (fun h' => by omega)]
      have ht : (c :: buf).take (m + 1) = c :: buf.take m := by simp only [List.take_succ_cons]
      have hd : (c :: buf).drop (m + 1) = buf.drop m := by simp only [List.drop_succ_cons]
      rw [ht, hd, hk, hk1, hsp]
      simp only [List.append_assoc]

theorem ksStep_one_inv (f e : Bytes → Bytes) (hf : ∀ x, x.length = 16 → (f x).length = 16)
    (he : ∀ x, x.length = 16 → (e x).length = 16) (x blk : Bytes) (res : Nat) (hi : KsInv x blk res) (c : UInt8) :
    KsInv (ksStep f e x blk res [c]).1.1 (ksStep f e x blk res [c]).1.2.1 (ksStep f e x blk res [c]).1.2.2 := by
  rw [ksStep_one]
  by_cases h : res = 0
  · rw [if_pos h]; exact ⟨hf _ hi.x, he _ (hf _ hi.x), by simp only []; omega⟩
  · rw [if_neg h]; exact ⟨hi.x, hi.blk, by have := hi.res; simp only []; omega⟩

/-- the invariant is kept by `StepE` -/
theorem ksStep_inv (f e : Bytes → Bytes) (hf : ∀ x, x.length = 16 → (f x).length = 16)
    (he : ∀ x, x.length = 16 → (e x).length = 16) (buf : Bytes) :
    ∀ (x blk : Bytes) (res : Nat), KsInv x blk res →
      KsInv (ksStep f e x blk res buf).1.1 (ksStep f e x blk res buf).1.2.1 (ksStep f e x blk res buf).1.2.2 := by
  induction buf with
  | nil => intro x blk res hi; rw [ksStep_nil]; exact hi
  | cons c buf ih =>
    intro x blk res hi
    rw [ksStep_cons f e hf he x blk res hi]
    exact ih _ _ _ (ksStep_one_inv f e hf he x blk res hi c)

/-- TWO-FRAGMENT SPLIT of a key-stream step: `StepE(a ++ b)` = `StepE(a); StepE(b)`, final state and output -/
theorem ksStep_append (f e : Bytes → Bytes) (hf : ∀ x, x.length = 16 → (f x).length = 16)
    (he : ∀ x, x.length = 16 → (e x).length = 16) (a b : Bytes) :
    ∀ (x blk : Bytes) (res : Nat), KsInv x blk res →
      ksStep f e x blk res (a ++ b) =
        ((ksStep f e (ksStep f e x blk res a).1.1 (ksStep f e x blk res a).1.2.1
            (ksStep f e x blk res a).1.2.2 b).1,
         (ksStep f e x blk res a).2 ++
          (ksStep f e (ksStep f e x blk res a).1.1 (ksStep f e x blk res a).1.2.1
            (ksStep f e x blk res a).1.2.2 b).2) := by
  induction a with
  | nil => intro x blk res _; rw [List.nil_append, ksStep_nil]; rfl
  | cons c a ih =>
    intro x blk res hi
    have h1 := ksStep_one_inv f e hf he x blk res hi c
    rw [List.cons_append, ksStep_cons f e hf he x blk res hi c (a ++ b), ih _ _ _ h1,
      ksStep_cons f e hf he x blk res hi c a]
    simp only [List.append_assoc]

/-! ### CTR -/

/-- state invariant of `belt_ctr_st` -/
structure CtrInv (st : CtrSt) : Prop where
  res : st.reserved ≤ 16
  blk : st.block.length = 16
  ctr : st.ctr.length = 16

theorem ctrInv_start (C : Cipher) (hlen : ∀ k x, x.length = 16 → (C.enc k x).length = 16) (key iv : Bytes)
    (hiv : iv.length = 16) : CtrInv (ctrStart C key iv) :=
  ⟨Nat.zero_le _, rfl, hlen _ _ hiv⟩

theorem ctrStepE_nil (C : Cipher) (st : CtrSt) : ctrStepE C st [] = (st, []) := by
  rw [C01.Aead.ctrStepE_eq, ksStep_nil]

theorem ctrStepE_keeps (C : Cipher) (hlen : ∀ k x, x.length = 16 → (C.enc k x).length = 16) (st : CtrSt)
    (hi : CtrInv st) (buf : Bytes) : CtrInv (ctrStepE C st buf).1 := by
  have := ksStep_inv incBlock (C.enc st.key) C01.Aead.length_incBlock (hlen st.key) buf st.ctr st.block st.reserved
    ⟨hi.ctr, hi.blk, hi.res⟩
  rw [C01.Aead.ctrStepE_eq]
  exact ⟨this.res, this.blk, this.x⟩

/-- `beltCTRStepE(a ++ b)` = `beltCTRStepE(a); beltCTRStepE(b)`: the same final state (every field), the
concatenated output -/
theorem ctrStepE_append (C : Cipher) (hlen : ∀ k x, x.length = 16 → (C.enc k x).length = 16) (st : CtrSt)
    (hi : CtrInv st) (a b : Bytes) :
    ctrStepE C st (a ++ b) =
      ((ctrStepE C (ctrStepE C st a).1 b).1, (ctrStepE C st a).2 ++ (ctrStepE C (ctrStepE C st a).1 b).2) := by
  rw [C01.Aead.ctrStepE_eq C st (a ++ b), C01.Aead.ctrStepE_eq C (ctrStepE C st a).1 b, C01.Aead.ctrStepE_eq C st a]
  dsimp only
  rw [ksStep_append incBlock (C.enc st.key) C01.Aead.length_incBlock (hlen st.key) a b st.ctr st.block st.reserved
    ⟨hi.ctr, hi.blk, hi.res⟩]

/-- the data passed to the calls of a session of an encrypting bundle, concatenated -/
def eData : List (Call EOp) → Bytes
  | [] => []
  | .reloc :: s => eData s
  | .op (.encr d) :: s => d ++ eData s
  | .op (.decr d) :: s => d ++ eData s

theorem eData_calls_encr (cs : List Bytes) : eData (calls EOp.encr cs) = cs.flatten := by
  induction cs with
  | nil => rfl
  | cons c cs ih => simp only [calls, List.map_cons, eData, List.flatten_cons] at ih ⊢; rw [ih]

theorem eData_calls_decr (cs : List Bytes) : eData (calls EOp.decr cs) = cs.flatten := by
  induction cs with
  | nil => rfl
  | cons c cs ih => simp only [calls, List.map_cons, eData, List.flatten_cons] at ih ⊢; rw [ih]

/-- any session of the CTR bundle = one `beltCTRStepE` call on the concatenated data -/
theorem ctr_run (C : Cipher) (hlen : ∀ k x, x.length = 16 → (C.enc k x).length = 16) (s : List (Call EOp)) :
    ∀ st : CtrSt, CtrInv st →
      after (ctrB C) st s = (ctrStepE C st (eData s)).1 ∧ dataOf (outs (ctrB C) st s) = (ctrStepE C st (eData s)).2 := by
  induction s with
  | nil => intro st _; rw [eData, ctrStepE_nil]; exact ⟨rfl, rfl⟩
  | cons c s ih =>
    intro st hi
    cases c with
    | reloc => exact ih st hi
    | op o =>
      have key : ∀ d : Bytes, after (ctrB C) (ctrStepE C st d).1 s = (ctrStepE C st (d ++ eData s)).1 ∧
          (ctrStepE C st d).2 ++ dataOf (outs (ctrB C) (ctrStepE C st d).1 s) = (ctrStepE C st (d ++ eData s)).2 := by
        intro d
        have h := ih (ctrStepE C st d).1 (ctrStepE_keeps C hlen st hi d)
        rw [ctrStepE_append C hlen st hi d (eData s), h.1, h.2]
        exact ⟨rfl, rfl⟩
      cases o with
      | encr d => exact key d
      | decr d => exact key d

/-! ### CHE: the key-stream part -/

/-- invariant of the key-stream fields of `belt_che_st` -/
structure CheKInv (st : CheSt) : Prop where
  res : st.reserved ≤ 16
  blk : st.block1.length = 16
  s : st.s.length = 16

theorem cheKInv_start (C : Cipher) (hlen : ∀ k x, x.length = 16 → (C.enc k x).length = 16) (key iv : Bytes)
    (hiv : iv.length = 16) : CheKInv (cheStart C key iv) :=
  ⟨Nat.zero_le _, rfl, hlen _ _ hiv⟩

theorem cheStepE_nil (C : Cipher) (st : CheSt) : cheStepE C st [] = (st, []) := by
  rw [C01.Aead.cheStepE_eq, ksStep_nil]

theorem cheStepE_keeps (C : Cipher) (hlen : ∀ k x, x.length = 16 → (C.enc k x).length = 16) (st : CheSt)
    (hi : CheKInv st) (buf : Bytes) : CheKInv (cheStepE C st buf).1 := by
  have := ksStep_inv cheNextS (C.enc st.key) C01.Aead.length_cheNextS (hlen st.key) buf st.s st.block1 st.reserved
    ⟨hi.s, hi.blk, hi.res⟩
  rw [C01.Aead.cheStepE_eq]
  exact ⟨this.res, this.blk, this.x⟩

/-- `beltCHEStepE(a ++ b)` = `beltCHEStepE(a); beltCHEStepE(b)`: the same final state (every field), the
concatenated output -/
theorem cheStepE_append (C : Cipher) (hlen : ∀ k x, x.length = 16 → (C.enc k x).length = 16) (st : CheSt)
    (hi : CheKInv st) (a b : Bytes) :
    cheStepE C st (a ++ b) =
      ((cheStepE C (cheStepE C st a).1 b).1, (cheStepE C st a).2 ++ (cheStepE C (cheStepE C st a).1 b).2) := by
  rw [C01.Aead.cheStepE_eq C st (a ++ b), C01.Aead.cheStepE_eq C (cheStepE C st a).1 b, C01.Aead.cheStepE_eq C st a]
  dsimp only
  rw [ksStep_append cheNextS (C.enc st.key) C01.Aead.length_cheNextS (hlen st.key) a b st.s st.block1 st.reserved
    ⟨hi.s, hi.blk, hi.res⟩]

/-- a session of `beltCHEStepE` calls only = one call on the concatenated data -/
theorem che_crypt_run (C : Cipher) (hlen : ∀ k x, x.length = 16 → (C.enc k x).length = 16) (cs : List Bytes) :
    ∀ st : CheSt, CheKInv st →
      after (cheB C) st (calls AeadOp.encr cs) = (cheStepE C st cs.flatten).1 ∧
      dataOf (outs (cheB C) st (calls AeadOp.encr cs)) = (cheStepE C st cs.flatten).2 := by
  induction cs with
  | nil => intro st _; rw [List.flatten_nil, cheStepE_nil]; exact ⟨rfl, rfl⟩
  | cons c cs ih =>
    intro st hi
    have h := ih (cheStepE C st c).1 (cheStepE_keeps C hlen st hi c)
    rw [List.flatten_cons, cheStepE_append C hlen st hi c cs.flatten, ← h.1, ← h.2]
    exact ⟨rfl, rfl⟩

/-! ### the pending-block scheme of `beltDWPStepI` / `beltDWPStepA` is octet-serial -/

/-- invariant of the accumulator: a 16-octet block buffer that is never left full, a 16-octet length block -/
structure PInv (p : PolySt) : Prop where
  blk : p.block.length = 16
  fil : p.filled < 16
  len : p.len.length = 16

theorem polySt_ext (p q : PolySt) (h1 : p.r = q.r) (h2 : p.t = q.t) (h3 : p.t1 = q.t1) (h4 : p.len = q.len)
    (h5 : p.block = q.block) (h6 : p.filled = q.filled) : p = q := by
  cases p; cases q; simp only [PolySt.mk.injEq]; exact ⟨h1, h2, h3, h4, h5, h6⟩

/-- one octet through the buffering scheme: store it at `block[filled]`; a completed block is folded into `t` -/
def absorbByte (p : PolySt) (c : UInt8) : PolySt :=
  if p.filled = 15 then
    { p with t := polyStep p.r p.t (putAt p.block 15 [c]), block := putAt p.block 15 [c], filled := 0 }
  else { p with block := putAt p.block p.filled [c], filled := p.filled + 1 }

/-- the loop over whole blocks and the ragged tail of `absorb16` -/
def polyTail (p : PolySt) (t0 blk0 buf : Bytes) : PolySt :=
  let l := C01.fullBlocks 16 (fun (tb : Bytes × Bytes) b => ((polyStep p.r tb.1 b, b), ([] : Bytes))) (t0, blk0) buf
  if l.2.2.length ≠ 0 then { p with t := l.1.1, block := putAt l.1.2 0 l.2.2, filled := l.2.2.length }
  else { p with t := l.1.1, block := l.1.2, filled := 0 }

theorem absorb16_short (p : PolySt) (buf : Bytes) (h : p.filled ≠ 0 ∧ buf.length < 16 - p.filled) :
    absorb16 p buf = { p with block := putAt p.block p.filled buf, filled := p.filled + buf.length } := by
  unfold absorb16
  rw [if_pos h]

theorem absorb16_fill (p : PolySt) (buf : Bytes) (h1 : p.filled ≠ 0) (h2 : ¬ buf.length < 16 - p.filled) :
    absorb16 p buf =
      polyTail p (polyStep p.r p.t (putAt p.block p.filled (buf.take (16 - p.filled))))
        (putAt p.block p.filled (buf.take (16 - p.filled))) (buf.drop (16 - p.filled)) := by
  unfold absorb16 polyTail
  rw [if_neg (fun h => h2 h.2)]
  simp only [h1, ne_eq, not_false_eq_true, if_true]

theorem absorb16_zero (p : PolySt) (buf : Bytes) (h : p.filled = 0) :
    absorb16 p buf = polyTail p p.t p.block buf := by
  unfold absorb16 polyTail
  rw [if_neg (fun h' => h'.1 h)]
  simp only [h, ne_eq, not_true_eq_false, if_false, List.drop_zero]

theorem polyTail_nil (p : PolySt) (t0 blk0 : Bytes) :
    polyTail p t0 blk0 [] = { p with t := t0, block := blk0, filled := 0 } := by
  unfold polyTail
  rw [C01.Aead.fullBlocks_short _ _ [] (by simp only [List.length_nil]; omega)]
  rfl

theorem polyTail_short (p : PolySt) (t0 blk0 buf : Bytes) (h0 : buf.length ≠ 0) (h : buf.length < 16) :
    polyTail p t0 blk0 buf = { p with t := t0, block := putAt blk0 0 buf, filled := buf.length } := by
  unfold polyTail
  rw [C01.Aead.fullBlocks_short _ _ buf h]
  simp only [h0, ne_eq, not_false_eq_true, if_true]

theorem polyTail_ge (p : PolySt) (t0 blk0 buf : Bytes) (h : 16 ≤ buf.length) :
    polyTail p t0 blk0 buf = polyTail p (polyStep p.r t0 (buf.take 16)) (buf.take 16) (buf.drop 16) := by
  unfold polyTail
  rw [Stream.fullBlocks_ge 16 (by decide) _ (t0, blk0) buf h]

/-- the tail loop reads only `r` (and copies `t1`, `len`) -/
theorem polyTail_congr (p q : PolySt) (h1 : q.r = p.r) (h3 : q.t1 = p.t1) (h4 : q.len = p.len) (t0 blk0 buf : Bytes) :
    polyTail q t0 blk0 buf = polyTail p t0 blk0 buf := by
  unfold polyTail
  simp only [h1, h3, h4]

theorem putAt_putAt (b x : Bytes) (o : Nat) (c : UInt8) (h : o ≤ b.length) :
    putAt (putAt b o [c]) (o + 1) x = putAt b o (c :: x) := by
  have ht : (b.take o).length = o := by simp only [List.length_take]; omega
  have h1 : (b.take o ++ [c] ++ b.drop (o + 1)).take (o + 1) = b.take o ++ [c] :=
    List.take_left' (by simp only [List.length_append, ht, List.length_cons, List.length_nil])
  have h2 : (b.take o ++ [c] ++ b.drop (o + 1)).drop (o + 1 + x.length) = b.drop (o + 1 + x.length) := by
    rw [← List.drop_drop, List.drop_left' (by simp only [List.length_append, ht, List.length_cons, List.length_nil]),
      List.drop_drop]
  simp only [putAt, List.length_cons, List.length_nil, Nat.zero_add, h1, h2]
  have : o + (x.length + 1) = o + 1 + x.length := by omega
  rw [this]
  simp only [List.append_assoc, List.cons_append, List.nil_append]

theorem putAt_full (b x : Bytes) (h : x.length = b.length) : putAt b 0 x = x := by
  simp only [putAt, List.take_zero, List.nil_append, Nat.zero_add, h, List.drop_length, List.append_nil]

theorem absorb16_nil (p : PolySt) (hi : PInv p) : absorb16 p [] = p := by
  by_cases h : p.filled = 0
  · rw [absorb16_zero p [] h, polyTail_nil]
    exact polySt_ext _ _ rfl rfl rfl rfl rfl h.symm
  · rw [absorb16_short p [] ⟨h, by have := hi.fil; simp only [List.length_nil]; omega⟩]
    exact polySt_ext _ _ rfl rfl rfl rfl (Stream.putAt_nil _ _) rfl

theorem absorb16_one (p : PolySt) (hi : PInv p) (c : UInt8) : absorb16 p [c] = absorbByte p c := by
  have hf := hi.fil
  unfold absorbByte
  by_cases h15 : p.filled = 15
  · rw [if_pos h15, absorb16_fill p [c] (by omega) (by simp only [List.length_cons, List.length_nil]; omega)]
    have h1 : 16 - p.filled = 1 := by omega
    rw [h1, h15]
    show polyTail p _ _ [] = _
    rw [polyTail_nil]
    rfl
  · rw [if_neg h15]
    by_cases h0 : p.filled = 0
    · rw [absorb16_zero p [c] h0, polyTail_short p _ _ [c] (by simp only [List.length_cons, List.length_nil]; omega)
        (by simp only [List.length_cons, List.length_nil]; omega)]
      exact polySt_ext _ _ rfl rfl rfl rfl (by rw [h0]) (by rw [h0]; rfl)
    · rw [absorb16_short p [c] ⟨h0, by simp only [List.length_cons, List.length_nil]; omega⟩]
      rfl

theorem absorbByte_inv (p : PolySt) (hi : PInv p) (c : UInt8) : PInv (absorbByte p c) := by
  have hf := hi.fil
  have hb := hi.blk
  unfold absorbByte
  by_cases h15 : p.filled = 15
  · rw [if_pos h15]
    exact ⟨by rw [Stream.length_putAt _ _ _ (by simp only [List.length_cons, List.length_nil]; omega)]; exact hb,
      by simp only []; omega, hi.len⟩
  · rw [if_neg h15]
    exact ⟨by rw [Stream.length_putAt _ _ _ (by simp only [List.length_cons, List.length_nil]; omega)]; exact hb,
      by simp only []; omega, hi.len⟩

/-- `absorb(c :: buf)` = `absorb([c]); absorb(buf)`: exactly the same state, scratch octets included -/
theorem absorb16_cons (p : PolySt) (hi : PInv p) (c : UInt8) (buf : Bytes) :
    absorb16 p (c :: buf) = absorb16 (absorbByte p c) buf := by
  have hf := hi.fil
  have hb := hi.blk
  by_cases h0 : p.filled = 0
  · -- no pending octets
    have hab : absorbByte p c = { p with block := putAt p.block 0 [c], filled := 1 } := by
      unfold absorbByte
      rw [if_neg (by omega), h0]
    rw [absorb16_zero p _ h0, hab]
    by_cases hs : buf.length + 1 < 16
    · rw [polyTail_short p _ _ (c :: buf) (by simp only [List.length_cons]; omega)
        (by simpa only [List.length_cons] using hs)]
      rw [absorb16_short _ buf ⟨by simp only []; omega, by simp only []; omega⟩]
      refine polySt_ext _ _ rfl rfl rfl rfl ?_ ?_
      · exact (putAt_putAt p.block buf 0 c (Nat.zero_le _)).symm
      · simp only [List.length_cons]; omega
    · rw [polyTail_ge p _ _ (c :: buf) (by simp only [List.length_cons]; omega)]
      rw [absorb16_fill _ buf (by simp only []; omega) (by simp only []; omega)]
      have ht : (c :: buf).take 16 = c :: buf.take 15 := by simp only [List.take_succ_cons]
      have hd : (c :: buf).drop 16 = buf.drop 15 := by simp only [List.drop_succ_cons]
      have hpp : putAt (putAt p.block 0 [c]) 1 (buf.take 15) = c :: buf.take 15 := by
        rw [putAt_putAt p.block (buf.take 15) 0 c (Nat.zero_le _)]
        exact putAt_full _ _ (by simp only [List.length_cons, List.length_take]; omega)
      rw [ht, hd]
      show _ = polyTail _ (polyStep p.r p.t (putAt (putAt p.block 0 [c]) 1 (buf.take 15)))
        (putAt (putAt p.block 0 [c]) 1 (buf.take 15)) (buf.drop 15)
      rw [hpp]
      exact (polyTail_congr p _ rfl rfl rfl _ _ _).symm
  · by_cases h15 : p.filled = 15
    · -- the octet completes the pending block
      have hab : absorbByte p c =
          { p with t := polyStep p.r p.t (putAt p.block 15 [c]), block := putAt p.block 15 [c], filled := 0 } := by
        unfold absorbByte
        rw [if_pos h15]
      rw [absorb16_fill p (c :: buf) h0 (by simp only [List.length_cons]; omega), hab, absorb16_zero _ buf rfl]
      have h1 : 16 - p.filled = 1 := by omega
      rw [h1, h15]
      show polyTail p _ _ buf = polyTail _ (polyStep p.r p.t (putAt p.block 15 [c])) (putAt p.block 15 [c]) buf
      exact (polyTail_congr p _ rfl rfl rfl _ _ _).symm
    · have hab : absorbByte p c = { p with block := putAt p.block p.filled [c], filled := p.filled + 1 } := by
        unfold absorbByte
        rw [if_neg h15]
      rw [hab]
      by_cases hs : buf.length + 1 < 16 - p.filled
      · -- still not a whole block
        rw [absorb16_short p (c :: buf) ⟨h0, by simpa only [List.length_cons] using hs⟩]
        rw [absorb16_short _ buf ⟨by simp only []; omega, by simp only []; omega⟩]
        refine polySt_ext _ _ rfl rfl rfl rfl ?_ ?_
        · exact (putAt_putAt p.block buf p.filled c (by omega)).symm
        · simp only [List.length_cons]; omega
      · rw [absorb16_fill p (c :: buf) h0 (by simpa only [List.length_cons] using hs)]
        rw [absorb16_fill _ buf (by simp only []; omega) (by simp only []; omega)]
        have hk : 16 - p.filled = (15 - p.filled) + 1 := by omega
        have hk' : 16 - (p.filled + 1) = 15 - p.filled := by omega
        have ht : (c :: buf).take (16 - p.filled) = c :: buf.take (15 - p.filled) := by
          rw [hk]; simp only [List.take_succ_cons]
        have hd : (c :: buf).drop (16 - p.filled) = buf.drop (15 - p.filled) := by
          rw [hk]; simp only [List.drop_succ_cons]
        rw [ht, hd]
        show _ = polyTail _ (polyStep p.r p.t (putAt (putAt p.block p.filled [c]) (p.filled + 1)
            (buf.take (16 - (p.filled + 1)))))
          (putAt (putAt p.block p.filled [c]) (p.filled + 1) (buf.take (16 - (p.filled + 1))))
          (buf.drop (16 - (p.filled + 1)))
        rw [hk', putAt_putAt p.block _ p.filled c (by omega)]
        exact (polyTail_congr p _ rfl rfl rfl _ _ _).symm

/-- the C buffering code is the octet-serial machine -/
theorem absorb16_foldl (buf : Bytes) : ∀ (p : PolySt), PInv p → absorb16 p buf = buf.foldl absorbByte p := by
  induction buf with
  | nil => intro p hi; exact absorb16_nil p hi
  | cons c buf ih =>
    intro p hi
    rw [absorb16_cons p hi, ih _ (absorbByte_inv p hi c)]
    rfl

theorem foldl_absorbByte_inv (buf : Bytes) : ∀ (p : PolySt), PInv p → PInv (buf.foldl absorbByte p) := by
  induction buf with
  | nil => intro p hi; exact hi
  | cons c buf ih => intro p hi; exact ih _ (absorbByte_inv p hi c)

theorem absorb16_inv (p : PolySt) (hi : PInv p) (buf : Bytes) : PInv (absorb16 p buf) := by
  rw [absorb16_foldl buf p hi]; exact foldl_absorbByte_inv buf p hi

/-- TWO-FRAGMENT SPLIT of the buffering scheme -/
theorem absorb16_append (p : PolySt) (hi : PInv p) (a b : Bytes) :
    absorb16 p (a ++ b) = absorb16 (absorb16 p a) b := by
  rw [absorb16_foldl (a ++ b) p hi, absorb16_foldl b _ (absorb16_inv p hi a), absorb16_foldl a p hi, List.foldl_append]

/-! ### equality of accumulators up to the scratch octets -/

/-- `p` and `q` agree on everything later calls read: `r`, `t`, the length block, `filled` and the pending octets
`block[0 .. filled)`.  NOT compared: `t1` (output scratch of StepG) and `block[filled .. 16)` (StepG writes the
zero padding there, StepI/StepA overwrite these octets before reading them). -/
structure PEq (p q : PolySt) : Prop where
  ip : PInv p
  iq : PInv q
  r : p.r = q.r
  t : p.t = q.t
  len : p.len = q.len
  fil : p.filled = q.filled
  pend : p.block.take p.filled = q.block.take q.filled

theorem PEq.refl (p : PolySt) (hi : PInv p) : PEq p p := ⟨hi, hi, rfl, rfl, rfl, rfl, rfl⟩
theorem PEq.symm {p q : PolySt} (h : PEq p q) : PEq q p := ⟨h.iq, h.ip, h.r.symm, h.t.symm, h.len.symm, h.fil.symm, h.pend.symm⟩
theorem PEq.trans {p q u : PolySt} (h : PEq p q) (h' : PEq q u) : PEq p u :=
  ⟨h.ip, h'.iq, h.r.trans h'.r, h.t.trans h'.t, h.len.trans h'.len, h.fil.trans h'.fil, h.pend.trans h'.pend⟩

theorem putAt_last (b : Bytes) (c : UInt8) (h : b.length = 16) : putAt b 15 [c] = b.take 15 ++ [c] := by
  simp only [putAt, List.length_cons, List.length_nil, Nat.zero_add]
  rw [List.drop_eq_nil_of_le (by omega), List.append_nil]

theorem absorbByte_congr {p q : PolySt} (h : PEq p q) (c : UInt8) : PEq (absorbByte p c) (absorbByte q c) := by
  have ip := absorbByte_inv p h.ip c
  have iq := absorbByte_inv q h.iq c
  have hpend := h.pend
  by_cases h15 : p.filled = 15
  · have h15' : q.filled = 15 := by rw [← h.fil]; exact h15
    have ep : absorbByte p c = { p with t := polyStep p.r p.t (putAt p.block 15 [c]), block := putAt p.block 15 [c], filled := 0 } := by
      unfold absorbByte; rw [if_pos h15]
    have eq : absorbByte q c = { q with t := polyStep q.r q.t (putAt q.block 15 [c]), block := putAt q.block 15 [c], filled := 0 } := by
      unfold absorbByte; rw [if_pos h15']
    rw [h15, h15'] at hpend
    have eb : putAt p.block 15 [c] = putAt q.block 15 [c] := by
      rw [putAt_last _ _ h.ip.blk, putAt_last _ _ h.iq.blk, hpend]
    refine ⟨ip, iq, ?_, ?_, ?_, ?_, ?_⟩
    · rw [ep, eq]; exact h.r
    · rw [ep, eq]; show polyStep p.r p.t _ = polyStep q.r q.t _; rw [h.r, h.t, eb]
    · rw [ep, eq]; exact h.len
    · rw [ep, eq]
    · rw [ep, eq]; rfl
  · have h15' : ¬ q.filled = 15 := by rw [← h.fil]; exact h15
    have ep : absorbByte p c = { p with block := putAt p.block p.filled [c], filled := p.filled + 1 } := by
      unfold absorbByte; rw [if_neg h15]
    have eq : absorbByte q c = { q with block := putAt q.block q.filled [c], filled := q.filled + 1 } := by
      unfold absorbByte; rw [if_neg h15']
    have e1 := C01.chunk_take_putAt p.block [c] p.filled (by have := h.ip.blk; have := h.ip.fil; omega)
    have e2 := C01.chunk_take_putAt q.block [c] q.filled (by have := h.iq.blk; have := h.iq.fil; omega)
    simp only [List.length_cons, List.length_nil, Nat.zero_add] at e1 e2
    refine ⟨ip, iq, ?_, ?_, ?_, ?_, ?_⟩
    · rw [ep, eq]; exact h.r
    · rw [ep, eq]; exact h.t
    · rw [ep, eq]; exact h.len
    · rw [ep, eq]; show p.filled + 1 = q.filled + 1; rw [h.fil]
    · rw [ep, eq]
      show (putAt p.block p.filled [c]).take (p.filled + 1) = (putAt q.block q.filled [c]).take (q.filled + 1)
      rw [e1, e2, hpend]

theorem foldl_absorbByte_congr (buf : Bytes) : ∀ {p q : PolySt}, PEq p q →
    PEq (buf.foldl absorbByte p) (buf.foldl absorbByte q) := by
  induction buf with
  | nil => intro p q h; exact h
  | cons c buf ih => intro p q h; exact ih (absorbByte_congr h c)

theorem absorb16_congr {p q : PolySt} (h : PEq p q) (buf : Bytes) : PEq (absorb16 p buf) (absorb16 q buf) := by
  rw [absorb16_foldl buf p h.ip, absorb16_foldl buf q h.iq]
  exact foldl_absorbByte_congr buf h

/-! ### the length block -/

/-- new length block after `n` more octets of open data (`beltHalfBlockAddBitSizeW(st->len, n)`, 64-bit words) -/
def lenI (len : Bytes) (n : Nat) : Bytes := addBitSizeW 64 (len.take 8) n ++ len.drop 8
/-- ... of critical data (`beltHalfBlockAddBitSizeW(st->len + W_OF_B(64), n)`) -/
def lenA (len : Bytes) (n : Nat) : Bytes := len.take 8 ++ addBitSizeW 64 (len.drop 8) n

theorem addW_eq (h : Bytes) (n : Nat) :
    addBitSizeW 64 h n = natLE 8 ((leNat h + (n % 2 ^ 64) * 8 % 2 ^ 64) % 2 ^ 64) := rfl

theorem pow256_8 : (256 : Nat) ^ 8 = 2 ^ 64 := by decide

theorem addW_add (h : Bytes) (a b : Nat) : addBitSizeW 64 (addBitSizeW 64 h a) b = addBitSizeW 64 h (a + b) := by
  rw [addW_eq, addW_eq, addW_eq, C01.Aead.leNat_natLE, pow256_8]
  congr 1
  omega

theorem addW_zero (h : Bytes) (hl : h.length = 8) : addBitSizeW 64 h 0 = h := by
  have hlt := C01.Aead.leNat_lt h
  rw [hl, pow256_8] at hlt
  rw [addW_eq]
  have : (leNat h + 0 % 2 ^ 64 * 8 % 2 ^ 64) % 2 ^ 64 = leNat h := by omega
  rw [this, ← hl]
  exact C01.Aead.natLE_leNat h

theorem length_lenI (len : Bytes) (n : Nat) (hl : len.length = 16) : (lenI len n).length = 16 := by
  simp only [lenI, List.length_append, C01.Aead.length_addBitSizeW, List.length_drop, hl]

theorem length_lenA (len : Bytes) (n : Nat) (hl : len.length = 16) : (lenA len n).length = 16 := by
  simp only [lenA, List.length_append, C01.Aead.length_addBitSizeW, List.length_take, hl]
  omega

theorem lenI_zero (len : Bytes) (hl : len.length = 16) : lenI len 0 = len := by
  rw [lenI, addW_zero _ (by simp only [List.length_take, hl]; omega), List.take_append_drop]

theorem lenA_zero (len : Bytes) (hl : len.length = 16) : lenA len 0 = len := by
  rw [lenA, addW_zero _ (by simp only [List.length_drop, hl]), List.take_append_drop]

theorem lenI_add (len : Bytes) (a b : Nat) (_hl : len.length = 16) : lenI (lenI len a) b = lenI len (a + b) := by
  have h8 : (addBitSizeW 64 (len.take 8) a).length = 8 := C01.Aead.length_addBitSizeW _ _ _
  simp only [lenI]
  rw [List.take_left' h8, List.drop_left' h8, addW_add]

theorem lenA_add (len : Bytes) (a b : Nat) (hl : len.length = 16) : lenA (lenA len a) b = lenA len (a + b) := by
  have h8 : (len.take 8).length = 8 := by simp only [List.length_take, hl]; omega
  simp only [lenA]
  rw [List.take_left' h8, List.drop_left' h8, addW_add]

theorem lenI_drop (len : Bytes) (n : Nat) : (lenI len n).drop 8 = len.drop 8 := by
  rw [lenI, List.drop_left' (C01.Aead.length_addBitSizeW _ _ _)]

theorem lenA_drop (len : Bytes) (n : Nat) (hl : len.length = 16) :
    (lenA len n).drop 8 = addBitSizeW 64 (len.drop 8) n := by
  rw [lenA, List.drop_left' (by simp only [List.length_take, hl]; omega)]

/-! ### StepI / StepA / StepG on the accumulator -/

theorem polyStepI_def (p : PolySt) (buf : Bytes) :
    polyStepI 64 p buf = absorb16 { p with len := lenI p.len buf.length } buf := rfl

/-- the flush of a pending open-data block by the first non-empty fragment of critical data -/
def flushA (p : PolySt) (n : Nat) : PolySt :=
  if n ≠ 0 ∧ p.len.drop 8 = zeros 8 ∧ p.filled ≠ 0 then
    { p with block := p.block.take p.filled ++ zeros (16 - p.filled),
             t := polyStep p.r p.t (p.block.take p.filled ++ zeros (16 - p.filled)), filled := 0 }
  else p

theorem polyStepA_def (p : PolySt) (buf : Bytes) :
    polyStepA 64 p buf =
      absorb16 { flushA p buf.length with len := lenA (flushA p buf.length).len buf.length } buf := rfl

theorem absorb16_setLen (p : PolySt) (X buf : Bytes) :
    absorb16 { p with len := X } buf = { absorb16 p buf with len := X } := by
  unfold absorb16
  dsimp only
  by_cases h1 : p.filled ≠ 0 ∧ buf.length < 16 - p.filled
  · rw [if_pos h1, if_pos h1]
  · rw [if_neg h1, if_neg h1]
    generalize C01.fullBlocks 16 _ _ _ = l
    by_cases h2 : l.2.2.length ≠ 0
    · rw [if_pos h2, if_pos h2]
    · rw [if_neg h2, if_neg h2]

theorem setLen_inv {p : PolySt} (hi : PInv p) (X : Bytes) (hX : X.length = 16) : PInv { p with len := X } :=
  ⟨hi.blk, hi.fil, hX⟩

theorem setLen_congr {p q : PolySt} (h : PEq p q) (X : Bytes) (hX : X.length = 16) :
    PEq { p with len := X } { q with len := X } :=
  ⟨setLen_inv h.ip X hX, setLen_inv h.iq X hX, h.r, h.t, rfl, h.fil, h.pend⟩

theorem flushA_len (p : PolySt) (n : Nat) : (flushA p n).len = p.len := by
  unfold flushA; split <;> rfl

theorem length_take_zeros (b : Bytes) (f : Nat) (hb : b.length = 16) (hf : f < 16) :
    (b.take f ++ zeros (16 - f)).length = 16 := by
  simp only [List.length_append, List.length_take, zeros, List.length_replicate, hb]; omega

theorem flushA_inv {p : PolySt} (hi : PInv p) (n : Nat) : PInv (flushA p n) := by
  unfold flushA
  split
  · exact ⟨length_take_zeros _ _ hi.blk hi.fil, by simp only []; omega, hi.len⟩
  · exact hi

theorem flushA_congr {p q : PolySt} (h : PEq p q) (n : Nat) : PEq (flushA p n) (flushA q n) := by
  have ip := flushA_inv h.ip n
  have iq := flushA_inv h.iq n
  unfold flushA at ip iq ⊢
  by_cases hc : n ≠ 0 ∧ p.len.drop 8 = zeros 8 ∧ p.filled ≠ 0
  · have hc' : n ≠ 0 ∧ q.len.drop 8 = zeros 8 ∧ q.filled ≠ 0 := by rw [← h.len, ← h.fil]; exact hc
    rw [if_pos hc] at ip ⊢
    rw [if_pos hc'] at iq ⊢
    have eb : p.block.take p.filled ++ zeros (16 - p.filled) = q.block.take q.filled ++ zeros (16 - q.filled) := by
      rw [h.pend, h.fil]
    exact ⟨ip, iq, h.r, by show polyStep p.r p.t _ = polyStep q.r q.t _; rw [h.r, h.t, eb], h.len, rfl, rfl⟩
  · have hc' : ¬ (n ≠ 0 ∧ q.len.drop 8 = zeros 8 ∧ q.filled ≠ 0) := by rw [← h.len, ← h.fil]; exact hc
    rw [if_neg hc, if_neg hc']
    exact h

theorem polyStepI_inv {p : PolySt} (hi : PInv p) (buf : Bytes) : PInv (polyStepI 64 p buf) := by
  rw [polyStepI_def]
  exact absorb16_inv _ (setLen_inv hi _ (length_lenI _ _ hi.len)) buf

theorem polyStepA_inv {p : PolySt} (hi : PInv p) (buf : Bytes) : PInv (polyStepA 64 p buf) := by
  rw [polyStepA_def]
  have h1 := flushA_inv hi buf.length
  exact absorb16_inv _ (setLen_inv h1 _ (length_lenA _ _ h1.len)) buf

/-- StepI respects equality up to scratch -/
theorem polyStepI_congr {p q : PolySt} (h : PEq p q) (buf : Bytes) :
    PEq (polyStepI 64 p buf) (polyStepI 64 q buf) := by
  rw [polyStepI_def, polyStepI_def, h.len]
  exact absorb16_congr (setLen_congr h _ (length_lenI _ _ h.iq.len)) buf

/-- StepA respects equality up to scratch -/
theorem polyStepA_congr {p q : PolySt} (h : PEq p q) (buf : Bytes) :
    PEq (polyStepA 64 p buf) (polyStepA 64 q buf) := by
  rw [polyStepA_def, polyStepA_def]
  have h1 := flushA_congr h buf.length
  rw [h1.len]
  exact absorb16_congr (setLen_congr h1 _ (length_lenA _ _ h1.iq.len)) buf

/-- the block that StepG encrypts depends only on what `PEq` compares -/
theorem polyFinish_congr {p q : PolySt} (h : PEq p q) : (polyFinish p).2 = (polyFinish q).2 := by
  unfold polyFinish
  by_cases hf : p.filled ≠ 0
  · have hf' : q.filled ≠ 0 := by rw [← h.fil]; exact hf
    simp only [if_pos hf, if_pos hf']
    rw [h.r, h.t, h.len, h.pend, h.fil]
  · have hf' : ¬ q.filled ≠ 0 := by rw [← h.fil]; exact hf
    simp only [if_neg hf, if_neg hf']
    rw [h.r, h.t, h.len]

/-- StepG_internal changes scratch only -/
theorem polyFinish_peq {p : PolySt} (hi : PInv p) (x : Bytes) : PEq { (polyFinish p).1 with t1 := x } p := by
  unfold polyFinish
  by_cases hf : p.filled ≠ 0
  · simp only [if_pos hf]
    have hl : (p.block.take p.filled).length = p.filled := by
      simp only [List.length_take, hi.blk]; have := hi.fil; omega
    exact ⟨⟨length_take_zeros _ _ hi.blk hi.fil, hi.fil, hi.len⟩, hi, rfl, rfl, rfl, rfl,
      List.take_left' hl⟩
  · simp only [if_neg hf]
    exact ⟨⟨hi.blk, hi.fil, hi.len⟩, hi, rfl, rfl, rfl, rfl, rfl⟩

theorem polyStepI_nil {p : PolySt} (hi : PInv p) : polyStepI 64 p [] = p := by
  rw [polyStepI_def, List.length_nil, lenI_zero _ hi.len]
  exact absorb16_nil p hi

theorem polyStepA_nil {p : PolySt} (hi : PInv p) : polyStepA 64 p [] = p := by
  have hfl : flushA p 0 = p := by unfold flushA; rw [if_neg (fun h => h.1 rfl)]
  rw [polyStepA_def, List.length_nil, hfl, lenA_zero _ hi.len]
  exact absorb16_nil p hi

/-- open data in two fragments = open data in one fragment (exact equality of states) -/
theorem polyStepI_append {p : PolySt} (hi : PInv p) (a b : Bytes) :
    polyStepI 64 (polyStepI 64 p a) b = polyStepI 64 p (a ++ b) := by
  rw [polyStepI_def (polyStepI 64 p a) b, polyStepI_def p a, polyStepI_def p (a ++ b)]
  rw [absorb16_setLen p, absorb16_setLen p]
  dsimp only
  rw [← absorb16_setLen, lenI_add _ _ _ hi.len, List.length_append]
  exact (absorb16_append _ (setLen_inv hi _ (length_lenI _ _ hi.len)) a b).symm


theorem flushA_pos (p : PolySt) (n m : Nat) (hn : n ≠ 0) (hm : m ≠ 0) : flushA p n = flushA p m := by
  unfold flushA
  by_cases hc : p.len.drop 8 = zeros 8 ∧ p.filled ≠ 0
  · rw [if_pos ⟨hn, hc⟩, if_pos ⟨hm, hc⟩]
  · rw [if_neg (fun h => hc h.2), if_neg (fun h => hc h.2)]

theorem flushA_neg (p : PolySt) (n : Nat) (h : p.len.drop 8 ≠ zeros 8) : flushA p n = p := by
  unfold flushA
  rw [if_neg (fun h' => h h'.2.1)]

theorem absorbByte_filled (p : PolySt) (hi : PInv p) (c : UInt8) :
    (absorbByte p c).filled = (p.filled + 1) % 16 := by
  have hf := hi.fil
  unfold absorbByte
  by_cases h15 : p.filled = 15
  · rw [if_pos h15, h15]
  · rw [if_neg h15]; show p.filled + 1 = _; omega

theorem foldl_absorbByte_filled (buf : Bytes) : ∀ (p : PolySt), PInv p →
    (buf.foldl absorbByte p).filled = (p.filled + buf.length) % 16 := by
  induction buf with
  | nil => intro p hi; have := hi.fil; show p.filled = _; simp only [List.length_nil]; omega
  | cons c buf ih =>
    intro p hi
    rw [List.foldl_cons, ih _ (absorbByte_inv p hi c), absorbByte_filled p hi, List.length_cons]
    omega

/-- the fill level after a call: octets absorbed so far modulo the block size -/
theorem absorb16_filled (p : PolySt) (hi : PInv p) (buf : Bytes) :
    (absorb16 p buf).filled = (p.filled + buf.length) % 16 := by
  rw [absorb16_foldl buf p hi]; exact foldl_absorbByte_filled buf p hi

theorem flushA_fil0 (p : PolySt) (n : Nat) (h : p.filled = 0) : flushA p n = p := by
  unfold flushA
  rw [if_neg (fun h' => h'.2.2 h)]

/-- after the first non-empty critical fragment nothing of the open data is pending -/
theorem flushA_filled (p : PolySt) (n : Nat) (hn : n ≠ 0) (hz : p.len.drop 8 = zeros 8) : (flushA p n).filled = 0 := by
  unfold flushA
  by_cases hf : p.filled ≠ 0
  · rw [if_pos ⟨hn, hz, hf⟩]
  · rw [if_neg (fun h' => hf h'.2.2)]; omega

/-- a zero bit counter after `n` octets means `n` is a multiple of 2^61, hence of the block size -/
theorem addW_eq_zero (n : Nat) (h : addBitSizeW 64 (zeros 8) n = zeros 8) : n % 16 = 0 := by
  have h' := congrArg leNat h
  rw [addW_eq, C01.Aead.leNat_natLE, pow256_8] at h'
  have hz : leNat (zeros 8) = 0 := by decide
  rw [hz] at h'
  omega

/-- critical data in two fragments = critical data in one fragment (exact equality of states), from every state
whose critical-data counter is zero (no critical data yet).  NO bound on the lengths: the 64-bit bit counter of the
critical data can return to zero only after a multiple of 2^61 octets, i.e. of whole blocks, and then no octets
are pending, so StepA's "first critical fragment?" test cannot flush a second time. -/
theorem polyStepA_append {p : PolySt} (hi : PInv p) (hz : p.len.drop 8 = zeros 8) (a b : Bytes) :
    polyStepA 64 (polyStepA 64 p a) b = polyStepA 64 p (a ++ b) := by
  by_cases ha : a.length = 0
  · have : a = [] := List.eq_nil_of_length_eq_zero ha
    subst this
    rw [polyStepA_nil hi, List.nil_append]
  · have hfe : flushA p (a ++ b).length = flushA p a.length :=
      flushA_pos p _ _ (by simp only [List.length_append]; omega) ha
    have h1 := flushA_inv hi a.length
    have hq : polyStepA 64 p a = absorb16 { flushA p a.length with len := lenA p.len a.length } a := by
      rw [polyStepA_def, flushA_len]
    have hqlen : (polyStepA 64 p a).len = lenA p.len a.length := by
      rw [hq, C01.Aead.absorb16_len]
    have hqfil : (polyStepA 64 p a).filled = a.length % 16 := by
      rw [hq, absorb16_filled _ (setLen_inv h1 _ (length_lenA _ _ hi.len))]
      show ((flushA p a.length).filled + a.length) % 16 = _
      rw [flushA_filled p _ ha hz, Nat.zero_add]
    have hfl : flushA (polyStepA 64 p a) b.length = polyStepA 64 p a := by
      by_cases hc : (polyStepA 64 p a).len.drop 8 = zeros 8
      · apply flushA_fil0
        rw [hqlen, lenA_drop _ _ hi.len, hz] at hc
        rw [hqfil]
        exact addW_eq_zero _ hc
      · exact flushA_neg _ _ hc
    rw [polyStepA_def (polyStepA 64 p a) b, hfl, hqlen, lenA_add _ _ _ hi.len, hq,
      absorb16_setLen (flushA p a.length)]
    dsimp only
    rw [← absorb16_setLen, polyStepA_def p (a ++ b), hfe, flushA_len, List.length_append]
    exact (absorb16_append _ (setLen_inv h1 _ (length_lenA _ _ hi.len)) a b).symm

/-! ### the accumulator as a function of the absorbed data -/

/-- the accumulator after open data `I` and critical data `A`, each absorbed by ONE call -/
def polySpec (p0 : PolySt) (I A : Bytes) : PolySt := polyStepA 64 (polyStepI 64 p0 I) A

theorem polyStepI_lenDrop (p : PolySt) (buf : Bytes) : (polyStepI 64 p buf).len.drop 8 = p.len.drop 8 := by
  rw [polyStepI_def, C01.Aead.absorb16_len]
  exact lenI_drop _ _

/-- StepI on a state that stands for `(I, A)`: allowed when the fragment is empty or no critical data yet -/
theorem polySpec_stepI {p p0 : PolySt} (h0 : PInv p0) (I A d : Bytes) (h : PEq p (polySpec p0 I A))
    (hadm : d = [] ∨ A = []) : PEq (polyStepI 64 p d) (polySpec p0 (I ++ d) A) := by
  rcases hadm with hd | hA
  · subst hd
    rw [polyStepI_nil h.ip, List.append_nil]
    exact h
  · subst hA
    have e : polySpec p0 (I ++ d) [] = polyStepI 64 (polySpec p0 I []) d := by
      unfold polySpec
      rw [polyStepA_nil (polyStepI_inv h0 _), polyStepA_nil (polyStepI_inv h0 _), polyStepI_append h0]
    rw [e]
    exact polyStepI_congr h d

/-- StepA on a state that stands for `(I, A)`: always allowed -/
theorem polySpec_stepA {p p0 : PolySt} (h0 : PInv p0) (hz : p0.len.drop 8 = zeros 8) (I A d : Bytes)
    (h : PEq p (polySpec p0 I A)) : PEq (polyStepA 64 p d) (polySpec p0 I (A ++ d)) := by
  have e : polySpec p0 I (A ++ d) = polyStepA 64 (polySpec p0 I A) d := by
    unfold polySpec
    rw [polyStepA_append (polyStepI_inv h0 I) (by rw [polyStepI_lenDrop]; exact hz) A d]
  rw [e]
  exact polyStepA_congr h d

/-! ### sessions of an AEAD bundle: vocabulary -/

/-- what a DWP / CHE session has absorbed so far -/
structure Absorbed where
  I : Bytes      -- open data (StepI)
  A : Bytes      -- critical data (StepA)
  X : Bytes      -- data passed through StepE / StepD
  deriving DecidableEq, Repr

/-- the effect of a call on what has been absorbed (Get / Verify: none) -/
def absNext (a : Absorbed) : AeadOp → Absorbed
  | .ad d => { a with I := a.I ++ d }
  | .auth d => { a with A := a.A ++ d }
  | .encr d => { a with X := a.X ++ d }
  | .decr d => { a with X := a.X ++ d }
  | .get => a
  | .verify _ => a

/-- what a whole session absorbs -/
def absRun (a : Absorbed) : List (Call AeadOp) → Absorbed
  | [] => a
  | .reloc :: s => absRun a s
  | .op o :: s => absRun (absNext a o) s

/-- belt.h on `beltDWPStepI` / `beltCHEStepI`: open data must be processed before critical data — the ASSERT
`count == 0 || beltHalfBlockIsZero(st->len + W_OF_B(64))`: no NON-EMPTY StepI fragment after a non-empty StepA
fragment.  Nothing else is required (in particular no bound on the lengths: the bit counters are 64-bit words that
wrap, in the fragmented session exactly as in the one-call computation, see `polyStepA_append`). -/
def admOp (A : Bytes) : AeadOp → Bool
  | .ad d => d.isEmpty || A.isEmpty
  | _ => true

/-- admissible continuation of a session that has absorbed `a` -/
def admFrom (a : Absorbed) : List (Call AeadOp) → Bool
  | [] => true
  | .reloc :: s => admFrom a s
  | .op o :: s => admOp a.A o && admFrom (absNext a o) s

/-- admissible session (from Start): StepE / StepD / StepG / StepV / relocation anywhere, StepI / StepA in the
order belt.h prescribes -/
def Admissible (s : List (Call AeadOp)) : Prop := admFrom ⟨[], [], []⟩ s = true

instance (s : List (Call AeadOp)) : Decidable (Admissible s) := inferInstanceAs (Decidable (_ = true))

theorem admFrom_append (s t : List (Call AeadOp)) : ∀ a : Absorbed,
    admFrom a (s ++ t) = (admFrom a s && admFrom (absRun a s) t) := by
  induction s with
  | nil => intro a; rfl
  | cons c s ih =>
    intro a
    cases c with
    | reloc => exact ih a
    | op o => simp only [List.cons_append, admFrom, absRun, ih, Bool.and_assoc]

theorem absRun_append (s t : List (Call AeadOp)) : ∀ a : Absorbed, absRun a (s ++ t) = absRun (absRun a s) t := by
  induction s with
  | nil => intro a; rfl
  | cons c s ih =>
    intro a
    cases c with
    | reloc => exact ih a
    | op o => exact ih _

/-- the encr/decr outputs of a session, concatenated (the outputs of Get are data too, so `dataOf` is not it) -/
def cryptData : List (Call AeadOp) → List Out → Bytes
  | .op (.encr _) :: s, .data b :: o => b ++ cryptData s o
  | .op (.decr _) :: s, .data b :: o => b ++ cryptData s o
  | _ :: s, _ :: o => cryptData s o
  | _, _ => []

/-! ### DWP -/

/-- the tag of open data `I` and critical data `A`, each absorbed by ONE call (what `beltDWPWrap` computes) -/
def dwpTagOf (C : Cipher) (key iv I A : Bytes) : Bytes :=
  (dwpStepG C (dwpStepA wBits (dwpStepI wBits (dwpStart C key iv) I) A)).2

/-- the SPECIFICATION machine of DWP: the state is what has been absorbed; Get and Verify return functions of
`(I, A)` alone and change nothing; StepE / StepD return the slice `[|X|, |X| + |d|)` of the ONE-CALL key-stream
application to `X ++ d` -/
def dwpSpecB (C : Cipher) (key iv : Bytes) : Bundle Absorbed AeadOp :=
  { step := fun a op => (absNext a op, match op with
      | .ad _ => Out.none
      | .auth _ => Out.none
      | .encr d => Out.data ((ctrStepE C (ctrStart C key iv) (a.X ++ d)).2.drop a.X.length)
      | .decr d => Out.data ((ctrStepE C (ctrStart C key iv) (a.X ++ d)).2.drop a.X.length)
      | .get => Out.data (dwpTagOf C key iv a.I a.A)
      | .verify t => Out.verdict (decide (t = dwpTagOf C key iv a.I a.A))),
    isGet := AeadOp.isGet }

theorem pinv_dwpStart (C : Cipher) (key iv : Bytes) : PInv (dwpStart C key iv).p :=
  ⟨rfl, Nat.zero_lt_succ _, rfl⟩

/-- equality of DWP states up to scratch -/
structure DwpEq (s a : DwpSt) : Prop where
  ctr : s.ctr = a.ctr
  p : PEq s.p a.p

/-- the abstract machine of the get-then-continue theorem: the bundle itself, except that Get / Verify leave
the state alone -/
def dwpObsStep (C : Cipher) (a : DwpSt) (op : AeadOp) : DwpSt × Out :=
  if op.isGet then (a, ((dwpB C).step a op).2) else (dwpB C).step a op

theorem dwpStepG_congr (C : Cipher) {s a : DwpSt} (h : DwpEq s a) :
    DwpEq (dwpStepGInternal C s) a ∧ (dwpStepGInternal C s).p.t1 = (dwpStepGInternal C a).p.t1 := by
  refine ⟨⟨h.ctr, (polyFinish_peq h.p.ip _).trans h.p⟩, ?_⟩
  show C.enc s.ctr.key (polyFinish s.p).2 = C.enc a.ctr.key (polyFinish a.p).2
  rw [h.ctr, polyFinish_congr h.p]

theorem dwpObs_step (C : Cipher) (s a : DwpSt) (op : AeadOp) (h : DwpEq s a) :
    DwpEq ((dwpB C).step s op).1 (dwpObsStep C a op).1 ∧ ((dwpB C).step s op).2 = (dwpObsStep C a op).2 := by
  cases op with
  | ad d => exact ⟨⟨h.ctr, polyStepI_congr h.p d⟩, rfl⟩
  | auth d => exact ⟨⟨h.ctr, polyStepA_congr h.p d⟩, rfl⟩
  | encr d =>
    refine ⟨⟨?_, h.p⟩, ?_⟩
    · show (ctrStepE C s.ctr d).1 = (ctrStepE C a.ctr d).1
      rw [h.ctr]
    · show Out.data (ctrStepE C s.ctr d).2 = Out.data (ctrStepE C a.ctr d).2
      rw [h.ctr]
  | decr d =>
    refine ⟨⟨?_, h.p⟩, ?_⟩
    · show (ctrStepE C s.ctr d).1 = (ctrStepE C a.ctr d).1
      rw [h.ctr]
    · show Out.data (ctrStepE C s.ctr d).2 = Out.data (ctrStepE C a.ctr d).2
      rw [h.ctr]
  | get =>
    have hg := dwpStepG_congr C h
    refine ⟨hg.1, ?_⟩
    show Out.data ((dwpStepGInternal C s).p.t1.take 8) = Out.data ((dwpStepGInternal C a).p.t1.take 8)
    rw [hg.2]
  | verify t =>
    have hg := dwpStepG_congr C h
    refine ⟨hg.1, ?_⟩
    show Out.verdict (decide (t = (dwpStepGInternal C s).p.t1.take 8)) =
      Out.verdict (decide (t = (dwpStepGInternal C a).p.t1.take 8))
    rw [hg.2]

theorem dwpObs_get (C : Cipher) (a : DwpSt) (g : AeadOp) (hg : (dwpB C).isGet g = true) :
    (dwpObsStep C a g).1 = a := by
  have : g.isGet = true := hg
  unfold dwpObsStep
  rw [if_pos this]

/-- the concrete DWP state stands for the absorbed data `a` -/
structure DwpRel (C : Cipher) (key iv : Bytes) (st : DwpSt) (a : Absorbed) : Prop where
  ctr : st.ctr = (ctrStepE C (ctrStart C key iv) a.X).1
  p : PEq st.p (polySpec (dwpStart C key iv).p a.I a.A)

theorem dwpRel_start (C : Cipher) (key iv : Bytes) : DwpRel C key iv (dwpStart C key iv) ⟨[], [], []⟩ := by
  have h0 := pinv_dwpStart C key iv
  refine ⟨?_, ?_⟩
  · rw [ctrStepE_nil]; rfl
  · show PEq _ (polyStepA 64 (polyStepI 64 _ []) [])
    rw [polyStepI_nil h0, polyStepA_nil h0]
    exact PEq.refl _ h0

theorem dwpRel_tag (C : Cipher) (key iv : Bytes) {st : DwpSt} {a : Absorbed} (h : DwpRel C key iv st a) :
    (dwpStepGInternal C st).p.t1.take 8 = dwpTagOf C key iv a.I a.A ∧
    DwpRel C key iv (dwpStepGInternal C st) a := by
  refine ⟨?_, ⟨h.ctr, (polyFinish_peq h.p.ip _).trans h.p⟩⟩
  show (C.enc st.ctr.key (polyFinish st.p).2).take 8 =
    (C.enc (ctrStart C key iv).key (polyFinish (polySpec (dwpStart C key iv).p a.I a.A)).2).take 8
  rw [h.ctr, C01.Aead.ctrStepE_key, polyFinish_congr h.p]

theorem dwpRel_crypt (C : Cipher) (hlen : ∀ k x, x.length = 16 → (C.enc k x).length = 16) (key iv : Bytes)
    (hiv : iv.length = 16) {st : DwpSt} {a : Absorbed} (h : DwpRel C key iv st a) (d : Bytes) :
    (ctrStepE C st.ctr d).2 = (ctrStepE C (ctrStart C key iv) (a.X ++ d)).2.drop a.X.length ∧
    (ctrStepE C st.ctr d).1 = (ctrStepE C (ctrStart C key iv) (a.X ++ d)).1 := by
  have hi := ctrInv_start C hlen key iv hiv
  have hl := C01.Aead.length_ctrStepE C hlen (ctrStart C key iv) a.X hi.res hi.blk hi.ctr
  rw [ctrStepE_append C hlen _ hi a.X d, ← h.ctr]
  exact ⟨(List.drop_left' hl).symm, rfl⟩

/-- one call: the relation is kept and the output is the one of the specification machine -/
theorem dwpSim_step (C : Cipher) (hlen : ∀ k x, x.length = 16 → (C.enc k x).length = 16) (key iv : Bytes)
    (hiv : iv.length = 16) (st : DwpSt) (a : Absorbed) (op : AeadOp) (h : DwpRel C key iv st a)
    (hadm : admOp a.A op = true) :
    DwpRel C key iv ((dwpB C).step st op).1 (absNext a op) ∧
    ((dwpB C).step st op).2 = ((dwpSpecB C key iv).step a op).2 := by
  have h0 := pinv_dwpStart C key iv
  cases op with
  | ad d =>
    refine ⟨⟨h.ctr, ?_⟩, rfl⟩
    have : d = [] ∨ a.A = [] := by
      simp only [admOp, Bool.or_eq_true, List.isEmpty_iff] at hadm
      exact hadm
    exact polySpec_stepI h0 a.I a.A d h.p this
  | auth d =>
    refine ⟨⟨h.ctr, ?_⟩, rfl⟩
    exact polySpec_stepA h0 rfl a.I a.A d h.p
  | encr d =>
    have hc := dwpRel_crypt C hlen key iv hiv h d
    refine ⟨⟨hc.2, h.p⟩, ?_⟩
    show Out.data (ctrStepE C st.ctr d).2 = Out.data _
    rw [hc.1]
  | decr d =>
    have hc := dwpRel_crypt C hlen key iv hiv h d
    refine ⟨⟨hc.2, h.p⟩, ?_⟩
    show Out.data (ctrStepE C st.ctr d).2 = Out.data _
    rw [hc.1]
  | get =>
    have hg := dwpRel_tag C key iv h
    refine ⟨hg.2, ?_⟩
    show Out.data ((dwpStepGInternal C st).p.t1.take 8) = Out.data _
    rw [hg.1]
  | verify t =>
    have hg := dwpRel_tag C key iv h
    refine ⟨hg.2, ?_⟩
    show Out.verdict (decide (t = (dwpStepGInternal C st).p.t1.take 8)) = Out.verdict _
    rw [hg.1]

theorem after_spec (B : Bundle Absorbed AeadOp) (hB : ∀ a op, (B.step a op).1 = absNext a op)
    (s : List (Call AeadOp)) : ∀ a, after B a s = absRun a s := by
  induction s with
  | nil => intro a; rfl
  | cons c s ih =>
    intro a
    cases c with
    | reloc => exact ih a
    | op o =>
      show after B (B.step a o).1 s = absRun (absNext a o) s
      rw [hB, ih]

/-- SIMULATION: along every admissible session the implementation returns what the specification machine returns,
and its state keeps standing for the absorbed data -/
theorem dwpSim_run (C : Cipher) (hlen : ∀ k x, x.length = 16 → (C.enc k x).length = 16) (key iv : Bytes)
    (hiv : iv.length = 16) (s : List (Call AeadOp)) :
    ∀ (st : DwpSt) (a : Absorbed), DwpRel C key iv st a → admFrom a s = true →
      outs (dwpB C) st s = outs (dwpSpecB C key iv) a s ∧ DwpRel C key iv (after (dwpB C) st s) (absRun a s) := by
  induction s with
  | nil => intro st a h _; exact ⟨rfl, h⟩
  | cons c s ih =>
    intro st a h hadm
    cases c with
    | reloc =>
      have := ih st a h hadm
      refine ⟨?_, this.2⟩
      show Out.none :: outs (dwpB C) st s = Out.none :: outs (dwpSpecB C key iv) a s
      rw [this.1]
    | op o =>
      simp only [admFrom, Bool.and_eq_true] at hadm
      have hs := dwpSim_step C hlen key iv hiv st a o h hadm.1
      have := ih _ _ hs.1 hadm.2
      refine ⟨?_, this.2⟩
      show ((dwpB C).step st o).2 :: outs (dwpB C) ((dwpB C).step st o).1 s =
        ((dwpSpecB C key iv).step a o).2 :: outs (dwpSpecB C key iv) (absNext a o) s
      rw [this.1, hs.2]


/-- the open data of a session (StepI fragments, concatenated) -/
def adOf : List (Call AeadOp) → Bytes
  | [] => []
  | .op (.ad d) :: s => d ++ adOf s
  | _ :: s => adOf s

/-- the critical data of a session (StepA fragments, concatenated) -/
def authOf : List (Call AeadOp) → Bytes
  | [] => []
  | .op (.auth d) :: s => d ++ authOf s
  | _ :: s => authOf s

/-- the data passed through StepE / StepD in a session, concatenated -/
def encOf : List (Call AeadOp) → Bytes
  | [] => []
  | .op (.encr d) :: s => d ++ encOf s
  | .op (.decr d) :: s => d ++ encOf s
  | _ :: s => encOf s

theorem absRun_eq (s : List (Call AeadOp)) : ∀ a : Absorbed,
    absRun a s = ⟨a.I ++ adOf s, a.A ++ authOf s, a.X ++ encOf s⟩ := by
  induction s with
  | nil => intro a; simp only [absRun, adOf, authOf, encOf, List.append_nil]
  | cons c s ih =>
    intro a
    cases c with
    | reloc => simp only [absRun, adOf, authOf, encOf, ih]
    | op o => cases o <;> simp only [absRun, absNext, adOf, authOf, encOf, ih, List.append_assoc]

theorem absRun_start (s : List (Call AeadOp)) : absRun ⟨[], [], []⟩ s = ⟨adOf s, authOf s, encOf s⟩ := by
  rw [absRun_eq]; rfl

/-- the StepE / StepD outputs of ANY DWP session, concatenated = one `beltCTRStepE` call on the concatenated data -/
theorem dwp_crypt_run (C : Cipher) (hlen : ∀ k x, x.length = 16 → (C.enc k x).length = 16)
    (s : List (Call AeadOp)) : ∀ st : DwpSt, CtrInv st.ctr →
      cryptData s (outs (dwpB C) st s) = (ctrStepE C st.ctr (encOf s)).2 := by
  induction s with
  | nil => intro st _; rw [encOf, ctrStepE_nil]; rfl
  | cons c s ih =>
    intro st hi
    cases c with
    | reloc => exact ih st hi
    | op o =>
      have key : ∀ d : Bytes, (ctrStepE C st.ctr d).2 ++
          cryptData s (outs (dwpB C) { st with ctr := (ctrStepE C st.ctr d).1 } s) =
          (ctrStepE C st.ctr (d ++ encOf s)).2 := by
        intro d
        rw [ih { st with ctr := (ctrStepE C st.ctr d).1 } (ctrStepE_keeps C hlen _ hi d),
          ctrStepE_append C hlen _ hi d]
      cases o with
      | ad d => exact ih (dwpStepI wBits st d) hi
      | auth d => exact ih (dwpStepA wBits st d) hi
      | encr d => exact key d
      | decr d => exact key d
      | get => exact ih (dwpStepG C st).1 hi
      | verify t => exact ih (dwpStepV C st t).1 hi

/-- a run of StepD calls -/
theorem dwp_decr_run (C : Cipher) (hlen : ∀ k x, x.length = 16 → (C.enc k x).length = 16) (ds : List Bytes) :
    ∀ st : DwpSt, CtrInv st.ctr →
      dataOf (outs (dwpB C) st (calls AeadOp.decr ds)) = (ctrStepE C st.ctr ds.flatten).2 := by
  induction ds with
  | nil => intro st _; rw [List.flatten_nil, ctrStepE_nil]; rfl
  | cons d ds ih =>
    intro st hi
    have h := ih { st with ctr := (ctrStepE C st.ctr d).1 } (ctrStepE_keeps C hlen _ hi d)
    rw [List.flatten_cons, ctrStepE_append C hlen _ hi d, ← h]
    rfl

/-- the tag a StepG call returns after an admissible session -/
theorem dwp_get_after (C : Cipher) (hlen : ∀ k x, x.length = 16 → (C.enc k x).length = 16) (key iv : Bytes)
    (hiv : iv.length = 16) (s : List (Call AeadOp)) (hadm : Admissible s) :
    (dwpStepG C (after (dwpB C) (dwpStart C key iv) s)).2 = dwpTagOf C key iv (adOf s) (authOf s) ∧
    (after (dwpB C) (dwpStart C key iv) s).ctr = (ctrStepE C (ctrStart C key iv) (encOf s)).1 := by
  have h := (dwpSim_run C hlen key iv hiv s _ _ (dwpRel_start C key iv) hadm).2
  rw [absRun_start] at h
  exact ⟨(dwpRel_tag C key iv h).1, h.ctr⟩


/-! ### CHE -/

/-- the tag of open data `I` and critical data `A`, each absorbed by ONE call (what `beltCHEWrap` computes) -/
def cheTagOf (C : Cipher) (key iv I A : Bytes) : Bytes :=
  (cheStepG C (cheStepA wBits (cheStepI wBits (cheStart C key iv) I) A)).2

/-- the SPECIFICATION machine of CHE (as `dwpSpecB`, with the key stream of `beltCHEStepE`) -/
def cheSpecB (C : Cipher) (key iv : Bytes) : Bundle Absorbed AeadOp :=
  { step := fun a op => (absNext a op, match op with
      | .ad _ => Out.none
      | .auth _ => Out.none
      | .encr d => Out.data ((cheStepE C (cheStart C key iv) (a.X ++ d)).2.drop a.X.length)
      | .decr d => Out.data ((cheStepE C (cheStart C key iv) (a.X ++ d)).2.drop a.X.length)
      | .get => Out.data (cheTagOf C key iv a.I a.A)
      | .verify t => Out.verdict (decide (t = cheTagOf C key iv a.I a.A))),
    isGet := AeadOp.isGet }

theorem pinv_cheStart (C : Cipher) (key iv : Bytes) : PInv (cheStart C key iv).p :=
  ⟨rfl, Nat.zero_lt_succ _, rfl⟩

/-- agreement of two CHE states on the key-stream fields -/
structure CheKs (s a : CheSt) : Prop where
  key : s.key = a.key
  sv : s.s = a.s
  blk : s.block1 = a.block1
  res : s.reserved = a.reserved

theorem CheKs.refl (s : CheSt) : CheKs s s := ⟨rfl, rfl, rfl, rfl⟩

/-- `beltCHEStepE` reads and writes the key-stream fields only -/
theorem cheStepE_ks (C : Cipher) {s a : CheSt} (h : CheKs s a) (d : Bytes) :
    CheKs (cheStepE C s d).1 (cheStepE C a d).1 ∧ (cheStepE C s d).2 = (cheStepE C a d).2 ∧
    (cheStepE C s d).1.p = s.p := by
  rw [C01.Aead.cheStepE_eq C s d, C01.Aead.cheStepE_eq C a d, h.key, h.sv, h.blk, h.res]
  exact ⟨⟨rfl, rfl, rfl, rfl⟩, rfl, rfl⟩

/-- equality of CHE states up to scratch -/
structure CheEq (s a : CheSt) : Prop where
  ks : CheKs s a
  p : PEq s.p a.p

def cheObsStep (C : Cipher) (a : CheSt) (op : AeadOp) : CheSt × Out :=
  if op.isGet then (a, ((cheB C).step a op).2) else (cheB C).step a op

theorem cheStepG_congr (C : Cipher) {s a : CheSt} (h : CheEq s a) :
    CheEq (cheStepGInternal C s) a ∧ (cheStepGInternal C s).p.t1 = (cheStepGInternal C a).p.t1 := by
  refine ⟨⟨⟨h.ks.key, h.ks.sv, h.ks.blk, h.ks.res⟩, (polyFinish_peq h.p.ip _).trans h.p⟩, ?_⟩
  show C.enc s.key (polyFinish s.p).2 = C.enc a.key (polyFinish a.p).2
  rw [h.ks.key, polyFinish_congr h.p]

theorem cheObs_step (C : Cipher) (s a : CheSt) (op : AeadOp) (h : CheEq s a) :
    CheEq ((cheB C).step s op).1 (cheObsStep C a op).1 ∧ ((cheB C).step s op).2 = (cheObsStep C a op).2 := by
  cases op with
  | ad d => exact ⟨⟨⟨h.ks.key, h.ks.sv, h.ks.blk, h.ks.res⟩, polyStepI_congr h.p d⟩, rfl⟩
  | auth d => exact ⟨⟨⟨h.ks.key, h.ks.sv, h.ks.blk, h.ks.res⟩, polyStepA_congr h.p d⟩, rfl⟩
  | encr d =>
    have hs := cheStepE_ks C h.ks d
    have ha := cheStepE_ks C (CheKs.refl a) d
    refine ⟨⟨hs.1, ?_⟩, ?_⟩
    · show PEq (cheStepE C s d).1.p (cheStepE C a d).1.p
      rw [hs.2.2, ha.2.2]; exact h.p
    · show Out.data (cheStepE C s d).2 = Out.data (cheStepE C a d).2
      rw [hs.2.1]
  | decr d =>
    have hs := cheStepE_ks C h.ks d
    have ha := cheStepE_ks C (CheKs.refl a) d
    refine ⟨⟨hs.1, ?_⟩, ?_⟩
    · show PEq (cheStepE C s d).1.p (cheStepE C a d).1.p
      rw [hs.2.2, ha.2.2]; exact h.p
    · show Out.data (cheStepE C s d).2 = Out.data (cheStepE C a d).2
      rw [hs.2.1]
  | get =>
    have hg := cheStepG_congr C h
    refine ⟨hg.1, ?_⟩
    show Out.data ((cheStepGInternal C s).p.t1.take 8) = Out.data ((cheStepGInternal C a).p.t1.take 8)
    rw [hg.2]
  | verify t =>
    have hg := cheStepG_congr C h
    refine ⟨hg.1, ?_⟩
    show Out.verdict (decide (t = (cheStepGInternal C s).p.t1.take 8)) =
      Out.verdict (decide (t = (cheStepGInternal C a).p.t1.take 8))
    rw [hg.2]

theorem cheObs_get (C : Cipher) (a : CheSt) (g : AeadOp) (hg : (cheB C).isGet g = true) :
    (cheObsStep C a g).1 = a := by
  have : g.isGet = true := hg
  unfold cheObsStep
  rw [if_pos this]

/-- the concrete CHE state stands for the absorbed data `a` -/
structure CheRel (C : Cipher) (key iv : Bytes) (st : CheSt) (a : Absorbed) : Prop where
  ks : CheKs st (cheStepE C (cheStart C key iv) a.X).1
  p : PEq st.p (polySpec (cheStart C key iv).p a.I a.A)

theorem cheRel_start (C : Cipher) (key iv : Bytes) : CheRel C key iv (cheStart C key iv) ⟨[], [], []⟩ := by
  have h0 := pinv_cheStart C key iv
  refine ⟨?_, ?_⟩
  · rw [cheStepE_nil]; exact CheKs.refl _
  · show PEq _ (polyStepA 64 (polyStepI 64 _ []) [])
    rw [polyStepI_nil h0, polyStepA_nil h0]
    exact PEq.refl _ h0

theorem cheRel_tag (C : Cipher) (key iv : Bytes) {st : CheSt} {a : Absorbed} (h : CheRel C key iv st a) :
    (cheStepGInternal C st).p.t1.take 8 = cheTagOf C key iv a.I a.A ∧
    CheRel C key iv (cheStepGInternal C st) a := by
  refine ⟨?_, ⟨⟨h.ks.key, h.ks.sv, h.ks.blk, h.ks.res⟩, (polyFinish_peq h.p.ip _).trans h.p⟩⟩
  show (C.enc st.key (polyFinish st.p).2).take 8 =
    (C.enc (cheStart C key iv).key (polyFinish (polySpec (cheStart C key iv).p a.I a.A)).2).take 8
  rw [h.ks.key, C01.Aead.cheStepE_key, polyFinish_congr h.p]

theorem cheRel_crypt (C : Cipher) (hlen : ∀ k x, x.length = 16 → (C.enc k x).length = 16) (key iv : Bytes)
    (hiv : iv.length = 16) {st : CheSt} {a : Absorbed} (h : CheRel C key iv st a) (d : Bytes) :
    (cheStepE C st d).2 = (cheStepE C (cheStart C key iv) (a.X ++ d)).2.drop a.X.length ∧
    CheKs (cheStepE C st d).1 (cheStepE C (cheStart C key iv) (a.X ++ d)).1 ∧ (cheStepE C st d).1.p = st.p := by
  have hi := cheKInv_start C hlen key iv hiv
  have hl := C01.Aead.length_cheStepE C hlen (cheStart C key iv) a.X hi.res hi.blk hi.s
  have hs := cheStepE_ks C h.ks d
  rw [cheStepE_append C hlen _ hi a.X d]
  exact ⟨by rw [hs.2.1]; exact (List.drop_left' hl).symm, hs.1, hs.2.2⟩

theorem cheSim_step (C : Cipher) (hlen : ∀ k x, x.length = 16 → (C.enc k x).length = 16) (key iv : Bytes)
    (hiv : iv.length = 16) (st : CheSt) (a : Absorbed) (op : AeadOp) (h : CheRel C key iv st a)
    (hadm : admOp a.A op = true) :
    CheRel C key iv ((cheB C).step st op).1 (absNext a op) ∧
    ((cheB C).step st op).2 = ((cheSpecB C key iv).step a op).2 := by
  have h0 := pinv_cheStart C key iv
  cases op with
  | ad d =>
    refine ⟨⟨⟨h.ks.key, h.ks.sv, h.ks.blk, h.ks.res⟩, ?_⟩, rfl⟩
    have : d = [] ∨ a.A = [] := by
      simp only [admOp, Bool.or_eq_true, List.isEmpty_iff] at hadm
      exact hadm
    exact polySpec_stepI h0 a.I a.A d h.p this
  | auth d =>
    refine ⟨⟨⟨h.ks.key, h.ks.sv, h.ks.blk, h.ks.res⟩, ?_⟩, rfl⟩
    exact polySpec_stepA h0 rfl a.I a.A d h.p
  | encr d =>
    have hc := cheRel_crypt C hlen key iv hiv h d
    refine ⟨⟨hc.2.1, ?_⟩, ?_⟩
    · show PEq (cheStepE C st d).1.p _
      rw [hc.2.2]; exact h.p
    · show Out.data (cheStepE C st d).2 = Out.data _
      rw [hc.1]
  | decr d =>
    have hc := cheRel_crypt C hlen key iv hiv h d
    refine ⟨⟨hc.2.1, ?_⟩, ?_⟩
    · show PEq (cheStepE C st d).1.p _
      rw [hc.2.2]; exact h.p
    · show Out.data (cheStepE C st d).2 = Out.data _
      rw [hc.1]
  | get =>
    have hg := cheRel_tag C key iv h
    refine ⟨hg.2, ?_⟩
    show Out.data ((cheStepGInternal C st).p.t1.take 8) = Out.data _
    rw [hg.1]
  | verify t =>
    have hg := cheRel_tag C key iv h
    refine ⟨hg.2, ?_⟩
    show Out.verdict (decide (t = (cheStepGInternal C st).p.t1.take 8)) = Out.verdict _
    rw [hg.1]

theorem cheSim_run (C : Cipher) (hlen : ∀ k x, x.length = 16 → (C.enc k x).length = 16) (key iv : Bytes)
    (hiv : iv.length = 16) (s : List (Call AeadOp)) :
    ∀ (st : CheSt) (a : Absorbed), CheRel C key iv st a → admFrom a s = true →
      outs (cheB C) st s = outs (cheSpecB C key iv) a s ∧ CheRel C key iv (after (cheB C) st s) (absRun a s) := by
  induction s with
  | nil => intro st a h _; exact ⟨rfl, h⟩
  | cons c s ih =>
    intro st a h hadm
    cases c with
    | reloc =>
      have := ih st a h hadm
      refine ⟨?_, this.2⟩
      show Out.none :: outs (cheB C) st s = Out.none :: outs (cheSpecB C key iv) a s
      rw [this.1]
    | op o =>
      simp only [admFrom, Bool.and_eq_true] at hadm
      have hs := cheSim_step C hlen key iv hiv st a o h hadm.1
      have := ih _ _ hs.1 hadm.2
      refine ⟨?_, this.2⟩
      show ((cheB C).step st o).2 :: outs (cheB C) ((cheB C).step st o).1 s =
        ((cheSpecB C key iv).step a o).2 :: outs (cheSpecB C key iv) (absNext a o) s
      rw [this.1, hs.2]

/-- invariant + agreement with a reference state on the key-stream fields, kept by every call -/
theorem che_crypt_run' (C : Cipher) (hlen : ∀ k x, x.length = 16 → (C.enc k x).length = 16)
    (s : List (Call AeadOp)) : ∀ st : CheSt, CheKInv st →
      cryptData s (outs (cheB C) st s) = (cheStepE C st (encOf s)).2 := by
  induction s with
  | nil => intro st _; rw [encOf, cheStepE_nil]; rfl
  | cons c s ih =>
    intro st hi
    -- StepI / StepA / StepG / StepV leave the key-stream fields alone
    have other : ∀ st' : CheSt, CheKs st' st →
        cryptData s (outs (cheB C) st' s) = (cheStepE C st (encOf s)).2 := by
      intro st' hk
      rw [ih st' ⟨by rw [hk.res]; exact hi.res, by rw [hk.blk]; exact hi.blk, by rw [hk.sv]; exact hi.s⟩]
      exact (cheStepE_ks C hk _).2.1
    cases c with
    | reloc => exact ih st hi
    | op o =>
      have key : ∀ d : Bytes, (cheStepE C st d).2 ++ cryptData s (outs (cheB C) (cheStepE C st d).1 s) =
          (cheStepE C st (d ++ encOf s)).2 := by
        intro d
        rw [ih _ (cheStepE_keeps C hlen _ hi d), cheStepE_append C hlen _ hi d]
      cases o with
      | ad d => exact other (cheStepI wBits st d) ⟨rfl, rfl, rfl, rfl⟩
      | auth d => exact other (cheStepA wBits st d) ⟨rfl, rfl, rfl, rfl⟩
      | encr d => exact key d
      | decr d => exact key d
      | get => exact other (cheStepG C st).1 ⟨rfl, rfl, rfl, rfl⟩
      | verify t => exact other (cheStepV C st t).1 ⟨rfl, rfl, rfl, rfl⟩

theorem che_decr_run (C : Cipher) (hlen : ∀ k x, x.length = 16 → (C.enc k x).length = 16) (ds : List Bytes) :
    ∀ st : CheSt, CheKInv st →
      dataOf (outs (cheB C) st (calls AeadOp.decr ds)) = (cheStepE C st ds.flatten).2 := by
  induction ds with
  | nil => intro st _; rw [List.flatten_nil, cheStepE_nil]; rfl
  | cons d ds ih =>
    intro st hi
    have h := ih (cheStepE C st d).1 (cheStepE_keeps C hlen _ hi d)
    rw [List.flatten_cons, cheStepE_append C hlen _ hi d, ← h]
    rfl

theorem che_get_after (C : Cipher) (hlen : ∀ k x, x.length = 16 → (C.enc k x).length = 16) (key iv : Bytes)
    (hiv : iv.length = 16) (s : List (Call AeadOp)) (hadm : Admissible s) :
    (cheStepG C (after (cheB C) (cheStart C key iv) s)).2 = cheTagOf C key iv (adOf s) (authOf s) ∧
    CheKs (after (cheB C) (cheStart C key iv) s) (cheStepE C (cheStart C key iv) (encOf s)).1 := by
  have h := (cheSim_run C hlen key iv hiv s _ _ (cheRel_start C key iv) hadm).2
  rw [absRun_start] at h
  exact ⟨(cheRel_tag C key iv h).1, h.ks⟩

/-! ### instances for the examples -/

/-- toy cipher of the non-vacuity examples: depends on key and block, 16 octets to 16 octets -/
def toy : Cipher :=
  ⟨fun k x => (xorb x ((k ++ zeros 16).take 16)).map (· * 3 + 1), fun _ x => x⟩

theorem toy_hlen : ∀ k x : Bytes, x.length = 16 → (toy.enc k x).length = 16 := by
  intro k x h
  simp only [toy, List.length_map, C01.length_xorb, List.length_take, List.length_append, zeros,
    List.length_replicate]
  omega

theorem belt_hlen : ∀ k x : Bytes, x.length = 16 → (beltCipher.enc k x).length = 16 :=
  fun k x h => C01.length_blockEncr k x h

/-- 40 octets 1, 2, ..., 40 -/
def toyData : Bytes := (List.range 40).map (fun i => UInt8.ofNat (i + 1))

end Bee2V.C10.Aead

/-
C10 property theorems, brng generators: CHUNK INDEPENDENCE of `brngHMACStepR` and of `brngCTRStepR` (on
zero-filled buffers, as brng.h requires for the claim: the prior content of the buffer is additional input),
and get-then-continue for `brngCTRStepG`.

A session `StepR(c1); …; StepR(cm)` returns, fragment after fragment, exactly the octets that ONE request of
`|c1| + … + |cm|` octets returns.  The final states are equal in every field that is ever read again: all fields
except the part `block[0 .. 32 - reserved)` of the scratch buffer that has already been handed out (a one-shot
request that ends on a block boundary never writes `block`, a session may have) — and therefore every LATER
session returns the same from both (`…_later`).
Only property theorems and non-vacuity examples; helper lemmas are in LemmasBrng.lean.
-/
import Bee2V.C10.LemmasBrng
namespace Bee2V.C10
open Bee2V Bee2V.C10.Brng

/-! ### brngHMAC -/

/-- CHUNK INDEPENDENCE of `brngHMACStepR`: EVERY list of requests (only the lengths matter; empty requests,
requests that end inside a block, inside the reserve, on a block boundary, …), from every state with
`reserved ≤ 32` and a 32-octet `block`. -/
theorem chunk_indep_brngHMAC (st : C03.HmacGenSt) (hr : st.reserved ≤ 32) (hb : st.block.length = 32)
    (cs : List Bytes) :
    dataOf (outs brngHmacB st (calls RngOp.gen cs)) = (C03.hmacGenStepR cs.flatten.length st).2 ∧
    (after brngHmacB st (calls RngOp.gen cs)).iv = (C03.hmacGenStepR cs.flatten.length st).1.iv ∧
    (after brngHmacB st (calls RngOp.gen cs)).r = (C03.hmacGenStepR cs.flatten.length st).1.r ∧
    (after brngHmacB st (calls RngOp.gen cs)).reserved = (C03.hmacGenStepR cs.flatten.length st).1.reserved ∧
    (after brngHmacB st (calls RngOp.gen cs)).keySt = (C03.hmacGenStepR cs.flatten.length st).1.keySt ∧
    (after brngHmacB st (calls RngOp.gen cs)).block.drop (32 - (after brngHmacB st (calls RngOp.gen cs)).reserved) =
      (C03.hmacGenStepR cs.flatten.length st).1.block.drop (32 - (C03.hmacGenStepR cs.flatten.length st).1.reserved) :=
  ⟨(hmac_chunks st ⟨hr, hb⟩ cs).1, (hmac_chunks st ⟨hr, hb⟩ cs).2.1⟩

/-- … hence every later session (requests, relocations) returns the same after the fragmented session as after
the one-shot request -/
theorem chunk_indep_brngHMAC_later (st : C03.HmacGenSt) (hr : st.reserved ≤ 32) (hb : st.block.length = 32)
    (cs : List Bytes) (post : List (Call RngOp)) :
    outs brngHmacB (after brngHmacB st (calls RngOp.gen cs)) post =
      outs brngHmacB (C03.hmacGenStepR cs.flatten.length st).1 post := by
  obtain ⟨_, h2, h3, h4⟩ := hmac_chunks st ⟨hr, hb⟩ cs
  exact hmac_outs_congr post _ _ h3 h4 h2

/-- … after `brngHMACStart(key, iv)` (any key, any iv) -/
theorem chunk_indep_brngHMAC_start (key iv : Bytes) (cs : List Bytes) :
    dataOf (outs brngHmacB (C03.hmacGenStart key iv) (calls RngOp.gen cs)) =
      (C03.hmacGenStepR cs.flatten.length (C03.hmacGenStart key iv)).2 :=
  (chunk_indep_brngHMAC _ (Nat.zero_le _) (by simp [C03.hmacGenStart, C03.zeros]) cs).1

/-- the hypotheses hold for the state made by `brngHMACStart` and for a state in the middle of a block (5 octets
handed out, 27 in reserve) — shown without evaluating belt-HMAC -/
example : (C03.hmacGenStart [1, 2, 3] [4, 5]).reserved ≤ 32 ∧ (C03.hmacGenStart [1, 2, 3] [4, 5]).block.length = 32 := by
  simp [C03.hmacGenStart, C03.zeros]
example : (C03.hmacGenStepR 5 (C03.hmacGenStart [1, 2, 3] [4, 5])).1.reserved = 27 ∧
    (C03.hmacGenStepR 5 (C03.hmacGenStart [1, 2, 3] [4, 5])).1.block.length = 32 := by
  simp [C03.hmacGenStepR, C03.hmacGenGen, C03.hmacGenFull, C03.hmacGenNext, C03.hmacGenStart,
    C03.Belt.hmacStepG_length]

/-! ### the common buffering skeleton on a toy block function

`decide` on sessions with the real belt-HMAC / belt-hash does not terminate in reasonable time (minutes for one
block), so the concrete non-trivial fragmentations are shown on the buffering skeleton `gStep` of LemmasBrng.lean
with a toy block function; `hmacGenStepR_eq` and `ctrStepR_zeros` say that `brngHMACStepR` and `brngCTRStepR` (on
zero-filled buffers) ARE `gStep` over `nxH` resp. `nxC`. -/

/-- block number `c + 1` consists of 32 octets `c + 1` -/
def nxToy (c : Nat) : Nat × Bytes := (c + 1, List.replicate 32 (UInt8.ofNat (c + 1)))

/-- requests 5 + 0 + 40 + 19 = 64: cuts inside blocks, an empty request, the end on a block boundary -/
example : (gRun nxToy ⟨0, List.replicate 32 0, 0⟩ [5, 0, 40, 19]).2.flatten =
    (gStep nxToy 64 ⟨0, List.replicate 32 0, 0⟩).2 := by decide
example : (gRun nxToy ⟨0, List.replicate 32 0, 0⟩ [5, 0, 40, 19]).2.map List.length = [5, 0, 40, 19] := by decide
/-- … the final states agree on `core` and `reserved` but NOT on the scratch `block` (the one-shot request never
wrote it): this is why the state part of the theorems is stated modulo `block[0 .. 32 - reserved)` -/
example : (gRun nxToy ⟨0, List.replicate 32 0, 0⟩ [5, 0, 40, 19]).1.core = (gStep nxToy 64 ⟨0, List.replicate 32 0, 0⟩).1.core ∧
    (gRun nxToy ⟨0, List.replicate 32 0, 0⟩ [5, 0, 40, 19]).1.reserved = 0 ∧
    (gStep nxToy 64 ⟨0, List.replicate 32 0, 0⟩).1.reserved = 0 ∧
    (gRun nxToy ⟨0, List.replicate 32 0, 0⟩ [5, 0, 40, 19]).1.block ≠ (gStep nxToy 64 ⟨0, List.replicate 32 0, 0⟩).1.block := by
  decide
/-- … from a state with 7 octets in reserve, requests 3 + 4 + 30 + 1 (the second one empties the reserve
exactly); the final state has 1 octet in reserve and it agrees -/
example : (gRun nxToy ⟨4, List.range 32 |>.map UInt8.ofNat, 7⟩ [3, 4, 30, 1]).2.flatten =
      (gStep nxToy 38 ⟨4, List.range 32 |>.map UInt8.ofNat, 7⟩).2 ∧
    (gRun nxToy ⟨4, List.range 32 |>.map UInt8.ofNat, 7⟩ [3, 4, 30, 1]).1.reserved = 1 ∧
    (gRun nxToy ⟨4, List.range 32 |>.map UInt8.ofNat, 7⟩ [3, 4, 30, 1]).1.block.drop 31 =
      (gStep nxToy 38 ⟨4, List.range 32 |>.map UInt8.ofNat, 7⟩).1.block.drop 31 := by decide

/-! ### brngCTR -/

/-- CHUNK INDEPENDENCE of `brngCTRStepR` for zero-filled buffers (brng.h: the prior content of the buffer is
additional input; a partial request of `count` zeros feeds `0^count ‖ 0^(32-count)` where the one-shot request
feeds `0^32` — the same hash input): EVERY list of zero-filled buffers, from every state with `reserved ≤ 32`, a
32-octet `block` and a well-formed keyed hash state (`filled < 32`).  The final states agree on `mem = s ‖ r`,
`keySt`, `reserved`, the unread part of `block`, hence on `brngCTRStepG`. -/
theorem chunk_indep_brngCTR (st : C03.CtrSt) (hr : st.reserved ≤ 32) (hb : st.block.length = 32)
    (hw : st.keySt.WF) (cs : List Bytes) (hz : zeroBufs cs) :
    dataOf (outs brngCtrB st (calls RngOp.gen cs)) = (C03.ctrStepR wOctets cs.flatten st).2 ∧
    (after brngCtrB st (calls RngOp.gen cs)).mem = (C03.ctrStepR wOctets cs.flatten st).1.mem ∧
    (after brngCtrB st (calls RngOp.gen cs)).keySt = (C03.ctrStepR wOctets cs.flatten st).1.keySt ∧
    (after brngCtrB st (calls RngOp.gen cs)).reserved = (C03.ctrStepR wOctets cs.flatten st).1.reserved ∧
    (after brngCtrB st (calls RngOp.gen cs)).block.drop (32 - (after brngCtrB st (calls RngOp.gen cs)).reserved) =
      (C03.ctrStepR wOctets cs.flatten st).1.block.drop (32 - (C03.ctrStepR wOctets cs.flatten st).1.reserved) ∧
    C03.ctrStepG (after brngCtrB st (calls RngOp.gen cs)) = C03.ctrStepG (C03.ctrStepR wOctets cs.flatten st).1 := by
  obtain ⟨h1, ⟨e1, e2, e3, e4⟩, _, _⟩ := ctr_chunks st ⟨hr, hb⟩ hw cs hz
  exact ⟨h1, e1, e2, e3, e4, by simp only [C03.ctrStepG, C03.CtrSt.s, e1]⟩

/-- … hence every later session (requests with zero-filled buffers, `brngCTRStepG`, relocations) returns the
same after the fragmented session as after the one-shot request -/
theorem chunk_indep_brngCTR_later (st : C03.CtrSt) (hr : st.reserved ≤ 32) (hb : st.block.length = 32)
    (hw : st.keySt.WF) (cs : List Bytes) (hz : zeroBufs cs) (post : List (Call RngOp)) (hp : zeroSession post) :
    outs brngCtrB (after brngCtrB st (calls RngOp.gen cs)) post =
      outs brngCtrB (C03.ctrStepR wOctets cs.flatten st).1 post := by
  obtain ⟨_, h2, h3, h4⟩ := ctr_chunks st ⟨hr, hb⟩ hw cs hz
  refine ctr_outs_congr post hp _ _ h3 h4 ?_ h2
  rw [h2.2.1, zeroBufs_flatten cs hz, ← ofGc_toGc st, ctrStepR_zeros wOctets _ hw]
  show (gStep (nxC wOctets) _ (toGc st)).1.core.2.WF
  rw [gStep_key]; exact hw

/-- … after `brngCTRStart(key, iv)` (any key, any iv; the prototype has `iv[32]`, the proof does not need it) -/
theorem chunk_indep_brngCTR_start (key iv : Bytes) (cs : List Bytes) (hz : zeroBufs cs) :
    dataOf (outs brngCtrB (C03.ctrStart key iv) (calls RngOp.gen cs)) =
      (C03.ctrStepR wOctets cs.flatten (C03.ctrStart key iv)).2 ∧
    C03.ctrStepG (after brngCtrB (C03.ctrStart key iv) (calls RngOp.gen cs)) =
      C03.ctrStepG (C03.ctrStepR wOctets cs.flatten (C03.ctrStart key iv)).1 := by
  have h := chunk_indep_brngCTR (C03.ctrStart key iv) (Nat.zero_le _) (by simp [C03.ctrStart, C03.zeros])
    (C03.Belt.hashStepH_WF _ _ C03.Belt.hashStart_WF) cs hz
  exact ⟨h.1, h.2.2.2.2.2⟩

/-- the hypotheses are satisfiable: zero-filled buffers 5 + 0 + 40, the start state -/
example : zeroBufs [C03.zeros 5, [], C03.zeros 40] := by unfold zeroBufs; decide
example : ¬ zeroBufs [C03.zeros 5, [0, 1]] := by unfold zeroBufs; decide
example : (C03.ctrStart [1, 2, 3] (C03.zeros 32)).keySt.WF := C03.Belt.hashStepH_WF _ _ C03.Belt.hashStart_WF
example : zeroSession [.op (.gen (C03.zeros 7)), .op .get, .reloc, .op (.gen [])] := by
  intro buf h
  simp only [List.mem_cons, Call.op.injEq, RngOp.gen.injEq, reduceCtorEq, List.not_mem_nil, or_false, false_or] at h
  rcases h with rfl | rfl <;> decide

/-! ### Get-then-continue -/

/-- GET-THEN-CONTINUE for brngCTR: `brngCTRStepG` (it copies `s` out) does not change the state, so whatever
session follows returns the same as if it had not been called — from every state, for every session -/
theorem get_observational_brngCTR (st : C03.CtrSt) : GetObservational brngCtrB st :=
  getObservational_of_sim brngCtrB Eq brngCtrB.step (fun s a i h => by subst h; exact ⟨rfl, rfl⟩)
    (fun a g hg => by
      cases g with
      | gen b => simp [brngCtrB, RngOp.isGet] at hg
      | get => rfl) st st rfl

/-- the same for brngHMAC, whose bundle has no Get function (`RngOp.get` is a no-op there) -/
theorem get_observational_brngHMAC (st : C03.HmacGenSt) : GetObservational brngHmacB st :=
  getObservational_of_sim brngHmacB Eq brngHmacB.step (fun s a i h => by subst h; exact ⟨rfl, rfl⟩)
    (fun a g hg => by
      cases g with
      | gen b => simp [brngHmacB, RngOp.isGet] at hg
      | get => rfl) st st rfl

/-- `GetObservational` quantifies over non-trivial sessions: e.g. Get between two requests -/
example (st : C03.CtrSt) (b1 b2 : Bytes) :
    outs brngCtrB (after brngCtrB st [.op (.gen b1), .op .get]) [.op (.gen b2), .op .get] =
      outs brngCtrB (after brngCtrB st [.op (.gen b1)]) [.op (.gen b2), .op .get] :=
  get_observational_brngCTR st [.op (.gen b1)] [.op (.gen b2), .op .get] .get rfl

end Bee2V.C10

/-
C10 property theorems, brng generators: CHUNK INDEPENDENCE of `brngHMACStepR` and of `brngCTRStepR` (on
zero-filled buffers, as brng.h requires for the claim: the prior content of the buffer is additional input),
and get-then-continue for `brngCTRStepG`.

A session `StepR(c1); …; StepR(cm)` returns, fragment after fragment, exactly the octets that ONE request of
`|c1| + … + |cm|` octets returns.  The final states are equal in every field that is ever read again: all fields
except the part `block[0 .. 32 - reserved)` of the scratch buffer that has already been handed out (a one-shot
request that ends on a block boundary never writes `block`, a session may have) — and therefore every LATER
session returns the same from both (`…_later`).
Only property theorems and non-vacuity examples; helper lemmas are in LemmasBrng.lean.
-/
import Bee2V.C10.LemmasBrng
namespace Bee2V.C10
open Bee2V Bee2V.C10.Brng

/-! ### brngHMAC -/

/-- CHUNK INDEPENDENCE of `brngHMACStepR`: EVERY list of requests (only the lengths matter; empty requests,
requests that end inside a block, inside the reserve, on a block boundary, …), from every state with
`reserved ≤ 32` and a 32-octet `block`. -/
theorem chunk_indep_brngHMAC (st : C03.HmacGenSt) (hr : st.reserved ≤ 32) (hb : st.block.length = 32)
    (cs : List Bytes) :
    dataOf (outs brngHmacB st (calls RngOp.gen cs)) = (C03.hmacGenStepR cs.flatten.length st).2 ∧
    (after brngHmacB st (calls RngOp.gen cs)).iv = (C03.hmacGenStepR cs.flatten.length st).1.iv ∧
    (after brngHmacB st (calls RngOp.gen cs)).r = (C03.hmacGenStepR cs.flatten.length st).1.r ∧
    (after brngHmacB st (calls RngOp.gen cs)).reserved = (C03.hmacGenStepR cs.flatten.length st).1.reserved ∧
    (after brngHmacB st (calls RngOp.gen cs)).keySt = (C03.hmacGenStepR cs.flatten.length st).1.keySt ∧
    (after brngHmacB st (calls RngOp.gen cs)).block.drop (32 - (after brngHmacB st (calls RngOp.gen cs)).reserved) =
      (C03.hmacGenStepR cs.flatten.length st).1.block.drop (32 - (C03.hmacGenStepR cs.flatten.length st).1.reserved) :=
  ⟨(hmac_chunks st ⟨hr, hb⟩ cs).1, (hmac_chunks st ⟨hr, hb⟩ cs).2.1⟩

/-- … hence every later session (requests, relocations) returns the same after the fragmented session as after
the one-shot request -/
theorem chunk_indep_brngHMAC_later (st : C03.HmacGenSt) (hr : st.reserved ≤ 32) (hb : st.block.length = 32)
    (cs : List Bytes) (post : List (Call RngOp)) :
    outs brngHmacB (after brngHmacB st (calls RngOp.gen cs)) post =
      outs brngHmacB (C03.hmacGenStepR cs.flatten.length st).1 post := by
  obtain ⟨_, h2, h3, h4⟩ := hmac_chunks st ⟨hr, hb⟩ cs
  exact hmac_outs_congr post _ _ h3 h4 h2

/-- … after `brngHMACStart(key, iv)` (any key, any iv) -/
theorem chunk_indep_brngHMAC_start (key iv : Bytes) (cs : List Bytes) :
    dataOf (outs brngHmacB (C03.hmacGenStart key iv) (calls RngOp.gen cs)) =
      (C03.hmacGenStepR cs.flatten.length (C03.hmacGenStart key iv)).2 :=
  (chunk_indep_brngHMAC _ (Nat.zero_le _) (by simp [C03.hmacGenStart, C03.zeros]) cs).1

end Bee2V.C10

/-
C10 property theorems — sessions pinned to the STANDARD.  The "= standard" theorems of C03 (brng-ctr, brng-hmac,
HOTP, TOTP, OCRA, bash-hash, the programmable automaton) are lifted to the C10 session vocabulary: the outputs of a
session of Step calls are those of a fragmentation-free specification, with no hypotheses beyond the header's own.
Chunk independence and get-then-continue for these bundles are consequences.
Only property theorems and non-vacuity examples; bridges are in `LemmasStd.lean`.
-/
import Bee2V.C10.LemmasStd
namespace Bee2V.C10
open Bee2V.C10.Std Bee2V.C10.Gen

/-! ### brng -/

/-- brng-CTR, ANY sequence of requests (buffers of any lengths with ANY content = additional input): the octets
returned by the successive `brngCTRStepR` calls after `brngCTRStart(key, iv)` are those of STB 34.101.47 §6.2 under
the buffering rule of brng.h (`Spec.ctrServeAll`: unread tail of the last block first, then ⌈rest/32⌉ steps),
and a final `brngCTRStepG` returns the standard's `s`.  Only hypothesis: the header's `iv` of 32 octets. -/
theorem brngCTR_session_eq_standard (key iv : Bytes) (hiv : iv.length = 32) (bufs : List Bytes) :
    outs brngCtrB (C03.ctrStart key iv) (calls RngOp.gen bufs) =
      (C03.Spec.ctrServeAll key (C03.Spec.ctrInit iv) [] bufs).2.2.1.map Out.data ∧
    outs brngCtrB (C03.ctrStart key iv) (calls RngOp.gen bufs ++ [.op .get]) =
      (C03.Spec.ctrServeAll key (C03.Spec.ctrInit iv) [] bufs).2.2.1.map Out.data ++
        [.data (C03.Spec.ctrServeAll key (C03.Spec.ctrInit iv) [] bufs).1.s] := by
  have h := C03.brngCTR_eq_standard wOctets (Or.inl rfl) key iv hiv bufs
  have hb := ctr_run_bridge bufs (C03.ctrStart key iv)
  have h1 : outs brngCtrB (C03.ctrStart key iv) (calls RngOp.gen bufs) =
      (C03.Spec.ctrServeAll key (C03.Spec.ctrInit iv) [] bufs).2.2.1.map Out.data := by
    show (run _ _ _).2 = _
    rw [hb, h.1]
  refine ⟨h1, ?_⟩
  have ha : after brngCtrB (C03.ctrStart key iv) (calls RngOp.gen bufs) = (C03.ctrRun wOctets bufs (C03.ctrStart key iv)).1 := by
    show (run _ _ _).1 = _
    rw [hb]
  show (run _ _ _).2 = _
  rw [run_append]
  show outs brngCtrB _ _ ++ [Out.data (C03.ctrStepG (after brngCtrB (C03.ctrStart key iv) (calls RngOp.gen bufs)))] = _
  rw [h1, ha, h.2]

/-- the concatenated output -/
theorem brngCTR_session_data_eq_standard (key iv : Bytes) (hiv : iv.length = 32) (bufs : List Bytes) :
    dataOf (outs brngCtrB (C03.ctrStart key iv) (calls RngOp.gen bufs)) =
      (C03.Spec.ctrServeAll key (C03.Spec.ctrInit iv) [] bufs).2.2.1.flatten := by
  rw [(brngCTR_session_eq_standard key iv hiv bufs).1, dataOf_map_data]

/-- brng-HMAC, ANY sequence of requests (any key length, any IV length): the octets returned by the successive
`brngHMACStepR` calls are those of STB 34.101.47 §6.3 under the buffering rule (`Spec.hmacServeAll`); the content
of the buffers is irrelevant, only their lengths count.  No hypothesis. -/
theorem brngHMAC_session_eq_standard (key iv : Bytes) (bufs : List Bytes) :
    outs brngHmacB (C03.hmacGenStart key iv) (calls RngOp.gen bufs) =
      (C03.Spec.hmacServeAll key iv (C03.Spec.hmacInit key iv) [] (bufs.map List.length)).2.2.1.map Out.data := by
  show (run _ _ _).2 = _
  rw [hmac_run_bridge, C03.brngHMAC_eq_standard]

example : (C03.zeros 32).length = 32 ∧
    (outs brngCtrB (C03.ctrStart [1] (C03.zeros 32)) (calls RngOp.gen [[], [1, 2, 3]] ++ [.op .get])).length = 3 ∧
    (outs brngHmacB (C03.hmacGenStart [1] [2]) (calls RngOp.gen [[], [1, 2, 3]])).length = 2 := by decide +kernel

/-! ### botp -/

/-- HOTP, ANY history of `StepR` / `StepV(otp)` calls after `Start(digit, key); StepS(⟨C⟩_64)`: every `StepR`
returns `HOTP(K, C_now)` of the standard, every `StepV` succeeds iff its password is `HOTP(K, C_now)`, where the
standard's counter `C_now` moves by one on a generated or accepted password only (`Spec.hotpRun`); a final `StepG`
returns `⟨C_now⟩_64`.  Only hypothesis: the header's `digit ≤ 9`. -/
theorem hotp_session_eq_standard (key : Bytes) (digit : Nat) (hd : digit ≤ 9) (C : Nat) (cs : List (Option Bytes)) :
    let st := C03.hotpStepS (C03.Spec.be8 C) (C03.hotpStart digit key)
    outs hotpB st (hotpSession cs) = (C03.Spec.hotpRun key digit C cs).2.map hotpOut ∧
    outs hotpB st (hotpSession cs ++ [.op .get]) =
      (C03.Spec.hotpRun key digit C cs).2.map hotpOut ++ [.data (C03.Spec.be8 (C03.Spec.hotpRun key digit C cs).1)] := by
  intro st
  have h := C03.botpHOTP_eq_standard key digit hd C cs
  have hb := hotp_run_bridge cs st
  have h1 : outs hotpB st (hotpSession cs) = (C03.Spec.hotpRun key digit C cs).2.map hotpOut := by
    show (run _ _ _).2 = _
    rw [hb, h.1]
  refine ⟨h1, ?_⟩
  have ha : after hotpB st (hotpSession cs) = (C03.hotpRun cs st).1 := by
    show (run _ _ _).1 = _
    rw [hb]
  show (run _ _ _).2 = _
  rw [run_append]
  show outs hotpB _ _ ++ [Out.data (after hotpB st (hotpSession cs)).ctr] = _
  rw [h1, ha, h.2]

/-- TOTP, ANY session of `StepR(t)` / `StepV(t, otp)` calls and relocations after `Start(digit, key)`: every
`StepR(t)` returns `TOTP(K, t)` of the standard, every `StepV(t, otp)` the verdict `otp = TOTP(K, t)`, whatever
happened before.  Only hypothesis: `digit ≤ 9`. -/
theorem totp_session_eq_standard (key : Bytes) (digit : Nat) (hd : digit ≤ 9) (s : List (Call TotpOp)) :
    outs totpB (totpStart digit key) s = s.map (totpStdOut key digit) := by
  rw [totp_outs_spec]
  apply List.map_congr_left
  intro c _
  cases c with
  | reloc => rfl
  | op o =>
    cases o with
    | next t =>
      show Out.data (C03.totpStepR digit (C03.Belt.hmacStart key) t) = Out.data _
      rw [(C03.botpTOTP_eq_standard key [] digit t hd).1]
    | verify t o =>
      show Out.verdict (C03.totpStepV o digit (C03.Belt.hmacStart key) t) = Out.verdict _
      rw [(C03.botpTOTP_eq_standard key o digit t hd).2]

/-- OCRA, per call, from the state after `Start` (any suite of the grammar) and `StepS(⟨C⟩_64, P, S)`:
`StepR(Q, T)` returns the standard's `OCRA(K, suite‖00‖[C]‖Q‖0…0‖[P]‖[S]‖[T])` and moves the counter (if the suite
has one) to `C + 1`; `StepV` returns the verdict `otp = ` that value, moves the counter on success only and changes
nothing on failure.  Hypotheses: the header's (valid suite, `P`, `S` of the suite's lengths). -/
theorem ocra_step_eq_standard (su : C03.Spec.Suite) (hv : su.valid) (key : Bytes) (C : Nat) (P S Q otp : Bytes)
    (T : Nat) (hP : P.length = su.params.pLen) (hS : S.length = su.params.sLen) :
    let st := C03.ocraStepS (C03.Spec.be8 C) P S (C03.stOf su key)
    let C' := if su.ctr then C else 0
    let v := C03.Spec.ocra key su.str su.params C' Q (if su.params.pLen ≠ 0 then P else [])
      (if su.params.sLen ≠ 0 then S else []) T
    C03.ocraStart su.str key = some (C03.stOf su key) ∧
    ocraB.step st (.next Q T) =
      ({ st with ctr := if su.params.ctr then C03.Spec.be8 (C' + 1) else st.ctr }, .data v) ∧
    ocraB.step st (.verify Q T otp) =
      (if otp = v then { st with ctr := if su.params.ctr then C03.Spec.be8 (C' + 1) else st.ctr } else st,
        .verdict (decide (otp = v))) := by
  have gen : ∀ (r : C03.OcraSt × Bool) (st st' : C03.OcraSt) (v : Bytes),
      r = (if otp = v then (st', true) else (st, false)) →
      (r.1, Out.verdict r.2) = (if otp = v then st' else st, Out.verdict (decide (otp = v))) := by
    intro r st st' v h
    by_cases hc : otp = v
    · rw [h, if_pos hc, if_pos hc, decide_eq_true hc]
    · rw [h, if_neg hc, if_neg hc, decide_eq_false hc]
  intro st C' v
  have h := C03.botpOCRA_eq_standard su hv key C P S Q otp T hP hS
  refine ⟨h.1, ?_, ?_⟩
  · show ((C03.ocraStepR Q T st).1, Out.data (C03.ocraStepR Q T st).2) = _
    rw [h.2.1]
  · exact gen _ _ _ _ h.2.2

example : (⟨6, true, .N, 8, some .sha1, some 64, some (30, .S)⟩ : C03.Spec.Suite).valid := by
  refine ⟨by decide, by decide, by decide, by decide, ?_, ?_⟩
  · intro n h; injection h with h; omega
  · intro n u h; injection h with h; injection h with h1 h2; subst h1; subst h2; decide

/-- a history with a rejected password: the standard's counter does not move (structural: 6 digits ≠ empty) -/
example : hotpSession [none, some [], none] = [.op .next, .op (.verify []), .op .next] := rfl
example :
    (outs hotpB (C03.hotpStepS (C03.Spec.be8 5) (C03.hotpStart 6 [1]))
      (hotpSession [none, some [], none] ++ [.op .get]))[3]? = some (.data [0, 0, 0, 0, 0, 0, 0, 7]) := by
  decide +kernel

/-! ### bash -/

/-- bash-hash: ANY fragmentation of the data followed by `StepG(l/4)` returns the hash of STB 34.101.77 §7
(`Spec.bashHash`: pad `X ‖ 0x40 ‖ 0…0`, absorb block-wise, first `l/4` octets).  Hypotheses: the header's `l ≤ 256`;
`F` maps 192 octets to 192 octets (true for `bashF`). -/
theorem chunk_indep_bashHash_standard (F : Bytes → Bytes) (hF : ∀ s : Bytes, s.length = 192 → (F s).length = 192)
    (l : Nat) (hl : l ≤ 256) (cs : List Bytes) :
    outs (bashHashB F) (C03.hashStart l) (calls AOp.absorb cs ++ [.op (.get (l / 4))]) =
      List.replicate cs.length .none ++ [.data (C03.Spec.bashHash F l cs.flatten)] := by
  have h := C03.bashHash_eq_standard F hF l hl [cs.flatten]
  simp only [List.foldl_cons, List.foldl_nil, List.flatten_cons, List.flatten_nil, List.append_nil] at h
  rw [chunk_indep_bashHash_start F l hl cs (l / 4), h]

/-- the instance for the real sponge function -/
theorem chunk_indep_bashHash_bashF_standard (l : Nat) (hl : l ≤ 256) (cs : List Bytes) :
    outs (bashHashB C03.bashF) (C03.hashStart l) (calls AOp.absorb cs ++ [.op (.get (l / 4))]) =
      List.replicate cs.length .none ++ [.data (C03.Spec.bashHash C03.bashF l cs.flatten)] :=
  chunk_indep_bashHash_standard C03.bashF (fun s _ => C03.bashF_length s) l hl cs

example : C03.Spec.bashHash id 256 ([[7], []] : List Bytes).flatten = [7, 0x40] ++ List.replicate 62 0 := by decide

/-- the automaton: the four chunk-independence theorems hold in EVERY state reachable from `bashPrgStart` by a
command history that respects the header (`l ∈ {128,192,256}`, `d ∈ {1,2}`, `|ann|, |key| ≤ 60` at Start and at every
Restart): the invariant `pos < buf_len` is `C03.bashPrg_invariant`, not a hypothesis -/
theorem chunk_indep_prg_absorb_reachable (F : Bytes → Bytes) (l d : Nat) (ann key : Bytes)
    (hl : l = 128 ∨ l = 192 ∨ l = 256) (hd : d = 1 ∨ d = 2) (ha : ann.length ≤ 60) (hk : key.length ≤ 60)
    (h : List C03.Cmd) (hok : ∀ c ∈ h, c.ok) (cs : List Bytes) :
    let st := C03.runAll F h (C03.prgStart l d ann key)
    after (prgB F) st (calls PrgOp.absorb cs) = C03.prgAbsorbStep F cs.flatten st :=
  chunk_indep_prg_absorb F _ (C03.bashPrg_invariant F l d ann key hl hd ha hk h hok).2.2.1 cs

theorem chunk_indep_prg_encr_reachable (F : Bytes → Bytes) (l d : Nat) (ann key : Bytes)
    (hl : l = 128 ∨ l = 192 ∨ l = 256) (hd : d = 1 ∨ d = 2) (ha : ann.length ≤ 60) (hk : key.length ≤ 60)
    (h : List C03.Cmd) (hok : ∀ c ∈ h, c.ok) (cs : List Bytes) :
    let st := C03.runAll F h (C03.prgStart l d ann key)
    dataOf (outs (prgB F) st (calls PrgOp.encr cs)) = (C03.prgEncrStep F cs.flatten st).2 ∧
    after (prgB F) st (calls PrgOp.encr cs) = (C03.prgEncrStep F cs.flatten st).1 :=
  chunk_indep_prg_encr F _ (C03.bashPrg_invariant F l d ann key hl hd ha hk h hok).2.2.1 cs

theorem chunk_indep_prg_decr_reachable (F : Bytes → Bytes) (l d : Nat) (ann key : Bytes)
    (hl : l = 128 ∨ l = 192 ∨ l = 256) (hd : d = 1 ∨ d = 2) (ha : ann.length ≤ 60) (hk : key.length ≤ 60)
    (h : List C03.Cmd) (hok : ∀ c ∈ h, c.ok) (cs : List Bytes) :
    let st := C03.runAll F h (C03.prgStart l d ann key)
    dataOf (outs (prgB F) st (calls PrgOp.decr cs)) = (C03.prgDecrStep F cs.flatten st).2 ∧
    after (prgB F) st (calls PrgOp.decr cs) = (C03.prgDecrStep F cs.flatten st).1 :=
  chunk_indep_prg_decr F _ (C03.bashPrg_invariant F l d ann key hl hd ha hk h hok).2.2.1 cs

theorem chunk_indep_prg_squeeze_reachable (F : Bytes → Bytes) (l d : Nat) (ann key : Bytes)
    (hl : l = 128 ∨ l = 192 ∨ l = 256) (hd : d = 1 ∨ d = 2) (ha : ann.length ≤ 60) (hk : key.length ≤ 60)
    (h : List C03.Cmd) (hok : ∀ c ∈ h, c.ok) (ns : List Nat) :
    let st := C03.runAll F h (C03.prgStart l d ann key)
    dataOf (outs (prgB F) st (ns.map (fun n => Call.op (PrgOp.squeeze n)))) =
      (C03.prgSqueezeStep F (C03.zeros ns.sum) st).2 ∧
    after (prgB F) st (ns.map (fun n => Call.op (PrgOp.squeeze n))) =
      (C03.prgSqueezeStep F (C03.zeros ns.sum) st).1 :=
  chunk_indep_prg_squeeze F _ (C03.bashPrg_invariant F l d ann key hl hd ha hk h hok).2.2.1 ns

/-- a history that satisfies the hypotheses -/
example : (∀ c ∈ [C03.Cmd.absorb [1, 2], C03.Cmd.restart [0, 0, 0, 0] [], C03.Cmd.ratchet, C03.Cmd.squeeze 70], c.ok) := by
  intro c hc; simp at hc; rcases hc with h | h | h | h <;> subst h <;> simp [C03.Cmd.ok]

end Bee2V.C10

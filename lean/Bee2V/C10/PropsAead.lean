/-
C10 property theorems — belt-CTR, belt-DWP, belt-CHE: chunk independence and get-then-continue.
Stated for an ARBITRARY block cipher `C : C01.Cipher` that returns 16 octets on 16 octets (`hlen`; true for belt:
`Aead.belt_hlen`), about exactly the state machines `ctrB`, `dwpB`, `cheB` of `Machines.lean` that the driver
executes.  Only property theorems and non-vacuity examples; helper lemmas and the vocabulary (`eData`, the toy
cipher, …) are in `LemmasAead.lean`.
-/
import Bee2V.C10.LemmasAead
namespace Bee2V.C10
open Bee2V.C10.Aead

/-! ### belt-CTR -/

/-- CHUNK INDEPENDENCE of belt-CTR, session form.  From ANY state that satisfies the invariant of `belt_ctr_st`,
any session of `beltCTRStepE` / `beltCTRStepD` calls (the same function) and relocations — empty fragments,
fragments that begin inside a gamma block and end before its end, … — returns, concatenated, what one call on
the concatenated data returns, and ends in EXACTLY the same state (`key`, `ctr`, `block`, `reserved`). -/
theorem chunk_indep_ctr_session (C : C01.Cipher) (hlen : ∀ k x, x.length = 16 → (C.enc k x).length = 16)
    (st : C01.CtrSt) (hr : st.reserved ≤ 16) (hb : st.block.length = 16) (hc : st.ctr.length = 16)
    (s : List (Call EOp)) :
    dataOf (outs (ctrB C) st s) = (C01.ctrStepE C st (eData s)).2 ∧
    after (ctrB C) st s = (C01.ctrStepE C st (eData s)).1 := by
  have h := ctr_run C hlen s st ⟨hr, hb, hc⟩
  exact ⟨h.2, h.1⟩

/-- CHUNK INDEPENDENCE of belt-CTR, fragment-list form (every list of fragments `cs`, from every invariant state) -/
theorem chunk_indep_ctr (C : C01.Cipher) (hlen : ∀ k x, x.length = 16 → (C.enc k x).length = 16)
    (st : C01.CtrSt) (hr : st.reserved ≤ 16) (hb : st.block.length = 16) (hc : st.ctr.length = 16)
    (cs : List Bytes) :
    dataOf (outs (ctrB C) st (calls EOp.encr cs)) = (C01.ctrStepE C st cs.flatten).2 ∧
    after (ctrB C) st (calls EOp.encr cs) = (C01.ctrStepE C st cs.flatten).1 := by
  have h := chunk_indep_ctr_session C hlen st hr hb hc (calls EOp.encr cs)
  rw [eData_calls_encr] at h
  exact h

/-- the same for `beltCTRStepD` -/
theorem chunk_indep_ctr_decr (C : C01.Cipher) (hlen : ∀ k x, x.length = 16 → (C.enc k x).length = 16)
    (st : C01.CtrSt) (hr : st.reserved ≤ 16) (hb : st.block.length = 16) (hc : st.ctr.length = 16)
    (cs : List Bytes) :
    dataOf (outs (ctrB C) st (calls EOp.decr cs)) = (C01.ctrStepE C st cs.flatten).2 ∧
    after (ctrB C) st (calls EOp.decr cs) = (C01.ctrStepE C st cs.flatten).1 := by
  have h := chunk_indep_ctr_session C hlen st hr hb hc (calls EOp.decr cs)
  rw [eData_calls_decr] at h
  exact h

/-- the state made by `beltCTRStart` satisfies the invariant: sessions from Start -/
theorem chunk_indep_ctr_start (C : C01.Cipher) (hlen : ∀ k x, x.length = 16 → (C.enc k x).length = 16)
    (key iv : Bytes) (hiv : iv.length = 16) (s : List (Call EOp)) :
    dataOf (outs (ctrB C) (C01.ctrStart C key iv) s) = (C01.ctrStepE C (C01.ctrStart C key iv) (eData s)).2 ∧
    after (ctrB C) (C01.ctrStart C key iv) s = (C01.ctrStepE C (C01.ctrStart C key iv) (eData s)).1 :=
  chunk_indep_ctr_session C hlen (C01.ctrStart C key iv) (Nat.zero_le _) rfl (hlen _ _ hiv) s

/-- fragmented Start/StepE* = the high-level `beltCTR(dest, src, count, key, len, iv)` -/
theorem chunk_indep_ctr_crypt (C : C01.Cipher) (hlen : ∀ k x, x.length = 16 → (C.enc k x).length = 16)
    (key iv : Bytes) (hiv : iv.length = 16) (hk : C01.validKeyLen key.length = true) (cs : List Bytes) :
    C01.ctrCrypt C cs.flatten key iv =
      (.ok, some (dataOf (outs (ctrB C) (C01.ctrStart C key iv) (calls EOp.encr cs)))) := by
  have h := (chunk_indep_ctr C hlen (C01.ctrStart C key iv) (Nat.zero_le _) rfl (hlen _ _ hiv) cs).1
  simp only [C01.ctrCrypt, hk, Bool.not_true, Bool.false_eq_true, if_false, h]

/-- instance: the belt block cipher -/
theorem chunk_indep_ctr_belt (key iv : Bytes) (hiv : iv.length = 16) (hk : C01.validKeyLen key.length = true)
    (cs : List Bytes) :
    C01.ctrCrypt C01.beltCipher cs.flatten key iv =
      (.ok, some (dataOf (outs (ctrB C01.beltCipher) (C01.ctrStart C01.beltCipher key iv) (calls EOp.encr cs)))) :=
  chunk_indep_ctr_crypt C01.beltCipher belt_hlen key iv hiv hk cs

/-- non-vacuity: 40 octets cut 7 + 0 + 20 + 13 (the first fragment ends inside a gamma block, the third one
begins inside one, crosses a block boundary and ends inside the next), mixed StepE / StepD and a relocation;
the output differs from the input -/
example :
    let s : List (Call EOp) := [.op (.encr (toyData.take 7)), .op (.encr []), .reloc,
      .op (.decr ((toyData.drop 7).take 20)), .op (.encr (toyData.drop 27))]
    eData s = toyData ∧
    dataOf (outs (ctrB toy) (C01.ctrStart toy (C01.zeros 16) (C01.zeros 16)) s) =
      (C01.ctrStepE toy (C01.ctrStart toy (C01.zeros 16) (C01.zeros 16)) toyData).2 ∧
    (C01.ctrStepE toy (C01.ctrStart toy (C01.zeros 16) (C01.zeros 16)) toyData).2 ≠ toyData ∧
    (after (ctrB toy) (C01.ctrStart toy (C01.zeros 16) (C01.zeros 16)) s).reserved = 8 := by decide +kernel

example : C01.validKeyLen (C01.zeros 16).length = true ∧ (C01.zeros 16).length = 16 := by decide

/-! ### belt-CHE: the key stream -/

/-- CHUNK INDEPENDENCE of `beltCHEStepE` (the key-stream half of belt-CHE; `beltCHEStepD` is the same function):
from any state whose key-stream fields satisfy the invariant, every list of fragments gives the output of one call
on the concatenation and EXACTLY the same final state. -/
theorem chunk_indep_che_crypt (C : C01.Cipher) (hlen : ∀ k x, x.length = 16 → (C.enc k x).length = 16)
    (st : C01.CheSt) (hr : st.reserved ≤ 16) (hb : st.block1.length = 16) (hs : st.s.length = 16)
    (cs : List Bytes) :
    dataOf (outs (cheB C) st (calls AeadOp.encr cs)) = (C01.cheStepE C st cs.flatten).2 ∧
    after (cheB C) st (calls AeadOp.encr cs) = (C01.cheStepE C st cs.flatten).1 := by
  have h := che_crypt_run C hlen cs st ⟨hr, hb, hs⟩
  exact ⟨h.2, h.1⟩

/-- from `beltCHEStart` -/
theorem chunk_indep_che_crypt_start (C : C01.Cipher) (hlen : ∀ k x, x.length = 16 → (C.enc k x).length = 16)
    (key iv : Bytes) (hiv : iv.length = 16) (cs : List Bytes) :
    dataOf (outs (cheB C) (C01.cheStart C key iv) (calls AeadOp.encr cs)) =
      (C01.cheStepE C (C01.cheStart C key iv) cs.flatten).2 ∧
    after (cheB C) (C01.cheStart C key iv) (calls AeadOp.encr cs) =
      (C01.cheStepE C (C01.cheStart C key iv) cs.flatten).1 :=
  chunk_indep_che_crypt C hlen (C01.cheStart C key iv) (Nat.zero_le _) rfl (hlen _ _ hiv) cs

/-- non-vacuity: 40 octets cut 7 + 0 + 20 + 13 -/
example :
    let cs : List Bytes := [toyData.take 7, [], (toyData.drop 7).take 20, toyData.drop 27]
    cs.flatten = toyData ∧
    dataOf (outs (cheB toy) (C01.cheStart toy (C01.zeros 16) (C01.zeros 16)) (calls AeadOp.encr cs)) =
      (C01.cheStepE toy (C01.cheStart toy (C01.zeros 16) (C01.zeros 16)) toyData).2 ∧
    (C01.cheStepE toy (C01.cheStart toy (C01.zeros 16) (C01.zeros 16)) toyData).2 ≠ toyData := by decide +kernel

/-! ### belt-DWP -/

/-- SIMULATION THEOREM of belt-DWP (chunk independence and get-then-continue in one statement).
For every session `s` of `beltDWPStepI / StepE / StepA / StepD / StepG / StepV` calls and relocations from
`beltDWPStart` that respects the order rule of belt.h (`Admissible`: no non-empty StepI fragment after a
non-empty StepA fragment — the ASSERT of StepI — and NOTHING else: no bound on any length, the 64-bit bit counters
wrap in the session exactly as in the one-call computation; everything else in any order and any fragmentation,
empty fragments included), the implementation returns call by call what the
specification machine `dwpSpecB` returns, whose state is only `(I, A, X)` = the open data, critical data and
encrypted data absorbed so far:
(i) every StepG returns `dwpTagOf I A` = the tag computed by ONE StepI call on `I` and ONE StepA call on `A`,
    every StepV the corresponding verdict, and neither changes `(I, A, X)`;
(ii) every StepE / StepD returns the slice `[|X|, |X| + |d|)` of ONE `beltCTRStepE` call on `X ++ d`. -/
theorem sim_dwp (C : C01.Cipher) (hlen : ∀ k x, x.length = 16 → (C.enc k x).length = 16) (key iv : Bytes)
    (hiv : iv.length = 16) (s : List (Call AeadOp)) (hadm : Admissible s) :
    outs (dwpB C) (C01.dwpStart C key iv) s = outs (dwpSpecB C key iv) ⟨[], [], []⟩ s :=
  (dwpSim_run C hlen key iv hiv s _ _ (dwpRel_start C key iv) hadm).1

/-- the session of the examples: open data 5 + 12 octets with a StepG in between (5 octets pending in the block),
data 7 + 0 + 20 octets encrypted and the cipher text authenticated in fragments 7 + 0 + 20, an empty StepI after
critical data, a failing StepV (block partially filled: 17 + 7 = 24 octets) followed by more data, a relocation,
a final StepG -/
example :
    let k := C01.zeros 16
    let iv := C01.zeros 16
    let ct := (C01.ctrStepE toy (C01.ctrStart toy k iv) (toyData.take 27)).2
    let s : List (Call AeadOp) := [.op (.ad (toyData.take 5)), .op .get, .op (.ad ((toyData.drop 5).take 12)),
      .op (.encr (toyData.take 7)), .op (.auth (ct.take 7)), .op (.verify (C01.zeros 8)), .op (.ad []), .reloc,
      .op (.encr []), .op (.auth []), .op (.encr ((toyData.take 27).drop 7)), .op (.auth (ct.drop 7)), .op .get]
    Admissible s ∧ adOf s = toyData.take 17 ∧ encOf s = toyData.take 27 ∧ authOf s = ct ∧
    outs (dwpB toy) (C01.dwpStart toy k iv) s = outs (dwpSpecB toy k iv) ⟨[], [], []⟩ s ∧
    (outs (dwpB toy) (C01.dwpStart toy k iv) s)[1]? = some (.data (dwpTagOf toy k iv (toyData.take 5) [])) ∧
    (outs (dwpB toy) (C01.dwpStart toy k iv) s)[5]? = some (.verdict false) ∧
    (outs (dwpB toy) (C01.dwpStart toy k iv) s)[12]? = some (.data (dwpTagOf toy k iv (toyData.take 17) ct)) ∧
    dwpTagOf toy k iv (toyData.take 5) [] ≠ dwpTagOf toy k iv (toyData.take 17) ct := by decide +kernel

/-- the order rule is not vacuous: a session that violates it; StepA fragments are never restricted -/
example : ¬ Admissible [.op (.auth [1]), .op (.ad [2])] := by decide
example (ds : List Bytes) : Admissible (calls AeadOp.auth ds) := by
  show admFrom _ _ = true
  generalize (⟨[], [], []⟩ : Absorbed) = a
  induction ds generalizing a with
  | nil => rfl
  | cons d ds ih => exact ih _

/-- ... and the order rule is needed: with a non-empty StepI fragment after a non-empty StepA fragment the
implementation (Release build: the ASSERT is compiled out) does NOT compute the tag of `(I, A)` -/
example :
    let s : List (Call AeadOp) := [.op (.auth [1]), .op (.ad [2]), .op .get]
    outs (dwpB toy) (C01.dwpStart toy (C01.zeros 16) (C01.zeros 16)) s ≠
      outs (dwpSpecB toy (C01.zeros 16) (C01.zeros 16)) ⟨[], [], []⟩ s := by decide +kernel

/-- instance: the belt block cipher -/
theorem sim_dwp_belt (key iv : Bytes) (hiv : iv.length = 16) (s : List (Call AeadOp)) (hadm : Admissible s) :
    outs (dwpB C01.beltCipher) (C01.dwpStart C01.beltCipher key iv) s =
      outs (dwpSpecB C01.beltCipher key iv) ⟨[], [], []⟩ s :=
  sim_dwp C01.beltCipher belt_hlen key iv hiv s hadm

/-- (i) spelled out: a StepG after ANY admissible session returns the one-call tag of the data absorbed so far -/
theorem get_spec_dwp (C : C01.Cipher) (hlen : ∀ k x, x.length = 16 → (C.enc k x).length = 16) (key iv : Bytes)
    (hiv : iv.length = 16) (pre : List (Call AeadOp)) (hadm : Admissible pre) :
    outs (dwpB C) (C01.dwpStart C key iv) (pre ++ [.op .get]) =
      outs (dwpB C) (C01.dwpStart C key iv) pre ++ [.data (dwpTagOf C key iv (adOf pre) (authOf pre))] := by
  have h := (dwp_get_after C hlen key iv hiv pre hadm).1
  simp only [outs, run_append, run]
  show _ ++ [Out.data (C01.dwpStepG C (after (dwpB C) (C01.dwpStart C key iv) pre)).2] = _
  rw [h]

/-- (i) for StepV: the verdict is `true` exactly for the one-call tag — successful or not, see `get_observational_dwp`
for what follows -/
theorem verify_spec_dwp (C : C01.Cipher) (hlen : ∀ k x, x.length = 16 → (C.enc k x).length = 16) (key iv : Bytes)
    (hiv : iv.length = 16) (pre : List (Call AeadOp)) (hadm : Admissible pre) (t : Bytes) :
    outs (dwpB C) (C01.dwpStart C key iv) (pre ++ [.op (.verify t)]) =
      outs (dwpB C) (C01.dwpStart C key iv) pre ++
        [.verdict (decide (t = dwpTagOf C key iv (adOf pre) (authOf pre)))] := by
  have h := (dwp_get_after C hlen key iv hiv pre hadm).1
  simp only [outs, run_append, run]
  show _ ++ [Out.verdict (decide (t = (C01.dwpStepG C (after (dwpB C) (C01.dwpStart C key iv) pre)).2))] = _
  rw [h]

/-- (ii) spelled out, for EVERY session (admissible or not): the StepE / StepD outputs, concatenated, are ONE
`beltCTRStepE` call on the concatenated data — whatever StepI / StepA / StepG / StepV calls are interleaved -/
theorem crypt_spec_dwp (C : C01.Cipher) (hlen : ∀ k x, x.length = 16 → (C.enc k x).length = 16) (key iv : Bytes)
    (hiv : iv.length = 16) (s : List (Call AeadOp)) :
    cryptData s (outs (dwpB C) (C01.dwpStart C key iv) s) =
      (C01.ctrStepE C (C01.ctrStart C key iv) (encOf s)).2 :=
  dwp_crypt_run C hlen s _ (ctrInv_start C hlen key iv hiv)

/-- CHUNK INDEPENDENCE of belt-DWP, protect direction.  Any admissible session that encrypts `src1 = encOf s`
(fragments of StepE) under open data `src2 = adOf s` (fragments of StepI) and authenticates the cipher text
(`authOf s` = the cipher text: fragments of StepA, cut anywhere, interleaved anyhow with the StepE calls), with
StepG / StepV / relocations anywhere, produces exactly the cipher text and — by a final StepG — the tag of the
high-level `beltDWPWrap(dest, mac, src1, count1, src2, count2, key, len, iv)`. -/
theorem chunk_indep_dwp (C : C01.Cipher) (hlen : ∀ k x, x.length = 16 → (C.enc k x).length = 16) (key iv : Bytes)
    (hiv : iv.length = 16) (hk : C01.validKeyLen key.length = true) (s : List (Call AeadOp)) (hadm : Admissible s)
    (hct : authOf s = (C01.ctrStepE C (C01.ctrStart C key iv) (encOf s)).2) :
    C01.dwpWrap C wBits (encOf s) (adOf s) key iv =
      (.ok, some (cryptData s (outs (dwpB C) (C01.dwpStart C key iv) s),
        (C01.dwpStepG C (after (dwpB C) (C01.dwpStart C key iv) s)).2)) := by
  rw [C01.Aead.dwpWrap_eq, crypt_spec_dwp C hlen key iv hiv s, (dwp_get_after C hlen key iv hiv s hadm).1, hct]
  simp only [hk, Bool.not_true, Bool.false_eq_true, if_false]
  rfl

example :
    let k := C01.zeros 16
    let iv := C01.zeros 16
    let ct := (C01.ctrStepE toy (C01.ctrStart toy k iv) (toyData.take 27)).2
    let s : List (Call AeadOp) := [.op (.ad (toyData.take 5)), .op .get, .op (.ad ((toyData.drop 5).take 12)),
      .op (.encr (toyData.take 7)), .op (.auth (ct.take 7)), .op (.verify (C01.zeros 8)), .op (.ad []), .reloc,
      .op (.encr []), .op (.auth []), .op (.encr ((toyData.take 27).drop 7)), .op (.auth (ct.drop 7)), .op .get]
    C01.validKeyLen k.length = true ∧ Admissible s ∧
    authOf s = (C01.ctrStepE toy (C01.ctrStart toy k iv) (encOf s)).2 ∧
    C01.dwpWrap toy wBits (toyData.take 27) (toyData.take 17) k iv =
      (.ok, some (cryptData s (outs (dwpB toy) (C01.dwpStart toy k iv) s),
        (C01.dwpStepG toy (after (dwpB toy) (C01.dwpStart toy k iv) s)).2)) ∧
    cryptData s (outs (dwpB toy) (C01.dwpStart toy k iv) s) ≠ toyData.take 27 := by decide +kernel

/-- CHUNK INDEPENDENCE of belt-DWP, unprotect direction.  After any admissible session `s` of StepI / StepA
fragments (StepG / StepV / relocations anywhere, no StepE / StepD yet), `StepV(mac)` followed by StepD on ANY
fragmentation `ds` of the critical data is `beltDWPUnwrap`: the same verdict, and for a good tag the same plain
text. -/
theorem chunk_indep_dwp_unwrap (C : C01.Cipher) (hlen : ∀ k x, x.length = 16 → (C.enc k x).length = 16)
    (key iv : Bytes) (hiv : iv.length = 16) (hk : C01.validKeyLen key.length = true) (s : List (Call AeadOp))
    (hadm : Admissible s) (hx : encOf s = []) (mac : Bytes) (ds : List Bytes) (hds : ds.flatten = authOf s) :
    C01.dwpUnwrap C wBits (authOf s) (adOf s) mac key iv =
      if (C01.dwpStepV C (after (dwpB C) (C01.dwpStart C key iv) s) mac).2 then
        (.ok, some (dataOf (outs (dwpB C) (C01.dwpStepV C (after (dwpB C) (C01.dwpStart C key iv) s) mac).1
          (calls AeadOp.decr ds))))
      else (.badMac, none) := by
  have hg := dwp_get_after C hlen key iv hiv s hadm
  have hv : (C01.dwpStepV C (after (dwpB C) (C01.dwpStart C key iv) s) mac).2 =
      decide (mac = dwpTagOf C key iv (adOf s) (authOf s)) := by
    rw [← hg.1]; rfl
  have hc : (C01.dwpStepV C (after (dwpB C) (C01.dwpStart C key iv) s) mac).1.ctr = C01.ctrStart C key iv := by
    show (after (dwpB C) (C01.dwpStart C key iv) s).ctr = _
    rw [hg.2, hx, ctrStepE_nil]
  rw [C01.Aead.dwpUnwrap_eq, hv, dwp_decr_run C hlen ds _ (by rw [hc]; exact ctrInv_start C hlen key iv hiv), hc, hds]
  simp only [hk, Bool.not_true, Bool.false_eq_true, if_false, decide_eq_true_eq]
  rfl

example :
    let k := C01.zeros 16
    let iv := C01.zeros 16
    let ct := toyData.drop 13
    let s : List (Call AeadOp) := [.op (.ad (toyData.take 5)), .op .get, .op (.ad ((toyData.drop 5).take 12)),
      .op (.auth (ct.take 7)), .op (.verify (C01.zeros 8)), .op (.ad []), .reloc, .op (.auth (ct.drop 7))]
    let ds : List Bytes := [ct.take 3, [], ct.drop 3]
    let mac := dwpTagOf toy k iv (toyData.take 17) ct
    Admissible s ∧ encOf s = [] ∧ ds.flatten = authOf s ∧
    (C01.dwpStepV toy (after (dwpB toy) (C01.dwpStart toy k iv) s) mac).2 = true ∧
    (C01.dwpStepV toy (after (dwpB toy) (C01.dwpStart toy k iv) s) (C01.zeros 8)).2 = false ∧
    C01.dwpUnwrap toy wBits ct (toyData.take 17) mac k iv =
      (.ok, some (dataOf (outs (dwpB toy) (C01.dwpStepV toy (after (dwpB toy) (C01.dwpStart toy k iv) s) mac).1
        (calls AeadOp.decr ds)))) := by decide +kernel

/-- GET-THEN-CONTINUE of belt-DWP, for ALL sessions (no admissibility needed, no hypothesis on the cipher): after
any session `pre` from `beltDWPStart`, a StepG or StepV call — successful or not — followed by any session `post`
yields the outputs of `post` without that call.  (StepG_internal writes `t1` and the zero padding
`block[filled .. 16)` only; StepI / StepA overwrite these octets before reading them — also when the order rule
is violated.) -/
theorem get_observational_dwp (C : C01.Cipher) (key iv : Bytes) :
    GetObservational (dwpB C) (C01.dwpStart C key iv) :=
  getObservational_of_sim (dwpB C) DwpEq (dwpObsStep C) (dwpObs_step C) (dwpObs_get C) _ _
    ⟨rfl, PEq.refl _ (pinv_dwpStart C key iv)⟩

/-- ... and from every state whose block buffer is well-formed -/
theorem get_observational_dwp_inv (C : C01.Cipher) (st : C01.DwpSt) (hb : st.p.block.length = 16)
    (hf : st.p.filled < 16) (hl : st.p.len.length = 16) : GetObservational (dwpB C) st :=
  getObservational_of_sim (dwpB C) DwpEq (dwpObsStep C) (dwpObs_step C) (dwpObs_get C) _ _
    ⟨rfl, PEq.refl _ ⟨hb, hf, hl⟩⟩

/-- non-vacuity: a failing StepV with 5 octets pending, then more open data, data and a StepG — with and without
the StepV; the state itself differs (scratch octets), the outputs do not -/
example :
    let k := C01.zeros 16
    let iv := C01.zeros 16
    let pre : List (Call AeadOp) := [.op (.ad (toyData.take 5))]
    let post : List (Call AeadOp) := [.op (.ad ((toyData.drop 5).take 12)), .op (.encr (toyData.take 7)),
      .op (.auth (toyData.take 20)), .op .get]
    let g : AeadOp := .verify (C01.zeros 8)
    (dwpB toy).isGet g = true ∧
    outs (dwpB toy) (after (dwpB toy) (C01.dwpStart toy k iv) (pre ++ [.op g])) post =
      outs (dwpB toy) (after (dwpB toy) (C01.dwpStart toy k iv) pre) post ∧
    (after (dwpB toy) (C01.dwpStart toy k iv) (pre ++ [.op g])).p.t1 ≠
      (after (dwpB toy) (C01.dwpStart toy k iv) pre).p.t1 ∧
    outs (dwpB toy) (C01.dwpStart toy k iv) (pre ++ [.op g]) = [.none, .verdict false] := by decide +kernel

/-! ### belt-CHE -/

/-- SIMULATION THEOREM of belt-CHE: as `sim_dwp`, with the specification machine `cheSpecB` (tag = `cheTagOf I A`
= ONE StepI call on `I` and ONE StepA call on `A`; StepE / StepD = slices of ONE `beltCHEStepE` call). -/
theorem sim_che (C : C01.Cipher) (hlen : ∀ k x, x.length = 16 → (C.enc k x).length = 16) (key iv : Bytes)
    (hiv : iv.length = 16) (s : List (Call AeadOp)) (hadm : Admissible s) :
    outs (cheB C) (C01.cheStart C key iv) s = outs (cheSpecB C key iv) ⟨[], [], []⟩ s :=
  (cheSim_run C hlen key iv hiv s _ _ (cheRel_start C key iv) hadm).1

example :
    let k := C01.zeros 16
    let iv := C01.zeros 16
    let ct := (C01.cheStepE toy (C01.cheStart toy k iv) (toyData.take 27)).2
    let s : List (Call AeadOp) := [.op (.ad (toyData.take 5)), .op .get, .op (.ad ((toyData.drop 5).take 12)),
      .op (.encr (toyData.take 7)), .op (.auth (ct.take 7)), .op (.verify (C01.zeros 8)), .op (.ad []), .reloc,
      .op (.encr []), .op (.auth []), .op (.encr ((toyData.take 27).drop 7)), .op (.auth (ct.drop 7)), .op .get]
    Admissible s ∧ adOf s = toyData.take 17 ∧ encOf s = toyData.take 27 ∧ authOf s = ct ∧
    outs (cheB toy) (C01.cheStart toy k iv) s = outs (cheSpecB toy k iv) ⟨[], [], []⟩ s ∧
    (outs (cheB toy) (C01.cheStart toy k iv) s)[1]? = some (.data (cheTagOf toy k iv (toyData.take 5) [])) ∧
    (outs (cheB toy) (C01.cheStart toy k iv) s)[5]? = some (.verdict false) ∧
    (outs (cheB toy) (C01.cheStart toy k iv) s)[12]? = some (.data (cheTagOf toy k iv (toyData.take 17) ct)) ∧
    cheTagOf toy k iv (toyData.take 5) [] ≠ cheTagOf toy k iv (toyData.take 17) ct := by decide +kernel

/-- instance: the belt block cipher -/
theorem sim_che_belt (key iv : Bytes) (hiv : iv.length = 16) (s : List (Call AeadOp)) (hadm : Admissible s) :
    outs (cheB C01.beltCipher) (C01.cheStart C01.beltCipher key iv) s =
      outs (cheSpecB C01.beltCipher key iv) ⟨[], [], []⟩ s :=
  sim_che C01.beltCipher belt_hlen key iv hiv s hadm

/-- a StepG after ANY admissible session returns the one-call tag of the data absorbed so far -/
theorem get_spec_che (C : C01.Cipher) (hlen : ∀ k x, x.length = 16 → (C.enc k x).length = 16) (key iv : Bytes)
    (hiv : iv.length = 16) (pre : List (Call AeadOp)) (hadm : Admissible pre) :
    outs (cheB C) (C01.cheStart C key iv) (pre ++ [.op .get]) =
      outs (cheB C) (C01.cheStart C key iv) pre ++ [.data (cheTagOf C key iv (adOf pre) (authOf pre))] := by
  have h := (che_get_after C hlen key iv hiv pre hadm).1
  simp only [outs, run_append, run]
  show _ ++ [Out.data (C01.cheStepG C (after (cheB C) (C01.cheStart C key iv) pre)).2] = _
  rw [h]

theorem verify_spec_che (C : C01.Cipher) (hlen : ∀ k x, x.length = 16 → (C.enc k x).length = 16) (key iv : Bytes)
    (hiv : iv.length = 16) (pre : List (Call AeadOp)) (hadm : Admissible pre) (t : Bytes) :
    outs (cheB C) (C01.cheStart C key iv) (pre ++ [.op (.verify t)]) =
      outs (cheB C) (C01.cheStart C key iv) pre ++
        [.verdict (decide (t = cheTagOf C key iv (adOf pre) (authOf pre)))] := by
  have h := (che_get_after C hlen key iv hiv pre hadm).1
  simp only [outs, run_append, run]
  show _ ++ [Out.verdict (decide (t = (C01.cheStepG C (after (cheB C) (C01.cheStart C key iv) pre)).2))] = _
  rw [h]

/-- for EVERY session (admissible or not): the StepE / StepD outputs, concatenated, are ONE `beltCHEStepE` call on
the concatenated data -/
theorem crypt_spec_che (C : C01.Cipher) (hlen : ∀ k x, x.length = 16 → (C.enc k x).length = 16) (key iv : Bytes)
    (hiv : iv.length = 16) (s : List (Call AeadOp)) :
    cryptData s (outs (cheB C) (C01.cheStart C key iv) s) =
      (C01.cheStepE C (C01.cheStart C key iv) (encOf s)).2 :=
  che_crypt_run' C hlen s _ (cheKInv_start C hlen key iv hiv)

/-- CHUNK INDEPENDENCE of belt-CHE, protect direction: any admissible fragmentation / interleaving of
StepI (`src2`), StepE (`src1`), StepA (the cipher text) with a final StepG = `beltCHEWrap` -/
theorem chunk_indep_che (C : C01.Cipher) (hlen : ∀ k x, x.length = 16 → (C.enc k x).length = 16) (key iv : Bytes)
    (hiv : iv.length = 16) (hk : C01.validKeyLen key.length = true) (s : List (Call AeadOp)) (hadm : Admissible s)
    (hct : authOf s = (C01.cheStepE C (C01.cheStart C key iv) (encOf s)).2) :
    C01.cheWrap C wBits (encOf s) (adOf s) key iv =
      (.ok, some (cryptData s (outs (cheB C) (C01.cheStart C key iv) s),
        (C01.cheStepG C (after (cheB C) (C01.cheStart C key iv) s)).2)) := by
  rw [C01.Aead.cheWrap_eq, crypt_spec_che C hlen key iv hiv s, (che_get_after C hlen key iv hiv s hadm).1, hct]
  simp only [hk, Bool.not_true, Bool.false_eq_true, if_false]
  rfl

example :
    let k := C01.zeros 16
    let iv := C01.zeros 16
    let ct := (C01.cheStepE toy (C01.cheStart toy k iv) (toyData.take 27)).2
    let s : List (Call AeadOp) := [.op (.ad (toyData.take 5)), .op .get, .op (.ad ((toyData.drop 5).take 12)),
      .op (.encr (toyData.take 7)), .op (.auth (ct.take 7)), .op (.verify (C01.zeros 8)), .op (.ad []), .reloc,
      .op (.encr []), .op (.auth []), .op (.encr ((toyData.take 27).drop 7)), .op (.auth (ct.drop 7)), .op .get]
    C01.validKeyLen k.length = true ∧ Admissible s ∧
    authOf s = (C01.cheStepE toy (C01.cheStart toy k iv) (encOf s)).2 ∧
    C01.cheWrap toy wBits (toyData.take 27) (toyData.take 17) k iv =
      (.ok, some (cryptData s (outs (cheB toy) (C01.cheStart toy k iv) s),
        (C01.cheStepG toy (after (cheB toy) (C01.cheStart toy k iv) s)).2)) ∧
    cryptData s (outs (cheB toy) (C01.cheStart toy k iv) s) ≠ toyData.take 27 := by decide +kernel

/-- CHUNK INDEPENDENCE of belt-CHE, unprotect direction (as `chunk_indep_dwp_unwrap`) -/
theorem chunk_indep_che_unwrap (C : C01.Cipher) (hlen : ∀ k x, x.length = 16 → (C.enc k x).length = 16)
    (key iv : Bytes) (hiv : iv.length = 16) (hk : C01.validKeyLen key.length = true) (s : List (Call AeadOp))
    (hadm : Admissible s) (hx : encOf s = []) (mac : Bytes) (ds : List Bytes) (hds : ds.flatten = authOf s) :
    C01.cheUnwrap C wBits (authOf s) (adOf s) mac key iv =
      if (C01.cheStepV C (after (cheB C) (C01.cheStart C key iv) s) mac).2 then
        (.ok, some (dataOf (outs (cheB C) (C01.cheStepV C (after (cheB C) (C01.cheStart C key iv) s) mac).1
          (calls AeadOp.decr ds))))
      else (.badMac, none) := by
  have hg := che_get_after C hlen key iv hiv s hadm
  have hi := cheKInv_start C hlen key iv hiv
  have hv : (C01.cheStepV C (after (cheB C) (C01.cheStart C key iv) s) mac).2 =
      decide (mac = cheTagOf C key iv (adOf s) (authOf s)) := by
    rw [← hg.1]; rfl
  have hc : CheKs (C01.cheStepV C (after (cheB C) (C01.cheStart C key iv) s) mac).1 (C01.cheStart C key iv) := by
    have := hg.2
    rw [hx, cheStepE_nil] at this
    exact ⟨this.key, this.sv, this.blk, this.res⟩
  have hi' : CheKInv (C01.cheStepV C (after (cheB C) (C01.cheStart C key iv) s) mac).1 :=
    ⟨by rw [hc.res]; exact hi.res, by rw [hc.blk]; exact hi.blk, by rw [hc.sv]; exact hi.s⟩
  rw [C01.Aead.cheUnwrap_eq, hv, che_decr_run C hlen ds _ hi', (cheStepE_ks C hc _).2.1, hds]
  simp only [hk, Bool.not_true, Bool.false_eq_true, if_false, decide_eq_true_eq]
  rfl

example :
    let k := C01.zeros 16
    let iv := C01.zeros 16
    let ct := toyData.drop 13
    let s : List (Call AeadOp) := [.op (.ad (toyData.take 5)), .op .get, .op (.ad ((toyData.drop 5).take 12)),
      .op (.auth (ct.take 7)), .op (.verify (C01.zeros 8)), .op (.ad []), .reloc, .op (.auth (ct.drop 7))]
    let ds : List Bytes := [ct.take 3, [], ct.drop 3]
    let mac := cheTagOf toy k iv (toyData.take 17) ct
    Admissible s ∧ encOf s = [] ∧ ds.flatten = authOf s ∧
    (C01.cheStepV toy (after (cheB toy) (C01.cheStart toy k iv) s) mac).2 = true ∧
    (C01.cheStepV toy (after (cheB toy) (C01.cheStart toy k iv) s) (C01.zeros 8)).2 = false ∧
    C01.cheUnwrap toy wBits ct (toyData.take 17) mac k iv =
      (.ok, some (dataOf (outs (cheB toy) (C01.cheStepV toy (after (cheB toy) (C01.cheStart toy k iv) s) mac).1
        (calls AeadOp.decr ds)))) := by decide +kernel

/-- GET-THEN-CONTINUE of belt-CHE, for ALL sessions, no hypothesis on the cipher -/
theorem get_observational_che (C : C01.Cipher) (key iv : Bytes) :
    GetObservational (cheB C) (C01.cheStart C key iv) :=
  getObservational_of_sim (cheB C) CheEq (cheObsStep C) (cheObs_step C) (cheObs_get C) _ _
    ⟨CheKs.refl _, PEq.refl _ (pinv_cheStart C key iv)⟩

/-- ... and from every state whose block buffer is well-formed -/
theorem get_observational_che_inv (C : C01.Cipher) (st : C01.CheSt) (hb : st.p.block.length = 16)
    (hf : st.p.filled < 16) (hl : st.p.len.length = 16) : GetObservational (cheB C) st :=
  getObservational_of_sim (cheB C) CheEq (cheObsStep C) (cheObs_step C) (cheObs_get C) _ _
    ⟨CheKs.refl _, PEq.refl _ ⟨hb, hf, hl⟩⟩

example :
    let k := C01.zeros 16
    let iv := C01.zeros 16
    let pre : List (Call AeadOp) := [.op (.ad (toyData.take 5))]
    let post : List (Call AeadOp) := [.op (.ad ((toyData.drop 5).take 12)), .op (.encr (toyData.take 7)),
      .op (.auth (toyData.take 20)), .op .get]
    let g : AeadOp := .verify (C01.zeros 8)
    (cheB toy).isGet g = true ∧
    outs (cheB toy) (after (cheB toy) (C01.cheStart toy k iv) (pre ++ [.op g])) post =
      outs (cheB toy) (after (cheB toy) (C01.cheStart toy k iv) pre) post ∧
    (after (cheB toy) (C01.cheStart toy k iv) (pre ++ [.op g])).p.t1 ≠
      (after (cheB toy) (C01.cheStart toy k iv) pre).p.t1 ∧
    outs (cheB toy) (C01.cheStart toy k iv) (pre ++ [.op g]) = [.none, .verdict false] := by decide +kernel

end Bee2V.C10

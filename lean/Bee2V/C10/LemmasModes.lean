/-
C10 helper lemmas, belt encryption modes (ECB, CBC, CFB, BDE): two-fragment split lemmas of the Step functions
of the C01 model and the induction over the list of fragments.  The property theorems are in PropsModes.lean.
-/
import Bee2V.C10.Stmts
import Bee2V.C01.Lemmas.EcbCbc
import Bee2V.C01.Lemmas.Stream
namespace Bee2V.C10.Modes
open Bee2V Bee2V.C01

/-! ### sessions of one kind of call -/

section generic
variable {σ ι : Type}

/-- the calls `mk c` of the bundle `B` are the step function `step` on buffers -/
def IsStep (B : Bundle σ ι) (mk : Bytes → ι) (step : σ → Bytes → σ × Bytes) : Prop :=
  ∀ s c, B.step s (mk c) = ((step s c).1, Out.data (step s c).2)

theorem run_calls_nil (B : Bundle σ ι) (mk : Bytes → ι) (s : σ) : run B s (calls mk []) = (s, []) := rfl

theorem run_calls_cons (B : Bundle σ ι) (mk : Bytes → ι) (s : σ) (c : Bytes) (cs : List Bytes) :
    run B s (calls mk (c :: cs)) =
      ((run B (B.step s (mk c)).1 (calls mk cs)).1,
       (B.step s (mk c)).2 :: (run B (B.step s (mk c)).1 (calls mk cs)).2) := rfl

/-- Sessions without restriction on the place of the cuts (fragments satisfying `P`, e.g. whole blocks):
if the step function splits over `a ++ b` for every `a` with `P a`, a session returns what the one-shot call on
the concatenation returns and ends in the same state. -/
theorem fold_free (B : Bundle σ ι) (mk : Bytes → ι) (step : σ → Bytes → σ × Bytes) (hB : IsStep B mk step)
    (Inv : σ → Prop) (P : Bytes → Prop)
    (hnil : ∀ s, Inv s → step s [] = (s, []))
    (hinv : ∀ s c, Inv s → P c → Inv (step s c).1)
    (hsplit : ∀ s a b, Inv s → P a →
      step s (a ++ b) = ((step (step s a).1 b).1, (step s a).2 ++ (step (step s a).1 b).2)) :
    ∀ (cs : List Bytes) (s : σ), Inv s → (∀ c ∈ cs, P c) →
      dataOf (outs B s (calls mk cs)) = (step s cs.flatten).2 ∧
      after B s (calls mk cs) = (step s cs.flatten).1 := by
  intro cs
  induction cs with
  | nil =>
    intro s hs _
    simp only [outs, after, run_calls_nil, dataOf, List.flatten_nil, hnil s hs, and_self]
  | cons c cs ih =>
    intro s hs hP
    have hc : P c := hP c (List.mem_cons_self ..)
    obtain ⟨i1, i2⟩ := ih (step s c).1 (hinv s c hs hc) (fun d hd => hP d (List.mem_cons_of_mem _ hd))
    simp only [outs, after] at i1 i2 ⊢
    simp only [run_calls_cons, hB s c, dataOf, List.flatten_cons, hsplit s c _ hs hc, i1, i2, and_self]

theorem admissibleCTS_cons2 (c d : Bytes) (cs : List Bytes) :
    admissibleCTS (c :: d :: cs) ↔ (16 ≤ c.length ∧ c.length % 16 = 0 ∧ admissibleCTS (d :: cs)) := Iff.rfl

theorem admissibleCTS_length : ∀ cs : List Bytes, admissibleCTS cs → 16 ≤ cs.flatten.length
  | [], h => h.elim
  | [c], h => by
    have : 16 ≤ c.length := h
    simpa using this
  | c :: d :: cs, h => by
    have := admissibleCTS_length (d :: cs) h.2.2
    simp only [List.flatten_cons, List.length_append] at this ⊢
    omega

/-- Sessions of the ciphertext-stealing bundles: every fragment but the last consists of whole blocks and no
fragment is shorter than a block.  The step function has to split only at such cuts. -/
theorem fold_cts (B : Bundle σ ι) (mk : Bytes → ι) (step : σ → Bytes → σ × Bytes) (hB : IsStep B mk step)
    (Inv : σ → Prop)
    (hinv : ∀ s c, Inv s → 16 ≤ c.length → c.length % 16 = 0 → Inv (step s c).1)
    (hsplit : ∀ s a b, Inv s → 16 ≤ a.length → a.length % 16 = 0 → 16 ≤ b.length →
      step s (a ++ b) = ((step (step s a).1 b).1, (step s a).2 ++ (step (step s a).1 b).2)) :
    ∀ (cs : List Bytes) (s : σ), Inv s → admissibleCTS cs →
      dataOf (outs B s (calls mk cs)) = (step s cs.flatten).2 ∧
      after B s (calls mk cs) = (step s cs.flatten).1 := by
  intro cs
  induction cs with
  | nil => intro s _ h; exact h.elim
  | cons c cs ih =>
    intro s hs h
    cases cs with
    | nil =>
      simp only [outs, after, run_calls_cons, run_calls_nil, hB s c, dataOf, List.flatten_cons, List.flatten_nil,
        List.append_nil, and_self]
    | cons d cs =>
      obtain ⟨h1, h2, h3⟩ := (admissibleCTS_cons2 c d cs).mp h
      obtain ⟨i1, i2⟩ := ih (step s c).1 (hinv s c hs h1 h2) h3
      have hl := admissibleCTS_length _ h3
      simp only [outs, after] at i1 i2 ⊢
      rw [run_calls_cons, hB s c]
      simp only [dataOf, i1, i2]
      have e : (c :: d :: cs).flatten = c ++ (d :: cs).flatten := rfl
      rw [e, hsplit s c _ hs h1 h2 hl]
      exact ⟨rfl, rfl⟩

end generic

/-! ### ECB -/

/-- `beltECBStepE/D` over a block map: a cut after whole blocks, at least one block left -/
theorem ecbStep_split (f : Bytes → Bytes) (hlen : ∀ x, x.length = 16 → (f x).length = 16)
    (a b : Bytes) (ha : a.length % 16 = 0) (hb : 16 ≤ b.length) :
    ecbStep f (a ++ b) = ecbStep f a ++ ecbStep f b := by
  rw [ecbStep_whole f a ha]
  by_cases hr : b.length % 16 = 0
  · rw [ecbStep_whole f b hr, ecbStep_whole f (a ++ b) (by simp only [List.length_append]; omega),
      mapB_append f a b ha]
  · obtain ⟨pre, last, tail, rfl, hpre, hlast, ht0, ht⟩ := ragged_decomp b hb hr
    have e : a ++ (pre ++ last ++ tail) = (a ++ pre) ++ last ++ tail := by simp only [List.append_assoc]
    rw [e, ecbStep_ragged f hlen (a ++ pre) last tail (by simp only [List.length_append]; omega) hlast ht0 ht,
      ecbStep_ragged f hlen pre last tail hpre hlast ht0 ht, mapB_append f a pre ha]
    simp only [List.append_assoc]

theorem ecb_isStepE (C : Cipher) :
    IsStep (ecbB C) EOp.encr (fun key c => (key, ecbStepE C key c)) := fun _ _ => rfl
theorem ecb_isStepD (C : Cipher) :
    IsStep (ecbB C) EOp.decr (fun key c => (key, ecbStepD C key c)) := fun _ _ => rfl

/-! ### BDE -/

/-- `beltBDEStepE/D` written over the block function `F` (`C.enc` / `C.dec`) -/
def bdeStep (F : Bytes → Bytes → Bytes) (st : BdeSt) (buf : Bytes) : BdeSt × Bytes :=
  ({ st with s := (fullBlocks 16 (Stream.bdeBody F st.key) st.s buf).1,
             block := if buf.length ≥ 16 then (fullBlocks 16 (Stream.bdeBody F st.key) st.s buf).1 else st.block },
    (fullBlocks 16 (Stream.bdeBody F st.key) st.s buf).2.1 ++ (fullBlocks 16 (Stream.bdeBody F st.key) st.s buf).2.2)

theorem bdeStepE_eq (C : Cipher) (st : BdeSt) (buf : Bytes) : bdeStepE C st buf = bdeStep C.enc st buf := rfl
theorem bdeStepD_eq (C : Cipher) (st : BdeSt) (buf : Bytes) : bdeStepD C st buf = bdeStep C.dec st buf := rfl

theorem bdeStep_nil (F : Bytes → Bytes → Bytes) (st : BdeSt) : bdeStep F st [] = (st, []) := by
  simp [bdeStep, fullBlocks_nil]

/-- a cut after whole blocks: outputs are concatenated, the final states are EQUAL (all three fields: `block` is
the copy of `s` made by the last call that processed at least one block) -/
theorem bdeStep_split (F : Bytes → Bytes → Bytes) (st : BdeSt) (a b : Bytes) (ha : a.length % 16 = 0) :
    bdeStep F st (a ++ b) =
      ((bdeStep F (bdeStep F st a).1 b).1, (bdeStep F st a).2 ++ (bdeStep F (bdeStep F st a).1 b).2) := by
  have hra := fullBlocks_whole_rest (Stream.bdeBody F st.key) a ha st.s
  simp only [bdeStep, fullBlocks_append _ st.s a b ha, hra, List.append_nil, List.append_assoc, List.length_append]
  by_cases hb : b.length ≥ 16
  · simp only [hb, if_true, show a.length + b.length ≥ 16 by omega]
  · have hbs := fullBlocks_short (Stream.bdeBody F st.key) (fullBlocks 16 (Stream.bdeBody F st.key) st.s a).1 b
      (by omega)
    simp only [hb, if_false, hbs]
    by_cases ha16 : a.length ≥ 16
    · simp only [ha16, if_true, show a.length + b.length ≥ 16 by omega]
    · have : a = [] := List.eq_nil_of_length_eq_zero (by omega)
      subst this
      simp [fullBlocks_nil, hb]

theorem bde_isStepE (C : Cipher) : IsStep (bdeB C) EOp.encr (bdeStep C.enc) := fun _ _ => rfl
theorem bde_isStepD (C : Cipher) : IsStep (bdeB C) EOp.decr (bdeStep C.dec) := fun _ _ => rfl

theorem wholeBlocks_flatten : ∀ cs : List Bytes, wholeBlocks cs → cs.flatten.length % 16 = 0
  | [], _ => rfl
  | c :: cs, h => by
    have h1 : c.length % 16 = 0 := h c (List.mem_cons_self ..)
    have h2 := wholeBlocks_flatten cs (fun d hd => h d (List.mem_cons_of_mem _ hd))
    simp only [List.flatten_cons, List.length_append]
    omega

/-! ### CFB: both directions at once -/

theorem xorb_append (g1 g2 x1 x2 : Bytes) (h : g1.length = x1.length) :
    xorb (g1 ++ g2) (x1 ++ x2) = xorb g1 x1 ++ xorb g2 x2 := by
  unfold xorb
  exact List.zipWith_append h

/-- The two directions of CFB differ only in what is returned (`fo γ x`) and in what is fed back into
`st->block` (`fn γ x`) for a slice `γ` of the gamma and a slice `x` of the buffer of the same length. -/
structure Fb where
  fo : Bytes → Bytes → Bytes
  fn : Bytes → Bytes → Bytes
  len_o : ∀ γ x : Bytes, γ.length = x.length → (fo γ x).length = x.length
  len_n : ∀ γ x : Bytes, γ.length = x.length → (fn γ x).length = x.length
  app_o : ∀ γ1 γ2 x1 x2 : Bytes, γ1.length = x1.length → fo (γ1 ++ γ2) (x1 ++ x2) = fo γ1 x1 ++ fo γ2 x2
  app_n : ∀ γ1 γ2 x1 x2 : Bytes, γ1.length = x1.length → fn (γ1 ++ γ2) (x1 ++ x2) = fn γ1 x1 ++ fn γ2 x2

/-- encryption: the ciphertext `γ ^ x` is returned and fed back -/
def fbE : Fb where
  fo := xorb
  fn := xorb
  len_o := fun γ x h => by rw [Stream.length_xorb]; omega
  len_n := fun γ x h => by rw [Stream.length_xorb]; omega
  app_o := fun γ1 γ2 x1 x2 h => xorb_append γ1 γ2 x1 x2 h
  app_n := fun γ1 γ2 x1 x2 h => xorb_append γ1 γ2 x1 x2 h

/-- decryption: `x ^ γ` is returned, `γ ^ (x ^ γ)` (= the ciphertext `x`) is fed back -/
def fbD : Fb where
  fo := fun γ x => xorb x γ
  fn := fun γ x => xorb γ (xorb x γ)
  len_o := fun γ x h => by rw [Stream.length_xorb]; omega
  len_n := fun γ x h => by rw [Stream.length_xorb, Stream.length_xorb]; omega
  app_o := fun γ1 γ2 x1 x2 h => xorb_append x1 x2 γ1 γ2 h.symm
  app_n := fun γ1 γ2 x1 x2 h => by
    rw [xorb_append x1 x2 γ1 γ2 h.symm, xorb_append γ1 γ2 _ _ (by rw [Stream.length_xorb]; omega)]

theorem Fb.fo_nil (F : Fb) : F.fo [] [] = [] := List.eq_nil_of_length_eq_zero (F.len_o [] [] rfl)
theorem Fb.fn_nil (F : Fb) : F.fn [] [] = [] := List.eq_nil_of_length_eq_zero (F.len_n [] [] rfl)

/-- `beltCFBStepE` / `beltCFBStepD` with the direction abstracted -/
def cfbG (F : Fb) (C : Cipher) (st : CfbSt) (buf : Bytes) : CfbSt × Bytes :=
  if st.reserved ≠ 0 ∧ st.reserved ≥ buf.length then
    let off := 16 - st.reserved
    let γ := (st.block.drop off).take buf.length
    ({ st with block := putAt st.block off (F.fn γ buf), reserved := st.reserved - buf.length }, F.fo γ buf)
  else
    let off := 16 - st.reserved
    let head := if st.reserved ≠ 0 then F.fo (st.block.drop off) (buf.take st.reserved) else []
    let blk0 := if st.reserved ≠ 0 then putAt st.block off (F.fn (st.block.drop off) (buf.take st.reserved))
      else st.block
    let buf := if st.reserved ≠ 0 then buf.drop st.reserved else buf
    let l := fullBlocks 16 (fun (blk : Bytes) b => (F.fn (C.enc st.key blk) b, F.fo (C.enc st.key blk) b)) blk0 buf
    let r := l.2.2
    if r.length ≠ 0 then
      let g := C.enc st.key l.1
      ({ st with block := F.fn (g.take r.length) r ++ g.drop r.length, reserved := 16 - r.length },
        head ++ l.2.1 ++ F.fo (g.take r.length) r)
    else ({ st with block := l.1, reserved := 0 }, head ++ l.2.1)

theorem cfbStepE_eq (C : Cipher) (st : CfbSt) (buf : Bytes) : cfbStepE C st buf = cfbG fbE C st buf := by
  unfold cfbStepE cfbG
  by_cases hr : st.reserved = 0 <;> simp [hr, fbE]

theorem cfbStepD_eq (C : Cipher) (st : CfbSt) (buf : Bytes) : cfbStepD C st buf = cfbG fbD C st buf := by
  unfold cfbStepD cfbG
  by_cases hr : st.reserved = 0 <;> simp [hr, fbD]

/-- state invariant of CFB (established by `beltCFBStart`, kept by every step) -/
def CfbInv (st : CfbSt) : Prop := st.block.length = 16 ∧ st.reserved ≤ 16

/-- use of the reserve of gamma: `x` must fit (`x.length ≤ st.reserved`) -/
def resG (F : Fb) (st : CfbSt) (x : Bytes) : CfbSt × Bytes :=
  (⟨st.key, putAt st.block (16 - st.reserved) (F.fn ((st.block.drop (16 - st.reserved)).take x.length) x),
    st.reserved - x.length⟩,
   F.fo ((st.block.drop (16 - st.reserved)).take x.length) x)

def bodyG (F : Fb) (C : Cipher) (key : Bytes) : Bytes → Bytes → Bytes × Bytes :=
  fun blk b => (F.fn (C.enc key blk) b, F.fo (C.enc key blk) b)

/-- the part of the step after the reserve has been used up; `blk0` = `st->block` at that point -/
def mainG (F : Fb) (C : Cipher) (key blk0 buf : Bytes) : CfbSt × Bytes :=
  if (fullBlocks 16 (bodyG F C key) blk0 buf).2.2.length ≠ 0 then
    (⟨key,
      F.fn ((C.enc key (fullBlocks 16 (bodyG F C key) blk0 buf).1).take (fullBlocks 16 (bodyG F C key) blk0 buf).2.2.length)
          (fullBlocks 16 (bodyG F C key) blk0 buf).2.2
        ++ (C.enc key (fullBlocks 16 (bodyG F C key) blk0 buf).1).drop (fullBlocks 16 (bodyG F C key) blk0 buf).2.2.length,
      16 - (fullBlocks 16 (bodyG F C key) blk0 buf).2.2.length⟩,
     (fullBlocks 16 (bodyG F C key) blk0 buf).2.1 ++
      F.fo ((C.enc key (fullBlocks 16 (bodyG F C key) blk0 buf).1).take (fullBlocks 16 (bodyG F C key) blk0 buf).2.2.length)
        (fullBlocks 16 (bodyG F C key) blk0 buf).2.2)
  else (⟨key, (fullBlocks 16 (bodyG F C key) blk0 buf).1, 0⟩, (fullBlocks 16 (bodyG F C key) blk0 buf).2.1)

/-- nothing left after the reserve: the state is not touched any more -/
def mainG' (F : Fb) (C : Cipher) (s : CfbSt) (y : Bytes) : CfbSt × Bytes :=
  if y.length = 0 then (s, []) else mainG F C s.key s.block y

theorem resG_nil (F : Fb) (st : CfbSt) : resG F st [] = (st, []) := by
  simp only [resG, List.length_nil, List.take_zero, F.fn_nil, F.fo_nil, Stream.putAt_nil, Nat.sub_zero]

theorem mainG_nil (F : Fb) (C : Cipher) (key blk0 : Bytes) : mainG F C key blk0 [] = (⟨key, blk0, 0⟩, []) := by
  simp [mainG, fullBlocks_nil]

/-- the step = reserve, then the rest -/
theorem cfbG_decomp (F : Fb) (C : Cipher) (st : CfbSt) (hi : CfbInv st) (buf : Bytes) :
    cfbG F C st buf =
      ((mainG' F C (resG F st (buf.take st.reserved)).1 (buf.drop st.reserved)).1,
       (resG F st (buf.take st.reserved)).2 ++ (mainG' F C (resG F st (buf.take st.reserved)).1 (buf.drop st.reserved)).2) := by
  obtain ⟨hb, hr⟩ := hi
  by_cases h : st.reserved ≠ 0 ∧ st.reserved ≥ buf.length
  · have e1 : buf.take st.reserved = buf := List.take_of_length_le h.2
    have e2 : buf.drop st.reserved = [] := List.drop_eq_nil_of_le h.2
    rw [e1, e2]
    simp only [cfbG, if_pos h, mainG', List.length_nil, if_true, List.append_nil, resG]
  · by_cases h0 : st.reserved = 0
    · simp only [h0, List.take_zero, List.drop_zero, resG_nil, List.nil_append]
      by_cases hbuf : buf.length = 0
      · have : buf = [] := List.eq_nil_of_length_eq_zero hbuf
        subst this
        cases st with
        | mk key block reserved =>
          simp only at h0
          subst h0
          simp [cfbG, mainG', fullBlocks_nil]
      · have hbody : (fun (blk : Bytes) b => (F.fn (C.enc st.key blk) b, F.fo (C.enc st.key blk) b))
            = bodyG F C st.key := rfl
        simp only [cfbG, h0, mainG', hbuf, if_false, mainG, hbody, ne_eq, not_true_eq_false, false_and,
          List.nil_append]
    · have hlt : st.reserved < buf.length := by
        have : ¬ st.reserved ≥ buf.length := fun h' => h ⟨h0, h'⟩
        omega
      have hd : (st.block.drop (16 - st.reserved)).length = st.reserved := by
        simp only [List.length_drop, hb]; omega
      have htk : (buf.take st.reserved).length = st.reserved := by simp only [List.length_take]; omega
      have e1 : (st.block.drop (16 - st.reserved)).take st.reserved
          = st.block.drop (16 - st.reserved) := List.take_of_length_le (by omega)
      have hne : ¬ (buf.drop st.reserved).length = 0 := by simp only [List.length_drop]; omega
      have hbody : (fun (blk : Bytes) b => (F.fn (C.enc st.key blk) b, F.fo (C.enc st.key blk) b))
          = bodyG F C st.key := rfl
      unfold cfbG
      rw [if_neg h]
      simp only [h0, ne_eq, not_false_eq_true, if_true, mainG', hne, if_false, resG, e1, htk,
        Nat.sub_self, mainG, hbody]
      by_cases hr : (fullBlocks 16 (bodyG F C st.key) (putAt st.block (16 - st.reserved)
          (F.fn (st.block.drop (16 - st.reserved)) (buf.take st.reserved))) (buf.drop st.reserved)).2.2.length = 0
      · simp only [hr, not_true_eq_false, if_false, List.append_assoc]
      · simp only [hr, not_false_eq_true, if_true, List.append_assoc]

theorem length_putAt_le (blk x : Bytes) (off : Nat) (h : off + x.length ≤ blk.length) :
    (putAt blk off x).length = blk.length := Stream.length_putAt blk x off h

theorem resG_inv (F : Fb) (st : CfbSt) (hi : CfbInv st) (x : Bytes) (hx : x.length ≤ st.reserved) :
    CfbInv (resG F st x).1 := by
  obtain ⟨hb, hr⟩ := hi
  have hg : ((st.block.drop (16 - st.reserved)).take x.length).length = x.length := by
    simp only [List.length_take, List.length_drop, hb]; omega
  refine ⟨?_, ?_⟩
  · simp only [resG]
    rw [Stream.length_putAt _ _ _ (by rw [F.len_n _ _ hg, hb]; omega)]; exact hb
  · simp only [resG]; omega

theorem mainG_inv (F : Fb) (C : Cipher) (hE : ∀ k x, x.length = 16 → (C.enc k x).length = 16)
    (key blk0 : Bytes) (h0 : blk0.length = 16) (buf : Bytes) : CfbInv (mainG F C key blk0 buf).1 := by
  have hL := Stream.fullBlocks_lengths 16 (by omega) (bodyG F C key) (fun s => s.length = 16)
    (fun s b hs hb => by
      have hg := hE key s hs
      show (F.fn (C.enc key s) b).length = 16 ∧ (F.fo (C.enc key s) b).length = 16
      rw [F.len_n _ _ (by omega), F.len_o _ _ (by omega)]
      exact ⟨hb, hb⟩)
    buf.length buf blk0 (Nat.le_refl _) h0
  obtain ⟨h1, _, h3, _⟩ := hL
  have hg := hE key _ h1
  unfold mainG
  split
  · refine ⟨?_, by simp only []; omega⟩
    simp only [List.length_append, List.length_drop, hg]
    rw [F.len_n _ _ (by simp only [List.length_take, hg]; omega)]
    omega
  · exact ⟨h1, by simp only []; omega⟩

theorem cfbG_inv (F : Fb) (C : Cipher) (hE : ∀ k x, x.length = 16 → (C.enc k x).length = 16)
    (st : CfbSt) (hi : CfbInv st) (buf : Bytes) : CfbInv (cfbG F C st buf).1 := by
  rw [cfbG_decomp F C st hi buf]
  have h1 := resG_inv F st hi (buf.take st.reserved) (by simp only [List.length_take]; omega)
  simp only [mainG']
  split
  · exact h1
  · exact mainG_inv F C hE _ _ h1.1 _

theorem cfbG_nil (F : Fb) (C : Cipher) (st : CfbSt) (hi : CfbInv st) : cfbG F C st [] = (st, []) := by
  rw [cfbG_decomp F C st hi []]
  simp [resG_nil, mainG']

/-! #### the reserve -/

theorem putAt_drop (B N : Bytes) (off : Nat) (h : off ≤ B.length) :
    (putAt B off N).drop (off + N.length) = B.drop (off + N.length) := by
  have ht : (B.take off ++ N).length = off + N.length := by
    simp only [List.length_append, List.length_take]; omega
  simp only [putAt]
  rw [List.drop_left' ht]

theorem putAt_putAt (B N M : Bytes) (off : Nat) (h : off ≤ B.length) :
    putAt (putAt B off N) (off + N.length) M = putAt B off (N ++ M) := by
  have ht : (B.take off ++ N).length = off + N.length := by
    simp only [List.length_append, List.length_take]; omega
  have e1 : (putAt B off N).take (off + N.length) = B.take off ++ N := by
    simp only [putAt]
    rw [List.take_left' ht]
  have e2 : (putAt B off N).drop (off + N.length + M.length) = B.drop (off + (N ++ M).length) := by
    rw [← List.drop_drop, putAt_drop B N off h, List.drop_drop, List.length_append, Nat.add_assoc]
  rw [putAt, e1, e2, putAt]
  simp only [List.append_assoc]

/-- two uses of the reserve in a row = one use on the concatenation -/
theorem resG_append (F : Fb) (st : CfbSt) (hi : CfbInv st) (x y : Bytes) (hxy : x.length + y.length ≤ st.reserved) :
    resG F st (x ++ y) =
      ((resG F (resG F st x).1 y).1, (resG F st x).2 ++ (resG F (resG F st x).1 y).2) := by
  obtain ⟨hb, hr⟩ := hi
  have hgx : ((st.block.drop (16 - st.reserved)).take x.length).length = x.length := by
    simp only [List.length_take, List.length_drop, hb]; omega
  have hnx := F.len_n _ _ hgx
  -- the slice of gamma for x ++ y
  have eg : (st.block.drop (16 - st.reserved)).take (x.length + y.length) =
      (st.block.drop (16 - st.reserved)).take x.length ++ (st.block.drop (16 - st.reserved + x.length)).take y.length := by
    rw [List.take_add, List.drop_drop]
  -- the offset of the second use
  have eo : 16 - (st.reserved - x.length) = 16 - st.reserved + x.length := by omega
  have ed : (putAt st.block (16 - st.reserved) (F.fn ((st.block.drop (16 - st.reserved)).take x.length) x)).drop
      (16 - st.reserved + x.length) = st.block.drop (16 - st.reserved + x.length) := by
    have := putAt_drop st.block (F.fn ((st.block.drop (16 - st.reserved)).take x.length) x) (16 - st.reserved)
      (by omega)
    rw [hnx] at this
    exact this
  have ep := putAt_putAt st.block (F.fn ((st.block.drop (16 - st.reserved)).take x.length) x)
    (F.fn ((st.block.drop (16 - st.reserved + x.length)).take y.length) y) (16 - st.reserved) (by omega)
  rw [hnx] at ep
  simp only [resG, List.length_append, eg, eo, ed, ep, F.app_n _ _ _ _ hgx, F.app_o _ _ _ _ hgx, Nat.sub_sub]

/-! #### the main part -/

theorem mainG_cons (F : Fb) (C : Cipher) (key blk0 w y : Bytes) (hw : w.length = 16) :
    mainG F C key blk0 (w ++ y) =
      ((mainG F C key (F.fn (C.enc key blk0) w) y).1,
       F.fo (C.enc key blk0) w ++ (mainG F C key (F.fn (C.enc key blk0) w) y).2) := by
  have hbody : bodyG F C key blk0 w = (F.fn (C.enc key blk0) w, F.fo (C.enc key blk0) w) := rfl
  simp only [mainG, fullBlocks_cons _ blk0 w y hw, hbody]
  by_cases hr : (fullBlocks 16 (bodyG F C key) (F.fn (C.enc key blk0) w) y).2.2.length = 0
  · simp only [hr, ne_eq, not_true_eq_false, if_false]
  · simp only [hr, ne_eq, not_false_eq_true, if_true, List.append_assoc]

/-- at most one block: the uniform shape (a full block leaves `reserved = 0` and no gamma) -/
theorem mainG_le16 (F : Fb) (C : Cipher) (hE : ∀ k x, x.length = 16 → (C.enc k x).length = 16)
    (key blk0 y : Bytes) (h0 : blk0.length = 16) (hy0 : 0 < y.length) (hy : y.length ≤ 16) :
    mainG F C key blk0 y =
      (⟨key, F.fn ((C.enc key blk0).take y.length) y ++ (C.enc key blk0).drop y.length, 16 - y.length⟩,
       F.fo ((C.enc key blk0).take y.length) y) := by
  have hg := hE key blk0 h0
  by_cases hlt : y.length < 16
  · have hne : y.length ≠ 0 := by omega
    simp only [mainG, fullBlocks_short _ blk0 y hlt, hne, ne_eq, not_false_eq_true, if_true, List.nil_append]
  · have h16 : y.length = 16 := by omega
    have := mainG_cons F C key blk0 y [] h16
    rw [List.append_nil] at this
    rw [this, mainG_nil, h16, List.take_of_length_le (by omega), List.drop_eq_nil_of_le (by omega)]
    simp only [List.append_nil]

/-- a partial block `a` has been processed (state as left by `mainG`), the next fragment still fits -/
theorem resG_after_partial (F : Fb) (key g a b : Bytes) (hg : g.length = 16) (ha : a.length < 16)
    (hab : a.length + b.length ≤ 16) :
    resG F ⟨key, F.fn (g.take a.length) a ++ g.drop a.length, 16 - a.length⟩ b =
      (⟨key, F.fn (g.take (a.length + b.length)) (a ++ b) ++ g.drop (a.length + b.length),
        16 - (a.length + b.length)⟩,
       F.fo ((g.drop a.length).take b.length) b) ∧
    F.fo (g.take (a.length + b.length)) (a ++ b) =
      F.fo (g.take a.length) a ++ F.fo ((g.drop a.length).take b.length) b := by
  have hga : (g.take a.length).length = a.length := by simp only [List.length_take]; omega
  have hna := F.len_n _ _ hga
  have hgb : ((g.drop a.length).take b.length).length = b.length := by
    simp only [List.length_take, List.length_drop]; omega
  have hnb := F.len_n _ _ hgb
  have eo : 16 - (16 - a.length) = a.length := by omega
  have ed : (F.fn (g.take a.length) a ++ g.drop a.length).drop a.length = g.drop a.length :=
    List.drop_left' hna
  have et : (F.fn (g.take a.length) a ++ g.drop a.length).take a.length = F.fn (g.take a.length) a :=
    List.take_left' hna
  have ed2 : (F.fn (g.take a.length) a ++ g.drop a.length).drop (a.length + b.length) = g.drop (a.length + b.length) := by
    rw [← List.drop_drop, ed, List.drop_drop]
  have eg : g.take (a.length + b.length) = g.take a.length ++ (g.drop a.length).take b.length := List.take_add
  refine ⟨?_, ?_⟩
  · simp only [resG, eo, ed, putAt, et, hnb, ed2, eg, F.app_n _ _ _ _ hga, List.append_assoc, Nat.sub_sub]
  · rw [eg, F.app_o _ _ _ _ hga]

/-! #### a cut anywhere -/

theorem mainG_split_nil (F : Fb) (C : Cipher) (key blk0 b : Bytes) (h0 : blk0.length = 16) :
    mainG F C key blk0 ([] ++ b) =
      ((cfbG F C (mainG F C key blk0 []).1 b).1,
       (mainG F C key blk0 []).2 ++ (cfbG F C (mainG F C key blk0 []).1 b).2) := by
  rw [mainG_nil, cfbG_decomp F C ⟨key, blk0, 0⟩ ⟨h0, by simp only []; omega⟩ b]
  simp only [List.take_zero, List.drop_zero, resG_nil, mainG', List.nil_append]
  by_cases hb : b.length = 0
  · have : b = [] := List.eq_nil_of_length_eq_zero hb
    subst this
    simp only [mainG_nil, List.length_nil, if_true]
  · simp only [hb, if_false]

theorem mainG_split_partial (F : Fb) (C : Cipher) (hE : ∀ k x, x.length = 16 → (C.enc k x).length = 16)
    (key blk0 a b : Bytes) (h0 : blk0.length = 16) (ha0 : 0 < a.length) (ha : a.length < 16) :
    mainG F C key blk0 (a ++ b) =
      ((cfbG F C (mainG F C key blk0 a).1 b).1,
       (mainG F C key blk0 a).2 ++ (cfbG F C (mainG F C key blk0 a).1 b).2) := by
  have hg := hE key blk0 h0
  have hna : (F.fn ((C.enc key blk0).take a.length) a).length = a.length :=
    F.len_n _ _ (by simp only [List.length_take]; omega)
  rw [mainG_le16 F C hE key blk0 a h0 ha0 (by omega)]
  simp only []
  have hs1 : CfbInv ⟨key, F.fn ((C.enc key blk0).take a.length) a ++ (C.enc key blk0).drop a.length, 16 - a.length⟩ := by
    refine ⟨?_, by simp only []; omega⟩
    simp only [List.length_append, hna, List.length_drop]; omega
  rw [cfbG_decomp F C _ hs1 b]
  simp only []
  have hb1 : (b.take (16 - a.length)).length ≤ 16 - a.length := by simp only [List.length_take]; omega
  obtain ⟨r1, r2⟩ := resG_after_partial F key (C.enc key blk0) a (b.take (16 - a.length)) hg ha (by omega)
  rw [r1]
  simp only [mainG']
  by_cases hb2 : (b.drop (16 - a.length)).length = 0
  · have hbl : b.length ≤ 16 - a.length := by simp only [List.length_drop] at hb2; omega
    have e1 : b.take (16 - a.length) = b := List.take_of_length_le hbl
    rw [e1] at r2 ⊢
    simp only [hb2, if_true, List.append_nil]
    rw [mainG_le16 F C hE key blk0 (a ++ b) h0 (by simp only [List.length_append]; omega)
      (by simp only [List.length_append]; omega)]
    simp only [List.length_append, r2]
  · have hbl : 16 - a.length < b.length := by simp only [List.length_drop] at hb2; omega
    have hl1 : (b.take (16 - a.length)).length = 16 - a.length := by simp only [List.length_take]; omega
    have hsum : a.length + (b.take (16 - a.length)).length = 16 := by omega
    have hw : (a ++ b.take (16 - a.length)).length = 16 := by simp only [List.length_append]; omega
    have eb : a ++ b = (a ++ b.take (16 - a.length)) ++ b.drop (16 - a.length) := by
      rw [List.append_assoc, List.take_append_drop]
    have et : (C.enc key blk0).take 16 = C.enc key blk0 := List.take_of_length_le (by omega)
    have edr : (C.enc key blk0).drop 16 = [] := List.drop_eq_nil_of_le (by omega)
    rw [hsum, et] at r2
    rw [hsum, et, edr]
    simp only [hb2, if_false, List.append_nil]
    rw [eb, mainG_cons F C key blk0 _ _ hw, r2]
    simp only [List.append_assoc]

theorem mainG_split (F : Fb) (C : Cipher) (hE : ∀ k x, x.length = 16 → (C.enc k x).length = 16) (key : Bytes) :
    ∀ (n : Nat) (a : Bytes), a.length ≤ n → ∀ (blk0 b : Bytes), blk0.length = 16 →
      mainG F C key blk0 (a ++ b) =
        ((cfbG F C (mainG F C key blk0 a).1 b).1,
         (mainG F C key blk0 a).2 ++ (cfbG F C (mainG F C key blk0 a).1 b).2) := by
  intro n
  induction n with
  | zero =>
    intro a han blk0 b h0
    have : a = [] := List.eq_nil_of_length_eq_zero (by omega)
    subst this
    exact mainG_split_nil F C key blk0 b h0
  | succ n ih =>
    intro a han blk0 b h0
    by_cases h16 : 16 ≤ a.length
    · obtain ⟨w, a', rfl, hw⟩ : ∃ w a' : Bytes, a = w ++ a' ∧ w.length = 16 :=
        ⟨a.take 16, a.drop 16, (List.take_append_drop 16 a).symm, by simp only [List.length_take]; omega⟩
      have hblk1 : (F.fn (C.enc key blk0) w).length = 16 := by
        rw [F.len_n _ _ (by rw [hE key blk0 h0, hw])]; exact hw
      simp only [List.length_append] at han
      rw [List.append_assoc, mainG_cons F C key blk0 w (a' ++ b) hw, mainG_cons F C key blk0 w a' hw,
        ih a' (by omega) _ b hblk1]
      simp only [List.append_assoc]
    · by_cases ha0 : a.length = 0
      · have : a = [] := List.eq_nil_of_length_eq_zero ha0
        subst this
        exact mainG_split_nil F C key blk0 b h0
      · exact mainG_split_partial F C hE key blk0 a b h0 (by omega) (by omega)

/-- THE SPLIT LEMMA OF CFB: a cut anywhere (inside the reserve, inside a block, at a block boundary, with empty
pieces) changes neither the returned octets nor the final state. -/
theorem cfbG_split (F : Fb) (C : Cipher) (hE : ∀ k x, x.length = 16 → (C.enc k x).length = 16)
    (st : CfbSt) (hi : CfbInv st) (a b : Bytes) :
    cfbG F C st (a ++ b) =
      ((cfbG F C (cfbG F C st a).1 b).1, (cfbG F C st a).2 ++ (cfbG F C (cfbG F C st a).1 b).2) := by
  by_cases hle : a.length ≤ st.reserved
  · -- `a` is served from the reserve
    have ea1 : a.take st.reserved = a := List.take_of_length_le hle
    have ea2 : a.drop st.reserved = [] := List.drop_eq_nil_of_le hle
    have hA : cfbG F C st a = ((resG F st a).1, (resG F st a).2) := by
      rw [cfbG_decomp F C st hi a, ea1, ea2]
      simp only [mainG', List.length_nil, if_true, List.append_nil]
    have hs1 := resG_inv F st hi a hle
    have e1 : (a ++ b).take st.reserved = a ++ b.take (st.reserved - a.length) := by
      rw [List.take_append, ea1]
    have e2 : (a ++ b).drop st.reserved = b.drop (st.reserved - a.length) := by
      rw [List.drop_append, ea2, List.nil_append]
    have hr1 : (resG F st a).1.reserved = st.reserved - a.length := rfl
    rw [hA]
    simp only []
    rw [cfbG_decomp F C st hi (a ++ b), e1, e2, cfbG_decomp F C _ hs1 b, hr1,
      resG_append F st hi a _ (by simp only [List.length_take]; omega)]
    simp only [List.append_assoc]
  · -- `a` exhausts the reserve
    have hlt : st.reserved < a.length := by omega
    have e1 : (a ++ b).take st.reserved = a.take st.reserved := List.take_append_of_le_length (by omega)
    have e2 : (a ++ b).drop st.reserved = a.drop st.reserved ++ b := List.drop_append_of_le_length (by omega)
    have hs1 := resG_inv F st hi (a.take st.reserved) (by simp only [List.length_take]; omega)
    have hne : ¬ (a.drop st.reserved).length = 0 := by simp only [List.length_drop]; omega
    have hne2 : ¬ (a.drop st.reserved ++ b).length = 0 := by
      simp only [List.length_append, List.length_drop]; omega
    rw [cfbG_decomp F C st hi (a ++ b), cfbG_decomp F C st hi a, e1, e2]
    simp only [mainG', hne, hne2, if_false]
    rw [mainG_split F C hE _ _ _ (Nat.le_refl _) _ b hs1.1]
    simp only [List.append_assoc]

theorem cfb_isStepE (C : Cipher) : IsStep (cfbB C) EOp.encr (cfbG fbE C) := fun s c => by
  show ((cfbStepE C s c).1, Out.data (cfbStepE C s c).2) = _
  rw [cfbStepE_eq]

theorem cfb_isStepD (C : Cipher) : IsStep (cfbB C) EOp.decr (cfbG fbD C) := fun s c => by
  show ((cfbStepD C s c).1, Out.data (cfbStepD C s c).2) = _
  rw [cfbStepD_eq]

/-- any fragmentation of CFB, both directions -/
theorem cfbG_chunks (F : Fb) (C : Cipher) (hE : ∀ k x, x.length = 16 → (C.enc k x).length = 16)
    (mk : Bytes → EOp) (hB : IsStep (cfbB C) mk (cfbG F C)) (st : CfbSt) (hi : CfbInv st) (cs : List Bytes) :
    dataOf (outs (cfbB C) st (calls mk cs)) = (cfbG F C st cs.flatten).2 ∧
    after (cfbB C) st (calls mk cs) = (cfbG F C st cs.flatten).1 :=
  fold_free (cfbB C) mk (cfbG F C) hB CfbInv (fun _ => True) (fun s hs => cfbG_nil F C s hs)
    (fun s c hs _ => cfbG_inv F C hE s hs c) (fun s a b hs _ => cfbG_split F C hE s hs a b) cs st hi
    (fun _ _ => trivial)

/-! ### CBC -/

/-- `beltCBCStepE` over a block map: a cut after whole blocks, at least one block left -/
theorem cbcE_split (f : Bytes → Bytes) (hlen : ∀ x, x.length = 16 → (f x).length = 16)
    (iv a b : Bytes) (hiv : iv.length = 16) (ha : a.length % 16 = 0) (hb : 16 ≤ b.length) :
    cbcE f iv (a ++ b) = ((cbcE f (cbcE f iv a).1 b).1, (cbcE f iv a).2 ++ (cbcE f (cbcE f iv a).1 b).2) := by
  rw [cbcE_whole f iv a ha]
  simp only []
  have hfab := fullBlocks_append (cbcEB f) iv a
  by_cases hr : b.length % 16 = 0
  · rw [cbcE_whole f _ b hr, cbcE_whole f iv (a ++ b) (by simp only [List.length_append]; omega), hfab b ha]
  · obtain ⟨pre, last, tail, rfl, hpre, hlast, ht0, ht⟩ := ragged_decomp b hb hr
    obtain ⟨_, hs1⟩ := cbcE_loop_len f hlen a ha iv hiv
    obtain ⟨_, hs2⟩ := cbcE_loop_len f hlen pre hpre _ hs1
    have hx : (xorb (fullBlocks 16 (cbcEB f) (fullBlocks 16 (cbcEB f) iv a).1 pre).1 last).length = 16 := by
      rw [length_xorb]; omega
    have hcl := hlen _ hx
    have e : a ++ (pre ++ last ++ tail) = (a ++ pre) ++ last ++ tail := by simp only [List.append_assoc]
    rw [e, cbcE_ragged f iv (a ++ pre) last tail _ (by simp only [List.length_append]; omega) hlast ht0 ht
        (by rw [hfab pre ha]) hcl,
      cbcE_ragged f _ pre last tail _ hpre hlast ht0 ht rfl hcl, hfab pre ha]
    simp only [List.append_assoc]

/-- the chaining block stays a block -/
theorem cbcE_state_len (f : Bytes → Bytes) (hlen : ∀ x, x.length = 16 → (f x).length = 16)
    (iv a : Bytes) (hiv : iv.length = 16) (ha : a.length % 16 = 0) : (cbcE f iv a).1.length = 16 := by
  rw [cbcE_whole f iv a ha]
  exact (cbcE_loop_len f hlen a ha iv hiv).2

/-- `beltCBCStepD` over a block map: a cut after whole blocks, at least one block left; no hypothesis on `g` or
on the state -/
theorem cbcD_split (g : Bytes → Bytes) (s : Bytes × Bytes) (a b : Bytes) (ha : a.length % 16 = 0)
    (hb : 16 ≤ b.length) :
    cbcD g s (a ++ b) = ((cbcD g (cbcD g s a).1 b).1, (cbcD g s a).2 ++ (cbcD g (cbcD g s a).1 b).2) := by
  rw [cbcD_whole g s a ha]
  simp only []
  have hfab := fullBlocks_append (cbcDB g) s a
  by_cases hr : b.length % 16 = 0
  · rw [cbcD_whole g _ b hr, cbcD_whole g s (a ++ b) (by simp only [List.length_append]; omega), hfab b ha]
  · obtain ⟨pre, last, tail, rfl, hpre, hlast, ht0, ht⟩ := ragged_decomp b hb hr
    have e : a ++ (pre ++ last ++ tail) = (a ++ pre) ++ last ++ tail := by simp only [List.append_assoc]
    rw [e, cbcD_ragged g s (a ++ pre) last tail (by simp only [List.length_append]; omega) hlast ht0 ht,
      cbcD_ragged g _ pre last tail hpre hlast ht0 ht, hfab pre ha]
    simp only [List.append_assoc]

theorem cbc_isStepE (C : Cipher) : IsStep (cbcB C) EOp.encr (cbcStepE C) := fun _ _ => rfl
theorem cbc_isStepD (C : Cipher) : IsStep (cbcB C) EOp.decr (cbcStepD C) := fun _ _ => rfl

theorem cbcStepE_split (C : Cipher) (hE : ∀ k x, x.length = 16 → (C.enc k x).length = 16)
    (st : CbcSt) (hiv : st.block.length = 16) (a b : Bytes) (ha : a.length % 16 = 0) (hb : 16 ≤ b.length) :
    cbcStepE C st (a ++ b) =
      ((cbcStepE C (cbcStepE C st a).1 b).1, (cbcStepE C st a).2 ++ (cbcStepE C (cbcStepE C st a).1 b).2) := by
  simp only [cbcStepE_eq]
  rw [cbcE_split (C.enc st.key) (hE st.key) st.block a b hiv ha hb]

theorem cbcStepE_inv (C : Cipher) (hE : ∀ k x, x.length = 16 → (C.enc k x).length = 16)
    (st : CbcSt) (hiv : st.block.length = 16) (a : Bytes) (ha : a.length % 16 = 0) :
    (cbcStepE C st a).1.block.length = 16 := by
  simp only [cbcStepE_eq]
  exact cbcE_state_len (C.enc st.key) (hE st.key) st.block a hiv ha

theorem cbcStepD_split (C : Cipher) (st : CbcSt) (a b : Bytes) (ha : a.length % 16 = 0) (hb : 16 ≤ b.length) :
    cbcStepD C st (a ++ b) =
      ((cbcStepD C (cbcStepD C st a).1 b).1, (cbcStepD C st a).2 ++ (cbcStepD C (cbcStepD C st a).1 b).2) := by
  simp only [cbcStepD_eq]
  rw [cbcD_split (C.dec st.key) (st.block, st.block2) a b ha hb]

/-! ### SDE -/

/-- the sector of a call -/
def sdeData : SdeOp → Bytes
  | .encr _ d => d
  | .decr _ d => d

/-- the one-shot function `beltSDEEncr` / `beltSDEDecr` that corresponds to a call (fresh `beltSDEStart(key)`) -/
def sdeOneShot (C : Cipher) (key : Bytes) : SdeOp → Err × Option Bytes
  | .encr iv d => sdeEncr C d key iv
  | .decr iv d => sdeDecr C d key iv

theorem sde_step_state (C : Cipher) (k : Bytes) (op : SdeOp) : ((sdeB C).step k op).1 = k := by
  cases op <;> rfl

theorem sde_step_out (C : Cipher) (key : Bytes) (hk : validKeyLen key.length = true) (op : SdeOp)
    (hs : sector (sdeData op)) :
    ∃ b, ((sdeB C).step (fmtKey key) op).2 = Out.data b ∧ sdeOneShot C key op = (.ok, some b) := by
  obtain ⟨h1, h2⟩ := hs
  cases op with
  | encr iv d =>
    simp only [sdeData] at h1 h2
    refine ⟨sdeStepE C (fmtKey key) iv d, rfl, ?_⟩
    simp only [sdeOneShot, sdeEncr, hk, h1, ne_eq, not_true_eq_false, decide_false, Bool.not_true, Bool.or_false,
      show ¬ d.length < 32 by omega, Bool.false_eq_true, if_false]
  | decr iv d =>
    simp only [sdeData] at h1 h2
    refine ⟨sdeStepD C (fmtKey key) iv d, rfl, ?_⟩
    simp only [sdeOneShot, sdeDecr, hk, h1, ne_eq, not_true_eq_false, decide_false, Bool.not_true, Bool.or_false,
      show ¬ d.length < 32 by omega, Bool.false_eq_true, if_false]

/-- a returned buffer seen as the result of a successful high-level call -/
def okOut : Out → Err × Option Bytes
  | .data b => (.ok, some b)
  | _ => (.badInput, none)

theorem sde_session (C : Cipher) (key : Bytes) (hk : validKeyLen key.length = true) :
    ∀ ops : List SdeOp, (∀ op ∈ ops, sector (sdeData op)) →
      (outs (sdeB C) (fmtKey key) (ops.map Call.op)).map okOut = ops.map (sdeOneShot C key) ∧
      after (sdeB C) (fmtKey key) (ops.map Call.op) = fmtKey key := by
  intro ops
  induction ops with
  | nil => intro _; exact ⟨rfl, rfl⟩
  | cons op ops ih =>
    intro h
    obtain ⟨i1, i2⟩ := ih (fun o ho => h o (List.mem_cons_of_mem _ ho))
    have e : run (sdeB C) (fmtKey key) ((op :: ops).map Call.op) =
        ((run (sdeB C) ((sdeB C).step (fmtKey key) op).1 (ops.map Call.op)).1,
         ((sdeB C).step (fmtKey key) op).2 :: (run (sdeB C) ((sdeB C).step (fmtKey key) op).1 (ops.map Call.op)).2) := rfl
    obtain ⟨b, hb1, hb2⟩ := sde_step_out C key hk op (h op (List.mem_cons_self ..))
    simp only [outs, after] at i1 i2 ⊢
    rw [e, sde_step_state]
    simp only [List.map_cons, i1, i2, hb1, hb2, okOut, and_self]

end Bee2V.C10.Modes

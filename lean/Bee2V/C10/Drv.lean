/-
C10 — line protocol of `drv_c10` (grammar: docs/C10.md §protocol, generator in props/C10.py).
One line = one SESSION on one state:  `<bundle> <start params> <call> <call> …`
Every call token is executed through `Bee2V.C10.run` on the `Bundle` of Machines.lean (the objects of the
theorems); `m` = relocation.  Output: one token per executed call (`.` nothing, hex data, `1`/`0` verdict).
-/
import Bee2V.C10.Machines
import Bee2V.C10.Refined
import Bee2V.C03.BashF
import Bee2V.Base.Proto
namespace Bee2V.C10.Drv
open Bee2V.Proto Bee2V.C10 Bee2V

def hx (s : String) : Option Bytes := if s = "" then none else parseHex s

def showOut : Out → String
  | .none => "."
  | .data b => toHex b
  | .verdict true => "1"
  | .verdict false => "0"

/-- data returned by a call made on a COPY of the state (the harness does the same with `memcpy`) -/
def peek {σ ι : Type} (B : Bundle σ ι) (st : σ) (i : ι) : Bytes :=
  match (B.step st i).2 with
  | .data b => b
  | _ => []

/-- run the call tokens; `parse st tok` yields the calls of one token (it may look at the state: `V` = verify
with the right tag, DWP `E` = encrypt then authenticate the cipher text) -/
def runToksD {σ ι : Type} (B : Bundle σ ι) (parse : σ → String → Option (List ι)) (dump : σ → Option String) :
    σ → List String → List String → Option (List String)
  | _, [], acc => some acc.reverse
  | st, t :: ts, acc =>
    if t = "m" then
      let r := run B st [Call.reloc]
      runToksD B parse dump r.1 ts (r.2.reverse.map showOut ++ acc)
    else if t = "D" then
      match dump st with
      | none => none
      | some d => runToksD B parse dump st ts (d :: acc)
    else
      match parse st t with
      | none => none
      | some ops =>
        let r := run B st (ops.map Call.op)
        runToksD B parse dump r.1 ts (r.2.reverse.map showOut ++ acc)

/-- without a state dump (`D` is then parsed as a call token of the bundle, if it has one) -/
def runToks {σ ι : Type} (B : Bundle σ ι) (parse : σ → String → Option (List ι)) :
    σ → List String → List String → Option (List String)
  | _, [], acc => some acc.reverse
  | st, t :: ts, acc =>
    if t = "m" then
      let r := run B st [Call.reloc]
      runToks B parse r.1 ts (r.2.reverse.map showOut ++ acc)
    else
      match parse st t with
      | none => none
      | some ops =>
        let r := run B st (ops.map Call.op)
        runToks B parse r.1 ts (r.2.reverse.map showOut ++ acc)

def fin (r : Option (List String)) : Option String := r.map (fun l => if l.isEmpty then "-" else " ".intercalate l)

def keyOk (k : Bytes) : Bool := k.length == 16 || k.length == 24 || k.length == 32

/-! ### token parsers -/

def pE (_ : σ) (tok : String) : Option (List EOp) :=
  match tok.splitOn ":" with
  | ["e", x] => do let x ← hx x; pure [.encr x]
  | ["d", x] => do let x ← hx x; pure [.decr x]
  | _ => none

def pSde (_ : Bytes) (tok : String) : Option (List SdeOp) :=
  match tok.splitOn ":" with
  | ["e", iv, x] => do
    let iv ← hx iv; let x ← hx x
    if iv.length ≠ 16 ∨ x.length < 32 ∨ x.length % 16 ≠ 0 then none else pure [.encr iv x]
  | ["d", iv, x] => do
    let iv ← hx iv; let x ← hx x
    if iv.length ≠ 16 ∨ x.length < 32 ∨ x.length % 16 ≠ 0 then none else pure [.decr iv x]
  | _ => none

/-- absorb / get / verify; `maxn` = longest tag -/
def pA {σ : Type} (B : Bundle σ AOp) (maxn : σ → Nat) (st : σ) (tok : String) : Option (List AOp) :=
  match tok.splitOn ":" with
  | ["a", x] => do let x ← hx x; pure [.absorb x]
  | ["g", n] => do let n ← parseNat n; if n > maxn st then none else pure [.get n]
  | ["v", t] => do let t ← hx t; if t.length > maxn st then none else pure [.verify t]
  | ["V", n] => do let n ← parseNat n; if n > maxn st then none else pure [.verify (peek B st (.get n))]
  | _ => none

def pAead {σ : Type} (B : Bundle σ AeadOp) (st : σ) (tok : String) : Option (List AeadOp) :=
  match tok.splitOn ":" with
  | ["i", x] => do let x ← hx x; pure [.ad x]
  | ["a", x] => do let x ← hx x; pure [.auth x]
  | ["e", x] => do let x ← hx x; pure [.encr x]
  | ["d", x] => do let x ← hx x; pure [.decr x]
  | ["E", x] => do let x ← hx x; pure [.encr x, .auth (peek B st (.encr x))]
  | ["g"] => pure [.get]
  | ["v", t] => do let t ← hx t; if t.length ≠ 8 then none else pure [.verify t]
  | ["V"] => pure [.verify (peek B st .get)]
  | _ => none

def pKrp (st : KrpR) (tok : String) : Option (List KrpOp) :=
  match tok.splitOn ":" with
  | ["g", n, h] => do
    let n ← parseNat n; let h ← hx h
    if !(n == 16 || n == 24 || n == 32) || n > st.len || h.length ≠ 16 then none else pure [.get n h]
  | _ => none

def pPrg (st : C03.PrgSt) (tok : String) : Option (List PrgOp) :=
  match tok.splitOn ":" with
  | ["A"] => pure [.absorbStart]
  | ["a", x] => do let x ← hx x; pure [.absorb x]
  | ["S"] => pure [.squeezeStart]
  | ["s", n] => do let n ← parseNat n; if n > 4096 then none else pure [.squeeze n]
  | ["E"] => if C03.prgIsKeymode st then pure [.encrStart] else none
  | ["e", x] => do let x ← hx x; pure [.encr x]
  | ["D"] => if C03.prgIsKeymode st then pure [.decrStart] else none
  | ["d", x] => do let x ← hx x; pure [.decr x]
  | ["T"] => pure [.ratchet]
  | _ => none

def pRngCtr (_ : C03.CtrSt) (tok : String) : Option (List RngOp) :=
  match tok.splitOn ":" with
  | ["r", x] => do let x ← hx x; pure [.gen x]
  | ["g"] => pure [.get]
  | _ => none

def pRngHmac (_ : C03.HmacGenSt) (tok : String) : Option (List RngOp) :=
  match tok.splitOn ":" with
  | ["r", n] => do let n ← parseNat n; if n > 4096 then none else pure [.gen (C03.zeros n)]
  | _ => none

def tOk (t : Nat) : Bool := t < 2 ^ 64
def strOk (o : Bytes) : Bool := !o.any (· == 0) && o.length ≤ 15

def pHotp (st : C03.HotpSt) (tok : String) : Option (List HotpOp) :=
  match tok.splitOn ":" with
  | ["S", c] => do let c ← hx c; if c.length ≠ 8 then none else pure [.set c]
  | ["r"] => pure [.next]
  | ["v", o] => do let o ← hx o; if !strOk o then none else pure [.verify o]
  | ["V"] => pure [.verify (peek hotpB st .next)]
  | ["N"] => pure [.verify (peek hotpB (hotpB.step st .next).1 .next)]
  | ["g"] => pure [.get]
  | _ => none

def pTotp (st : TotpR) (tok : String) : Option (List TotpOp) :=
  match tok.splitOn ":" with
  | ["r", t] => do let t ← parseNat t; if !tOk t then none else pure [.next t]
  | ["v", t, o] => do let t ← parseNat t; let o ← hx o; if !tOk t || !strOk o then none else pure [.verify t o]
  | ["V", t] => do let t ← parseNat t; if !tOk t then none else pure [.verify t (peek totpRB st (.next t))]
  | _ => none

def qOk (q : Bytes) (st : C03.OcraSt) : Bool := 4 ≤ q.length && q.length ≤ 2 * st.qMax

def pOcra (st : C03.OcraSt) (tok : String) : Option (List OcraOp) :=
  match tok.splitOn ":" with
  | ["S", c, p, s] => do
    let c ← hx c; let p ← hx p; let s ← hx s
    if (st.ctrLen ≠ 0 ∧ c.length ≠ 8) ∨ (st.pLen ≠ 0 ∧ p.length ≠ st.pLen) ∨ (st.sLen ≠ 0 ∧ s.length ≠ st.sLen) then none
    pure [.set c p s]
  | ["r", q, t] => do
    let q ← hx q; let t ← parseNat t
    if !qOk q st || !tOk t then none else pure [.next q t]
  | ["v", q, t, o] => do
    let q ← hx q; let t ← parseNat t; let o ← hx o
    if !qOk q st || !tOk t || !strOk o then none else pure [.verify q t o]
  | ["V", q, t] => do
    let q ← hx q; let t ← parseNat t
    if !qOk q st || !tOk t then none else pure [.verify q t (peek ocraB st (.next q t))]
  | ["N", q, t] => do
    let q ← hx q; let t ← parseNat t
    if !qOk q st || !tOk t then none
    else pure [.verify q t (peek ocraB (ocraB.step st (.next q t)).1 (.next q t))]
  | ["g"] => pure [.get]
  | _ => none

/-! ### sessions -/

def Cb : C01.Cipher := C01.beltCipher
def F : Bytes → Bytes := C03.bashF

def prgLenOk (ann key : Bytes) (l : Nat) : Bool :=
  ann.length % 4 == 0 && ann.length ≤ 60 && key.length % 4 == 0 && key.length ≤ 60 &&
    (key.length == 0 || key.length ≥ l / 8)

def session : List String → Option String
  | "ecb" :: k :: ts => do
    let k ← hx k
    if !keyOk k then none
    fin (runToks (ecbB Cb) pE (C01.fmtKey k) ts [])
  | "cbc" :: k :: iv :: ts => do
    let k ← hx k; let iv ← hx iv
    if !keyOk k || iv.length ≠ 16 then none
    fin (runToks (cbcB Cb) pE (C01.cbcStart k iv) ts [])
  | "cfb" :: k :: iv :: ts => do
    let k ← hx k; let iv ← hx iv
    if !keyOk k || iv.length ≠ 16 then none
    fin (runToks (cfbB Cb) pE (C01.cfbStart k iv) ts [])
  | "ctr" :: k :: iv :: ts => do
    let k ← hx k; let iv ← hx iv
    if !keyOk k || iv.length ≠ 16 then none
    fin (runToks (ctrB Cb) pE (C01.ctrStart Cb k iv) ts [])
  | "bde" :: k :: iv :: ts => do
    let k ← hx k; let iv ← hx iv
    if !keyOk k || iv.length ≠ 16 then none
    fin (runToks (bdeB Cb) pE (C01.bdeStart Cb k iv) ts [])
  | "sde" :: k :: ts => do
    let k ← hx k
    if !keyOk k then none
    fin (runToks (sdeB Cb) pSde (C01.fmtKey k) ts [])
  | "mac" :: k :: ts => do
    let k ← hx k
    if !keyOk k then none
    fin (runToks (macB Cb) (pA (macB Cb) (fun _ => 8)) (C01.macStart Cb k) ts [])
  | "hash" :: ts => fin (runToks (hashB Cb) (pA (hashB Cb) (fun _ => 32)) C01.hashStart ts [])
  | "hmac" :: k :: ts => do
    let k ← hx k
    fin (runToks (hmacB Cb) (pA (hmacB Cb) (fun _ => 32)) (C01.hmacStart Cb k) ts [])
  | "dwp" :: k :: iv :: ts => do
    let k ← hx k; let iv ← hx iv
    if !keyOk k || iv.length ≠ 16 then none
    fin (runToks (dwpB Cb) (pAead (dwpB Cb)) (C01.dwpStart Cb k iv) ts [])
  | "che" :: k :: iv :: ts => do
    let k ← hx k; let iv ← hx iv
    if !keyOk k || iv.length ≠ 16 then none
    fin (runToks (cheB Cb) (pAead (cheB Cb)) (C01.cheStart Cb k iv) ts [])
  | "krp" :: k :: lvl :: ts => do
    let k ← hx k; let lvl ← hx lvl
    if !keyOk k || lvl.length ≠ 12 then none
    -- the refined machine (members of belt_krp_st; prior memory content 0xC3 as in the harness); `D` dumps them
    fin (runToksD (krpRB Cb) pKrp (fun st => some (toHex (st.key ++ st.block ++ st.keyNew)))
      (krpRStart k lvl (List.replicate 32 0xC3) (List.replicate 32 0xC3)) ts [])
  | "bhash" :: l :: ts => do
    let l ← parseNat l
    if l = 0 ∨ l % 16 ≠ 0 ∨ l > 256 then none
    fin (runToksD (bashHashRB F) (pA (bashHashRB F) (fun _ => l / 4))
      (fun st => some (toHex (st.sp.s ++ st.s1) ++ ":" ++ toString st.sp.pos ++ ":" ++ toString st.sp.bufLen))
      (bashHashRStart l (List.replicate 192 0xC3)) ts [])
  | "prg" :: l :: d :: a :: k :: ts => do
    let l ← parseNat l; let d ← parseNat d; let a ← hx a; let k ← hx k
    if !(l == 128 || l == 192 || l == 256) || !(d == 1 || d == 2) || !prgLenOk a k l then none
    fin (runToks (prgB F) pPrg (C03.prgStart l d a k) ts [])
  | "bctr" :: k :: iv :: ts => do
    let k ← hx k; let iv ← hx iv
    if k.length ≠ 32 || iv.length ≠ 32 then none
    fin (runToks brngCtrB pRngCtr (C03.ctrStart k iv) ts [])
  | "bhmac" :: k :: iv :: ts => do
    let k ← hx k; let iv ← hx iv
    fin (runToks brngHmacB pRngHmac (C03.hmacGenStart k iv) ts [])
  | "hotp" :: dg :: k :: c :: ts => do
    let dg ← parseNat dg; let k ← hx k; let c ← hx c
    if dg < 4 ∨ dg > 9 ∨ c.length ≠ 8 then none
    fin (runToks hotpB pHotp (C03.hotpStepS c (C03.hotpStart dg k)) ts [])
  | "totp" :: dg :: k :: ts => do
    let dg ← parseNat dg; let k ← hx k
    if dg < 4 ∨ dg > 9 then none
    fin (runToksD totpRB pTotp (fun st => some (toHex (st.t ++ st.mac ++ st.otp)))
      (totpRStart dg k (List.replicate 8 0xC3) (List.replicate 32 0xC3) (List.replicate 10 0xC3)) ts [])
  | "ocra" :: su :: k :: ts => do
    let su ← hx su; let k ← hx k
    if su.any (· == 0) then none
    match C03.ocraStart su k with
    | none => pure "bad-format"
    | some st => fin (runToks ocraB pOcra st ts [])
  | _ => none

def dispatch (toks : List String) : String := (session toks).getD "bad-op"

end Bee2V.C10.Drv

/-
C10 helper lemmas: bridges between sessions of the C10 bundles (brng, botp, bash) and the run functions of C03
(`ctrRun`, `hmacGenRun`, `hotpRun`, `runAll`), over which C03 states the "= standard" theorems.
-/
import Bee2V.C10.PropsGen
namespace Bee2V.C10.Std
open Bee2V

/-! ### brng -/

/-- a session of `brngCTRStepR` calls IS `C03.ctrRun` -/
theorem ctr_run_bridge (bufs : List Bytes) : ∀ st : C03.CtrSt,
    run brngCtrB st (calls RngOp.gen bufs) =
      ((C03.ctrRun wOctets bufs st).1, (C03.ctrRun wOctets bufs st).2.map Out.data) := by
  induction bufs with
  | nil => intro st; rfl
  | cons b bs ih =>
    intro st
    show ((run brngCtrB (C03.ctrStepR wOctets b st).1 (calls RngOp.gen bs)).1,
      Out.data (C03.ctrStepR wOctets b st).2 :: (run brngCtrB (C03.ctrStepR wOctets b st).1 (calls RngOp.gen bs)).2) = _
    rw [ih]
    rfl

/-- a session of `brngHMACStepR` calls IS `C03.hmacGenRun` on the buffer lengths -/
theorem hmac_run_bridge (bufs : List Bytes) : ∀ st : C03.HmacGenSt,
    run brngHmacB st (calls RngOp.gen bufs) =
      ((C03.hmacGenRun (bufs.map List.length) st).1, (C03.hmacGenRun (bufs.map List.length) st).2.map Out.data) := by
  induction bufs with
  | nil => intro st; rfl
  | cons b bs ih =>
    intro st
    show ((run brngHmacB (C03.hmacGenStepR b.length st).1 (calls RngOp.gen bs)).1,
      Out.data (C03.hmacGenStepR b.length st).2 ::
        (run brngHmacB (C03.hmacGenStepR b.length st).1 (calls RngOp.gen bs)).2) = _
    rw [ih]
    rfl

theorem dataOf_map_data (l : List Bytes) : dataOf (l.map Out.data) = l.flatten := by
  induction l with
  | nil => rfl
  | cons b l ih => simp only [List.map_cons, dataOf, ih, List.flatten_cons]

/-! ### botp -/

/-- a history of `StepR` (`none`) / `StepV(otp)` (`some otp`) calls as a session of `hotpB` -/
def hotpSession (cs : List (Option Bytes)) : List (Call HotpOp) :=
  cs.map fun c => match c with
    | none => Call.op HotpOp.next
    | some o => Call.op (HotpOp.verify o)

/-- results of `C03.hotpRun` / `C03.Spec.hotpRun` as outputs of calls -/
def hotpOut : Bytes ⊕ Bool → Out
  | .inl b => .data b
  | .inr v => .verdict v

theorem hotp_run_bridge (cs : List (Option Bytes)) : ∀ st : C03.HotpSt,
    run hotpB st (hotpSession cs) = ((C03.hotpRun cs st).1, (C03.hotpRun cs st).2.map hotpOut) := by
  induction cs with
  | nil => intro st; rfl
  | cons c cs ih =>
    intro st
    cases c with
    | none =>
      show ((run hotpB (C03.hotpStepR st).1 (hotpSession cs)).1,
        Out.data (C03.hotpStepR st).2 :: (run hotpB (C03.hotpStepR st).1 (hotpSession cs)).2) = _
      rw [ih]; rfl
    | some o =>
      show ((run hotpB (C03.hotpStepV o st).1 (hotpSession cs)).1,
        Out.verdict (C03.hotpStepV o st).2 :: (run hotpB (C03.hotpStepV o st).1 (hotpSession cs)).2) = _
      rw [ih]; rfl

/-- what a TOTP session returns according to the standard -/
def totpStdOut (key : Bytes) (digit : Nat) : Call TotpOp → Out
  | .reloc => .none
  | .op (.next t) => .data (C03.Spec.totp key digit t)
  | .op (.verify t o) => .verdict (decide (C03.Spec.totp key digit t = o))

end Bee2V.C10.Std

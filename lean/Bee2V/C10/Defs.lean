/-
C10 — incremental APIs.  Generic vocabulary: a *bundle* is a Start/Step/Get family of functions over one
state; a *session* is a list of calls on that state, possibly interleaved with relocations of the state.
No Mathlib (the driver imports this file).

The model state has no addresses, so `Call.reloc` is the identity here; that this is faithful for the C structs
is the content of `Bee2V.Gen.C10Structs` (no pointer members) and of the correspondence run, whose harness
really moves the state (`memcpy` to a fresh exact-size allocation, old copy overwritten with 0xA5 and freed).
-/
namespace Bee2V.C10

abbrev Bytes := List UInt8

/-- what one call returns to the caller -/
inductive Out
  | none                       -- nothing (absorbing step)
  | data (b : Bytes)           -- processed buffer / tag / hash / password / counter
  | verdict (ok : Bool)        -- StepV
  deriving DecidableEq, Repr

/-- a bundle over state `σ` with calls `ι`: `isGet` marks the Get/Verify-type calls, i.e. those that the
documentation allows to be followed by further processing without influence on it -/
structure Bundle (σ ι : Type) where
  step : σ → ι → σ × Out
  isGet : ι → Bool

/-- a call of the bundle, or a relocation of the state in memory -/
inductive Call (ι : Type)
  | op (i : ι)
  | reloc
  deriving Repr

/-- execute a session; returns the final state and the outputs of the calls (relocation returns `Out.none`) -/
def run {σ ι : Type} (B : Bundle σ ι) : σ → List (Call ι) → σ × List Out
  | s, [] => (s, [])
  | s, .reloc :: cs => let r := run B s cs; (r.1, Out.none :: r.2)
  | s, .op i :: cs =>
    let q := B.step s i
    let r := run B q.1 cs
    (r.1, q.2 :: r.2)

/-- outputs only -/
def outs {σ ι : Type} (B : Bundle σ ι) (s : σ) (cs : List (Call ι)) : List Out := (run B s cs).2
/-- final state only -/
def after {σ ι : Type} (B : Bundle σ ι) (s : σ) (cs : List (Call ι)) : σ := (run B s cs).1

/-- GET-THEN-CONTINUE, observational form: from the state reached by ANY session `pre` from `s0` (it may itself
contain Get/Verify calls and relocations), making one more Get/Verify-type call `g` — successful or not — and
then continuing with ANY session `post` yields the same outputs as continuing without having made that call. -/
def GetObservational {σ ι : Type} (B : Bundle σ ι) (s0 : σ) : Prop :=
  ∀ (pre post : List (Call ι)) (g : ι), B.isGet g = true →
    outs B (after B s0 (pre ++ [.op g])) post = outs B (after B s0 pre) post

/-- RELOCATION, model side: a relocation anywhere in a session changes neither the later outputs nor the state. -/
def RelocInvisible {σ ι : Type} (B : Bundle σ ι) : Prop :=
  ∀ (s : σ) (pre post : List (Call ι)),
    run B s (pre ++ .reloc :: post) =
      ((run B s (pre ++ post)).1, (run B s pre).2 ++ Out.none :: (run B (run B s pre).1 post).2)

theorem run_append {σ ι : Type} (B : Bundle σ ι) (s : σ) (a b : List (Call ι)) :
    run B s (a ++ b) = ((run B (run B s a).1 b).1, (run B s a).2 ++ (run B (run B s a).1 b).2) := by
  induction a generalizing s with
  | nil => rfl
  | cons c a ih =>
    cases c with
    | reloc => simp only [List.cons_append, run, ih, List.cons_append]
    | op i => simp only [List.cons_append, run, ih, List.cons_append]

theorem after_append {σ ι : Type} (B : Bundle σ ι) (s : σ) (a b : List (Call ι)) :
    after B s (a ++ b) = after B (after B s a) b := by
  simp only [after, run_append]

/-- relocation is invisible in every model bundle (the model has no addresses) -/
theorem relocInvisible {σ ι : Type} (B : Bundle σ ι) : RelocInvisible B := by
  intro s pre post
  rw [run_append, run_append]
  simp only [run]

/-- Simulation principle used for all get-then-continue theorems.  `R s a` relates a concrete state to an
abstract one (typically: the data absorbed so far); every call preserves `R` and returns what the abstract call
returns; abstract Get/Verify calls do not change the abstract state.  Then Get/Verify calls are unobservable. -/
theorem getObservational_of_sim {σ ι α : Type} (B : Bundle σ ι) (R : σ → α → Prop) (astep : α → ι → α × Out)
    (hstep : ∀ s a i, R s a → R (B.step s i).1 (astep a i).1 ∧ (B.step s i).2 = (astep a i).2)
    (hget : ∀ a g, B.isGet g = true → (astep a g).1 = a)
    (s0 : σ) (a0 : α) (h0 : R s0 a0) : GetObservational B s0 := by
  -- related states produce the same outputs
  have hout : ∀ (cs : List (Call ι)) (s s' : σ) (a : α), R s a → R s' a → outs B s cs = outs B s' cs := by
    intro cs
    induction cs with
    | nil => intros; rfl
    | cons c cs ih =>
      intro s s' a h h'
      cases c with
      | reloc =>
        show Out.none :: (run B s cs).2 = Out.none :: (run B s' cs).2
        have := ih s s' a h h'
        simp only [outs] at this
        rw [this]
      | op i =>
        have e := hstep s a i h
        have e' := hstep s' a i h'
        show (B.step s i).2 :: (run B (B.step s i).1 cs).2 = (B.step s' i).2 :: (run B (B.step s' i).1 cs).2
        have := ih _ _ _ e.1 e'.1
        simp only [outs] at this
        rw [this, e.2, e'.2]
  -- reachable states are related to some abstract state
  have hreach : ∀ (cs : List (Call ι)) (s : σ) (a : α), R s a → ∃ a', R (after B s cs) a' := by
    intro cs
    induction cs with
    | nil => intro s a h; exact ⟨a, h⟩
    | cons c cs ih =>
      intro s a h
      cases c with
      | reloc => exact ih s a h
      | op i => exact ih _ _ (hstep s a i h).1
  intro pre post g hg
  obtain ⟨a, ha⟩ := hreach pre s0 a0 h0
  rw [after_append]
  have e := hstep (after B s0 pre) a g ha
  rw [hget a g hg] at e
  exact hout post _ _ a e.1 ha

/-- all calls of a session satisfy the documented preconditions `P` of the bundle -/
def SessionOk {ι : Type} (P : ι → Prop) (cs : List (Call ι)) : Prop :=
  ∀ c ∈ cs, match c with | .op i => P i | .reloc => True

/-- `GetObservational` restricted to sessions whose calls satisfy the documented preconditions `P`
(e.g. `header` has 16 octets, `key_len ∈ {16, 24, 32}`): outside them the C functions are not defined. -/
def GetObservationalOn {σ ι : Type} (P : ι → Prop) (B : Bundle σ ι) (s0 : σ) : Prop :=
  ∀ (pre post : List (Call ι)) (g : ι), B.isGet g = true → SessionOk P pre → P g → SessionOk P post →
    outs B (after B s0 (pre ++ [.op g])) post = outs B (after B s0 pre) post

/-- simulation principle with preconditions: concrete and abstract machine agree on calls satisfying `P` -/
theorem getObservationalOn_of_sim {σ ι α : Type} (P : ι → Prop) (B : Bundle σ ι) (R : σ → α → Prop)
    (astep : α → ι → α × Out)
    (hstep : ∀ s a i, P i → R s a → R (B.step s i).1 (astep a i).1 ∧ (B.step s i).2 = (astep a i).2)
    (hget : ∀ a g, B.isGet g = true → (astep a g).1 = a)
    (s0 : σ) (a0 : α) (h0 : R s0 a0) : GetObservationalOn P B s0 := by
  have hout : ∀ (cs : List (Call ι)), SessionOk P cs → ∀ (s s' : σ) (a : α), R s a → R s' a →
      outs B s cs = outs B s' cs := by
    intro cs
    induction cs with
    | nil => intros; rfl
    | cons c cs ih =>
      intro hok s s' a h h'
      have hok' : SessionOk P cs := fun x hx => hok x (List.mem_cons_of_mem _ hx)
      cases c with
      | reloc =>
        show Out.none :: (run B s cs).2 = Out.none :: (run B s' cs).2
        have := ih hok' s s' a h h'
        simp only [outs] at this
        rw [this]
      | op i =>
        have hi : P i := hok (.op i) (List.mem_cons_self)
        have e := hstep s a i hi h
        have e' := hstep s' a i hi h'
        show (B.step s i).2 :: (run B (B.step s i).1 cs).2 = (B.step s' i).2 :: (run B (B.step s' i).1 cs).2
        have := ih hok' _ _ _ e.1 e'.1
        simp only [outs] at this
        rw [this, e.2, e'.2]
  have hreach : ∀ (cs : List (Call ι)), SessionOk P cs → ∀ (s : σ) (a : α), R s a → ∃ a', R (after B s cs) a' := by
    intro cs
    induction cs with
    | nil => intro _ s a h; exact ⟨a, h⟩
    | cons c cs ih =>
      intro hok s a h
      have hok' : SessionOk P cs := fun x hx => hok x (List.mem_cons_of_mem _ hx)
      cases c with
      | reloc => exact ih hok' s a h
      | op i => exact ih hok' _ _ (hstep s a i (hok (.op i) (List.mem_cons_self)) h).1
  intro pre post g hg hpre hPg hpost
  obtain ⟨a, ha⟩ := hreach pre hpre s0 a0 h0
  rw [after_append]
  have e := hstep (after B s0 pre) a g hPg ha
  rw [hget a g hg] at e
  exact hout post hpost _ _ a e.1 ha

/-- REFINEMENT of sessions: if a refined machine (state with the scratch fields of the C struct) and an abstract
one are related by `R`, and every call satisfying `P` preserves `R` and returns the same output, then whole
sessions return the same outputs. -/
theorem outs_refine {σ τ ι : Type} (P : ι → Prop) (B : Bundle σ ι) (A : Bundle τ ι) (R : σ → τ → Prop)
    (hstep : ∀ s a i, P i → R s a → R (B.step s i).1 (A.step a i).1 ∧ (B.step s i).2 = (A.step a i).2)
    (cs : List (Call ι)) : SessionOk P cs → ∀ (s : σ) (a : τ), R s a →
      outs B s cs = outs A a cs ∧ R (after B s cs) (after A a cs) := by
  induction cs with
  | nil => intro _ s a h; exact ⟨rfl, h⟩
  | cons c cs ih =>
    intro hok s a h
    have hok' : SessionOk P cs := fun x hx => hok x (List.mem_cons_of_mem _ hx)
    cases c with
    | reloc =>
      have := ih hok' s a h
      refine ⟨?_, this.2⟩
      show Out.none :: (run B s cs).2 = Out.none :: (run A a cs).2
      have e := this.1
      simp only [outs] at e
      rw [e]
    | op i =>
      have e := hstep s a i (hok (.op i) (List.mem_cons_self)) h
      have := ih hok' _ _ e.1
      refine ⟨?_, this.2⟩
      show (B.step s i).2 :: (run B (B.step s i).1 cs).2 = (A.step a i).2 :: (run A (A.step a i).1 cs).2
      have e2 := this.1
      simp only [outs] at e2
      rw [e2, e.2]

end Bee2V.C10

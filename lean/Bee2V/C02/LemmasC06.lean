/-
C02 — lemmas for PropsC06: the clauses of `Laws` about the decompression `liftX` and about negation for the real
curve group (`mathlibCtx`, InstC06.lean).  The square root for p ≡ 3 (mod 4): if t is a square then
`t^((p+1)/4)` is one of its roots.
-/
import Mathlib.FieldTheory.Finite.Basic
import Bee2V.C02.InstC06
import Bee2V.C02.Laws
import Bee2V.C16.LemmasC06
namespace Bee2V.C02
open WeierstrassCurve Bee2V.C06 Bee2V.C16

section
variable {p : Nat} [Fact p.Prime]

/-- p ≡ 3 (mod 4): a square t has the root `t^((p+1)/4)` -/
theorem c06_sqrt_sq (hp4 : p % 4 = 3) {t y : ZMod p} (h : y ^ 2 = t) : (t ^ ((p + 1) / 4)) ^ 2 = t := by
  by_cases ht : t = 0
  · rw [ht, zero_pow (by omega), zero_pow (by omega)]
  · have hy : y ≠ 0 := by
      rintro rfl
      apply ht
      rw [← h]
      exact zero_pow (by omega)
    have e1 : (p + 1) / 4 * 2 = (p - 1) / 2 + 1 := by omega
    have e2 : 2 * ((p - 1) / 2) = p - 1 := by omega
    rw [← pow_mul, e1, pow_succ, ← h, ← pow_mul, e2, ZMod.pow_card_sub_one_eq_one hy, one_mul]

/-- two roots of the same element differ by the sign -/
theorem c06_root_eq_or_neg {y y' : ZMod p} (h : y' ^ 2 = y ^ 2) : y' = y ∨ y' = -y :=
  sq_eq_sq_iff_eq_or_eq_neg.1 h

variable {A B : ZMod p}

/-- the curve equation read off the coordinates of a point -/
theorem c06_xy_equation {P : (Wc A B).Point} {x y : Nat} (h : curveXY p A B P = some (x, y)) :
    ((y : Nat) : ZMod p) ^ 2 = (x : ZMod p) ^ 3 + A * x + B := by
  obtain ⟨_, _, hns, _⟩ := Br.xy_some h
  exact ((Wc_nonsingular _ _ _ _).1 hns).1

/-- `-(x, y) = (x, -y)`: P and -P share the x-coordinate -/
theorem c06_xy_neg {P : (Wc A B).Point} {x y : Nat} (h : curveXY p A B P = some (x, y)) :
    curveXY p A B (-P) = some (x, (-(y : ZMod p)).val) := by
  cases P with
  | zero => cases h
  | some a b hab =>
    simp only [curveXY, Option.some.injEq, Prod.mk.injEq] at h
    obtain ⟨rfl, rfl⟩ := h
    rw [Affine.Point.neg_some]
    simp only [curveXY, Wc_negY, ZMod.natCast_zmod_val]

theorem c06_liftX_x (x : Nat) (P : (Wc A B).Point) (h : curveLiftX p A B x = some P) :
    ∃ y, curveXY p A B P = some (x, y) := by
  unfold curveLiftX at h
  simp only at h
  split at h
  · exact ⟨_, Br.xy_ofXY _ _ _ h⟩
  · cases h

theorem c06_liftX_of (hp4 : p % 4 = 3) (P : (Wc A B).Point) (x y : Nat)
    (h : curveXY p A B P = some (x, y)) :
    curveLiftX p A B x = some P ∨ curveLiftX p A B x = some (-P) := by
  have he := c06_xy_equation h
  have hs := c06_sqrt_sq hp4 he
  have hy : y < p := (Br.xy_lt h).2
  unfold curveLiftX
  simp only
  rw [if_pos hs]
  rcases c06_root_eq_or_neg (hs.trans he.symm) with e | e
  · left
    rw [e, ZMod.val_cast_of_lt hy]
    exact Br.ofXY_xy P x y h
  · right
    rw [e]
    exact Br.ofXY_xy (-P) x _ (c06_xy_neg h)

end
end Bee2V.C02

/-! ### a toy instance of the group hypotheses: y² = x³ + x + 1 over `ZMod 7` (7 ≡ 3 mod 4) has 5 points
O, ±(0, 1), ±(2, 5): prime order, cofactor 1, every point is a multiple of G = (0, 1) -/

namespace Bee2V.C02
open WeierstrassCurve Bee2V.C06 Bee2V.C16

theorem c06_fact_prime_7 : Fact (Nat.Prime 7) := ⟨by decide⟩

section toy7
attribute [local instance] c06_fact_prime_7

theorem c06_toy7Ns (x y : ZMod 7) (h : y ^ 2 = x ^ 3 + ((1 : Nat) : ZMod 7) * x + ((1 : Nat) : ZMod 7))
    (hy : y + y ≠ 0) : (Wc ((1 : Nat) : ZMod 7) ((1 : Nat) : ZMod 7)).Nonsingular x y :=
  (Wc_nonsingular _ _ _ _).2 ⟨h, Or.inr hy⟩

theorem c06_toy7G_ns : (Wc ((1 : Nat) : ZMod 7) ((1 : Nat) : ZMod 7)).Nonsingular
    ((0 : Nat) : ZMod 7) ((1 : Nat) : ZMod 7) :=
  c06_toy7Ns _ _ (by decide) (by decide)

noncomputable def c06_toy7G : (Wc ((1 : Nat) : ZMod 7) ((1 : Nat) : ZMod 7)).Point := .some _ _ c06_toy7G_ns

/-- 5 • G = O, read off the run of C06's model of `ecHasOrderA` -/
theorem c06_toy7G_order (n : Nat) : n • c06_toy7G = 0 ↔ 5 ∣ n :=
  Br.order_of_prime (by decide) (Affine.Point.some_ne_zero _)
    ((ecHasOrderA_nat 7 (by decide) (A := 1) (B := 1) (by decide) (by decide) (x := 0) (y := 1)
      (by decide) (by decide) c06_toy7G_ns 64 1 5).1 (by decide +kernel)) n

/-- 2 • G = (2, 5), read off the run of C06's model of `ecMulA` -/
theorem c06_toy7G_two : curveXY 7 _ _ ((2 : Nat) • c06_toy7G) = some (2, 5) := by
  have h := ecMulA_nat 7 (by decide) (A := 1) (B := 1) (by decide) (by decide) (x := 0) (y := 1)
    (by decide) (by decide) c06_toy7G_ns 64 1 2
  have hr : ecMulA (ecOps (mkCurve (natFld 7) 1 1)) 64 (0, 1) 2 1 = some (2, 5) := by decide +kernel
  obtain ⟨hx, hy, hns, he⟩ := h.2 _ hr
  rw [show (2 : Nat) • c06_toy7G = _ from he]
  exact Br.xy_of_some hx hy hns

/-- the five points are exactly the multiples of G -/
theorem c06_toy7G_gen (P : (Wc ((1 : Nat) : ZMod 7) ((1 : Nat) : ZMod 7)).Point) :
    ∃ n : Nat, P = n • c06_toy7G := by
  have h5 : (5 : Nat) • c06_toy7G = 0 := (c06_toy7G_order 5).2 (dvd_refl 5)
  have h4 : (4 : Nat) • c06_toy7G = -c06_toy7G := by
    rw [eq_neg_iff_add_eq_zero, ← succ_nsmul]; exact h5
  have h3 : (3 : Nat) • c06_toy7G = -((2 : Nat) • c06_toy7G) := by
    rw [eq_neg_iff_add_eq_zero, ← add_nsmul]; exact h5
  have hG : curveXY 7 _ _ c06_toy7G = some (0, 1) := Br.xy_of_some (by decide) (by decide) c06_toy7G_ns
  have key : ∀ x y : ZMod 7, y ^ 2 = x ^ 3 + ((1 : Nat) : ZMod 7) * x + ((1 : Nat) : ZMod 7) →
      (x.val, y.val) = (0, 1) ∨ (x.val, y.val) = (0, (-((1 : Nat) : ZMod 7)).val) ∨
      (x.val, y.val) = (2, 5) ∨ (x.val, y.val) = (2, (-((5 : Nat) : ZMod 7)).val) := by decide
  cases P with
  | zero => exact ⟨0, by rw [zero_nsmul]; rfl⟩
  | some x y h =>
    have hxy : curveXY 7 _ _ (Affine.Point.some x y h) = some (x.val, y.val) := rfl
    have inj : ∀ Q, curveXY 7 _ _ Q = some (x.val, y.val) → Affine.Point.some x y h = Q := by
      intro Q hQ
      have := Br.ofXY_xy _ _ _ hxy
      rw [Br.ofXY_xy _ _ _ hQ] at this
      exact (Option.some.inj this).symm
    rcases key x y ((Wc_nonsingular _ _ _ _).1 h).1 with e | e | e | e
    · exact ⟨1, by rw [one_nsmul]; exact inj _ (by rw [e]; exact hG)⟩
    · exact ⟨4, by rw [h4]; exact inj _ (by rw [e]; exact c06_xy_neg hG)⟩
    · exact ⟨2, inj _ (by rw [e]; exact c06_toy7G_two)⟩
    · exact ⟨3, by rw [h3]; exact inj _ (by rw [e]; exact c06_xy_neg c06_toy7G_two)⟩

end toy7
end Bee2V.C02

import Bee2V.C02.Drv
/-- driver executable of area C02 (`drv_c02`) -/
def main : IO Unit := Bee2V.Proto.runLoop Bee2V.C02.Drv.handle

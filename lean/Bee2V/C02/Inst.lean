/-
C02 — the executable instance of `Ctx`: the three standard parameter sets (generated from
bign_params.c), affine chord-and-tangent arithmetic (Curve.lean), belt from the C01 model
(hash, WBL/KWP) and the DER OID decoder of the C08 model.  No Mathlib.
-/
import Bee2V.C02.Model
import Bee2V.C02.Curve
import Bee2V.Gen.C02Params
import Bee2V.C01.Model.Hash
import Bee2V.C01.Model.Wbl
import Bee2V.C08.Model2
namespace Bee2V.C02
open Bee2V.Gen.C02Params

/-- belt-hash of a whole message (C01 model: beltHashStart, StepH, StepG) -/
def beltHash (m : Bytes) : Bytes :=
  (Bee2V.C01.hashStepG Bee2V.C01.beltCipher (Bee2V.C01.hashStepH Bee2V.C01.beltCipher Bee2V.C01.hashStart m) 32).2

/-- beltWBLStart(theta, 32) + beltWBLStepE (= beltKWPStart + beltKWPStepE) -/
def beltWbl (theta buf : Bytes) : Bytes :=
  (Bee2V.C01.wblStepE Bee2V.C01.beltCipher (Bee2V.C01.fmtKey theta) buf).1

/-- beltKWPStart(theta, 32) + beltKWPStepD2(buf1, buf2) -/
def beltKwpD (theta b1 b2 : Bytes) : Bytes × Bytes :=
  let r := Bee2V.C01.wblStepD2 Bee2V.C01.beltCipher (Bee2V.C01.fmtKey theta) b1 b2
  (r.1, r.2.1)

def oidOkDER (der : Bytes) : Bool :=
  match Bee2V.C08.oidFromDER der with
  | .ok _ => true
  | _ => false

def stdCurve (s : Std) : Curve := ⟨s.p, s.a, s.b⟩

/-- bignStart(params): field, curve, base point (0, yG), order q -/
def stdCtx (s : Std) : Ctx Pt :=
  { l := s.l, p := s.p, q := s.q, zero := .O, add := (stdCurve s).add, neg := (stdCurve s).neg, smul := (stdCurve s).smul, base := .A 0 s.yG, xy := Pt.xy, ofXY := fun x y => if (stdCurve s).isOn x y then some (.A x y) else none, liftX := (stdCurve s).liftX, oidOk := oidOkDER, hash := beltHash, wbl := beltWbl, kwpE := beltWbl, kwpD := beltKwpD }

/-- `bignIsOperable(params)` on the raw fields (l, and the 64-octet arrays p, a, b, q, yG) -/
def isOperable (l : Nat) (p a b q yG : Bytes) : Bool :=
  let no := (2 * l + 7) / 8
  let isZero (x : Bytes) : Bool := x.all (· == 0)
  (l == 128 || l == 192 || l == 256) &&
  (p.headD 0).toNat % 4 == 3 && (q.headD 0).toNat % 2 == 1 &&
  (p.getD (no - 1) 0).toNat ≥ 128 && (q.getD (no - 1) 0).toNat ≥ 128 &&
  isZero (p.drop no) &&
  !isZero (a.take no) && !isZero (b.take no) &&
  isZero (a.drop no) && isZero (b.drop no) && isZero (q.drop no) && isZero (yG.drop no)

end Bee2V.C02

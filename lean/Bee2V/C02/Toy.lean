/-
C02 — NON-VACUITY of `Laws`: a small concrete context `toyCtx : Ctx (ZMod 65521)` with
`toyLaws : Laws toyCtx`, and instances of the property theorems at it.

The toy: l = 8 (no = 2 octets, 8·no = 2l = 16 bits), p = q = 65521 (the largest prime below 2^16),
the group is (ZMod 65521, +) with base point 1 (prime order q, cofactor 1).
"Coordinates" of P ≠ 0 with v = P.val: (min v (q - v), v) — P and -P share the x-coordinate, and
exactly one of the two has y < q/2 (the one chosen by the decompression `liftX`).
belt part: constant hash, identity WBL/KWP (the laws only ask for lengths and invertibility).
-/
import Mathlib.Data.ZMod.Basic
import Mathlib.Tactic.NormNum.Prime
import Bee2V.C02.Props
import Bee2V.C02.PropsKeyt
import Bee2V.C02.PropsIbs
namespace Bee2V.C02.Toy
open Bee2V.C02

instance : NeZero (65521 : Nat) := ⟨by omega⟩

/-! ### the coordinate maps on naturals -/

def xyN (v : Nat) : Option (Nat × Nat) :=
  if v = 0 then none else some (min v (65521 - v), v)

def ofXYN (x y : Nat) : Option (ZMod 65521) :=
  if y ≠ 0 ∧ y < 65521 ∧ x = min y (65521 - y) then some (y : ZMod 65521) else none

def liftXN (x : Nat) : Option (ZMod 65521) :=
  if 0 < x ∧ 2 * x < 65521 then some (x : ZMod 65521) else none

theorem xyN_some {v x y : Nat} (h : xyN v = some (x, y)) :
    v ≠ 0 ∧ x = min v (65521 - v) ∧ y = v := by
  unfold xyN at h
  by_cases hv : v = 0
  · rw [if_pos hv] at h; cases h
  · rw [if_neg hv] at h
    simp only [Option.some.injEq, Prod.mk.injEq] at h
    exact ⟨hv, h.1.symm, h.2.symm⟩

theorem xyN_of_ne {v : Nat} (hv : v ≠ 0) : xyN v = some (min v (65521 - v), v) := by
  unfold xyN; rw [if_neg hv]

theorem ofXYN_some {x y : Nat} {P : ZMod 65521} (h : ofXYN x y = some P) :
    y ≠ 0 ∧ y < 65521 ∧ x = min y (65521 - y) ∧ P = (y : ZMod 65521) := by
  unfold ofXYN at h
  by_cases hc : y ≠ 0 ∧ y < 65521 ∧ x = min y (65521 - y)
  · rw [if_pos hc] at h
    simp only [Option.some.injEq] at h
    exact ⟨hc.1, hc.2.1, hc.2.2, h.symm⟩
  · rw [if_neg hc] at h; cases h

theorem liftXN_some {x : Nat} {P : ZMod 65521} (h : liftXN x = some P) :
    0 < x ∧ 2 * x < 65521 ∧ P = (x : ZMod 65521) := by
  unfold liftXN at h
  by_cases hc : 0 < x ∧ 2 * x < 65521
  · rw [if_pos hc] at h
    simp only [Option.some.injEq] at h
    exact ⟨hc.1, hc.2, h.symm⟩
  · rw [if_neg hc] at h; cases h

theorem val_ne {P : ZMod 65521} (h : P.val ≠ 0) : P ≠ 0 :=
  fun h0 => h ((ZMod.val_eq_zero P).2 h0)

theorem neg_val_of_ne {P : ZMod 65521} (h : P.val ≠ 0) : (-P).val = 65521 - P.val := by
  rw [ZMod.neg_val, if_neg (val_ne h)]

theorem cast_sub_val (P : ZMod 65521) : ((65521 - P.val : Nat) : ZMod 65521) = -P := by
  have hlt : P.val ≤ 65521 := Nat.le_of_lt (ZMod.val_lt P)
  rw [Nat.cast_sub hlt, ZMod.natCast_self, ZMod.natCast_zmod_val, zero_sub]

/-! ### the context -/

def toyCtx : Ctx (ZMod 65521) where
  l := 8
  p := 65521
  q := 65521
  zero := 0
  add := fun a b => a + b
  neg := fun a => -a
  smul := fun n a => n • a
  base := 1
  xy := fun P => xyN P.val
  ofXY := ofXYN
  liftX := liftXN
  oidOk := fun _ => true
  hash := fun _ => List.replicate 32 0
  wbl := fun _ b => b
  kwpE := fun _ x => x
  kwpD := fun _ a b => (a, b)

theorem toyLaws : Laws toyCtx where
  zero_eq := rfl
  add_eq := fun _ _ => rfl
  neg_eq := fun _ => rfl
  smul_eq := fun _ _ => rfl
  q_prime := by
    show Nat.Prime 65521
    norm_num
  order := by
    intro n
    show n • (1 : ZMod 65521) = 0 ↔ 65521 ∣ n
    rw [nsmul_one]
    exact ZMod.natCast_eq_zero_iff n 65521
  gen := by
    intro P
    refine ⟨P.val, ?_⟩
    show P = P.val • (1 : ZMod 65521)
    rw [nsmul_one, ZMod.natCast_zmod_val]
  l_pos := by show 0 < 8; omega
  l_mod := by show 8 % 8 = 0; rfl
  l_le := by show 8 ≤ 256; omega
  q_lo := by show 2 ^ (2 * 8 - 1) < 65521; decide
  q_hi := by show 65521 < 2 ^ (2 * 8); decide
  p_hi := by show 65521 < 2 ^ (2 * 8); decide
  xy_none := by
    intro P
    show xyN P.val = none ↔ P = 0
    rw [← ZMod.val_eq_zero P]
    unfold xyN
    by_cases hv : P.val = 0
    · simp [hv]
    · simp [hv]
  xy_lt := by
    intro P x y h
    obtain ⟨_, hx, hy⟩ := xyN_some h
    have hlt : P.val < 65521 := ZMod.val_lt P
    show x < 65521 ∧ y < 65521
    omega
  ofXY_xy := by
    intro P x y h
    obtain ⟨hv, hx, hy⟩ := xyN_some h
    have hlt : P.val < 65521 := ZMod.val_lt P
    show ofXYN x y = some P
    unfold ofXYN
    rw [if_pos ⟨by omega, by omega, by rw [hy]; exact hx⟩, hy, ZMod.natCast_zmod_val]
  xy_ofXY := by
    intro x y P h
    obtain ⟨hy0, hyq, hx, hP⟩ := ofXYN_some h
    show xyN P.val = some (x, y)
    rw [hP, ZMod.val_cast_of_lt hyq, xyN_of_ne hy0, hx]
  liftX_x := by
    intro x P h
    obtain ⟨h0, h2, hP⟩ := liftXN_some h
    refine ⟨x, ?_⟩
    show xyN P.val = some (x, x)
    rw [hP, ZMod.val_cast_of_lt (by omega), xyN_of_ne (by omega)]
    have : min x (65521 - x) = x := by omega
    rw [this]
  liftX_of := by
    intro P x y h
    obtain ⟨hv, hx, hy⟩ := xyN_some h
    have hlt : P.val < 65521 := ZMod.val_lt P
    show liftXN x = some P ∨ liftXN x = some (-P)
    by_cases hc : 2 * P.val < 65521
    · left
      have hxv : x = P.val := by omega
      unfold liftXN
      rw [if_pos ⟨by omega, by omega⟩, hxv, ZMod.natCast_zmod_val]
    · right
      have hxv : x = 65521 - P.val := by omega
      unfold liftXN
      rw [if_pos ⟨by omega, by omega⟩, hxv, cast_sub_val]
  xy_neg := by
    intro P x y h
    obtain ⟨hv, hx, hy⟩ := xyN_some h
    have hlt : P.val < 65521 := ZMod.val_lt P
    refine ⟨65521 - P.val, ?_⟩
    show xyN (-P).val = some (x, 65521 - P.val)
    rw [neg_val_of_ne hv, xyN_of_ne (by omega)]
    have : min (65521 - P.val) (65521 - (65521 - P.val)) = x := by omega
    rw [this]
  hash_len := by
    intro m
    show (List.replicate 32 (0 : UInt8)).length = 32
    exact List.length_replicate
  kwp_len := fun _ _ _ => rfl
  kwp_inv := fun _ _ _ _ => rfl

/-! ### non-vacuity witnesses -/

/-- the hypothesis structure of every C02 property theorem is satisfiable -/
theorem laws_satisfiable : ∃ C : Ctx (ZMod 65521), Laws C := ⟨toyCtx, toyLaws⟩

theorem toy_no : toyCtx.no = 2 := rfl

example : ∃ C : Ctx (ZMod 65521), Laws C := ⟨toyCtx, toyLaws⟩

/-- zzRandNZMod on a concrete tape: the draw 0 and the draw 65521 = q are rejected, 9 is accepted -/
theorem toy_rand : randNZMod toyCtx [0, 0, 241, 255, 9, 0] = (some 9, []) := by decide

theorem toy_rand7 : randNZMod toyCtx [0, 0, 7, 0] = (some 7, []) := by decide

/-- all hypotheses of `sign_complete` are satisfiable together: private key 5, the hash value
0xFFFF ≥ q, a tape whose first draw is rejected -/
example := sign_complete toyLaws (oid := []) (Hb := [255, 255]) (priv := [5, 0]) rfl rfl
  (by decide) (by decide) [0, 0, 7, 0]

/-- … and the conclusion is about a run that really signs and verifies -/
example :
    sign toyCtx [] [255, 255] [5, 0] [0, 0, 7, 0] = (.ok, specSig toyCtx [] [255, 255] 5 7, []) ∧
    verify toyCtx [] [255, 255] (specSig toyCtx [] [255, 255] 5 7) (pubOf toyCtx 5) = .ok := by
  have h := (sign_complete toyLaws (oid := []) (Hb := [255, 255]) (priv := [5, 0]) rfl rfl
    (by decide) (by decide) [0, 0, 7, 0]).2 7 [] toy_rand7
  exact ⟨h.1, h.2.2⟩

example := verify_exact toyLaws (oid := []) (Hb := [255, 255]) (sig := [1, 2, 3])
  (pub := [1, 0, 1, 0]) rfl

example := verify_rejects_unreduced toyLaws (oid := []) (Hb := [255, 255]) (sig := [1, 241, 255])
  (pub := [1, 0, 1, 0]) rfl (by decide)

example := keygen_valid toyLaws [0, 0, 241, 255, 9, 0]

example : keypairGen toyCtx [0, 0, 241, 255, 9, 0] = (.ok, natLE 2 9 ++ pubOf toyCtx 9, []) :=
  ((keygen_valid toyLaws [0, 0, 241, 255, 9, 0]).2 9 [] toy_rand).2.2.1

example := dh_symm toyLaws (da := 3) (db := 65520) (by decide) (by decide) (by decide) (by decide)
  4 (by decide)

example := keywrap_roundtrip toyLaws (d := 5) (by decide) (by decide) (List.replicate 16 7)
  (by decide) none (by decide) [9, 0]

/-! ### a few fully evaluated values (the toy is not degenerate) -/

theorem toy_xy_smul {d : Nat} (h0 : d ≠ 0) (hq : d < 65521) :
    toyCtx.xy (toyCtx.smul d toyCtx.base) = some (min d (65521 - d), d) := by
  show xyN (d • (1 : ZMod 65521)).val = _
  rw [nsmul_one, ZMod.val_cast_of_lt hq, xyN_of_ne h0]

theorem toy_pubOf {d : Nat} (h0 : d ≠ 0) (hq : d < 65521) :
    pubOf toyCtx d = natLE 2 (min d (65521 - d)) ++ natLE 2 d := by
  unfold pubOf; rw [toy_xy_smul h0 hq]; rfl

/-- public keys of d = 5 and of d = q - 1 = -1: (5, 5) and (1, 65520) -/
theorem toy_pubOf_5 : pubOf toyCtx 5 = [5, 0, 5, 0] := by
  rw [toy_pubOf (by decide) (by decide)]; decide

theorem toy_pubOf_m1 : pubOf toyCtx 65520 = [1, 0, 240, 255] := by
  rw [toy_pubOf (by decide) (by decide)]; decide

/-- the public key (5, 5) is accepted, (5, 6) (not "on the curve") and (5, q + 5) are not -/
example : pubkeyVal toyCtx [5, 0, 5, 0] = .ok := by
  obtain ⟨_, _, _, _, hl⟩ := sg_pubOf toyLaws (d := 5) (by decide) (by decide)
  rw [toy_pubOf_5] at hl
  unfold pubkeyVal; rw [hl]

example : pubkeyVal toyCtx [5, 0, 6, 0] = .badPubkey := by decide

example : pubkeyVal toyCtx [5, 0, 246, 255] = .badPubkey := by decide

/-! ### identity-based signatures (PropsIbs.lean) -/

example := idverify_exact toyLaws [] [1, 0] [255, 255] [1, 2, 3] [1, 0, 1, 0] [2, 0, 2, 0] rfl

example := idsign_complete toyLaws [] [1, 0] [255, 255] [0, 0] [0, 0, 7, 0] rfl (by decide) rfl

/-- the hypothesis `idExtract … = (.ok, out)` of `idextract_idsign_idverify` is satisfiable:
the signature (S0, S1) = ([0], 0) of the identity hash [1, 0] is accepted under the public key of 5
(the toy hash is constant, so only `s1 < q` and `R ≠ O` remain) -/
theorem toy_idextract :
    ∃ out, idExtract toyCtx [] [1, 0] [0, 0, 0] (pubOf toyCtx 5) = (.ok, out) := by
  obtain ⟨_, _, _, _, hload⟩ := sg_pubOf toyLaws (d := 5) (by decide) (by decide)
  have h1 : (leNat (([0, 0, 0] : Bytes).drop (toyCtx.no / 2)) + leNat [1, 0]) % toyCtx.q = 1 := by
    decide
  have h2 : leNat (([0, 0, 0] : Bytes).take (toyCtx.no / 2)) + 2 ^ toyCtx.l = 256 := by decide
  have hne : 1 • toyCtx.base + 256 • (5 • toyCtx.base) ≠ 0 := by
    rw [← mul_nsmul', ← add_nsmul]
    exact toyLaws.base_mul_ne (by decide) (by decide)
  obtain ⟨x, y, hxy⟩ := toyLaws.xy_some hne
  exact ⟨_, (idextract_exact toyLaws [] [1, 0] [0, 0, 0] (pubOf toyCtx 5) _ rfl).2
    ⟨rfl, _, hload, by decide, x, y, by rw [h1, h2]; exact hxy, rfl, rfl⟩⟩

/-- extract, then sign with the extracted key and the one-time key 7, then verify: accepted -/
example : ∃ out isig,
    idExtract toyCtx [] [1, 0] [0, 0, 0] (pubOf toyCtx 5) = (.ok, out) ∧
    idSignWith toyCtx [] [1, 0] [255, 255] (leNat (out.take 2)) 7 = (.ok, isig) ∧
    idVerify toyCtx [] [1, 0] [255, 255] isig (out.drop 2) (pubOf toyCtx 5) = .ok := by
  obtain ⟨out, hex⟩ := toy_idextract
  obtain ⟨_, _, isig, hs, _, hv⟩ := idextract_idsign_idverify toyLaws [] [1, 0] [255, 255]
    [0, 0, 0] (pubOf toyCtx 5) out 7 rfl rfl (by decide) (by decide) hex
  exact ⟨out, isig, hex, hs, hv⟩

end Bee2V.C02.Toy

/-
C02 — helper lemmas for the identity-based signatures (bign_ibs.c, STB 34.101.45 appendix B.2):
arithmetic modulo q, the closed forms of the modular steps, the group identity behind the
chain extract -> sign -> verify, and the unfolded forms of `verifyCore` / `idVerify`.
-/
import Mathlib.Tactic.Ring
import Bee2V.C02.Lemmas
namespace Bee2V.C02

/-! ### arithmetic modulo q -/

theorem ibs_sub_add {q : Nat} (hq : 0 < q) (x a : Nat) :
    ((x + (q - a % q)) % q + a) % q = x % q := by
  have h1 := Nat.mod_add_div a q
  have h2 := Nat.mod_lt a hq
  have h3 : x + (q - a % q) + a = x + q + q * (a / q) := by omega
  rw [Nat.mod_add_mod, h3, Nat.add_mul_mod_self_left, Nat.add_mod_right]

/-- `m + a ≡ k` for `m = (s1 + h) mod q`, `s1 = ((k - a) mod q - h) mod q` -/
theorem ibs_cong1 {q : Nat} (hq : 0 < q) (k a h : Nat) :
    ((((k + (q - a % q)) % q + (q - h % q)) % q + h) % q + a) % q = k % q := by
  rw [ibs_sub_add hq, Nat.mod_mod, ibs_sub_add hq]

/-- `n + (-n mod q) ≡ 0` -/
theorem ibs_cong2 {q : Nat} (hq : 0 < q) (n : Nat) : (n + (q - n % q) % q) % q = 0 := by
  have h1 := Nat.mod_add_div n q
  have h2 := Nat.mod_lt n hq
  have h3 : n + (q - n % q) = q + q * (n / q) := by omega
  rw [Nat.add_mod_mod, h3, Nat.add_mul_mod_self_left, Nat.mod_self]

theorem ibs_poly (t S a : Nat) : t * S + a * t + a * S + a * a = (t + a) * (S + a) := by
  ring

/-- the value `t1` of bignIdVerify -/
theorem ibs_t1 {q : Nat} (hq : 0 < q) (t S l : Nat) :
    negMod ((t * S + 2 ^ l * t + 2 ^ l * S + 2 ^ (2 * l)) % q) q
      = (q - ((t + 2 ^ l) * (S + 2 ^ l)) % q) % q := by
  have h : t * S + 2 ^ l * t + 2 ^ l * S + 2 ^ (2 * l) = (t + 2 ^ l) * (S + 2 ^ l) := by
    rw [Nat.two_mul, Nat.pow_add]
    exact ibs_poly t S (2 ^ l)
  rw [h, negMod_eq (Nat.mod_lt _ hq)]

variable {G : Type} [AddCommGroup G] {C : Ctx G}

theorem ibs_len_lt (L : Laws C) {b : Bytes} (hb : b.length = C.no) : leNat b < C.W := by
  have h := leNat_lt b
  rw [hb, L.pow256, ← L.W_eq] at h
  exact h

/-- `zzAddMod(s1, s1, H mod q)` with the hash reduced once -/
theorem ibs_addmod (L : Laws C) {a : Nat} (ha : a < C.q) {Hb : Bytes} (hH : Hb.length = C.no) :
    addMod C.W a (redOnce (leNat Hb) C.q) C.q = (a + leNat Hb) % C.q := by
  rw [redOnce_eq (ibs_len_lt L hH) L.W_lt_2q,
    addMod_eq ha (Nat.mod_lt _ L.q_pos) L.q_lt_W L.W_lt_2q, Nat.add_mod_mod]

/-- `(k - (S0 + 2^l) e - h) mod q` on naturals, in the order the code subtracts -/
def ibs_s1 (C : Ctx G) (S0 e k h : Nat) : Nat :=
  ((k + (C.q - ((S0 + 2 ^ C.l) * e) % C.q)) % C.q + (C.q - h % C.q)) % C.q

theorem ibs_s1_lt (L : Laws C) (S0 e k h : Nat) : ibs_s1 C S0 e k h < C.q :=
  Nat.mod_lt _ L.q_pos

theorem ibs_signS1_eq (L : Laws C) (S0 e : Nat) {k : Nat} (hk : k < C.q) {Hb : Bytes}
    (hH : Hb.length = C.no) : signS1 C S0 e k Hb = ibs_s1 C S0 e k (leNat Hb) := by
  unfold signS1 ibs_s1
  dsimp only
  rw [redOnce_eq (ibs_len_lt L hH) L.W_lt_2q, subMod_eq hk (Nat.mod_lt _ L.q_pos) L.q_lt_W,
    subMod_eq (Nat.mod_lt _ L.q_pos) (Nat.mod_lt _ L.q_pos) L.q_lt_W, ← Nat.add_mul]

theorem ibs_idSignWith_eq (L : Laws C) (oid idH : Bytes) (e : Nat) {Hb : Bytes}
    (hH : Hb.length = C.no) {k : Nat} (hk : k < C.q) {xV yV : Nat}
    (hV : C.xy (k • C.base) = some (xV, yV)) :
    idSignWith C oid idH Hb e k =
      (.ok, hashL C (oid ++ natLE C.no xV ++ idH ++ Hb) ++
        natLE C.no (ibs_s1 C (leNat (hashL C (oid ++ natLE C.no xV ++ idH ++ Hb))) e k (leNat Hb))) := by
  unfold idSignWith
  rw [L.smul_eq, hV]
  dsimp only
  rw [ibs_signS1_eq L _ _ hk hH]

theorem ibs_drop (L : Laws C) {s0 : Bytes} (h0 : s0.length = C.no / 2) {v : Nat} (hv : v < C.q) :
    leNat ((s0 ++ natLE C.no v).drop (C.no / 2)) = v := by
  rw [List.drop_left' h0, leNat_natLE_of_lt]
  rw [L.pow256]
  exact Nat.lt_trans hv L.q_hi

/-! ### the group identity -/

theorem ibs_group (L : Laws C) {e k u t m c : Nat} (Q : G)
    (hm : (m + u * e) % C.q = k % C.q) (hc : (t * u + c) % C.q = 0) :
    m • C.base + u • (e • C.base + t • Q) + c • Q = k • C.base := by
  have h1 : m • C.base + u • (e • C.base) = k • C.base := by
    rw [← mul_nsmul', ← add_nsmul]
    exact L.nsmul_congr hm
  have h2 : u • (t • Q) + c • Q = 0 := by
    obtain ⟨n, rfl⟩ := L.gen Q
    rw [← mul_nsmul, ← add_nsmul, ← mul_nsmul']
    exact (L.order _).2 (Dvd.dvd.mul_right (Nat.dvd_of_mod_eq_zero hc) n)
  rw [nsmul_add, ← add_assoc (m • C.base), h1, add_assoc (k • C.base), h2, add_zero]

/-- the point recomputed by bignIdVerify from a signature made with the nonce k and the
extracted key `e`, `R = e G + (t + 2^l) Q`, is `k G` -/
theorem ibs_point (L : Laws C) (k e h S0 t : Nat) (Q : G) :
    ((ibs_s1 C S0 e k h + h) % C.q) • C.base
      + (S0 + 2 ^ C.l) • (e • C.base + (t + 2 ^ C.l) • Q)
      + ((C.q - ((t + 2 ^ C.l) * (S0 + 2 ^ C.l)) % C.q) % C.q) • Q = k • C.base := by
  unfold ibs_s1
  exact ibs_group L Q (ibs_cong1 L.q_pos k _ h) (ibs_cong2 L.q_pos _)

/-! ### the unfolded forms of verifyCore / idVerify -/

theorem ibs_verifyCore_eq (L : Laws C) (oid : Bytes) {Hb : Bytes} (sig : Bytes) (Q : G)
    (hH : Hb.length = C.no) :
    verifyCore C oid Hb sig Q =
      if leNat (sig.drop (C.no / 2)) ≥ C.q then (Err.badSig, 0, (0, 0)) else
      match C.xy (((leNat (sig.drop (C.no / 2)) + leNat Hb) % C.q) • C.base
                  + (leNat (sig.take (C.no / 2)) + 2 ^ C.l) • Q) with
      | none => (Err.badSig, 0, (0, 0))
      | some R =>
        if hashL C (oid ++ natLE C.no R.1 ++ Hb) = sig.take (C.no / 2)
        then (Err.ok, (leNat (sig.drop (C.no / 2)) + leNat Hb) % C.q, R)
        else (Err.badSig, 0, (0, 0)) := by
  unfold verifyCore
  dsimp only
  by_cases hs : leNat (sig.drop (C.no / 2)) ≥ C.q
  · rw [if_pos hs, if_pos hs]
  · have hs' : leNat (sig.drop (C.no / 2)) < C.q := by omega
    rw [if_neg hs, if_neg hs, L.smul_eq, L.smul_eq, L.add_eq, ibs_addmod L hs' hH]
    rfl

/-- the two outcomes of `verifyCore` -/
theorem ibs_verifyCore_cases (L : Laws C) (oid : Bytes) {Hb : Bytes} (sig : Bytes) (Q : G)
    (hH : Hb.length = C.no) :
    (∃ x y, leNat (sig.drop (C.no / 2)) < C.q ∧
      C.xy (((leNat (sig.drop (C.no / 2)) + leNat Hb) % C.q) • C.base
                  + (leNat (sig.take (C.no / 2)) + 2 ^ C.l) • Q) = some (x, y) ∧
      hashL C (oid ++ natLE C.no x ++ Hb) = sig.take (C.no / 2) ∧
      verifyCore C oid Hb sig Q = (Err.ok, (leNat (sig.drop (C.no / 2)) + leNat Hb) % C.q, (x, y)))
    ∨ (verifyCore C oid Hb sig Q = (Err.badSig, 0, (0, 0)) ∧
      ¬ (leNat (sig.drop (C.no / 2)) < C.q ∧ ∃ x y,
        C.xy (((leNat (sig.drop (C.no / 2)) + leNat Hb) % C.q) • C.base
                  + (leNat (sig.take (C.no / 2)) + 2 ^ C.l) • Q) = some (x, y) ∧
        hashL C (oid ++ natLE C.no x ++ Hb) = sig.take (C.no / 2))) := by
  rw [ibs_verifyCore_eq L oid sig Q hH]
  by_cases hs : leNat (sig.drop (C.no / 2)) ≥ C.q
  · right
    rw [if_pos hs]
    exact ⟨rfl, fun h => absurd h.1 (by omega)⟩
  · rw [if_neg hs]
    cases hx : C.xy (((leNat (sig.drop (C.no / 2)) + leNat Hb) % C.q) • C.base
                  + (leNat (sig.take (C.no / 2)) + 2 ^ C.l) • Q) with
    | none =>
      right
      refine ⟨rfl, ?_⟩
      rintro ⟨_, x, y, h', _⟩
      cases h'
    | some V =>
      dsimp only
      by_cases hh : hashL C (oid ++ natLE C.no V.1 ++ Hb) = sig.take (C.no / 2)
      · left
        rw [if_pos hh]
        exact ⟨V.1, V.2, by omega, rfl, hh, rfl⟩
      · right
        rw [if_neg hh]
        refine ⟨rfl, ?_⟩
        rintro ⟨_, x, y, h', hh'⟩
        cases h'
        exact hh hh'

theorem ibs_idVerify_eq (L : Laws C) {oid : Bytes} (idH : Bytes) {Hb : Bytes} (idSig : Bytes)
    {idPub pub : Bytes} {R Q : G}
    (hoid : C.oidOk oid = true) (hH : Hb.length = C.no)
    (hR : loadPub C idPub = some R) (hQ : loadPub C pub = some Q) :
    idVerify C oid idH Hb idSig idPub pub =
      if leNat (idSig.drop (C.no / 2)) ≥ C.q then Err.badSig else
      match C.xy (((leNat (idSig.drop (C.no / 2)) + leNat Hb) % C.q) • C.base
              + (leNat (idSig.take (C.no / 2)) + 2 ^ C.l) • R
              + ((C.q - ((leNat (hashL C (oid ++ idPub.take C.no ++ idH)) + 2 ^ C.l)
                    * (leNat (idSig.take (C.no / 2)) + 2 ^ C.l)) % C.q) % C.q) • Q) with
      | none => Err.badSig
      | some V =>
        if hashL C (oid ++ natLE C.no V.1 ++ idH ++ Hb) = idSig.take (C.no / 2)
        then Err.ok else Err.badSig := by
  unfold idVerify
  simp only [hoid, hR, hQ, Bool.not_true, Bool.false_eq_true, ↓reduceIte]
  by_cases hs : leNat (idSig.drop (C.no / 2)) ≥ C.q
  · rw [if_pos hs, if_pos hs]
  · have hs' : leNat (idSig.drop (C.no / 2)) < C.q := by omega
    rw [if_neg hs, if_neg hs, L.smul_eq, L.smul_eq, L.smul_eq, L.add_eq, L.add_eq,
      ibs_addmod L hs' hH, ibs_t1 L.q_pos]
    rfl

/-! ### the nonces -/

theorem ibs_randLoop_range (no q : Nat) : ∀ (i : Nat) (tape : Bytes) (v : Nat) (rest : Bytes),
    randLoop no q i tape = (some v, rest) → 0 < v ∧ v < q := by
  intro i
  induction i with
  | zero => intro tape v rest h; simp [randLoop] at h
  | succ i ih =>
    intro tape v rest h
    simp only [randLoop] at h
    split at h
    · exact ih _ _ _ h
    · rename_i hc
      simp only [Prod.mk.injEq, Option.some.injEq] at h
      omega

omit [AddCommGroup G] in
theorem ibs_nonceLoop_range (C : Ctx G) (theta : Bytes) : ∀ (fuel : Nat) (b : Bytes) (k : Nat),
    nonceLoop C theta fuel b = some k → 0 < k ∧ k < C.q := by
  intro fuel
  induction fuel with
  | zero => intro b k h; simp [nonceLoop] at h
  | succ n ih =>
    intro b k h
    simp only [nonceLoop] at h
    split at h
    · rename_i hc
      simp only [Option.some.injEq] at h
      omega
    · exact ih _ _ h

end Bee2V.C02

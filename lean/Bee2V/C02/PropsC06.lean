/-
C02 ∘ C06 — the group-law / encoding hypotheses `Laws C` of the bign theorems discharged by the REAL
elliptic-curve group, and the abstract operations of the C02 context tied to what C06 proved about the library's
scalar multiplication code (the pattern of Bee2V/C16/PropsC06.lean).

* `mathlib_Laws`: for `mathlibCtx` (InstC06.lean: Mathlib's group of nonsingular points of y² = x³ + A x + B over
  `ZMod p`, coordinates = canonical residues, `liftX` = the square root `t^((p+1)/4)` of bignKeyUnwrap) every
  clause of `Laws` about the group operations, the coordinates, `ofXY`, `liftX` and negation is a THEOREM.
  What remains: q is prime and is the order of the base point; the base point generates the group (cofactor 1:
  needs point counting, kept explicit); p ≡ 3 (mod 4); the sizes of l, p, q; three facts about belt
  (discharged for the executable belt by `belt_kwp_laws`, PropsBelt.lean).
* `c02_ecMulA_bridge`, `c02_ecAddMulA2_bridge`, `c02_ecAddMulA3_bridge`: the values `C.xy (C.smul d P)`,
  `C.xy (C.add (C.smul a G) (C.smul b Q))` and the three-summand value of bignIdVerify that the C02 model reads
  ARE the outputs of C06's models of ec.c's `ecMulA` / `ecAddMulA` run over the function table of `ecpCreateJ` on
  reduced naturals (`ecOps (mkCurve (natFld p) A B)`), for every word size W and length m.
* `sign_complete_curve`, `verify_exact_curve`, `keygen_valid_curve`, `dh_symm_curve`, `keywrap_roundtrip_curve`,
  `idextract_idsign_idverify_curve`: end-to-end statements without `Laws`.
-/
import Bee2V.C02.LemmasC06
import Bee2V.C02.Props
import Bee2V.C02.PropsKeyt
import Bee2V.C02.PropsIbs
import Bee2V.C02.PropsBelt
import Bee2V.C16.PropsC06
namespace Bee2V.C02
open WeierstrassCurve Bee2V.C06

/-! ### B1. the laws for the real curve group -/

section laws
variable (p : Nat) [Fact p.Prime] (A B : ZMod p) (l q : Nat) (base : (Wc A B).Point)
  (oidOk : Bytes → Bool) (hash : Bytes → Bytes) (wbl kwpE : Bytes → Bytes → Bytes)
  (kwpD : Bytes → Bytes → Bytes → Bytes × Bytes)

/-- `Laws` for bign over the real curve.  Remaining hypotheses: q prime and the order of the base point (`hq`,
`hord`), cofactor 1 (`hgen`), p ≡ 3 (mod 4) (`hp4`), the sizes, and the belt facts `hhash`, `hkl`, `hki`.  The
clauses `zero_eq … smul_eq`, `xy_none`, `xy_lt`, `ofXY_xy`, `xy_ofXY`, `liftX_x`, `liftX_of`, `xy_neg` are proved. -/
theorem mathlib_Laws (hq : Nat.Prime q) (hord : ∀ n : Nat, n • base = 0 ↔ q ∣ n)
    (hgen : ∀ P : (Wc A B).Point, ∃ n : Nat, P = n • base) (hp4 : p % 4 = 3)
    (hl0 : 0 < l) (hl8 : l % 8 = 0) (hl : l ≤ 256)
    (hq_lo : 2 ^ (2 * l - 1) < q) (hq_hi : q < 2 ^ (2 * l)) (hp_hi : p < 2 ^ (2 * l))
    (hhash : ∀ m, (hash m).length = 32)
    (hkl : ∀ θ x : Bytes, 32 ≤ x.length → (kwpE θ x).length = x.length)
    (hki : ∀ θ x : Bytes, θ.length = min 32 (l / 4) → 32 ≤ x.length →
      kwpD θ ((kwpE θ x).take (x.length - 16)) ((kwpE θ x).drop (x.length - 16))
        = (x.take (x.length - 16), x.drop (x.length - 16))) :
    Laws (mathlibCtx p A B l q base oidOk hash wbl kwpE kwpD) where
  zero_eq := rfl
  add_eq := fun _ _ => rfl
  neg_eq := fun _ => rfl
  smul_eq := fun _ _ => rfl
  q_prime := hq
  order := hord
  gen := hgen
  l_pos := hl0
  l_mod := hl8
  l_le := hl
  q_lo := hq_lo
  q_hi := hq_hi
  p_hi := hp_hi
  xy_none := Bee2V.C16.Br.xy_none
  xy_lt := fun _ _ _ h => Bee2V.C16.Br.xy_lt (p := p) (A := A) (B := B) h
  ofXY_xy := Bee2V.C16.Br.ofXY_xy
  xy_ofXY := Bee2V.C16.Br.xy_ofXY
  liftX_x := c06_liftX_x
  liftX_of := c06_liftX_of hp4
  xy_neg := fun _ _ _ h => ⟨_, c06_xy_neg h⟩
  hash_len := hhash
  kwp_len := hkl
  kwp_inv := hki

/-- `Laws` for the real curve group WITH the belt model (belt-hash, belt-WBL, belt-KWP of Bee2V.C01 as used by the
driver): the belt hypotheses are theorems (`belt_hash_len` from C01's `belt_hash_length`, `belt_kwp_laws`); what
remains is: q prime and the order of the base point, cofactor 1, p ≡ 3 (mod 4) and the sizes -/
theorem mathlib_Laws_belt (oidOk : Bytes → Bool) (hq : Nat.Prime q) (hord : ∀ n : Nat, n • base = 0 ↔ q ∣ n)
    (hgen : ∀ P : (Wc A B).Point, ∃ n : Nat, P = n • base) (hp4 : p % 4 = 3)
    (hl0 : 0 < l) (hl8 : l % 8 = 0) (hl : l ≤ 256)
    (hq_lo : 2 ^ (2 * l - 1) < q) (hq_hi : q < 2 ^ (2 * l)) (hp_hi : p < 2 ^ (2 * l)) :
    Laws (mathlibCtx p A B l q base oidOk beltHash beltWbl beltWbl beltKwpD) :=
  mathlib_Laws p A B l q base oidOk beltHash beltWbl beltWbl beltKwpD hq hord hgen hp4 hl0 hl8 hl hq_lo hq_hi hp_hi
    belt_hash_len (fun θ x h => (belt_kwp_laws θ x h).1) (fun θ x _ h => (belt_kwp_laws θ x h).2)

/-- bignSign on the real curve with the belt model: complete and equal to the standard's value; hypotheses: q prime
and the order of G, cofactor 1, p ≡ 3 (mod 4), sizes — nothing about belt -/
theorem sign_complete_curve_belt (oidOk : Bytes → Bool) (hq : Nat.Prime q) (hord : ∀ n : Nat, n • base = 0 ↔ q ∣ n)
    (hgen : ∀ P : (Wc A B).Point, ∃ n : Nat, P = n • base) (hp4 : p % 4 = 3)
    (hl0 : 0 < l) (hl8 : l % 8 = 0) (hl : l ≤ 256)
    (hq_lo : 2 ^ (2 * l - 1) < q) (hq_hi : q < 2 ^ (2 * l)) (hp_hi : p < 2 ^ (2 * l))
    {oid Hb priv : Bytes} (ho : oidOk oid = true) (hH : Hb.length = l / 4)
    (hd0 : 0 < leNat priv) (hdq : leNat priv < q) (tape : Bytes) :
    (∀ rest, randNZMod (mathlibCtx p A B l q base oidOk beltHash beltWbl beltWbl beltKwpD) tape = (none, rest) →
      sign (mathlibCtx p A B l q base oidOk beltHash beltWbl beltWbl beltKwpD) oid Hb priv tape = (.badRng, [], rest)) ∧
    (∀ k rest, randNZMod (mathlibCtx p A B l q base oidOk beltHash beltWbl beltWbl beltKwpD) tape = (some k, rest) →
      sign (mathlibCtx p A B l q base oidOk beltHash beltWbl beltWbl beltKwpD) oid Hb priv tape =
        (.ok, specSig (mathlibCtx p A B l q base oidOk beltHash beltWbl beltWbl beltKwpD) oid Hb (leNat priv) k, rest) ∧
      (specSig (mathlibCtx p A B l q base oidOk beltHash beltWbl beltWbl beltKwpD) oid Hb (leNat priv) k).length
        = l / 4 + l / 4 / 2 ∧
      verify (mathlibCtx p A B l q base oidOk beltHash beltWbl beltWbl beltKwpD) oid Hb
        (specSig (mathlibCtx p A B l q base oidOk beltHash beltWbl beltWbl beltKwpD) oid Hb (leNat priv) k)
        (pubOf (mathlibCtx p A B l q base oidOk beltHash beltWbl beltWbl beltKwpD) (leNat priv)) = .ok) :=
  sign_complete (mathlib_Laws_belt p A B l q base oidOk hq hord hgen hp4 hl0 hl8 hl hq_lo hq_hi hp_hi) ho hH hd0 hdq tape

end laws

/-! ### B2. bridges to the C06 models of ec.c over the table of `ecpCreateJ` -/

section bridge
variable (p : Nat) [Fact p.Prime] (hp2 : p ≠ 2) {A B : Nat} (hA : A < p) (hB : B < p)
  (l q : Nat) (base : (Wc (A : ZMod p) (B : ZMod p)).Point)
  (oidOk : Bytes → Bool) (hash : Bytes → Bytes) (wbl kwpE : Bytes → Bytes → Bytes)
  (kwpD : Bytes → Bytes → Bytes → Bytes × Bytes)
include hp2 hA hB

/-- bignKeypairGen / bignPubkeyCalc / bignSign (P = base), bignDH / bignKeyWrap (P = the loaded public key),
bignKeyUnwrap (P = the decompressed point): `ecMulA` on the reduced coordinates (x, y) of P, scalar d, any word
size and length, returns (FALSE = `none`) the value `C.xy (C.smul d P)` read by the model -/
theorem c02_ecMulA_bridge {P : (Wc (A : ZMod p) (B : ZMod p)).Point} {x y : Nat}
    (hP : (mathlibCtx p (A : ZMod p) (B : ZMod p) l q base oidOk hash wbl kwpE kwpD).xy P = some (x, y))
    (W m d : Nat) :
    ecMulA (ecOps (mkCurve (natFld p) A B)) W (x, y) d m =
      (mathlibCtx p (A : ZMod p) (B : ZMod p) l q base oidOk hash wbl kwpE kwpD).xy
        ((mathlibCtx p (A : ZMod p) (B : ZMod p) l q base oidOk hash wbl kwpE kwpD).smul d P) :=
  Bee2V.C16.c06_ecMulA_bridge_xy p hp2 hA hB q base hP W m d

/-- bignVerify / bignIdExtract: `ecAddMulA(.., 2, G, a, Q, b)` is `C.xy (C.add (C.smul a G) (C.smul b Q))` -/
theorem c02_ecAddMulA2_bridge {G Q : (Wc (A : ZMod p) (B : ZMod p)).Point} {xG yG xQ yQ : Nat}
    (hG : (mathlibCtx p (A : ZMod p) (B : ZMod p) l q base oidOk hash wbl kwpE kwpD).xy G = some (xG, yG))
    (hQ : (mathlibCtx p (A : ZMod p) (B : ZMod p) l q base oidOk hash wbl kwpE kwpD).xy Q = some (xQ, yQ))
    (W a b : Nat) :
    ecAddMulA (ecOps (mkCurve (natFld p) A B)) W [((xG, yG), a), ((xQ, yQ), b)] =
      (mathlibCtx p (A : ZMod p) (B : ZMod p) l q base oidOk hash wbl kwpE kwpD).xy
        ((mathlibCtx p (A : ZMod p) (B : ZMod p) l q base oidOk hash wbl kwpE kwpD).add
          ((mathlibCtx p (A : ZMod p) (B : ZMod p) l q base oidOk hash wbl kwpE kwpD).smul a G)
          ((mathlibCtx p (A : ZMod p) (B : ZMod p) l q base oidOk hash wbl kwpE kwpD).smul b Q)) :=
  Bee2V.C16.c06_ecAddMulA2_bridge p hp2 hA hB q base hG hQ W a b

/-- bignIdVerify: `ecAddMulA(.., 3, G, a, R, b, Q, c)` is the three-summand value read by the model -/
theorem c02_ecAddMulA3_bridge {G R Q : (Wc (A : ZMod p) (B : ZMod p)).Point} {xG yG xR yR xQ yQ : Nat}
    (hG : (mathlibCtx p (A : ZMod p) (B : ZMod p) l q base oidOk hash wbl kwpE kwpD).xy G = some (xG, yG))
    (hR : (mathlibCtx p (A : ZMod p) (B : ZMod p) l q base oidOk hash wbl kwpE kwpD).xy R = some (xR, yR))
    (hQ : (mathlibCtx p (A : ZMod p) (B : ZMod p) l q base oidOk hash wbl kwpE kwpD).xy Q = some (xQ, yQ))
    (W a b c : Nat) :
    ecAddMulA (ecOps (mkCurve (natFld p) A B)) W [((xG, yG), a), ((xR, yR), b), ((xQ, yQ), c)] =
      (mathlibCtx p (A : ZMod p) (B : ZMod p) l q base oidOk hash wbl kwpE kwpD).xy
        ((mathlibCtx p (A : ZMod p) (B : ZMod p) l q base oidOk hash wbl kwpE kwpD).add
          ((mathlibCtx p (A : ZMod p) (B : ZMod p) l q base oidOk hash wbl kwpE kwpD).add
            ((mathlibCtx p (A : ZMod p) (B : ZMod p) l q base oidOk hash wbl kwpE kwpD).smul a G)
            ((mathlibCtx p (A : ZMod p) (B : ZMod p) l q base oidOk hash wbl kwpE kwpD).smul b R))
          ((mathlibCtx p (A : ZMod p) (B : ZMod p) l q base oidOk hash wbl kwpE kwpD).smul c Q)) := by
  have h := Bee2V.C16.c06_ecAddMulA_bridge p hp2 hA hB q base
    [((xG, yG), a), ((xR, yR), b), ((xQ, yQ), c)] [G, R, Q]
    (List.Forall₂.cons hG (List.Forall₂.cons hR (List.Forall₂.cons hQ List.Forall₂.nil))) W
  simp only [List.zipWith_cons_cons, List.zipWith_nil_right, List.sum_cons, List.sum_nil, add_zero,
    ← add_assoc] at h
  exact h

/-! ### B3. the acceptance set of bignVerify in terms of the library's `ecAddMulA` -/

/-- the acceptance set of bignVerify on the real curve: valid identifier; the public key is a pair of residues
`< p` on the curve; `s1 < q`; the call `ecAddMulA(R, ec, 2, G, (s1 + H) mod q, Q, s0 + 2^l)` (as modelled and
verified in C06, any word size) returns TRUE, and `<belt-hash(oid ‖ <x_R>_{2l} ‖ H)>_l = s0`.  No `Laws`. -/
theorem verify_exact_curve (hq : Nat.Prime q) (hord : ∀ n : Nat, n • base = 0 ↔ q ∣ n)
    (hgen : ∀ P : (Wc (A : ZMod p) (B : ZMod p)).Point, ∃ n : Nat, P = n • base) (hp4 : p % 4 = 3)
    (hl0 : 0 < l) (hl8 : l % 8 = 0) (hl : l ≤ 256)
    (hq_lo : 2 ^ (2 * l - 1) < q) (hq_hi : q < 2 ^ (2 * l)) (hp_hi : p < 2 ^ (2 * l))
    (hhash : ∀ m, (hash m).length = 32)
    (hkl : ∀ θ x : Bytes, 32 ≤ x.length → (kwpE θ x).length = x.length)
    (hki : ∀ θ x : Bytes, θ.length = min 32 (l / 4) → 32 ≤ x.length →
      kwpD θ ((kwpE θ x).take (x.length - 16)) ((kwpE θ x).drop (x.length - 16))
        = (x.take (x.length - 16), x.drop (x.length - 16)))
    {xG yG : Nat}
    (hG : (mathlibCtx p (A : ZMod p) (B : ZMod p) l q base oidOk hash wbl kwpE kwpD).xy base = some (xG, yG))
    (W : Nat) {oid Hb sig pub : Bytes} (hH : Hb.length = l / 4) :
    verify (mathlibCtx p (A : ZMod p) (B : ZMod p) l q base oidOk hash wbl kwpE kwpD) oid Hb sig pub = .ok ↔
      oidOk oid = true ∧
      (leNat (pub.take (l / 4)) < p ∧ leNat (pub.drop (l / 4)) < p ∧
        (Wc (A : ZMod p) (B : ZMod p)).Nonsingular
          (leNat (pub.take (l / 4)) : ZMod p) (leNat (pub.drop (l / 4)) : ZMod p)) ∧
      leNat (sig.drop (l / 4 / 2)) < q ∧
      ∃ x y, ecAddMulA (ecOps (mkCurve (natFld p) A B)) W
          [((xG, yG), (leNat (sig.drop (l / 4 / 2)) + leNat Hb) % q),
           ((leNat (pub.take (l / 4)), leNat (pub.drop (l / 4))), leNat (sig.take (l / 4 / 2)) + 2 ^ l)]
          = some (x, y) ∧
        (hash (oid ++ natLE (l / 4) x ++ Hb)).take (l / 4 / 2) = sig.take (l / 4 / 2) := by
  rw [verify_exact (mathlib_Laws p _ _ l q base oidOk hash wbl kwpE kwpD hq hord hgen hp4 hl0 hl8 hl hq_lo hq_hi
    hp_hi hhash hkl hki) hH]
  have eload : loadPub (mathlibCtx p (A : ZMod p) (B : ZMod p) l q base oidOk hash wbl kwpE kwpD) pub =
      if leNat (pub.take (l / 4)) ≥ p ∨ leNat (pub.drop (l / 4)) ≥ p then none
      else Bee2V.C16.curveOfXY p (A : ZMod p) (B : ZMod p) (leNat (pub.take (l / 4))) (leNat (pub.drop (l / 4))) :=
    rfl
  rw [eload]
  constructor
  · rintro ⟨ho, Q, hQ, hs, x, y, hxy, hh⟩
    split at hQ
    · cases hQ
    · obtain ⟨hxp, hyp, hns, _⟩ := Bee2V.C16.Br.ofXY_some hQ
      refine ⟨ho, ⟨hxp, hyp, hns⟩, hs, x, y, ?_, hh⟩
      rw [c02_ecAddMulA2_bridge p hp2 hA hB l q base oidOk hash wbl kwpE kwpD hG
        (Bee2V.C16.Br.xy_ofXY _ _ _ hQ)]
      exact hxy
  · rintro ⟨ho, ⟨hxp, hyp, hns⟩, hs, x, y, hxy, hh⟩
    have hQ : Bee2V.C16.curveOfXY p (A : ZMod p) (B : ZMod p) (leNat (pub.take (l / 4)))
        (leNat (pub.drop (l / 4))) = some (Affine.Point.some _ _ hns) := by
      unfold Bee2V.C16.curveOfXY
      rw [dif_pos ⟨hxp, hyp, hns⟩]
    refine ⟨ho, Affine.Point.some _ _ hns, ?_, hs, x, y, ?_, hh⟩
    · rw [if_neg (by omega)]
      exact hQ
    · rw [c02_ecAddMulA2_bridge p hp2 hA hB l q base oidOk hash wbl kwpE kwpD hG
        (Bee2V.C16.Br.xy_ofXY _ _ _ hQ)] at hxy
      exact hxy

end bridge

/-! ### B4. end to end: the theorems of Props / PropsKeyt / PropsIbs without `Laws` -/

section endToEnd
variable (p : Nat) [Fact p.Prime] (A B : ZMod p) (l q : Nat) (base : (Wc A B).Point)
  (oidOk : Bytes → Bool) (hash : Bytes → Bytes) (wbl kwpE : Bytes → Bytes → Bytes)
  (kwpD : Bytes → Bytes → Bytes → Bytes × Bytes)
  (hq : Nat.Prime q) (hord : ∀ n : Nat, n • base = 0 ↔ q ∣ n)
  (hgen : ∀ P : (Wc A B).Point, ∃ n : Nat, P = n • base) (hp4 : p % 4 = 3)
  (hl0 : 0 < l) (hl8 : l % 8 = 0) (hl : l ≤ 256)
  (hq_lo : 2 ^ (2 * l - 1) < q) (hq_hi : q < 2 ^ (2 * l)) (hp_hi : p < 2 ^ (2 * l))
  (hhash : ∀ m, (hash m).length = 32)
  (hkl : ∀ θ x : Bytes, 32 ≤ x.length → (kwpE θ x).length = x.length)
  (hki : ∀ θ x : Bytes, θ.length = min 32 (l / 4) → 32 ≤ x.length →
    kwpD θ ((kwpE θ x).take (x.length - 16)) ((kwpE θ x).drop (x.length - 16))
      = (x.take (x.length - 16), x.drop (x.length - 16)))
include hq hord hgen hp4 hl0 hl8 hl hq_lo hq_hi hp_hi hhash hkl hki

/-- bignSign is complete on the real curve and returns the standard's value (`sign_complete` without `Laws`) -/
theorem sign_complete_curve {oid Hb priv : Bytes} (ho : oidOk oid = true) (hH : Hb.length = l / 4)
    (hd0 : 0 < leNat priv) (hdq : leNat priv < q) (tape : Bytes) :
    (∀ rest, randNZMod (mathlibCtx p A B l q base oidOk hash wbl kwpE kwpD) tape = (none, rest) →
      sign (mathlibCtx p A B l q base oidOk hash wbl kwpE kwpD) oid Hb priv tape = (.badRng, [], rest)) ∧
    (∀ k rest, randNZMod (mathlibCtx p A B l q base oidOk hash wbl kwpE kwpD) tape = (some k, rest) →
      sign (mathlibCtx p A B l q base oidOk hash wbl kwpE kwpD) oid Hb priv tape =
        (.ok, specSig (mathlibCtx p A B l q base oidOk hash wbl kwpE kwpD) oid Hb (leNat priv) k, rest) ∧
      (specSig (mathlibCtx p A B l q base oidOk hash wbl kwpE kwpD) oid Hb (leNat priv) k).length
        = l / 4 + l / 4 / 2 ∧
      verify (mathlibCtx p A B l q base oidOk hash wbl kwpE kwpD) oid Hb
        (specSig (mathlibCtx p A B l q base oidOk hash wbl kwpE kwpD) oid Hb (leNat priv) k)
        (pubOf (mathlibCtx p A B l q base oidOk hash wbl kwpE kwpD) (leNat priv)) = .ok) :=
  sign_complete (mathlib_Laws p A B l q base oidOk hash wbl kwpE kwpD hq hord hgen hp4 hl0 hl8 hl hq_lo hq_hi
    hp_hi hhash hkl hki) ho hH hd0 hdq tape

/-- bignKeypairGen on the real curve (`keygen_valid` without `Laws`) -/
theorem keygen_valid_curve (tape : Bytes) :
    (∀ rest, randNZMod (mathlibCtx p A B l q base oidOk hash wbl kwpE kwpD) tape = (none, rest) →
      keypairGen (mathlibCtx p A B l q base oidOk hash wbl kwpE kwpD) tape = (.badRng, [], rest)) ∧
    (∀ d rest, randNZMod (mathlibCtx p A B l q base oidOk hash wbl kwpE kwpD) tape = (some d, rest) →
      0 < d ∧ d < q ∧
      keypairGen (mathlibCtx p A B l q base oidOk hash wbl kwpE kwpD) tape =
        (.ok, natLE (l / 4) d ++ pubOf (mathlibCtx p A B l q base oidOk hash wbl kwpE kwpD) d, rest) ∧
      keypairVal (mathlibCtx p A B l q base oidOk hash wbl kwpE kwpD) (natLE (l / 4) d)
        (pubOf (mathlibCtx p A B l q base oidOk hash wbl kwpE kwpD) d) = .ok) :=
  keygen_valid (mathlib_Laws p A B l q base oidOk hash wbl kwpE kwpD hq hord hgen hp4 hl0 hl8 hl hq_lo hq_hi
    hp_hi hhash hkl hki) tape

/-- bignDH is symmetric on the real curve (`dh_symm` without `Laws`) -/
theorem dh_symm_curve {da db : Nat} (ha0 : 0 < da) (haq : da < q) (hb0 : 0 < db) (hbq : db < q)
    (n : Nat) (hn : n ≤ 2 * (l / 4)) :
    dh (mathlibCtx p A B l q base oidOk hash wbl kwpE kwpD) (natLE (l / 4) da)
        (pubOf (mathlibCtx p A B l q base oidOk hash wbl kwpE kwpD) db) n =
      dh (mathlibCtx p A B l q base oidOk hash wbl kwpE kwpD) (natLE (l / 4) db)
        (pubOf (mathlibCtx p A B l q base oidOk hash wbl kwpE kwpD) da) n ∧
    (dh (mathlibCtx p A B l q base oidOk hash wbl kwpE kwpD) (natLE (l / 4) da)
        (pubOf (mathlibCtx p A B l q base oidOk hash wbl kwpE kwpD) db) n).1 = .ok :=
  dh_symm (mathlib_Laws p A B l q base oidOk hash wbl kwpE kwpD hq hord hgen hp4 hl0 hl8 hl hq_lo hq_hi
    hp_hi hhash hkl hki) ha0 haq hb0 hbq n hn

/-- Unwrap(Wrap(key)) = key on the real curve (`keywrap_roundtrip` without `Laws`): uses the square-root
clauses `liftX_x`, `liftX_of`, `xy_neg` proved in LemmasC06.lean -/
theorem keywrap_roundtrip_curve {d : Nat} (hd0 : 0 < d) (hdq : d < q)
    (key : Bytes) (hk : 16 ≤ key.length) (header : Option Bytes)
    (hh : (hdrOctets header).length = 16) (tape : Bytes) :
    match randNZMod (mathlibCtx p A B l q base oidOk hash wbl kwpE kwpD) tape with
    | (none, rest) =>
      keyWrap (mathlibCtx p A B l q base oidOk hash wbl kwpE kwpD) key header
        (pubOf (mathlibCtx p A B l q base oidOk hash wbl kwpE kwpD) d) tape = (.badRng, [], rest)
    | (some _, rest) =>
      ∃ token, keyWrap (mathlibCtx p A B l q base oidOk hash wbl kwpE kwpD) key header
          (pubOf (mathlibCtx p A B l q base oidOk hash wbl kwpE kwpD) d) tape = (.ok, token, rest) ∧
        token.length = l / 4 + key.length + 16 ∧
        ∀ header', hdrOctets header' = hdrOctets header →
          keyUnwrap (mathlibCtx p A B l q base oidOk hash wbl kwpE kwpD) token header' (natLE (l / 4) d)
            = (.ok, key) :=
  keywrap_roundtrip (mathlib_Laws p A B l q base oidOk hash wbl kwpE kwpD hq hord hgen hp4 hl0 hl8 hl hq_lo hq_hi
    hp_hi hhash hkl hki) hd0 hdq key hk header hh tape

/-- bignIdExtract → bignIdSign → bignIdVerify on the real curve (`idextract_idsign_idverify` without `Laws`) -/
theorem idextract_idsign_idverify_curve (oid idH Hb sig pub out : Bytes) (k : Nat)
    (hH0 : idH.length = l / 4) (hH : Hb.length = l / 4) (hk0 : 0 < k) (hk : k < q)
    (hex : idExtract (mathlibCtx p A B l q base oidOk hash wbl kwpE kwpD) oid idH sig pub = (.ok, out)) :
    leNat (out.take (l / 4)) < q ∧ out.length = 3 * (l / 4) ∧
    ∃ isig, idSignWith (mathlibCtx p A B l q base oidOk hash wbl kwpE kwpD) oid idH Hb
        (leNat (out.take (l / 4))) k = (.ok, isig) ∧
      isig.length = l / 4 + l / 4 / 2 ∧
      idVerify (mathlibCtx p A B l q base oidOk hash wbl kwpE kwpD) oid idH Hb isig (out.drop (l / 4)) pub
        = .ok :=
  idextract_idsign_idverify (mathlib_Laws p A B l q base oidOk hash wbl kwpE kwpD hq hord hgen hp4 hl0 hl8 hl
    hq_lo hq_hi hp_hi hhash hkl hki) oid idH Hb sig pub out k hH0 hH hk0 hk hex

end endToEnd

/-! ### non-vacuity: y² = x³ + x + 1 over `ZMod 7` (5 points), G = (0, 1)

A joint instance of ALL hypotheses of `mathlib_Laws` would need a curve of prime order q > 2^15 (l ≥ 8 forces
2^(2l-1) < q) together with a proof that every one of its > 32768 points is a multiple of the base point (point
counting): not cheap, not done.  (C16's toy curve over `ZMod 23` has cofactor 4: `hgen` FAILS there.)  The
hypotheses are shown satisfiable in groups: the group hypotheses `hq`, `hord`, `hgen`, `hp4` JOINTLY on a real
curve of prime order (`c06_toy7G_order` / `c06_toy7G_gen`, LemmasC06.lean: the order and 2 • G are read off runs
of C06's models through the bridge), the belt hypotheses `hkl`, `hki` for the belt model of C01
(`belt_kwp_laws`); the size hypotheses are inequalities between numerals for the standard parameters. -/

section toy
attribute [local instance] c06_fact_prime_7

example : Nat.Prime 5 ∧ (∀ n : Nat, n • c06_toy7G = 0 ↔ 5 ∣ n) ∧
    (∀ P : (Wc ((1 : Nat) : ZMod 7) ((1 : Nat) : ZMod 7)).Point, ∃ n : Nat, P = n • c06_toy7G) ∧ 7 % 4 = 3 :=
  ⟨by decide, c06_toy7G_order, c06_toy7G_gen, rfl⟩

example (l : Nat) : (∀ θ x : Bytes, 32 ≤ x.length → (beltWbl θ x).length = x.length) ∧
    (∀ θ x : Bytes, θ.length = min 32 (l / 4) → 32 ≤ x.length →
      beltKwpD θ ((beltWbl θ x).take (x.length - 16)) ((beltWbl θ x).drop (x.length - 16))
        = (x.take (x.length - 16), x.drop (x.length - 16))) :=
  ⟨fun θ x h => (belt_kwp_laws θ x h).1, fun θ x _ h => (belt_kwp_laws θ x h).2⟩

/-- `c02_ecMulA_bridge` on this curve: the value read by bignPubkeyCalc for d = 3 is (2, 2), by one run of the
`ecMulA` model (64-bit words, m = 1) -/
example (l : Nat) (oidOk : Bytes → Bool) (hash : Bytes → Bytes) (wbl kwpE : Bytes → Bytes → Bytes)
    (kwpD : Bytes → Bytes → Bytes → Bytes × Bytes) :
    (mathlibCtx 7 _ _ l 5 c06_toy7G oidOk hash wbl kwpE kwpD).xy
      ((mathlibCtx 7 _ _ l 5 c06_toy7G oidOk hash wbl kwpE kwpD).smul 3
        (mathlibCtx 7 _ _ l 5 c06_toy7G oidOk hash wbl kwpE kwpD).base) = some (2, 2) := by
  rw [show (mathlibCtx 7 _ _ l 5 c06_toy7G oidOk hash wbl kwpE kwpD).base = c06_toy7G from rfl,
    ← c02_ecMulA_bridge 7 (by decide) (A := 1) (B := 1) (by decide) (by decide) l 5 c06_toy7G oidOk hash wbl
    kwpE kwpD (P := c06_toy7G) (x := 0) (y := 1)
    (Bee2V.C16.Br.xy_of_some (by decide) (by decide) c06_toy7G_ns) 64 1 3]
  decide +kernel

end toy
end Bee2V.C02

/-
C02 — property theorems, part 1: key pairs, signatures, verification, Diffie–Hellman.
(part 2: PropsKeyt.lean — key transport; part 3: PropsIbs.lean — identity-based signatures.)

All theorems are about the code-shaped model of Model.lean under the hypotheses `Laws C`
(Laws.lean).  `randNZMod C tape` is the model of zzRandNZMod over the caller's generator `tape`.
-/
import Bee2V.C02.LemmasSign2
namespace Bee2V.C02
variable {G : Type} [AddCommGroup G] {C : Ctx G}

/-- zzRandNZMod: whatever the generator returns, an accepted value lies in [1, q-1] -/
theorem randNZMod_range (C : Ctx G) (tape : Bytes) (v : Nat) (rest : Bytes)
    (h : randNZMod C tape = (some v, rest)) : 0 < v ∧ v < C.q :=
  sg_randLoop_range _ _ _ _ _ _ h

/-- bignKeypairGen: for EVERY tape the result is ERR_BAD_RNG (65 rejected draws) or a pair (d, dG) with
0 < d < q that passes bignKeypairVal; ERR_BAD_PARAMS is impossible -/
theorem keygen_valid (L : Laws C) (tape : Bytes) :
    (∀ rest, randNZMod C tape = (none, rest) → keypairGen C tape = (.badRng, [], rest)) ∧
    (∀ d rest, randNZMod C tape = (some d, rest) →
      0 < d ∧ d < C.q ∧ keypairGen C tape = (.ok, natLE C.no d ++ pubOf C d, rest) ∧
      keypairVal C (natLE C.no d) (pubOf C d) = .ok) := by
  constructor
  · intro rest h
    unfold keypairGen; rw [h]
  · intro d rest h
    obtain ⟨h0, hq⟩ := randNZMod_range C tape d rest h
    obtain ⟨x, y, hxy, hp, _⟩ := sg_pubOf L h0 hq
    refine ⟨h0, hq, ?_, ?_⟩
    · unfold keypairGen; rw [h]; simp only [L.smul_eq, hxy, hp]
    · unfold keypairVal
      simp only [sg_leNat_priv L hq, L.smul_eq, hxy, hp]
      rw [if_neg (by omega)]
      simp

/-- bignKeypairVal accepts exactly the pairs (d, <dG>) with 0 < d < q -/
theorem keypairVal_exact (L : Laws C) (priv pub : Bytes) :
    keypairVal C priv pub = .ok ↔ 0 < leNat priv ∧ leNat priv < C.q ∧ pub = pubOf C (leNat priv) := by
  unfold keypairVal
  simp only
  by_cases hd : leNat priv = 0 ∨ leNat priv ≥ C.q
  · rw [if_pos hd]
    constructor
    · intro h; cases h
    · intro h; omega
  · rw [if_neg hd]
    have h0 : 0 < leNat priv := by omega
    have hq : leNat priv < C.q := by omega
    obtain ⟨x, y, hxy, hp, _⟩ := sg_pubOf L h0 hq
    simp only [L.smul_eq, hxy, hp]
    constructor
    · intro h
      refine ⟨h0, hq, ?_⟩
      by_cases he : encXY C (x, y) = pub
      · exact he.symm
      · rw [if_neg he] at h; cases h
    · intro h; rw [if_pos h.2.2.symm]

/-- bignPubkeyVal / the public-key check of every verifier: coordinates < p and on the curve -/
theorem pubkeyVal_exact (C : Ctx G) (pub : Bytes) :
    pubkeyVal C pub = .ok ↔
      leNat (pub.take C.no) < C.p ∧ leNat (pub.drop C.no) < C.p ∧
      ∃ Q, C.ofXY (leNat (pub.take C.no)) (leNat (pub.drop C.no)) = some Q := by
  unfold pubkeyVal loadPub
  simp only
  by_cases h : leNat (pub.take C.no) ≥ C.p ∨ leNat (pub.drop C.no) ≥ C.p
  · rw [if_pos h]
    constructor
    · intro h'; cases h'
    · intro h'; omega
  · rw [if_neg h]
    cases hq : C.ofXY (leNat (pub.take C.no)) (leNat (pub.drop C.no)) with
    | none => simp
    | some Q => simp; omega

/-- bignSign is complete and equals the standard's value: for every private key in [1, q-1], every
hash value of l/4 octets (also ≥ q), every identifier and every tape, the result is ERR_BAD_RNG
(no accepted draw) or the signature `specSig` of alg. 7.1.3 for the drawn one-time key, and that
signature passes bignVerify under the matching public key -/
theorem sign_complete (L : Laws C) {oid Hb priv : Bytes} (ho : C.oidOk oid = true) (hH : Hb.length = C.no)
    (hd0 : 0 < leNat priv) (hdq : leNat priv < C.q) (tape : Bytes) :
    (∀ rest, randNZMod C tape = (none, rest) → sign C oid Hb priv tape = (.badRng, [], rest)) ∧
    (∀ k rest, randNZMod C tape = (some k, rest) →
      sign C oid Hb priv tape = (.ok, specSig C oid Hb (leNat priv) k, rest) ∧
      (specSig C oid Hb (leNat priv) k).length = C.no + C.no / 2 ∧
      verify C oid Hb (specSig C oid Hb (leNat priv) k) (pubOf C (leNat priv)) = .ok) := by
  have hp : privOk C (leNat priv) = true := by simp [privOk]; omega
  constructor
  · intro rest h
    unfold sign; simp only [ho, hp, h]; rfl
  · intro k rest h
    obtain ⟨hk0, hkq⟩ := randNZMod_range C tape k rest h
    refine ⟨?_, sg_specSig_length L hk0 hkq, sg_verify_specSig L ho hH hd0 hdq hk0 hkq⟩
    unfold sign; simp only [ho, hp, h, sg_signWith L hH hk0 hkq]; rfl

/-- bignSign2 (deterministic nonce, alg. 6.3.3): whenever the nonce loop finishes, the result is the
standard's signature for the nonce it found (the first iterate of belt-WBL under
theta = belt-hash(oid ‖ d ‖ t) that lies in [1, q-1]), and it verifies.
PARTIAL with respect to termination: the C loop is `while (1)`; the model runs it with `fuel` -/
theorem sign2_complete_partial (L : Laws C) {oid Hb priv : Bytes} (ho : C.oidOk oid = true) (hH : Hb.length = C.no)
    (hd0 : 0 < leNat priv) (hdq : leNat priv < C.q) (fuel : Nat) (t : Option Bytes) (r : Err × Bytes)
    (h : sign2 C fuel oid Hb priv t = some r) :
    ∃ k, nonceLoop C (C.hash (oid ++ priv ++ (match t with | some t => t | none => []))) fuel Hb = some k ∧
      0 < k ∧ k < C.q ∧ r = (.ok, specSig C oid Hb (leNat priv) k) ∧
      verify C oid Hb r.2 (pubOf C (leNat priv)) = .ok := by
  have hp : privOk C (leNat priv) = true := by simp [privOk]; omega
  unfold sign2 at h
  simp only [ho, hp, Bool.not_true, Bool.false_eq_true, if_false] at h
  split at h
  · cases h
  · rename_i k hn
    obtain ⟨hk0, hkq⟩ := sg_nonceLoop_range C _ _ _ _ hn
    simp only [Option.some.injEq] at h
    rw [sg_signWith L hH hk0 hkq] at h
    refine ⟨k, hn, hk0, hkq, h.symm, ?_⟩
    rw [← h]
    exact sg_verify_specSig L ho hH hd0 hdq hk0 hkq

/-- the acceptance set of bignVerify is EXACTLY the standard's: valid identifier, public key with
coordinates < p on the curve, `s1 < q`, `R = ((s1 + H) mod q) G + (s0 + 2^l) Q ≠ O` and
`<belt-hash(oid ‖ <R>_2l ‖ H)>_l = s0` -/
theorem verify_exact (L : Laws C) {oid Hb sig pub : Bytes} (hH : Hb.length = C.no) :
    verify C oid Hb sig pub = .ok ↔
      C.oidOk oid = true ∧ ∃ Q, loadPub C pub = some Q ∧ specAccept C oid Hb sig Q := by
  have hq := L.q_pos
  have hHW : leNat Hb < C.W := by
    have := leNat_lt Hb
    rw [hH, L.pow256, ← L.W_eq] at this
    exact this
  unfold verify
  by_cases ho : C.oidOk oid = true
  swap
  · simp [ho]
  · simp only [ho, Bool.not_true, Bool.false_eq_true, if_false, true_and]
    cases hl : loadPub C pub with
    | none => simp
    | some Q =>
      simp only [Option.some.injEq, exists_eq_left']
      unfold verifyCore specAccept
      simp only
      by_cases hs : leNat (sig.drop (C.no / 2)) ≥ C.q
      · rw [if_pos hs]
        constructor
        · intro h; cases h
        · intro h; omega
      · rw [if_neg hs]
        have hs' : leNat (sig.drop (C.no / 2)) < C.q := by omega
        rw [redOnce_eq hHW L.W_lt_2q, addMod_eq hs' (Nat.mod_lt _ hq) L.q_lt_W L.W_lt_2q,
          Nat.add_mod_mod, L.smul_eq, L.smul_eq, L.add_eq]
        cases hR : C.xy (((leNat (sig.drop (C.no / 2)) + leNat Hb) % C.q) • C.base
            + (leNat (sig.take (C.no / 2)) + 2 ^ C.l) • Q) with
        | none => simp [hs']
        | some R =>
          obtain ⟨x, y⟩ := R
          dsimp only
          by_cases hh : hashL C (oid ++ natLE C.no x ++ Hb) = sig.take (C.no / 2)
          · rw [if_pos hh]
            exact ⟨fun _ => ⟨hs', x, y, rfl, hh⟩, fun _ => rfl⟩
          · rw [if_neg hh]
            constructor
            · intro h; exact absurd h (by simp)
            · rintro ⟨_, x', y', he, hh'⟩
              cases he
              exact absurd hh' hh

/-- the error codes of bignVerify and their order: identifier, then public key, then signature -/
theorem verify_codes (L : Laws C) {oid Hb sig pub : Bytes} (hH : Hb.length = C.no) :
    (C.oidOk oid = false → verify C oid Hb sig pub = .badOid) ∧
    (C.oidOk oid = true → loadPub C pub = none → verify C oid Hb sig pub = .badPubkey) ∧
    (C.oidOk oid = true → ∀ Q, loadPub C pub = some Q → ¬ specAccept C oid Hb sig Q →
      verify C oid Hb sig pub = .badSig) := by
  refine ⟨?_, ?_, ?_⟩
  · intro h; unfold verify; simp [h]
  · intro h hl; unfold verify; simp [h, hl]
  · intro h Q hl hn
    have hne : verify C oid Hb sig pub ≠ .ok := by
      intro he
      obtain ⟨_, Q', hl', ha⟩ := (verify_exact L hH).1 he
      rw [hl] at hl'
      cases hl'
      exact hn ha
    unfold verify at hne ⊢
    simp only [h, hl, Bool.not_true, Bool.false_eq_true, if_false] at hne ⊢
    unfold verifyCore at hne ⊢
    simp only at hne ⊢
    split
    · rfl
    · rename_i hs
      rw [if_neg hs] at hne
      split
      · rfl
      · rename_i R hR
        rw [hR] at hne
        simp only at hne
        split
        · rename_i hh
          rw [if_pos hh] at hne
          exact absurd rfl hne
        · rfl

/-- a signature whose second part is not reduced (s1 ≥ q: s1 = q, s1 + q, 2^2l - 1, …) is rejected -/
theorem verify_rejects_unreduced (L : Laws C) {oid Hb sig pub : Bytes} (hH : Hb.length = C.no)
    (h : C.q ≤ leNat (sig.drop (C.no / 2))) : verify C oid Hb sig pub ≠ .ok := by
  intro he
  obtain ⟨_, Q, _, ha, _⟩ := (verify_exact L hH).1 he
  omega

/-- bignDH is symmetric: both parties obtain the same octets, and never an error, for all private
keys in [1, q-1] and every admitted key length -/
theorem dh_symm (L : Laws C) {da db : Nat} (ha0 : 0 < da) (haq : da < C.q) (hb0 : 0 < db) (hbq : db < C.q)
    (n : Nat) (hn : n ≤ 2 * C.no) :
    dh C (natLE C.no da) (pubOf C db) n = dh C (natLE C.no db) (pubOf C da) n ∧
    (dh C (natLE C.no da) (pubOf C db) n).1 = .ok := by
  obtain ⟨_, _, _, _, hla⟩ := sg_pubOf L ha0 haq
  obtain ⟨_, _, _, _, hlb⟩ := sg_pubOf L hb0 hbq
  have hpa : privOk C da = true := by simp [privOk]; omega
  have hpb : privOk C db = true := by simp [privOk]; omega
  obtain ⟨x, y, hxy⟩ := L.xy_some (L.mul_mul_ne ha0 haq hb0 hbq)
  have hxy' : C.xy (db • da • C.base) = some (x, y) := by rw [smul_comm]; exact hxy
  unfold dh
  simp only [if_neg (Nat.not_lt.2 hn), sg_leNat_priv L haq, sg_leNat_priv L hbq, hpa, hpb, hla, hlb,
    L.smul_eq, hxy, hxy', Bool.not_true, Bool.false_eq_true, if_false, and_self]

end Bee2V.C02

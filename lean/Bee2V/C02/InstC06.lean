/-
C02 — the REAL elliptic-curve group as an instance of the abstract context `Ctx G` of the bign model:
`mathlibCtx p A B l q base … : Ctx (Wc A B).Point` over Mathlib's group of nonsingular points of
y² = x³ + A x + B over `ZMod p` (`Wc A B` is C06's curve, Bee2V/C06/Spec.lean).  The group operations are those
of `WeierstrassCurve.Affine.Point`; coordinates are the canonical residues (`curveXY` / `curveOfXY` of
Bee2V/C16/InstC06.lean); the decompression of bignKeyUnwrap is `curveLiftX`.  belt is left abstract.

Props-land only (noncomputable: `curveOfXY` decides the curve condition classically); the executable model
(Model.lean, Inst.lean) is not touched.
-/
import Bee2V.C16.InstC06
import Bee2V.C02.Model
namespace Bee2V.C02
open WeierstrassCurve Bee2V.C06

section
variable (p : Nat) [Fact p.Prime] (A B : ZMod p)

/-- the decompression of bignKeyUnwrap: `t = x³ + A x + B`, `y = t^((p+1)/4)` (`qrPower`), accepted iff `y² = t`;
then the point (x, y).  The model calls `liftX x` only after the check `x < p`; `curveOfXY` re-checks `x < p`
(and `y.val < p`, which always holds) and asks for nonsingularity of (x, y): on an elliptic curve (Δ ≠ 0) the
equation `y² = t`, which has just been tested, implies it, so for the standard parameters the extra condition
never rejects (same remark as for `ofXY` in Bee2V/C16/InstC06.lean). -/
noncomputable def curveLiftX (x : Nat) : Option (Wc A B).Point :=
  let t : ZMod p := (x : ZMod p) ^ 3 + A * x + B
  let y : ZMod p := t ^ ((p + 1) / 4)
  if y ^ 2 = t then Bee2V.C16.curveOfXY p A B x y.val else none

/-- bign over the group of points of y² = x³ + A x + B over `ZMod p` with a base point and its claimed order q;
`ofXY` = `qrFrom(x) && qrFrom(y) && ecpIsOnA` (range checks, equation and nonsingularity — the latter automatic
on an elliptic curve) -/
noncomputable def mathlibCtx (l q : Nat) (base : (Wc A B).Point)
    (oidOk : Bytes → Bool) (hash : Bytes → Bytes) (wbl kwpE : Bytes → Bytes → Bytes)
    (kwpD : Bytes → Bytes → Bytes → Bytes × Bytes) : Ctx (Wc A B).Point where
  l := l
  p := p
  q := q
  zero := 0
  add := fun P Q => P + Q
  neg := fun P => -P
  smul := fun n P => n • P
  base := base
  xy := Bee2V.C16.curveXY p A B
  ofXY := Bee2V.C16.curveOfXY p A B
  liftX := curveLiftX p A B
  oidOk := oidOk
  hash := hash
  wbl := wbl
  kwpE := kwpE
  kwpD := kwpD

end
end Bee2V.C02

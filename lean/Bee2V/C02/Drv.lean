/-
C02 — line protocol of `drv_c02` (see harness/c02.c for the C side; docs/C02.md lists the ops).
-/
import Bee2V.C02.Inst
import Bee2V.Base.Proto
namespace Bee2V.C02.Drv
open Bee2V.C02 Bee2V.Proto Bee2V.Gen.C02Params

/-- rounds of the 6.3.3 nonce loop the driver is willing to run (the C loop is unbounded;
each round succeeds with probability > 1/2) -/
def fuel : Nat := 4096

def ctxOf (s : String) : Option (Ctx Pt) :=
  match parseNat s with
  | some i => (std[i]?).map stdCtx
  | none => none

/-- "N" = NULL pointer -/
def optHex (s : String) : Option (Option Bytes) :=
  if s = "N" then some none else (parseHex s).map some

def hdrOk : Option Bytes → Bool
  | some h => h.length == 16
  | none => true

def outE (e : Err) (b : Bytes) : String :=
  if e = .ok then s!"{e.code} {toHex b}" else s!"{e.code} -"

/-- octets requested from the generator: 65 full draws when it failed, otherwise up to the accepted draw -/
def consumed (C : Ctx Pt) (tape : Bytes) : Nat :=
  let rec go : Nat → Bytes → Nat → Nat
    | 0, _, n => n
    | i + 1, t, n =>
      let r := tapeRead C.no t
      let v := leNat r.1
      if v = 0 ∨ v ≥ C.q then go i r.2 (n + C.no) else n + C.no
  go 65 tape 0

def handle0 : List String → String
  | ["params", ci] =>
    match ctxOf ci, (parseNat ci).bind (std[·]?) with
    | some C, some s =>
      s!"{s.l} {toHex (natLE C.no s.p)} {toHex (natLE C.no s.a)} {toHex (natLE C.no s.b)} {toHex (natLE C.no s.q)} {toHex (natLE C.no s.yG)}"
    | _, _ => "bad-op"
  | ["oper", l, p, a, b, q, yG] =>
    match parseNat l, parseHex p, parseHex a, parseHex b, parseHex q, parseHex yG with
    | some l, some p, some a, some b, some q, some yG =>
      if p.length = 64 ∧ a.length = 64 ∧ b.length = 64 ∧ q.length = 64 ∧ yG.length = 64 then
        (if isOperable l p a b q yG then "1" else "0") else "bad-op"
    | _, _, _, _, _, _ => "bad-op"
  | ["kgen", ci, tape] =>
    match ctxOf ci, parseHex tape with
    | some C, some tape =>
      let r := keypairGen C tape
      s!"{outE r.1 r.2.1} {consumed C tape}"
    | _, _ => "bad-op"
  | ["kval", ci, priv, pub] =>
    match ctxOf ci, parseHex priv, parseHex pub with
    | some C, some priv, some pub =>
      if priv.length = C.no ∧ pub.length = 2 * C.no then s!"{(keypairVal C priv pub).code}" else "bad-op"
    | _, _, _ => "bad-op"
  | ["pval", ci, pub] =>
    match ctxOf ci, parseHex pub with
    | some C, some pub => if pub.length = 2 * C.no then s!"{(pubkeyVal C pub).code}" else "bad-op"
    | _, _ => "bad-op"
  | ["pcalc", ci, priv] =>
    match ctxOf ci, parseHex priv with
    | some C, some priv => if priv.length = C.no then (let r := pubkeyCalc C priv; outE r.1 r.2) else "bad-op"
    | _, _ => "bad-op"
  | ["dh", ci, priv, pub, n] =>
    match ctxOf ci, parseHex priv, parseHex pub, parseNat n with
    | some C, some priv, some pub, some n =>
      if priv.length = C.no ∧ pub.length = 2 * C.no then (let r := dh C priv pub n; outE r.1 r.2) else "bad-op"
    | _, _, _, _ => "bad-op"
  | ["sign", ci, oid, h, priv, tape] =>
    match ctxOf ci, parseHex oid, parseHex h, parseHex priv, parseHex tape with
    | some C, some oid, some h, some priv, some tape =>
      if h.length = C.no ∧ priv.length = C.no then
        let r := sign C oid h priv tape
        s!"{outE r.1 r.2.1} {if r.1 = .badOid ∨ r.1 = .badPrivkey then 0 else consumed C tape}"
      else "bad-op"
    | _, _, _, _, _ => "bad-op"
  | ["sign2", ci, oid, h, priv, t] =>
    match ctxOf ci, parseHex oid, parseHex h, parseHex priv, optHex t with
    | some C, some oid, some h, some priv, some t =>
      if h.length = C.no ∧ priv.length = C.no then
        match sign2 C fuel oid h priv t with
        | some r => outE r.1 r.2
        | none => "loop"
      else "bad-op"
    | _, _, _, _, _ => "bad-op"
  | ["vfy", ci, oid, h, sig, pub] =>
    match ctxOf ci, parseHex oid, parseHex h, parseHex sig, parseHex pub with
    | some C, some oid, some h, some sig, some pub =>
      if h.length = C.no ∧ sig.length = C.no + C.no / 2 ∧ pub.length = 2 * C.no then s!"{(verify C oid h sig pub).code}" else "bad-op"
    | _, _, _, _, _ => "bad-op"
  | ["wrap", ci, key, hdr, pub, tape] =>
    match ctxOf ci, parseHex key, optHex hdr, parseHex pub, parseHex tape with
    | some C, some key, some hdr, some pub, some tape =>
      if pub.length = 2 * C.no ∧ hdrOk hdr then
        let r := keyWrap C key hdr pub tape
        s!"{outE r.1 r.2.1} {if r.1 = .badInput then 0 else consumed C tape}"
      else "bad-op"
    | _, _, _, _, _ => "bad-op"
  | ["unwrap", ci, token, hdr, priv] =>
    match ctxOf ci, parseHex token, optHex hdr, parseHex priv with
    | some C, some token, some hdr, some priv =>
      if priv.length = C.no ∧ hdrOk hdr then
        let r := keyUnwrap C token hdr priv
        outE r.1 r.2
      else "bad-op"
    | _, _, _, _ => "bad-op"
  | ["idext", ci, oid, idh, sig, pub] =>
    match ctxOf ci, parseHex oid, parseHex idh, parseHex sig, parseHex pub with
    | some C, some oid, some idh, some sig, some pub =>
      if idh.length = C.no ∧ sig.length = C.no + C.no / 2 ∧ pub.length = 2 * C.no then
        let r := idExtract C oid idh sig pub
        outE r.1 r.2
      else "bad-op"
    | _, _, _, _, _ => "bad-op"
  | ["idsign", ci, oid, idh, h, idpriv, tape] =>
    match ctxOf ci, parseHex oid, parseHex idh, parseHex h, parseHex idpriv, parseHex tape with
    | some C, some oid, some idh, some h, some idpriv, some tape =>
      if idh.length = C.no ∧ h.length = C.no ∧ idpriv.length = C.no then
        let r := idSign C oid idh h idpriv tape
        s!"{outE r.1 r.2.1} {if r.1 = .badOid ∨ r.1 = .badPrivkey then 0 else consumed C tape}"
      else "bad-op"
    | _, _, _, _, _, _ => "bad-op"
  | ["idsign2", ci, oid, idh, h, idpriv, t] =>
    match ctxOf ci, parseHex oid, parseHex idh, parseHex h, parseHex idpriv, optHex t with
    | some C, some oid, some idh, some h, some idpriv, some t =>
      if idh.length = C.no ∧ h.length = C.no ∧ idpriv.length = C.no then
        match idSign2 C fuel oid idh h idpriv t with
        | some r => outE r.1 r.2
        | none => "loop"
      else "bad-op"
    | _, _, _, _, _, _ => "bad-op"
  | ["idvfy", ci, oid, idh, h, idsig, idpub, pub] =>
    match ctxOf ci, parseHex oid, parseHex idh, parseHex h, parseHex idsig, parseHex idpub, parseHex pub with
    | some C, some oid, some idh, some h, some idsig, some idpub, some pub =>
      if idh.length = C.no ∧ h.length = C.no ∧ idsig.length = C.no + C.no / 2 ∧ idpub.length = 2 * C.no ∧ pub.length = 2 * C.no then
        s!"{(idVerify C oid idh h idsig idpub pub).code}"
      else "bad-op"
    | _, _, _, _, _, _, _ => "bad-op"
  | _ => "bad-op"

/-- adds the in-place placements of key transport: the functions are specified on VALUES, so
`wrapip` (key and header inside the token buffer, modes 0..4) = `wrap`, `unwrapip` (key == token + no) = `unwrap` -/
def handle : List String → String
  | ["wrapip", ci, key, hdr, pub, tape, mode] =>
    match parseNat mode with
    | some m => if m ≤ 4 then handle0 ["wrap", ci, key, hdr, pub, tape] else "bad-op"
    | none => "bad-op"
  | ["unwrapip", ci, token, hdr, priv] =>
    match parseHex token, ctxOf ci with
    | some t, some C => if t.length < C.no then "bad-op" else handle0 ["unwrap", ci, token, hdr, priv]
    | _, _ => "bad-op"
  | args => handle0 args

end Bee2V.C02.Drv

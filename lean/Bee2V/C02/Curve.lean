/-
C02 — the executable instance of the group operations: affine points of y² = x³ + ax + b over
F_p (`Nat` modulo p) with the textbook chord-and-tangent law and double-and-add.  Written
independently of the library's Jacobian formulas (ecp.c) on purpose: the correspondence run compares
the two.  No Mathlib.
-/
namespace Bee2V.C02

/-- affine point or the point at infinity -/
inductive Pt
  | O
  | A (x y : Nat)
  deriving DecidableEq, Repr, Inhabited

/-- extended Euclid on (r0, r1) with the Bezout coefficients of the second kind (t0, t1) -/
def xgcd (r0 r1 : Nat) (t0 t1 : Int) : Int :=
  if _h : r1 = 0 then t0 else xgcd r1 (r0 % r1) t1 (t0 - (r0 / r1 : Nat) * t1)
termination_by r1
decreasing_by exact Nat.mod_lt _ (by omega)

/-- a⁻¹ mod p for p prime, 0 < a < p -/
def invMod (a p : Nat) : Nat := ((xgcd p (a % p) 0 1) % (p : Int)).toNat

/-- (a - b) mod p for a, b < p -/
def fsub (p a b : Nat) : Nat := (a + p - b) % p

structure Curve where
  p : Nat
  a : Nat
  b : Nat

/-- x, y < p and y² = x³ + ax + b (mod p) -/
def Curve.isOn (E : Curve) (x y : Nat) : Bool :=
  x < E.p && y < E.p && (y * y) % E.p == (((x * x) % E.p * x) % E.p + (E.a * x) % E.p + E.b) % E.p

/-- chord-and-tangent addition -/
def Curve.add (E : Curve) : Pt → Pt → Pt
  | .O, Q => Q
  | P, .O => P
  | .A x1 y1, .A x2 y2 =>
    let p := E.p
    if x1 = x2 then
      if (y1 + y2) % p = 0 then .O
      else
        -- tangent: λ = (3x² + a) / 2y
        let lam := ((3 * x1 * x1 + E.a) % p * invMod (2 * y1 % p) p) % p
        let x3 := fsub p (fsub p (lam * lam % p) x1) x2
        .A x3 (fsub p (lam * fsub p x1 x3 % p) y1)
    else
      -- chord: λ = (y2 - y1) / (x2 - x1)
      let lam := (fsub p y2 y1 * invMod (fsub p x2 x1) p) % p
      let x3 := fsub p (fsub p (lam * lam % p) x1) x2
      .A x3 (fsub p (lam * fsub p x1 x3 % p) y1)

def Curve.neg (E : Curve) : Pt → Pt
  | .O => .O
  | .A x y => .A x ((E.p - y) % E.p)

/-- k·P by binary double-and-add (recursion on k/2) -/
def Curve.smul (E : Curve) (k : Nat) (P : Pt) : Pt :=
  if _h : k = 0 then .O
  else
    let h := E.smul (k / 2) P
    let d := E.add h h
    if k % 2 = 1 then E.add d P else d
termination_by k
decreasing_by omega

/-- a^e mod p (square-and-multiply) -/
def powMod (p a e : Nat) : Nat :=
  if _h : e = 0 then 1 % p
  else
    let h := powMod p a (e / 2)
    let s := h * h % p
    if e % 2 = 1 then s * a % p else s
termination_by e
decreasing_by omega

/-- the decompression of bignKeyUnwrap for p ≡ 3 (mod 4): t = x³+ax+b, y = t^((p+1)/4), accept iff y² = t -/
def Curve.liftX (E : Curve) (x : Nat) : Option Pt :=
  let p := E.p
  let t := (((x * x) % p + E.a) % p * x % p + E.b) % p
  let y := powMod p t ((p + 1) / 4)
  if y * y % p = t then some (.A x y) else none

def Pt.xy : Pt → Option (Nat × Nat)
  | .O => none
  | .A x y => some (x, y)

end Bee2V.C02

/-
C02 — property theorems for the identity-based signatures of bign_ibs.c
(STB 34.101.45, appendix B.2): bignIdExtract, bignIdSign, bignIdSign2, bignIdVerify.
Every theorem of this file is an obligation; the helper lemmas are in LemmasIbs.lean.
-/
import Bee2V.C02.LemmasIbs
namespace Bee2V.C02
variable {G : Type} [AddCommGroup G] {C : Ctx G}

/-- the acceptance set of bignIdVerify: `s1 < q`, the point
`V = ((s1 + H) mod q) G + (s0 + 2^l) R + (-(t + 2^l)(s0 + 2^l) mod q) Q` is not O and
`<belt-hash(oid ‖ <V>_{2l} ‖ H0 ‖ H)>_l = s0`, where `t = <belt-hash(oid ‖ <R>_{2l} ‖ H0)>_l` -/
theorem idverify_exact (L : Laws C) (oid idH Hb idSig idPub pub : Bytes) (hH : Hb.length = C.no) :
    idVerify C oid idH Hb idSig idPub pub = .ok ↔
      C.oidOk oid = true ∧ ∃ R Q, loadPub C idPub = some R ∧ loadPub C pub = some Q ∧
        leNat (idSig.drop (C.no / 2)) < C.q ∧
        ∃ x y, C.xy (((leNat (idSig.drop (C.no / 2)) + leNat Hb) % C.q) • C.base
              + (leNat (idSig.take (C.no / 2)) + 2 ^ C.l) • R
              + ((C.q - ((leNat (hashL C (oid ++ idPub.take C.no ++ idH)) + 2 ^ C.l)
                    * (leNat (idSig.take (C.no / 2)) + 2 ^ C.l)) % C.q) % C.q) • Q) = some (x, y) ∧
          hashL C (oid ++ natLE C.no x ++ idH ++ Hb) = idSig.take (C.no / 2) := by
  cases ho : C.oidOk oid with
  | false =>
    have h : idVerify C oid idH Hb idSig idPub pub = .badOid := by
      unfold idVerify
      simp only [ho, Bool.not_false, ↓reduceIte]
    rw [h]
    constructor
    · intro h'; cases h'
    · rintro ⟨h', _⟩; cases h'
  | true =>
    cases hR : loadPub C idPub with
    | none =>
      have h : idVerify C oid idH Hb idSig idPub pub = .badPubkey := by
        unfold idVerify
        simp only [ho, hR, Bool.not_true, Bool.false_eq_true, ↓reduceIte]
      rw [h]
      constructor
      · intro h'; cases h'
      · rintro ⟨_, R, Q, h', _⟩; cases h'
    | some R =>
      cases hQ : loadPub C pub with
      | none =>
        have h : idVerify C oid idH Hb idSig idPub pub = .badPubkey := by
          unfold idVerify
          simp only [ho, hR, hQ, Bool.not_true, Bool.false_eq_true, ↓reduceIte]
        rw [h]
        constructor
        · intro h'; cases h'
        · rintro ⟨_, R, Q, _, h', _⟩; cases h'
      | some Q =>
        rw [ibs_idVerify_eq L idH idSig ho hH hR hQ]
        constructor
        · intro h
          refine ⟨rfl, R, Q, rfl, rfl, ?_⟩
          by_cases hs : leNat (idSig.drop (C.no / 2)) ≥ C.q
          · rw [if_pos hs] at h; cases h
          · rw [if_neg hs] at h
            refine ⟨by omega, ?_⟩
            split at h
            · cases h
            · rename_i V hV
              split at h
              · rename_i hh
                exact ⟨V.1, V.2, hV, hh⟩
              · cases h
        · rintro ⟨_, R', Q', hR', hQ', hs, x, y, hx, hh⟩
          cases hR'
          cases hQ'
          have hs' : ¬ leNat (idSig.drop (C.no / 2)) ≥ C.q := by omega
          rw [if_neg hs', hx]
          dsimp only
          rw [if_pos hh]

omit [AddCommGroup G] in
/-- the error codes of bignIdVerify and their order: oid, then id_pubkey, then pubkey; after
that only ERR_OK / ERR_BAD_SIG -/
theorem idverify_codes (oid idH Hb idSig idPub pub : Bytes) :
    (C.oidOk oid = false → idVerify C oid idH Hb idSig idPub pub = .badOid) ∧
    (C.oidOk oid = true → loadPub C idPub = none →
      idVerify C oid idH Hb idSig idPub pub = .badPubkey) ∧
    (C.oidOk oid = true → loadPub C idPub ≠ none → loadPub C pub = none →
      idVerify C oid idH Hb idSig idPub pub = .badPubkey) ∧
    (C.oidOk oid = true → loadPub C idPub ≠ none → loadPub C pub ≠ none →
      idVerify C oid idH Hb idSig idPub pub = .ok ∨
      idVerify C oid idH Hb idSig idPub pub = .badSig) := by
  refine ⟨?_, ?_, ?_, ?_⟩
  · intro ho
    unfold idVerify
    simp only [ho, Bool.not_false, ↓reduceIte]
  · intro ho hR
    unfold idVerify
    simp only [ho, hR, Bool.not_true, Bool.false_eq_true, ↓reduceIte]
  · intro ho hR hQ
    cases hR' : loadPub C idPub with
    | none => exact absurd hR' hR
    | some R =>
      unfold idVerify
      simp only [ho, hR', hQ, Bool.not_true, Bool.false_eq_true, ↓reduceIte]
  · intro ho hR hQ
    cases hR' : loadPub C idPub with
    | none => exact absurd hR' hR
    | some R =>
      cases hQ' : loadPub C pub with
      | none => exact absurd hQ' hQ
      | some Q =>
        unfold idVerify
        simp only [ho, hR', hQ', Bool.not_true, Bool.false_eq_true, ↓reduceIte]
        split
        · exact Or.inr rfl
        · split
          · exact Or.inr rfl
          · split
            · exact Or.inl rfl
            · exact Or.inr rfl

/-- completeness of sign -> verify for an extracted key pair: if `R = e G + (t + 2^l) Q` with
`t = <belt-hash(oid ‖ <R>_{2l} ‖ H0)>_l` (what bignIdExtract returns as id_privkey = e and
id_pubkey = <R>_{4l}), then a signature made by bignIdSign with any nonce `0 < k < q` is accepted
by bignIdVerify under id_pubkey = <R>_{4l} and any encoding `pub` of the trusted party's key Q -/
theorem idsign_idverify_pub (L : Laws C) (oid idH Hb pub : Bytes) (e k xR yR : Nat) (R Q : G)
    (hoid : C.oidOk oid = true) (hH : Hb.length = C.no)
    (hk0 : 0 < k) (hk : k < C.q)
    (hR : C.xy R = some (xR, yR)) (hQ : loadPub C pub = some Q)
    (hrel : e • C.base + (leNat (hashL C (oid ++ natLE C.no xR ++ idH)) + 2 ^ C.l) • Q = R) :
    ∃ isig, idSignWith C oid idH Hb e k = (.ok, isig) ∧ isig.length = C.no + C.no / 2 ∧
      idVerify C oid idH Hb isig (encXY C (xR, yR)) pub = .ok := by
  subst hrel
  obtain ⟨xV, yV, hV⟩ := L.xy_some (L.base_mul_ne hk0 hk)
  have hl := L.hashL_len (oid ++ natLE C.no xV ++ idH ++ Hb)
  have hs1 := ibs_s1_lt L (leNat (hashL C (oid ++ natLE C.no xV ++ idH ++ Hb))) e k (leNat Hb)
  have hd := ibs_drop L hl hs1
  have ht : (encXY C (xR, yR)).take C.no = natLE C.no xR := take_natLE_append C.no xR (natLE C.no yR)
  refine ⟨_, ibs_idSignWith_eq L oid idH e hH hk hV, ?_, ?_⟩
  · rw [List.length_append, hl, natLE_length]
    omega
  · refine (idverify_exact L oid idH Hb _ _ _ hH).2
      ⟨hoid, _, Q, L.loadPub_encXY hR, hQ, ?_, xV, yV, ?_, ?_⟩
    · rw [hd]; exact hs1
    · rw [hd, List.take_left' hl, ht, ibs_point L]
      exact hV
    · rw [List.take_left' hl]

/-- the same with the trusted party's public key in its standard encoding `<Q>_{4l}` -/
theorem idsign_idverify (L : Laws C) (oid idH Hb : Bytes) (e k xR yR xQ yQ : Nat) (R Q : G)
    (hoid : C.oidOk oid = true) (hH : Hb.length = C.no)
    (hk0 : 0 < k) (hk : k < C.q)
    (hR : C.xy R = some (xR, yR)) (hQ : C.xy Q = some (xQ, yQ))
    (hrel : e • C.base + (leNat (hashL C (oid ++ natLE C.no xR ++ idH)) + 2 ^ C.l) • Q = R) :
    ∃ isig, idSignWith C oid idH Hb e k = (.ok, isig) ∧ isig.length = C.no + C.no / 2 ∧
      idVerify C oid idH Hb isig (encXY C (xR, yR)) (encXY C (xQ, yQ)) = .ok :=
  idsign_idverify_pub L oid idH Hb _ e k xR yR R Q hoid hH hk0 hk hR (L.loadPub_encXY hQ) hrel

/-- bignIdExtract succeeds exactly on the signatures of the identity hash that alg. 7.1.4 accepts
under Q, and returns `e = (s1 + H0) mod q` and both coordinates of
`R = e G + (s0 + 2^l) Q` -/
theorem idextract_exact (L : Laws C) (oid idH sig pub out : Bytes) (hH : idH.length = C.no) :
    idExtract C oid idH sig pub = (.ok, out) ↔
      C.oidOk oid = true ∧ ∃ Q, loadPub C pub = some Q ∧
        leNat (sig.drop (C.no / 2)) < C.q ∧
        ∃ x y, C.xy (((leNat (sig.drop (C.no / 2)) + leNat idH) % C.q) • C.base
                  + (leNat (sig.take (C.no / 2)) + 2 ^ C.l) • Q) = some (x, y) ∧
          hashL C (oid ++ natLE C.no x ++ idH) = sig.take (C.no / 2) ∧
          out = natLE C.no ((leNat (sig.drop (C.no / 2)) + leNat idH) % C.q) ++ encXY C (x, y) := by
  unfold idExtract
  cases ho : C.oidOk oid with
  | false =>
    simp only [Bool.not_false, ↓reduceIte]
    constructor
    · intro h'; cases h'
    · rintro ⟨h', _⟩; cases h'
  | true =>
    simp only [Bool.not_true, Bool.false_eq_true, ↓reduceIte]
    cases hQ : loadPub C pub with
    | none =>
      dsimp only
      constructor
      · intro h'; cases h'
      · rintro ⟨_, Q, h', _⟩; cases h'
    | some Q =>
      dsimp only
      rcases ibs_verifyCore_cases L oid sig Q hH with ⟨x, y, hs, hx, hh, hv⟩ | ⟨hv, hn⟩
      · rw [hv]
        dsimp only
        simp only [↓reduceIte]
        constructor
        · intro h
          exact ⟨by trivial, Q, rfl, hs, x, y, hx, hh, (Prod.mk.inj h).2.symm⟩
        · rintro ⟨_, Q', hQ', _, x', y', hx', _, rfl⟩
          cases hQ'
          rw [hx] at hx'
          cases hx'
          rfl
      · rw [hv]
        dsimp only
        simp only [reduceCtorEq, ↓reduceIte]
        constructor
        · intro h; cases h
        · rintro ⟨_, Q', hQ', hs, x, y, hx, hh, _⟩
          cases hQ'
          exact absurd ⟨hs, x, y, hx, hh⟩ hn

/-- the whole chain on the code's own outputs: whatever bignIdExtract returns (id_privkey ‖
id_pubkey) for a signature of the identity hash under `pub`, a signature made with id_privkey
and any nonce `0 < k < q` is accepted by bignIdVerify under id_pubkey and `pub` -/
theorem idextract_idsign_idverify (L : Laws C) (oid idH Hb sig pub out : Bytes) (k : Nat)
    (hH0 : idH.length = C.no) (hH : Hb.length = C.no) (hk0 : 0 < k) (hk : k < C.q)
    (hex : idExtract C oid idH sig pub = (.ok, out)) :
    leNat (out.take C.no) < C.q ∧ out.length = 3 * C.no ∧
    ∃ isig, idSignWith C oid idH Hb (leNat (out.take C.no)) k = (.ok, isig) ∧
      isig.length = C.no + C.no / 2 ∧
      idVerify C oid idH Hb isig (out.drop C.no) pub = .ok := by
  obtain ⟨hoid, Q, hQ, _, x, y, hx, hh, rfl⟩ := (idextract_exact L oid idH sig pub out hH0).1 hex
  have hq : (leNat (sig.drop (C.no / 2)) + leNat idH) % C.q < C.q := Nat.mod_lt _ L.q_pos
  have he : leNat (natLE C.no ((leNat (sig.drop (C.no / 2)) + leNat idH) % C.q))
      = (leNat (sig.drop (C.no / 2)) + leNat idH) % C.q := by
    apply leNat_natLE_of_lt
    rw [L.pow256]
    exact Nat.lt_trans hq L.q_hi
  rw [take_natLE_append, drop_natLE_append, he]
  refine ⟨hq, ?_, ?_⟩
  · rw [List.length_append, natLE_length, encXY_length]
    omega
  · refine idsign_idverify_pub L oid idH Hb pub _ k x y _ Q hoid hH hk0 hk hx hQ ?_
    rw [hh]

/-- bignIdSign for a private key `e < q`: ERR_BAD_RNG iff the generator gives no nonce within the
attempts of zzRandNZMod; otherwise the nonce is in [1, q-1] and the result is ERR_OK with the
signature of `idSignWith` for this nonce -/
theorem idsign_complete (L : Laws C) (oid idH Hb idPriv tape : Bytes)
    (hoid : C.oidOk oid = true) (he : leNat idPriv < C.q) (hH : Hb.length = C.no) :
    (∀ rest, randNZMod C tape = (none, rest) →
      idSign C oid idH Hb idPriv tape = (.badRng, [], rest)) ∧
    (∀ k rest, randNZMod C tape = (some k, rest) → 0 < k ∧ k < C.q ∧
      ∃ isig, idSignWith C oid idH Hb (leNat idPriv) k = (.ok, isig) ∧
        idSign C oid idH Hb idPriv tape = (.ok, isig, rest)) := by
  have he' : ¬ leNat idPriv ≥ C.q := by omega
  constructor
  · intro rest h
    unfold idSign
    simp only [hoid, Bool.not_true, Bool.false_eq_true, ↓reduceIte, he', h]
  · intro k rest h
    obtain ⟨hk0, hk⟩ := ibs_randLoop_range _ _ _ _ _ _ h
    obtain ⟨xV, yV, hV⟩ := L.xy_some (L.base_mul_ne hk0 hk)
    refine ⟨hk0, hk, _, ibs_idSignWith_eq L oid idH _ hH hk hV, ?_⟩
    unfold idSign
    simp only [hoid, Bool.not_true, Bool.false_eq_true, ↓reduceIte, he', h,
      ibs_idSignWith_eq L oid idH _ hH hk hV]

/-- bignIdSign2 for a private key `e < q`: if the deterministic nonce loop ends within `fuel`
rounds, its nonce is in [1, q-1] and the result is ERR_OK with the signature of `idSignWith` -/
theorem idsign2_complete (L : Laws C) (fuel : Nat) (oid idH Hb idPriv : Bytes) (t : Option Bytes)
    (hoid : C.oidOk oid = true) (he : leNat idPriv < C.q) (hH : Hb.length = C.no) :
    (nonceLoop C (C.hash (oid ++ idPriv ++ t.getD [])) fuel Hb = none →
      idSign2 C fuel oid idH Hb idPriv t = none) ∧
    (∀ k, nonceLoop C (C.hash (oid ++ idPriv ++ t.getD [])) fuel Hb = some k → 0 < k ∧ k < C.q ∧
      ∃ isig, idSignWith C oid idH Hb (leNat idPriv) k = (.ok, isig) ∧
        idSign2 C fuel oid idH Hb idPriv t = some (.ok, isig)) := by
  have he' : ¬ leNat idPriv ≥ C.q := by omega
  have h2 : idSign2 C fuel oid idH Hb idPriv t =
      match nonceLoop C (C.hash (oid ++ idPriv ++ t.getD [])) fuel Hb with
      | none => none
      | some k => some (idSignWith C oid idH Hb (leNat idPriv) k) := by
    unfold idSign2
    simp only [hoid, Bool.not_true, Bool.false_eq_true, ↓reduceIte, he']
    cases t <;> rfl
  rw [h2]
  constructor
  · intro h
    simp only [h]
  · intro k h
    obtain ⟨hk0, hk⟩ := ibs_nonceLoop_range _ _ _ _ _ h
    obtain ⟨xV, yV, hV⟩ := L.xy_some (L.base_mul_ne hk0 hk)
    refine ⟨hk0, hk, _, ibs_idSignWith_eq L oid idH _ hH hk hV, ?_⟩
    simp only [h, ibs_idSignWith_eq L oid idH _ hH hk hV]

end Bee2V.C02

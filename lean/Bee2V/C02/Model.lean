/-
C02 — executable, code-shaped model of src/crypto/bign/{bign_sign,bign_misc,bign_keyt,bign_ibs}.c
over an abstract context `Ctx G` (the operations of `ec_o` + belt that the bign layer calls).
No Mathlib: this file is linked into the native driver `drv_c02`.

Conventions
* octet strings = `List UInt8`; numbers are little-endian.  The model keeps field elements as VALUES in
  `Nat`: `qrFrom`/`qrTo` convert between octets and the internal representation of the field (plain for
  the Crandall moduli 2^k - c of the standard curves, Montgomery otherwise), so every place where the
  code reads or writes coordinates with `qrFrom`/`qrTo` is `leNat`/`natLE` of the value here — including
  the comparison in bignKeypairVal (after df47511 it exports Q with `qrTo`; before, `wwTo` exported the
  internal representation, which differs from the value for non-Crandall moduli);
* every function takes the C buffers with their exact lengths (`no = l/4` octets etc.): lengths are
  preconditions of the C API and are enforced by the harness/driver, not by the model;
* error codes AND their order follow the C text line by line; the C checks that cannot fail through
  the harness (`memIsValid`, `blobCreate`, `rng == 0`) are omitted and listed in docs/C02.md;
* the public-key check `ecpIsOnA` in bignVerify / bignIdExtract / bignIdVerify is the REPAIRED
  behaviour (docs/C02.fix-1.diff).
-/
namespace Bee2V.C02

abbrev Bytes := List UInt8

/-! ### octets <-> numbers -/

/-- little-endian octets -> Nat (`wwFrom`) -/
def leNat : Bytes → Nat
  | [] => 0
  | b :: bs => b.toNat + 256 * leNat bs

/-- Nat -> n little-endian octets, truncating (`wwTo`) -/
def natLE : Nat → Nat → Bytes
  | 0, _ => []
  | n + 1, v => UInt8.ofNat (v % 256) :: natLE n (v / 256)

def zeros (n : Nat) : Bytes := List.replicate n 0

/-! ### err_t -/

inductive Err
  | ok | badInput | badOid | badRng | badParams | badPrivkey | badPubkey | badSharedkey | badSig | badKeytoken
  deriving DecidableEq, Repr, Inhabited

/-- the numeric values of include/bee2/core/err.h -/
def Err.code : Err → Nat
  | .ok => 0 | .badInput => 109 | .badOid => 301 | .badRng => 304 | .badParams => 502
  | .badPrivkey => 504 | .badPubkey => 505 | .badSharedkey => 507 | .badSig => 510 | .badKeytoken => 513

/-! ### the context: what bign calls -/

structure Ctx (G : Type) where
  /-- security level l (bits); all buffers have `no = l/4` octets -/
  l : Nat
  /-- field modulus `ec->f->mod` -/
  p : Nat
  /-- group order `ec->order` (= params->q) -/
  q : Nat
  /-- the point at infinity -/
  zero : G
  add : G → G → G
  neg : G → G
  /-- `ecMulA` / one summand of `ecAddMulA` (before the conversion to affine coordinates) -/
  smul : Nat → G → G
  /-- `ec->base` -/
  base : G
  /-- `ecToA`: affine coordinates, `none` for O (the C functions then return FALSE) -/
  xy : G → Option (Nat × Nat)
  /-- `ecpIsOnA` on coordinates already known to be `< p`: the point, if (x, y) is on the curve -/
  ofXY : Nat → Nat → Option G
  /-- the decompression of bignKeyUnwrap: `y = (x³+ax+b)^((p+1)/4)`, accepted iff `y² = x³+ax+b` -/
  liftX : Nat → Option G
  /-- `oidFromDER(0, oid_der, oid_len) != SIZE_MAX` -/
  oidOk : Bytes → Bool
  /-- belt-hash (32 octets) of the concatenation of everything fed to beltHashStepH -/
  hash : Bytes → Bytes
  /-- `beltWBLStart(theta, 32); beltWBLStepE(buf)` -/
  wbl : Bytes → Bytes → Bytes
  /-- `beltKWPStart(theta, 32); beltKWPStepE(buf)` -/
  kwpE : Bytes → Bytes → Bytes
  /-- `beltKWPStart(theta, 32); beltKWPStepD2(buf1, buf2)` -/
  kwpD : Bytes → Bytes → Bytes → Bytes × Bytes

variable {G : Type}

/-- `ec->f->no` -/
def Ctx.no (C : Ctx G) : Nat := C.l / 4
/-- `B^n`: the range of an n-word number (n·B_PER_W = 2l bits) -/
def Ctx.W (C : Ctx G) : Nat := 2 ^ (8 * C.no)

/-! ### zz: the modular steps with their real behaviour on n-word operands -/

/-- `zzAddMod(c, a, b, mod, n)` -/
def addMod (W a b m : Nat) : Nat :=
  let c := (a + b) % W
  if a + b ≥ W ∨ c ≥ m then (c + W - m) % W else c

/-- `zzSubMod(c, a, b, mod, n)`: `a - b` with the borrow repaired by `+ mod` (all modulo B^n) -/
def subMod (W a b m : Nat) : Nat :=
  if a < b then (a + W - b + m) % W else a - b

/-- `zzNegMod(b, a, mod, n)` for `a < mod` -/
def negMod (a m : Nat) : Nat := if m - a = m then 0 else m - a

/-- `wwFrom(k, hash, no); if (wwCmp(k, q) >= 0) zzSub2(k, q)`: the hash value reduced once -/
def redOnce (h q : Nat) : Nat := if h ≥ q then h - q else h

/-! ### the caller's generator as a tape; zzRandNZMod -/

/-- one call `rng(buf, n, state)`: the next n octets of the tape (zero octets once it is exhausted) -/
def tapeRead (n : Nat) (tape : Bytes) : Bytes × Bytes :=
  (tape.take n ++ zeros (n - tape.length), tape.drop n)

/-- the do-while loop of `zzRandNZMod`; `i` = attempts left -/
def randLoop (no q : Nat) : Nat → Bytes → Option Nat × Bytes
  | 0, tape => (none, tape)
  | i + 1, tape =>
    let r := tapeRead no tape
    let v := leNat r.1
    if v = 0 ∨ v ≥ q then randLoop no q i r.2 else (some v, r.2)

/-- `zzRandNZMod(k, ec->order, n, rng, rng_state)`: 1 + B_PER_IMPOSSIBLE attempts; `none` = FALSE.
(`wwTrimHi(a, n, bitlen q)` is the identity: q has exactly 8·no bits) -/
def randNZMod (C : Ctx G) (tape : Bytes) : Option Nat × Bytes := randLoop C.no C.q 65 tape

/-! ### helpers -/

/-- `wwFrom(d, privkey, no); if (wwIsZero(d) || wwCmp(d, order) >= 0) return ERR_BAD_PRIVKEY` -/
def privOk (C : Ctx G) (d : Nat) : Bool := decide (d ≠ 0 ∧ d < C.q)

/-- `qrFrom(x) && qrFrom(y) && ecpIsOnA` -/
def loadPub (C : Ctx G) (pub : Bytes) : Option G :=
  let x := leNat (pub.take C.no)
  let y := leNat (pub.drop C.no)
  if x ≥ C.p ∨ y ≥ C.p then none else C.ofXY x y

/-- `qrTo(pubkey, x); qrTo(pubkey + no, y)` -/
def encXY (C : Ctx G) (xy : Nat × Nat) : Bytes := natLE C.no xy.1 ++ natLE C.no xy.2

/-- `<belt-hash(m)>_l` as octets (`beltHashStepG2(.., no/2, ..)`) -/
def hashL (C : Ctx G) (m : Bytes) : Bytes := (C.hash m).take (C.no / 2)

/-- the tail of bignSign/bignSign2/bignIdSign/bignIdSign2 after `s0` is known:
`s1 <- (k - (s0 + 2^l) d - H) mod q` exactly as computed (zzMul, zzAdd, zzMod, zzSubMod twice) -/
def signS1 (C : Ctx G) (s0 d k : Nat) (Hb : Bytes) : Nat :=
  let t := (s0 * d + 2 ^ C.l * d) % C.q
  let s1 := subMod C.W k t C.q
  subMod C.W s1 (redOnce (leNat Hb) C.q) C.q

/-- the deterministic nonce of alg. 6.3.3: `k <- H; do k <- beltWBL(k, theta) while k ∉ {1..q-1}`.
The C loop is `while (1)`; `fuel` bounds the number of rounds of the model (`none` = not finished). -/
def nonceLoop (C : Ctx G) (theta : Bytes) : Nat → Bytes → Option Nat
  | 0, _ => none
  | fuel + 1, k =>
    let k := C.wbl theta k
    let v := leNat k
    if v ≠ 0 ∧ v < C.q then some v else nonceLoop C theta fuel k

/-! ### bign_misc.c -/

/-- bignKeypairGen: (code, privkey ‖ pubkey, rest of the tape) -/
def keypairGen (C : Ctx G) (tape : Bytes) : Err × Bytes × Bytes :=
  match randNZMod C tape with
  | (none, rest) => (.badRng, [], rest)
  | (some d, rest) =>
    match C.xy (C.smul d C.base) with
    | some Q => (.ok, natLE C.no d ++ encXY C Q, rest)
    | none => (.badParams, [], rest)

/-- bignKeypairVal -/
def keypairVal (C : Ctx G) (priv pub : Bytes) : Err :=
  let d := leNat priv
  if d = 0 ∨ d ≥ C.q then .badPrivkey else
  match C.xy (C.smul d C.base) with
  | some Q => if encXY C Q = pub then .ok else .badPubkey
  | none => .badParams

/-- bignPubkeyVal -/
def pubkeyVal (C : Ctx G) (pub : Bytes) : Err :=
  match loadPub C pub with
  | some _ => .ok
  | none => .badPubkey

/-- bignPubkeyCalc -/
def pubkeyCalc (C : Ctx G) (priv : Bytes) : Err × Bytes :=
  let d := leNat priv
  if !privOk C d then (.badPrivkey, []) else
  match C.xy (C.smul d C.base) with
  | some Q => (.ok, encXY C Q)
  | none => (.badParams, [])

/-- bignDH -/
def dh (C : Ctx G) (priv pub : Bytes) (keyLen : Nat) : Err × Bytes :=
  if keyLen > 2 * C.no then (.badSharedkey, []) else
  let d := leNat priv
  if !privOk C d then (.badPrivkey, []) else
  match loadPub C pub with
  | none => (.badPubkey, [])
  | some Q =>
    match C.xy (C.smul d Q) with
    | some K => (.ok, (encXY C K).take keyLen)
    | none => (.badParams, [])

/-! ### bign_sign.c -/

/-- the common part of bignSign and bignSign2 once the nonce k is fixed -/
def signWith (C : Ctx G) (oid Hb : Bytes) (d k : Nat) : Err × Bytes :=
  match C.xy (C.smul k C.base) with
  | none => (.badParams, [])
  | some R =>
    let s0 := hashL C (oid ++ natLE C.no R.1 ++ Hb)
    (.ok, s0 ++ natLE C.no (signS1 C (leNat s0) d k Hb))

/-- bignSign: (code, sig, rest of the tape) -/
def sign (C : Ctx G) (oid Hb priv tape : Bytes) : Err × Bytes × Bytes :=
  if !C.oidOk oid then (.badOid, [], tape) else
  let d := leNat priv
  if !privOk C d then (.badPrivkey, [], tape) else
  match randNZMod C tape with
  | (none, rest) => (.badRng, [], rest)
  | (some k, rest) => let r := signWith C oid Hb d k; (r.1, r.2, rest)

/-- bignSign2 (`t = none` is the NULL pointer); `none` = the nonce loop did not finish within `fuel` -/
def sign2 (C : Ctx G) (fuel : Nat) (oid Hb priv : Bytes) (t : Option Bytes) : Option (Err × Bytes) :=
  if !C.oidOk oid then some (.badOid, []) else
  let d := leNat priv
  if !privOk C d then some (.badPrivkey, []) else
  let theta := C.hash (oid ++ priv ++ (match t with | some t => t | none => []))
  match nonceLoop C theta fuel Hb with
  | none => none
  | some k => some (signWith C oid Hb d k)

/-- the part shared by bignVerify and bignIdExtract: the recomputed point R and the reduced s1 -/
def verifyCore (C : Ctx G) (oid Hb sig : Bytes) (Q : G) : Err × Nat × (Nat × Nat) :=
  let s1 := leNat (sig.drop (C.no / 2))
  if s1 ≥ C.q then (.badSig, 0, (0, 0)) else
  let s1 := addMod C.W s1 (redOnce (leNat Hb) C.q) C.q
  let s0 := leNat (sig.take (C.no / 2)) + 2 ^ C.l
  match C.xy (C.add (C.smul s1 C.base) (C.smul s0 Q)) with
  | none => (.badSig, 0, (0, 0))
  | some R =>
    if hashL C (oid ++ natLE C.no R.1 ++ Hb) = sig.take (C.no / 2) then (.ok, s1, R) else (.badSig, 0, (0, 0))

/-- bignVerify -/
def verify (C : Ctx G) (oid Hb sig pub : Bytes) : Err :=
  if !C.oidOk oid then .badOid else
  match loadPub C pub with
  | none => .badPubkey
  | some Q => (verifyCore C oid Hb sig Q).1

/-! ### bign_keyt.c -/

/-- `theta <- <R>_256`: the first 32 octets of the x-coordinate -/
def theta (C : Ctx G) (x : Nat) : Bytes := (natLE C.no x).take 32

/-- bignKeyWrap (`header = none` is the NULL pointer): (code, token, rest of the tape) -/
def keyWrap (C : Ctx G) (key : Bytes) (header : Option Bytes) (pub tape : Bytes) : Err × Bytes × Bytes :=
  if key.length < 16 then (.badInput, [], tape) else
  match randNZMod C tape with
  | (none, rest) => (.badRng, [], rest)
  | (some k, rest) =>
    match loadPub C pub with
    | none => (.badPubkey, [], rest)
    | some Q =>
      match C.xy (C.smul k Q) with
      | none => (.badParams, [], rest)
      | some T =>
        match C.xy (C.smul k C.base) with
        | none => (.badParams, [], rest)
        | some R =>
          let hdr := match header with | some h => h | none => zeros 16
          (.ok, natLE C.no R.1 ++ C.kwpE (theta C T.1) (key ++ hdr), rest)

/-- bignKeyUnwrap: (code, key) -/
def keyUnwrap (C : Ctx G) (token : Bytes) (header : Option Bytes) (priv : Bytes) : Err × Bytes :=
  let len := token.length
  if len < 32 + C.no then (.badKeytoken, []) else
  let d := leNat priv
  if !privOk C d then (.badPrivkey, []) else
  let x := leNat (token.take C.no)
  if x ≥ C.p then (.badKeytoken, []) else
  match C.liftX x with
  | none => (.badKeytoken, [])
  | some R =>
    match C.xy (C.smul d R) with
    | none => (.badParams, [])
    | some T =>
      let body := token.drop C.no
      let r := C.kwpD (theta C T.1) (body.take (len - C.no - 16)) (body.drop (len - C.no - 16))
      let bad := match header with
        | some h => decide (h ≠ r.2)
        | none => decide (r.2 ≠ zeros 16)
      if bad then (.badKeytoken, []) else (.ok, r.1)

/-! ### bign_ibs.c -/

/-- bignIdExtract: (code, id_privkey ‖ id_pubkey) -/
def idExtract (C : Ctx G) (oid idHash sig pub : Bytes) : Err × Bytes :=
  if !C.oidOk oid then (.badOid, []) else
  match loadPub C pub with
  | none => (.badPubkey, [])
  | some Q =>
    let r := verifyCore C oid idHash sig Q
    if r.1 = .ok then (.ok, natLE C.no r.2.1 ++ encXY C r.2.2) else (r.1, [])

/-- common part of bignIdSign / bignIdSign2 -/
def idSignWith (C : Ctx G) (oid idHash Hb : Bytes) (e k : Nat) : Err × Bytes :=
  match C.xy (C.smul k C.base) with
  | none => (.badParams, [])
  | some V =>
    let s0 := hashL C (oid ++ natLE C.no V.1 ++ idHash ++ Hb)
    (.ok, s0 ++ natLE C.no (signS1 C (leNat s0) e k Hb))

/-- bignIdSign (the private key e = 0 is admitted by the code: only `e >= q` is rejected) -/
def idSign (C : Ctx G) (oid idHash Hb idPriv tape : Bytes) : Err × Bytes × Bytes :=
  if !C.oidOk oid then (.badOid, [], tape) else
  let e := leNat idPriv
  if e ≥ C.q then (.badPrivkey, [], tape) else
  match randNZMod C tape with
  | (none, rest) => (.badRng, [], rest)
  | (some k, rest) => let r := idSignWith C oid idHash Hb e k; (r.1, r.2, rest)

/-- bignIdSign2 -/
def idSign2 (C : Ctx G) (fuel : Nat) (oid idHash Hb idPriv : Bytes) (t : Option Bytes) : Option (Err × Bytes) :=
  if !C.oidOk oid then some (.badOid, []) else
  let e := leNat idPriv
  if e ≥ C.q then some (.badPrivkey, []) else
  let theta := C.hash (oid ++ idPriv ++ (match t with | some t => t | none => []))
  match nonceLoop C theta fuel Hb with
  | none => none
  | some k => some (idSignWith C oid idHash Hb e k)

/-- bignIdVerify -/
def idVerify (C : Ctx G) (oid idHash Hb idSig idPub pub : Bytes) : Err :=
  if !C.oidOk oid then .badOid else
  match loadPub C idPub with
  | none => .badPubkey
  | some R =>
    match loadPub C pub with
    | none => .badPubkey
    | some Q =>
      let s1 := leNat (idSig.drop (C.no / 2))
      if s1 ≥ C.q then .badSig else
      let s1 := addMod C.W s1 (redOnce (leNat Hb) C.q) C.q
      let S0 := leNat (idSig.take (C.no / 2))
      let s0 := S0 + 2 ^ C.l
      -- t <- <belt-hash(oid || <R>_{2l} || H0)>_l
      let t := leNat (hashL C (oid ++ idPub.take C.no ++ idHash))
      -- t1 <- -(t + 2^l)(s0 + 2^l) mod q
      let t1 := negMod ((t * S0 + 2 ^ C.l * t + 2 ^ C.l * S0 + 2 ^ (2 * C.l)) % C.q) C.q
      match C.xy (C.add (C.add (C.smul s1 C.base) (C.smul s0 R)) (C.smul t1 Q)) with
      | none => .badSig
      | some V =>
        if hashL C (oid ++ natLE C.no V.1 ++ idHash ++ Hb) = idSig.take (C.no / 2) then .ok else .badSig

end Bee2V.C02

/-
C02 — the nonce loop of alg. 6.3.3 (`k ← H; do k ← belt-WBL(k, θ) while k ∉ {1..q-1}`) in terms of the
iterates of WBL_θ, and the orbit argument: an injective length-preserving map on the 2l-bit strings is a
permutation of a finite set, so the orbit of H is a cycle through H.
-/
import Mathlib.Data.Fintype.Pigeonhole
import Mathlib.Logic.Function.Iterate
import Bee2V.C02.Lemmas
namespace Bee2V.C02
variable {G : Type} {C : Ctx G}

/-- the value of the loop variable after `i` rounds -/
def nonceIter (C : Ctx G) (θ : Bytes) (i : Nat) (k0 : Bytes) : Bytes := (C.wbl θ)^[i] k0

/-- the key of the nonce loop: theta = belt-hash(oid ‖ d ‖ t) (`t = none`: the NULL pointer, nothing is hashed) -/
def nonceKey (C : Ctx G) (oid priv : Bytes) (t : Option Bytes) : Bytes :=
  C.hash (oid ++ priv ++ (match t with | some t => t | none => []))

theorem nc_sign2_eq (C : Ctx G) (fuel : Nat) (oid Hb priv : Bytes) (t : Option Bytes) :
    sign2 C fuel oid Hb priv t =
      if !C.oidOk oid then some (.badOid, []) else
      if !privOk C (leNat priv) then some (.badPrivkey, []) else
      match nonceLoop C (nonceKey C oid priv t) fuel Hb with
      | none => none
      | some k => some (signWith C oid Hb (leNat priv) k) := rfl

/-- the exit condition `!wwIsZero(k) && wwCmp(k, q) < 0` -/
def nonceOk (C : Ctx G) (b : Bytes) : Prop := leNat b ≠ 0 ∧ leNat b < C.q

instance (C : Ctx G) (b : Bytes) : Decidable (nonceOk C b) := by unfold nonceOk; infer_instance

theorem nc_iter_succ (C : Ctx G) (θ : Bytes) (i : Nat) (k0 : Bytes) :
    nonceIter C θ (i + 1) k0 = nonceIter C θ i (C.wbl θ k0) := by
  unfold nonceIter; rw [Function.iterate_succ_apply]

/-- the loop returns the FIRST iterate that satisfies the exit condition -/
theorem nc_loop_first (θ : Bytes) : ∀ (n fuel : Nat) (k0 : Bytes), n < fuel →
    (∀ i, i < n → ¬ nonceOk C (nonceIter C θ (i + 1) k0)) → nonceOk C (nonceIter C θ (n + 1) k0) →
    nonceLoop C θ fuel k0 = some (leNat (nonceIter C θ (n + 1) k0)) := by
  intro n
  induction n with
  | zero =>
    intro fuel k0 hf _ hok
    obtain ⟨f, rfl⟩ : ∃ f, fuel = f + 1 := ⟨fuel - 1, by omega⟩
    have e : nonceIter C θ 1 k0 = C.wbl θ k0 := rfl
    rw [e] at hok ⊢
    simp only [nonceLoop]
    rw [if_pos (show leNat (C.wbl θ k0) ≠ 0 ∧ leNat (C.wbl θ k0) < C.q from hok)]
  | succ n ih =>
    intro fuel k0 hf hno hok
    obtain ⟨f, rfl⟩ : ∃ f, fuel = f + 1 := ⟨fuel - 1, by omega⟩
    have h1 : ¬ nonceOk C (C.wbl θ k0) := hno 0 (by omega)
    simp only [nonceLoop]
    rw [if_neg (show ¬ (leNat (C.wbl θ k0) ≠ 0 ∧ leNat (C.wbl θ k0) < C.q) from h1), nc_iter_succ]
    apply ih f (C.wbl θ k0) (by omega)
    · intro i hi
      rw [← nc_iter_succ]
      exact hno (i + 1) (by omega)
    · rw [← nc_iter_succ]; exact hok

/-- the loop runs out of fuel exactly when none of the first `fuel` iterates satisfies the exit condition -/
theorem nc_loop_none (θ : Bytes) : ∀ (fuel : Nat) (k0 : Bytes),
    nonceLoop C θ fuel k0 = none ↔ ∀ i, i < fuel → ¬ nonceOk C (nonceIter C θ (i + 1) k0) := by
  intro fuel
  induction fuel with
  | zero => intro k0; simp [nonceLoop]
  | succ f ih =>
    intro k0
    simp only [nonceLoop]
    by_cases h1 : nonceOk C (C.wbl θ k0)
    · rw [if_pos (show leNat (C.wbl θ k0) ≠ 0 ∧ leNat (C.wbl θ k0) < C.q from h1)]
      constructor
      · intro h; cases h
      · intro h; exact absurd h1 (h 0 (by omega))
    · rw [if_neg (show ¬ (leNat (C.wbl θ k0) ≠ 0 ∧ leNat (C.wbl θ k0) < C.q) from h1), ih]
      constructor
      · intro h i hi
        cases i with
        | zero => exact h1
        | succ i => rw [nc_iter_succ]; exact h i (by omega)
      · intro h i hi
        rw [← nc_iter_succ]; exact h (i + 1) (by omega)

/-- a hit within the fuel ⇒ the loop returns the first hit -/
theorem nc_loop_of_hit (θ : Bytes) (fuel : Nat) (k0 : Bytes)
    (h : ∃ n, n < fuel ∧ nonceOk C (nonceIter C θ (n + 1) k0)) :
    ∃ n, n < fuel ∧ (∀ i, i < n → ¬ nonceOk C (nonceIter C θ (i + 1) k0)) ∧
      nonceOk C (nonceIter C θ (n + 1) k0) ∧
      nonceLoop C θ fuel k0 = some (leNat (nonceIter C θ (n + 1) k0)) := by
  classical
  have hex : ∃ n, nonceOk C (nonceIter C θ (n + 1) k0) := by
    obtain ⟨n, _, hn⟩ := h; exact ⟨n, hn⟩
  obtain ⟨n, hnf, hn⟩ := h
  have hle : Nat.find hex ≤ n := Nat.find_min' hex hn
  refine ⟨Nat.find hex, by omega, fun i hi => Nat.find_min hex hi, Nat.find_spec hex, ?_⟩
  exact nc_loop_first θ _ fuel k0 (by omega) (fun i hi => Nat.find_min hex hi) (Nat.find_spec hex)

/-! ### the orbit of an injective length-preserving map -/

theorem nc_finite_strings (n : Nat) : Finite {b : Bytes // b.length = n} := by
  have hinj : Function.Injective (fun b : {b : Bytes // b.length = n} =>
      (⟨leNat b.1, by have := leNat_lt b.1; rw [b.2] at this; exact this⟩ : Fin (256 ^ n))) := by
    intro a b h
    have hv : leNat a.1 = leNat b.1 := by simpa using congrArg Fin.val h
    apply Subtype.ext
    rw [← natLE_leNat a.1, ← natLE_leNat b.1, a.2, b.2, hv]
  exact Finite.of_injective _ hinj

/-- the orbit of H under an injective length-preserving map of the n-octet strings returns to H -/
theorem nc_orbit_returns (f : Bytes → Bytes) (n : Nat) (hlen : ∀ a, a.length = n → (f a).length = n)
    (hinj : ∀ a b, a.length = n → b.length = n → f a = f b → a = b) (H : Bytes) (hH : H.length = n) :
    ∃ m, 0 < m ∧ f^[m] H = H := by
  haveI := nc_finite_strings n
  let g : {b : Bytes // b.length = n} → {b : Bytes // b.length = n} := fun b => ⟨f b.1, hlen b.1 b.2⟩
  have hg : Function.Injective g := by
    intro a b h
    exact Subtype.ext (hinj a.1 b.1 a.2 b.2 (congrArg Subtype.val h))
  have hval : ∀ (m : Nat) (s : {b : Bytes // b.length = n}), (g^[m] s).1 = f^[m] s.1 := by
    intro m
    induction m with
    | zero => intro s; rfl
    | succ m ih => intro s; rw [Function.iterate_succ_apply, Function.iterate_succ_apply, ih]
  obtain ⟨x, y, hxy, he⟩ := Finite.exists_ne_map_eq_of_infinite (fun i : Nat => g^[i] ⟨H, hH⟩)
  have key : ∀ a b : Nat, a < b → g^[a] ⟨H, hH⟩ = g^[b] ⟨H, hH⟩ → ∃ m, 0 < m ∧ f^[m] H = H := by
    intro a b hab h
    have hb : b = a + (b - a) := by omega
    rw [hb, Function.iterate_add_apply] at h
    have := (hg.iterate a) h
    refine ⟨b - a, by omega, ?_⟩
    have h2 := congrArg Subtype.val this
    rw [hval] at h2
    exact h2.symm
  rcases Nat.lt_or_gt_of_ne hxy with h | h
  · exact key x y h he
  · exact key y x h he.symm

/-- periodicity: `f^[m] H = H` ⇒ every iterate `f^[j] H`, j ≥ 1, is one of `f^[1] H … f^[m] H` -/
theorem nc_iter_mod (f : Bytes → Bytes) (H : Bytes) (m : Nat) (hm : 0 < m) (hp : f^[m] H = H) (j : Nat) :
    f^[j + 1] H = f^[j % m + 1] H := by
  have hmul : ∀ b : Nat, f^[m * b] H = H := by
    intro b
    induction b with
    | zero => rfl
    | succ b ih => rw [Nat.mul_succ, Function.iterate_add_apply, hp, ih]
  have e : j + 1 = (j % m + 1) + m * (j / m) := by
    have := Nat.mod_add_div j m; omega
  rw [e, Function.iterate_add_apply, hmul]

end Bee2V.C02

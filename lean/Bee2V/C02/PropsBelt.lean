/-
C02 — the belt hypotheses of `Laws` hold for the executable instance (C01 belt model):
`kwp_len`, `kwp_inv` from the C01 theorems about belt-WBL, `hash_len` by unfolding.
-/
import Bee2V.C01.PropsWbl
import Bee2V.C01.PropsLen
import Bee2V.C02.Inst
namespace Bee2V.C02

/-- `Laws.kwp_len` and `Laws.kwp_inv` for belt: beltKWPStepD2 on (protected part, last block) inverts
beltKWPStepE for every key and every buffer of at least 32 octets -/
theorem belt_kwp_laws (θ x : Bytes) (h : 32 ≤ x.length) :
    (beltWbl θ x).length = x.length ∧
    beltKwpD θ ((beltWbl θ x).take (x.length - 16)) ((beltWbl θ x).drop (x.length - 16))
      = (x.take (x.length - 16), x.drop (x.length - 16)) := by
  obtain ⟨hd, hlen⟩ := Bee2V.C01.wblStepD_wblStepE Bee2V.C01.beltCipher Bee2V.C01.length_blockEncr
    (Bee2V.C01.fmtKey θ) x h
  rw [Bee2V.C01.wblStepD_eq_wblStepDBase Bee2V.C01.beltCipher Bee2V.C01.length_blockEncr] at hd
  have h2 := Bee2V.C01.belt_wblStepD2_eq_wblStepDBase (Bee2V.C01.fmtKey θ)
    (Bee2V.C01.wblStepE Bee2V.C01.beltCipher (Bee2V.C01.fmtKey θ) x).1 (by omega)
  rw [hlen, hd] at h2
  refine ⟨hlen, ?_⟩
  unfold beltKwpD beltWbl
  rw [h2]

/-- belt-WBL under a fixed key is injective and length preserving on buffers of at least 32 octets (it has the
left inverse beltWBLStepD): the hypotheses `hlen`, `hinj` of the nonce-loop theorems (PropsNonce.lean) hold
for the belt model on the 2l-bit strings, l ≥ 128 -/
theorem belt_wbl_injective (θ a b : Bytes) (ha : 32 ≤ a.length) (hb : 32 ≤ b.length)
    (h : beltWbl θ a = beltWbl θ b) : a = b ∧ (beltWbl θ a).length = a.length := by
  obtain ⟨hda, hla⟩ := Bee2V.C01.wblStepD_wblStepE Bee2V.C01.beltCipher Bee2V.C01.length_blockEncr
    (Bee2V.C01.fmtKey θ) a ha
  obtain ⟨hdb, _⟩ := Bee2V.C01.wblStepD_wblStepE Bee2V.C01.beltCipher Bee2V.C01.length_blockEncr
    (Bee2V.C01.fmtKey θ) b hb
  unfold beltWbl at h
  refine ⟨?_, hla⟩
  rw [← hda, ← hdb, h]

/-- `Laws.hash_len` for belt: the hash of the belt model has 32 octets for every message (C01: `belt_hash_length`) -/
theorem belt_hash_len (m : Bytes) : (beltHash m).length = 32 :=
  Bee2V.C01.belt_hash_length m

end Bee2V.C02

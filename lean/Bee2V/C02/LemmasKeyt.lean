/-
C02 — helper lemmas for the key-transport properties (PropsKeyt.lean): the branches of
bignKeyWrap / bignKeyUnwrap one at a time, the range of zzRandNZMod, the shared secret.
-/
import Bee2V.C02.Lemmas
namespace Bee2V.C02

/-- header as the 16 octets that are protected: NULL = zero header -/
def hdrOctets : Option Bytes → Bytes
  | some h => h
  | none => zeros 16

/-- every value produced by the rejection loop of zzRandNZMod lies in [1, q-1] -/
theorem keyt_randLoop_range (no q : Nat) : ∀ (i : Nat) (tape : Bytes) (v : Nat) (rest : Bytes),
    randLoop no q i tape = (some v, rest) → 0 < v ∧ v < q := by
  intro i
  induction i with
  | zero => intro tape v rest h; simp [randLoop] at h
  | succ i ih =>
    intro tape v rest h
    simp only [randLoop] at h
    split at h
    · exact ih _ _ _ h
    · rename_i hc
      simp only [Prod.mk.injEq, Option.some.injEq] at h
      omega

variable {G : Type}

theorem keyt_randNZMod_range (C : Ctx G) {tape rest : Bytes} {k : Nat}
    (h : randNZMod C tape = (some k, rest)) : 0 < k ∧ k < C.q := by
  unfold randNZMod at h
  exact keyt_randLoop_range _ _ _ _ _ _ h

theorem keyt_privOk (C : Ctx G) (d : Nat) : privOk C d = true ↔ 0 < d ∧ d < C.q := by
  unfold privOk
  simp only [decide_eq_true_eq]
  omega

theorem keyt_privOk_false (C : Ctx G) (d : Nat) : privOk C d = false ↔ d = 0 ∨ C.q ≤ d := by
  unfold privOk
  simp only [decide_eq_false_iff_not]
  omega

/-! ### bignKeyWrap branch by branch -/

theorem keyt_wrap_short (C : Ctx G) {key : Bytes} (header : Option Bytes) (pub tape : Bytes)
    (h : key.length < 16) : keyWrap C key header pub tape = (.badInput, [], tape) := by
  unfold keyWrap
  rw [if_pos h]

theorem keyt_wrap_rng (C : Ctx G) {key : Bytes} (header : Option Bytes) (pub : Bytes) {tape rest : Bytes}
    (h : 16 ≤ key.length) (hr : randNZMod C tape = (none, rest)) :
    keyWrap C key header pub tape = (.badRng, [], rest) := by
  unfold keyWrap
  rw [if_neg (by omega)]
  simp only [hr]

theorem keyt_wrap_pub (C : Ctx G) {key : Bytes} (header : Option Bytes) {pub tape rest : Bytes} {k : Nat}
    (h : 16 ≤ key.length) (hr : randNZMod C tape = (some k, rest)) (hp : loadPub C pub = none) :
    keyWrap C key header pub tape = (.badPubkey, [], rest) := by
  unfold keyWrap
  rw [if_neg (by omega)]
  simp only [hr, hp]

variable [AddCommGroup G] {C : Ctx G}

theorem keyt_wrap_some (L : Laws C) {key : Bytes} {header : Option Bytes} {pub tape rest : Bytes} {k : Nat}
    {Q : G} {T R : Nat × Nat}
    (h : 16 ≤ key.length) (hr : randNZMod C tape = (some k, rest)) (hp : loadPub C pub = some Q)
    (hT : C.xy (k • Q) = some T) (hR : C.xy (k • C.base) = some R) :
    keyWrap C key header pub tape =
      (.ok, natLE C.no R.1 ++ C.kwpE (theta C T.1) (key ++ hdrOctets header), rest) := by
  unfold keyWrap
  rw [if_neg (by omega)]
  simp only [hr, hp, L.smul_eq, hT, hR]
  cases header <;> rfl

theorem keyt_loadPub_ne (L : Laws C) {pub : Bytes} {Q : G} (h : loadPub C pub = some Q) : Q ≠ 0 := by
  unfold loadPub at h
  simp only at h
  split at h
  · cases h
  · exact L.ne_of_xy (L.xy_ofXY _ _ _ h)

/-! ### bignKeyUnwrap branch by branch -/

omit [AddCommGroup G] in
theorem keyt_unwrap_short (C : Ctx G) {token : Bytes} (header : Option Bytes) (priv : Bytes)
    (h : token.length < 32 + C.no) : keyUnwrap C token header priv = (.badKeytoken, []) := by
  unfold keyUnwrap
  simp [h]

omit [AddCommGroup G] in
theorem keyt_unwrap_priv (C : Ctx G) {token : Bytes} (header : Option Bytes) {priv : Bytes}
    (h1 : 32 + C.no ≤ token.length) (h2 : privOk C (leNat priv) = false) :
    keyUnwrap C token header priv = (.badPrivkey, []) := by
  unfold keyUnwrap
  have h1' : ¬ token.length < 32 + C.no := by omega
  simp [h1', h2]

omit [AddCommGroup G] in
theorem keyt_unwrap_p (C : Ctx G) {token : Bytes} (header : Option Bytes) {priv : Bytes}
    (h1 : 32 + C.no ≤ token.length) (h2 : privOk C (leNat priv) = true)
    (h4 : C.p ≤ leNat (token.take C.no)) :
    keyUnwrap C token header priv = (.badKeytoken, []) := by
  unfold keyUnwrap
  have h1' : ¬ token.length < 32 + C.no := by omega
  simp [h1', h2, h4]

omit [AddCommGroup G] in
theorem keyt_unwrap_lift (C : Ctx G) {token : Bytes} (header : Option Bytes) {priv : Bytes}
    (h1 : 32 + C.no ≤ token.length) (h2 : privOk C (leNat priv) = true)
    (h4 : leNat (token.take C.no) < C.p) (h5 : C.liftX (leNat (token.take C.no)) = none) :
    keyUnwrap C token header priv = (.badKeytoken, []) := by
  unfold keyUnwrap
  have h1' : ¬ token.length < 32 + C.no := by omega
  have h4' : ¬ C.p ≤ leNat (token.take C.no) := by omega
  simp [h1', h2, h4', h5]

theorem keyt_unwrap_some (L : Laws C) {token : Bytes} {header : Option Bytes} {priv : Bytes}
    {R : G} {T : Nat × Nat}
    (h1 : 32 + C.no ≤ token.length) (h2 : privOk C (leNat priv) = true)
    (h4 : leNat (token.take C.no) < C.p) (h5 : C.liftX (leNat (token.take C.no)) = some R)
    (h6 : C.xy (leNat priv • R) = some T) :
    keyUnwrap C token header priv =
      if (C.kwpD (theta C T.1) ((token.drop C.no).take (token.length - C.no - 16))
            ((token.drop C.no).drop (token.length - C.no - 16))).2 = hdrOctets header
      then (.ok, (C.kwpD (theta C T.1) ((token.drop C.no).take (token.length - C.no - 16))
            ((token.drop C.no).drop (token.length - C.no - 16))).1)
      else (.badKeytoken, []) := by
  unfold keyUnwrap
  have h1' : ¬ token.length < 32 + C.no := by omega
  have h4' : ¬ leNat (token.take C.no) ≥ C.p := by omega
  simp only [L.smul_eq, h1', h2, h4', h5, h6, ↓reduceIte, Bool.not_true, Bool.false_eq_true]
  generalize C.kwpD _ _ _ = r
  cases header with
  | none =>
    by_cases hh : r.2 = zeros 16
    · simp [hdrOctets, hh]
    · simp [hdrOctets, hh]
  | some h =>
    by_cases hh : r.2 = h
    · simp [hdrOctets, hh]
    · have hh' : ¬ h = r.2 := fun e => hh e.symm
      simp [hdrOctets, hh, hh']

/-! ### the shared point -/

/-- the x-coordinate of kG decompresses to a point R' with the same x-coordinate of dR' as k(dG) -/
theorem keyt_lift_shared (L : Laws C) {d k xR yR xT yT : Nat}
    (hR : C.xy (k • C.base) = some (xR, yR)) (hT : C.xy (k • (d • C.base)) = some (xT, yT)) :
    ∃ R' y', C.liftX xR = some R' ∧ C.xy (d • R') = some (xT, y') := by
  have hc : d • (k • C.base) = k • (d • C.base) := by
    rw [← mul_nsmul', ← mul_nsmul', Nat.mul_comm d k]
  rcases L.liftX_of _ _ _ hR with h | h
  · exact ⟨_, yT, h, by rw [hc]; exact hT⟩
  · obtain ⟨y', hy'⟩ := L.xy_neg _ _ _ hT
    exact ⟨_, y', h, by rw [neg_nsmul, hc]; exact hy'⟩

theorem keyt_kwp_roundtrip (L : Laws C) (θ key hdr : Bytes) (hθ : θ.length = min 32 C.no)
    (hk : 16 ≤ key.length) (hh : hdr.length = 16) :
    C.kwpD θ ((C.kwpE θ (key ++ hdr)).take key.length) ((C.kwpE θ (key ++ hdr)).drop key.length)
      = (key, hdr) := by
  have hl : (key ++ hdr).length - 16 = key.length := by rw [List.length_append]; omega
  have h := L.kwp_inv θ (key ++ hdr) hθ (by rw [List.length_append]; omega)
  rw [hl] at h
  rw [h, List.take_left' rfl, List.drop_left' rfl]

/-- unwrapping the token built from kG and the x-coordinate of k(dG) -/
theorem keyt_unwrap_wrap (L : Laws C) {d k : Nat} (hd0 : 0 < d) (hdq : d < C.q)
    {xR yR xT yT : Nat}
    (hR : C.xy (k • C.base) = some (xR, yR)) (hT : C.xy (k • (d • C.base)) = some (xT, yT))
    (key hdr : Bytes) (hk : 16 ≤ key.length) (hh : hdr.length = 16)
    (header' : Option Bytes) (he : hdrOctets header' = hdr) :
    keyUnwrap C (natLE C.no xR ++ C.kwpE (theta C xT) (key ++ hdr)) header' (natLE C.no d)
      = (.ok, key) := by
  obtain ⟨R', y', hl, hxy⟩ := keyt_lift_shared L hR hT
  have htl : (natLE C.no xR ++ C.kwpE (theta C xT) (key ++ hdr)).length = C.no + (key.length + 16) := by
    have h32 : 32 ≤ (key ++ hdr).length := by rw [List.length_append]; omega
    simp only [List.length_append, natLE_length, L.kwp_len _ _ h32, hh]
  have hq := L.q_hi
  have hp := L.p_hi
  have hxR := (L.xy_lt _ _ _ hR).1
  have hpriv : leNat (natLE C.no d) = d := leNat_natLE_of_lt (by rw [L.pow256]; omega)
  have hx : leNat (natLE C.no xR) = xR := leNat_natLE_of_lt (by rw [L.pow256]; omega)
  have htake := take_natLE_append C.no xR (C.kwpE (theta C xT) (key ++ hdr))
  have h := keyt_unwrap_some L (token := natLE C.no xR ++ C.kwpE (theta C xT) (key ++ hdr))
    (header := header') (priv := natLE C.no d) (R := R') (T := (xT, y'))
    (by rw [htl]; omega) (by rw [hpriv]; exact (keyt_privOk C d).2 ⟨hd0, hdq⟩)
    (by rw [htake, hx]; exact hxR) (by rw [htake, hx]; exact hl) (by rw [hpriv]; exact hxy)
  have hn : C.no + (key.length + 16) - C.no - 16 = key.length := by omega
  rw [h, drop_natLE_append, htl, hn]
  have hrt := keyt_kwp_roundtrip L (theta C xT) key hdr (theta_length C xT) hk hh
  simp only [hrt, he, ↓reduceIte]

end Bee2V.C02

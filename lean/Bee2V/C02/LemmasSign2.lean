/-
C02 — the two facts every signing entry point shares: `signWith` produces the standard's value,
and that value passes `verify` under the matching public key.
-/
import Bee2V.C02.LemmasSign
namespace Bee2V.C02
variable {G : Type} [AddCommGroup G] {C : Ctx G}

theorem sg_specSig_shape (L : Laws C) {oid Hb : Bytes} {d k : Nat} (hk0 : 0 < k) (hkq : k < C.q) :
    ∃ xR yR, C.xy (k • C.base) = some (xR, yR) ∧
      specSig C oid Hb d k = hashL C (oid ++ natLE C.no xR ++ Hb) ++
        natLE C.no (subQ C.q (subQ C.q k (leNat Hb)) ((leNat (hashL C (oid ++ natLE C.no xR ++ Hb)) + 2 ^ C.l) * d)) := by
  obtain ⟨x, y, hxy⟩ := L.xy_some (L.base_mul_ne hk0 hkq)
  refine ⟨x, y, hxy, ?_⟩
  unfold specSig
  rw [L.smul_eq, hxy]

theorem sg_signWith (L : Laws C) {oid Hb : Bytes} (hH : Hb.length = C.no) {d k : Nat} (hk0 : 0 < k) (hkq : k < C.q) :
    signWith C oid Hb d k = (.ok, specSig C oid Hb d k) := by
  obtain ⟨x, y, hxy, hs⟩ := sg_specSig_shape (oid := oid) (Hb := Hb) (d := d) L hk0 hkq
  unfold signWith
  rw [L.smul_eq, hxy, hs]
  simp only
  rw [sg_signS1_eq L hkq hH]

theorem sg_specSig_length (L : Laws C) {oid Hb : Bytes} {d k : Nat} (hk0 : 0 < k) (hkq : k < C.q) :
    (specSig C oid Hb d k).length = C.no + C.no / 2 := by
  obtain ⟨x, y, _, hs⟩ := sg_specSig_shape (oid := oid) (Hb := Hb) (d := d) L hk0 hkq
  rw [hs, List.length_append, L.hashL_len, natLE_length]
  omega

/-- the standard's signature verifies (core part, for the public key as a group element) -/
theorem sg_verifyCore_specSig (L : Laws C) {oid Hb : Bytes} (hH : Hb.length = C.no) {d k : Nat}
    (hk0 : 0 < k) (hkq : k < C.q) :
    (verifyCore C oid Hb (specSig C oid Hb d k) (d • C.base)).1 = .ok := by
  have hq := L.q_pos
  obtain ⟨x, y, hxy, hs⟩ := sg_specSig_shape (oid := oid) (Hb := Hb) (d := d) L hk0 hkq
  have hHW : leNat Hb < C.W := by
    have := leNat_lt Hb
    rw [hH, L.pow256, ← L.W_eq] at this
    exact this
  generalize hs0 : hashL C (oid ++ natLE C.no x ++ Hb) = s0b at hs
  have hl0 : s0b.length = C.no / 2 := by rw [← hs0]; exact L.hashL_len _
  generalize hs1 : subQ C.q (subQ C.q k (leNat Hb)) ((leNat s0b + 2 ^ C.l) * d) = s1 at hs
  have hs1q : s1 < C.q := by rw [← hs1]; exact sg_subQ_lt _ _ _ hq
  have htake : (specSig C oid Hb d k).take (C.no / 2) = s0b := by
    rw [hs, ← hl0]; exact List.take_left' rfl
  have hdrop : (specSig C oid Hb d k).drop (C.no / 2) = natLE C.no s1 := by
    rw [hs, ← hl0]; exact List.drop_left' rfl
  have hle : leNat (natLE C.no s1) = s1 := sg_leNat_priv L hs1q
  unfold verifyCore
  simp only [htake, hdrop, hle]
  rw [if_neg (by omega)]
  rw [redOnce_eq hHW L.W_lt_2q, addMod_eq hs1q (Nat.mod_lt _ hq) L.q_lt_W L.W_lt_2q]
  rw [L.smul_eq, L.smul_eq, L.add_eq, ← mul_nsmul', ← add_nsmul]
  have hc : (((s1 + leNat Hb % C.q) % C.q + (leNat s0b + 2 ^ C.l) * d)) % C.q = k % C.q := by
    rw [← hs1]; exact sg_key_cong _ _ _ _ hq
  rw [L.nsmul_congr hc, hxy]
  simp only [hs0, if_true]

theorem sg_verify_specSig (L : Laws C) {oid Hb : Bytes} (ho : C.oidOk oid = true) (hH : Hb.length = C.no)
    {d k : Nat} (hd0 : 0 < d) (hdq : d < C.q) (hk0 : 0 < k) (hkq : k < C.q) :
    verify C oid Hb (specSig C oid Hb d k) (pubOf C d) = .ok := by
  obtain ⟨x, y, _, _, hl⟩ := sg_pubOf L hd0 hdq
  unfold verify
  rw [ho, hl]
  exact sg_verifyCore_specSig L hH hk0 hkq

/-- the nonce of alg. 6.3.3, when the loop finishes, lies in [1, q-1] -/
theorem sg_nonceLoop_range (C : Ctx G) (θ : Bytes) : ∀ (fuel : Nat) (k0 : Bytes) (k : Nat),
    nonceLoop C θ fuel k0 = some k → 0 < k ∧ k < C.q := by
  intro fuel
  induction fuel with
  | zero => intro k0 k h; simp [nonceLoop] at h
  | succ n ih =>
    intro k0 k h
    simp only [nonceLoop] at h
    split at h
    · rename_i hc
      simp only [Option.some.injEq] at h
      omega
    · exact ih _ _ h

end Bee2V.C02

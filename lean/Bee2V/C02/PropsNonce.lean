/-
C02 — property theorems, part 5: termination of the deterministic-nonce loop of alg. 6.3.3
(`bignSign2`, `bignIdSign2`: `k ← H; while (1) { k ← belt-WBL(k, θ); if (0 < k < q) break; }`).

What the code does.  belt-WBL under a fixed key is a permutation of the 2l-bit strings, so the sequence
of loop values H, E(H), E²(H), … is a CYCLE through H (`nonce_orbit_cycle`).  Hence exactly one of two
things happens (`nonce_dichotomy`): some value of the cycle lies in {1..q−1} — then the loop stops at the
first such value, after at most (cycle length) rounds, whatever fuel ≥ that the model is given — or no
value of the cycle does, and the C loop runs through the cycle FOREVER (no other exit, no error code).
If H itself is in {1..q−1} (as a number) the first case holds, because H is on its own cycle
(`nonce_terminates_hash_in_range`).  For H = 0 or H ≥ q (probability < 1/2 for a random hash) termination
needs "the cycle of H under WBL_θ meets {1..q−1}", which is a statistical property of belt (each value
is in range with probability > 1/2) and is not provable: see `sign2_terminates_partial` below.
-/
import Bee2V.C02.LemmasNonce
import Bee2V.C02.LemmasSign2
namespace Bee2V.C02
variable {G : Type} {C : Ctx G}

/-- if one of the first `fuel` iterates satisfies the exit condition, the loop returns the FIRST such iterate -/
theorem nonceLoop_of_hit (θ : Bytes) (fuel : Nat) (k0 : Bytes)
    (h : ∃ n, n < fuel ∧ nonceOk C (nonceIter C θ (n + 1) k0)) :
    ∃ n, n < fuel ∧ (∀ i, i < n → ¬ nonceOk C (nonceIter C θ (i + 1) k0)) ∧
      nonceOk C (nonceIter C θ (n + 1) k0) ∧
      nonceLoop C θ fuel k0 = some (leNat (nonceIter C θ (n + 1) k0)) :=
  nc_loop_of_hit θ fuel k0 h

/-- the model runs out of fuel exactly when none of the first `fuel` iterates satisfies the exit condition
(the C loop is then still running) -/
theorem nonceLoop_none_iff (θ : Bytes) (fuel : Nat) (k0 : Bytes) :
    nonceLoop C θ fuel k0 = none ↔ ∀ i, i < fuel → ¬ nonceOk C (nonceIter C θ (i + 1) k0) :=
  nc_loop_none θ fuel k0

/-- more fuel does not change a result -/
theorem nonceLoop_mono (θ : Bytes) (fuel fuel' : Nat) (k0 : Bytes) (k : Nat) (hf : fuel ≤ fuel')
    (h : nonceLoop C θ fuel k0 = some k) : nonceLoop C θ fuel' k0 = some k := by
  have hne : ¬ (nonceLoop C θ fuel k0 = none) := by rw [h]; simp
  rw [nc_loop_none] at hne
  have hex : ∃ n, n < fuel ∧ nonceOk C (nonceIter C θ (n + 1) k0) := by
    by_contra hc
    exact hne (fun i hi hok => hc ⟨i, hi, hok⟩)
  obtain ⟨n, hn, hmin, hok, he⟩ := nc_loop_of_hit θ fuel k0 hex
  rw [h] at he
  rw [he]
  exact nc_loop_first θ n fuel' k0 (by omega) hmin hok

/-- the loop values form a cycle through H when WBL_θ is injective and length preserving on 2l-bit strings
(for belt: `belt_wbl_injective` in PropsBelt.lean) -/
theorem nonce_orbit_cycle (θ : Bytes) (hlen : ∀ a, a.length = C.no → (C.wbl θ a).length = C.no)
    (hinj : ∀ a b, a.length = C.no → b.length = C.no → C.wbl θ a = C.wbl θ b → a = b)
    (Hb : Bytes) (hH : Hb.length = C.no) :
    ∃ m, 0 < m ∧ nonceIter C θ m Hb = Hb ∧ ∀ j, nonceIter C θ (j + 1) Hb = nonceIter C θ (j % m + 1) Hb := by
  obtain ⟨m, hm, hp⟩ := nc_orbit_returns (C.wbl θ) C.no hlen hinj Hb hH
  exact ⟨m, hm, hp, fun j => nc_iter_mod (C.wbl θ) Hb m hm hp j⟩

/-- EITHER the cycle of H contains a value in {1..q−1}: then for every fuel ≥ the cycle length the loop
returns the first such value; OR it contains none: then the loop never exits (for every fuel the model
reports `none`; the C code keeps running) -/
theorem nonce_dichotomy (θ : Bytes) (hlen : ∀ a, a.length = C.no → (C.wbl θ a).length = C.no)
    (hinj : ∀ a b, a.length = C.no → b.length = C.no → C.wbl θ a = C.wbl θ b → a = b)
    (Hb : Bytes) (hH : Hb.length = C.no) :
    ∃ m, 0 < m ∧ nonceIter C θ m Hb = Hb ∧
      ((∃ k, 0 < k ∧ k < C.q ∧ ∀ fuel, m ≤ fuel → nonceLoop C θ fuel Hb = some k) ∨
       ((∀ j, ¬ nonceOk C (nonceIter C θ (j + 1) Hb)) ∧ ∀ fuel, nonceLoop C θ fuel Hb = none)) := by
  obtain ⟨m, hm, hp, hmod⟩ := nonce_orbit_cycle θ hlen hinj Hb hH
  refine ⟨m, hm, hp, ?_⟩
  by_cases hex : ∃ n, n < m ∧ nonceOk C (nonceIter C θ (n + 1) Hb)
  · left
    obtain ⟨n, hn, hmin, hok, he⟩ := nc_loop_of_hit θ m Hb hex
    refine ⟨leNat (nonceIter C θ (n + 1) Hb), Nat.pos_of_ne_zero hok.1, hok.2, ?_⟩
    intro fuel hf
    exact nonceLoop_mono θ m fuel Hb _ hf he
  · right
    have hall : ∀ j, ¬ nonceOk C (nonceIter C θ (j + 1) Hb) := by
      intro j hok
      rw [hmod j] at hok
      exact hex ⟨j % m, Nat.mod_lt _ hm, hok⟩
    exact ⟨hall, fun fuel => (nc_loop_none θ fuel Hb).2 (fun i _ => hall i)⟩

/-- a hash value that is itself in {1..q−1} guarantees termination: H lies on its own cycle -/
theorem nonce_terminates_hash_in_range (θ : Bytes) (hlen : ∀ a, a.length = C.no → (C.wbl θ a).length = C.no)
    (hinj : ∀ a b, a.length = C.no → b.length = C.no → C.wbl θ a = C.wbl θ b → a = b)
    (Hb : Bytes) (hH : Hb.length = C.no) (h0 : leNat Hb ≠ 0) (hq : leNat Hb < C.q) :
    ∃ m k, 0 < k ∧ k < C.q ∧ ∀ fuel, m ≤ fuel → nonceLoop C θ fuel Hb = some k := by
  obtain ⟨m, hm, hp, hd⟩ := nonce_dichotomy θ hlen hinj Hb hH
  rcases hd with ⟨k, hk0, hkq, hk⟩ | ⟨hall, _⟩
  · exact ⟨m, k, hk0, hkq, hk⟩
  · exfalso
    apply hall (m - 1)
    have e : m - 1 + 1 = m := by omega
    rw [e, hp]
    exact ⟨h0, hq⟩

section sign
variable [AddCommGroup G]

/-- bignSign2 under an explicit termination hypothesis: if one of the first `fuel` WBL-iterates of H lies in
{1..q−1}, the call returns ERR_OK with the standard's signature for the FIRST such iterate, and it verifies -/
theorem sign2_complete_of_hit (L : Laws C) {oid Hb priv : Bytes} (ho : C.oidOk oid = true) (hH : Hb.length = C.no)
    (hd0 : 0 < leNat priv) (hdq : leNat priv < C.q) (fuel : Nat) (t : Option Bytes)
    (hit : ∃ n, n < fuel ∧ nonceOk C (nonceIter C (nonceKey C oid priv t) (n + 1) Hb)) :
    ∃ n, n < fuel ∧
      (∀ i, i < n → ¬ nonceOk C (nonceIter C (nonceKey C oid priv t) (i + 1) Hb)) ∧
      sign2 C fuel oid Hb priv t = some (.ok, specSig C oid Hb (leNat priv)
        (leNat (nonceIter C (nonceKey C oid priv t) (n + 1) Hb))) ∧
      verify C oid Hb (specSig C oid Hb (leNat priv)
        (leNat (nonceIter C (nonceKey C oid priv t) (n + 1) Hb)))
        (pubOf C (leNat priv)) = .ok := by
  have hp : privOk C (leNat priv) = true := by simp [privOk]; omega
  obtain ⟨n, hn, hmin, hok, he⟩ := nc_loop_of_hit _ fuel Hb hit
  have hk0 := Nat.pos_of_ne_zero hok.1
  refine ⟨n, hn, hmin, ?_, sg_verify_specSig L ho hH hd0 hdq hk0 hok.2⟩
  rw [nc_sign2_eq]
  simp only [ho, hp, Bool.not_true, Bool.false_eq_true, if_false, he, sg_signWith L hH hk0 hok.2]

/-- bignSign2 terminates, returns ERR_OK and a verifying signature whenever the hash value is in {1..q−1}
and WBL_θ is a permutation of the 2l-bit strings (no fuel hypothesis: a sufficient fuel exists) -/
theorem sign2_terminates_hash_in_range (L : Laws C) {oid Hb priv : Bytes} (ho : C.oidOk oid = true)
    (hH : Hb.length = C.no) (hd0 : 0 < leNat priv) (hdq : leNat priv < C.q) (t : Option Bytes)
    (hlen : ∀ θ a, a.length = C.no → (C.wbl θ a).length = C.no)
    (hinj : ∀ θ a b, a.length = C.no → b.length = C.no → C.wbl θ a = C.wbl θ b → a = b)
    (h0 : leNat Hb ≠ 0) (hq : leNat Hb < C.q) :
    ∃ m k, 0 < k ∧ k < C.q ∧ ∀ fuel, m ≤ fuel →
      sign2 C fuel oid Hb priv t = some (.ok, specSig C oid Hb (leNat priv) k) ∧
      verify C oid Hb (specSig C oid Hb (leNat priv) k) (pubOf C (leNat priv)) = .ok := by
  have hp : privOk C (leNat priv) = true := by simp [privOk]; omega
  obtain ⟨m, k, hk0, hkq, hk⟩ := nonce_terminates_hash_in_range
    (nonceKey C oid priv t) (hlen _) (hinj _) Hb hH h0 hq
  refine ⟨m, k, hk0, hkq, fun fuel hf => ⟨?_, sg_verify_specSig L ho hH hd0 hdq hk0 hkq⟩⟩
  rw [nc_sign2_eq]
  simp only [ho, hp, Bool.not_true, Bool.false_eq_true, if_false, hk fuel hf, sg_signWith L hH hk0 hkq]

/- FULL STATEMENT (not proved, not provable from the laws): for EVERY hash value of l/4 octets
     ∃ fuel k, sign2 C fuel oid Hb priv t = some (.ok, specSig C oid Hb (leNat priv) k).
   `sign2_terminates_partial` proves it for the hash values in {1..q−1} and, for the others (H = 0 or H ≥ q),
   reduces it to the single missing fact "the cycle of H under WBL_θ contains a value in {1..q−1}"
   (`nonce_dichotomy`: otherwise bignSign2 does not return at all). -/
theorem sign2_terminates_partial (L : Laws C) {oid Hb priv : Bytes} (ho : C.oidOk oid = true)
    (hH : Hb.length = C.no) (hd0 : 0 < leNat priv) (hdq : leNat priv < C.q) (t : Option Bytes)
    (hlen : ∀ θ a, a.length = C.no → (C.wbl θ a).length = C.no)
    (hinj : ∀ θ a b, a.length = C.no → b.length = C.no → C.wbl θ a = C.wbl θ b → a = b)
    (hmeet : (leNat Hb ≠ 0 ∧ leNat Hb < C.q) ∨
      ∃ j, nonceOk C (nonceIter C (nonceKey C oid priv t) (j + 1) Hb)) :
    ∃ fuel k, sign2 C fuel oid Hb priv t = some (.ok, specSig C oid Hb (leNat priv) k) := by
  rcases hmeet with ⟨h0, hq⟩ | ⟨j, hj⟩
  · obtain ⟨m, k, _, _, hk⟩ := sign2_terminates_hash_in_range L ho hH hd0 hdq t hlen hinj h0 hq
    exact ⟨m, k, (hk m (Nat.le_refl m)).1⟩
  · obtain ⟨n, _, _, hs, _⟩ := sign2_complete_of_hit L ho hH hd0 hdq (j + 1) t ⟨j, by omega, hj⟩
    exact ⟨j + 1, _, hs⟩

end sign
end Bee2V.C02

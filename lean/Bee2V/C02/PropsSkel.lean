/-
C02 — structural obligations about the source text of the bign functions (the skeleton regenerated from
bign_misc.c / bign_sign.c / bign_keyt.c / bign_ibs.c on every run):

  "a check that fails leaves the function at once, with its code, before the computation it protects".

This is the class of defect in which a rejecting branch is turned into `code = ERR_…` and the function goes on
(the remaining computation would succeed on a consistent adversarial input and the recorded error is overwritten).
-/
import Bee2V.Gen.C02Skel
namespace Bee2V.C02
open Bee2V.C02.Skel

/-- conditions that may appear as a non-returning `if`: control flow (reductions, NULL pointers, loop exit, layout),
success branches, and the two comparisons that END a function (`pubEq`, `hdrEq`: they set the code, nothing follows) -/
def branchAllowed : Tag → Bool
  | .mulOk | .redH | .redK | .redT | .nonceExit | .hdrNonNull | .tNonNull | .keyLenGtNo | .layout | .hashOk | .pubEq | .hdrEq => true
  | _ => false

/-- the error code a returning guard must carry -/
def guardCode : Tag → Nat
  | .memParams | .tValid | .memArgs | .keyLen => 109
  | .state0 => 110
  | .oid => 301
  | .rngNull | .randFail => 304
  | .operable | .mulFail => 502
  | .privRange | .idPrivRange => 504
  | .pubOnCurve | .idPubOnCurve | .pubRange => 505
  | .dhLen => 507
  | .s1Range | .addMulFail => 510
  | .tokX | .rootCheck | .tokLen => 513
  | .startFail => 1
  | _ => 0

/-- checks that must have returned before the first call of the routine they protect -/
def required : Fun → List (Tag × Fn)
  | .keypairGen => [(.randFail, .ecMulA)]
  | .keypairVal => [(.privRange, .ecMulA)]
  | .pubkeyVal => []
  | .pubkeyCalc => [(.privRange, .ecMulA)]
  | .dh => [(.dhLen, .ecMulA), (.privRange, .ecMulA), (.pubOnCurve, .ecMulA)]
  | .sign => [(.oid, .ecMulA), (.privRange, .ecMulA), (.randFail, .ecMulA), (.mulFail, .hashG2)]
  | .sign2 => [(.oid, .wblE), (.privRange, .wblE), (.mulFail, .hashG2)]
  | .verify => [(.oid, .ecAddMulA), (.pubOnCurve, .ecAddMulA), (.s1Range, .ecAddMulA), (.addMulFail, .hashV2)]
  | .keyWrap => [(.keyLen, .ecMulA), (.randFail, .ecMulA), (.pubOnCurve, .ecMulA), (.mulFail, .kwpE)]
  | .keyUnwrap => [(.tokLen, .ecMulA), (.privRange, .ecMulA), (.tokX, .ecMulA), (.rootCheck, .ecMulA), (.mulFail, .kwpD2)]
  | .idExtract => [(.oid, .ecAddMulA), (.pubOnCurve, .ecAddMulA), (.s1Range, .ecAddMulA), (.addMulFail, .hashV2)]
  | .idSign => [(.oid, .ecMulA), (.idPrivRange, .ecMulA), (.randFail, .ecMulA), (.mulFail, .hashG2)]
  | .idSign2 => [(.oid, .wblE), (.idPrivRange, .wblE), (.mulFail, .hashG2)]
  | .idVerify => [(.oid, .ecAddMulA), (.idPubOnCurve, .ecAddMulA), (.pubOnCurve, .ecAddMulA), (.s1Range, .ecAddMulA),
      (.addMulFail, .hashV2)]

def isCall : Ev → Bool
  | .call _ => true
  | _ => false

/-- R1/R4: every `if` is a returning guard with the right code, or an allowed branch -/
def evOk : Ev → Bool
  | .guard t c => c == guardCode t && !branchAllowed t
  | .branch t => branchAllowed t
  | _ => true

/-- R2/R5: once an error code has been recorded (`setcode`, `setfinal`) or an end-of-function comparison has been
reached, no watched routine runs and the code is not recomputed -/
def tailOk : List Ev → Bool
  | [] => true
  | .setcode _ :: rest => rest.all (fun e => !isCall e && (match e with | .setfinal _ => false | _ => true)) && tailOk rest
  | .setfinal _ :: rest => rest.all (fun e => !isCall e && (match e with | .setfinal _ => false | .setcode _ => false | _ => true))
  | .branch .pubEq :: rest => rest.all (fun e => !isCall e) && tailOk rest
  | .branch .hdrEq :: rest => rest.all (fun e => !isCall e) && tailOk rest
  | _ :: rest => tailOk rest

/-- R3: a returning guard `t` occurs before the first call of `f` (and `f` is called at all) -/
def precedes (t : Tag) (f : Fn) : List Ev → Bool
  | [] => false
  | .guard t' _ :: rest => if t' = t then rest.any (fun e => e == .call f) else precedes t f rest
  | .call f' :: rest => if f' = f then false else precedes t f rest
  | _ :: rest => precedes t f rest

def fnOk (f : Fun) (evs : List Ev) : Bool :=
  evs.all evOk && tailOk evs && (required f).all (fun r => precedes r.1 r.2 evs)

/-- every bign function of the current source satisfies the guard discipline; all fourteen functions are present -/
theorem guards_precede_use :
    (Bee2V.Gen.C02Skel.fns.all (fun fe => fnOk fe.1 fe.2)) = true ∧ Bee2V.Gen.C02Skel.fns.length = 14 := by
  decide

/-- the obligation is not vacuous: turning the root test of bignKeyUnwrap into a non-returning branch that records
the error (and recomputing the code at the end) is rejected -/
example : fnOk .keyUnwrap [.guard .privRange 504, .guard .tokX 513, .branch .rootCheck, .setcode 513, .call .ecMulA,
    .guard .mulFail 502, .call .kwpD2, .setfinal 513] = false := by decide

example : fnOk .verify [.guard .oid 301, .guard .s1Range 510, .call .ecAddMulA, .guard .addMulFail 510, .call .hashV2,
    .setfinal 510] = false := by decide      -- the public-key check is missing

end Bee2V.C02

/-
C02 — event types of the guard skeleton of the bign functions (generated lists: Bee2V/Gen/C02Skel.lean,
translator xlate/x_c02_skel.py; obligations: PropsSkel.lean).  No Mathlib.
-/
namespace Bee2V.C02.Skel

/-- the bign API functions -/
inductive Fun
  | keypairGen | keypairVal | pubkeyVal | pubkeyCalc | dh | sign | sign2 | verify | keyWrap | keyUnwrap
  | idExtract | idSign | idSign2 | idVerify
  deriving DecidableEq, Repr

/-- the conditions of the `if` statements, identified by their exact text in the translator's table -/
inductive Tag
  | memParams | operable | oid | rngNull | state0 | tValid | memArgs | keyLen | privRange | idPrivRange | randFail
  | mulFail | mulOk | addMulFail | pubOnCurve | idPubOnCurve | pubRange | tokX | rootCheck | tokLen | dhLen | s1Range
  | redH | redK | redT | nonceExit | hdrNonNull | tNonNull | keyLenGtNo | layout | hashOk | pubEq | hdrEq | startFail
  deriving DecidableEq, Repr

/-- the watched routines -/
inductive Fn
  | ecMulA | ecAddMulA | kwpE | kwpD2 | wblE | hashG | hashG2 | hashV2
  deriving DecidableEq, Repr

inductive Ev
  /-- `if (tag) { blobClose(state); return code; }` / `if (tag) return code;` -/
  | guard (t : Tag) (code : Nat)
  /-- any other `if (tag)`: execution continues inside the function -/
  | branch (t : Tag)
  | call (f : Fn)
  /-- `code = ERR_X;` -/
  | setcode (code : Nat)
  /-- `code = EXPR ? ERR_OK : ERR_X;` -/
  | setfinal (code : Nat)
  deriving DecidableEq, Repr

end Bee2V.C02.Skel

/-
C02 — basic lemmas shared by the property files: octets <-> numbers, sizes, the modular steps
inside their preconditions, scalar multiples of the base point.
-/
import Bee2V.C02.Laws
namespace Bee2V.C02

/-! ### octets -/

theorem natLE_length (n v : Nat) : (natLE n v).length = n := by
  induction n generalizing v with
  | zero => rfl
  | succ n ih => simp [natLE, ih]

theorem leNat_natLE (n v : Nat) : leNat (natLE n v) = v % 256 ^ n := by
  induction n generalizing v with
  | zero => simp [natLE, leNat, Nat.mod_one]
  | succ n ih =>
    simp only [natLE, leNat, ih]
    have h : (UInt8.ofNat (v % 256)).toNat = v % 256 := by
      simp [UInt8.toNat_ofNat']
    rw [h, Nat.pow_succ, Nat.mul_comm (256 ^ n) 256, Nat.mod_mul, Nat.add_comm]

theorem leNat_lt (b : Bytes) : leNat b < 256 ^ b.length := by
  induction b with
  | nil => simp [leNat]
  | cons x xs ih =>
    simp only [leNat, List.length_cons, Nat.pow_succ]
    have := x.toNat_lt
    omega

theorem natLE_leNat (b : Bytes) : natLE b.length (leNat b) = b := by
  induction b with
  | nil => rfl
  | cons x xs ih =>
    simp only [List.length_cons, natLE, leNat]
    have hx := x.toNat_lt
    have h1 : (x.toNat + 256 * leNat xs) % 256 = x.toNat := by omega
    have h2 : (x.toNat + 256 * leNat xs) / 256 = leNat xs := by omega
    rw [h1, h2, ih]
    simp

theorem leNat_natLE_of_lt {n v : Nat} (h : v < 256 ^ n) : leNat (natLE n v) = v := by
  rw [leNat_natLE, Nat.mod_eq_of_lt h]

theorem take_natLE_append (n v : Nat) (r : Bytes) : (natLE n v ++ r).take n = natLE n v := by
  have h := natLE_length n v
  rw [List.take_append_of_le_length (by omega), List.take_of_length_le (by omega)]

theorem drop_natLE_append (n v : Nat) (r : Bytes) : (natLE n v ++ r).drop n = r := by
  have h := natLE_length n v
  rw [List.drop_append_of_le_length (by omega)]
  simp [List.drop_eq_nil_of_le, h]

/-! ### sizes -/

variable {G : Type} [AddCommGroup G] {C : Ctx G}

theorem Laws.no8 (L : Laws C) : 8 * C.no = 2 * C.l := by
  have := L.l_mod
  unfold Ctx.no
  omega

theorem Laws.W_eq (L : Laws C) : C.W = 2 ^ (2 * C.l) := by
  unfold Ctx.W
  rw [L.no8]

theorem Laws.pow256 (L : Laws C) : 256 ^ C.no = 2 ^ (2 * C.l) := by
  have : (256 : Nat) = 2 ^ 8 := by decide
  rw [this, ← Nat.pow_mul, L.no8]

theorem Laws.pow256h (L : Laws C) : 256 ^ (C.no / 2) = 2 ^ C.l := by
  have : (256 : Nat) = 2 ^ 8 := by decide
  have h : 8 * (C.no / 2) = C.l := by
    have := L.l_mod
    unfold Ctx.no
    omega
  rw [this, ← Nat.pow_mul, h]

theorem Laws.q_lt_W (L : Laws C) : C.q < C.W := by
  rw [L.W_eq]; exact L.q_hi

theorem Laws.W_lt_2q (L : Laws C) : C.W < 2 * C.q := by
  rw [L.W_eq]
  have h := L.q_lo
  have hl := L.l_pos
  have : 2 ^ (2 * C.l) = 2 * 2 ^ (2 * C.l - 1) := by
    rw [← Nat.pow_succ']
    congr 1
    omega
  omega

theorem Laws.q_pos (L : Laws C) : 0 < C.q := L.q_prime.pos

/-! ### the modular steps inside their preconditions -/

theorem subMod_eq {W a b q : Nat} (ha : a < q) (hb : b < q) (hq : q < W) :
    subMod W a b q = (a + (q - b)) % q := by
  unfold subMod
  split
  · have h1 : a + W - b + q = (a + (q - b)) + W := by omega
    rw [h1, Nat.add_mod_right, Nat.mod_eq_of_lt (by omega), Nat.mod_eq_of_lt (by omega)]
  · have h1 : a + (q - b) = (a - b) + q := by omega
    rw [h1, Nat.add_mod_right, Nat.mod_eq_of_lt (by omega)]

theorem addMod_eq {W a b q : Nat} (ha : a < q) (hb : b < q) (hq : q < W) (hW : W < 2 * q) :
    addMod W a b q = (a + b) % q := by
  unfold addMod
  simp only
  by_cases h : a + b ≥ W
  · have hc : (a + b) % W = a + b - W := by
      rw [Nat.mod_eq_sub_mod h, Nat.mod_eq_of_lt (by omega)]
    rw [if_pos (Or.inl h), hc]
    have h2 : a + b - W + W - q = a + b - q := by omega
    rw [h2, Nat.mod_eq_of_lt (by omega)]
    have : a + b = (a + b - q) + q := by omega
    conv_rhs => rw [this, Nat.add_mod_right]
    exact (Nat.mod_eq_of_lt (by omega)).symm
  · have hc : (a + b) % W = a + b := Nat.mod_eq_of_lt (by omega)
    rw [hc]
    by_cases h' : a + b ≥ q
    · rw [if_pos (Or.inr h')]
      have h2 : a + b + W - q = (a + b - q) + W := by omega
      rw [h2, Nat.add_mod_right, Nat.mod_eq_of_lt (by omega)]
      have : a + b = (a + b - q) + q := by omega
      conv_rhs => rw [this, Nat.add_mod_right]
      exact (Nat.mod_eq_of_lt (by omega)).symm
    · have hn : ¬ (a + b ≥ W ∨ a + b ≥ q) := by omega
      rw [if_neg hn]
      exact (Nat.mod_eq_of_lt (by omega)).symm

theorem redOnce_eq {h q W : Nat} (hh : h < W) (hW : W < 2 * q) : redOnce h q = h % q := by
  unfold redOnce
  split
  · rw [Nat.mod_eq_sub_mod (by omega), Nat.mod_eq_of_lt (by omega)]
  · exact (Nat.mod_eq_of_lt (by omega)).symm

theorem negMod_eq {a q : Nat} (ha : a < q) : negMod a q = (q - a) % q := by
  unfold negMod
  split
  · have : a = 0 := by omega
    subst this; simp
  · exact (Nat.mod_eq_of_lt (by omega)).symm

/-! ### multiples of the base point -/

theorem Laws.nsmul_mod (L : Laws C) (n : Nat) : (n % C.q) • C.base = n • C.base := by
  conv_rhs => rw [← Nat.mod_add_div n C.q]
  have : C.q • C.base = 0 := (L.order C.q).2 (dvd_refl _)
  rw [add_nsmul, mul_nsmul, this, nsmul_zero, add_zero]

theorem Laws.nsmul_congr (L : Laws C) {a b : Nat} (h : a % C.q = b % C.q) : a • C.base = b • C.base := by
  rw [← L.nsmul_mod a, ← L.nsmul_mod b, h]

theorem Laws.base_mul_ne (L : Laws C) {d : Nat} (h0 : 0 < d) (hq : d < C.q) : d • C.base ≠ 0 := by
  intro h
  have := Nat.le_of_dvd h0 ((L.order d).1 h)
  omega

theorem Laws.mul_mul_ne (L : Laws C) {d k : Nat} (h0 : 0 < d) (hq : d < C.q) (k0 : 0 < k) (kq : k < C.q) :
    d • (k • C.base) ≠ 0 := by
  intro h
  rw [← mul_nsmul'] at h
  have hd := (L.order _).1 h
  rcases (Nat.Prime.dvd_mul L.q_prime).1 hd with h1 | h1
  · have := Nat.le_of_dvd h0 h1; omega
  · have := Nat.le_of_dvd k0 h1; omega

/-- a non-zero element multiplied by a scalar in [1, q-1] stays non-zero -/
theorem Laws.nsmul_ne (L : Laws C) {P : G} (hP : P ≠ 0) {d : Nat} (h0 : 0 < d) (hq : d < C.q) : d • P ≠ 0 := by
  obtain ⟨n, rfl⟩ := L.gen P
  intro h
  rw [← mul_nsmul'] at h
  have hd := (L.order _).1 h
  rcases (Nat.Prime.dvd_mul L.q_prime).1 hd with h1 | h1
  · have := Nat.le_of_dvd h0 h1; omega
  · exact hP ((L.order n).2 h1)

theorem Laws.xy_some (L : Laws C) {P : G} (hP : P ≠ 0) : ∃ x y, C.xy P = some (x, y) := by
  cases h : C.xy P with
  | none => exact absurd ((L.xy_none P).1 h) hP
  | some v => exact ⟨v.1, v.2, rfl⟩

theorem Laws.ne_of_xy (L : Laws C) {P : G} {v : Nat × Nat} (h : C.xy P = some v) : P ≠ 0 := by
  intro h0
  rw [(L.xy_none P).2 h0] at h
  cases h

/-- decoding an encoded affine point (coordinates < p < 256^no) -/
theorem Laws.loadPub_encXY (L : Laws C) {P : G} {x y : Nat} (h : C.xy P = some (x, y)) :
    loadPub C (encXY C (x, y)) = some P := by
  obtain ⟨hx, hy⟩ := L.xy_lt P x y h
  have hp := L.p_hi
  unfold loadPub encXY
  simp only [take_natLE_append, drop_natLE_append]
  rw [leNat_natLE_of_lt (by rw [L.pow256]; omega), leNat_natLE_of_lt (by rw [L.pow256]; omega)]
  rw [if_neg (by omega)]
  exact L.ofXY_xy P x y h

omit [AddCommGroup G] in
theorem encXY_length (C : Ctx G) (v : Nat × Nat) : (encXY C v).length = 2 * C.no := by
  simp [encXY, natLE_length]; omega

end Bee2V.C02

namespace Bee2V.C02
variable {G : Type} [AddCommGroup G] {C : Ctx G}

omit [AddCommGroup G] in
theorem theta_length (C : Ctx G) (x : Nat) : (theta C x).length = min 32 C.no := by
  simp [theta, natLE_length]

omit [AddCommGroup G] in
theorem hashL_length (hl : ∀ m, (C.hash m).length = 32) (h : C.no / 2 ≤ 32) (m : Bytes) :
    (hashL C m).length = C.no / 2 := by
  simp [hashL, hl]; omega

theorem Laws.no_half_le (L : Laws C) : C.no / 2 ≤ 32 := by
  have := L.l_le
  unfold Ctx.no
  omega

theorem Laws.hashL_len (L : Laws C) (m : Bytes) : (hashL C m).length = C.no / 2 :=
  hashL_length L.hash_len L.no_half_le m

theorem Laws.no_even (L : Laws C) : C.no / 2 + C.no / 2 = C.no := by
  have := L.l_mod
  unfold Ctx.no
  omega

end Bee2V.C02

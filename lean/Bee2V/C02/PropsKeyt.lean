/-
C02 — property theorems of the key transport (bign_keyt.c): bignKeyWrap / bignKeyUnwrap.
Helpers are in LemmasKeyt.lean; every theorem of this file is an obligation.
-/
import Bee2V.C02.LemmasKeyt
namespace Bee2V.C02
variable {G : Type} [AddCommGroup G] {C : Ctx G}

/-- Unwrap(Wrap(key)) = key for every private key in [1, q-1], every key of at least 16 octets,
every header (NULL or 16 octets) and every generator tape; the NULL header and the all-zero header
are interchangeable on the unwrap side -/
theorem keywrap_roundtrip (L : Laws C) {d : Nat} (hd0 : 0 < d) (hdq : d < C.q)
    (key : Bytes) (hk : 16 ≤ key.length) (header : Option Bytes)
    (hh : (hdrOctets header).length = 16) (tape : Bytes) :
    match randNZMod C tape with
    | (none, rest) => keyWrap C key header (pubOf C d) tape = (.badRng, [], rest)
    | (some _, rest) => ∃ token, keyWrap C key header (pubOf C d) tape = (.ok, token, rest) ∧
        token.length = C.no + key.length + 16 ∧
        ∀ header', hdrOctets header' = hdrOctets header →
          keyUnwrap C token header' (natLE C.no d) = (.ok, key) := by
  have hQ0 : d • C.base ≠ 0 := L.base_mul_ne hd0 hdq
  obtain ⟨xQ, yQ, hQ⟩ := L.xy_some hQ0
  have hpub : pubOf C d = encXY C (xQ, yQ) := by
    simp only [pubOf, L.smul_eq, hQ]
  have hload : loadPub C (pubOf C d) = some (d • C.base) := by
    rw [hpub]; exact L.loadPub_encXY hQ
  split
  · rename_i rest hr
    exact keyt_wrap_rng C header _ hk hr
  · rename_i k rest hr
    obtain ⟨hk0, hkq⟩ := keyt_randNZMod_range C hr
    obtain ⟨xT, yT, hT⟩ := L.xy_some (L.nsmul_ne hQ0 hk0 hkq)
    obtain ⟨xR, yR, hR⟩ := L.xy_some (L.base_mul_ne hk0 hkq)
    refine ⟨_, keyt_wrap_some L hk hr hload hT hR, ?_, ?_⟩
    · have h32 : 32 ≤ (key ++ hdrOctets header).length := by rw [List.length_append]; omega
      simp only [List.length_append, natLE_length, L.kwp_len _ _ h32, hh]
      omega
    · intro header' he
      exact keyt_unwrap_wrap L hd0 hdq hR hT key _ hk hh header' he

/-- the acceptance set of bignKeyUnwrap: token long enough, private key in range, x-coordinate < p
and decompressible, and the unprotected trailer equals the header (NULL = zeros) -/
theorem keyunwrap_exact (L : Laws C) (token : Bytes) (header : Option Bytes) (priv key : Bytes) :
    keyUnwrap C token header priv = (.ok, key) ↔
      32 + C.no ≤ token.length ∧ 0 < leNat priv ∧ leNat priv < C.q ∧
      leNat (token.take C.no) < C.p ∧
      ∃ R T, C.liftX (leNat (token.take C.no)) = some R ∧ C.xy (leNat priv • R) = some T ∧
        C.kwpD (theta C T.1) ((token.drop C.no).take (token.length - C.no - 16))
            ((token.drop C.no).drop (token.length - C.no - 16)) = (key, hdrOctets header) := by
  constructor
  · intro h
    by_cases h1 : token.length < 32 + C.no
    · rw [keyt_unwrap_short C header priv h1] at h; cases h
    have h1' : 32 + C.no ≤ token.length := by omega
    cases h2 : privOk C (leNat priv) with
    | false => rw [keyt_unwrap_priv C header h1' h2] at h; cases h
    | true =>
      obtain ⟨hd0, hdq⟩ := (keyt_privOk C _).1 h2
      by_cases h4 : C.p ≤ leNat (token.take C.no)
      · rw [keyt_unwrap_p C header h1' h2 h4] at h; cases h
      have h4' : leNat (token.take C.no) < C.p := by omega
      cases h5 : C.liftX (leNat (token.take C.no)) with
      | none => rw [keyt_unwrap_lift C header h1' h2 h4' h5] at h; cases h
      | some R =>
        obtain ⟨y, hy⟩ := L.liftX_x _ _ h5
        obtain ⟨xT, yT, h6⟩ := L.xy_some (L.nsmul_ne (L.ne_of_xy hy) hd0 hdq)
        rw [keyt_unwrap_some L h1' h2 h4' h5 h6] at h
        refine ⟨h1', hd0, hdq, h4', R, (xT, yT), rfl, h6, ?_⟩
        split at h
        · rename_i hc
          simp only [Prod.mk.injEq, true_and] at h
          exact Prod.ext h hc
        · cases h
  · rintro ⟨h1, hd0, hdq, h4, R, T, h5, h6, h7⟩
    rw [keyt_unwrap_some L h1 ((keyt_privOk C _).2 ⟨hd0, hdq⟩) h4 h5 h6, h7]
    simp only [↓reduceIte]

/-- under `Laws C` the code of bignKeyUnwrap is never ERR_BAD_PARAMS, and the order of the checks is
length, private key, token -/
theorem keyunwrap_codes (L : Laws C) (token : Bytes) (header : Option Bytes) (priv : Bytes) :
    (keyUnwrap C token header priv).1 =
      if token.length < 32 + C.no then Err.badKeytoken
      else if leNat priv = 0 ∨ C.q ≤ leNat priv then Err.badPrivkey
      else if (keyUnwrap C token header priv).1 = Err.ok then Err.ok else Err.badKeytoken := by
  by_cases h1 : token.length < 32 + C.no
  · rw [if_pos h1, keyt_unwrap_short C header priv h1]
  have h1' : 32 + C.no ≤ token.length := by omega
  rw [if_neg h1]
  by_cases h2 : leNat priv = 0 ∨ C.q ≤ leNat priv
  · rw [if_pos h2, keyt_unwrap_priv C header h1' ((keyt_privOk_false C _).2 h2)]
  rw [if_neg h2]
  have h2' : privOk C (leNat priv) = true := (keyt_privOk C _).2 (by omega)
  have hd : 0 < leNat priv ∧ leNat priv < C.q := by omega
  by_cases h4 : C.p ≤ leNat (token.take C.no)
  · rw [keyt_unwrap_p C header h1' h2' h4]; rfl
  have h4' : leNat (token.take C.no) < C.p := by omega
  cases h5 : C.liftX (leNat (token.take C.no)) with
  | none => rw [keyt_unwrap_lift C header h1' h2' h4' h5]; rfl
  | some R =>
    obtain ⟨y, hy⟩ := L.liftX_x _ _ h5
    obtain ⟨xT, yT, h6⟩ := L.xy_some (L.nsmul_ne (L.ne_of_xy hy) hd.1 hd.2)
    rw [keyt_unwrap_some L h1' h2' h4' h5 h6]
    split <;> rfl

/-- the order of the checks of bignKeyWrap: key length (the generator is not called), generator,
public key; under `Laws C` the code is never ERR_BAD_PARAMS -/
theorem keywrap_codes (L : Laws C) (key : Bytes) (header : Option Bytes) (pub tape : Bytes) :
    (keyWrap C key header pub tape).1 =
      if key.length < 16 then Err.badInput
      else match randNZMod C tape with
        | (none, _) => Err.badRng
        | (some _, _) => if (loadPub C pub).isNone then Err.badPubkey else Err.ok := by
  by_cases h1 : key.length < 16
  · rw [if_pos h1, keyt_wrap_short C header pub tape h1]
  have h1' : 16 ≤ key.length := by omega
  rw [if_neg h1]
  split
  · rename_i rest hr
    rw [keyt_wrap_rng C header pub h1' hr]
  · rename_i k rest hr
    obtain ⟨hk0, hkq⟩ := keyt_randNZMod_range C hr
    cases hp : loadPub C pub with
    | none => rw [keyt_wrap_pub C header h1' hr hp]; rfl
    | some Q =>
      have hQ := keyt_loadPub_ne L hp
      obtain ⟨xT, yT, hT⟩ := L.xy_some (L.nsmul_ne hQ hk0 hkq)
      obtain ⟨xR, yR, hR⟩ := L.xy_some (L.base_mul_ne hk0 hkq)
      rw [keyt_wrap_some L h1' hr hp hT hR]
      rfl

end Bee2V.C02

/-
C02 — lemmas for the signature / key-pair theorems: the rejection loop, public keys, and the
modular algebra `s1 = k - H - (s0 + 2^l) d  ⇒  (s1 + H) + (s0 + 2^l) d ≡ k (mod q)`.
-/
import Mathlib.Data.ZMod.Basic
import Mathlib.Tactic.Ring
import Bee2V.C02.Lemmas
namespace Bee2V.C02

/-- every value produced by the rejection loop of zzRandNZMod lies in [1, q-1] -/
theorem sg_randLoop_range (no q : Nat) : ∀ (i : Nat) (tape : Bytes) (v : Nat) (rest : Bytes),
    randLoop no q i tape = (some v, rest) → 0 < v ∧ v < q := by
  intro i
  induction i with
  | zero => intro tape v rest h; simp [randLoop] at h
  | succ i ih =>
    intro tape v rest h
    simp only [randLoop] at h
    split at h
    · exact ih _ _ _ h
    · rename_i hc
      simp only [Prod.mk.injEq, Option.some.injEq] at h
      omega

/-! ### arithmetic modulo q -/

theorem sg_subQ_cast (q a b : Nat) (hq : 0 < q) : ((subQ q a b : ℕ) : ZMod q) = (a : ZMod q) - b := by
  have h1 : b % q ≤ q := (Nat.mod_lt _ hq).le
  unfold subQ
  rw [ZMod.natCast_mod]
  push_cast [Nat.cast_sub h1, ZMod.natCast_mod, ZMod.natCast_self]
  ring

theorem sg_subQ_lt (q a b : Nat) (hq : 0 < q) : subQ q a b < q := Nat.mod_lt _ hq

/-- equality of residues from equality in ZMod q -/
theorem sg_mod_eq_of_cast {q a b : Nat} (h : (a : ZMod q) = (b : ZMod q)) : a % q = b % q :=
  (ZMod.natCast_eq_natCast_iff' a b q).1 h

theorem sg_subQ_comm (q k a b : Nat) (hq : 0 < q) : subQ q (subQ q k a) b = subQ q (subQ q k b) a := by
  have h1 := sg_subQ_lt q (subQ q k a) b hq
  have h2 := sg_subQ_lt q (subQ q k b) a hq
  have := sg_mod_eq_of_cast (q := q) (a := subQ q (subQ q k a) b) (b := subQ q (subQ q k b) a) (by
    rw [sg_subQ_cast _ _ _ hq, sg_subQ_cast _ _ _ hq, sg_subQ_cast _ _ _ hq, sg_subQ_cast _ _ _ hq]; ring)
  rwa [Nat.mod_eq_of_lt h1, Nat.mod_eq_of_lt h2] at this

/-- the verifier's scalar: `((k - H - u d) + H) + u d ≡ k` -/
theorem sg_key_cong (q k H ud : Nat) (hq : 0 < q) :
    ((subQ q (subQ q k H) ud + H % q) % q + ud) % q = k % q := by
  apply sg_mod_eq_of_cast
  push_cast [ZMod.natCast_mod]
  rw [sg_subQ_cast _ _ _ hq, sg_subQ_cast _ _ _ hq]
  ring

variable {G : Type} [AddCommGroup G] {C : Ctx G}

/-- `signS1` (zzMul, zzAdd, zzMod, zzSubMod, zzSubMod with the hash reduced once) is the standard's
`(k - H - (s0 + 2^l) d) mod q` -/
theorem sg_signS1_eq (L : Laws C) {s0 d k : Nat} (hk : k < C.q) {Hb : Bytes} (hH : Hb.length = C.no) :
    signS1 C s0 d k Hb = subQ C.q (subQ C.q k (leNat Hb)) ((s0 + 2 ^ C.l) * d) := by
  have hq := L.q_pos
  have hHW : leNat Hb < C.W := by
    have := leNat_lt Hb
    rw [hH, L.pow256, ← L.W_eq] at this
    exact this
  unfold signS1
  simp only
  have ht : (s0 * d + 2 ^ C.l * d) % C.q < C.q := Nat.mod_lt _ hq
  rw [subMod_eq hk ht L.q_lt_W, redOnce_eq hHW L.W_lt_2q]
  rw [subMod_eq (Nat.mod_lt _ hq) (Nat.mod_lt _ hq) L.q_lt_W]
  have e1 : (k + (C.q - (s0 * d + 2 ^ C.l * d) % C.q)) % C.q = subQ C.q k ((s0 + 2 ^ C.l) * d) := by
    unfold subQ
    rw [Nat.add_mul]
  have e2 : (subQ C.q k ((s0 + 2 ^ C.l) * d) + (C.q - leNat Hb % C.q)) % C.q
      = subQ C.q (subQ C.q k ((s0 + 2 ^ C.l) * d)) (leNat Hb) := by
    unfold subQ
    rfl
  rw [e1, e2, sg_subQ_comm _ _ _ _ hq]

/-! ### public keys -/

theorem sg_pubOf (L : Laws C) {d : Nat} (h0 : 0 < d) (hq : d < C.q) :
    ∃ x y, C.xy (d • C.base) = some (x, y) ∧ pubOf C d = encXY C (x, y) ∧
      loadPub C (pubOf C d) = some (d • C.base) := by
  obtain ⟨x, y, hxy⟩ := L.xy_some (L.base_mul_ne h0 hq)
  refine ⟨x, y, hxy, ?_, ?_⟩
  · unfold pubOf; rw [L.smul_eq, hxy]
  · unfold pubOf; rw [L.smul_eq, hxy]; exact L.loadPub_encXY hxy

theorem sg_leNat_priv (L : Laws C) {d : Nat} (hq : d < C.q) : leNat (natLE C.no d) = d := by
  apply leNat_natLE_of_lt
  rw [L.pow256]
  exact Nat.lt_trans hq L.q_hi

end Bee2V.C02

import Bee2V.Gen.C03F32
/-!
# bash-f as bash_f32.c computes it (BASH_32 build): second code-shaped model

Every 64-bit word of the state is kept as a pair of u32 halves.  `bashF` (octet function) first
*interleaves* every word (`u32x2Inter`: even bits -> half 0, odd bits -> half 1, computed with the
delta-swap network `u32Deshuffle`), runs `bashF0` on the interleaved halves (a 64-bit rotation becomes
two 32-bit rotations, `u32x2RotHi`), and de-interleaves (`u32x2Deinter`, `u32Shuffle`).

Everything that carries a constant, an operator or an index comes from `Bee2V.Gen.C03F32`
(regenerated from bash_f32.c / u32.c on every run): the bodies of `u32Shuffle`, `u32Deshuffle`,
`u32x2Inter`, `u32x2Deinter`, `u32x2RotHi`, the `bashS` template and the 24 `rounds`.
This file only adds the in-place execution on a 24-cell array (same shape as `Bee2V.C03.bashF0`)
and the octet interface of `bashF` on a little-endian host.  Mathlib-free, executable.
-/
namespace Bee2V.C03.F32
open Bee2V.Gen.C03F32

/-- `u32 w[2]` -/
abbrev W2 := UInt32 × UInt32
/-- `u32 s[3][8][2]`, cell (i,j) at index 8*i+j -/
abbrev State32 := Vector W2 24

/-- `u32x2Inter(w)` -/
def inter (p : W2) : W2 := u32x2Inter p.1 p.2
/-- `u32x2Deinter(w)` -/
def deinter (p : W2) : W2 := u32x2Deinter p.1 p.2
/-- `u32x2RotHi(t, w, m)` -/
def rotHi32x2 (p : W2) (m : Nat) : W2 := u32x2RotHi p.1 p.2 m

/-- one expanded `bashS(s[i0], s[i1], s[i2], m1, n1, m2, n2)` line, in place -/
def applyS (l : SLine) (s : State32) : State32 :=
  let r := bashS l.m1 l.n1 l.m2 l.n2 s[l.i0].1 s[l.i0].2 s[l.i1].1 s[l.i1].2 s[l.i2].1 s[l.i2].2
  ((s.set l.i0 r.1).set l.i1 r.2.1).set l.i2 r.2.2

/-- one `bashR(sK); bashC(sK', i)` -/
def applyR (r : Round) (s : State32) : State32 :=
  let s := r.lines.foldl (fun s l => applyS l s) s
  s.set r.xc (s[r.xc].1 ^^^ r.c0, s[r.xc].2 ^^^ r.c1)

/-- `bashF0(u32 s[3][8][2], stack)` of bash_f32.c -/
def bashF0_32 (s : State32) : State32 := rounds.foldl (fun s r => applyR r s) s

/-! ## word interface: a u64 word seen as `u32[2]` on a little-endian host -/

/-- `(u32*)&w`: low half, high half -/
def split (w : UInt64) : W2 := (w.toUInt32, (w >>> 32).toUInt32)
/-- inverse of `split` -/
def pack (p : W2) : UInt64 := p.1.toUInt64 ||| (p.2.toUInt64 <<< 32)

/-- the first double loop of `bashF`: `u32x2Inter` on each of the 24 words -/
def interAll (s : Vector UInt64 24) : State32 := s.map fun w => inter (split w)
/-- the second double loop of `bashF`: `u32x2Deinter` on each of the 24 words -/
def deinterAll (s : State32) : Vector UInt64 24 := s.map fun p => pack (deinter p)

/-! ## octet interface: `bashF(octet block[192], stack)`, `(u32(*)[3][8][2])block`, little-endian -/

def loadU32 (b : List UInt8) : UInt32 :=
  b.foldr (fun x acc => x.toUInt32 ||| (acc <<< 8)) 0

def storeU32 (w : UInt32) : List UInt8 :=
  (List.range 4).map fun i => (w >>> (8 * i).toUInt32).toUInt8

/-- word (i,j) = cell k = 8i+j: half h is the u32 at octet offset 8k + 4h -/
def toPairs (b : List UInt8) : State32 :=
  Vector.ofFn fun k : Fin 24 =>
    (loadU32 ((b.drop (8 * k.val)).take 4), loadU32 ((b.drop (8 * k.val + 4)).take 4))

def ofPairs (s : State32) : List UInt8 :=
  s.toList.flatMap fun p => storeU32 p.1 ++ storeU32 p.2

/-- `bashF` of bash_f32.c on octets -/
def bashF32 (b : List UInt8) : List UInt8 :=
  ofPairs ((bashF0_32 ((toPairs b).map inter)).map deinter)

end Bee2V.C03.F32

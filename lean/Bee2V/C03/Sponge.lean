import Bee2V.C03.BashF
/-!
# bash_hash.c and bash_prg.c — executable, code-shaped models

`bashHashStepH`, `bashPrgAbsorbStep`, `bashPrgSqueezeStep`, `bashPrgEncrStep`, `bashPrgDecrStep` are five
textual copies of ONE buffering skeleton (early return when the request fits into the buffer; fill up +
bashF; loop over full blocks; tail with `pos = count`) that differ only in the per-octet action on
(state octet, data octet).  `stepGen` is that skeleton, `opAt` is the `memCopy`/`memXor2` pair(s) of one
segment at octet granularity.  The sponge function is a parameter `F` (instantiated with `bashF`), so that
the buffering theorems hold for any `F`.
-/
namespace Bee2V.C03
open Bee2V.Gen.C03

abbrev Bytes := List UInt8

/-- per-octet action: (state octet, data octet) ↦ (new state octet, output octet) -/
abbrev OpB := UInt8 → UInt8 → UInt8 × UInt8

/-- `memCopy(st->s + pos, buf, n)` (hash absorb) -/
def copyOp : OpB := fun _ d => (d, 0)
/-- `memXor2(st->s + pos, buf, n)` (automaton absorb) -/
def xorOp : OpB := fun b d => (b ^^^ d, 0)
/-- `memCopy(buf, st->s + pos, n)` (squeeze; the data octet is the old content of `buf`, unused) -/
def sqzOp : OpB := fun b _ => (b, b)
/-- `memXor2(st->s + pos, buf, n); memCopy(buf, st->s + pos, n)` (encrypt) -/
def encOp : OpB := fun b d => let b' := b ^^^ d; (b', b')
/-- `memXor2(buf, st->s + pos, n); memXor2(st->s + pos, buf, n)` (decrypt) -/
def decOp : OpB := fun b d => let d' := d ^^^ b; (b ^^^ d', d')

/-- the action on one segment `s[pos .. pos+|data|)`; returns the new state octets and the output -/
def opAt (op : OpB) : Bytes → Nat → Bytes → Bytes × Bytes
  | s, _, [] => (s, [])
  | s, pos, d :: ds =>
    let r := op (s.getD pos 0) d
    let q := opAt op (s.set pos r.1) (pos + 1) ds
    (q.1, r.2 :: q.2)

/-- sponge part of `bash_hash_st` / `bash_prg_st` -/
structure Sp where
  s : Bytes          -- octet s[192]
  bufLen : Nat
  pos : Nat
  deriving Repr, DecidableEq

/-- `while (count >= st->buf_len) { <op on s[0..buf_len)>; buf += buf_len; count -= buf_len; bashF(st->s); }` -/
def fullLoop (F : Bytes → Bytes) (op : OpB) (bufLen : Nat) (s : Bytes) (data : Bytes) : Bytes × Bytes × Bytes :=
  if _h : 0 < bufLen ∧ bufLen ≤ data.length then
    let q := opAt op s 0 (data.take bufLen)
    let r := fullLoop F op bufLen (F q.1) (data.drop bufLen)
    (r.1, r.2.1, q.2 ++ r.2.2)
  else (s, data, [])
termination_by data.length
decreasing_by simp only [List.length_drop]; omega

/-- the common skeleton of the five `…Step` functions -/
def stepGen (F : Bytes → Bytes) (op : OpB) (data : Bytes) (st : Sp) : Sp × Bytes :=
  if data.length < st.bufLen - st.pos then
    let q := opAt op st.s st.pos data
    ({ st with s := q.1, pos := st.pos + data.length }, q.2)
  else
    let n := st.bufLen - st.pos
    let q := opAt op st.s st.pos (data.take n)
    let r := fullLoop F op st.bufLen (F q.1) (data.drop n)
    let t := if r.2.1.length ≠ 0 then opAt op r.1 0 r.2.1 else (r.1, [])
    ({ st with s := t.1, pos := r.2.1.length }, q.2 ++ r.2.2 ++ t.2)

def zeros (n : Nat) : Bytes := List.replicate n 0

/-! ## bash_hash.c -/

/-- `bashHashStart(state, l)` -/
def hashStart (l : Nat) : Sp :=
  { s := (zeros 192).set (192 - 8) (UInt8.ofNat (l / 4)), bufLen := 192 - l / 2, pos := 0 }

/-- `bashHashStepH(buf, count, state)` -/
def hashStepH (F : Bytes → Bytes) (buf : Bytes) (st : Sp) : Sp := (stepGen F copyOp buf st).1

/-- `bashHashStepG_internal` + `memMove(hash, st->s1, hash_len)` -/
def hashStepG (F : Bytes → Bytes) (hashLen : Nat) (st : Sp) : Bytes :=
  let s1 := st.s
  let s1 :=
    if st.pos ≠ 0 then
      ((opAt copyOp s1 st.pos (zeros (st.bufLen - st.pos))).1).set st.pos 0x40
    else
      ((opAt copyOp s1 0 (zeros st.bufLen)).1).set 0 0x40
  (F s1).take hashLen

/-! ## bash_prg.c -/

structure PrgSt where
  l : Nat
  d : Nat
  sp : Sp
  t : Bytes          -- octet t[192], scratch of ratchet
  deriving Repr, DecidableEq

/-- `bashPrgCommit(code, state)` -/
def prgCommit (F : Bytes → Bytes) (code : UInt8) (st : PrgSt) : PrgSt :=
  let s := st.sp.s.set st.sp.pos (st.sp.s.getD st.sp.pos 0 ^^^ code)
  let s := s.set st.sp.bufLen (s.getD st.sp.bufLen 0 ^^^ 0x80)
  { st with sp := { st.sp with s := F s, pos := 0 } }

/-- `bashPrgStart(state, l, d, ann, ann_len, key, key_len)` -/
def prgStart (l d : Nat) (ann key : Bytes) : PrgSt :=
  let pos := 1 + ann.length + key.length
  let s := UInt8.ofNat (ann.length * 4 + key.length / 4) :: (ann ++ key ++ zeros (192 - pos))
  let s := s.set (192 - 8) (UInt8.ofNat (l / 4 + d))
  { l := l, d := d, t := zeros 192,
    sp := { s := s, pos := pos,
            bufLen := if key.length ≠ 0 then 192 - l * (2 + d) / 16 else 192 - d * l / 4 } }

/-- `bashPrgRestart(ann, ann_len, key, key_len, state)` -/
def prgRestart (F : Bytes → Bytes) (ann key : Bytes) (st : PrgSt) : PrgSt :=
  let st :=
    if key.length ≠ 0 then
      let st := prgCommit F codeKey st
      { st with sp := { st.sp with bufLen := 192 - st.l * (2 + st.d) / 16 } }
    else prgCommit F codeNull st
  let s := st.sp.s.set 0 (st.sp.s.getD 0 0 ^^^ UInt8.ofNat (ann.length * 4 + key.length / 4))
  let s := (opAt xorOp s 1 ann).1
  let s := (opAt xorOp s (1 + ann.length) key).1
  { st with sp := { st.sp with s := s, pos := 1 + ann.length + key.length } }

def prgAbsorbStart (F : Bytes → Bytes) (st : PrgSt) : PrgSt := prgCommit F codeData st
def prgAbsorbStep (F : Bytes → Bytes) (buf : Bytes) (st : PrgSt) : PrgSt :=
  { st with sp := (stepGen F xorOp buf st.sp).1 }
def prgAbsorb (F : Bytes → Bytes) (buf : Bytes) (st : PrgSt) : PrgSt := prgAbsorbStep F buf (prgAbsorbStart F st)

def prgSqueezeStart (F : Bytes → Bytes) (st : PrgSt) : PrgSt := prgCommit F codeOut st
/-- `buf` is the caller's buffer (its old content is irrelevant, its length is `count`) -/
def prgSqueezeStep (F : Bytes → Bytes) (buf : Bytes) (st : PrgSt) : PrgSt × Bytes :=
  let r := stepGen F sqzOp buf st.sp
  ({ st with sp := r.1 }, r.2)
def prgSqueeze (F : Bytes → Bytes) (buf : Bytes) (st : PrgSt) : PrgSt × Bytes :=
  prgSqueezeStep F buf (prgSqueezeStart F st)

def prgEncrStart (F : Bytes → Bytes) (st : PrgSt) : PrgSt := prgCommit F codeText st
def prgEncrStep (F : Bytes → Bytes) (buf : Bytes) (st : PrgSt) : PrgSt × Bytes :=
  let r := stepGen F encOp buf st.sp
  ({ st with sp := r.1 }, r.2)
def prgEncr (F : Bytes → Bytes) (buf : Bytes) (st : PrgSt) : PrgSt × Bytes := prgEncrStep F buf (prgEncrStart F st)

def prgDecrStart (F : Bytes → Bytes) (st : PrgSt) : PrgSt := prgCommit F codeTextDecr st
def prgDecrStep (F : Bytes → Bytes) (buf : Bytes) (st : PrgSt) : PrgSt × Bytes :=
  let r := stepGen F decOp buf st.sp
  ({ st with sp := r.1 }, r.2)
def prgDecr (F : Bytes → Bytes) (buf : Bytes) (st : PrgSt) : PrgSt × Bytes := prgDecrStep F buf (prgDecrStart F st)

/-- `bashPrgRatchet(state)` -/
def prgRatchet (F : Bytes → Bytes) (st : PrgSt) : PrgSt :=
  let t := st.sp.s
  let st := prgCommit F codeRatchet { st with t := t }
  { st with sp := { st.sp with s := (opAt xorOp st.sp.s 0 t).1 } }

/-- `bashPrgIsKeymode(state)` -/
def prgIsKeymode (st : PrgSt) : Bool := 16 * (192 - st.sp.bufLen) == st.l * (2 + st.d)

end Bee2V.C03

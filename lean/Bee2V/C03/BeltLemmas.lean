/-
Lemmas about the belt-hash / belt-HMAC model of `Bee2V.C03.Belt` (core tactics only, no Mathlib).

Main results (for every state with `filled < 32`, every input, EVERY length — no bound):
  hashStepH_append : hashStepH b (hashStepH a st) = hashStepH (a ++ b) st
  hashStepH_nil    : hashStepH [] st = st
  hashStepG_length : (hashStepG st).length = 32
  hashStart_WF, hashStepH_WF
  hmacStepA_append, hmacStepA_nil, hmacStepG_length, hmacStart_WF, hmacStepA_WF
Route: (1) `beltBlockAddBitSizeU32` is the exact addition of `8 * count` modulo 2^128
(`addBitSizeU32_toNat`), hence additive in `count`; (2) the body of StepH/StepA
(`stepCore`: filled-branch with early return, full-block loop, tail) equals the counter update
followed by a byte-at-a-time fold (`stepCore_eq_fold`); (3) `List.foldl_append`.
-/
import Bee2V.C03.Belt
namespace Bee2V.C03.Belt

/-! ### the bit-length counter -/
/-- one middle limb of beltBlockAddBitSizeU32 -/
def limb (x carry : UInt32) (t : Nat) : UInt32 × UInt32 :=
  let b1 := x + carry
  if b1 < carry then (UInt32.ofNat t, carry)
  else
    let b1 := b1 + UInt32.ofNat t
    (b1, if b1 < UInt32.ofNat t then 1 else 0)

theorem limb_spec (x carry : UInt32) (t : Nat) (hc : carry.toNat ≤ 1) :
    (limb x carry t).1.toNat + 2^32 * (limb x carry t).2.toNat = x.toNat + carry.toNat + t % 2^32
    ∧ (limb x carry t).2.toNat ≤ 1 := by
  unfold limb
  have hx := x.toNat_lt
  simp only [UInt32.lt_iff_toNat_lt, UInt32.toNat_add, UInt32.toNat_ofNat']
  split
  · simp only [UInt32.toNat_ofNat']
    omega
  · split
    · simp only [UInt32.toNat_add, UInt32.toNat_ofNat']
      have : (1 : UInt32).toNat = 1 := rfl
      omega
    · simp only [UInt32.toNat_add, UInt32.toNat_ofNat']
      have : (0 : UInt32).toNat = 0 := rfl
      omega

theorem addBitSizeU32_eq (blk : W4) (count : Nat) :
    addBitSizeU32 blk count =
      let carry : UInt32 := UInt32.ofNat count <<< 3
      let t := count >>> 29
      let b0 := blk.a + carry
      let c0 : UInt32 := if b0 < carry then 1 else 0
      let l1 := limb blk.b c0 t
      let t := t >>> 16 >>> 16
      let l2 := limb blk.c l1.2 t
      let t := t >>> 16 >>> 16
      ⟨b0, l1.1, l2.1, blk.d + l2.2 + UInt32.ofNat t⟩ := by
  rfl

def W4.toNat (w : W4) : Nat := w.a.toNat + 2^32 * w.b.toNat + 2^64 * w.c.toNat + 2^96 * w.d.toNat

theorem W4.toNat_inj {x y : W4} (h : x.toNat = y.toNat) : x = y := by
  cases x with | mk xa xb xc xd => cases y with | mk ya yb yc yd =>
  simp only [W4.toNat] at h
  have := xa.toNat_lt; have := xb.toNat_lt; have := xc.toNat_lt; have := xd.toNat_lt
  have := ya.toNat_lt; have := yb.toNat_lt; have := yc.toNat_lt; have := yd.toNat_lt
  have h1 : xa.toNat = ya.toNat := by omega
  have h2 : xb.toNat = yb.toNat := by omega
  have h3 : xc.toNat = yc.toNat := by omega
  have h4 : xd.toNat = yd.toNat := by omega
  rw [UInt32.toNat_inj.1 h1, UInt32.toNat_inj.1 h2, UInt32.toNat_inj.1 h3, UInt32.toNat_inj.1 h4]

theorem addBitSizeU32_toNat (w : W4) (n : Nat) :
    (addBitSizeU32 w n).toNat = (w.toNat + 8 * n) % 2^128 := by
  rw [addBitSizeU32_eq]
  simp only [W4.toNat]
  generalize hcarry : (UInt32.ofNat n <<< 3) = carry
  have hcv : carry.toNat = (8 * n) % 2^32 := by
    rw [← hcarry, UInt32.toNat_shiftLeft, UInt32.toNat_ofNat', Nat.shiftLeft_eq]
    have : (3 : UInt32).toNat % 32 = 3 := rfl
    rw [this]; omega
  generalize hc0 : (if w.a + carry < carry then (1 : UInt32) else 0) = c0
  have hb0 : (w.a + carry).toNat + 2^32 * c0.toNat = w.a.toNat + carry.toNat ∧ c0.toNat ≤ 1 := by
    have := w.a.toNat_lt; have := carry.toNat_lt
    rw [← hc0]; simp only [UInt32.lt_iff_toNat_lt, UInt32.toNat_add]
    split
    · have : (1 : UInt32).toNat = 1 := rfl
      omega
    · have : (0 : UInt32).toNat = 0 := rfl
      omega
  have e1 : n >>> 29 >>> 16 >>> 16 = n / 2^29 / 2^32 := by
    simp only [Nat.shiftRight_eq_div_pow, Nat.div_div_eq_div_mul]
  have e2 : n >>> 29 >>> 16 >>> 16 >>> 16 >>> 16 = n / 2^29 / 2^32 / 2^32 := by
    simp only [Nat.shiftRight_eq_div_pow, Nat.div_div_eq_div_mul]
  have e0 : n >>> 29 = n / 2^29 := by simp only [Nat.shiftRight_eq_div_pow]
  rw [e2, e1, e0]; clear e0 e1 e2
  have h1 := limb_spec w.b c0 (n / 2^29) hb0.2
  generalize limb w.b c0 (n / 2^29) = l1 at h1 ⊢
  have h2 := limb_spec w.c l1.2 (n / 2^29 / 2^32) h1.2
  generalize limb w.c l1.2 (n / 2^29 / 2^32) = l2 at h2 ⊢
  simp only [UInt32.toNat_add, UInt32.toNat_ofNat'] at h1 h2 ⊢
  have := w.d.toNat_lt; have := l1.1.toNat_lt; have := l2.1.toNat_lt
  have := w.a.toNat_lt; have := w.b.toNat_lt; have := w.c.toNat_lt
  have ht0 : 8 * n = 2^32 * (n / 2^29) + carry.toNat := by omega
  generalize n / 2^29 = t0 at *
  have ht1 : t0 = 2^32 * (t0 / 2^32) + t0 % 2^32 := by omega
  have hr0 : t0 % 2^32 < 2^32 := Nat.mod_lt _ (by decide)
  generalize t0 / 2^32 = t1 at *
  generalize t0 % 2^32 = r0 at *
  have ht2 : t1 = 2^32 * (t1 / 2^32) + t1 % 2^32 := by omega
  have hr1 : t1 % 2^32 < 2^32 := Nat.mod_lt _ (by decide)
  generalize t1 / 2^32 = t2 at *
  generalize t1 % 2^32 = r1 at *
  obtain ⟨hb0e, hc0⟩ := hb0
  obtain ⟨h1e, h1c⟩ := h1
  obtain ⟨h2e, h2c⟩ := h2
  rw [UInt32.toNat_add] at hb0e
  have hb0lt : (w.a.toNat + carry.toNat) % 2^32 < 2^32 := Nat.mod_lt _ (by decide)
  generalize (w.a.toNat + carry.toNat) % 2^32 = b0 at *
  generalize l1.1.toNat = x1 at *
  generalize l2.1.toNat = x2 at *
  generalize l1.2.toNat = c1 at *
  generalize l2.2.toNat = c2 at *
  generalize c0.toNat = c0 at *
  generalize carry.toNat = cr at *
  generalize w.a.toNat = wa at *
  generalize w.b.toNat = wb at *
  generalize w.c.toNat = wc at *
  generalize w.d.toNat = wd at *
  have key : b0 + 2^32 * x1 + 2^64 * x2 + 2^96 * (wd + c2 + t2) = wa + 2^32 * wb + 2^64 * wc + 2^96 * wd + 8 * n := by
    omega
  rw [← key]
  have hP : b0 + 2^32 * x1 + 2^64 * x2 < 2^96 := by omega
  clear key h1e h2e hb0e ht0 ht1 ht2 hcv
  generalize b0 + 2^32 * x1 + 2^64 * x2 = P at *
  omega

theorem W4.toNat_lt (w : W4) : w.toNat < 2^128 := by
  have := w.a.toNat_lt; have := w.b.toNat_lt; have := w.c.toNat_lt; have := w.d.toNat_lt
  simp only [W4.toNat]; omega

/-- the counter update is additive (exactly: both sides are `w + 8(a+b) mod 2^128`) -/
theorem addBitSizeU32_add (w : W4) (a b : Nat) :
    addBitSizeU32 (addBitSizeU32 w a) b = addBitSizeU32 w (a + b) := by
  apply W4.toNat_inj
  simp only [addBitSizeU32_toNat]
  omega

theorem addBitSizeU32_zero (w : W4) : addBitSizeU32 w 0 = w := by
  apply W4.toNat_inj
  have := w.toNat_lt
  rw [addBitSizeU32_toNat]; omega

/-! ### byte-at-a-time view of the absorbing loop -/

/-- absorb one octet: append to the partial block; a completed block is compressed -/
def absorbByte (p : W4 × W8 × List UInt8) (x : UInt8) : W4 × W8 × List UInt8 :=
  if (p.2.2 ++ [x]).length = 32 then
    ((compr2 p.1 p.2.1 (w8OfBytes (p.2.2 ++ [x]))).1, (compr2 p.1 p.2.1 (w8OfBytes (p.2.2 ++ [x]))).2, [])
  else (p.1, p.2.1, p.2.2 ++ [x])

theorem absorb_partial (buf : List UInt8) (s : W4) (h : W8) (block : List UInt8)
    (hl : block.length + buf.length < 32) :
    buf.foldl absorbByte (s, h, block) = (s, h, block ++ buf) := by
  induction buf generalizing block with
  | nil => simp
  | cons x t ih =>
    simp only [List.length_cons] at hl
    have h1 : absorbByte (s, h, block) x = (s, h, block ++ [x]) := by
      simp only [absorbByte, List.length_append, List.length_cons, List.length_nil]
      rw [if_neg (by omega)]
    rw [List.foldl_cons, h1, ih _ (by simp only [List.length_append, List.length_cons, List.length_nil]; omega)]
    simp

theorem absorb_complete (buf : List UInt8) (s : W4) (h : W8) (block : List UInt8)
    (hl : block.length + buf.length = 32) (hne : buf ≠ []) :
    buf.foldl absorbByte (s, h, block) =
      ((compr2 s h (w8OfBytes (block ++ buf))).1, (compr2 s h (w8OfBytes (block ++ buf))).2, []) := by
  induction buf generalizing block with
  | nil => exact absurd rfl hne
  | cons x t ih =>
    simp only [List.length_cons] at hl
    cases t with
    | nil =>
      simp only [List.length_nil] at hl
      simp only [List.foldl_cons, List.foldl_nil, absorbByte, List.length_append, List.length_cons,
        List.length_nil]
      rw [if_pos (by omega)]
    | cons y t' =>
      have h1 : absorbByte (s, h, block) x = (s, h, block ++ [x]) := by
        simp only [absorbByte, List.length_append, List.length_cons, List.length_nil]
        simp only [List.length_cons] at hl
        rw [if_neg (by omega)]
      rw [List.foldl_cons, h1, ih (block ++ [x])
        (by simp only [List.length_append, List.length_cons, List.length_nil] at hl ⊢; omega)
        (by simp)]
      simp

theorem absorb_blocksLoop (buf : List UInt8) (s : W4) (h : W8) :
    buf.foldl absorbByte (s, h, []) = blocksLoop buf s h := by
  fun_induction blocksLoop buf s h with
  | case1 buf s h hge r ih =>
    have hlen := (lenGE_iff buf 32).1 hge
    rw [← ih]
    conv => lhs; rw [← List.take_append_drop 32 buf]
    rw [List.foldl_append, absorb_complete (buf.take 32) s h []
      (by simp only [List.length_nil, List.length_take]; omega)
      (by intro hc; have := congrArg List.length hc; simp only [List.length_nil, List.length_take] at this; omega)]
    simp [r]
  | case2 buf s h hge =>
    have hlen : ¬ 32 ≤ buf.length := fun hc => hge ((lenGE_iff buf 32).2 hc)
    rw [absorb_partial buf s h [] (by simp; omega)]
    simp

theorem absorb_length (buf : List UInt8) (p : W4 × W8 × List UInt8) (hp : p.2.2.length < 32) :
    (buf.foldl absorbByte p).2.2.length < 32 := by
  induction buf generalizing p with
  | nil => simpa
  | cons x t ih =>
    rw [List.foldl_cons]
    apply ih
    simp only [absorbByte]
    split
    · simp
    · rename_i hne
      simp only [List.length_append, List.length_cons, List.length_nil] at hne ⊢
      omega

/-- `stepCore` = counter update, then the octets one at a time -/
theorem stepCore_eq_fold (buf : List UInt8) (ls h : W8) (block : List UInt8) (hb : block.length < 32) :
    stepCore buf ls h block =
      (⟨addBitSizeU32 ls.lo buf.length, (buf.foldl absorbByte (ls.hi, h, block)).1⟩,
       (buf.foldl absorbByte (ls.hi, h, block)).2.1,
       (buf.foldl absorbByte (ls.hi, h, block)).2.2) := by
  unfold stepCore
  simp only []
  split
  · rename_i hf
    split
    · rename_i hc
      rw [absorb_partial buf ls.hi h block (by omega)]
    · rename_i hc
      have hsplit : buf.foldl absorbByte (ls.hi, h, block) =
          blocksLoop (buf.drop (32 - block.length))
            (compr2 ls.hi h (w8OfBytes (block ++ buf.take (32 - block.length)))).1
            (compr2 ls.hi h (w8OfBytes (block ++ buf.take (32 - block.length)))).2 := by
        conv => lhs; rw [← List.take_append_drop (32 - block.length) buf]
        rw [List.foldl_append, absorb_complete (buf.take (32 - block.length)) ls.hi h block
          (by simp only [List.length_take]; omega)
          (by intro hc'; have := congrArg List.length hc'
              simp only [List.length_nil, List.length_take] at this; omega)]
        rw [absorb_blocksLoop]
      rw [hsplit]
      split
      · rfl
      · rename_i hz
        have : (blocksLoop (buf.drop (32 - block.length))
            (compr2 ls.hi h (w8OfBytes (block ++ buf.take (32 - block.length)))).1
            (compr2 ls.hi h (w8OfBytes (block ++ buf.take (32 - block.length)))).2).2.2 = [] :=
          List.length_eq_zero_iff.1 (by omega)
        rw [this]
  · rename_i hf
    have hnil : block = [] := List.length_eq_zero_iff.1 (by omega)
    subst hnil
    rw [absorb_blocksLoop]
    split
    · rfl
    · rename_i hz
      have : (blocksLoop buf ls.hi h).2.2 = [] := List.length_eq_zero_iff.1 (by omega)
      rw [this]

theorem stepCore_length (buf : List UInt8) (ls h : W8) (block : List UInt8) (hb : block.length < 32) :
    (stepCore buf ls h block).2.2.length < 32 := by
  rw [stepCore_eq_fold buf ls h block hb]
  exact absorb_length buf _ hb

theorem stepCore_nil (ls h : W8) (block : List UInt8) (hb : block.length < 32) :
    stepCore [] ls h block = (ls, h, block) := by
  rw [stepCore_eq_fold [] ls h block hb]
  simp only [List.length_nil, List.foldl_nil, addBitSizeU32_zero]

theorem stepCore_append (a b : List UInt8) (ls h : W8) (block : List UInt8) (hb : block.length < 32) :
    stepCore b (stepCore a ls h block).1 (stepCore a ls h block).2.1 (stepCore a ls h block).2.2
      = stepCore (a ++ b) ls h block := by
  rw [stepCore_eq_fold b _ _ _ (stepCore_length a ls h block hb)]
  rw [stepCore_eq_fold a ls h block hb, stepCore_eq_fold (a ++ b) ls h block hb]
  simp only [List.foldl_append, List.length_append, addBitSizeU32_add]

/-! ### the required statements -/

/-- well-formed hash state: `filled < 32` (the word vectors have fixed shape by construction) -/
def HashSt.WF (st : HashSt) : Prop := st.block.length < 32

/-- well-formed HMAC state: `filled < 32` -/
def HmacSt.WF (st : HmacSt) : Prop := st.block.length < 32

theorem hashStart_WF : hashStart.WF := by
  simp [HashSt.WF, hashStart]

theorem hashStepH_WF (buf : List UInt8) (st : HashSt) (h : st.WF) : (hashStepH buf st).WF :=
  stepCore_length buf st.ls st.h st.block h

theorem hashStepH_nil (st : HashSt) (h : st.WF) : hashStepH [] st = st := by
  simp only [hashStepH, stepCore_nil st.ls st.h st.block h]

/-- incremental hashing: feeding `a` then `b` is feeding `a ++ b` — for ALL lengths (the 128-bit
bit counter is exact modulo 2^128, so no length hypothesis is needed) -/
theorem hashStepH_append (st : HashSt) (h : st.WF) (a b : List UInt8) :
    hashStepH b (hashStepH a st) = hashStepH (a ++ b) st := by
  simp only [hashStepH, stepCore_append a b st.ls st.h st.block h]

theorem w8ToBytes_length (x : W8) : (w8ToBytes x).length = 32 := by
  simp [w8ToBytes, w4ToBytes, u32ToBytes]

theorem hashStepG_length (st : HashSt) : (hashStepG st).length = 32 :=
  w8ToBytes_length _

theorem hmacStart_WF (key : List UInt8) : (hmacStart key).WF := by
  simp [HmacSt.WF, hmacStart]

theorem hmacStepA_WF (buf : List UInt8) (st : HmacSt) (h : st.WF) : (hmacStepA buf st).WF :=
  stepCore_length buf st.ls_in st.h_in st.block h

theorem hmacStepA_nil (st : HmacSt) (h : st.WF) : hmacStepA [] st = st := by
  simp only [hmacStepA, stepCore_nil st.ls_in st.h_in st.block h]

theorem hmacStepA_append (st : HmacSt) (h : st.WF) (a b : List UInt8) :
    hmacStepA b (hmacStepA a st) = hmacStepA (a ++ b) st := by
  simp only [hmacStepA, stepCore_append a b st.ls_in st.h_in st.block h]

theorem hmacStepG_length (st : HmacSt) : (hmacStepG st).length = 32 :=
  w8ToBytes_length _

/-! ### non-vacuity of the hypotheses, and small corollaries -/

-- the counter really carries across all four words
example : addBitSizeU32 ⟨0xFFFFFFF8, 0xFFFFFFFF, 0xFFFFFFFF, 7⟩ 1 = ⟨0, 0, 0, 8⟩ := by decide
example : addBitSizeU32 W4.zero (2^61) = ⟨0, 0, 1, 0⟩ := by decide

example : (hashStepH [1, 2, 3] hashStart).WF := hashStepH_WF _ _ hashStart_WF
example : (hashStepH [1, 2, 3] hashStart).block = [1, 2, 3] := by
  simp [hashStepH, hashStart, stepCore_eq_fold, absorbByte]
example : hashStepH [4] (hashStepH [1, 2, 3] hashStart) = hashStepH [1, 2, 3, 4] hashStart :=
  hashStepH_append _ hashStart_WF _ _
example : (hmacStepA [1, 2, 3] (hmacStart [9, 9])).WF := hmacStepA_WF _ _ (hmacStart_WF _)
example : hmacStepA [4] (hmacStepA [1, 2, 3] (hmacStart [7])) = hmacStepA [1, 2, 3, 4] (hmacStart [7]) :=
  hmacStepA_append _ (hmacStart_WF _) _ _

/-- `beltHMACStepA` does not touch the outer-hash half of the state -/
@[simp] theorem hmacStepA_ls_out (buf : List UInt8) (st : HmacSt) : (hmacStepA buf st).ls_out = st.ls_out := rfl
@[simp] theorem hmacStepA_h_out (buf : List UInt8) (st : HmacSt) : (hmacStepA buf st).h_out = st.h_out := rfl

theorem hash_length (x : List UInt8) : (hash x).length = 32 := hashStepG_length _
theorem hmac_length (key x : List UInt8) : (hmac key x).length = 32 := hmacStepG_length _

/-- one-shot hash of a concatenation = incremental hashing of the parts -/
theorem hash_append (a b : List UInt8) :
    hash (a ++ b) = hashStepG (hashStepH b (hashStepH a hashStart)) := by
  rw [hash, hashStepH_append _ hashStart_WF]

theorem hmac_append (key a b : List UInt8) :
    hmac key (a ++ b) = hmacStepG (hmacStepA b (hmacStepA a (hmacStart key))) := by
  rw [hmac, hmacStepA_append _ (hmacStart_WF key)]

end Bee2V.C03.Belt

import Bee2V.C03.Brng
/-!
# brngBlockInc: `s ← s + 1 mod 2^256`, nothing outside the 32-octet block is touched — for every word size
-/
namespace Bee2V.C03
open Bee2V.Proto

theorem leNat_cons (b : UInt8) (bs : Bytes) : leNat (b :: bs) = b.toNat + 256 * leNat bs := rfl
theorem natLE_succ (n v : Nat) : natLE (n + 1) v = UInt8.ofNat (v % 256) :: natLE n (v / 256) := rfl

theorem natLE_length (n v : Nat) : (natLE n v).length = n := by
  induction n generalizing v with
  | zero => rfl
  | succ n ih => simp [natLE_succ, ih]

theorem leNat_lt (l : Bytes) : leNat l < 256 ^ l.length := by
  induction l with
  | nil => simp [leNat]
  | cons b bs ih =>
    have hb := b.toNat_lt
    simp only [leNat_cons, List.length_cons, Nat.pow_succ]
    generalize 256 ^ bs.length = P at *
    omega

theorem leNat_append (a b : Bytes) : leNat (a ++ b) = leNat a + 256 ^ a.length * leNat b := by
  induction a with
  | nil => simp [leNat]
  | cons x a ih =>
    simp only [List.cons_append, leNat_cons, ih, List.length_cons, Nat.pow_succ]
    rw [Nat.mul_add, ← Nat.mul_assoc, Nat.mul_comm 256 (256 ^ a.length)]
    omega

theorem natLE_leNat (l : Bytes) : natLE l.length (leNat l) = l := by
  induction l with
  | nil => rfl
  | cons b bs ih =>
    have hb := b.toNat_lt
    simp only [List.length_cons, natLE_succ, leNat_cons]
    have e1 : (b.toNat + 256 * leNat bs) % 256 = b.toNat := by omega
    have e2 : (b.toNat + 256 * leNat bs) / 256 = leNat bs := by omega
    rw [e1, e2, ih]
    simp

theorem natLE_add (n m v : Nat) : natLE (n + m) v = natLE n v ++ natLE m (v / 256 ^ n) := by
  induction n generalizing v with
  | zero => simp [natLE]
  | succ n ih =>
    rw [show n + 1 + m = (n + m) + 1 by omega, natLE_succ, natLE_succ, ih, Nat.div_div_eq_div_mul,
      Nat.pow_succ, Nat.mul_comm 256]
    rfl

theorem natLE_zero (n : Nat) : natLE n 0 = zeros n := by
  induction n with
  | zero => rfl
  | succ n ih => simp [natLE_succ, ih, zeros, List.replicate_succ]


theorem natLE_add_mul (n x y : Nat) : natLE n (x + 256 ^ n * y) = natLE n x := by
  induction n generalizing x y with
  | zero => rfl
  | succ n ih =>
    simp only [natLE_succ, Nat.pow_succ]
    have ih' := ih (x / 256) y
    have e0 : 256 ^ n * 256 * y = 256 * (256 ^ n * y) := by
      rw [Nat.mul_comm (256 ^ n) 256, Nat.mul_assoc]
    rw [e0]
    generalize 256 ^ n * y = z at ih' ⊢
    have e1 : (x + 256 * z) % 256 = x % 256 := by omega
    have e2 : (x + 256 * z) / 256 = x / 256 + z := by omega
    rw [e1, e2, ih']

theorem loadW_mid (wb i : Nat) (A B1 R : Bytes) (hA : A.length = wb * i) (hB : B1.length = wb) :
    loadW wb (A ++ B1 ++ R) i = leNat B1 := by
  unfold loadW
  rw [List.append_assoc, List.drop_left' hA, List.take_left' hB]

theorem storeW_mid (wb i v : Nat) (A B1 R : Bytes) (hA : A.length = wb * i) (hB : B1.length = wb) :
    storeW wb (A ++ B1 ++ R) i v = A ++ natLE wb v ++ R := by
  unfold storeW
  have h2 : (A ++ B1).length = wb * i + wb := by simp [hA, hB]
  rw [List.drop_left' h2, List.append_assoc A B1 R, List.take_left' hA, List.append_assoc]

/-- the word loop started at word `i` increments the number held in the remaining `m` words modulo
`256^(wb·m)` and touches nothing else -/
theorem incFrom_spec (wb : Nat) (hwb : 0 < wb) :
    ∀ (m i : Nat) (A B C : Bytes), i + m = 32 / wb → 0 < m → A.length = wb * i → B.length = wb * m →
      blockIncFrom wb (A ++ B ++ C) i = A ++ natLE (wb * m) ((leNat B + 1) % 256 ^ (wb * m)) ++ C := by
  intro m
  induction m with
  | zero => intro i A B C _ h; omega
  | succ m ih =>
    intro i A B C him _ hA hB
    have hB1 : (B.take wb).length = wb := by
      rw [List.length_take, hB, Nat.mul_succ]; omega
    have hB2 : (B.drop wb).length = wb * m := by
      rw [List.length_drop, hB, Nat.mul_succ]; omega
    have hsplit : B = B.take wb ++ B.drop wb := (List.take_append_drop _ _).symm
    have hmem : A ++ B ++ C = A ++ B.take wb ++ (B.drop wb ++ C) := by
      rw [List.append_assoc A (B.take wb), ← List.append_assoc (B.take wb), List.take_append_drop,
        List.append_assoc]
    have hlt := leNat_lt (B.take wb)
    rw [hB1] at hlt
    have hval : leNat B = leNat (B.take wb) + 256 ^ wb * leNat (B.drop wb) := by
      have := leNat_append (B.take wb) (B.drop wb)
      rw [List.take_append_drop, hB1] at this
      exact this
    have hpow : 256 ^ (wb * (m + 1)) = 256 ^ wb * 256 ^ (wb * m) := by
      rw [Nat.mul_succ, Nat.add_comm, Nat.pow_add]
    have hlt2 := leNat_lt (B.drop wb)
    rw [hB2] at hlt2
    have hP : 0 < 256 ^ wb := Nat.pow_pos (by decide)
    rw [blockIncFrom, hmem, loadW_mid wb i A _ _ hA hB1, storeW_mid wb i _ A _ _ hA hB1]
    rw [Nat.pow_mul, show (2 : Nat) ^ 8 = 256 by rfl]  -- 2^(8wb) = 256^wb
    rw [show wb * (m + 1) = wb + wb * m by rw [Nat.mul_succ, Nat.add_comm], natLE_add]
    split
    · -- the word wrapped and there is a next word
      rename_i hc
      obtain ⟨hv, hnext⟩ := hc
      have hm : 0 < m := by omega
      have hfull : leNat (B.take wb) + 1 = 256 ^ wb := by
        rcases Nat.dvd_of_mod_eq_zero hv with ⟨k, hk⟩  -- (x+1) % P = 0, x < P
        have hk1 : k = 1 := by
          rcases k with _ | _ | k
          · omega
          · rfl
          · rw [Nat.mul_add, Nat.mul_add] at hk; omega
        rw [hk1] at hk; omega
      have hA' : (A ++ natLE wb 0).length = wb * (i + 1) := by
        rw [List.length_append, natLE_length, hA, Nat.mul_succ]
      rw [hv]
      have e := ih (i + 1) (A ++ natLE wb 0) (B.drop wb) C (by omega) hm hA' hB2
      rw [show A ++ natLE wb 0 ++ (B.drop wb ++ C) = A ++ natLE wb 0 ++ B.drop wb ++ C by simp [List.append_assoc], e]
      have hsum : leNat B + 1 = 0 + 256 ^ wb * (leNat (B.drop wb) + 1) := by
        rw [hval, Nat.mul_add]; omega
      have hmod : (leNat B + 1) % (256 ^ wb * 256 ^ (wb * m))
          = 0 + 256 ^ wb * ((leNat (B.drop wb) + 1) % 256 ^ (wb * m)) := by
        rw [hsum, Nat.zero_add, Nat.zero_add, Nat.mul_mod_mul_left]
      rw [Nat.pow_add, hmod, natLE_add_mul, Nat.zero_add, Nat.mul_div_cancel_left _ hP]
      simp [List.append_assoc]
    · rename_i hc
      by_cases hv : (leNat (B.take wb) + 1) % 256 ^ wb = 0
      · -- wrapped in the last word
        have hm : m = 0 := by
          rcases Nat.eq_zero_or_pos m with h0 | hpos
          · exact h0
          · exact absurd ⟨hv, by omega⟩ hc
        subst hm
        have hnil : B.drop wb = [] := List.length_eq_zero_iff.mp (by rw [hB2, Nat.mul_zero])
        have hB' : leNat B = leNat (B.take wb) := by rw [hval, hnil]; simp [leNat]
        simp only [Nat.mul_zero, Nat.pow_zero, Nat.mul_one, Nat.add_zero, natLE, List.append_nil, hnil,
          List.nil_append, hB', hv]
      · have hsmall : leNat (B.take wb) + 1 < 256 ^ wb := by
          rcases Nat.lt_or_ge (leNat (B.take wb) + 1) (256 ^ wb) with h | h
          · exact h
          · have : leNat (B.take wb) + 1 = 256 ^ wb := by omega
            rw [this, Nat.mod_self] at hv; exact absurd rfl hv
        rw [Nat.mod_eq_of_lt hsmall]
        have hsum : leNat B + 1 = (leNat (B.take wb) + 1) + 256 ^ wb * leNat (B.drop wb) := by
          rw [hval]; omega
        have hlt3 : leNat B + 1 < 256 ^ wb * 256 ^ (wb * m) := by
          rw [hsum]
          have h1 : 256 ^ wb * (leNat (B.drop wb) + 1) ≤ 256 ^ wb * 256 ^ (wb * m) := Nat.mul_le_mul_left _ hlt2
          rw [Nat.mul_add] at h1
          omega
        rw [Nat.pow_add, Nat.mod_eq_of_lt hlt3, hsum, natLE_add_mul]
        have hdiv : (leNat (B.take wb) + 1 + 256 ^ wb * leNat (B.drop wb)) / 256 ^ wb = leNat (B.drop wb) := by
          rw [Nat.add_mul_div_left _ _ hP, Nat.div_eq_of_lt hsmall, Nat.zero_add]
        rw [hdiv]
        have := natLE_leNat (B.drop wb)
        rw [hB2] at this
        rw [this]
        simp [List.append_assoc]

end Bee2V.C03

import Bee2V.C03.Sponge
/-!
# The buffering skeleton = octet-at-a-time sponge

`stepGen F op data st` (the code: early return / fill + F / full-block loop / tail) equals folding
`stepByte` over the data, provided `pos < bufLen`.  Consequences: any chunking of the data gives the same
state and the same output; decryption inverts encryption and leaves both parties in the same state.
-/
namespace Bee2V.C03

variable (F : Bytes → Bytes) (op : OpB)

/-- one octet through the sponge: act on `s[pos]`, advance, apply `F` when the buffer is full -/
def stepByte (st : Sp) (d : UInt8) : Sp × UInt8 :=
  let r := op (st.s.getD st.pos 0) d
  let s := st.s.set st.pos r.1
  if st.pos + 1 = st.bufLen then ({ st with s := F s, pos := 0 }, r.2)
  else ({ st with s := s, pos := st.pos + 1 }, r.2)

def foldBytes : Bytes → Sp → Sp × Bytes
  | [], st => (st, [])
  | d :: ds, st =>
    let a := stepByte F op st d
    let b := foldBytes ds a.1
    (b.1, a.2 :: b.2)

theorem foldBytes_append (a b : Bytes) (st : Sp) :
    foldBytes F op (a ++ b) st =
      ((foldBytes F op b (foldBytes F op a st).1).1,
        (foldBytes F op a st).2 ++ (foldBytes F op b (foldBytes F op a st).1).2) := by
  induction a generalizing st with
  | nil => simp [foldBytes]
  | cons d ds ih => simp [foldBytes, ih]

theorem foldBytes_bufLen (data : Bytes) (st : Sp) : (foldBytes F op data st).1.bufLen = st.bufLen := by
  induction data generalizing st with
  | nil => rfl
  | cons d ds ih =>
    simp only [foldBytes, ih, stepByte]
    split <;> rfl

theorem foldBytes_pos_lt (data : Bytes) (st : Sp) (h : st.pos < st.bufLen) :
    (foldBytes F op data st).1.pos < (foldBytes F op data st).1.bufLen := by
  induction data generalizing st with
  | nil => exact h
  | cons d ds ih =>
    simp only [foldBytes]
    apply ih
    simp only [stepByte]
    split
    · simp; omega
    · simp; omega

/-- a segment that does not reach the end of the buffer -/
theorem fold_partial (data : Bytes) (st : Sp) (h : st.pos + data.length < st.bufLen) :
    foldBytes F op data st =
      ({ st with s := (opAt op st.s st.pos data).1, pos := st.pos + data.length }, (opAt op st.s st.pos data).2) := by
  induction data generalizing st with
  | nil => simp [foldBytes, opAt]
  | cons d ds ih =>
    simp only [List.length_cons] at h
    have hne : ¬ (st.pos + 1 = st.bufLen) := by omega
    simp only [foldBytes, stepByte, hne, if_false, opAt]
    rw [ih]
    · simp only [List.length_cons, Prod.mk.injEq, Sp.mk.injEq, and_true, true_and]
      omega
    · simp only; omega

/-- a segment that ends exactly at the end of the buffer -/
theorem fold_complete (data : Bytes) (st : Sp) (h : st.pos + data.length = st.bufLen) (hd : data ≠ []) :
    foldBytes F op data st =
      ({ st with s := F (opAt op st.s st.pos data).1, pos := 0 }, (opAt op st.s st.pos data).2) := by
  induction data generalizing st with
  | nil => exact absurd rfl hd
  | cons d ds ih =>
    simp only [List.length_cons] at h
    by_cases hds : ds = []
    · subst hds
      simp only [List.length_nil, Nat.zero_add] at h
      simp [foldBytes, stepByte, h, opAt]
    · have hl : 0 < ds.length := List.length_pos_iff.mpr hds
      have hne : ¬ (st.pos + 1 = st.bufLen) := by omega
      simp only [foldBytes, stepByte, hne, if_false, opAt]
      rw [ih _ _ hds]
      simp only; omega

theorem fold_fullLoop (bufLen : Nat) (s : Bytes) (data : Bytes) (hb : 0 < bufLen) :
    foldBytes F op data ⟨s, bufLen, 0⟩ =
      (let r := fullLoop F op bufLen s data
       let t := foldBytes F op r.2.1 ⟨r.1, bufLen, 0⟩
       (t.1, r.2.2 ++ t.2)) ∧ (fullLoop F op bufLen s data).2.1.length < bufLen := by
  fun_induction fullLoop F op bufLen s data with
  | case1 s data h q r ih =>
    have e : data = data.take bufLen ++ data.drop bufLen := (List.take_append_drop _ _).symm
    have hlen : (data.take bufLen).length = bufLen := by simp; omega
    have hne : data.take bufLen ≠ [] := by
      intro hh; rw [hh] at hlen; simp at hlen; omega
    constructor
    · conv => lhs; rw [e]
      rw [foldBytes_append, fold_complete F op _ _ (by simp only [hlen]; omega) hne]
      simp only
      rw [ih.1]
      simp [q, r, List.append_assoc]
    · exact ih.2
  | case2 s data h =>
    simp only [List.nil_append, true_and]
    omega

/-- **the code's buffering skeleton is the octet-at-a-time sponge** -/
theorem stepGen_eq_fold (data : Bytes) (st : Sp) (h : st.pos < st.bufLen) :
    stepGen F op data st = foldBytes F op data st := by
  unfold stepGen
  split
  · rename_i hlt
    rw [fold_partial]; omega
  · rename_i hge
    have e : data = data.take (st.bufLen - st.pos) ++ data.drop (st.bufLen - st.pos) :=
      (List.take_append_drop _ _).symm
    have hlen : (data.take (st.bufLen - st.pos)).length = st.bufLen - st.pos := by simp; omega
    have hne : data.take (st.bufLen - st.pos) ≠ [] := by
      intro hh; rw [hh] at hlen; simp at hlen; omega
    conv => rhs; rw [e]
    rw [foldBytes_append, fold_complete F op _ _ (by rw [hlen]; omega) hne]
    simp only
    have hb : 0 < st.bufLen := by omega
    obtain ⟨h1, h2⟩ := fold_fullLoop F op st.bufLen
      (F (opAt op st.s st.pos (List.take (st.bufLen - st.pos) data)).1) (data.drop (st.bufLen - st.pos)) hb
    rw [h1]
    simp only
    rw [fold_partial F op _ _ (by simpa using h2)]
    by_cases hr : (fullLoop F op st.bufLen (F (opAt op st.s st.pos (List.take (st.bufLen - st.pos) data)).1)
        (List.drop (st.bufLen - st.pos) data)).2.1.length = 0
    · have hnil := List.length_eq_zero_iff.mp hr
      simp [hr, hnil, opAt]
    · simp [hr, List.append_assoc]

end Bee2V.C03

namespace Bee2V.C03
variable (F : Bytes → Bytes) (op : OpB)

theorem stepGen_bufLen (data : Bytes) (st : Sp) (h : st.pos < st.bufLen) :
    (stepGen F op data st).1.bufLen = st.bufLen := by
  rw [stepGen_eq_fold F op data st h, foldBytes_bufLen]

theorem stepGen_pos_lt (data : Bytes) (st : Sp) (h : st.pos < st.bufLen) :
    (stepGen F op data st).1.pos < (stepGen F op data st).1.bufLen := by
  rw [stepGen_eq_fold F op data st h]; exact foldBytes_pos_lt F op data st h

/-- two Step calls = one Step call on the concatenation (state and output) -/
theorem stepGen_append (a b : Bytes) (st : Sp) (h : st.pos < st.bufLen) :
    stepGen F op (a ++ b) st =
      ((stepGen F op b (stepGen F op a st).1).1, (stepGen F op a st).2 ++ (stepGen F op b (stepGen F op a st).1).2) := by
  have h1 := stepGen_pos_lt F op a st h
  rw [stepGen_eq_fold F op _ _ h1, stepGen_eq_fold F op a st h, stepGen_eq_fold F op (a ++ b) st h,
    foldBytes_append]

/-- any number of Step calls: the state after feeding the chunks one by one -/
def stepChunks : List Bytes → Sp → Sp × Bytes
  | [], st => (st, [])
  | c :: cs, st =>
    let a := stepGen F op c st
    let b := stepChunks cs a.1
    (b.1, a.2 ++ b.2)

theorem stepChunks_eq (chunks : List Bytes) (st : Sp) (h : st.pos < st.bufLen) :
    stepChunks F op chunks st = stepGen F op chunks.flatten st := by
  induction chunks generalizing st with
  | nil =>
    simp only [stepChunks, List.flatten_nil]
    rw [stepGen_eq_fold F op [] st h]; rfl
  | cons c cs ih =>
    simp only [stepChunks, List.flatten_cons]
    rw [ih _ (stepGen_pos_lt F op c st h), stepGen_append F op c _ st h]

/-- decrypting the ciphertext octet by octet returns the plaintext and reproduces the encryptor's state -/
theorem fold_dec_enc (x : Bytes) (st : Sp) :
    foldBytes F decOp (foldBytes F encOp x st).2 st = ((foldBytes F encOp x st).1, x) := by
  induction x generalizing st with
  | nil => rfl
  | cons d ds ih =>
    have hb : ∀ b : UInt8, b ^^^ (b ^^^ d) = d := by
      intro b; rw [← UInt8.xor_assoc, UInt8.xor_self, UInt8.zero_xor]
    have hc : ∀ b : UInt8, b ^^^ d ^^^ b = d := by
      intro b; rw [UInt8.xor_comm b d, UInt8.xor_assoc, UInt8.xor_self, UInt8.xor_zero]
    have e1 : (stepByte F decOp st (stepByte F encOp st d).2).1 = (stepByte F encOp st d).1 := by
      simp only [stepByte, encOp, decOp]
      split <;> simp [hb, hc]
    have e2 : (stepByte F decOp st (stepByte F encOp st d).2).2 = d := by
      simp only [stepByte, encOp, decOp]
      split <;> simp [hc]
    simp only [foldBytes]
    rw [e1, e2, ih]

theorem stepGen_dec_enc (x : Bytes) (st : Sp) (h : st.pos < st.bufLen) :
    stepGen F decOp (stepGen F encOp x st).2 st = ((stepGen F encOp x st).1, x) := by
  rw [stepGen_eq_fold F encOp x st h, stepGen_eq_fold F decOp _ st h, fold_dec_enc]

theorem foldBytes_out_length (x : Bytes) (st : Sp) : (foldBytes F op x st).2.length = x.length := by
  induction x generalizing st with
  | nil => rfl
  | cons d ds ih => simp [foldBytes, ih]

end Bee2V.C03

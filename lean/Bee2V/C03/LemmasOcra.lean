import Bee2V.C03.LemmasBotp
/-!
# `botpOCRAStart` accepts exactly the suite grammar (completeness and soundness), stage by stage
-/
namespace Bee2V.C03
open Bee2V.C03.Spec

theorem strB_prefix : strB "OCRA-1:HOTP-" = [79, 67, 82, 65, 45, 49, 58, 72, 79, 84, 80, 45] := by decide
theorem strB_hbelt : strB "HBELT" = [72, 66, 69, 76, 84] := by decide
theorem strB_sha1 : strB "SHA1" = [83, 72, 65, 49] := by decide
theorem strB_sha256 : strB "SHA256" = [83, 72, 65, 50, 53, 54] := by decide
theorem strB_sha512 : strB "SHA512" = [83, 72, 65, 53, 49, 50] := by decide
theorem strB_P : strB "-P" = [45, 80] := by decide
theorem strB_S : strB "-S" = [45, 83] := by decide
theorem strB_T : strB "-T" = [45, 84] := by decide
theorem ch_vals : ch '-' = 45 ∧ ch ':' = 58 ∧ ch 'C' = 67 ∧ ch 'Q' = 81 ∧ ch 'A' = 65 ∧ ch 'N' = 78 ∧ ch 'H' = 72 ∧
    ch 'S' = 83 ∧ ch 'M' = 77 ∧ ch '0' = 48 ∧ ch '1' = 49 ∧ ch '4' = 52 ∧ ch '9' = 57 := by decide

/-- facts about digit characters -/
theorem dch_facts : ∀ d, d < 10 → isDig (dch d) = true ∧ dig (dch d) = d ∧ (dch d).toNat = 48 + d := by decide

theorem hd_cons (c : UInt8) (r : Bytes) : hd (c :: r) = c := rfl
theorem hd_nil : hd ([] : Bytes) = 0 := rfl

/-! ## completeness of the stages -/

theorem pPrefix_complete (rest : Bytes) : pPrefix (gPrefix ++ rest) = some rest := by
  simp [pPrefix, gPrefix, startsWith, strB_prefix, strB_hbelt, ch_vals, hd]

theorem pDigit_complete (d : Nat) (h4 : 4 ≤ d) (h9 : d ≤ 9) (rest : Bytes) :
    pDigit (gDigit d ++ rest) = some (d, rest) := by
  have hd' : d = 4 ∨ d = 5 ∨ d = 6 ∨ d = 7 ∨ d = 8 ∨ d = 9 := by omega
  rcases hd' with h | h | h | h | h | h <;> subst h <;>
    simp [pDigit, gDigit, dch, ch_vals, hd, dig] <;> decide


theorem pCtr_complete_true (rest : Bytes) : pCtr (gCtr true ++ rest) = some (8, rest) := by
  simp [pCtr, gCtr, ch_vals, hd]

/-- without `"C-"` the next stage's `'Q'` follows -/
theorem pCtr_complete_false (rest : Bytes) (h : hd rest ≠ 67) : pCtr (gCtr false ++ rest) = some (0, rest) := by
  simp [pCtr, gCtr, ch_vals, h]

theorem qt_cases (qt : QT) : (qt.ch == ch 'A' || qt.ch == ch 'N' || qt.ch == ch 'H') = true := by
  cases qt <;> decide

theorem pQ_complete (qt : QT) (n : Nat) (h4 : 4 ≤ n) (h64 : n ≤ 64) (rest : Bytes) :
    pQ (gQ qt n ++ rest) = some (qt.ch, n, rest) := by
  obtain ⟨a1, a2, _⟩ := dch_facts (n / 10) (by omega)
  obtain ⟨b1, b2, _⟩ := dch_facts (n % 10) (Nat.mod_lt _ (by decide))
  have hv : n / 10 * 10 + n % 10 = n := by omega
  have hq := qt_cases qt
  simp only [pQ, gQ, List.cons_append, List.nil_append, hd_cons, List.drop_succ_cons, List.drop_zero, ch_vals,
    bne_self_eq_false, Bool.false_eq_true, if_false] at hq ⊢
  have h1 : ¬ (n < 4) := by omega
  have h2 : ¬ (n > 64) := by omega
  simp [hq, a1, a2, b1, b2, hv, h1, h2]


theorem pP_complete_some (h : PH) (rest : Bytes) : pP (gP (some h) ++ rest) = some (h.len, rest) := by
  cases h <;>
    simp [pP, gP, PH.name, PH.len, startsWith, strB_P, strB_hbelt, strB_sha1, strB_sha256, strB_sha512]

theorem pP_complete_none (rest : Bytes) (h : startsWith rest [45, 80] = false) :
    pP (gP none ++ rest) = some (0, rest) := by
  simp [pP, gP, strB_P, h]

theorem pS_complete_some (n : Nat) (hn : n ≤ 512) (rest : Bytes) :
    pS (gS (some n) ++ rest) = some (n, rest) := by
  obtain ⟨a1, a2, _⟩ := dch_facts (n / 100) (by omega)
  obtain ⟨b1, b2, _⟩ := dch_facts (n / 10 % 10) (Nat.mod_lt _ (by decide))
  obtain ⟨c1, c2, _⟩ := dch_facts (n % 10) (Nat.mod_lt _ (by decide))
  have hv : (n / 100 * 10 + n / 10 % 10) * 10 + n % 10 = n := by omega
  have h1 : ¬ (n > 512) := by omega
  simp [pS, gS, startsWith, strB_S, hd, a1, a2, b1, b2, c1, c2, hv, h1]

theorem pS_complete_none (rest : Bytes) (h : startsWith rest [45, 83] = false) :
    pS (gS none ++ rest) = some (0, rest) := by
  simp [pS, gS, strB_S, h]

theorem tu_notdig (u : TU) : isDig u.ch = false := by cases u <;> decide

theorem pT_complete_some (n : Nat) (u : TU) (h1 : 1 ≤ n) (hmax : n ≤ u.max) (rest : Bytes) :
    pT (gT (some (n, u)) ++ rest) = some (n * u.mul, rest) := by
  have hu := tu_notdig u
  have hn60 : n ≤ 59 := by cases u <;> simp [TU.max] at hmax <;> omega
  by_cases hlt : n < 10
  · obtain ⟨a1, a2, a3⟩ := dch_facts n hlt
    have hlo : ¬ (dch n < 49) := by rw [UInt8.lt_iff_toNat_lt, a3]; show ¬ (48 + n < 49); omega
    have hhi : ¬ (dch n > 57) := by
      show ¬ ((57 : UInt8) < dch n); rw [UInt8.lt_iff_toNat_lt, a3]; show ¬ (57 < 48 + n); omega
    cases u <;>
      simp [pT, gT, hlt, startsWith, strB_T, hd, ch_vals, hlo, hhi, a2, TU.ch, TU.mul, TU.max, isDig] at hmax ⊢ <;>
      omega
  · obtain ⟨a1, a2, a3⟩ := dch_facts (n / 10) (by omega)
    obtain ⟨b1, b2, _⟩ := dch_facts (n % 10) (Nat.mod_lt _ (by decide))
    have hlo : ¬ (dch (n / 10) < 49) := by rw [UInt8.lt_iff_toNat_lt, a3]; show ¬ (48 + n / 10 < 49); omega
    have hhi : ¬ (dch (n / 10) > 57) := by
      show ¬ ((57 : UInt8) < dch (n / 10)); rw [UInt8.lt_iff_toNat_lt, a3]; show ¬ (57 < 48 + n / 10); omega
    have hv : n / 10 * 10 + n % 10 = n := by omega
    cases u <;>
      simp [pT, gT, hlt, startsWith, strB_T, hd, ch_vals, hlo, hhi, a2, b1, b2, hv, TU.ch, TU.mul, TU.max] at hmax ⊢ <;>
      omega

theorem pT_complete_none (rest : Bytes) (h : startsWith rest [45, 84] = false) :
    pT (gT none ++ rest) = some (0, rest) := by
  simp [pT, gT, strB_T, h]


/-- the state `botpOCRAStart` builds for a suite -/
def stOf (su : Suite) (key : Bytes) : OcraSt :=
  { digit := su.digit, ctrLen := if su.ctr then 8 else 0, qType := su.qt.ch, qMax := su.qMax,
    pLen := su.params.pLen, sLen := su.params.sLen, ts := su.params.ts,
    keySt := Belt.hmacStepA (su.str ++ [0]) (Belt.hmacStart key) }

theorem gS_gT_noP (s : Option Nat) (t : Option (Nat × TU)) : startsWith (gS s ++ gT t) [45, 80] = false := by
  cases s <;> cases t <;> simp [gS, gT, startsWith, List.isPrefixOf]

theorem gT_noS (t : Option (Nat × TU)) : startsWith (gT t) [45, 83] = false := by
  cases t <;> simp [gT, startsWith, List.isPrefixOf]

theorem pCtr_complete (c : Bool) (qt : QT) (n : Nat) (rest : Bytes) :
    pCtr (gCtr c ++ (gQ qt n ++ rest)) = some (if c then 8 else 0, gQ qt n ++ rest) := by
  cases c
  · exact pCtr_complete_false _ (by simp [gQ, hd])
  · exact pCtr_complete_true _

def plOf : Option PH → Nat | none => 0 | some h => h.len
def tsOf : Option (Nat × TU) → Nat | none => 0 | some (n, u) => n * u.mul

theorem pP_complete (p : Option PH) (s : Option Nat) (t : Option (Nat × TU)) :
    pP (gP p ++ (gS s ++ gT t)) = some (plOf p, gS s ++ gT t) := by
  cases p
  · exact pP_complete_none _ (gS_gT_noP s t)
  · exact pP_complete_some _ _

theorem pS_complete (s : Option Nat) (hs : ∀ n, s = some n → n ≤ 512) (t : Option (Nat × TU)) :
    pS (gS s ++ gT t) = some (s.getD 0, gT t) := by
  cases s
  · exact pS_complete_none _ (gT_noS t)
  · exact pS_complete_some _ (hs _ rfl) _

theorem pT_complete (t : Option (Nat × TU)) (ht : ∀ n u, t = some (n, u) → 1 ≤ n ∧ n ≤ u.max) :
    pT (gT t) = some (tsOf t, []) := by
  cases t with
  | none => have := pT_complete_none [] (by simp [startsWith]); simpa [tsOf] using this
  | some nu =>
    obtain ⟨n, u⟩ := nu
    have := pT_complete_some n u (ht n u rfl).1 (ht n u rfl).2 []
    simpa [tsOf] using this

/-- **completeness**: every suite of the grammar is accepted, with the parameters it stands for -/
theorem ocraStart_complete (su : Suite) (hv : su.valid) (key : Bytes) :
    ocraStart su.str key = some (stOf su key) := by
  obtain ⟨h4, h9, q4, q64, hs, ht⟩ := hv
  simp only [ocraStart, Suite.str, Option.bind_eq_bind, pPrefix_complete, Option.bind_some,
    pDigit_complete su.digit h4 h9, pCtr_complete, pQ_complete su.qt su.qMax q4 q64, pP_complete,
    pS_complete su.s hs, pT_complete su.t ht, hd_nil]
  have e1 : plOf su.p = su.params.pLen := by cases h : su.p <;> simp [plOf, Suite.params, h]
  have e2 : tsOf su.t = su.params.ts := by
    cases h : su.t with
    | none => simp [tsOf, Suite.params, h]
    | some nu => obtain ⟨n, u⟩ := nu; simp [tsOf, Suite.params, h]
  simp [stOf, Suite.params, Suite.str, e1, e2]


/-! ## soundness of the stages -/

theorem sw_split (s lit : Bytes) (h : startsWith s lit = true) : s = lit ++ s.drop lit.length := by
  have hp : lit <+: s := List.isPrefixOf_iff_prefix.mp h
  obtain ⟨t, ht⟩ := hp
  rw [← ht, List.drop_left]

theorem hd_split (s : Bytes) (c : UInt8) (h : hd s = c) (hc : c ≠ 0) : s = c :: s.drop 1 := by
  cases s with
  | nil => exact absurd h.symm hc
  | cons x xs => simp only [hd_cons] at h; simp [h]

theorem uncons (s : Bytes) (h : hd s ≠ 0) : ∃ c t, s = c :: t := by
  cases s with
  | nil => exact absurd rfl h
  | cons x xs => exact ⟨x, xs, rfl⟩

theorem all_u8 (P : UInt8 → Prop) (h : ∀ n, n < 256 → P (UInt8.ofNat n)) (c : UInt8) : P c := by
  have := h c.toNat c.toNat_lt
  rwa [UInt8.ofNat_toNat] at this

theorem isDig_sound (c : UInt8) (h : isDig c = true) : dig c < 10 ∧ dch (dig c) = c ∧ c ≠ 0 := by
  revert h
  apply all_u8 (fun c => isDig c = true → dig c < 10 ∧ dch (dig c) = c ∧ c ≠ 0)
  decide +kernel

theorem range49_sound (c : UInt8) (lo : UInt8) (hlo : lo = 52 ∨ lo = 49) (h : ¬ (c < lo ∨ c > 57)) :
    dig c ≤ 9 ∧ lo.toNat - 48 ≤ dig c ∧ dch (dig c) = c ∧ c ≠ 0 ∧ isDig c = true := by
  revert h
  rcases hlo with h | h <;> subst h
  · apply all_u8 (fun c => ¬ (c < 52 ∨ c > 57) → dig c ≤ 9 ∧ (52 : UInt8).toNat - 48 ≤ dig c ∧ dch (dig c) = c ∧ c ≠ 0 ∧ isDig c = true)
    decide +kernel
  · apply all_u8 (fun c => ¬ (c < 49 ∨ c > 57) → dig c ≤ 9 ∧ (49 : UInt8).toNat - 48 ≤ dig c ∧ dch (dig c) = c ∧ c ≠ 0 ∧ isDig c = true)
    decide +kernel

theorem pPrefix_sound (s r : Bytes) (h : pPrefix s = some r) : s = gPrefix ++ r := by
  simp only [pPrefix, strB_prefix, strB_hbelt, ch_vals] at h
  split at h
  · exact absurd h (by simp)
  · rename_i h1
    split at h
    · exact absurd h (by simp)
    · rename_i h2
      split at h
      · exact absurd h (by simp)
      · rename_i h3
        simp only [Bool.not_eq_eq_eq_not, Bool.not_true] at h1 h2
        simp only [bne_iff_ne, ne_eq, Decidable.not_not] at h3
        injection h with h
        have e1 := sw_split _ _ (by simpa using h1)
        have e2 := sw_split _ _ (by simpa using h2)
        have e3 := hd_split _ _ h3 (by decide)
        simp only [List.length_cons, List.length_nil] at e1 e2
        rw [e1, e2, e3, h]
        rfl


theorem pDigit_sound (s r : Bytes) (d : Nat) (h : pDigit s = some (d, r)) :
    4 ≤ d ∧ d ≤ 9 ∧ s = gDigit d ++ r := by
  simp only [pDigit, ch_vals] at h
  split at h
  · exact absurd h (by simp)
  · rename_i h1
    split at h
    · exact absurd h (by simp)
    · rename_i h2
      simp only [Bool.or_eq_true, decide_eq_true_eq] at h1
      simp only [bne_iff_ne, ne_eq, Decidable.not_not] at h2
      obtain ⟨r1, r2, r3, r4, _⟩ := range49_sound (hd s) 52 (Or.inl rfl) h1
      simp only [Option.some.injEq, Prod.mk.injEq] at h
      obtain ⟨hd', hr⟩ := h
      have e1 := hd_split s _ rfl r4
      have e2 := hd_split (s.drop 1) _ h2 (by decide)
      have r2' : 4 ≤ dig (hd s) := r2
      refine ⟨by omega, by omega, ?_⟩
      rw [e1, e2, ← hd', ← hr]
      simp only [gDigit, r3, List.drop_drop, List.cons_append, List.nil_append]

theorem pCtr_sound (s r : Bytes) (c : Nat) (h : pCtr s = some (c, r)) :
    ∃ b : Bool, c = (if b then 8 else 0) ∧ s = gCtr b ++ r := by
  simp only [pCtr, ch_vals] at h
  split at h
  · rename_i h1
    split at h
    · exact absurd h (by simp)
    · rename_i h2
      simp only [beq_iff_eq] at h1
      simp only [bne_iff_ne, ne_eq, Decidable.not_not] at h2
      simp only [Option.some.injEq, Prod.mk.injEq] at h
      have e1 := hd_split s _ h1 (by decide)
      have e2 := hd_split (s.drop 1) _ h2 (by decide)
      refine ⟨true, by simp [h.1], ?_⟩
      rw [e1, e2, ← h.2]
      simp [gCtr]
  · simp only [Option.some.injEq, Prod.mk.injEq] at h
    exact ⟨false, by simp [h.1], by simp [gCtr, h.2]⟩

theorem qt_sound (c : UInt8) (h : (c == 65 || c == 78 || c == 72) = true) : ∃ q : QT, c = q.ch ∧ c ≠ 0 := by
  simp only [Bool.or_eq_true, beq_iff_eq] at h
  rcases h with (h | h) | h
  · exact ⟨.A, h, by rw [h]; decide⟩
  · exact ⟨.N, h, by rw [h]; decide⟩
  · exact ⟨.H, h, by rw [h]; decide⟩

theorem pQ_sound (s r : Bytes) (qt : UInt8) (n : Nat) (h : pQ s = some (qt, n, r)) :
    ∃ q : QT, qt = q.ch ∧ 4 ≤ n ∧ n ≤ 64 ∧ s = gQ q n ++ r := by
  simp only [pQ, ch_vals] at h
  split at h
  · exact absurd h (by simp)
  · rename_i h1
    split at h
    · exact absurd h (by simp)
    · rename_i h2
      split at h
      · exact absurd h (by simp)
      · rename_i h3
        split at h
        · exact absurd h (by simp)
        · rename_i h4
          simp only [bne_iff_ne, ne_eq, Decidable.not_not] at h1
          simp only [Bool.not_eq_eq_eq_not, Bool.not_true, Bool.not_eq_false] at h2
          simp only [Bool.or_eq_true, Bool.not_eq_eq_eq_not, Bool.not_true, not_or, Bool.not_eq_false] at h3
          simp only [Bool.or_eq_true, decide_eq_true_eq, not_or, Nat.not_lt, Nat.not_gt_eq] at h4
          simp only [Option.some.injEq, Prod.mk.injEq] at h
          obtain ⟨hq, hn, hr⟩ := h
          obtain ⟨q, hq1, hq0⟩ := qt_sound _ h2
          obtain ⟨a1, a2, a3⟩ := isDig_sound _ h3.1
          obtain ⟨b1, b2, b3⟩ := isDig_sound _ h3.2
          obtain ⟨c1, t1, rfl⟩ := uncons s (by rw [h1]; decide)
          simp only [List.drop_succ_cons, List.drop_zero, hd_cons] at *
          obtain ⟨c2, t2, rfl⟩ := uncons t1 hq0
          simp only [List.drop_succ_cons, List.drop_zero, hd_cons] at *
          obtain ⟨c3, t3, rfl⟩ := uncons t2 a3
          simp only [List.drop_succ_cons, List.drop_zero, hd_cons] at *
          obtain ⟨c4, t4, rfl⟩ := uncons t3 b3
          simp only [List.drop_succ_cons, List.drop_zero, hd_cons] at *
          refine ⟨q, by rw [← hq, hq1], by omega, by omega, ?_⟩
          have hdiv : n / 10 = dig c3 := by omega
          have hmod : n % 10 = dig c4 := by omega
          simp only [gQ, hdiv, hmod, a2, b2, ← hq1, h1, List.cons_append, List.nil_append, hr]


theorem pP_sound (s r : Bytes) (pl : Nat) (h : pP s = some (pl, r)) : ∃ p, pl = plOf p ∧ s = gP p ++ r := by
  simp only [pP, strB_P, strB_hbelt, strB_sha1, strB_sha256, strB_sha512] at h
  split at h
  · rename_i h0
    have e0 := sw_split _ _ h0
    simp only [List.length_cons, List.length_nil] at e0
    split at h
    · rename_i h1
      have e1 := sw_split _ _ h1
      simp only [Option.some.injEq, Prod.mk.injEq, List.length_cons, List.length_nil] at h e1
      exact ⟨some .hbelt, by simp [plOf, PH.len, h.1], by rw [e0, e1, h.2]; simp [gP, PH.name]⟩
    · split at h
      · rename_i h1
        have e1 := sw_split _ _ h1
        simp only [Option.some.injEq, Prod.mk.injEq, List.length_cons, List.length_nil] at h e1
        exact ⟨some .sha1, by simp [plOf, PH.len, h.1], by rw [e0, e1, h.2]; simp [gP, PH.name]⟩
      · split at h
        · rename_i h1
          have e1 := sw_split _ _ h1
          simp only [Option.some.injEq, Prod.mk.injEq, List.length_cons, List.length_nil] at h e1
          exact ⟨some .sha256, by simp [plOf, PH.len, h.1], by rw [e0, e1, h.2]; simp [gP, PH.name]⟩
        · split at h
          · rename_i h1
            have e1 := sw_split _ _ h1
            simp only [Option.some.injEq, Prod.mk.injEq, List.length_cons, List.length_nil] at h e1
            exact ⟨some .sha512, by simp [plOf, PH.len, h.1], by rw [e0, e1, h.2]; simp [gP, PH.name]⟩
          · exact absurd h (by simp)
  · simp only [Option.some.injEq, Prod.mk.injEq] at h
    exact ⟨none, by simp [plOf, h.1], by simp [gP, h.2]⟩

theorem pS_sound (s r : Bytes) (sl : Nat) (h : pS s = some (sl, r)) :
    ∃ o : Option Nat, sl = o.getD 0 ∧ (∀ n, o = some n → n ≤ 512) ∧ s = gS o ++ r := by
  simp only [pS, strB_S] at h
  split at h
  · rename_i h0
    have e0 := sw_split _ _ h0
    simp only [List.length_cons, List.length_nil] at e0
    split at h
    · exact absurd h (by simp)
    · rename_i h1
      split at h
      · exact absurd h (by simp)
      · rename_i h2
        simp only [Bool.or_eq_true, Bool.not_eq_eq_eq_not, Bool.not_true, not_or, Bool.not_eq_false] at h1
        simp only [Nat.not_lt, Option.some.injEq, Prod.mk.injEq, gt_iff_lt] at h2 h
        obtain ⟨⟨d1, d2⟩, d3⟩ := h1
        obtain ⟨a1, a2, a3⟩ := isDig_sound _ d1
        obtain ⟨b1, b2, b3⟩ := isDig_sound _ d2
        obtain ⟨c1, c2, c3⟩ := isDig_sound _ d3
        generalize s.drop 2 = t at *
        obtain ⟨x1, t1, rfl⟩ := uncons t a3
        simp only [List.drop_succ_cons, List.drop_zero, hd_cons] at *
        obtain ⟨x2, t2, rfl⟩ := uncons t1 b3
        simp only [List.drop_succ_cons, List.drop_zero, hd_cons] at *
        obtain ⟨x3, t3, rfl⟩ := uncons t2 c3
        simp only [List.drop_succ_cons, List.drop_zero, hd_cons] at *
        refine ⟨some sl, rfl, fun n hn => by injection hn with hn; omega, ?_⟩
        have q1 : sl / 100 = dig x1 := by omega
        have q2 : sl / 10 % 10 = dig x2 := by omega
        have q3 : sl % 10 = dig x3 := by omega
        rw [e0]
        simp only [gS, q1, q2, q3, a2, b2, c2, List.cons_append, List.nil_append, h.2]
  · simp only [Option.some.injEq, Prod.mk.injEq] at h
    exact ⟨none, by simp [h.1], by simp, by simp [gS, h.2]⟩


/-- the unit part of `-T`: after the number `n` has been read -/
def pTunit (ts : Nat) (suite : Bytes) : Option (Nat × Bytes) :=
  let c := hd suite
  let suite := suite.drop 1
  if c == ch 'S' then (if ts > 59 then none else some (ts, suite))
  else if c == ch 'M' then (if ts > 59 then none else some (ts * 60, suite))
  else if c == ch 'H' then (if ts > 48 then none else some (ts * 3600, suite))
  else none

theorem pTunit_sound (n : Nat) (s r : Bytes) (v : Nat) (h : pTunit n s = some (v, r)) :
    ∃ u : TU, v = n * u.mul ∧ n ≤ u.max ∧ s = u.ch :: r := by
  simp only [pTunit, ch_vals] at h
  split at h
  · rename_i h1
    split at h
    · exact absurd h (by simp)
    · rename_i h2
      simp only [beq_iff_eq] at h1
      simp only [Option.some.injEq, Prod.mk.injEq] at h
      obtain ⟨c, t, rfl⟩ := uncons s (by rw [h1]; decide)
      simp only [hd_cons, List.drop_succ_cons, List.drop_zero] at h1 h
      exact ⟨.S, by simp [TU.mul, h.1], by simp [TU.max]; omega, by rw [h1, h.2]; rfl⟩
  · split at h
    · rename_i h1
      split at h
      · exact absurd h (by simp)
      · rename_i h2
        simp only [beq_iff_eq] at h1
        simp only [Option.some.injEq, Prod.mk.injEq] at h
        obtain ⟨c, t, rfl⟩ := uncons s (by rw [h1]; decide)
        simp only [hd_cons, List.drop_succ_cons, List.drop_zero] at h1 h
        exact ⟨.M, by simp [TU.mul, h.1], by simp [TU.max]; omega, by rw [h1, h.2]; rfl⟩
    · split at h
      · rename_i h1
        split at h
        · exact absurd h (by simp)
        · rename_i h2
          simp only [beq_iff_eq] at h1
          simp only [Option.some.injEq, Prod.mk.injEq] at h
          obtain ⟨c, t, rfl⟩ := uncons s (by rw [h1]; decide)
          simp only [hd_cons, List.drop_succ_cons, List.drop_zero] at h1 h
          exact ⟨.H, by simp [TU.mul, h.1], by simp [TU.max]; omega, by rw [h1, h.2]; rfl⟩
      · exact absurd h (by simp)

theorem pT_unfold (s : Bytes) : pT s =
    if startsWith s (strB "-T") then
      if hd (s.drop 2) < ch '1' || hd (s.drop 2) > ch '9' then none
      else if isDig (hd ((s.drop 2).drop 1)) then
        pTunit (dig (hd (s.drop 2)) * 10 + dig (hd ((s.drop 2).drop 1))) (((s.drop 2).drop 1).drop 1)
      else pTunit (dig (hd (s.drop 2))) ((s.drop 2).drop 1)
    else some (0, s) := by
  simp only [pT, pTunit]
  split
  · split
    · rfl
    · split <;> rfl
  · rfl

theorem pT_sound (s r : Bytes) (ts : Nat) (h : pT s = some (ts, r)) :
    ∃ o : Option (Nat × TU), ts = tsOf o ∧ (∀ n u, o = some (n, u) → 1 ≤ n ∧ n ≤ u.max) ∧ s = gT o ++ r := by
  rw [pT_unfold] at h
  simp only [strB_T, ch_vals] at h
  split at h
  · rename_i h0
    have e0 := sw_split _ _ h0
    simp only [List.length_cons, List.length_nil] at e0
    split at h
    · exact absurd h (by simp)
    · rename_i h1
      simp only [Bool.or_eq_true, decide_eq_true_eq] at h1
      obtain ⟨r1, r2, r3, r4, _⟩ := range49_sound _ 49 (Or.inr rfl) h1
      have r2' : 1 ≤ dig (hd (s.drop 2)) := r2
      generalize s.drop 2 = t at *
      obtain ⟨x1, t1, rfl⟩ := uncons t r4
      simp only [List.drop_succ_cons, List.drop_zero, hd_cons] at *
      split at h
      · rename_i h2
        obtain ⟨b1, b2, b3⟩ := isDig_sound _ h2
        obtain ⟨x2, t2, rfl⟩ := uncons t1 b3
        simp only [List.drop_succ_cons, List.drop_zero, hd_cons] at *
        obtain ⟨u, hv, hmax, hs⟩ := pTunit_sound _ _ _ _ h
        refine ⟨some (dig x1 * 10 + dig x2, u), by simp [tsOf, hv], ?_, ?_⟩
        · intro n u' hnu
          injection hnu with hnu
          injection hnu with hn hu
          subst hn; subst hu
          exact ⟨by omega, hmax⟩
        · have hge : ¬ (dig x1 * 10 + dig x2 < 10) := by omega
          have q1 : (dig x1 * 10 + dig x2) / 10 = dig x1 := by omega
          have q2 : (dig x1 * 10 + dig x2) % 10 = dig x2 := by omega
          rw [e0, hs]
          simp only [gT, hge, if_false, q1, q2, r3, b2, List.cons_append, List.nil_append]
      · rename_i h2
        obtain ⟨u, hv, hmax, hs⟩ := pTunit_sound _ _ _ _ h
        refine ⟨some (dig x1, u), by simp [tsOf, hv], ?_, ?_⟩
        · intro n u' hnu
          injection hnu with hnu
          injection hnu with hn hu
          subst hn; subst hu
          exact ⟨r2', hmax⟩
        · have hlt : dig x1 < 10 := by omega
          rw [e0, hs]
          simp only [gT, hlt, if_true, r3, List.cons_append, List.nil_append]
  · simp only [Option.some.injEq, Prod.mk.injEq] at h
    exact ⟨none, by simp [tsOf, h.1], by simp, by simp [gT, h.2]⟩


/-- **soundness**: whatever `botpOCRAStart` accepts is a suite of the grammar, and the state holds the
parameters that suite stands for -/
theorem ocraStart_sound (s key : Bytes) (st : OcraSt) (h : ocraStart s key = some st) (h0 : (0 : UInt8) ∉ s) :
    ∃ su : Suite, su.valid ∧ s = su.str ∧ st = stOf su key := by
  simp only [ocraStart, Option.bind_eq_bind] at h
  obtain ⟨r1, h1, h⟩ := Option.bind_eq_some_iff.mp h
  obtain ⟨x2, h2, h⟩ := Option.bind_eq_some_iff.mp h
  obtain ⟨d, r2⟩ := x2
  obtain ⟨x3, h3, h⟩ := Option.bind_eq_some_iff.mp h
  obtain ⟨c, r3⟩ := x3
  obtain ⟨x4, h4, h⟩ := Option.bind_eq_some_iff.mp h
  obtain ⟨qt, qm, r4⟩ := x4
  obtain ⟨x5, h5, h⟩ := Option.bind_eq_some_iff.mp h
  obtain ⟨pl, r5⟩ := x5
  obtain ⟨x6, h6, h⟩ := Option.bind_eq_some_iff.mp h
  obtain ⟨sl, r6⟩ := x6
  obtain ⟨x7, h7, h⟩ := Option.bind_eq_some_iff.mp h
  obtain ⟨ts, r7⟩ := x7
  simp only at h3 h4 h5 h6 h7 h
  have e1 := pPrefix_sound _ _ h1
  obtain ⟨d4, d9, e2⟩ := pDigit_sound _ _ _ h2
  obtain ⟨b, hb, e3⟩ := pCtr_sound _ _ _ h3
  obtain ⟨q, hq, q4, q64, e4⟩ := pQ_sound _ _ _ _ h4
  obtain ⟨p, hp, e5⟩ := pP_sound _ _ _ h5
  obtain ⟨so, hso, hs512, e6⟩ := pS_sound _ _ _ h6
  obtain ⟨to, hto, htv, e7⟩ := pT_sound _ _ _ h7
  have hs : s = gPrefix ++ (gDigit d ++ (gCtr b ++ (gQ q qm ++ (gP p ++ (gS so ++ (gT to ++ r7)))))) := by
    rw [e1, e2, e3, e4, e5, e6, e7]
  split at h
  · exact absurd h (by simp)
  · rename_i hend
    simp only [bne_iff_ne, ne_eq, Decidable.not_not] at hend
    have hr7 : r7 = [] := by
      cases r7 with
      | nil => rfl
      | cons x xs =>
        simp only [hd_cons] at hend
        exfalso; apply h0; rw [hs, hend]; simp
    subst hr7
    refine ⟨⟨d, b, q, qm, p, so, to⟩, ⟨d4, d9, q4, q64, hs512, htv⟩, by simpa [Suite.str] using hs, ?_⟩
    have e1' : plOf p = (Suite.params ⟨d, b, q, qm, p, so, to⟩).pLen := by cases p <;> simp [plOf, Suite.params]
    have e2' : tsOf to = (Suite.params ⟨d, b, q, qm, p, so, to⟩).ts := by
      cases to with
      | none => simp [tsOf, Suite.params]
      | some nu => obtain ⟨n, u⟩ := nu; simp [tsOf, Suite.params]
    simp only [Option.pure_def, Option.some.injEq] at h
    rw [← h]
    simp only [stOf, hb, hq, hp, hso, hto, e1', e2', Suite.str]
    simp [Suite.params]
    congr 1
    rw [hs]
    simp [List.append_assoc]


theorem be8_length (n : Nat) : (Spec.be8 n).length = 8 := by simp [Spec.be8, natLE_length]

/-- after `botpOCRAStart` (on a suite of the grammar) and `botpOCRAStepS` the state is the one `ocraStepR_spec`
speaks about -/
theorem stepS_Of (su : Suite) (key : Bytes) (C : Nat) (P S : Bytes) (hP : P.length = su.params.pLen)
    (hS : S.length = su.params.sLen) :
    (ocraStepS (Spec.be8 C) P S (stOf su key)).Of key su.str su.params (if su.ctr then C else 0)
      (if su.params.pLen ≠ 0 then P else []) (if su.params.sLen ≠ 0 then S else []) := by
  have hz : zeros 8 = Spec.be8 0 := by decide
  have h8 : (Spec.be8 C).take 8 = Spec.be8 C := List.take_of_length_le (by rw [be8_length]; exact Nat.le_refl _)
  have hPt : P.take su.params.pLen = P := List.take_of_length_le (by rw [hP]; exact Nat.le_refl _)
  have hSt : S.take su.params.sLen = S := List.take_of_length_le (by rw [hS]; exact Nat.le_refl _)
  cases hc : su.ctr <;> by_cases hp : su.params.pLen = 0 <;> by_cases hs : su.params.sLen = 0 <;>
    constructor <;> simp [ocraStepS, stOf, hc, hp, hs, h8, hPt, hSt, hz] <;> simp [Suite.params, hc]

/-- HOTP histories: `none` = StepR, `some otp` = StepV(otp) -/
def hotpRun : List (Option Bytes) → HotpSt → HotpSt × List (Bytes ⊕ Bool)
  | [], st => (st, [])
  | none :: cs, st => let r := hotpStepR st; let q := hotpRun cs r.1; (q.1, .inl r.2 :: q.2)
  | some o :: cs, st => let r := hotpStepV o st; let q := hotpRun cs r.1; (q.1, .inr r.2 :: q.2)

/-- the standard's rule: a generated or accepted password moves the counter by one, a rejected one does not -/
def Spec.hotpRun (key : Bytes) (digit : Nat) : Nat → List (Option Bytes) → Nat × List (Bytes ⊕ Bool)
  | C, [] => (C, [])
  | C, none :: cs => let q := Spec.hotpRun key digit (C + 1) cs; (q.1, .inl (Spec.hotp key digit C) :: q.2)
  | C, some o :: cs =>
    if o = Spec.hotp key digit C then
      let q := Spec.hotpRun key digit (C + 1) cs; (q.1, .inr true :: q.2)
    else let q := Spec.hotpRun key digit C cs; (q.1, .inr false :: q.2)

theorem hotpRun_spec (key : Bytes) : ∀ (cs : List (Option Bytes)) (C : Nat) (st : HotpSt), st.digit < 10 →
    st.keySt = Belt.hmacStart key → st.ctr = Spec.be8 C →
    (hotpRun cs st).2 = (Spec.hotpRun key st.digit C cs).2 ∧
      (hotpRun cs st).1.ctr = Spec.be8 (Spec.hotpRun key st.digit C cs).1 := by
  intro cs
  induction cs with
  | nil => intro C st _ _ hc; exact ⟨rfl, hc⟩
  | cons c cs ih =>
    intro C st hd hk hc
    cases c with
    | none =>
      have hr := hotpStepR_spec key C st hd hk hc
      obtain ⟨i1, i2⟩ := ih (C + 1) { st with ctr := Spec.be8 (C + 1) } hd hk rfl
      simp only [hotpRun, Spec.hotpRun, hr]
      exact ⟨by rw [i1], i2⟩
    | some o =>
      have hv := hotpStepV_spec key C o st hd hk hc
      simp only [hotpRun, Spec.hotpRun, hv]
      by_cases ho : o = Spec.hotp key st.digit C
      · obtain ⟨i1, i2⟩ := ih (C + 1) { st with ctr := Spec.be8 (C + 1) } hd hk rfl
        simp only [ho, if_true]
        exact ⟨by rw [i1], i2⟩
      · obtain ⟨i1, i2⟩ := ih C st hd hk hc
        simp only [ho, if_false]
        exact ⟨by rw [i1], i2⟩

end Bee2V.C03

import Bee2V.C03.LemmasSponge
/-!
# bash hash of the code = the block-form algorithm of STB 34.101.77 (§7)
-/
namespace Bee2V.C03

namespace Spec
/-- absorb `n` whole `r`-octet blocks: `S ← F(X_i ‖ S[r..))` -/
def absorbBlocks (F : Bytes → Bytes) (r : Nat) : Nat → Bytes → Bytes → Bytes
  | 0, S, _ => S
  | n + 1, S, X => absorbBlocks F r n (F (X.take r ++ S.drop r)) (X.drop r)

/-- padding: `X ‖ 0x40 ‖ 0…0` up to the next multiple of `r` (at least one octet is added) -/
def pad (r : Nat) (X : Bytes) : Bytes := X ++ 0x40 :: zeros (r - 1 - X.length % r)

/-- bash-hash of level `l` (hash length `l/4` octets, rate `192 − l/2` octets) with sponge function `F` -/
def bashHash (F : Bytes → Bytes) (l : Nat) (X : Bytes) : Bytes :=
  let r := 192 - l / 2
  let S0 := (zeros 192).set 184 (UInt8.ofNat (l / 4))
  let P := pad r X
  (absorbBlocks F r (P.length / r) S0 P).take (l / 4)
end Spec

/-- `memCopy(s + pos, data, n)` at octet granularity is the splice -/
theorem opAt_copy (data : Bytes) : ∀ (s : Bytes) (pos : Nat), pos + data.length ≤ s.length →
    (opAt copyOp s pos data).1 = s.take pos ++ data ++ s.drop (pos + data.length) := by
  induction data with
  | nil => intro s pos _; simp [opAt]
  | cons d ds ih =>
    intro s pos h
    simp only [List.length_cons] at h
    have hp : pos < s.length := by omega
    simp only [opAt, copyOp]
    rw [ih _ _ (by simp only [List.length_set]; omega)]
    rw [List.take_set, List.drop_set]
    rw [if_pos (by omega)]
    have e2 : (List.take (pos + 1) s).set pos d = s.take pos ++ [d] := by
      rw [List.take_succ_eq_append_getElem hp, List.set_append_right _ _ (by simp; omega)]
      simp [List.length_take, Nat.min_eq_left (Nat.le_of_lt hp)]
    rw [e2, List.length_cons, show pos + 1 + ds.length = pos + (ds.length + 1) by omega]
    simp [List.append_assoc]

theorem opAt_copy_length (data s : Bytes) (pos : Nat) (h : pos + data.length ≤ s.length) :
    (opAt copyOp s pos data).1.length = s.length := by
  rw [opAt_copy data s pos h]
  simp only [List.length_append, List.length_take, List.length_drop]
  omega


variable (F : Bytes → Bytes)

/-- the octet sponge over `n` whole blocks = `n` block steps of the standard -/
theorem fold_blocks (N : Nat) (hF : ∀ s : Bytes, s.length = N → (F s).length = N) (r : Nat) (hr : 0 < r) (hrN : r ≤ N) :
    ∀ (n : Nat) (S X : Bytes), S.length = N → r * n ≤ X.length →
      (foldBytes F copyOp (X.take (r * n)) ⟨S, r, 0⟩).1 = ⟨Spec.absorbBlocks F r n S X, r, 0⟩ ∧
      (Spec.absorbBlocks F r n S X).length = N := by
  intro n
  induction n with
  | zero => intro S X hS _; simp [foldBytes, Spec.absorbBlocks, hS]
  | succ n ih =>
    intro S X hS hX
    have hXr : r ≤ X.length := by rw [Nat.mul_succ] at hX; omega
    have hlen : (X.take r).length = r := by rw [List.length_take]; omega
    have hne : X.take r ≠ [] := by intro h; rw [h] at hlen; simp at hlen; omega
    have hsplit : X.take (r * (n + 1)) = X.take r ++ (X.drop r).take (r * n) := by
      rw [Nat.mul_succ, Nat.add_comm, List.take_add]
    have hcopy : (opAt copyOp S 0 (X.take r)).1 = X.take r ++ S.drop r := by
      rw [opAt_copy _ _ _ (by rw [hlen]; omega), hlen]; simp
    have hS' : (F (X.take r ++ S.drop r)).length = N := by
      apply hF; rw [List.length_append, hlen, List.length_drop]; omega
    have hX' : r * n ≤ (X.drop r).length := by
      rw [List.length_drop, Nat.mul_succ] at *; omega
    rw [hsplit, foldBytes_append, fold_complete F copyOp _ _ (by simp only [hlen]; omega) hne]
    simp only [hcopy, Spec.absorbBlocks]
    exact ih (F (X.take r ++ S.drop r)) (X.drop r) hS' hX'

/-- the block steps only read the first `r·n` octets -/
theorem absorbBlocks_append (r : Nat) : ∀ (n : Nat) (S A B : Bytes), r * n ≤ A.length →
    Spec.absorbBlocks F r n S (A ++ B) = Spec.absorbBlocks F r n S A := by
  intro n
  induction n with
  | zero => intros; rfl
  | succ n ih =>
    intro S A B h
    rw [Nat.mul_succ] at h
    simp only [Spec.absorbBlocks]
    rw [List.take_append_of_le_length (by omega), List.drop_append_of_le_length (by omega)]
    exact ih _ _ _ (by rw [List.length_drop]; omega)

/-- unfolding the last block -/
theorem absorbBlocks_succ (r : Nat) : ∀ (n : Nat) (S X : Bytes),
    Spec.absorbBlocks F r (n + 1) S X
      = F ((X.drop (r * n)).take r ++ (Spec.absorbBlocks F r n S X).drop r) := by
  intro n
  induction n with
  | zero => intro S X; simp [Spec.absorbBlocks]
  | succ n ih =>
    intro S X
    rw [Spec.absorbBlocks, ih]
    simp only [Spec.absorbBlocks, List.drop_drop]
    rw [show r + r * n = r * (n + 1) by rw [Nat.mul_succ, Nat.add_comm]]


theorem zeros_length (n : Nat) : (zeros n).length = n := by simp [zeros]

/-- the last (padded) block as `bashHashStepG_internal` builds it in `s1` -/
theorem stepG_block (T Sn : Bytes) (r : Nat) (hT : T.length < r) (hS : r ≤ Sn.length) :
    ((opAt copyOp (T ++ Sn.drop T.length) T.length (zeros (r - T.length))).1).set T.length 0x40
      = T ++ 0x40 :: zeros (r - 1 - T.length) ++ Sn.drop r := by
  have hs : (T ++ Sn.drop T.length).length = Sn.length := by
    rw [List.length_append, List.length_drop]; omega
  rw [opAt_copy _ _ _ (by rw [zeros_length, hs]; omega), zeros_length, List.take_left' rfl,
    show T.length + (r - T.length) = r by omega]
  have hd : (T ++ Sn.drop T.length).drop r = Sn.drop r := by
    rw [show r = T.length + (r - T.length) by omega, ← List.drop_drop, List.drop_left' rfl, List.drop_drop,
      show T.length + (r - T.length) = r by omega]
  rw [hd, List.append_assoc, List.set_append_right _ _ (Nat.le_refl _), Nat.sub_self,
    show r - T.length = (r - 1 - T.length) + 1 by omega]
  simp [zeros, List.replicate_succ]

/-- **bash hash of the code = bash hash of the standard, every level, every data length** -/
theorem bashHash_spec (hF : ∀ s : Bytes, s.length = 192 → (F s).length = 192) (l : Nat) (hl : l ≤ 256) (X : Bytes) :
    hashStepG F (l / 4) (hashStepH F X (hashStart l)) = Spec.bashHash F l X := by
  have hr : 0 < 192 - l / 2 := by omega
  generalize hrdef : 192 - l / 2 = r at hr
  have hr192 : r ≤ 192 := by omega
  generalize hS0 : (zeros 192).set 184 (UInt8.ofNat (l / 4)) = S0
  have hS0len : S0.length = 192 := by rw [← hS0, List.length_set, zeros_length]
  have hst : hashStart l = ⟨S0, r, 0⟩ := by simp only [hashStart, hrdef, hS0]
  have hn : r * (X.length / r) ≤ X.length := Nat.mul_div_le _ _
  have hdm : r * (X.length / r) + X.length % r = X.length := Nat.div_add_mod _ _
  obtain ⟨hb1, hb2⟩ := fold_blocks F 192 hF r hr hr192 (X.length / r) S0 X hS0len hn
  generalize hSn : Spec.absorbBlocks F r (X.length / r) S0 X = Sn at hb1 hb2
  have hTlen : (X.drop (r * (X.length / r))).length = X.length % r := by rw [List.length_drop]; omega
  have hTlt : X.length % r < r := Nat.mod_lt _ hr
  generalize hT : X.drop (r * (X.length / r)) = T at hTlen
  -- the state after StepH
  have hstate : hashStepH F X (hashStart l) = ⟨T ++ Sn.drop T.length, r, T.length⟩ := by
    rw [hst, hashStepH, stepGen_eq_fold F copyOp X _ hr]
    conv => lhs; rw [← List.take_append_drop (r * (X.length / r)) X]
    rw [foldBytes_append, hb1, hT, fold_partial F copyOp T _ (by simp only; omega)]
    simp only [Nat.zero_add]
    rw [opAt_copy _ _ _ (by omega)]
    simp
  -- the standard's side
  have hPlen : (Spec.pad r X).length = r * (X.length / r + 1) := by
    simp only [Spec.pad, List.length_append, List.length_cons, zeros_length]
    rw [Nat.mul_succ]; omega
  have hspec : Spec.bashHash F l X
      = (F (T ++ 0x40 :: zeros (r - 1 - T.length) ++ Sn.drop r)).take (l / 4) := by
    simp only [Spec.bashHash, hrdef, hS0]
    rw [hPlen, Nat.mul_div_cancel_left _ hr, absorbBlocks_succ]
    have e1 : Spec.absorbBlocks F r (X.length / r) S0 (Spec.pad r X) = Sn := by
      rw [Spec.pad, absorbBlocks_append F r _ _ _ _ hn, hSn]
    have e2 : (Spec.pad r X).drop (r * (X.length / r)) = T ++ 0x40 :: zeros (r - 1 - T.length) := by
      rw [Spec.pad, List.drop_append_of_le_length hn, hT, hTlen]
    have e3 : (T ++ 0x40 :: zeros (r - 1 - T.length)).length = r := by
      simp only [List.length_append, List.length_cons, zeros_length]; omega
    have e4 : (T ++ 0x40 :: zeros (r - 1 - T.length)).take r = T ++ 0x40 :: zeros (r - 1 - T.length) :=
      List.take_of_length_le (by rw [e3]; exact Nat.le_refl _)
    rw [e1, e2, e4]
  rw [hspec, hstate]
  simp only [hashStepG]
  by_cases h0 : T.length = 0
  · have hnil : T = [] := List.length_eq_zero_iff.mp h0
    have := stepG_block [] Sn r (by simpa using hr) (by omega)
    simp only [List.length_nil, List.drop_zero, List.nil_append, Nat.sub_zero] at this
    subst hnil
    simp only [List.length_nil, ne_eq, not_true_eq_false, if_false, List.nil_append, List.drop_zero,
      Nat.sub_zero, this]
  · simp only [ne_eq, h0, not_false_eq_true, if_true]
    rw [stepG_block T Sn r (by omega) (by omega)]


theorem sum_const8 {α : Type} (l : List α) : (l.map (fun _ => 8)).sum = 8 * l.length := by
  induction l with
  | nil => rfl
  | cons a l ih => simp only [List.map_cons, List.sum_cons, ih, List.length_cons]; omega

theorem bashF_length (b : Bytes) : (bashF b).length = 192 := by
  simp only [bashF, ofWords, storeU64, List.length_flatMap, List.length_map, List.length_range]
  rw [sum_const8, Vector.length_toList]

end Bee2V.C03

import Bee2V.C03.LemmasSponge
/-!
# Command histories of the programmable automaton: invariant, decr ∘ encr = id, chunking
-/
namespace Bee2V.C03
open Bee2V.Gen.C03

variable (F : Bytes → Bytes)

/-- the commands of bash_prg.c after Start; `…More` = a further `…Step` call of the running command -/
inductive Cmd
  | restart (ann key : Bytes)
  | absorb (x : Bytes) | absorbMore (x : Bytes)
  | squeeze (n : Nat) | squeezeMore (n : Nat)
  | encr (x : Bytes) | encrMore (x : Bytes)
  | decr (x : Bytes) | decrMore (x : Bytes)
  | ratchet

/-- precondition of the header that matters for the state invariant -/
def Cmd.ok : Cmd → Prop
  | .restart ann key => ann.length ≤ 60 ∧ key.length ≤ 60
  | _ => True

def Cmd.run : Cmd → PrgSt → PrgSt
  | .restart a k, st => prgRestart F a k st
  | .absorb x, st => prgAbsorb F x st
  | .absorbMore x, st => prgAbsorbStep F x st
  | .squeeze n, st => (prgSqueeze F (zeros n) st).1
  | .squeezeMore n, st => (prgSqueezeStep F (zeros n) st).1
  | .encr x, st => (prgEncr F x st).1
  | .encrMore x, st => (prgEncrStep F x st).1
  | .decr x, st => (prgDecr F x st).1
  | .decrMore x, st => (prgDecrStep F x st).1
  | .ratchet, st => prgRatchet F st

def runAll (h : List Cmd) (st : PrgSt) : PrgSt := h.foldl (fun st c => c.run F st) st

/-- state invariant: parameters of the standard, `pos < buf_len`, `buf_len` is the keyed or the keyless rate -/
def PrgSt.WF (st : PrgSt) : Prop :=
  (st.l = 128 ∨ st.l = 192 ∨ st.l = 256) ∧ (st.d = 1 ∨ st.d = 2) ∧ st.sp.pos < st.sp.bufLen ∧
    (st.sp.bufLen = 192 - st.l * (2 + st.d) / 16 ∨ st.sp.bufLen = 192 - st.d * st.l / 4)

theorem prgStart_WF (l d : Nat) (ann key : Bytes) (hl : l = 128 ∨ l = 192 ∨ l = 256) (hd : d = 1 ∨ d = 2)
    (ha : ann.length ≤ 60) (hk : key.length ≤ 60) : (prgStart l d ann key).WF := by
  refine ⟨hl, hd, ?_, ?_⟩
  · simp only [prgStart]
    split
    · rcases hl with h | h | h <;> rcases hd with h' | h' <;> subst h <;> subst h' <;> omega
    · rename_i hk0
      have : key.length = 0 := by omega
      rcases hl with h | h | h <;> rcases hd with h' | h' <;> subst h <;> subst h' <;> omega
  · simp only [prgStart]
    split
    · exact Or.inl rfl
    · exact Or.inr rfl

theorem prgCommit_WF (code : UInt8) (st : PrgSt) (h : st.WF) : (prgCommit F code st).WF := by
  obtain ⟨hl, hd, hp, hb⟩ := h
  exact ⟨hl, hd, by simp only [prgCommit]; omega, hb⟩

theorem step_WF (op : OpB) (x : Bytes) (st : PrgSt) (h : st.WF) :
    ({ st with sp := (stepGen F op x st.sp).1 } : PrgSt).WF := by
  obtain ⟨hl, hd, hp, hb⟩ := h
  refine ⟨hl, hd, stepGen_pos_lt F op x st.sp hp, ?_⟩
  simp only [stepGen_bufLen F op x st.sp hp]; exact hb

theorem Cmd.run_WF (c : Cmd) (hc : c.ok) (st : PrgSt) (h : st.WF) : (c.run F st).WF := by
  cases c with
  | restart a k =>
    obtain ⟨hl, hd, hp, hb⟩ := h
    simp only [Cmd.ok] at hc
    simp only [Cmd.run, prgRestart]
    split
    · refine ⟨hl, hd, ?_, Or.inl rfl⟩
      simp only [prgCommit]
      rcases hl with h | h | h <;> rcases hd with h' | h' <;> rw [h, h'] <;> omega
    · rename_i hk0
      have hk : k.length = 0 := by omega
      refine ⟨hl, hd, ?_, hb⟩
      simp only [prgCommit]
      rcases hb with hb | hb <;> rw [hb] <;>
        rcases hl with h | h | h <;> rcases hd with h' | h' <;> rw [h, h'] <;> omega
  | absorb x => exact step_WF F xorOp x _ (prgCommit_WF F _ st h)
  | absorbMore x => exact step_WF F xorOp x _ h
  | squeeze n => exact step_WF F sqzOp _ _ (prgCommit_WF F _ st h)
  | squeezeMore n => exact step_WF F sqzOp _ _ h
  | encr x => exact step_WF F encOp x _ (prgCommit_WF F _ st h)
  | encrMore x => exact step_WF F encOp x _ h
  | decr x => exact step_WF F decOp x _ (prgCommit_WF F _ st h)
  | decrMore x => exact step_WF F decOp x _ h
  | ratchet =>
    obtain ⟨hl, hd, hp, hb⟩ := h
    exact ⟨hl, hd, by show 0 < st.sp.bufLen; omega, hb⟩

theorem runAll_WF (h : List Cmd) (hok : ∀ c ∈ h, c.ok) (st : PrgSt) (hw : st.WF) : (runAll F h st).WF := by
  induction h generalizing st with
  | nil => exact hw
  | cons c cs ih =>
    simp only [runAll, List.foldl_cons]
    exact ih (fun c' hc' => hok c' (List.mem_cons_of_mem _ hc')) _
      (Cmd.run_WF F c (hok c List.mem_cons_self) st hw)

/-- decryption inverts encryption (and both parties reach the same state) from every well-formed state -/
theorem prgDecr_prgEncr (x : Bytes) (st : PrgSt) (h : st.WF) :
    prgDecr F (prgEncr F x st).2 st = ((prgEncr F x st).1, x) := by
  have hw : (prgEncrStart F st).WF := prgCommit_WF F codeText st h
  have e : prgDecrStart F st = prgEncrStart F st := rfl   -- both commit BASH_PRG_TEXT (generated codes)
  simp only [prgDecr, prgEncr, prgDecrStep, prgEncrStep, e]
  rw [stepGen_dec_enc F x _ hw.2.2.1]

/-- and encryption inverts decryption -/
theorem fold_enc_dec (x : Bytes) (st : Sp) :
    foldBytes F encOp (foldBytes F decOp x st).2 st = ((foldBytes F decOp x st).1, x) := by
  induction x generalizing st with
  | nil => rfl
  | cons d ds ih =>
    have hc : ∀ b : UInt8, b ^^^ (d ^^^ b) = d := by
      intro b; rw [UInt8.xor_comm d b, ← UInt8.xor_assoc, UInt8.xor_self, UInt8.zero_xor]
    have e1 : (stepByte F encOp st (stepByte F decOp st d).2).1 = (stepByte F decOp st d).1 := by
      simp only [stepByte, encOp, decOp]
      split <;> simp
    have e2 : (stepByte F encOp st (stepByte F decOp st d).2).2 = d := by
      simp only [stepByte, encOp, decOp]
      split <;> simp [hc]
    simp only [foldBytes]
    rw [e1, e2, ih]

end Bee2V.C03

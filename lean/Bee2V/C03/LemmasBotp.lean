import Bee2V.C03.LemmasCtr
import Bee2V.C03.SpecBotp
/-!
# botp.c = HOTP / TOTP / OCRA of the standard (arithmetic form)
-/
namespace Bee2V.C03
open Bee2V.Proto Bee2V.Gen.C03

theorem xor_eq_or_of_and_eq_zero (x y : Nat) (h : x &&& y = 0) : x ^^^ y = x ||| y := by
  apply Nat.eq_of_testBit_eq
  intro i
  have := congrArg (fun n => n.testBit i) h
  simp only [Nat.testBit_and, Nat.zero_testBit] at this
  simp only [Nat.testBit_xor, Nat.testBit_or]
  cases hx : x.testBit i <;> cases hy : y.testBit i <;> simp_all

theorem shl8_and (a b : Nat) (hb : b < 256) : (a <<< 8) &&& b = 0 := by
  apply Nat.eq_of_testBit_eq
  intro i
  simp only [Nat.testBit_and, Nat.testBit_shiftLeft, Nat.zero_testBit]
  by_cases hi : i ≥ 8
  · have : b.testBit i = false := by
      apply Nat.testBit_lt_two_pow
      calc b < 256 := hb
        _ = 2 ^ 8 := rfl
        _ ≤ 2 ^ i := Nat.pow_le_pow_right (by decide) hi
    simp [this]
  · simp [hi]

/-- `pwd <<= 8, pwd ^= mac[k]` on a value below 2^24 -/
theorem shl8_xor (a : UInt32) (b : UInt8) (ha : a.toNat < 2 ^ 24) :
    ((a <<< 8) ^^^ b.toUInt32).toNat = a.toNat * 256 + b.toNat := by
  have hb := b.toNat_lt
  rw [UInt32.toNat_xor, UInt32.toNat_shiftLeft, UInt8.toNat_toUInt32]
  have h8 : (8 : UInt32).toNat % 32 = 8 := rfl
  rw [h8]
  have hlt : a.toNat <<< 8 < 2 ^ 32 := by rw [Nat.shiftLeft_eq]; omega
  rw [Nat.mod_eq_of_lt hlt, xor_eq_or_of_and_eq_zero _ _ (shl8_and _ _ (by omega)),
    ← Nat.shiftLeft_add_eq_or_of_lt (by omega : b.toNat < 2 ^ 8), Nat.shiftLeft_eq]

theorem getD_toNat_lt (l : Bytes) (i : Nat) : (l.getD i 0).toNat < 256 := (l.getD i 0).toNat_lt

/-- **dynamic truncation of the code = the standard's**: offset `mac[last] mod 16`, big-endian 32-bit word,
top bit cleared, `mod 10^digit` -/
theorem botpDTnum_spec (digit : Nat) (hd : digit < 10) (mac : Bytes) :
    botpDTnum digit mac = Spec.dtNum mac % 10 ^ digit := by
  unfold botpDTnum Spec.dtNum
  rw [powersOf10_eq digit hd]
  have hoff : (mac.getD (mac.length - 1) 0 &&& 15).toNat = (mac.getD (mac.length - 1) 0).toNat % 16 := by
    rw [UInt8.toNat_and]
    exact Nat.and_two_pow_sub_one_eq_mod _ 4
  simp only [hoff]
  generalize (mac.getD (mac.length - 1) 0).toNat % 16 = off
  have h0 := getD_toNat_lt mac off
  have h1 := getD_toNat_lt mac (off + 1)
  have h2 := getD_toNat_lt mac (off + 2)
  have h3 := getD_toNat_lt mac (off + 3)
  have e0 : (mac.getD off 0).toUInt32.toNat = (mac.getD off 0).toNat := UInt8.toNat_toUInt32 _
  have e1 := shl8_xor (mac.getD off 0).toUInt32 (mac.getD (off + 1) 0) (by rw [e0]; omega)
  have e2 := shl8_xor _ (mac.getD (off + 2) 0) (by rw [e1, e0]; omega)
  have e3 := shl8_xor _ (mac.getD (off + 3) 0) (by rw [e2, e1, e0]; omega)
  have emask : ∀ x : UInt32, (x &&& 0x7FFFFFFF).toNat = x.toNat % 2 ^ 31 := by
    intro x
    rw [UInt32.toNat_and]
    exact Nat.and_two_pow_sub_one_eq_mod _ 31
  rw [emask, e3, e2, e1, e0, Nat.add_zero]
  generalize (mac.getD off 0).toNat = a0
  generalize (mac.getD (off + 1) 0).toNat = a1
  generalize (mac.getD (off + 2) 0).toNat = a2
  generalize (mac.getD (off + 3) 0).toNat = a3
  have e : ((a0 * 256 + a1) * 256 + a2) * 256 + a3 = a0 * 2 ^ 24 + a1 * 2 ^ 16 + a2 * 2 ^ 8 + a3 := by omega
  rw [e]

theorem decFromU32_eq (d n : Nat) : decFromU32 d n = Spec.decStr d n := by
  induction d generalizing n with
  | zero => rfl
  | succ d ih => simp only [decFromU32, Spec.decStr, ih, Nat.add_comm]

theorem botpDT_eq (digit : Nat) (hd : digit < 10) (mac : Bytes) : botpDT digit mac = Spec.otp digit mac := by
  rw [botpDT, Spec.otp, botpDTnum_spec digit hd, decFromU32_eq]

theorem leNat_natLE (n v : Nat) : leNat (natLE n v) = v % 256 ^ n := by
  induction n generalizing v with
  | zero => simp [natLE, leNat, Nat.mod_one]
  | succ n ih =>
    rw [natLE_succ, leNat_cons, ih, Nat.pow_succ, Nat.mul_comm (256 ^ n) 256, Nat.mod_mul]
    have : (UInt8.ofNat (v % 256)).toNat = v % 256 := by
      simp only [UInt8.toNat_ofNat']; omega
    rw [this]

theorem natLE_mod (n v : Nat) : natLE n (v % 256 ^ n) = natLE n v := by
  have h := natLE_add_mul n (v % 256 ^ n) (v / 256 ^ n)
  rw [Nat.mod_add_div] at h
  exact h.symm

/-- the counter of the code, as a number -/
theorem botpCtrNext_be8 (C : Nat) : botpCtrNext (Spec.be8 C) = Spec.be8 (C + 1) := by
  rw [botpCtrNext_spec]
  simp only [Spec.be8, List.reverse_reverse, List.length_reverse, natLE_length, leNat_natLE]
  congr 1
  rw [← natLE_mod 8 (C % 256 ^ 8 + 1), ← natLE_mod 8 (C + 1)]
  congr 1
  omega

theorem ofNat_mod256 (v : Nat) : UInt8.ofNat (v % 256) = UInt8.ofNat v := by
  apply UInt8.toNat_inj.mp
  simp only [UInt8.toNat_ofNat']; omega

/-- `botpTimeToCtr` = `⟨t⟩_64` big-endian -/
theorem botpTimeToCtr_be8 (t : Nat) : botpTimeToCtr t = Spec.be8 t := by
  have hr : List.range 8 = [0, 1, 2, 3, 4, 5, 6, 7] := by decide
  simp only [botpTimeToCtr, Spec.be8, natLE, ofNat_mod256, Nat.div_div_eq_div_mul, hr]
  simp


/-! ## HOTP / TOTP -/

/-- `botpHOTPStepR`: the password is `HOTP(K, C)`, the counter becomes `C + 1 (mod 2^64)` -/
theorem hotpStepR_spec (key : Bytes) (C : Nat) (st : HotpSt) (hd : st.digit < 10)
    (hk : st.keySt = Belt.hmacStart key) (hc : st.ctr = Spec.be8 C) :
    hotpStepR st = ({ st with ctr := Spec.be8 (C + 1) }, Spec.hotp key st.digit C) := by
  simp only [hotpStepR, hk, hc, botpCtrNext_be8, botpDT_eq _ hd, Spec.hotp]
  rfl

/-- `botpHOTPStepV`: success iff the password is `HOTP(K, C)`; the counter advances on success only -/
theorem hotpStepV_spec (key : Bytes) (C : Nat) (otp : Bytes) (st : HotpSt) (hd : st.digit < 10)
    (hk : st.keySt = Belt.hmacStart key) (hc : st.ctr = Spec.be8 C) :
    hotpStepV otp st =
      if otp = Spec.hotp key st.digit C then ({ st with ctr := Spec.be8 (C + 1) }, true) else (st, false) := by
  simp only [hotpStepV, hotpStepR_spec key C st hd hk hc, eq_comm]

theorem hotpStart_keySt (digit : Nat) (key ctr : Bytes) :
    (hotpStepS ctr (hotpStart digit key)).keySt = Belt.hmacStart key ∧
    (hotpStepS ctr (hotpStart digit key)).digit = digit ∧ (hotpStepS ctr (hotpStart digit key)).ctr = ctr :=
  ⟨rfl, rfl, rfl⟩

/-- `botpTOTPStepR` = `TOTP(K, T)` for the rounded time `T` -/
theorem totpStepR_spec (key : Bytes) (digit T : Nat) (hd : digit < 10) :
    totpStepR digit (Belt.hmacStart key) T = Spec.totp key digit T := by
  simp only [totpStepR, botpTimeToCtr_be8, botpDT_eq _ hd, Spec.totp]
  rfl

theorem totpStepV_spec (key otp : Bytes) (digit T : Nat) (hd : digit < 10) :
    totpStepV otp digit (Belt.hmacStart key) T = decide (Spec.totp key digit T = otp) := by
  simp only [totpStepV, totpStepR_spec key digit T hd]

/-! ## OCRA -/

/-- the state `botpOCRAStart` + `botpOCRAStepS` set up for suite parameters `p` -/
structure OcraSt.Of (key suite : Bytes) (p : Spec.OcraParams) (C : Nat) (P S : Bytes) (st : OcraSt) : Prop where
  digit : st.digit = p.digit
  ctrLen : (st.ctrLen ≠ 0) = (p.ctr = true)
  pLen : st.pLen = p.pLen
  sLen : st.sLen = p.sLen
  ts : st.ts = p.ts
  ctr : st.ctr = Spec.be8 C
  p : st.p = P
  s : st.s = S
  key : st.keySt = Belt.hmacStepA (suite ++ [0]) (Belt.hmacStart key)

theorem hmac_opt (c : Prop) [Decidable c] (X : Bytes) (h : Belt.HmacSt) (hw : h.WF) :
    (if c then Belt.hmacStepA X h else h) = Belt.hmacStepA (if c then X else []) h := by
  split
  · rfl
  · rw [Belt.hmacStepA_nil h hw]

/-- **`botpOCRAStepR` = OCRA of the standard**: `DT(hmac(K, suite‖00‖[C]‖Q‖0…‖[P]‖[S]‖[T]))`; the counter (if the
suite has one) becomes `C + 1` -/
theorem ocraStepR_spec (key suite : Bytes) (p : Spec.OcraParams) (C : Nat) (P S Q : Bytes) (T : Nat)
    (st : OcraSt) (h : st.Of key suite p C P S) (hd : p.digit < 10) :
    ocraStepR Q T st =
      ({ st with ctr := if p.ctr then Spec.be8 (C + 1) else st.ctr }, Spec.ocra key suite p C Q P S T) := by
  have w0 := Belt.hmacStart_WF key
  have w1 := Belt.hmacStepA_WF (suite ++ [0]) _ w0
  have hctr : (if st.ctrLen ≠ 0 then (Belt.hmacStepA st.ctr st.keySt, botpCtrNext st.ctr) else (st.keySt, st.ctr))
      = (Belt.hmacStepA (if p.ctr then Spec.be8 C else []) st.keySt,
          if p.ctr then Spec.be8 (C + 1) else st.ctr) := by
    have := h.ctrLen
    by_cases hc : p.ctr = true
    · have : st.ctrLen ≠ 0 := by rw [this]; exact hc
      simp only [this, ne_eq, not_false_eq_true, if_true, hc, h.ctr, botpCtrNext_be8]
    · have hn : ¬ (st.ctrLen ≠ 0) := by rw [this]; exact hc
      simp only [hn, if_false, hc, Bool.false_eq_true]
      rw [h.key, Belt.hmacStepA_nil _ w1]
  simp only [ocraStepR, hctr]
  have w2 := Belt.hmacStepA_WF (if p.ctr then Spec.be8 C else []) _ (h.key ▸ w1)
  have w3 := Belt.hmacStepA_WF (Q ++ zeros (128 - Q.length)) _ w2
  rw [hmac_opt (st.pLen ≠ 0) st.p _ w3]
  have w4 := Belt.hmacStepA_WF (if st.pLen ≠ 0 then st.p else []) _ w3
  rw [hmac_opt (st.sLen ≠ 0) st.s _ w4]
  have w5 := Belt.hmacStepA_WF (if st.sLen ≠ 0 then st.s else []) _ w4
  rw [hmac_opt (st.ts ≠ 0) (botpTimeToCtr T) _ w5]
  rw [h.key, Belt.hmacStepA_append _ w0, Belt.hmacStepA_append _ w0, Belt.hmacStepA_append _ w0,
    Belt.hmacStepA_append _ w0, Belt.hmacStepA_append _ w0]
  simp only [h.digit, h.pLen, h.sLen, h.ts, h.p, h.s, botpTimeToCtr_be8, botpDT_eq _ hd, Spec.ocra,
    Spec.ocraInput, Belt.hmac]

/-- `botpOCRAStepV`: success iff the password is the OCRA value; the counter advances on success only -/
theorem ocraStepV_spec (key suite : Bytes) (p : Spec.OcraParams) (C : Nat) (P S Q otp : Bytes) (T : Nat)
    (st : OcraSt) (h : st.Of key suite p C P S) (hd : p.digit < 10) :
    ocraStepV otp Q T st =
      if otp = Spec.ocra key suite p C Q P S T
      then ({ st with ctr := if p.ctr then Spec.be8 (C + 1) else st.ctr }, true) else (st, false) := by
  simp only [ocraStepV, ocraStepR_spec key suite p C P S Q T st h hd, eq_comm]

end Bee2V.C03

/-
Executable, code-shaped model of belt-hash and belt-HMAC of bee2 (no Mathlib):
  src/crypto/belt/belt_block.c  (macros G5/G13/G21, R, subkey_e, E; beltBlockEncr2; beltH)
  src/crypto/belt/belt_lcl.c    (beltBlockAddBitSizeU32, the B_PER_S = 64 branch)
  src/crypto/belt/belt_compr.c  (beltCompr, beltCompr2)
  src/crypto/belt/belt_hash.c   (beltHashStart / StepH / StepG)
  src/crypto/belt/belt_hmac.c   (beltHMACStart / StepA / StepG)
The constant tables come from the generated module `Bee2V.Gen.C03Belt`.
The model is tied to the code by the correspondence check (ops `belt.*` of `BeltDrv.lean`
against `harness/c03_belt.h`); nothing here is asserted about the standard.

Representation.
* a belt block `u32[4]` is `W4`, a double block `u32[8]` is `W8 = lo ‖ hi` (`p` and `p + 4` in C);
* octet strings are `List UInt8`; a 32-octet buffer read through `(u32*)` is `w8OfBytes`
  (little-endian words: on big-endian machines the code byte-swaps to the same effect);
* `block`/`filled` of the states: the model keeps ONLY the filled prefix of `block`
  (`filled = block.length`).  Octets of `st->block` at positions ≥ `filled` are dead in the C code:
  every reader (`beltCompr2` on a completed block, the padding in StepG) overwrites them first.
-/
import Bee2V.Gen.C03Belt
namespace Bee2V.C03.Belt
open Bee2V.Gen.C03Belt

/-! ### words and blocks -/

/-- `u32[4]` -/
structure W4 where
  a : UInt32
  b : UInt32
  c : UInt32
  d : UInt32
deriving DecidableEq, Repr, Inhabited

/-- `u32[8]`: `lo` = words 0..3 (pointer `p`), `hi` = words 4..7 (pointer `p + 4`) -/
structure W8 where
  lo : W4
  hi : W4
deriving DecidableEq, Repr, Inhabited

def W4.zero : W4 := ⟨0, 0, 0, 0⟩

/-- `beltBlockXor` / `beltBlockXor2` (one 128-bit block) -/
def W4.xor (x y : W4) : W4 := ⟨x.a ^^^ y.a, x.b ^^^ y.b, x.c ^^^ y.c, x.d ^^^ y.d⟩

/-- `beltBlockNeg` -/
def W4.neg (x : W4) : W4 := ⟨~~~x.a, ~~~x.b, ~~~x.c, ~~~x.d⟩

/-- `K[i]` for `i < 8` -/
def W8.get (k : W8) : Nat → UInt32
  | 0 => k.lo.a | 1 => k.lo.b | 2 => k.lo.c | 3 => k.lo.d
  | 4 => k.hi.a | 5 => k.hi.b | 6 => k.hi.c | 7 => k.hi.d
  | _ => 0

/-- little-endian word of four octets -/
def le32 (b0 b1 b2 b3 : UInt8) : UInt32 :=
  b0.toUInt32 ||| (b1.toUInt32 <<< 8) ||| (b2.toUInt32 <<< 16) ||| (b3.toUInt32 <<< 24)

/-- `(u32*)buf` of a 32-octet buffer (callers always pass exactly 32 octets) -/
def w8OfBytes (l : List UInt8) : W8 :=
  let v := l.toArray
  let w (i : Nat) : UInt32 := le32 (v.getD i 0) (v.getD (i + 1) 0) (v.getD (i + 2) 0) (v.getD (i + 3) 0)
  ⟨⟨w 0, w 4, w 8, w 12⟩, ⟨w 16, w 20, w 24, w 28⟩⟩

/-- `(u32*)buf` of a 16-octet buffer -/
def w4OfBytes (l : List UInt8) : W4 :=
  let v := l.toArray
  let w (i : Nat) : UInt32 := le32 (v.getD i 0) (v.getD (i + 1) 0) (v.getD (i + 2) 0) (v.getD (i + 3) 0)
  ⟨w 0, w 4, w 8, w 12⟩

def u32ToBytes (x : UInt32) : List UInt8 :=
  [x.toUInt8, (x >>> 8).toUInt8, (x >>> 16).toUInt8, (x >>> 24).toUInt8]

def w4ToBytes (x : W4) : List UInt8 :=
  u32ToBytes x.a ++ u32ToBytes x.b ++ u32ToBytes x.c ++ u32ToBytes x.d

/-- `u32To(dest, 32, src)` -/
def w8ToBytes (x : W8) : List UInt8 := w4ToBytes x.lo ++ w4ToBytes x.hi

/-! ### belt_block.c: G-blocks, round, E -/

@[inline] def tab (t : Array UInt32) (i : UInt32) : UInt32 := t.getD i.toNat 0

/-- `#define G5(x)  H5[(x) & 255] ^ H13[(x) >> 8 & 255] ^ H21[(x) >> 16 & 255] ^ H29[(x) >> 24]` -/
def G5 (x : UInt32) : UInt32 :=
  tab H5 (x &&& 255) ^^^ tab H13 (x >>> 8 &&& 255) ^^^ tab H21 (x >>> 16 &&& 255) ^^^ tab H29 (x >>> 24)

/-- `#define G13(x) H13[(x) & 255] ^ H21[(x) >> 8 & 255] ^ H29[(x) >> 16 & 255] ^ H5[(x) >> 24]` -/
def G13 (x : UInt32) : UInt32 :=
  tab H13 (x &&& 255) ^^^ tab H21 (x >>> 8 &&& 255) ^^^ tab H29 (x >>> 16 &&& 255) ^^^ tab H5 (x >>> 24)

/-- `#define G21(x) H21[(x) & 255] ^ H29[(x) >> 8 & 255] ^ H5[(x) >> 16 & 255] ^ H13[(x) >> 24]` -/
def G21 (x : UInt32) : UInt32 :=
  tab H21 (x &&& 255) ^^^ tab H29 (x >>> 8 &&& 255) ^^^ tab H5 (x >>> 16 &&& 255) ^^^ tab H13 (x >>> 24)

/-- `#define subkey_e(K, i, j) K[(7 * (i) - 7 + (j)) % 8]` -/
@[inline] def subkeyE (k : W8) (i j : Nat) : UInt32 := k.get ((7 * i - 7 + j) % 8)

/-- macro `R(a, b, c, d, K, i, subkey_e)`: the nine statements, in order; returns the new `(a, b, c, d)` -/
def roundR (k : W8) (i : Nat) (a b c d : UInt32) : UInt32 × UInt32 × UInt32 × UInt32 :=
  let b := b ^^^ G5 (a + subkeyE k i 0)
  let c := c ^^^ G21 (d + subkeyE k i 1)
  let a := a - G13 (b + subkeyE k i 2)
  let c := c + b
  let b := b + (G21 (c + subkeyE k i 3) ^^^ UInt32.ofNat i)
  let c := c - b
  let d := d + G13 (c + subkeyE k i 4)
  let b := b ^^^ G21 (a + subkeyE k i 5)
  let c := c ^^^ G5 (d + subkeyE k i 6)
  (a, b, c, d)

/-- `beltBlockEncr2(block, key)` = macro `E((block+0), (block+1), (block+2), (block+3), key)` -/
def blockEncr (x : W4) (key : W8) : W4 :=
  let a := x.a; let b := x.b; let c := x.c; let d := x.d
  let (a, b, c, d) := roundR key 1 a b c d
  let (b, d, a, c) := roundR key 2 b d a c
  let (d, c, b, a) := roundR key 3 d c b a
  let (c, a, d, b) := roundR key 4 c a d b
  let (a, b, c, d) := roundR key 5 a b c d
  let (b, d, a, c) := roundR key 6 b d a c
  let (d, c, b, a) := roundR key 7 d c b a
  let (c, a, d, b) := roundR key 8 c a d b
  -- *a ^= *b, *b ^= *a, *a ^= *b;
  let a := a ^^^ b; let b := b ^^^ a; let a := a ^^^ b
  -- *c ^= *d, *d ^= *c, *c ^= *d;
  let c := c ^^^ d; let d := d ^^^ c; let c := c ^^^ d
  -- *b ^= *c, *c ^= *b, *b ^= *c;
  let b := b ^^^ c; let c := c ^^^ b; let b := b ^^^ c
  ⟨a, b, c, d⟩

/-! ### belt_compr.c -/

/-- `beltCompr(h, X, stack)`: returns the new `h` -/
def compr (h X : W8) : W8 :=
  -- buf0, buf1 <- h0 + h1
  let buf0 := h.lo.xor h.hi
  let buf1 := buf0
  -- buf0 <- beltBlock(buf0, X) + buf1
  let buf0 := blockEncr buf0 X
  let buf0 := buf0.xor buf1
  -- buf2 <- h0
  let buf2 := h.lo
  -- buf1 <- h1 [buf01 == K1]
  let buf1 := h.hi
  -- h0 <- beltBlock(X0, buf01) + X0
  let h0 := X.lo
  let h0 := blockEncr h0 ⟨buf0, buf1⟩
  let h0 := h0.xor X.lo
  -- buf1 <- ~buf0 [buf12 == K2]
  let buf1 := buf0.neg
  -- h1 <- beltBlock(X1, buf12) + X1
  let h1 := X.hi
  let h1 := blockEncr h1 ⟨buf1, buf2⟩
  let h1 := h1.xor X.hi
  ⟨h0, h1⟩

/-- `beltCompr2(s, h, X, stack)`: returns the new `(s, h)` -/
def compr2 (s : W4) (h X : W8) : W4 × W8 :=
  let buf0 := h.lo.xor h.hi
  let buf1 := buf0
  let buf0 := blockEncr buf0 X
  let buf0 := buf0.xor buf1
  -- s <- s ^ buf0
  let s := s.xor buf0
  let buf2 := h.lo
  let buf1 := h.hi
  let h0 := X.lo
  let h0 := blockEncr h0 ⟨buf0, buf1⟩
  let h0 := h0.xor X.lo
  let buf1 := buf0.neg
  let h1 := X.hi
  let h1 := blockEncr h1 ⟨buf1, buf2⟩
  let h1 := h1.xor X.hi
  (s, ⟨h0, h1⟩)

/-! ### belt_lcl.c: the 128-bit bit-length counter -/

/-- `beltBlockAddBitSizeU32(block, count)`, branch `B_PER_S >= 32` (size_t of 64 bits):
`block <- block + 8 * count`.  `count` is a `size_t`, i.e. `< 2^64`, in every C call; the local
`size_t t = count >> 29` is kept as an (untruncated) `Nat`, which is the same thing for such
counts (then `t < 2^35` and the last `(u32)t` is 0). -/
def addBitSizeU32 (blk : W4) (count : Nat) : W4 :=
  -- register u32 carry = (u32)count << 3;
  let carry : UInt32 := UInt32.ofNat count <<< 3
  -- register size_t t = count >> 29;
  let t : Nat := count >>> 29
  -- carry = (block[0] += carry) < carry;
  let b0 := blk.a + carry
  let carry : UInt32 := if b0 < carry then 1 else 0
  -- if ((block[1] += carry) < carry) block[1] = (u32)t; else carry = (block[1] += (u32)t) < (u32)t;
  let b1 := blk.b + carry
  let (b1, carry) : UInt32 × UInt32 :=
    if b1 < carry then (UInt32.ofNat t, carry)
    else
      let b1 := b1 + UInt32.ofNat t
      (b1, if b1 < UInt32.ofNat t then 1 else 0)
  -- t >>= 16, t >>= 16;
  let t := t >>> 16 >>> 16
  -- if ((block[2] += carry) < carry) block[2] = (u32)t; else carry = (block[2] += (u32)t) < (u32)t;
  let b2 := blk.c + carry
  let (b2, carry) : UInt32 × UInt32 :=
    if b2 < carry then (UInt32.ofNat t, carry)
    else
      let b2 := b2 + UInt32.ofNat t
      (b2, if b2 < UInt32.ofNat t then 1 else 0)
  -- t >>= 16, t >>= 16;
  let t := t >>> 16 >>> 16
  -- block[3] += carry; block[3] += (u32)t;
  let b3 := blk.d + carry
  let b3 := b3 + UInt32.ofNat t
  ⟨b0, b1, b2, b3⟩

/-! ### the absorbing part shared by beltHashStepH and beltHMACStepA

The bodies of `beltHashStepH` and `beltHMACStepA` are the same text up to the names of the
fields (`ls`/`h` versus `ls_in`/`h_in`); `stepCore` is that body. -/

/-- `n ≤ l.length`, without walking the whole list -/
def lenGE : List α → Nat → Bool
  | _, 0 => true
  | [], _ + 1 => false
  | _ :: t, n + 1 => lenGE t n

theorem lenGE_iff (l : List α) (n : Nat) : lenGE l n = true ↔ n ≤ l.length := by
  induction l generalizing n with
  | nil => cases n <;> simp [lenGE]
  | cons x t ih => cases n <;> simp [lenGE, ih]

/-- `while (count >= 32) { block <- buf[0..32); beltCompr2(ls + 4, h, block); buf += 32, count -= 32; }`
returns `(s, h, rest of buf)` -/
def blocksLoop (buf : List UInt8) (s : W4) (h : W8) : W4 × W8 × List UInt8 :=
  if _hge : lenGE buf 32 = true then
    let r := compr2 s h (w8OfBytes (buf.take 32))
    blocksLoop (buf.drop 32) r.1 r.2
  else (s, h, buf)
termination_by buf.length
decreasing_by
  have := (lenGE_iff buf 32).1 _hge
  simp only [List.length_drop]; omega

/-- body of `beltHashStepH` / `beltHMACStepA` on `(ls, h, block[0..filled))` -/
def stepCore (buf : List UInt8) (ls h : W8) (block : List UInt8) : W8 × W8 × List UInt8 :=
  let count := buf.length
  -- beltBlockAddBitSizeU32(st->ls, count);
  let ls : W8 := ⟨addBitSizeU32 ls.lo count, ls.hi⟩
  let filled := block.length
  -- if (st->filled)
  if filled ≠ 0 then
    -- if (count < 32 - st->filled) { memCopy(block + filled, buf, count); filled += count; return; }
    if count < 32 - filled then
      (ls, h, block ++ buf)
    else
      -- memCopy(block + filled, buf, 32 - filled); count -= 32 - filled; buf += 32 - filled;
      let block := block ++ buf.take (32 - filled)
      let buf := buf.drop (32 - filled)
      -- beltCompr2(ls + 4, h, block); filled = 0;
      let r := compr2 ls.hi h (w8OfBytes block)
      -- while (count >= 32) ...
      let q := blocksLoop buf r.1 r.2
      -- if (count) memCopy(block, buf, filled = count);
      if q.2.2.length ≠ 0 then (⟨ls.lo, q.1⟩, q.2.1, q.2.2) else (⟨ls.lo, q.1⟩, q.2.1, [])
  else
    let q := blocksLoop buf ls.hi h
    if q.2.2.length ≠ 0 then (⟨ls.lo, q.1⟩, q.2.1, q.2.2) else (⟨ls.lo, q.1⟩, q.2.1, block)

/-- `memSetZero(block + filled, 32 - filled)` on the filled prefix -/
def padBlock (block : List UInt8) : List UInt8 := block ++ List.replicate (32 - block.length) 0

/-- the finishing part shared by `beltHashStepG_internal` and the first half of
`beltHMACStepG_internal`: works on copies (`s1`, `h1`), the state is left as it was
(`ls + 4` is restored from `s1`); returns `h1`. -/
def finishCore (ls h : W8) (block : List UInt8) : W8 :=
  -- s1 <- ls + 4 (saved), h1 <- h
  let h1 := h
  -- if (st->filled) { pad; beltCompr2(ls + 4, h1, block); }
  let r : W4 × W8 := if block.length ≠ 0 then compr2 ls.hi h1 (w8OfBytes (padBlock block)) else (ls.hi, h1)
  -- beltCompr(h1, ls)   [ls = len ‖ (s possibly updated just above)]
  compr r.2 ⟨ls.lo, r.1⟩
  -- ls + 4 <- s1

/-- `u32From(h, beltH(), 32)` -/
def hInit : W8 := w8OfBytes (H.toList.take 32)

/-! ### belt_hash.c -/

/-- `belt_hash_st` (fields that carry information between calls; `s1`, `h1`, `stack` are scratch) -/
structure HashSt where
  ls : W8                 -- u32 ls[8] : [4]len ‖ [4]s
  h : W8                  -- u32 h[8]
  block : List UInt8      -- octet block[32], the first `filled` octets
deriving DecidableEq, Repr

/-- `size_t filled` -/
def HashSt.filled (st : HashSt) : Nat := st.block.length

/-- `beltHashStart` -/
def hashStart : HashSt :=
  { ls := ⟨W4.zero, W4.zero⟩, h := hInit, block := [] }

/-- `beltHashStepH(buf, count, state)` -/
def hashStepH (buf : List UInt8) (st : HashSt) : HashSt :=
  let r := stepCore buf st.ls st.h st.block
  { ls := r.1, h := r.2.1, block := r.2.2 }

/-- `beltHashStepG(hash, state)`: the 32 octets written to `hash` (the state keeps absorbing afterwards) -/
def hashStepG (st : HashSt) : List UInt8 :=
  w8ToBytes (finishCore st.ls st.h st.block)

def hash (x : List UInt8) : List UInt8 := hashStepG (hashStepH x hashStart)

/-! ### belt_hmac.c -/

/-- `belt_hmac_st` (`h1_in`, `h1_out`, `s1`, `stack` are scratch) -/
structure HmacSt where
  ls_in : W8
  h_in : W8
  ls_out : W8
  h_out : W8
  block : List UInt8      -- octet block[32], the first `filled` octets
deriving DecidableEq, Repr

def HmacSt.filled (st : HmacSt) : Nat := st.block.length

/-- the 32-octet `block` that `beltHMACStart` builds from the key (before `^= 0x36`) -/
def hmacKeyBlock (key : List UInt8) : List UInt8 :=
  let len := key.length
  if len ≤ 32 then
    -- memCopy(block, key, len); memSetZero(block + len, 32 - len);
    key ++ List.replicate (32 - len) 0
  else
    -- ls_in <- 0; AddBitSize(ls_in, len); ls_in + 4 <- 0; h_in <- beltH()
    let lsLo := addBitSizeU32 W4.zero len
    let s := W4.zero
    let h := hInit
    -- while (len >= 32) { block <- key[0..32); beltCompr2(ls_in + 4, h_in, block); key += 32, len -= 32; }
    let q := blocksLoop key s h
    -- if (len) { block <- key ‖ 0; beltCompr2(ls_in + 4, h_in, block); }
    let r : W4 × W8 :=
      if q.2.2.length ≠ 0 then compr2 q.1 q.2.1 (w8OfBytes (padBlock q.2.2)) else (q.1, q.2.1)
    -- beltCompr(h_in, ls_in); block <- h_in
    w8ToBytes (compr r.2 ⟨lsLo, r.1⟩)

/-- `beltHMACStart(state, key, len)` -/
def hmacStart (key : List UInt8) : HmacSt :=
  let block := hmacKeyBlock key
  -- for (len = 0; len < 32; ++len) block[len] ^= 0x36;
  let block := block.map (· ^^^ 0x36)
  -- ls_in <- 0 + 8 * 32, s <- 0, h_in <- beltH(); beltCompr2(ls_in + 4, h_in, block); filled = 0
  let lsInLo := addBitSizeU32 W4.zero 32
  let rin := compr2 W4.zero hInit (w8OfBytes block)
  -- for (; len--; ) block[len] ^= 0x6A;
  let block := block.map (· ^^^ 0x6A)
  -- ls_out <- 0 + 8 * 64, s <- 0, h_out <- beltH(); beltCompr2(ls_out + 4, h_out, block)
  let lsOutLo := addBitSizeU32 W4.zero (32 * 2)
  let rout := compr2 W4.zero hInit (w8OfBytes block)
  { ls_in := ⟨lsInLo, rin.1⟩, h_in := rin.2, ls_out := ⟨lsOutLo, rout.1⟩, h_out := rout.2, block := [] }

/-- `beltHMACStepA(buf, count, state)` -/
def hmacStepA (buf : List UInt8) (st : HmacSt) : HmacSt :=
  let r := stepCore buf st.ls_in st.h_in st.block
  { st with ls_in := r.1, h_in := r.2.1, block := r.2.2 }

/-- `beltHMACStepG(mac, state)`: the 32 octets written to `mac`.  `beltHMACStepG_internal` works on
the copies `h1_in`, `h1_out`, `s1` and restores `ls_in + 4`, `ls_out + 4`, so the state is unchanged
and `beltHMACStepA` may continue. -/
def hmacStepG (st : HmacSt) : List UInt8 :=
  -- inner hash value h1_in
  let h1_in := finishCore st.ls_in st.h_in st.block
  -- s1 <- ls_out + 4; h1_out <- h_out; beltCompr2(ls_out + 4, h1_out, h1_in);
  let r := compr2 st.ls_out.hi st.h_out h1_in
  -- beltCompr(h1_out, ls_out); ls_out + 4 <- s1
  let h1_out := compr r.2 ⟨st.ls_out.lo, r.1⟩
  w8ToBytes h1_out

def hmac (key x : List UInt8) : List UInt8 := hmacStepG (hmacStepA x (hmacStart key))

end Bee2V.C03.Belt

import Bee2V.C03.BashF
import Bee2V.Base.Proto
namespace Bee2V.C03.Drv
open Bee2V.Proto Bee2V.C03

/-- `bashf <block192>` -> block after bashF -/
def hBashF : List String → String
  | [b] =>
    match parseHex b with
    | some b => if b.length = 192 then toHex (bashF b) else "bad-op"
    | none => "bad-op"
  | _ => "bad-op"

def dispatch : List String → String
  | "bashf" :: a => hBashF a
  | _ => "bad-op"

end Bee2V.C03.Drv

import Bee2V.C03.BashF
import Bee2V.C03.Sponge
import Bee2V.C03.Brng
import Bee2V.C03.Botp
import Bee2V.C03.BeltDrv
import Bee2V.C03.F32Drv
import Bee2V.Base.Proto
/-! line protocol of `drv_c03` (grammar: see props/C03.py) -/
namespace Bee2V.C03.Drv
open Bee2V.Proto Bee2V.C03

def parseAll : List String → Option (List (List UInt8))
  | [] => some []
  | t :: ts => do
    let b ← (if t = "" then none else parseHex t)
    let r ← parseAll ts
    pure (b :: r)

def hx (s : String) : Option (List UInt8) := if s = "" then none else parseHex s

/-- `bashf <block192>` -/
def hBashF : List String → Option String
  | [b] => do
    let b ← hx b
    if b.length = 192 then pure (toHex (bashF b)) else none
  | _ => none

/-- `hash <l> <chunk>…` : after each chunk a StepG of l/4 octets -/
def hHash : List String → Option String
  | l :: chunks => do
    let l ← parseNat l
    if l = 0 ∨ l % 16 ≠ 0 ∨ l > 256 then none
    let cs ← parseAll chunks
    let rec go : List (List UInt8) → Sp → List String
      | [], _ => []
      | c :: cs, st =>
        let st := hashStepH bashF c st
        toHex (hashStepG bashF (l / 4) st) :: go cs st
    pure (" ".intercalate (go cs (hashStart l)))
  | _ => none

def lenOk (ann key : List UInt8) (l : Nat) : Bool :=
  ann.length % 4 == 0 && ann.length ≤ 60 && key.length % 4 == 0 && key.length ≤ 60 &&
    (key.length == 0 || key.length ≥ l / 8)

/-- one automaton command token -/
def prgCmd (tok : String) (st : PrgSt) : Option (PrgSt × Option String) :=
  match tok.splitOn ":" with
  | ["R", a, k] => do
    let a ← hx a; let k ← hx k
    if !lenOk a k st.l then none
    pure (prgRestart bashF a k st, none)
  | ["A", x] => do let x ← hx x; pure (prgAbsorb bashF x st, none)
  | ["a", x] => do let x ← hx x; pure (prgAbsorbStep bashF x st, none)
  | ["S", n] => do let n ← parseNat n; let r := prgSqueeze bashF (zeros n) st; pure (r.1, some (toHex r.2))
  | ["s", n] => do let n ← parseNat n; let r := prgSqueezeStep bashF (zeros n) st; pure (r.1, some (toHex r.2))
  | ["E", x] => do
    let x ← hx x
    if !prgIsKeymode st then none
    let r := prgEncr bashF x st; pure (r.1, some (toHex r.2))
  | ["e", x] => do let x ← hx x; let r := prgEncrStep bashF x st; pure (r.1, some (toHex r.2))
  | ["D", x] => do
    let x ← hx x
    if !prgIsKeymode st then none
    let r := prgDecr bashF x st; pure (r.1, some (toHex r.2))
  | ["d", x] => do let x ← hx x; let r := prgDecrStep bashF x st; pure (r.1, some (toHex r.2))
  | ["T"] => pure (prgRatchet bashF st, none)
  | _ => none

def prgRun : List String → PrgSt → List String → Option (PrgSt × List String)
  | [], st, acc => some (st, acc.reverse)
  | t :: ts, st, acc => do
    let r ← prgCmd t st
    prgRun ts r.1 (match r.2 with | some o => o :: acc | none => acc)

/-- `prg <l> <d> <ann> <key> <cmd>…` -> outputs of S/E/D commands, then `pos buf_len s` -/
def hPrg : List String → Option String
  | l :: d :: a :: k :: cmds => do
    let l ← parseNat l; let d ← parseNat d
    let a ← hx a; let k ← hx k
    if !(l = 128 ∨ l = 192 ∨ l = 256) ∨ !(d = 1 ∨ d = 2) then none
    if !lenOk a k l then none
    let r ← prgRun cmds (prgStart l d a k) []
    pure (" ".intercalate (r.2 ++ [toString r.1.sp.pos, toString r.1.sp.bufLen, toHex r.1.sp.s]))
  | _ => none

/-- `ctrinc <mem64>` -> brngBlockInc on the first 32 octets of a 64-octet memory -/
def hCtrInc : List String → Option String
  | [m] => do
    let m ← hx m
    if m.length ≠ 64 then none
    pure (toHex (blockInc 8 m))
  | _ => none

/-- `ctr <key32> <iv32> <buf>…` -> per request the generated octets, then the StepG value -/
def hCtr : List String → Option String
  | k :: iv :: bufs => do
    let k ← hx k; let iv ← hx iv
    if k.length ≠ 32 ∨ iv.length ≠ 32 then none
    let bs ← parseAll bufs
    let rec go : List (List UInt8) → CtrSt → List String
      | [], st => [toHex (ctrStepG st)]
      | b :: bs, st => let r := ctrStepR 8 b st; toHex r.2 :: go bs r.1
    pure (" ".intercalate (go bs (ctrStart k iv)))
  | _ => none

def parseNats : List String → Option (List Nat)
  | [] => some []
  | t :: ts => do let n ← parseNat t; let r ← parseNats ts; pure (n :: r)

/-- `hmacgen <key> <iv> <count>…` -/
def hHmacGen : List String → Option String
  | k :: iv :: ns => do
    let k ← hx k; let iv ← hx iv
    let ns ← parseNats ns
    let rec go : List Nat → HmacGenSt → List String
      | [], _ => []
      | n :: ns, st => let r := hmacGenStepR n st; toHex r.2 :: go ns r.1
    pure (" ".intercalate (go ns (hmacGenStart k iv)))
  | _ => none

def str (b : List UInt8) : String := String.ofList (b.map fun c => Char.ofNat c.toNat)

/-- `hotp <digit> <key> <ctr8> <n>` -> n passwords, then the counter -/
def hHotp : List String → Option String
  | [dg, k, c, n] => do
    let dg ← parseNat dg; let k ← hx k; let c ← hx c; let n ← parseNat n
    if dg < 4 ∨ dg > 9 ∨ c.length ≠ 8 then none
    let rec go : Nat → HotpSt → List String
      | 0, st => [toHex st.ctr]
      | n + 1, st => let r := hotpStepR st; str r.2 :: go n r.1
    pure (" ".intercalate (go n (hotpStepS c (hotpStart dg k))))
  | _ => none

/-- `hotpv <digit> <key> <ctr8> <otp-hex>` -> result, counter -/
def hHotpV : List String → Option String
  | [dg, k, c, o] => do
    let dg ← parseNat dg; let k ← hx k; let c ← hx c; let o ← hx o
    if dg < 4 ∨ dg > 9 ∨ c.length ≠ 8 ∨ o.any (· == 0) then none
    let r := hotpStepV o (hotpStepS c (hotpStart dg k))
    pure s!"{if r.2 then 1 else 0} {toHex r.1.ctr}"
  | _ => none

/-- `totp <digit> <key> <t>` -/
def hTotp : List String → Option String
  | [dg, k, t] => do
    let dg ← parseNat dg; let k ← hx k; let t ← parseNat t
    if dg < 4 ∨ dg > 9 ∨ t ≥ 2 ^ 64 then none
    pure (str (totpStepR dg (Belt.hmacStart k) t))
  | _ => none

/-- `ocra <suite-hex> <key> <q> <ctr8> <p> <s> <t> <n>` -/
def hOcra : List String → Option String
  | [su, k, q, c, p, s, t, n] => do
    let su ← hx su; let k ← hx k; let q ← hx q; let c ← hx c; let p ← hx p; let s ← hx s
    let t ← parseNat t; let n ← parseNat n
    if su.any (· == 0) ∨ t ≥ 2 ^ 64 then none
    match ocraStart su k with
    | none => pure "bad-format"
    | some st =>
      if q.length < 4 ∨ q.length > 2 * st.qMax then pure "bad-params"
      else if (st.ctrLen ≠ 0 ∧ c.length ≠ 8) ∨ (st.pLen ≠ 0 ∧ p.length ≠ st.pLen) ∨ (st.sLen ≠ 0 ∧ s.length ≠ st.sLen) then none
      else
        let rec go : Nat → OcraSt → List String
          | 0, st => [toHex st.ctr]
          | n + 1, st => let r := ocraStepR q t st; str r.2 :: go n r.1
        pure (" ".intercalate (go n (ocraStepS c p s st)))
  | _ => none

def b01 (b : Bool) : String := if b then "1" else "0"

/-- one command of a HOTP history: `S:<ctr8>` StepS, `R` StepR, `V:<otp-hex>` StepV, `W` StepV with the right
password (computed on a copy of the state), `N` StepV with the password AFTER the right one, `G` StepG -/
def hotpCmd (tok : String) (st : HotpSt) : Option (HotpSt × Option String) :=
  match tok.splitOn ":" with
  | ["S", c] => do let c ← hx c; if c.length ≠ 8 then none else pure (hotpStepS c st, none)
  | ["R"] => let r := hotpStepR st; pure (r.1, some (str r.2))
  | ["V", o] => do
    let o ← hx o
    if o.any (· == 0) then none
    let r := hotpStepV o st; pure (r.1, some (b01 r.2))
  | ["W"] => let r := hotpStepV (hotpStepR st).2 st; pure (r.1, some (b01 r.2))
  | ["N"] => let r := hotpStepV (hotpStepR (hotpStepR st).1).2 st; pure (r.1, some (b01 r.2))
  | ["G"] => pure (st, some (toHex st.ctr))
  | _ => none

def runCmds {σ : Type} (f : String → σ → Option (σ × Option String)) : List String → σ → List String → Option (σ × List String)
  | [], st, acc => some (st, acc.reverse)
  | t :: ts, st, acc => do
    let r ← f t st
    runCmds f ts r.1 (match r.2 with | some o => o :: acc | none => acc)

/-- `hotps <digit> <key> <cmd>…` -> outputs of R/V/W/N/G, then the counter -/
def hHotpS : List String → Option String
  | dg :: k :: cmds => do
    let dg ← parseNat dg; let k ← hx k
    if dg < 4 ∨ dg > 9 then none
    let r ← runCmds hotpCmd cmds (hotpStart dg k) []
    pure (" ".intercalate (r.2 ++ [toHex r.1.ctr]))
  | _ => none

def tOk (t : Nat) : Bool := t < 2 ^ 64

/-- TOTP history: `R:<t>`, `V:<t>:<otp-hex>`, `W:<t>` (right password) -/
def totpCmd (dg : Nat) (tok : String) (st : Belt.HmacSt) : Option (Belt.HmacSt × Option String) :=
  match tok.splitOn ":" with
  | ["R", t] => do let t ← parseNat t; if !tOk t then none else pure (st, some (str (totpStepR dg st t)))
  | ["V", t, o] => do
    let t ← parseNat t; let o ← hx o
    if !tOk t || o.any (· == 0) then none
    pure (st, some (b01 (totpStepV o dg st t)))
  | ["W", t] => do
    let t ← parseNat t
    if !tOk t then none
    pure (st, some (b01 (totpStepV (totpStepR dg st t) dg st t)))
  | _ => none

/-- `totps <digit> <key> <cmd>…` -/
def hTotpS : List String → Option String
  | dg :: k :: cmds => do
    let dg ← parseNat dg; let k ← hx k
    if dg < 4 ∨ dg > 9 then none
    let r ← runCmds (totpCmd dg) cmds (Belt.hmacStart k) []
    pure (" ".intercalate r.2)
  | _ => none

def qOk (q : List UInt8) (st : OcraSt) : Bool := 4 ≤ q.length && q.length ≤ 2 * st.qMax

/-- OCRA history: `S:<ctr>:<p>:<s>` StepS, `R:<q>:<t>`, `V:<q>:<t>:<otp-hex>`, `W:<q>:<t>` (right password),
`N:<q>:<t>` (the password after the right one), `G` -/
def ocraCmd (tok : String) (st : OcraSt) : Option (OcraSt × Option String) :=
  match tok.splitOn ":" with
  | ["S", c, p, s] => do
    let c ← hx c; let p ← hx p; let s ← hx s
    if (st.ctrLen ≠ 0 ∧ c.length ≠ 8) ∨ (st.pLen ≠ 0 ∧ p.length ≠ st.pLen) ∨ (st.sLen ≠ 0 ∧ s.length ≠ st.sLen) then none
    pure (ocraStepS c p s st, none)
  | ["R", q, t] => do
    let q ← hx q; let t ← parseNat t
    if !qOk q st || !tOk t then none
    let r := ocraStepR q t st; pure (r.1, some (str r.2))
  | ["V", q, t, o] => do
    let q ← hx q; let t ← parseNat t; let o ← hx o
    if !qOk q st || !tOk t || o.any (· == 0) then none
    let r := ocraStepV o q t st; pure (r.1, some (b01 r.2))
  | ["W", q, t] => do
    let q ← hx q; let t ← parseNat t
    if !qOk q st || !tOk t then none
    let r := ocraStepV (ocraStepR q t st).2 q t st; pure (r.1, some (b01 r.2))
  | ["N", q, t] => do
    let q ← hx q; let t ← parseNat t
    if !qOk q st || !tOk t then none
    let r := ocraStepV (ocraStepR q t (ocraStepR q t st).1).2 q t st; pure (r.1, some (b01 r.2))
  | ["G"] => pure (st, some (toHex st.ctr))
  | _ => none

/-- `ocras <suite-hex> <key> <cmd>…` -> outputs, then the counter; `bad-format` if Start fails -/
def hOcraS : List String → Option String
  | su :: k :: cmds => do
    let su ← hx su; let k ← hx k
    if su.any (· == 0) then none
    match ocraStart su k with
    | none => pure "bad-format"
    | some st =>
      let r ← runCmds ocraCmd cmds st []
      pure (" ".intercalate (r.2 ++ [toHex r.1.ctr]))
  | _ => none

/-- `ctrnext <ctr8>` -/
def hCtrNext : List String → Option String
  | [c] => do let c ← hx c; if c.length ≠ 8 then none else pure (toHex (botpCtrNext c))
  | _ => none

/-- `dt <digit> <mac>` (mac_len ≥ 20) -/
def hDT : List String → Option String
  | [dg, m] => do
    let dg ← parseNat dg; let m ← hx m
    if dg < 4 ∨ dg > 9 ∨ m.length < 20 then none
    pure (str (botpDT dg m))
  | _ => none

def dispatch (toks : List String) : String :=
  match Belt.handleBelt toks with
  | some r => r
  | none =>
  match F32.handleF32 toks with
  | some r => r
  | none =>
    let r := match toks with
      | "bashf" :: a => hBashF a
      | "hash" :: a => hHash a
      | "prg" :: a => hPrg a
      | "ctrinc" :: a => hCtrInc a
      | "ctr" :: a => hCtr a
      | "hmacgen" :: a => hHmacGen a
      | "hotp" :: a => hHotp a
      | "hotpv" :: a => hHotpV a
      | "totp" :: a => hTotp a
      | "ocra" :: a => hOcra a
      | "hotps" :: a => hHotpS a
      | "totps" :: a => hTotpS a
      | "ocras" :: a => hOcraS a
      | "ctrnext" :: a => hCtrNext a
      | "dt" :: a => hDT a
      | _ => none
    r.getD "bad-op"

end Bee2V.C03.Drv

import Bee2V.C03.Belt
import Bee2V.C03.Sponge
import Bee2V.Base.Proto
/-!
# brng.c — CTR and HMAC generators (code-shaped, executable)

`brng_ctr_st` keeps `s[32]` immediately followed by `r[32]`; the model keeps both in ONE memory `mem`
(64 octets) and runs the real `brngBlockInc` word loop on it, so that a loop running past word
`W_OF_O(32)-1` would change `r` in the model exactly as it would in the C.  The loop is parameterised by the
word size in octets (`wb` = 8 for 64-bit words, 4 for the 32-bit build).
-/
namespace Bee2V.C03
open Bee2V.Proto

/-- word `i` of the memory, little-endian -/
def loadW (wb : Nat) (mem : Bytes) (i : Nat) : Nat := leNat ((mem.drop (wb * i)).take wb)

def storeW (wb : Nat) (mem : Bytes) (i : Nat) (v : Nat) : Bytes :=
  mem.take (wb * i) ++ natLE wb v ++ mem.drop (wb * i + wb)

/-- `do { ++w[i]; } while (w[i] == 0 && ++i < W_OF_O(32));` starting at word `i` -/
def blockIncFrom (wb : Nat) (mem : Bytes) (i : Nat) : Bytes :=
  let v := (loadW wb mem i + 1) % 2 ^ (8 * wb)
  let mem := storeW wb mem i v
  if v = 0 ∧ i + 1 < 32 / wb then blockIncFrom wb mem (i + 1) else mem
termination_by 32 / wb - i
decreasing_by omega

/-- `brngBlockInc(block)` where `block` is at offset 0 of `mem` -/
def blockInc (wb : Nat) (mem : Bytes) : Bytes := blockIncFrom wb mem 0

def xorBytes (a b : Bytes) : Bytes := List.zipWith (· ^^^ ·) a b

structure CtrSt where
  mem : Bytes            -- s[32] ‖ r[32]
  block : Bytes          -- block[32]
  reserved : Nat
  keySt : Belt.HashSt    -- beltHash state after the key
  deriving Repr

def CtrSt.s (st : CtrSt) : Bytes := st.mem.take 32
def CtrSt.r (st : CtrSt) : Bytes := (st.mem.drop 32).take 32

/-- `brngCTRStart(state, key, iv)` (a null `iv` is the zero block) -/
def ctrStart (key iv : Bytes) : CtrSt :=
  { mem := iv ++ iv.map (~~~ ·), block := zeros 32, reserved := 0,
    keySt := Belt.hashStepH key Belt.hashStart }

/-- one block: `Y ← belt-hash(key ‖ s ‖ X ‖ r)` fed in the chunks the code feeds; then
`brngBlockInc(s)`, `r ^= Y` -/
def ctrNext (wb : Nat) (st : CtrSt) (xs : List Bytes) : CtrSt × Bytes :=
  let h := Belt.hashStepH st.s st.keySt
  let h := xs.foldl (fun h x => Belt.hashStepH x h) h
  let h := Belt.hashStepH st.r h
  let y := Belt.hashStepG h
  let mem := blockInc wb st.mem
  let mem := mem.take 32 ++ xorBytes ((mem.drop 32).take 32) y ++ mem.drop 64
  ({ st with mem := mem }, y)

/-- `while (count >= 32) {...}` -/
def ctrFull (wb : Nat) (st : CtrSt) (buf : Bytes) : CtrSt × Bytes × Bytes :=
  if _h : 32 ≤ buf.length then
    let q := ctrNext wb st [buf.take 32]
    let r := ctrFull wb q.1 (buf.drop 32)
    (r.1, r.2.1, q.2 ++ r.2.2)
  else (st, buf, [])
termination_by buf.length
decreasing_by simp only [List.length_drop]; omega

/-- the part of `brngCTRStepR` after the reserve has been used up -/
def ctrGen (wb : Nat) (st : CtrSt) (buf : Bytes) : CtrSt × Bytes :=
  let f := ctrFull wb st buf
  let st := f.1
  let rest := f.2.1
  if rest.length ≠ 0 then
    let count := rest.length
    let q := ctrNext wb st [rest, zeros (32 - count)]
    ({ q.1 with block := q.2, reserved := 32 - count }, f.2.2 ++ q.2.take count)
  else (st, f.2.2)

/-- `brngCTRStepR(buf, count, state)`: `buf` holds the additional input X on entry -/
def ctrStepR (wb : Nat) (buf : Bytes) (st : CtrSt) : CtrSt × Bytes :=
  if st.reserved ≠ 0 then
    if st.reserved ≥ buf.length then
      ({ st with reserved := st.reserved - buf.length },
        (st.block.drop (32 - st.reserved)).take buf.length)
    else
      let o := (st.block.drop (32 - st.reserved)).take st.reserved
      let r := ctrGen wb { st with reserved := 0 } (buf.drop st.reserved)
      (r.1, o ++ r.2)
  else ctrGen wb st buf

/-- `brngCTRStepG(iv, state)` -/
def ctrStepG (st : CtrSt) : Bytes := st.s

/-! ## HMAC generator -/

structure HmacGenSt where
  iv : Bytes
  r : Bytes
  block : Bytes
  reserved : Nat
  keySt : Belt.HmacSt
  deriving Repr

/-- `brngHMACStart(state, key, key_len, iv, iv_len)` (for `iv_len > 64` the C keeps the caller's pointer;
the model keeps the octets — the header requires the caller to leave them unchanged) -/
def hmacGenStart (key iv : Bytes) : HmacGenSt :=
  let k := Belt.hmacStart key
  { iv := iv, r := Belt.hmacStepG (Belt.hmacStepA iv k), block := zeros 32, reserved := 0, keySt := k }

/-- `r ← hmac(key, r)`; `Y ← hmac(key, r_old ‖ iv)` through the incremental state, as the code does -/
def hmacGenNext (st : HmacGenSt) : HmacGenSt × Bytes :=
  let h := Belt.hmacStepA st.r st.keySt
  let r := Belt.hmacStepG h
  let h := Belt.hmacStepA st.iv h
  ({ st with r := r }, Belt.hmacStepG h)

def hmacGenFull (st : HmacGenSt) : Nat → HmacGenSt × Bytes
  | 0 => (st, [])
  | n + 1 =>
    let q := hmacGenNext st
    let r := hmacGenFull q.1 n
    (r.1, q.2 ++ r.2)

def hmacGenGen (st : HmacGenSt) (count : Nat) : HmacGenSt × Bytes :=
  let f := hmacGenFull st (count / 32)
  let rest := count % 32
  if rest ≠ 0 then
    let q := hmacGenNext f.1
    ({ q.1 with block := q.2, reserved := 32 - rest }, f.2 ++ q.2.take rest)
  else f

/-- `brngHMACStepR(buf, count, state)` -/
def hmacGenStepR (count : Nat) (st : HmacGenSt) : HmacGenSt × Bytes :=
  if st.reserved ≠ 0 then
    if st.reserved ≥ count then
      ({ st with reserved := st.reserved - count }, (st.block.drop (32 - st.reserved)).take count)
    else
      let o := (st.block.drop (32 - st.reserved)).take st.reserved
      let r := hmacGenGen { st with reserved := 0 } (count - st.reserved)
      (r.1, o ++ r.2)
  else hmacGenGen st count

end Bee2V.C03

import Bee2V.C03.Drv
/-- driver executable of area C03 (`drv_c03`) -/
def main : IO Unit := Bee2V.Proto.runLoop Bee2V.C03.Drv.dispatch

import Bee2V.C03.Sponge
/-!
# STB 34.101.77 §8 — the programmable automaton in the BLOCK form of the standard

Octet strings; bit `i` of the standard's state is bit `7 − (i mod 8)` of octet `i / 8` in the convention of the
code (the control bit `S[r]` is `0x80` of octet `r/8`; the 8-bit word `⟨t ‖ 01⟩` is the octet `4t + 1`).
-/
namespace Bee2V.C03.Spec

/-- automaton state: level `l`, capacity `d`, `S` (192 octets), buffer length `r` (octets), `pos` (octets) -/
structure PSt where
  l : Nat
  d : Nat
  S : Bytes
  r : Nat
  pos : Nat
  deriving DecidableEq, Repr

/-- 6-bit command types -/
inductive CmdType | null | key | data | text | out
  deriving DecidableEq, Repr
def CmdType.val : CmdType → Nat
  | .null => 0 | .key => 1 | .data => 2 | .text => 3 | .out => 4
/-- the octet `⟨t ‖ 01⟩_8` -/
def CmdType.octet (t : CmdType) : UInt8 := UInt8.ofNat (4 * t.val + 1)

/-- buffer length in octets: keyed `(1536 − l − d·l/2)/8`, keyless `(1536 − 2·d·l)/8` -/
def rate (l d : Nat) (keyed : Bool) : Nat :=
  if keyed then (1536 - l - d * l / 2) / 8 else (1536 - 2 * d * l) / 8

def xorAt (S : Bytes) (i : Nat) (v : UInt8) : Bytes := S.set i (S.getD i 0 ^^^ v)

/-- `commit(t)`: `S[pos..pos+8) ⊕= ⟨t‖01⟩`, `S[r] ⊕= 1`, `S ← F(S)`, `pos ← 0` -/
def commit (F : Bytes → Bytes) (t : CmdType) (st : PSt) : PSt :=
  { st with S := F (xorAt (xorAt st.S st.pos t.octet) st.r 0x80), pos := 0 }

/-- the header `⟨|A|/2 + |K|/32⟩_8 ‖ A ‖ K` (lengths in bits; here `4·|A| + |K|/4` with lengths in octets) -/
def header (A K : Bytes) : Bytes := UInt8.ofNat (4 * A.length + K.length / 4) :: (A ++ K)

/-- `start[l,d](A, K)` -/
def start (l d : Nat) (A K : Bytes) : PSt :=
  let pos := 1 + A.length + K.length
  let S := header A K ++ zeros (184 - pos) ++ (UInt8.ofNat (l / 4 + d) :: zeros 7)
  { l := l, d := d, S := S, r := rate l d (K.length ≠ 0), pos := pos }

def xorList (a b : Bytes) : Bytes := List.zipWith (· ^^^ ·) a b

/-- `restart(A, K)` -/
def restart (F : Bytes → Bytes) (A K : Bytes) (st : PSt) : PSt :=
  let st := if K.length ≠ 0 then { commit F .key st with r := rate st.l st.d true } else commit F .null st
  let pos := 1 + A.length + K.length
  { st with S := xorList (st.S.take pos) (header A K) ++ st.S.drop pos, pos := pos }

/-- action of a data command on one (possibly partial) block `X_i` and the state prefix `S[0..|X_i|)`:
new prefix and output block -/
structure Act where
  seg : Bytes → Bytes → Bytes
  out : Bytes → Bytes → Bytes

/-- absorb: `S[..pos) ← S[..pos) ⊕ X_i` -/
def absorbAct : Act := ⟨fun s x => xorList s x, fun _ _ => []⟩
/-- squeeze: `Y ← Y ‖ S[..pos)` (`x` only carries the length) -/
def squeezeAct : Act := ⟨fun s x => s.take x.length, fun s x => s.take x.length⟩
/-- encrypt: `Y_i ← X_i ⊕ S[..pos)`, `S[..pos) ← Y_i` -/
def encrAct : Act := ⟨fun s x => xorList x s, fun s x => xorList x s⟩
/-- decrypt: `X_i ← Y_i ⊕ S[..pos)`, `S[..pos) ← Y_i` -/
def decrAct : Act := ⟨fun s y => y.take s.length, fun s y => xorList y s⟩

/-- the loop over the blocks `(X_1, …, X_n) = Split(X, r)`: `n` full blocks (after each: `S ← F(S)`, `pos ← 0`),
then the last, shorter block `T` (`pos ← |T|`) -/
def blocks (F : Bytes → Bytes) (a : Act) (r : Nat) : Nat → Bytes → Bytes → Bytes × Bytes
  | 0, S, X => (a.seg (S.take X.length) X ++ S.drop X.length, a.out (S.take X.length) X)
  | n + 1, S, X =>
    let Xi := X.take r
    let S1 := F (a.seg (S.take r) Xi ++ S.drop r)
    let q := blocks F a r n S1 (X.drop r)
    (q.1, a.out (S.take r) Xi ++ q.2)

/-- a data command after its commit: `X` is split into `|X| / r` full blocks and a rest -/
def dataCmd (F : Bytes → Bytes) (t : CmdType) (a : Act) (X : Bytes) (st : PSt) : PSt × Bytes :=
  let st := commit F t st
  let q := blocks F a st.r (X.length / st.r) st.S X
  ({ st with S := q.1, pos := X.length % st.r }, q.2)

def absorb (F : Bytes → Bytes) (X : Bytes) (st : PSt) : PSt := (dataCmd F .data absorbAct X st).1
def squeeze (F : Bytes → Bytes) (n : Nat) (st : PSt) : PSt × Bytes := dataCmd F .out squeezeAct (zeros n) st
def encrypt (F : Bytes → Bytes) (X : Bytes) (st : PSt) : PSt × Bytes := dataCmd F .text encrAct X st
def decrypt (F : Bytes → Bytes) (Y : Bytes) (st : PSt) : PSt × Bytes := dataCmd F .text decrAct Y st

/-- `ratchet`: `T ← S`, `commit(NULL)`, `S ← S ⊕ T` -/
def ratchet (F : Bytes → Bytes) (st : PSt) : PSt :=
  let T := st.S
  let st := commit F .null st
  { st with S := xorList st.S T }

end Bee2V.C03.Spec

import Bee2V.C03.LemmasBrng
import Bee2V.C03.BeltLemmas
import Bee2V.C03.Botp
/-! # brngCTR block step = the standard's step; botp counter / truncation facts -/
namespace Bee2V.C03
open Bee2V.Proto

/-- `brngBlockInc` on a memory `s ‖ rest`: `s ← s + 1 mod 2^256`, `rest` untouched; any word size dividing 32 -/
theorem blockInc_spec (wb : Nat) (hwb : 0 < wb) (hdiv : wb ∣ 32) (s rest : Bytes) (hs : s.length = 32) :
    blockInc wb (s ++ rest) = natLE 32 ((leNat s + 1) % 2 ^ 256) ++ rest := by
  have hmul : wb * (32 / wb) = 32 := Nat.mul_div_cancel' hdiv
  have hpos : 0 < 32 / wb := by
    rcases Nat.eq_zero_or_pos (32 / wb) with h | h
    · rw [h] at hmul; omega
    · exact h
  have h := incFrom_spec wb hwb (32 / wb) 0 [] s rest (by omega) hpos (by simp) (by rw [hmul, hs])
  simp only [List.nil_append, hmul] at h
  rw [blockInc, h, show (256 : Nat) ^ 32 = 2 ^ 256 by rfl]

theorem foldl_hashStepH (xs : List Bytes) (h : Belt.HashSt) (hw : h.WF) :
    xs.foldl (fun h x => Belt.hashStepH x h) h = Belt.hashStepH xs.flatten h := by
  induction xs generalizing h with
  | nil => simp [Belt.hashStepH_nil h hw]
  | cons x xs ih =>
    simp only [List.foldl_cons, List.flatten_cons]
    rw [ih _ (Belt.hashStepH_WF x h hw), Belt.hashStepH_append h hw]

/-- **one CTR block of brng.c = one step of STB 34.101.47**:
`Y = belt-hash(key ‖ s ‖ X ‖ r)`, `s ← s ⊞ 1 (mod 2^256)`, `r ← r ⊕ Y` — for every `s` (including `2^256 − 1`
and every carry pattern) and both word sizes; `xs` are the chunks in which the code feeds `X`. -/
theorem ctrNext_spec (wb : Nat) (hwb : 0 < wb) (hdiv : wb ∣ 32) (key s r : Bytes) (hs : s.length = 32)
    (hr : r.length = 32) (xs : List Bytes) (st : CtrSt) (hmem : st.mem = s ++ r)
    (hkey : st.keySt = Belt.hashStepH key Belt.hashStart) :
    let Y := Belt.hash (key ++ s ++ xs.flatten ++ r)
    ctrNext wb st xs = ({ st with mem := natLE 32 ((leNat s + 1) % 2 ^ 256) ++ xorBytes r Y }, Y) := by
  intro Y
  have es : st.s = s := by simp [CtrSt.s, hmem, ← hs]
  have er : st.r = r := by
    simp only [CtrSt.r, hmem]
    rw [List.drop_left' hs, ← hr, List.take_length]
  have w0 := Belt.hashStart_WF
  have w1 := Belt.hashStepH_WF key _ w0
  have w2 := Belt.hashStepH_WF s _ w1
  have w3 := Belt.hashStepH_WF xs.flatten _ w2
  have eY : Belt.hashStepG (Belt.hashStepH st.r (xs.foldl (fun h x => Belt.hashStepH x h)
      (Belt.hashStepH st.s st.keySt))) = Y := by
    rw [es, er, hkey, foldl_hashStepH _ _ w2, Belt.hashStepH_append _ w0, Belt.hashStepH_append _ w0,
      Belt.hashStepH_append _ w0]
    rfl
  simp only [ctrNext, eY]
  rw [hmem, blockInc_spec wb hwb hdiv s r hs]
  have hl : (natLE 32 ((leNat s + 1) % 2 ^ 256)).length = 32 := natLE_length _ _
  rw [List.take_left' hl, List.drop_left' hl]
  have e64 : List.drop 64 (natLE 32 ((leNat s + 1) % 2 ^ 256) ++ r) = [] := by
    apply List.drop_eq_nil_of_le; simp [hl, hr]
  rw [e64, ← hr, List.take_length, List.append_nil]

/-! ## botp -/

theorem powersOf10_eq : ∀ d, d < 10 → Bee2V.Gen.C03.powersOf10.getD d 1 = 10 ^ d := by decide

/-- the numeric password is below `10^digit` -/
theorem botpDTnum_lt (digit : Nat) (hd : digit < 10) (mac : Bytes) : botpDTnum digit mac < 10 ^ digit := by
  unfold botpDTnum
  rw [powersOf10_eq digit hd]
  exact Nat.mod_lt _ (Nat.pow_pos (by decide))

theorem decFromU32_length (n num : Nat) : (decFromU32 n num).length = n := by
  induction n generalizing num with
  | zero => rfl
  | succ n ih => simp [decFromU32, ih]

/-- every character of the password is a decimal digit -/
theorem decFromU32_digits (n num : Nat) : ∀ c ∈ decFromU32 n num, 48 ≤ c.toNat ∧ c.toNat ≤ 57 := by
  induction n generalizing num with
  | zero => intro c h; simp [decFromU32] at h
  | succ n ih =>
    intro c h
    simp only [decFromU32, List.mem_append, List.mem_singleton] at h
    rcases h with h | h
    · exact ih _ c h
    · subst h
      have : num % 10 + 48 < 256 := by omega
      simp only [UInt8.toNat_ofNat']
      omega

/-- value of a decimal string -/
def decVal (l : List UInt8) : Nat := l.foldl (fun acc c => 10 * acc + (c.toNat - 48)) 0

theorem decVal_append_single (l : List UInt8) (c : UInt8) : decVal (l ++ [c]) = 10 * decVal l + (c.toNat - 48) := by
  simp [decVal, List.foldl_append]

/-- `decFromU32` writes `num mod 10^n` in decimal -/
theorem decVal_decFromU32 (n num : Nat) : decVal (decFromU32 n num) = num % 10 ^ n := by
  induction n generalizing num with
  | zero => simp [decFromU32, decVal, Nat.mod_one]
  | succ n ih =>
    rw [decFromU32, decVal_append_single, ih]
    have : (UInt8.ofNat (num % 10 + 48)).toNat = num % 10 + 48 := by
      simp only [UInt8.toNat_ofNat']; omega
    rw [this, Nat.pow_succ, Nat.mul_comm (10 ^ n) 10, Nat.mod_mul]
    omega


/-- the carry chain of `botpCtrNext` over the octets from the last to the first -/
theorem ctrFold_spec (r : Bytes) : ∀ (acc : Bytes) (c : UInt8), c.toNat ≤ 1 →
    r.foldl (fun (acc : Bytes × UInt8) (b : UInt8) => ((ctrLine (b, acc.2)).1 :: acc.1, (ctrLine (b, acc.2)).2)) (acc, c)
      = ((natLE r.length (leNat r + c.toNat)).reverse ++ acc,
          UInt8.ofNat ((leNat r + c.toNat) / 256 ^ r.length)) := by
  induction r with
  | nil =>
    intro acc c hc
    simp only [List.foldl_nil, List.length_nil, natLE, List.reverse_nil, List.nil_append, Nat.pow_zero,
      Nat.div_one, leNat, List.foldr_nil, Nat.zero_add, UInt8.ofNat_toNat]
  | cons b bs ih =>
    intro acc c hc
    have hb := b.toNat_lt
    have hx : (b + c).toNat = (b.toNat + c.toNat) % 256 := UInt8.toNat_add b c
    have hcarry : ((if b + c < c then 1 else 0 : UInt8)).toNat = (b.toNat + c.toNat) / 256 := by
      by_cases h : b + c < c
      · have h' := UInt8.lt_iff_toNat_lt.mp h
        rw [hx] at h'
        rw [if_pos h]; show 1 = _; omega
      · have h' : ¬ ((b + c).toNat < c.toNat) := fun hh => h (UInt8.lt_iff_toNat_lt.mpr hh)
        rw [hx] at h'
        rw [if_neg h]; show 0 = _; omega
    have hc' : ((if b + c < c then 1 else 0 : UInt8)).toNat ≤ 1 := by rw [hcarry]; omega
    rw [List.foldl_cons]
    show List.foldl _ ((b + c) :: acc, (if b + c < c then 1 else 0 : UInt8)) bs = _
    rw [ih _ _ hc', hcarry]
    simp only [List.length_cons, natLE_succ, leNat_cons, List.reverse_cons, List.append_assoc, List.singleton_append]
    have e1 : (b.toNat + 256 * leNat bs + c.toNat) % 256 = (b.toNat + c.toNat) % 256 := by omega
    have e2 : (b.toNat + 256 * leNat bs + c.toNat) / 256 = leNat bs + (b.toNat + c.toNat) / 256 := by omega
    rw [e1, e2, Nat.pow_succ, Nat.mul_comm (256 ^ bs.length) 256, ← Nat.div_div_eq_div_mul, e2]
    have ex : b + c = UInt8.ofNat ((b.toNat + c.toNat) % 256) := by
      apply UInt8.toNat_inj.mp
      rw [hx, UInt8.toNat_ofNat']
      omega
    rw [ex]

/-- **`botpCtrNext` is `+1 mod 2^64` on the big-endian counter** (any length `n`: `+1 mod 256^n`) -/
theorem botpCtrNext_spec (ctr : Bytes) :
    botpCtrNext ctr = (natLE ctr.length (leNat ctr.reverse + 1)).reverse := by
  have h := ctrFold_spec ctr.reverse [] 1 (by decide)
  simp only [botpCtrNext]
  rw [show (1 : UInt8).toNat = 1 from rfl] at h
  rw [h]
  simp

end Bee2V.C03

import Bee2V.C03.LemmasPrg
import Bee2V.C03.LemmasHashSpec
import Bee2V.C03.SpecPrg
/-!
# bash_prg.c = the block-form text of STB 34.101.77 §8
-/
namespace Bee2V.C03

/-- the per-octet `memCopy/memXor2` loops over a segment = `zipWith` over the segment -/
theorem opAt_zip (op : OpB) (data : Bytes) : ∀ (s : Bytes) (pos : Nat), pos + data.length ≤ s.length →
    opAt op s pos data =
      (s.take pos ++ List.zipWith (fun b d => (op b d).1) (s.drop pos) data ++ s.drop (pos + data.length),
        List.zipWith (fun b d => (op b d).2) (s.drop pos) data) := by
  induction data with
  | nil => intro s pos _; simp [opAt]
  | cons d ds ih =>
    intro s pos h
    simp only [List.length_cons] at h
    have hp : pos < s.length := by omega
    have hd : s.drop pos = s[pos] :: s.drop (pos + 1) := List.drop_eq_getElem_cons hp
    have hg : s.getD pos 0 = s[pos] := by simp [List.getD_eq_getElem?_getD, hp]
    simp only [opAt]
    rw [ih _ _ (by simp only [List.length_set]; omega), hd, hg, List.take_set, List.drop_set, List.drop_set]
    rw [if_pos (by omega), if_pos (by omega)]
    have e2 : (List.take (pos + 1) s).set pos (op s[pos] d).1 = s.take pos ++ [(op s[pos] d).1] := by
      rw [List.take_succ_eq_append_getElem hp, List.set_append_right _ _ (by simp; omega)]
      simp [List.length_take, Nat.min_eq_left (Nat.le_of_lt hp)]
    rw [e2, List.length_cons, show pos + 1 + ds.length = pos + (ds.length + 1) by omega]
    simp only [List.zipWith_cons_cons, List.append_assoc, List.cons_append, List.nil_append]

theorem zipWith_take_left {α β γ : Type} (f : α → β → γ) : ∀ (a : List α) (b : List β),
    List.zipWith f (a.take b.length) b = List.zipWith f a b := by
  intro a b
  induction b generalizing a with
  | nil => simp
  | cons y ys ih =>
    cases a with
    | nil => simp
    | cons x xs => simp [ih]

/-- the block action induced by a per-octet action -/
def actOf (op : OpB) : Spec.Act :=
  ⟨fun s x => List.zipWith (fun b d => (op b d).1) s x, fun s x => List.zipWith (fun b d => (op b d).2) s x⟩

variable (F : Bytes → Bytes)

/-- the octet sponge over `X` from `pos = 0` = the block loop of the standard -/
theorem fold_prg_blocks (op : OpB) (N : Nat) (hF : ∀ s : Bytes, s.length = N → (F s).length = N)
    (r : Nat) (hr : 0 < r) (hrN : r ≤ N) :
    ∀ (n : Nat) (S X : Bytes), S.length = N → X.length / r = n →
      foldBytes F op X ⟨S, r, 0⟩ =
        (⟨(Spec.blocks F (actOf op) r n S X).1, r, X.length % r⟩, (Spec.blocks F (actOf op) r n S X).2) ∧
      (Spec.blocks F (actOf op) r n S X).1.length = N := by
  intro n
  induction n with
  | zero =>
    intro S X hS hn
    have hlt : X.length < r := by
      rcases Nat.lt_or_ge X.length r with h | h
      · exact h
      · have := Nat.div_pos h hr; omega
    have hXS : 0 + X.length ≤ S.length := by omega
    rw [fold_partial F op X _ (by simp only; omega), opAt_zip op X S 0 hXS]
    simp only [Spec.blocks, actOf, List.take_zero, List.nil_append, List.drop_zero, Nat.zero_add,
      zipWith_take_left, Nat.mod_eq_of_lt hlt, true_and]
    simp only [List.length_append, List.length_zipWith, List.length_drop]
    omega
  | succ n ih =>
    intro S X hS hn
    have hXr : r ≤ X.length := by
      rcases Nat.lt_or_ge X.length r with h | h
      · rw [Nat.div_eq_of_lt h] at hn; omega
      · exact h
    have hlen : (X.take r).length = r := by rw [List.length_take]; omega
    have hne : X.take r ≠ [] := by intro h; rw [h] at hlen; simp at hlen; omega
    have hS1 : (F (List.zipWith (fun b d => (op b d).1) (S.take r) (X.take r) ++ S.drop r)).length = N := by
      apply hF
      simp only [List.length_append, List.length_zipWith, List.length_take, List.length_drop]; omega
    have hn' : (X.drop r).length / r = n := by
      rw [List.length_drop]
      have := Nat.sub_mul_div X.length r 1
      simp only [Nat.mul_one] at this
      rw [this, hn]; rfl
    have hmod : (X.drop r).length % r = X.length % r := by
      rw [List.length_drop]
      exact (Nat.mod_eq_sub_mod hXr).symm
    obtain ⟨i1, i2⟩ := ih _ (X.drop r) hS1 hn'
    refine ⟨?_, ?_⟩
    case refine_2 => simp only [Spec.blocks, actOf]; exact i2
    conv => lhs; rw [← List.take_append_drop r X]
    rw [foldBytes_append, fold_complete F op _ _ (by simp only [hlen]; omega) hne,
      opAt_zip op _ S 0 (by rw [hlen]; omega)]
    simp only [List.take_zero, List.nil_append, List.drop_zero, Nat.zero_add, hlen]
    have e : List.zipWith (fun b d => (op b d).1) S (X.take r)
        = List.zipWith (fun b d => (op b d).1) (S.take r) (X.take r) := by
      rw [← zipWith_take_left _ S (X.take r), hlen]
    have e' : List.zipWith (fun b d => (op b d).2) S (X.take r)
        = List.zipWith (fun b d => (op b d).2) (S.take r) (X.take r) := by
      rw [← zipWith_take_left _ S (X.take r), hlen]
    rw [e, e', i1, hmod]
    simp only [Spec.blocks, actOf]


/-- two actions that agree on equally long arguments give the same block loop (state part) -/
theorem blocks_congr (op : OpB) (b : Spec.Act) (N : Nat) (hF : ∀ s : Bytes, s.length = N → (F s).length = N)
    (r : Nat) (hr : 0 < r) (hrN : r ≤ N)
    (hseg : ∀ s x : Bytes, s.length = x.length → (actOf op).seg s x = b.seg s x) :
    ∀ (n : Nat) (S X : Bytes), S.length = N → X.length / r = n →
      (Spec.blocks F (actOf op) r n S X).1 = (Spec.blocks F b r n S X).1 ∧
      ((∀ s x : Bytes, s.length = x.length → (actOf op).out s x = b.out s x) →
        (Spec.blocks F (actOf op) r n S X).2 = (Spec.blocks F b r n S X).2) := by
  intro n
  induction n with
  | zero =>
    intro S X hS hn
    have hlt : X.length < r := by
      rcases Nat.lt_or_ge X.length r with h | h
      · exact h
      · have := Nat.div_pos h hr; omega
    have hl : (S.take X.length).length = X.length := by rw [List.length_take]; omega
    simp only [Spec.blocks]
    exact ⟨by rw [hseg _ _ hl], fun hout => hout _ _ hl⟩
  | succ n ih =>
    intro S X hS hn
    have hXr : r ≤ X.length := by
      rcases Nat.lt_or_ge X.length r with h | h
      · rw [Nat.div_eq_of_lt h] at hn; omega
      · exact h
    have hlen : (X.take r).length = r := by rw [List.length_take]; omega
    have hl : (S.take r).length = (X.take r).length := by rw [hlen, List.length_take]; omega
    have hS1 : (F ((actOf op).seg (S.take r) (X.take r) ++ S.drop r)).length = N := by
      apply hF
      simp only [actOf, List.length_append, List.length_zipWith, List.length_take, List.length_drop]; omega
    have hn' : (X.drop r).length / r = n := by
      rw [List.length_drop]
      have := Nat.sub_mul_div X.length r 1
      simp only [Nat.mul_one] at this
      rw [this, hn]; rfl
    obtain ⟨i1, i2⟩ := ih _ (X.drop r) hS1 hn'
    simp only [Spec.blocks]
    rw [← hseg _ _ hl, i1]
    refine ⟨rfl, fun hout => ?_⟩
    rw [← hout _ _ hl, i2 hout]

theorem zipWith_comm_xor (a b : Bytes) : List.zipWith (fun x y => y ^^^ x) a b = List.zipWith (· ^^^ ·) b a := by
  induction a generalizing b with
  | nil => simp
  | cons x xs ih => cases b with
    | nil => simp
    | cons y ys => simp [ih]

theorem zipWith_xor_comm (a b : Bytes) : List.zipWith (fun x y => x ^^^ y) a b = List.zipWith (· ^^^ ·) b a := by
  induction a generalizing b with
  | nil => simp
  | cons x xs ih => cases b with
    | nil => simp
    | cons y ys => simp [ih, UInt8.xor_comm]

theorem zipWith_fst (a b : Bytes) : List.zipWith (fun x _ => x) a b = a.take b.length := by
  induction a generalizing b with
  | nil => simp
  | cons x xs ih => cases b with
    | nil => simp
    | cons y ys => simp [ih]

theorem zipWith_snd (a b : Bytes) : List.zipWith (fun _ y => y) a b = b.take a.length := by
  induction a generalizing b with
  | nil => simp
  | cons x xs ih => cases b with
    | nil => simp
    | cons y ys => simp [ih]

theorem act_absorb (s x : Bytes) : (actOf xorOp).seg s x = Spec.absorbAct.seg s x := rfl
theorem act_squeeze (s x : Bytes) :
    (actOf sqzOp).seg s x = Spec.squeezeAct.seg s x ∧ (actOf sqzOp).out s x = Spec.squeezeAct.out s x :=
  ⟨zipWith_fst s x, zipWith_fst s x⟩
theorem act_encr (s x : Bytes) :
    (actOf encOp).seg s x = Spec.encrAct.seg s x ∧ (actOf encOp).out s x = Spec.encrAct.out s x := by
  have e : List.zipWith (fun b d => b ^^^ d) s x = List.zipWith (· ^^^ ·) x s := zipWith_xor_comm s x
  exact ⟨e, e⟩
theorem act_decr (s y : Bytes) :
    (actOf decOp).seg s y = Spec.decrAct.seg s y ∧ (actOf decOp).out s y = Spec.decrAct.out s y := by
  constructor
  · show List.zipWith (fun b d => b ^^^ (d ^^^ b)) s y = y.take s.length
    have : (fun (b d : UInt8) => b ^^^ (d ^^^ b)) = fun _ d => d := by
      funext b d; rw [UInt8.xor_comm d b, ← UInt8.xor_assoc, UInt8.xor_self, UInt8.zero_xor]
    rw [this, zipWith_snd]
  · show List.zipWith (fun b d => d ^^^ b) s y = List.zipWith (· ^^^ ·) y s
    exact zipWith_comm_xor s y


open Bee2V.Gen.C03

/-- the standard's view of the code's state -/
def toSpec (st : PrgSt) : Spec.PSt := ⟨st.l, st.d, st.sp.s, st.sp.bufLen, st.sp.pos⟩

/-- invariant incl. the length of `s` -/
def PrgSt.WF2 (st : PrgSt) : Prop := st.WF ∧ st.sp.s.length = 192

theorem opAt_length (op : OpB) (data : Bytes) : ∀ (s : Bytes) (pos : Nat), (opAt op s pos data).1.length = s.length := by
  induction data with
  | nil => intro s pos; rfl
  | cons d ds ih => intro s pos; simp only [opAt, ih, List.length_set]

theorem foldBytes_len (op : OpB) (N : Nat) (hF : ∀ s : Bytes, s.length = N → (F s).length = N) :
    ∀ (data : Bytes) (st : Sp), st.s.length = N → (foldBytes F op data st).1.s.length = N := by
  intro data
  induction data with
  | nil => intro st h; exact h
  | cons d ds ih =>
    intro st h
    simp only [foldBytes]
    apply ih
    simp only [stepByte]
    split
    · exact hF _ (by simp only [List.length_set]; exact h)
    · simp only [List.length_set]; exact h

theorem WF_bufLen {st : PrgSt} (h : st.WF) : 0 < st.sp.bufLen ∧ st.sp.bufLen ≤ 192 := by
  obtain ⟨hl, hd, hp, hb⟩ := h
  rcases hb with hb | hb <;> rw [hb] <;>
    rcases hl with h | h | h <;> rcases hd with h' | h' <;> rw [h, h'] <;> omega

/-- the command codes of the source are `⟨t ‖ 01⟩` of the standard's command types -/
theorem codes_eq : codeNull = Spec.CmdType.null.octet ∧ codeKey = Spec.CmdType.key.octet ∧
    codeData = Spec.CmdType.data.octet ∧ codeText = Spec.CmdType.text.octet ∧
    codeTextDecr = Spec.CmdType.text.octet ∧ codeOut = Spec.CmdType.out.octet ∧
    codeRatchet = Spec.CmdType.null.octet := by decide

theorem commit_spec (t : Spec.CmdType) (st : PrgSt) :
    toSpec (prgCommit F t.octet st) = Spec.commit F t (toSpec st) := rfl

theorem prgCommit_WF2 (hF : ∀ s : Bytes, s.length = 192 → (F s).length = 192) (code : UInt8) (st : PrgSt)
    (h : st.WF2) : (prgCommit F code st).WF2 :=
  ⟨prgCommit_WF F code st h.1, hF _ (by simp only [List.length_set]; exact h.2)⟩

/-- a data command of the code (commit + one Step call on all the data) = the block loop of the standard -/
theorem dataCmd_spec (hF : ∀ s : Bytes, s.length = 192 → (F s).length = 192) (op : OpB) (a : Spec.Act)
    (t : Spec.CmdType) (X : Bytes) (st : PrgSt) (h : st.WF2)
    (hseg : ∀ s x : Bytes, s.length = x.length → (actOf op).seg s x = a.seg s x) :
    let r := stepGen F op X (prgCommit F t.octet st).sp
    toSpec { prgCommit F t.octet st with sp := r.1 } = (Spec.dataCmd F t a X (toSpec st)).1 ∧
      ({ prgCommit F t.octet st with sp := r.1 } : PrgSt).WF2 ∧
      ((∀ s x : Bytes, s.length = x.length → (actOf op).out s x = a.out s x) →
        r.2 = (Spec.dataCmd F t a X (toSpec st)).2) := by
  intro r
  have hc := prgCommit_WF2 F hF t.octet st h
  obtain ⟨hb0, hb1⟩ := WF_bufLen hc.1
  have hpos : (prgCommit F t.octet st).sp.pos = 0 := rfl
  have hlt : (prgCommit F t.octet st).sp.pos < (prgCommit F t.octet st).sp.bufLen := by rw [hpos]; exact hb0
  have hfold : r = foldBytes F op X (prgCommit F t.octet st).sp := stepGen_eq_fold F op X _ hlt
  have hsp : (prgCommit F t.octet st).sp =
      ⟨(prgCommit F t.octet st).sp.s, (prgCommit F t.octet st).sp.bufLen, 0⟩ := rfl
  obtain ⟨b1, b2⟩ := fold_prg_blocks F op 192 hF (prgCommit F t.octet st).sp.bufLen hb0 hb1
    (X.length / (prgCommit F t.octet st).sp.bufLen) (prgCommit F t.octet st).sp.s X hc.2 rfl
  obtain ⟨c1, c2⟩ := blocks_congr F op a 192 hF (prgCommit F t.octet st).sp.bufLen hb0 hb1 hseg
    (X.length / (prgCommit F t.octet st).sp.bufLen) (prgCommit F t.octet st).sp.s X hc.2 rfl
  rw [hsp] at hfold
  rw [b1] at hfold
  refine ⟨?_, ⟨?_, ?_⟩, ?_⟩
  · rw [hfold]
    simp only [toSpec, Spec.dataCmd, c1]
    rfl
  · have := step_WF F op X _ hc.1
    exact this
  · show r.1.s.length = 192
    rw [hfold]; exact b2
  · intro hout
    rw [hfold]
    simp only [Spec.dataCmd]
    rw [c2 hout]
    rfl


theorem rate_eq (l d : Nat) (hl : l = 128 ∨ l = 192 ∨ l = 256) (hd : d = 1 ∨ d = 2) :
    Spec.rate l d true = 192 - l * (2 + d) / 16 ∧ Spec.rate l d false = 192 - d * l / 4 := by
  rcases hl with h | h | h <;> rcases hd with h' | h' <;> subst h <;> subst h' <;> decide

theorem zeros_add (a b : Nat) : zeros (a + b) = zeros a ++ zeros b := by
  simp [zeros, List.replicate_append_replicate]

/-- `bashPrgStart` = `start[l,d](A, K)` of the standard -/
theorem prgStart_spec (l d : Nat) (A K : Bytes) (hl : l = 128 ∨ l = 192 ∨ l = 256) (hd : d = 1 ∨ d = 2)
    (ha : A.length ≤ 60) (hk : K.length ≤ 60) : toSpec (prgStart l d A K) = Spec.start l d A K := by
  obtain ⟨r1, r2⟩ := rate_eq l d hl hd
  have hS : (UInt8.ofNat (A.length * 4 + K.length / 4) :: (A ++ K ++ zeros (192 - (1 + A.length + K.length)))).set
      (192 - 8) (UInt8.ofNat (l / 4 + d))
      = Spec.header A K ++ zeros (184 - (1 + A.length + K.length)) ++ (UInt8.ofNat (l / 4 + d) :: zeros 7) := by
    have e1 : 192 - (1 + A.length + K.length) = (184 - (1 + A.length + K.length)) + 8 := by omega
    have e2 : (Spec.header A K ++ zeros (184 - (1 + A.length + K.length))).length = 184 := by
      simp only [Spec.header, List.length_append, List.length_cons, zeros_length]; omega
    rw [e1, zeros_add, Nat.mul_comm A.length 4]
    have e3 : UInt8.ofNat (4 * A.length + K.length / 4) ::
        (A ++ K ++ (zeros (184 - (1 + A.length + K.length)) ++ zeros 8))
        = (Spec.header A K ++ zeros (184 - (1 + A.length + K.length))) ++ zeros 8 := by
      simp [Spec.header, List.append_assoc]
    rw [e3, List.set_append_right _ _ (by rw [e2]; decide), e2]
    rfl
  simp only [toSpec, prgStart, Spec.start, hS]
  by_cases hk0 : K.length = 0
  · simp [hk0, r2]
  · simp [hk0, r1]

theorem opAt_append (op : OpB) (a : Bytes) : ∀ (b s : Bytes) (pos : Nat),
    (opAt op s pos (a ++ b)).1 = (opAt op (opAt op s pos a).1 (pos + a.length) b).1 := by
  induction a with
  | nil => intro b s pos; simp [opAt]
  | cons d ds ih =>
    intro b s pos
    simp only [List.cons_append, opAt, ih, List.length_cons]
    rw [show pos + 1 + ds.length = pos + (ds.length + 1) by omega]

/-- `bashPrgRestart` = `restart(A, K)` of the standard -/
theorem prgRestart_spec (hF : ∀ s : Bytes, s.length = 192 → (F s).length = 192) (A K : Bytes) (st : PrgSt)
    (h : st.WF2) (ha : A.length ≤ 60) (hk : K.length ≤ 60) :
    toSpec (prgRestart F A K st) = Spec.restart F A K (toSpec st) := by
  obtain ⟨⟨hl, hd, _, _⟩, hlen⟩ := h
  obtain ⟨r1, _⟩ := rate_eq st.l st.d hl hd
  -- the three xor statements = one xor of the header
  have key : ∀ S1 : Bytes, S1.length = 192 →
      (opAt xorOp (opAt xorOp (S1.set 0 (S1.getD 0 0 ^^^ UInt8.ofNat (A.length * 4 + K.length / 4))) 1 A).1
        (1 + A.length) K).1
      = Spec.xorList (S1.take (1 + A.length + K.length)) (Spec.header A K) ++ S1.drop (1 + A.length + K.length) := by
    intro S1 h1
    have e : (opAt xorOp S1 0 (Spec.header A K)).1 =
        (opAt xorOp (opAt xorOp (S1.set 0 (S1.getD 0 0 ^^^ UInt8.ofNat (A.length * 4 + K.length / 4))) 1 A).1
          (1 + A.length) K).1 := by
      simp only [Spec.header, opAt, xorOp, Nat.zero_add, Nat.mul_comm 4 A.length]
      rw [opAt_append]
    have hl2 : (Spec.header A K).length = 1 + A.length + K.length := by
      simp only [Spec.header, List.length_cons, List.length_append]; omega
    rw [← e, opAt_zip xorOp _ S1 0 (by rw [hl2]; omega)]
    simp only [List.take_zero, List.nil_append, List.drop_zero, Nat.zero_add, hl2, xorOp]
    rw [← zipWith_take_left _ S1 (Spec.header A K), hl2]
    rfl
  have hcode := codes_eq
  by_cases hk0 : K.length = 0
  · have hlenc : (prgCommit F codeNull st).sp.s.length = 192 :=
      hF _ (by simp only [List.length_set]; exact hlen)
    have hK : K = [] := List.length_eq_zero_iff.mp hk0
    subst hK
    have k2 := key _ hlenc
    simp only [prgRestart, Spec.restart, List.length_nil, ne_eq, not_true_eq_false, if_false, toSpec] at k2 ⊢
    rw [k2]
    simp only [hcode.1]
    rfl
  · have hlenc : (prgCommit F codeKey st).sp.s.length = 192 :=
      hF _ (by simp only [List.length_set]; exact hlen)
    simp only [prgRestart, Spec.restart, hk0, ne_eq, not_false_eq_true, if_true, toSpec]
    rw [key _ hlenc]
    simp only [hcode.2.1, r1]
    rfl

/-- `bashPrgRatchet` = `ratchet` of the standard -/
theorem prgRatchet_spec (hF : ∀ s : Bytes, s.length = 192 → (F s).length = 192) (st : PrgSt) (h : st.WF2) :
    toSpec (prgRatchet F st) = Spec.ratchet F (toSpec st) := by
  have hlenc : (prgCommit F codeRatchet { st with t := st.sp.s }).sp.s.length = 192 :=
    hF _ (by simp only [List.length_set]; exact h.2)
  simp only [prgRatchet, Spec.ratchet, toSpec]
  rw [opAt_zip xorOp _ _ 0 (by rw [hlenc, h.2]; decide)]
  simp only [List.take_zero, List.nil_append, List.drop_zero, Nat.zero_add, xorOp]
  rw [List.drop_eq_nil_of_le (by rw [hlenc, h.2]; decide), List.append_nil]
  rfl


section cmds
variable (hF : ∀ s : Bytes, s.length = 192 → (F s).length = 192)
include hF

theorem prgAbsorb_spec (X : Bytes) (st : PrgSt) (h : st.WF2) :
    toSpec (prgAbsorb F X st) = Spec.absorb F X (toSpec st) ∧ (prgAbsorb F X st).WF2 := by
  obtain ⟨a, b, _⟩ := dataCmd_spec F hF xorOp Spec.absorbAct .data X st h (fun s x _ => act_absorb s x)
  exact ⟨a, b⟩

theorem prgSqueeze_spec (n : Nat) (st : PrgSt) (h : st.WF2) :
    (toSpec (prgSqueeze F (zeros n) st).1, (prgSqueeze F (zeros n) st).2) = Spec.squeeze F n (toSpec st) ∧
      (prgSqueeze F (zeros n) st).1.WF2 := by
  obtain ⟨a, b, c⟩ := dataCmd_spec F hF sqzOp Spec.squeezeAct .out (zeros n) st h (fun s x _ => (act_squeeze s x).1)
  have c' := c (fun s x _ => (act_squeeze s x).2)
  exact ⟨Prod.ext a c', b⟩

theorem prgEncr_spec (X : Bytes) (st : PrgSt) (h : st.WF2) :
    (toSpec (prgEncr F X st).1, (prgEncr F X st).2) = Spec.encrypt F X (toSpec st) ∧ (prgEncr F X st).1.WF2 := by
  obtain ⟨a, b, c⟩ := dataCmd_spec F hF encOp Spec.encrAct .text X st h (fun s x _ => (act_encr s x).1)
  have c' := c (fun s x _ => (act_encr s x).2)
  exact ⟨Prod.ext a c', b⟩

theorem prgDecr_spec (Y : Bytes) (st : PrgSt) (h : st.WF2) :
    (toSpec (prgDecr F Y st).1, (prgDecr F Y st).2) = Spec.decrypt F Y (toSpec st) ∧ (prgDecr F Y st).1.WF2 := by
  obtain ⟨a, b, c⟩ := dataCmd_spec F hF decOp Spec.decrAct .text Y st h (fun s x _ => (act_decr s x).1)
  have c' := c (fun s x _ => (act_decr s x).2)
  exact ⟨Prod.ext a c', b⟩

theorem prgRestart_WF2 (A K : Bytes) (st : PrgSt) (h : st.WF2) (ha : A.length ≤ 60) (hk : K.length ≤ 60) :
    (prgRestart F A K st).WF2 := by
  refine ⟨Cmd.run_WF F (.restart A K) ⟨ha, hk⟩ st h.1, ?_⟩
  have hn : (prgCommit F codeNull st).sp.s.length = 192 := hF _ (by simp only [List.length_set]; exact h.2)
  have hk' : (prgCommit F codeKey st).sp.s.length = 192 := hF _ (by simp only [List.length_set]; exact h.2)
  simp only [prgRestart]
  split <;> simp only [opAt_length, List.length_set] <;> assumption

theorem prgRatchet_WF2 (st : PrgSt) (h : st.WF2) : (prgRatchet F st).WF2 := by
  refine ⟨Cmd.run_WF F .ratchet trivial st h.1, ?_⟩
  simp only [prgRatchet, opAt_length]
  exact hF _ (by simp only [List.length_set]; exact h.2)

theorem prgStart_WF2 (l d : Nat) (A K : Bytes) (hl : l = 128 ∨ l = 192 ∨ l = 256) (hd : d = 1 ∨ d = 2)
    (ha : A.length ≤ 60) (hk : K.length ≤ 60) : (prgStart l d A K).WF2 := by
  refine ⟨prgStart_WF l d A K hl hd ha hk, ?_⟩
  simp only [prgStart, List.length_set, List.length_cons, List.length_append, zeros_length]
  omega

end cmds

/-- the one-shot commands (a single `…Step` call per command) -/
def Cmd.oneShot : Cmd → Prop
  | .absorbMore _ | .squeezeMore _ | .encrMore _ | .decrMore _ => False
  | _ => True

/-- the standard's command for a one-shot command of the code -/
def specRun : Cmd → Spec.PSt → Spec.PSt
  | .restart a k, s => Spec.restart F a k s
  | .absorb x, s => Spec.absorb F x s
  | .squeeze n, s => (Spec.squeeze F n s).1
  | .encr x, s => (Spec.encrypt F x s).1
  | .decr x, s => (Spec.decrypt F x s).1
  | .ratchet, s => Spec.ratchet F s
  | _, s => s

theorem Cmd.run_spec (hF : ∀ s : Bytes, s.length = 192 → (F s).length = 192) (c : Cmd) (hc : c.ok)
    (h1 : c.oneShot) (st : PrgSt) (h : st.WF2) :
    toSpec (c.run F st) = specRun F c (toSpec st) ∧ (c.run F st).WF2 := by
  cases c with
  | restart a k =>
    exact ⟨prgRestart_spec F hF a k st h hc.1 hc.2, prgRestart_WF2 F hF a k st h hc.1 hc.2⟩
  | absorb x => exact prgAbsorb_spec F hF x st h
  | squeeze n =>
    obtain ⟨a, b⟩ := prgSqueeze_spec F hF n st h
    exact ⟨(congrArg Prod.fst a), b⟩
  | encr x =>
    obtain ⟨a, b⟩ := prgEncr_spec F hF x st h
    exact ⟨(congrArg Prod.fst a), b⟩
  | decr x =>
    obtain ⟨a, b⟩ := prgDecr_spec F hF x st h
    exact ⟨(congrArg Prod.fst a), b⟩
  | ratchet => exact ⟨prgRatchet_spec F hF st h, prgRatchet_WF2 F hF st h⟩
  | absorbMore x => exact absurd h1 id
  | squeezeMore n => exact absurd h1 id
  | encrMore x => exact absurd h1 id
  | decrMore x => exact absurd h1 id

theorem runAll_spec (hF : ∀ s : Bytes, s.length = 192 → (F s).length = 192) :
    ∀ (h : List Cmd), (∀ c ∈ h, c.ok ∧ c.oneShot) → ∀ (st : PrgSt), st.WF2 →
      toSpec (runAll F h st) = h.foldl (fun s c => specRun F c s) (toSpec st) ∧ (runAll F h st).WF2 := by
  intro h
  induction h with
  | nil => intro _ st hw; exact ⟨rfl, hw⟩
  | cons c cs ih =>
    intro hok st hw
    obtain ⟨a, b⟩ := Cmd.run_spec F hF c (hok c List.mem_cons_self).1 (hok c List.mem_cons_self).2 st hw
    obtain ⟨i1, i2⟩ := ih (fun c' hc' => hok c' (List.mem_cons_of_mem _ hc')) _ b
    simp only [runAll, List.foldl_cons] at i1 i2 ⊢
    rw [i1, a]
    exact ⟨rfl, i2⟩

end Bee2V.C03

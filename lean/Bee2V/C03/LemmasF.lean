import Bee2V.C03.BashF
/-!
# `Model.bashF0 = Spec.bashF` for every 1536-bit state

The C code never moves words: round `t` works on cells `p_t(x)` where `p_t = perm^t`
(macros P0..P5, `p_{t+1}(x) = p_t(P1(x))`).  `view p s` reads the array through `p`.
Per-round lemma: `view (p ∘ perm) (applyR (specRound p t) s) = Spec.round t (view p s)` for every
injective `p`; the generated rounds are `specRound (perm^t) t` (checked by kernel evaluation).
-/
namespace Bee2V.C03
open Bee2V.Gen.C03

theorem rotHi_toBitVec (w d : UInt64) (h0 : 0 < d.toNat) (h : d.toNat < 64) :
    (rotHi w d).toBitVec = w.toBitVec.rotateLeft d.toNat := by
  unfold rotHi
  have h2 : (64 - d).toNat = 64 - d.toNat := by
    rw [UInt64.toNat_sub_of_le]; rfl
    rw [UInt64.le_iff_toNat_le]; simp; omega
  have e1 : (d.toBitVec % 64).toNat = d.toNat := by
    simp [BitVec.toNat_umod]; exact h
  have e2 : ((64 - d).toBitVec % 64).toNat = 64 - d.toNat := by
    rw [BitVec.toNat_umod]; show (64-d).toNat % 64 = _ ; rw [h2]; simp; omega
  simp only [UInt64.toBitVec_or, UInt64.toBitVec_shiftLeft, UInt64.toBitVec_shiftRight, BitVec.rotateLeft_def,
    BitVec.shiftLeft_eq', BitVec.ushiftRight_eq', e1, e2, Nat.mod_eq_of_lt h]

/-- a rotation amount the code may use -/
def RotOk (d : UInt64) : Prop := 0 < d.toNat ∧ d.toNat < 64

/-- the generated `bashS` template computes the standard's bash-s -/
theorem bashS_spec (m1 n1 m2 n2 : UInt64) (h1 : RotOk m1) (h2 : RotOk n1) (h3 : RotOk m2) (h4 : RotOk n2)
    (a b c : UInt64) :
    ((bashS m1 n1 m2 n2 a b c).1.toBitVec, (bashS m1 n1 m2 n2 a b c).2.1.toBitVec,
      (bashS m1 n1 m2 n2 a b c).2.2.toBitVec)
      = Spec.bashS m1.toNat n1.toNat m2.toNat n2.toNat a.toBitVec b.toBitVec c.toBitVec := by
  simp only [bashS, Spec.bashS, UInt64.toBitVec_xor, UInt64.toBitVec_or, UInt64.toBitVec_and,
    UInt64.toBitVec_not, rotHi_toBitVec _ _ h1.1 h1.2, rotHi_toBitVec _ _ h2.1 h2.2,
    rotHi_toBitVec _ _ h3.1 h3.2, rotHi_toBitVec _ _ h4.1 h4.2, Prod.mk.injEq]
  generalize a.toBitVec = A
  generalize b.toBitVec = B
  generalize c.toBitVec = C
  have e0 : A ^^^ (B ^^^ C) = A ^^^ B ^^^ C := by ac_rfl
  rw [e0]
  generalize A ^^^ B ^^^ C = W0
  generalize (B ^^^ W0.rotateLeft n1.toNat) = T1
  have e1 : T1 ^^^ A.rotateLeft m1.toNat = A.rotateLeft m1.toNat ^^^ T1 := by ac_rfl
  have e2 : C ^^^ (C.rotateLeft m2.toNat ^^^ T1.rotateLeft n2.toNat)
      = C ^^^ C.rotateLeft m2.toNat ^^^ T1.rotateLeft n2.toNat := by ac_rfl
  rw [e1, e2]
  exact ⟨rfl, rfl, rfl⟩

end Bee2V.C03

namespace Bee2V.C03
open Bee2V.Gen.C03

/-- `perm^t`: the cell that holds logical word `x` before round `t` (macros P0..P5 of the code) -/
def ppow : Nat → Fin 24 → Fin 24
  | 0, x => x
  | t + 1, x => ppow t (Spec.perm x)

/-- the `bashS` line of column `j` when logical word `x` lives in cell `p x` -/
def specLine (p : Fin 24 → Fin 24) (j : Fin 8) : SLine :=
  ⟨p ⟨j.val, by omega⟩, p ⟨j.val + 8, by omega⟩, p ⟨j.val + 16, by omega⟩,
    .ofNat (Spec.rot j.val).1, .ofNat (Spec.rot j.val).2.1, .ofNat (Spec.rot j.val).2.2.1,
    .ofNat (Spec.rot j.val).2.2.2⟩

/-- the `bashR` the standard prescribes for round `t` when logical word `x` lives in cell `p x` -/
def specRound (p : Fin 24 → Fin 24) (t : Nat) : Round :=
  ⟨(List.finRange 8).map (specLine p), p (Spec.perm 23), ⟨Spec.C t⟩⟩

/-- TIE to the source: the rounds regenerated from bash_f64.c are exactly these
(cell indices = perm^t, rotation amounts = the ×7 rule, constants = the LFSR). -/
theorem rounds_eq_spec : rounds = (List.range 24).map fun t => specRound (ppow t) t := by
  decide +kernel

@[simp] theorem specLine_i0 (p : Fin 24 → Fin 24) (j : Fin 8) : (specLine p j).i0 = p ⟨j.val, by omega⟩ := rfl
@[simp] theorem specLine_i1 (p : Fin 24 → Fin 24) (j : Fin 8) : (specLine p j).i1 = p ⟨j.val + 8, by omega⟩ := rfl
@[simp] theorem specLine_i2 (p : Fin 24 → Fin 24) (j : Fin 8) : (specLine p j).i2 = p ⟨j.val + 16, by omega⟩ := rfl
theorem ppow_zero (x : Fin 24) : ppow 0 x = x := rfl
theorem ppow_succ (t : Nat) : ppow (t + 1) = fun x => ppow t (Spec.perm x) := rfl

def view (p : Fin 24 → Fin 24) (s : State) : Spec.St := fun x => s[p x].toBitVec

/-- output of the S-line of `y`'s column, at `y`'s row, read from the array `s` -/
def colOut (p : Fin 24 → Fin 24) (s : State) (y : Fin 24) : UInt64 :=
  let l := specLine p ⟨y.val % 8, Nat.mod_lt _ (by decide)⟩
  let r := bashS l.m1 l.n1 l.m2 l.n2 s[l.i0] s[l.i1] s[l.i2]
  if y.val < 8 then r.1 else if y.val < 16 then r.2.1 else r.2.2

theorem applyS_at (p : Fin 24 → Fin 24) (hp : Function.Injective p) (j : Fin 8) (s : State) (z : Fin 24) :
    (applyS (specLine p j) s)[p z] = if z.val % 8 = j.val then colOut p s z else s[p z] := by
  have inj : ∀ a b : Fin 24, ((p a).val = (p b).val) ↔ a.val = b.val := by
    intro a b; rw [Fin.val_inj, hp.eq_iff, Fin.ext_iff]
  unfold applyS
  simp only [Fin.getElem_fin, Vector.getElem_set, specLine, inj]
  by_cases h : z.val % 8 = j.val
  · simp only [h, if_true, colOut, specLine, Fin.getElem_fin]
    by_cases h8 : z.val < 8
    · have : ¬ (j.val + 16 = z.val) := by omega
      have : ¬ (j.val + 8 = z.val) := by omega
      have : j.val = z.val := by omega
      simp [*]
    · by_cases h16 : z.val < 16
      · have : ¬ (j.val + 16 = z.val) := by omega
        have : (j.val + 8 = z.val) := by omega
        simp [*]
      · have : (j.val + 16 = z.val) := by omega
        simp [*]
  · have : ¬ (j.val + 16 = z.val) := by omega
    have : ¬ (j.val + 8 = z.val) := by omega
    have : ¬ (j.val = z.val) := by omega
    simp [*]


/-- the S-line of column `j` does not disturb what another column reads -/
theorem colOut_applyS (p : Fin 24 → Fin 24) (hp : Function.Injective p) (j : Fin 8) (s : State) (y : Fin 24)
    (h : y.val % 8 ≠ j.val) : colOut p (applyS (specLine p j) s) y = colOut p s y := by
  have a0 := applyS_at p hp j s ⟨y.val % 8, by omega⟩
  have a1 := applyS_at p hp j s ⟨y.val % 8 + 8, by omega⟩
  have a2 := applyS_at p hp j s ⟨y.val % 8 + 16, by omega⟩
  have e0 : (y.val % 8) % 8 ≠ j.val := by omega
  have e1 : (y.val % 8 + 8) % 8 ≠ j.val := by omega
  have e2 : (y.val % 8 + 16) % 8 ≠ j.val := by omega
  simp only [e0, e1, e2, if_false] at a0 a1 a2
  simp only [colOut, specLine_i0, specLine_i1, specLine_i2, a0, a1, a2]

theorem foldS_at (p : Fin 24 → Fin 24) (hp : Function.Injective p) :
    ∀ (js : List (Fin 8)) (_ : js.Nodup) (s : State) (y : Fin 24),
      (js.foldl (fun s j => applyS (specLine p j) s) s)[p y]
        = if (⟨y.val % 8, Nat.mod_lt _ (by decide)⟩ : Fin 8) ∈ js then colOut p s y else s[p y] := by
  intro js
  induction js with
  | nil => intro _ s y; simp
  | cons j js ih =>
    intro hnd s y
    rw [List.nodup_cons] at hnd
    rw [List.foldl_cons, ih hnd.2]
    by_cases hy : y.val % 8 = j.val
    · have hj : (⟨y.val % 8, Nat.mod_lt _ (by decide)⟩ : Fin 8) = j := Fin.ext hy
      have : j ∉ js := hnd.1
      simp only [hj, this, if_false, List.mem_cons, true_or, if_true]
      rw [applyS_at p hp, if_pos hy]
    · have hj : (⟨y.val % 8, Nat.mod_lt _ (by decide)⟩ : Fin 8) ≠ j := fun e => hy (congrArg Fin.val e)
      simp only [List.mem_cons, hj, false_or]
      rw [colOut_applyS p hp j s y hy, applyS_at p hp, if_neg hy]

theorem rot_ok : ∀ j : Fin 8,
    RotOk (.ofNat (Spec.rot j.val).1) ∧ RotOk (.ofNat (Spec.rot j.val).2.1) ∧
    RotOk (.ofNat (Spec.rot j.val).2.2.1) ∧ RotOk (.ofNat (Spec.rot j.val).2.2.2) ∧
    (UInt64.ofNat (Spec.rot j.val).1).toNat = (Spec.rot j.val).1 ∧
    (UInt64.ofNat (Spec.rot j.val).2.1).toNat = (Spec.rot j.val).2.1 ∧
    (UInt64.ofNat (Spec.rot j.val).2.2.1).toNat = (Spec.rot j.val).2.2.1 ∧
    (UInt64.ofNat (Spec.rot j.val).2.2.2).toNat = (Spec.rot j.val).2.2.2 := by
  unfold RotOk; decide +kernel

/-- the S-lines of the code compute the S-box layer of the standard -/
theorem colOut_spec (p : Fin 24 → Fin 24) (s : State) (y : Fin 24) :
    (colOut p s y).toBitVec = Spec.sLayer (view p s) y := by
  obtain ⟨r1, r2, r3, r4, e1, e2, e3, e4⟩ := rot_ok ⟨y.val % 8, Nat.mod_lt _ (by decide)⟩
  have h := bashS_spec _ _ _ _ r1 r2 r3 r4
    s[(p ⟨y.val % 8, by omega⟩)] s[(p ⟨y.val % 8 + 8, by omega⟩)] s[(p ⟨y.val % 8 + 16, by omega⟩)]
  rw [e1, e2, e3, e4] at h
  simp only [Prod.ext_iff] at h
  simp only [colOut, specLine, Spec.sLayer, view]
  split
  · exact h.1
  · split
    · exact h.2.1
    · exact h.2.2

theorem perm_inj : Function.Injective Spec.perm := by
  intro a b; revert a b; decide

/-- one round of the code, seen through the cell map, is one round of the standard -/
theorem applyR_spec (p : Fin 24 → Fin 24) (hp : Function.Injective p) (t : Nat) (s : State) :
    view (fun x => p (Spec.perm x)) (applyR (specRound p t) s) = Spec.round t (view p s) := by
  funext x
  have hall : ∀ y : Fin 24, (⟨y.val % 8, Nat.mod_lt _ (by decide)⟩ : Fin 8) ∈ List.finRange 8 :=
    fun y => List.mem_finRange _
  have hf := fun y => foldS_at p hp (List.finRange 8) (List.nodup_finRange 8) s y
  simp only [hall, if_true] at hf
  simp only [view, applyR, specRound, List.foldl_map, Fin.getElem_fin, Vector.getElem_set, Spec.round]
  have inj : ((p (Spec.perm 23)).val = (p (Spec.perm x)).val) ↔ x = 23 := by
    rw [Fin.val_inj, hp.eq_iff, perm_inj.eq_iff]; exact eq_comm
  simp only [inj]
  have h1 := hf (Spec.perm x)
  have h2 := hf (Spec.perm 23)
  simp only [Fin.getElem_fin] at h1 h2
  by_cases hx : x = 23
  · subst hx
    simp only [if_true, UInt64.toBitVec_xor, h2, colOut_spec]
  · simp only [hx, if_false, h1, colOut_spec]

theorem ppow_inj : ∀ t, Function.Injective (ppow t)
  | 0 => fun _ _ h => h
  | t + 1 => fun _ _ h => perm_inj (ppow_inj t h)

theorem foldR_spec : ∀ (n t : Nat) (s : State),
    view (ppow (t + n)) ((List.range' t n).foldl (fun s t => applyR (specRound (ppow t) t) s) s)
      = Spec.roundsFrom t n (view (ppow t) s) := by
  intro n
  induction n with
  | zero => intro t s; rfl
  | succ n ih =>
    intro t s
    rw [List.range'_succ, List.foldl_cons, Spec.roundsFrom]
    have := ih (t + 1) (applyR (specRound (ppow t) t) s)
    rw [show t + 1 + n = t + (n + 1) by omega] at this
    rw [this, ppow_succ, applyR_spec (ppow t) (ppow_inj t) t s]

theorem ppow24 : ∀ x, ppow 24 x = x := by decide

/-- **bash-f of the code is bash-f of the standard, for every 1536-bit state.** -/
theorem bashF0_spec (s : State) (x : Fin 24) :
    (bashF0 s)[x].toBitVec = Spec.bashF (fun y => s[y].toBitVec) x := by
  have h := foldR_spec 24 0 s
  rw [show 0 + 24 = 24 from rfl] at h
  have e : bashF0 s = (List.range' 0 24).foldl (fun s t => applyR (specRound (ppow t) t) s) s := by
    unfold bashF0
    rw [rounds_eq_spec, List.foldl_map, List.range_eq_range']
  rw [e]
  have := congrFun h x
  simp only [view, ppow24] at this
  unfold Spec.bashF
  exact this


namespace Spec
/-- tabulated evaluation of the rounds (the function form recomputes exponentially when evaluated) -/
def roundsFromV : Nat → Nat → Vector W 24 → Vector W 24
  | _, 0, v => v
  | t, n + 1, v => roundsFromV (t + 1) n (Vector.ofFn (round t (fun y => v[y])))

theorem roundsFromV_eq : ∀ (n t : Nat) (v : Vector W 24) (x : Fin 24),
    (roundsFromV t n v)[x] = roundsFrom t n (fun y => v[y]) x := by
  intro n
  induction n with
  | zero => intro t v x; rfl
  | succ n ih =>
    intro t v x
    have e : (fun y : Fin 24 => (Vector.ofFn (round t (fun y => v[y])))[y]) = round t (fun y => v[y]) := by
      funext y; simp
    show (roundsFromV (t + 1) n (Vector.ofFn (round t (fun y => v[y]))))[x]
        = roundsFrom (t + 1) n (round t (fun y => v[y])) x
    rw [ih, e]
end Spec

end Bee2V.C03

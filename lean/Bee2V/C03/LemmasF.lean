import Bee2V.C03.BashF
/-!
# `Model.bashF0 = Spec.bashF` for every 1536-bit state

The C code never moves words: round `t` works on cells `p_t(x)` where `p_t = perm^t`
(macros P0..P5, `p_{t+1}(x) = p_t(P1(x))`).  `view p s` reads the array through `p`.
Per-round lemma: `view (p ∘ perm) (applyR (specRound p t) s) = Spec.round t (view p s)` for every
injective `p`; the generated rounds are `specRound (perm^t) t` (checked by kernel evaluation).
-/
namespace Bee2V.C03
open Bee2V.Gen.C03

theorem rotHi_toBitVec (w d : UInt64) (h0 : 0 < d.toNat) (h : d.toNat < 64) :
    (rotHi w d).toBitVec = w.toBitVec.rotateLeft d.toNat := by
  unfold rotHi
  have h2 : (64 - d).toNat = 64 - d.toNat := by
    rw [UInt64.toNat_sub_of_le]; rfl
    rw [UInt64.le_iff_toNat_le]; simp; omega
  have e1 : (d.toBitVec % 64).toNat = d.toNat := by
    simp [BitVec.toNat_umod]; exact h
  have e2 : ((64 - d).toBitVec % 64).toNat = 64 - d.toNat := by
    rw [BitVec.toNat_umod]; show (64-d).toNat % 64 = _ ; rw [h2]; simp; omega
  simp only [UInt64.toBitVec_or, UInt64.toBitVec_shiftLeft, UInt64.toBitVec_shiftRight, BitVec.rotateLeft_def,
    BitVec.shiftLeft_eq', BitVec.ushiftRight_eq', e1, e2, Nat.mod_eq_of_lt h]

/-- a rotation amount the code may use -/
def RotOk (d : UInt64) : Prop := 0 < d.toNat ∧ d.toNat < 64

/-- the generated `bashS` template computes the standard's bash-s -/
theorem bashS_spec (m1 n1 m2 n2 : UInt64) (h1 : RotOk m1) (h2 : RotOk n1) (h3 : RotOk m2) (h4 : RotOk n2)
    (a b c : UInt64) :
    ((bashS m1 n1 m2 n2 a b c).1.toBitVec, (bashS m1 n1 m2 n2 a b c).2.1.toBitVec,
      (bashS m1 n1 m2 n2 a b c).2.2.toBitVec)
      = Spec.bashS m1.toNat n1.toNat m2.toNat n2.toNat a.toBitVec b.toBitVec c.toBitVec := by
  simp only [bashS, Spec.bashS, UInt64.toBitVec_xor, UInt64.toBitVec_or, UInt64.toBitVec_and,
    UInt64.toBitVec_not, rotHi_toBitVec _ _ h1.1 h1.2, rotHi_toBitVec _ _ h2.1 h2.2,
    rotHi_toBitVec _ _ h3.1 h3.2, rotHi_toBitVec _ _ h4.1 h4.2, Prod.mk.injEq]
  generalize a.toBitVec = A
  generalize b.toBitVec = B
  generalize c.toBitVec = C
  have e0 : A ^^^ (B ^^^ C) = A ^^^ B ^^^ C := by ac_rfl
  rw [e0]
  generalize A ^^^ B ^^^ C = W0
  generalize (B ^^^ W0.rotateLeft n1.toNat) = T1
  have e1 : T1 ^^^ A.rotateLeft m1.toNat = A.rotateLeft m1.toNat ^^^ T1 := by ac_rfl
  have e2 : C ^^^ (C.rotateLeft m2.toNat ^^^ T1.rotateLeft n2.toNat)
      = C ^^^ C.rotateLeft m2.toNat ^^^ T1.rotateLeft n2.toNat := by ac_rfl
  rw [e1, e2]
  exact ⟨rfl, rfl, rfl⟩

end Bee2V.C03

namespace Bee2V.C03
open Bee2V.Gen.C03

/-- `perm^t`: the cell that holds logical word `x` before round `t` (macros P0..P5 of the code) -/
def ppow : Nat → Fin 24 → Fin 24
  | 0, x => x
  | t + 1, x => ppow t (Spec.perm x)

/-- the `bashS` line of column `j` when logical word `x` lives in cell `p x` -/
def specLine (p : Fin 24 → Fin 24) (j : Fin 8) : SLine :=
  ⟨p ⟨j.val, by omega⟩, p ⟨j.val + 8, by omega⟩, p ⟨j.val + 16, by omega⟩,
    .ofNat (Spec.rot j.val).1, .ofNat (Spec.rot j.val).2.1, .ofNat (Spec.rot j.val).2.2.1,
    .ofNat (Spec.rot j.val).2.2.2⟩

/-- the `bashR` the standard prescribes for round `t` when logical word `x` lives in cell `p x` -/
def specRound (p : Fin 24 → Fin 24) (t : Nat) : Round :=
  ⟨(List.finRange 8).map (specLine p), p (Spec.perm 23), ⟨Spec.C t⟩⟩

/-- TIE to the source: the rounds regenerated from bash_f64.c are exactly these
(cell indices = perm^t, rotation amounts = the ×7 rule, constants = the LFSR). -/
theorem rounds_eq_spec : rounds = (List.range 24).map fun t => specRound (ppow t) t := by
  decide +kernel

def view (p : Fin 24 → Fin 24) (s : State) : Spec.St := fun x => s[p x].toBitVec

/-- output of the S-line of `y`'s column, at `y`'s row, read from the array `s` -/
def colOut (p : Fin 24 → Fin 24) (s : State) (y : Fin 24) : UInt64 :=
  let l := specLine p ⟨y.val % 8, Nat.mod_lt _ (by decide)⟩
  let r := bashS l.m1 l.n1 l.m2 l.n2 s[l.i0] s[l.i1] s[l.i2]
  if y.val < 8 then r.1 else if y.val < 16 then r.2.1 else r.2.2

theorem applyS_at (p : Fin 24 → Fin 24) (hp : Function.Injective p) (j : Fin 8) (s : State) (z : Fin 24) :
    (applyS (specLine p j) s)[p z] = if z.val % 8 = j.val then colOut p s z else s[p z] := by
  have inj : ∀ a b : Fin 24, ((p a).val = (p b).val) ↔ a.val = b.val := by
    intro a b; rw [Fin.val_inj, hp.eq_iff, Fin.ext_iff]
  unfold applyS
  simp only [Fin.getElem_fin, Vector.getElem_set, specLine, inj]
  by_cases h : z.val % 8 = j.val
  · have hj : (⟨z.val % 8, Nat.mod_lt _ (by decide)⟩ : Fin 8) = j := Fin.ext h
    simp only [h, if_true, colOut, specLine, hj, Fin.getElem_fin]
    by_cases h8 : z.val < 8
    · have : ¬ (j.val + 16 = z.val) := by omega
      have : ¬ (j.val + 8 = z.val) := by omega
      have : j.val = z.val := by omega
      simp [*]
    · by_cases h16 : z.val < 16
      · have : ¬ (j.val + 16 = z.val) := by omega
        have : (j.val + 8 = z.val) := by omega
        simp [*]
      · have : (j.val + 16 = z.val) := by omega
        simp [*]
  · have : ¬ (j.val + 16 = z.val) := by omega
    have : ¬ (j.val + 8 = z.val) := by omega
    have : ¬ (j.val = z.val) := by omega
    simp [*]

end Bee2V.C03

import Bee2V.C03.Belt
import Bee2V.C03.Sponge
import Bee2V.Base.Proto
/-!
# STB 34.101.47 §§8–9 (botp): HOTP, TOTP, OCRA — arithmetic form (counters and times are numbers)
-/
namespace Bee2V.C03.Spec
open Bee2V.Proto

/-- the 8-octet big-endian word `⟨n⟩_64` -/
def be8 (n : Nat) : Bytes := (natLE 8 n).reverse

/-- dynamic truncation: the 31-bit number starting at offset `mac[last] mod 16` -/
def dtNum (mac : Bytes) : Nat :=
  let off := (mac.getD (mac.length - 1) 0).toNat % 16
  let b := fun i => (mac.getD (off + i) 0).toNat
  (b 0 * 2 ^ 24 + b 1 * 2 ^ 16 + b 2 * 2 ^ 8 + b 3) % 2 ^ 31

/-- `n` as `digit` decimal characters (leading zeros) -/
def decStr : Nat → Nat → Bytes
  | 0, _ => []
  | d + 1, n => decStr d (n / 10) ++ [UInt8.ofNat (48 + n % 10)]

/-- the password of a MAC: `dtNum mod 10^digit`, `digit` characters -/
def otp (digit : Nat) (mac : Bytes) : Bytes := decStr digit (dtNum mac % 10 ^ digit)

/-- HOTP value for counter `C` -/
def hotp (key : Bytes) (digit C : Nat) : Bytes := otp digit (Belt.hmac key (be8 C))

/-- TOTP value for the rounded time `T` -/
def totp (key : Bytes) (digit T : Nat) : Bytes := otp digit (Belt.hmac key (be8 T))

/-- parameters of an OCRA suite `OCRA-1:HOTP-HBELT-<digit>:[C-]Q<A|N|H><xx>[-P<hash>][-S<nnn>][-T<n><S|M|H>]` -/
structure OcraParams where
  digit : Nat
  ctr : Bool
  qType : Char
  qMax : Nat
  pLen : Nat        -- 0 = no P; HBELT 32, SHA1 20, SHA256 32, SHA512 64
  sLen : Nat        -- 0 = no S (also `-S000`)
  ts : Nat          -- time step in seconds, 0 = no T
  deriving DecidableEq, Repr

/-- the OCRA data input: `suite ‖ 00 ‖ [C] ‖ Q ‖ 0…0 (to 128 octets) ‖ [P] ‖ [S] ‖ [T]` -/
def ocraInput (suite : Bytes) (p : OcraParams) (C : Nat) (Q P S : Bytes) (T : Nat) : Bytes :=
  suite ++ [0] ++ (if p.ctr then be8 C else []) ++ (Q ++ zeros (128 - Q.length)) ++
    (if p.pLen ≠ 0 then P else []) ++ (if p.sLen ≠ 0 then S else []) ++ (if p.ts ≠ 0 then be8 T else [])

def ocra (key suite : Bytes) (p : OcraParams) (C : Nat) (Q P S : Bytes) (T : Nat) : Bytes :=
  otp p.digit (Belt.hmac key (ocraInput suite p C Q P S T))


/-! ## the OCRA suite grammar (RFC 6287 §6 restricted to HBELT, as STB 34.101.47 prescribes)

`OCRA-1:HOTP-HBELT-<d>:[C-]Q<A|N|H><xx>[-P<HBELT|SHA1|SHA256|SHA512>][-S<nnn>][-T<n><S|M|H>]`,
`d ∈ 4..9`, `xx ∈ 04..64`, `nnn ≤ 512`, `n ∈ 1..59` (S, M) or `1..48` (H), no leading zero in `n`. -/

/-- ASCII codes of a string literal -/
def asc (s : String) : Bytes := s.toList.map fun c => UInt8.ofNat c.toNat

inductive QT | A | N | H deriving DecidableEq, Repr
def QT.ch : QT → UInt8 | .A => 65 | .N => 78 | .H => 72

inductive PH | hbelt | sha1 | sha256 | sha512 deriving DecidableEq, Repr
/-- `"HBELT"`, `"SHA1"`, `"SHA256"`, `"SHA512"` -/
def PH.name : PH → Bytes
  | .hbelt => [72, 66, 69, 76, 84] | .sha1 => [83, 72, 65, 49]
  | .sha256 => [83, 72, 65, 50, 53, 54] | .sha512 => [83, 72, 65, 53, 49, 50]
def PH.len : PH → Nat | .hbelt => 32 | .sha1 => 20 | .sha256 => 32 | .sha512 => 64

inductive TU | S | M | H deriving DecidableEq, Repr
def TU.ch : TU → UInt8 | .S => 83 | .M => 77 | .H => 72
def TU.mul : TU → Nat | .S => 1 | .M => 60 | .H => 3600
def TU.max : TU → Nat | .S => 59 | .M => 59 | .H => 48

structure Suite where
  digit : Nat
  ctr : Bool
  qt : QT
  qMax : Nat
  p : Option PH
  s : Option Nat
  t : Option (Nat × TU)
  deriving DecidableEq, Repr

def Suite.valid (su : Suite) : Prop :=
  4 ≤ su.digit ∧ su.digit ≤ 9 ∧ 4 ≤ su.qMax ∧ su.qMax ≤ 64 ∧ (∀ n, su.s = some n → n ≤ 512) ∧
    (∀ n u, su.t = some (n, u) → 1 ≤ n ∧ n ≤ u.max)

/-- decimal digit character -/
def dch (d : Nat) : UInt8 := UInt8.ofNat (48 + d)

/-- `"OCRA-1:HOTP-HBELT-"` -/
def gPrefix : Bytes := [79, 67, 82, 65, 45, 49, 58, 72, 79, 84, 80, 45, 72, 66, 69, 76, 84, 45]
def gDigit (d : Nat) : Bytes := [dch d, 58]
def gCtr (c : Bool) : Bytes := if c then [67, 45] else []
def gQ (qt : QT) (n : Nat) : Bytes := [81, qt.ch, dch (n / 10), dch (n % 10)]
def gP : Option PH → Bytes | none => [] | some h => [45, 80] ++ h.name
def gS : Option Nat → Bytes | none => [] | some n => [45, 83, dch (n / 100), dch (n / 10 % 10), dch (n % 10)]
def gT : Option (Nat × TU) → Bytes
  | none => []
  | some (n, u) => [45, 84] ++ (if n < 10 then [dch n] else [dch (n / 10), dch (n % 10)]) ++ [u.ch]

/-- the suite string -/
def Suite.str (su : Suite) : Bytes :=
  gPrefix ++ (gDigit su.digit ++ (gCtr su.ctr ++ (gQ su.qt su.qMax ++ (gP su.p ++ (gS su.s ++ gT su.t)))))

example : gPrefix = asc "OCRA-1:HOTP-HBELT-" := by decide
example : (Suite.str ⟨6, true, .N, 8, some .sha1, some 64, some (30, .S)⟩) = asc "OCRA-1:HOTP-HBELT-6:C-QN08-PSHA1-S064-T30S" := by
  decide

/-- the parameters a suite stands for -/
def Suite.params (su : Suite) : OcraParams :=
  { digit := su.digit, ctr := su.ctr, qType := Char.ofNat su.qt.ch.toNat, qMax := su.qMax,
    pLen := match su.p with | none => 0 | some h => h.len,
    sLen := su.s.getD 0,
    ts := match su.t with | none => 0 | some (n, u) => n * u.mul }

end Bee2V.C03.Spec

import Bee2V.C03.Belt
import Bee2V.C03.Sponge
/-!
# botp.c — HOTP / TOTP / OCRA (code-shaped, executable)
-/
namespace Bee2V.C03
open Bee2V.Gen.C03

/-- one line `carry = ((ctr[k] += carry) < carry);` -/
def ctrLine (c : UInt8 × UInt8) : UInt8 × UInt8 :=
  let x := c.1 + c.2
  (x, if x < c.2 then 1 else 0)

/-- `botpCtrNext(ctr)`: the eight lines, from `ctr[7]` down to `ctr[0]` -/
def botpCtrNext (ctr : Bytes) : Bytes :=
  let step := fun (acc : Bytes × UInt8) (b : UInt8) =>
    let r := ctrLine (b, acc.2)
    (r.1 :: acc.1, r.2)
  (ctr.reverse.foldl step ([], 1)).1

/-- `decFromU32(dec, count, num)` (without the terminating NUL) -/
def decFromU32 : Nat → Nat → List UInt8
  | 0, _ => []
  | n + 1, num => decFromU32 n (num / 10) ++ [UInt8.ofNat (num % 10 + 48)]

/-- `botpDT(otp, digit, mac, mac_len)`; returns the numeric password -/
def botpDTnum (digit : Nat) (mac : Bytes) : Nat :=
  let offset := (mac.getD (mac.length - 1) 0 &&& 15).toNat
  let pwd : UInt32 := (mac.getD offset 0).toUInt32
  let pwd := pwd <<< 8
  let pwd := pwd ^^^ (mac.getD (offset + 1) 0).toUInt32
  let pwd := pwd <<< 8
  let pwd := pwd ^^^ (mac.getD (offset + 2) 0).toUInt32
  let pwd := pwd <<< 8
  let pwd := pwd ^^^ (mac.getD (offset + 3) 0).toUInt32
  let pwd := pwd &&& 0x7FFFFFFF
  pwd.toNat % powersOf10.getD digit 1

def botpDT (digit : Nat) (mac : Bytes) : List UInt8 := decFromU32 digit (botpDTnum digit mac)

/-- `botpTimeToCtr(ctr, t)`: 64-bit `t` (two's complement as a Nat < 2^64), big-endian -/
def botpTimeToCtr (t : Nat) : Bytes :=
  (List.range 8).map fun i => UInt8.ofNat (t / 256 ^ (7 - i))

structure HotpSt where
  digit : Nat
  ctr : Bytes
  keySt : Belt.HmacSt
  deriving Repr

def hotpStart (digit : Nat) (key : Bytes) : HotpSt := { digit := digit, ctr := zeros 8, keySt := Belt.hmacStart key }
def hotpStepS (ctr : Bytes) (st : HotpSt) : HotpSt := { st with ctr := ctr }
/-- `botpHOTPStepR(otp, state)` -/
def hotpStepR (st : HotpSt) : HotpSt × List UInt8 :=
  let mac := Belt.hmacStepG (Belt.hmacStepA st.ctr st.keySt)
  ({ st with ctr := botpCtrNext st.ctr }, botpDT st.digit mac)
/-- `botpHOTPStepV(otp, state)`: the counter advances only on success -/
def hotpStepV (otp : List UInt8) (st : HotpSt) : HotpSt × Bool :=
  let r := hotpStepR st
  if r.2 = otp then (r.1, true) else (st, false)

/-- `botpTOTPStepR(otp, t, state)` -/
def totpStepR (digit : Nat) (keySt : Belt.HmacSt) (t : Nat) : List UInt8 :=
  botpDT digit (Belt.hmacStepG (Belt.hmacStepA (botpTimeToCtr t) keySt))

/-! ## OCRA -/

structure OcraSt where
  digit : Nat := 0
  ctr : Bytes := zeros 8
  ctrLen : Nat := 0
  qType : UInt8 := 0
  qMax : Nat := 0
  p : Bytes := []
  pLen : Nat := 0
  s : Bytes := []
  sLen : Nat := 0
  ts : Nat := 0
  keySt : Belt.HmacSt := Belt.hmacStart []
  deriving Repr

def ch (c : Char) : UInt8 := UInt8.ofNat c.toNat
def strB (s : String) : Bytes := s.toList.map ch
/-- `*suite` (the terminating NUL reads as 0) -/
def hd (s : Bytes) : UInt8 := s.headD 0
def isDig (c : UInt8) : Bool := ch '0' ≤ c && c ≤ ch '9'
def dig (c : UInt8) : Nat := c.toNat - 48
/-- `strStartsWith(str, prefix)` -/
def startsWith (s pre : Bytes) : Bool := pre.isPrefixOf s

/-! `botpOCRAStart` parses the suite in seven stages (the blocks of the C function, delimited by its
`// разбор suite: …` comments).  Each stage consumes a prefix of the string and returns the rest. -/

/-- prefix: `"OCRA-1:HOTP-"`, `"HBELT"`, `'-'` -/
def pPrefix (suite : Bytes) : Option Bytes :=
  if !startsWith suite (strB "OCRA-1:HOTP-") then none else
  let suite := suite.drop 12
  if !startsWith suite (strB "HBELT") then none else
  let suite := suite.drop 5
  if hd suite != ch '-' then none else some (suite.drop 1)

/-- digit `'4'..'9'`, then `':'` -/
def pDigit (suite : Bytes) : Option (Nat × Bytes) :=
  if hd suite < ch '4' || hd suite > ch '9' then none else
  let d := dig (hd suite)
  let suite := suite.drop 1
  if hd suite != ch ':' then none else some (d, suite.drop 1)

/-- optional `"C-"` -/
def pCtr (suite : Bytes) : Option (Nat × Bytes) :=
  if hd suite == ch 'C' then
    if hd (suite.drop 1) != ch '-' then none else some (8, suite.drop 2)
  else some (0, suite)

/-- `'Q'`, type `A|N|H`, two digits `04..64` -/
def pQ (suite : Bytes) : Option (UInt8 × Nat × Bytes) :=
  if hd suite != ch 'Q' then none else
  let suite := suite.drop 1
  if !(hd suite == ch 'A' || hd suite == ch 'N' || hd suite == ch 'H') then none else
  let qt := hd suite
  let suite := suite.drop 1
  if !isDig (hd suite) || !isDig (hd (suite.drop 1)) then none else
  let qMax := dig (hd suite) * 10 + dig (hd (suite.drop 1))
  if qMax < 4 || qMax > 64 then none else some (qt, qMax, suite.drop 2)

/-- optional `"-P"` + hash name -/
def pP (suite : Bytes) : Option (Nat × Bytes) :=
  if startsWith suite (strB "-P") then
    let suite := suite.drop 2
    if startsWith suite (strB "HBELT") then some (32, suite.drop 5)
    else if startsWith suite (strB "SHA1") then some (20, suite.drop 4)
    else if startsWith suite (strB "SHA256") then some (32, suite.drop 6)
    else if startsWith suite (strB "SHA512") then some (64, suite.drop 6)
    else none
  else some (0, suite)

/-- optional `"-S"` + three digits `≤ 512` -/
def pS (suite : Bytes) : Option (Nat × Bytes) :=
  if startsWith suite (strB "-S") then
    let suite := suite.drop 2
    if !isDig (hd suite) || !isDig (hd (suite.drop 1)) || !isDig (hd (suite.drop 2)) then none
    else
      let sLen := (dig (hd suite) * 10 + dig (hd (suite.drop 1))) * 10 + dig (hd (suite.drop 2))
      if sLen > 512 then none else some (sLen, suite.drop 3)
  else some (0, suite)

/-- optional `"-T"` + `1..59` `S|M` or `1..48` `H`; value in seconds -/
def pT (suite : Bytes) : Option (Nat × Bytes) :=
  if startsWith suite (strB "-T") then
    let suite := suite.drop 2
    if hd suite < ch '1' || hd suite > ch '9' then none
    else
      let ts := dig (hd suite)
      let suite := suite.drop 1
      let (ts, suite) := if isDig (hd suite) then (ts * 10 + dig (hd suite), suite.drop 1) else (ts, suite)
      let c := hd suite
      let suite := suite.drop 1
      if c == ch 'S' then (if ts > 59 then none else some (ts, suite))
      else if c == ch 'M' then (if ts > 59 then none else some (ts * 60, suite))
      else if c == ch 'H' then (if ts > 48 then none else some (ts * 3600, suite))
      else none
  else some (0, suite)

/-- `botpOCRAStart(state, suite, key, key_len)`; `none` = FALSE -/
def ocraStart (suite0 key : Bytes) : Option OcraSt := do
  let suite ← pPrefix suite0
  let (digit, suite) ← pDigit suite
  let (ctrLen, suite) ← pCtr suite
  let (qType, qMax, suite) ← pQ suite
  let (pLen, suite) ← pP suite
  let (sLen, suite) ← pS suite
  let (ts, suite) ← pT suite
  if hd suite != 0 then none
  -- beltHMACStart; beltHMACStepA(suite_save, strLen(suite_save) + 1)
  pure { digit := digit, ctrLen := ctrLen, qType := qType, qMax := qMax, pLen := pLen, sLen := sLen, ts := ts,
         keySt := Belt.hmacStepA (suite0 ++ [0]) (Belt.hmacStart key) }

/-- `botpOCRAStepS(state, ctr, p, s)` -/
def ocraStepS (ctr p s : Bytes) (st : OcraSt) : OcraSt :=
  let st := if st.ctrLen ≠ 0 then { st with ctr := ctr.take 8 } else st
  let st := if st.pLen ≠ 0 then { st with p := p.take st.pLen } else st
  if st.sLen ≠ 0 then { st with s := s.take st.sLen } else st

/-- `botpOCRAStepR(otp, q, q_len, t, state)` -/
def ocraStepR (q : Bytes) (t : Nat) (st : OcraSt) : OcraSt × List UInt8 :=
  let h := st.keySt
  let (h, ctr) := if st.ctrLen ≠ 0 then (Belt.hmacStepA st.ctr h, botpCtrNext st.ctr) else (h, st.ctr)
  let h := Belt.hmacStepA (q ++ zeros (128 - q.length)) h
  let h := if st.pLen ≠ 0 then Belt.hmacStepA st.p h else h
  let h := if st.sLen ≠ 0 then Belt.hmacStepA st.s h else h
  let h := if st.ts ≠ 0 then Belt.hmacStepA (botpTimeToCtr t) h else h
  ({ st with ctr := ctr }, botpDT st.digit (Belt.hmacStepG h))

/-- `botpOCRAStepV(otp, q, q_len, t, state)`: the counter advances only on success -/
def ocraStepV (otp : List UInt8) (q : Bytes) (t : Nat) (st : OcraSt) : OcraSt × Bool :=
  let r := ocraStepR q t st
  if r.2 = otp then (r.1, true) else ({ r.1 with ctr := st.ctr }, false)

/-- `botpTOTPStepV(otp, t, state)` -/
def totpStepV (otp : List UInt8) (digit : Nat) (keySt : Belt.HmacSt) (t : Nat) : Bool :=
  totpStepR digit keySt t = otp

end Bee2V.C03

import Bee2V.C03.LemmasF
import Bee2V.C03.LemmasPrg
import Bee2V.C03.LemmasHashSpec
import Bee2V.C03.LemmasPrgSpec
import Bee2V.C03.LemmasCtr
import Bee2V.C03.LemmasGen
import Bee2V.C03.LemmasOcra
import Bee2V.C03.LemmasF32
/-!
# Property C03 — bash-f, bash hash, programmable automaton, brng, botp compute what the standards define

Only property theorems and non-vacuity examples live here (the audit runs `#print axioms` on every
`theorem` of this file).  Models: `BashF.lean` (+ generated `Gen/C03.lean`), specs: `Spec` namespaces.
-/
namespace Bee2V.C03
open Bee2V.Gen.C03

/-! ## bash-f -/

/-- The 24 `bashR` lines regenerated from bash_f64.c on this run ARE the schedule of the standard:
round `t` works on cells `perm^t` (macros P0..P5), the rotation amounts of column `j` are
`7^j·(8,53,14,1) mod 64`, the constant is the `t`-th LFSR value, xor-ed into logical word 23 of the
next round. -/
theorem bashF_source_schedule : rounds = (List.range 24).map fun t => specRound (ppow t) t :=
  rounds_eq_spec

/-- the round constants of the source satisfy the LFSR recurrence of the standard -/
theorem bashF_constants_lfsr :
    rounds.map (fun r => r.c.toBitVec) = (List.range 24).map Spec.C := by
  decide +kernel

/-- the word permutation has order 6 (so that the code's `P5 → P0` closes the cycle) and the
index macros compose as the code assumes -/
theorem bashF_perm_order : (∀ x, ppow 6 x = x) ∧ Function.Injective Spec.perm ∧ (∀ x, ppow 24 x = x) :=
  ⟨by decide, perm_inj, ppow24⟩

/-- **bash-f of bash_f64.c = bash-f of STB 34.101.77, for every 1536-bit state** (word level) -/
theorem bashF0_eq_spec (s : State) (x : Fin 24) :
    (bashF0 s)[x].toBitVec = Spec.bashF (fun y => s[y].toBitVec) x :=
  bashF0_spec s x

/-- non-vacuity / independent anchor of the SPEC: test A.2 of the standard
(input = first 192 octets of the belt S-box), evaluated by the kernel on `Spec.bashF` -/
example :
    let i : Vector (BitVec 64) 24 := #v[0x3BF5080AC8BA94B1, 0xE45D4A588E006D36, 0xACC7B61B9DFA0485, 0x0DCEFD02C2722E25, 0x8161B91712D6E35B, 0x0B896B71AD8667FE, 0xB856C333FFC0B05C, 0x997FE0D8AE05C435, 0xEC5782E21ADC2BE1, 0xF18DEE95F0CC3F70, 0xCA78E69F3876ABC1, 0x4F9CBBD560F8C6F7, 0x6A307C637B653CF3, 0x313DB29E79A74EDD, 0xCFBCD3276EB5983E, 0x93B75A4C1F181E59, 0xA60F0C8F2CE7DEE9, 0x4796736FF449DB2D, 0x377A24ED16530706, 0xF68BA90383A3CB39, 0x0141D1E51C9BBD92, 0xF20E4D5EC9FB4554, 0x2F647D22AA802068, 0x1155409034F98726]
    let o : Vector (BitVec 64) 24 := #v[0x40F1A75E7727E78F, 0x8CB2CB00A2B65BB9, 0xB768BCC0C009087F, 0xE494BD41C8ED5ADC, 0xDF55C21F300C6303, 0x76E365EF53DB675B, 0x222F17A697D7A4E8, 0x29D373310948BA71, 0x26737646C92A50C3, 0x703F2D39711989A2, 0x381262615D9F9589, 0xA032210EE0755965, 0x1C7317DBEE8C01D5, 0xC0371D1550FC88CD, 0x2EDCAE069535A3D4, 0xBBAF03771E510961, 0xAA68858D34424601, 0xDFE6C7C468985D1A, 0x08267C0C69B156A7, 0x8FAB97596F13DCA2, 0xCA873C039F4D3FBB, 0x09C499F017E17060, 0x4B2176D9D9AC7249, 0x8E056E8B3F8EED7C]
    ∀ x : Fin 24, Spec.bashF (fun y => i[y]) x = o[x] := by
  intro i o x
  have h : Spec.roundsFromV 0 24 i = o := by decide +kernel
  unfold Spec.bashF
  rw [← Spec.roundsFromV_eq, h]


/-! ### bash_f32.c (BASH_32: interleaved 2×u32 words) — second code-shaped model, regenerated from the source

The SIMD variants (SSE2, AVX2, AVX-512, NEON) are NOT modelled; they are compared with the same Lean driver in the
correspondence run only. -/

/-- **f32 = f64**: on every 192-octet block `bashF` of bash_f32.c (u32x2Inter, 24 interleaved rounds,
u32x2Deinter) returns what `bashF` of bash_f64.c returns -/
theorem bashF32_eq_bashF64 (b : List UInt8) (hb : b.length = 192) : F32.bashF32 b = bashF b :=
  F32.bashF32_eq_bashF b hb

/-- word level, and hence bash-f of the standard -/
theorem bashF32_eq_spec (s : Vector UInt64 24) (x : Fin 24) :
    (F32.deinterAll (F32.bashF0_32 (F32.interAll s)))[x].toBitVec = Spec.bashF (fun y => s[y].toBitVec) x :=
  F32.bashF0_32_spec s x

example : ∃ b : List UInt8, b.length = 192 := ⟨List.replicate 192 0, List.length_replicate⟩

/-! ## bash hash and the programmable automaton (bash_hash.c, bash_prg.c)

`F` is the sponge permutation; the theorems hold for every `F`, in particular for `bashF`
(which is bash-f of the standard by `bashF0_eq_spec`). -/

/-- the code's buffering skeleton (early return / fill-up / full-block loop / tail) IS the octet-at-a-time
sponge `foldBytes` (act on `s[pos]`, advance, apply `F` when `pos = buf_len`), for every per-octet action,
data length and state with `pos < buf_len` (the block forms of the standard are derived from this below) -/
theorem bashSponge_is_octet_sponge (F : Bytes → Bytes) (op : OpB) (data : Bytes) (st : Sp)
    (h : st.pos < st.bufLen) : stepGen F op data st = foldBytes F op data st :=
  stepGen_eq_fold F op data st h

example : (hashStart 256).pos < (hashStart 256).bufLen := by decide
example : foldBytes id xorOp [1, 2, 3] ⟨[0, 0], 2, 1⟩ = (⟨[2, 2], 2, 0⟩, [0, 0, 0]) := by decide

/-- every hash level starts in a state with `pos < buf_len` -/
theorem bashHashStart_inv (l : Nat) (hl : l ≤ 256) : (hashStart l).pos < (hashStart l).bufLen := by
  simp only [hashStart]; omega

/-- hash chunk independence: feeding the chunks one by one = one `StepH` of the concatenation -/
theorem bashHash_chunk_independent (F : Bytes → Bytes) (chunks : List Bytes) (st : Sp) (h : st.pos < st.bufLen) :
    chunks.foldl (fun st c => hashStepH F c st) st = hashStepH F chunks.flatten st := by
  have := stepChunks_eq F copyOp chunks st h
  have e : ∀ (cs : List Bytes) (st : Sp), cs.foldl (fun st c => hashStepH F c st) st = (stepChunks F copyOp cs st).1 := by
    intro cs
    induction cs with
    | nil => intro st; rfl
    | cons c cs ih => intro st; simp only [List.foldl_cons, stepChunks, ih]; rfl
  rw [e, this]; rfl

example : [[1, 2], [], [3]].foldl (fun st c => hashStepH id c st) (hashStart 256)
    = hashStepH id [1, 2, 3] (hashStart 256) :=
  bashHash_chunk_independent id _ _ (bashHashStart_inv 256 (by decide))

/-- **bash hash = the block-form algorithm of STB 34.101.77 §7** for every level `l ≤ 256`, every data
length and EVERY chunking of the data: `S ← 0^{1472} ‖ ⟨l/4⟩_64`; pad `X ‖ 0x40 ‖ 0…0` to a multiple of the
rate `192 − l/2`; `S ← F(X_i ‖ S[r..))` per block; output the first `l/4` octets.  `F` = any function that
maps 192 octets to 192 octets (in particular `bashF`, which is bash-f by `bashF0_eq_spec`). -/
theorem bashHash_eq_standard (F : Bytes → Bytes) (hF : ∀ s : Bytes, s.length = 192 → (F s).length = 192)
    (l : Nat) (hl : l ≤ 256) (chunks : List Bytes) :
    hashStepG F (l / 4) (chunks.foldl (fun st c => hashStepH F c st) (hashStart l))
      = Spec.bashHash F l chunks.flatten := by
  rw [bashHash_chunk_independent F chunks _ (bashHashStart_inv l hl)]
  exact bashHash_spec F hF l hl _

/-- the instance for the real sponge function -/
theorem bashHash_bashF_eq_standard (l : Nat) (hl : l ≤ 256) (chunks : List Bytes) :
    hashStepG bashF (l / 4) (chunks.foldl (fun st c => hashStepH bashF c st) (hashStart l))
      = Spec.bashHash bashF l chunks.flatten :=
  bashHash_eq_standard bashF (fun s _ => bashF_length s) l hl chunks

example : Spec.pad 4 [1, 2, 3, 4, 5] = [1, 2, 3, 4, 5, 0x40, 0, 0] := by decide
example : Spec.bashHash id 256 [7] = [7, 0x40] ++ List.replicate 62 0 := by decide

/-- chunk independence of every `…Step` of the automaton (absorb, squeeze, encrypt, decrypt): state AND
output of several Step calls = those of one call on the concatenated data -/
theorem bashPrg_steps_chunk_independent (F : Bytes → Bytes) (op : OpB) (chunks : List Bytes) (st : Sp)
    (h : st.pos < st.bufLen) : stepChunks F op chunks st = stepGen F op chunks.flatten st :=
  stepChunks_eq F op chunks st h

/-- the state invariant (`l`, `d` legal; `pos < buf_len`; `buf_len` = keyed or keyless rate) holds after
`bashPrgStart` and every command history that respects the header's length preconditions -/
theorem bashPrg_invariant (F : Bytes → Bytes) (l d : Nat) (ann key : Bytes)
    (hl : l = 128 ∨ l = 192 ∨ l = 256) (hd : d = 1 ∨ d = 2) (ha : ann.length ≤ 60) (hk : key.length ≤ 60)
    (h : List Cmd) (hok : ∀ c ∈ h, c.ok) : (runAll F h (prgStart l d ann key)).WF :=
  runAll_WF F h hok _ (prgStart_WF l d ann key hl hd ha hk)

/-- **automaton decryption inverts encryption under the same command history**: after ANY history `h`
(restart / absorb / squeeze / encrypt / decrypt / ratchet, any chunking, any lengths), for every `x`,
`decr(encr(x)) = x`, and the decrypting party ends in the state of the encrypting party. -/
theorem bashPrg_decr_inverts_encr (F : Bytes → Bytes) (l d : Nat) (ann key : Bytes)
    (hl : l = 128 ∨ l = 192 ∨ l = 256) (hd : d = 1 ∨ d = 2) (ha : ann.length ≤ 60) (hk : key.length ≤ 60)
    (h : List Cmd) (hok : ∀ c ∈ h, c.ok) (x : Bytes) :
    let st := runAll F h (prgStart l d ann key)
    prgDecr F (prgEncr F x st).2 st = ((prgEncr F x st).1, x) := by
  intro st
  exact prgDecr_prgEncr F x st (bashPrg_invariant F l d ann key hl hd ha hk h hok)

example : (∀ c ∈ [Cmd.absorb [1, 2], Cmd.restart [0, 0, 0, 0] [], Cmd.ratchet, Cmd.squeeze 70], c.ok) := by
  intro c hc; simp at hc; rcases hc with h | h | h | h <;> subst h <;> simp [Cmd.ok]

/-! ### the automaton = the block-form text of STB 34.101.77 §8 (`Spec` in `SpecPrg.lean`)

`toSpec` reads `(l, d, S, r = buf_len, pos)` off the code's state.  `F` = any map of 192 octets to 192 octets. -/

/-- command codes of the source = `⟨t ‖ 01⟩` of the command types NULL, KEY, DATA, TEXT, OUT -/
theorem bashPrg_codes_eq_standard : codeNull = Spec.CmdType.null.octet ∧ codeKey = Spec.CmdType.key.octet ∧
    codeData = Spec.CmdType.data.octet ∧ codeText = Spec.CmdType.text.octet ∧
    codeTextDecr = Spec.CmdType.text.octet ∧ codeOut = Spec.CmdType.out.octet ∧
    codeRatchet = Spec.CmdType.null.octet := codes_eq

/-- `bashPrgStart` = `start[l,d](A,K)`: header octet, `A ‖ K`, zeros, `⟨l/4+d⟩_64`, `pos`, and the `buf_len`
table (keyed `(1536−l−dl/2)/8`, keyless `(1536−2dl)/8`) -/
theorem bashPrg_start_eq_standard (l d : Nat) (A K : Bytes) (hl : l = 128 ∨ l = 192 ∨ l = 256)
    (hd : d = 1 ∨ d = 2) (ha : A.length ≤ 60) (hk : K.length ≤ 60) :
    toSpec (prgStart l d A K) = Spec.start l d A K :=
  prgStart_spec l d A K hl hd ha hk

/-- every command of the code = the command of the standard, state AND output, from every reachable state:
restart (commit KEY/NULL, switch to the keyed rate, xor the header), absorb, squeeze, encrypt, decrypt (commit +
block loop `Split(X, r)`), ratchet -/
theorem bashPrg_commands_eq_standard (F : Bytes → Bytes) (hF : ∀ s : Bytes, s.length = 192 → (F s).length = 192)
    (st : PrgSt) (h : st.WF2) :
    (∀ A K : Bytes, A.length ≤ 60 → K.length ≤ 60 →
      toSpec (prgRestart F A K st) = Spec.restart F A K (toSpec st)) ∧
    (∀ X, toSpec (prgAbsorb F X st) = Spec.absorb F X (toSpec st)) ∧
    (∀ n, (toSpec (prgSqueeze F (zeros n) st).1, (prgSqueeze F (zeros n) st).2) = Spec.squeeze F n (toSpec st)) ∧
    (∀ X, (toSpec (prgEncr F X st).1, (prgEncr F X st).2) = Spec.encrypt F X (toSpec st)) ∧
    (∀ Y, (toSpec (prgDecr F Y st).1, (prgDecr F Y st).2) = Spec.decrypt F Y (toSpec st)) ∧
    toSpec (prgRatchet F st) = Spec.ratchet F (toSpec st) :=
  ⟨fun A K ha hk => prgRestart_spec F hF A K st h ha hk, fun X => (prgAbsorb_spec F hF X st h).1,
    fun n => (prgSqueeze_spec F hF n st h).1, fun X => (prgEncr_spec F hF X st h).1,
    fun Y => (prgDecr_spec F hF Y st h).1, prgRatchet_spec F hF st h⟩

/-- **every command history**: the state of the code after Start and any sequence of (one-shot) commands is the
state of the standard's automaton after the same commands; the invariant (incl. `|S| = 192`) holds, so
`bashPrg_commands_eq_standard` applies to the next command.  (A command fed by several Step calls equals the
one-shot command by `bashPrg_steps_chunk_independent`.) -/
theorem bashPrg_history_eq_standard (F : Bytes → Bytes) (hF : ∀ s : Bytes, s.length = 192 → (F s).length = 192)
    (l d : Nat) (A K : Bytes) (hl : l = 128 ∨ l = 192 ∨ l = 256) (hd : d = 1 ∨ d = 2)
    (ha : A.length ≤ 60) (hk : K.length ≤ 60) (h : List Cmd) (hok : ∀ c ∈ h, c.ok ∧ c.oneShot) :
    toSpec (runAll F h (prgStart l d A K)) = h.foldl (fun s c => specRun F c s) (Spec.start l d A K) ∧
      (runAll F h (prgStart l d A K)).WF2 := by
  have := runAll_spec F hF h hok _ (prgStart_WF2 F hF l d A K hl hd ha hk)
  rw [prgStart_spec l d A K hl hd ha hk] at this
  exact this

example : Spec.rate 256 2 false = 64 ∧ Spec.rate 128 1 true = 168 := by decide
example : (Spec.squeeze id 3 (Spec.start 128 1 [] [])).2.length = 3 := by decide

/-! ## brng (brng.c) -/

/-- **`brngBlockInc`**: for EVERY 256-bit `s` (including `2^256 − 1` and a carry across every word) the word
loop gives `s + 1 mod 2^256` and leaves the octets behind the block (`r` in `brng_ctr_st`) untouched — for
64-bit words (`wb = 8`) and 32-bit words (`wb = 4`). -/
theorem brngBlockInc_spec (s rest : Bytes) (hs : s.length = 32) :
    blockInc 8 (s ++ rest) = Bee2V.Proto.natLE 32 ((Bee2V.Proto.leNat s + 1) % 2 ^ 256) ++ rest ∧
    blockInc 4 (s ++ rest) = Bee2V.Proto.natLE 32 ((Bee2V.Proto.leNat s + 1) % 2 ^ 256) ++ rest :=
  ⟨blockInc_spec 8 (by decide) (by decide) s rest hs, blockInc_spec 4 (by decide) (by decide) s rest hs⟩

example : blockInc 8 (List.replicate 32 0xFF ++ [7, 7]) = List.replicate 32 0 ++ [7, 7] := by
  rw [(brngBlockInc_spec (List.replicate 32 0xFF) [7, 7] (by decide)).1]; decide +kernel

/-- every generated block — `ctrNext`, what `brngCTRStepR` executes per block, complete or partial — is one
step of the standard for all `key, s, r, X`, for 64- and 32-bit words -/
theorem brngCTR_block_spec (wb : Nat) (hwb : wb = 8 ∨ wb = 4) (key s r : Bytes) (hs : s.length = 32)
    (hr : r.length = 32) (xs : List Bytes) (st : CtrSt) (hmem : st.mem = s ++ r)
    (hkey : st.keySt = Belt.hashStepH key Belt.hashStart) :
    let Y := Belt.hash (key ++ s ++ xs.flatten ++ r)
    ctrNext wb st xs =
      ({ st with mem := Bee2V.Proto.natLE 32 ((Bee2V.Proto.leNat s + 1) % 2 ^ 256) ++ xorBytes r Y }, Y) := by
  rcases hwb with h | h <;> subst h
  · exact ctrNext_spec 8 (by decide) (by decide) key s r hs hr xs st hmem hkey
  · exact ctrNext_spec 4 (by decide) (by decide) key s r hs hr xs st hmem hkey

/-- **brng CTR = STB 34.101.47 §6.2 + the buffering rule of brng.h, for ANY sequence of requests**:
after `brngCTRStart(key, iv)`, the octets returned by the successive `brngCTRStepR` calls (buffers of any lengths,
any additional input) are those of `Spec.ctrServeAll` (unread tail of the last block first, then
⌈rest/32⌉ steps `Y ← h(K‖s‖X‖r)`, `s ← s+1 mod 2^256`, `r ← r ⊕ Y`), and `brngCTRStepG` returns the standard's `s`. -/
theorem brngCTR_eq_standard (wb : Nat) (hwb : wb = 8 ∨ wb = 4) (key iv : Bytes) (hiv : iv.length = 32)
    (bufs : List Bytes) :
    (ctrRun wb bufs (ctrStart key iv)).2 = (Spec.ctrServeAll key (Spec.ctrInit iv) [] bufs).2.2.1 ∧
    ctrStepG (ctrRun wb bufs (ctrStart key iv)).1 = (Spec.ctrServeAll key (Spec.ctrInit iv) [] bufs).1.s := by
  obtain ⟨hi, hg, ht⟩ := ctrStart_inv key iv hiv
  obtain ⟨h1, h2⟩ := ctrRun_spec wb hwb key bufs _ hi
  rw [hg, ht] at h1 h2
  exact ⟨h1, by rw [← h2]; rfl⟩

/-- prefix consistency of the buffering rule: everything returned so far, followed by the unread tail, is
exactly `Y_1 ‖ Y_2 ‖ …` generated so far -/
theorem brngCTR_prefix_consistent (key : Bytes) (bufs : List Bytes) (g : Spec.G) :
    (Spec.ctrServeAll key g [] bufs).2.2.1.flatten ++ (Spec.ctrServeAll key g [] bufs).2.1
      = (Spec.ctrServeAll key g [] bufs).2.2.2 := by
  have := ctrServeAll_prefix key bufs g []
  simpa using this

/-- **brng HMAC = STB 34.101.47 §6.3 + the buffering rule, for ANY sequence of requests** (`r ← hmac(K,S)`;
per block `Y ← hmac(K, r‖S)`, `r ← hmac(K, r)`); any key length, any IV length (the model keeps the IV octets for
`iv_len ≤ 64` and `> 64` alike — the C keeps a pointer to the caller's octets in the second case) -/
theorem brngHMAC_eq_standard (key iv : Bytes) (ns : List Nat) :
    (hmacGenRun ns (hmacGenStart key iv)).2
      = (Spec.hmacServeAll key iv (Spec.hmacInit key iv) [] ns).2.2.1 := by
  obtain ⟨hi, h1, h2, h3⟩ := hmacGenStart_inv key iv
  have := hmacGenRun_spec key ns _ hi
  rw [h1, h2, h3] at this
  exact this

example : (ctrStart (zeros 32) (zeros 32)).mem = zeros 32 ++ List.replicate 32 0xFF := by decide

/-! ## botp (botp.c) -/

/-- **`botpCtrNext` = +1 modulo 2^64 on the big-endian counter** (stated for any length `n`: modulo `256^n`) -/
theorem botpCtrNext_eq (ctr : Bytes) :
    botpCtrNext ctr = (Bee2V.Proto.natLE ctr.length (Bee2V.Proto.leNat ctr.reverse + 1)).reverse :=
  botpCtrNext_spec ctr

example : botpCtrNext [0, 0, 0, 0, 0, 0, 0xFF, 0xFF] = [0, 0, 0, 0, 0, 1, 0, 0] := by decide
example : botpCtrNext (List.replicate 8 0xFF) = List.replicate 8 0 := by decide

/-- **dynamic truncation**: for `digit ≤ 9` the password is `digit` decimal characters whose value is the
truncated 31-bit number modulo `10^digit` (in particular `< 10^digit`) -/
theorem botpDT_spec (digit : Nat) (hd : digit ≤ 9) (mac : Bytes) :
    (botpDT digit mac).length = digit ∧ (∀ c ∈ botpDT digit mac, 48 ≤ c.toNat ∧ c.toNat ≤ 57) ∧
    decVal (botpDT digit mac) = botpDTnum digit mac ∧ botpDTnum digit mac < 10 ^ digit := by
  have hlt := botpDTnum_lt digit (by omega) mac
  refine ⟨decFromU32_length _ _, decFromU32_digits _ _, ?_, hlt⟩
  rw [botpDT, decVal_decFromU32, Nat.mod_eq_of_lt hlt]

example : botpDT 6 (List.replicate 19 0x12 ++ [0x0A]) = [0x31, 0x37, 0x34, 0x31, 0x36, 0x32] := by decide


/-! ### HOTP / TOTP / OCRA = the standard (arithmetic form: counters and times are numbers; `Spec` in
`SpecBotp.lean`) -/

/-- dynamic truncation + formatting of the code = `Spec.otp` (offset `mac[last] mod 16`, 31-bit big-endian number,
`mod 10^digit`, `digit` decimal characters) -/
theorem botpDT_eq_standard (digit : Nat) (hd : digit ≤ 9) (mac : Bytes) : botpDT digit mac = Spec.otp digit mac :=
  botpDT_eq digit (by omega) mac

/-- **HOTP**: `StepR` returns `HOTP(K, C)` and moves the counter to `C+1 mod 2^64`; `StepV` succeeds iff the
password is `HOTP(K, C)` and moves the counter on success only; the same over ANY history of StepR/StepV calls -/
theorem botpHOTP_eq_standard (key : Bytes) (digit : Nat) (hd : digit ≤ 9) (C : Nat) (cs : List (Option Bytes)) :
    let st := hotpStepS (Spec.be8 C) (hotpStart digit key)
    (hotpRun cs st).2 = (Spec.hotpRun key digit C cs).2 ∧
      (hotpRun cs st).1.ctr = Spec.be8 (Spec.hotpRun key digit C cs).1 :=
  hotpRun_spec key cs C _ (by show digit < 10; omega) rfl rfl

/-- **TOTP**: password and verification for the rounded time `T` -/
theorem botpTOTP_eq_standard (key otp : Bytes) (digit T : Nat) (hd : digit ≤ 9) :
    totpStepR digit (Belt.hmacStart key) T = Spec.totp key digit T ∧
    totpStepV otp digit (Belt.hmacStart key) T = decide (Spec.totp key digit T = otp) :=
  ⟨totpStepR_spec key digit T (by omega), totpStepV_spec key otp digit T (by omega)⟩

/-- **the OCRA suite parser accepts exactly the grammar** `OCRA-1:HOTP-HBELT-<4..9>:[C-]Q<A|N|H><04..64>`
`[-P<HBELT|SHA1|SHA256|SHA512>][-S<000..512>][-T<1..59><S|M> | -T<1..48>H]`: every suite of the grammar is accepted
(completeness), every accepted NUL-free string is a suite of the grammar (soundness), and in both cases the state
holds the parameters the suite stands for -/
theorem botpOCRAStart_eq_grammar (key : Bytes) :
    (∀ su : Spec.Suite, su.valid → ocraStart su.str key = some (stOf su key)) ∧
    (∀ (s : Bytes) (st : OcraSt), ocraStart s key = some st → (0 : UInt8) ∉ s →
      ∃ su : Spec.Suite, su.valid ∧ s = su.str ∧ st = stOf su key) :=
  ⟨fun su hv => ocraStart_complete su hv key, fun s st h h0 => ocraStart_sound s key st h h0⟩

/-- **OCRA**: after Start (suite of the grammar) and StepS, `StepR` returns
`DT(hmac(K, suite‖00‖[C]‖Q‖0…0‖[P]‖[S]‖[T]))` and moves the counter (if any) to `C+1`; `StepV` succeeds iff the
password is that value and moves the counter on success only -/
theorem botpOCRA_eq_standard (su : Spec.Suite) (hv : su.valid) (key : Bytes) (C : Nat) (P S Q otp : Bytes) (T : Nat)
    (hP : P.length = su.params.pLen) (hS : S.length = su.params.sLen) :
    let st := ocraStepS (Spec.be8 C) P S (stOf su key)
    let C' := if su.ctr then C else 0
    let v := Spec.ocra key su.str su.params C' Q (if su.params.pLen ≠ 0 then P else [])
      (if su.params.sLen ≠ 0 then S else []) T
    ocraStart su.str key = some (stOf su key) ∧
    ocraStepR Q T st = ({ st with ctr := if su.params.ctr then Spec.be8 (C' + 1) else st.ctr }, v) ∧
    ocraStepV otp Q T st =
      if otp = v then ({ st with ctr := if su.params.ctr then Spec.be8 (C' + 1) else st.ctr }, true)
      else (st, false) := by
  intro st C' v
  have hof := stepS_Of su key C P S hP hS
  have hd : su.params.digit < 10 := by have := hv.2.1; show su.digit < 10; omega
  exact ⟨ocraStart_complete su hv key, ocraStepR_spec key su.str su.params C' _ _ Q T st hof hd,
    ocraStepV_spec key su.str su.params C' _ _ Q otp T st hof hd⟩

example : (⟨6, true, .N, 8, some .sha1, some 64, some (30, .S)⟩ : Spec.Suite).valid := by
  refine ⟨by decide, by decide, by decide, by decide, ?_, ?_⟩
  · intro n h; injection h with h; omega
  · intro n u h; injection h with h; injection h with h1 h2; subst h1; subst h2; decide

end Bee2V.C03

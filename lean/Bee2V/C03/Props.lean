import Bee2V.C03.LemmasF
/-!
# Property C03 — bash-f, bash hash, programmable automaton, brng, botp compute what the standards define

Only property theorems and non-vacuity examples live here (the audit runs `#print axioms` on every
`theorem` of this file).  Models: `BashF.lean` (+ generated `Gen/C03.lean`), specs: `Spec` namespaces.
-/
namespace Bee2V.C03
open Bee2V.Gen.C03

/-! ## bash-f -/

/-- The 24 `bashR` lines regenerated from bash_f64.c on this run ARE the schedule of the standard:
round `t` works on cells `perm^t` (macros P0..P5), the rotation amounts of column `j` are
`7^j·(8,53,14,1) mod 64`, the constant is the `t`-th LFSR value, xor-ed into logical word 23 of the
next round. -/
theorem bashF_source_schedule : rounds = (List.range 24).map fun t => specRound (ppow t) t :=
  rounds_eq_spec

/-- the round constants of the source satisfy the LFSR recurrence of the standard -/
theorem bashF_constants_lfsr :
    rounds.map (fun r => r.c.toBitVec) = (List.range 24).map Spec.C := by
  decide +kernel

/-- the word permutation has order 6 (so that the code's `P5 → P0` closes the cycle) and the
index macros compose as the code assumes -/
theorem bashF_perm_order : (∀ x, ppow 6 x = x) ∧ Function.Injective Spec.perm ∧ (∀ x, ppow 24 x = x) :=
  ⟨by decide, perm_inj, ppow24⟩

/-- **bash-f of bash_f64.c = bash-f of STB 34.101.77, for every 1536-bit state** (word level) -/
theorem bashF0_eq_spec (s : State) (x : Fin 24) :
    (bashF0 s)[x].toBitVec = Spec.bashF (fun y => s[y].toBitVec) x :=
  bashF0_spec s x

/-- non-vacuity / independent anchor of the SPEC: test A.2 of the standard
(input = first 192 octets of the belt S-box), evaluated by the kernel on `Spec.bashF` -/
example :
    let i : Vector (BitVec 64) 24 := #v[0x3BF5080AC8BA94B1, 0xE45D4A588E006D36, 0xACC7B61B9DFA0485, 0x0DCEFD02C2722E25, 0x8161B91712D6E35B, 0x0B896B71AD8667FE, 0xB856C333FFC0B05C, 0x997FE0D8AE05C435, 0xEC5782E21ADC2BE1, 0xF18DEE95F0CC3F70, 0xCA78E69F3876ABC1, 0x4F9CBBD560F8C6F7, 0x6A307C637B653CF3, 0x313DB29E79A74EDD, 0xCFBCD3276EB5983E, 0x93B75A4C1F181E59, 0xA60F0C8F2CE7DEE9, 0x4796736FF449DB2D, 0x377A24ED16530706, 0xF68BA90383A3CB39, 0x0141D1E51C9BBD92, 0xF20E4D5EC9FB4554, 0x2F647D22AA802068, 0x1155409034F98726]
    let o : Vector (BitVec 64) 24 := #v[0x40F1A75E7727E78F, 0x8CB2CB00A2B65BB9, 0xB768BCC0C009087F, 0xE494BD41C8ED5ADC, 0xDF55C21F300C6303, 0x76E365EF53DB675B, 0x222F17A697D7A4E8, 0x29D373310948BA71, 0x26737646C92A50C3, 0x703F2D39711989A2, 0x381262615D9F9589, 0xA032210EE0755965, 0x1C7317DBEE8C01D5, 0xC0371D1550FC88CD, 0x2EDCAE069535A3D4, 0xBBAF03771E510961, 0xAA68858D34424601, 0xDFE6C7C468985D1A, 0x08267C0C69B156A7, 0x8FAB97596F13DCA2, 0xCA873C039F4D3FBB, 0x09C499F017E17060, 0x4B2176D9D9AC7249, 0x8E056E8B3F8EED7C]
    ∀ x : Fin 24, Spec.bashF (fun y => i[y]) x = o[x] := by
  intro i o x
  have h : Spec.roundsFromV 0 24 i = o := by decide +kernel
  unfold Spec.bashF
  rw [← Spec.roundsFromV_eq, h]

end Bee2V.C03

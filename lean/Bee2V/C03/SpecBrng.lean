import Bee2V.C03.Belt
import Bee2V.C03.Sponge
import Bee2V.Base.Proto
/-!
# STB 34.101.47 — the generators brng-ctr (§6.2) and brng-hmac (§6.3), and the buffering rule of brng.h

`h` = belt-hash, `hmac` = HMAC[belt-hash] (the code-shaped functions of `Belt.lean`; the belt primitives
themselves are property C01's subject).
-/
namespace Bee2V.C03.Spec
open Bee2V.Proto

/-- variables of brng-ctr -/
structure G where
  s : Bytes
  r : Bytes
  deriving DecidableEq, Repr

/-- a partial last block of the additional input is padded with zeros -/
def pad32 (x : Bytes) : Bytes := x ++ zeros (32 - x.length)

/-- one step: `Y_t ← h(K ‖ s ‖ X_t ‖ r)`, `s ← s ⊞ ⟨1⟩_256`, `r ← r ⊕ Y_t` -/
def ctrStep (key : Bytes) (g : G) (X : Bytes) : G × Bytes :=
  let Y := Belt.hash (key ++ g.s ++ X ++ g.r)
  (⟨natLE 32 ((leNat g.s + 1) % 2 ^ 256), List.zipWith (· ^^^ ·) g.r Y⟩, Y)

/-- `n` steps; `X_t` = the `t`-th 32-octet block of `x` (zero padded); returns `Y_1 ‖ … ‖ Y_n` -/
def ctrGenN (key : Bytes) : Nat → G → Bytes → G × Bytes
  | 0, g, _ => (g, [])
  | n + 1, g, x =>
    let a := ctrStep key g (pad32 (x.take 32))
    let b := ctrGenN key n a.1 (x.drop 32)
    (b.1, a.2 ++ b.2)

/-- the initial variables: `s ← S`, `r ← ¬S` -/
def ctrInit (iv : Bytes) : G := ⟨iv, iv.map (~~~ ·)⟩

/-- buffering rule of brng.h (`brngCTRStepR`): `tail` = octets of the last generated block not yet returned.
They are returned first; the octets of `buf` they replace are skipped; the rest of `buf` is the additional
input of ⌈|rest|/32⌉ new blocks.  Result: new variables, new tail, returned octets, generated blocks. -/
def ctrServe (key : Bytes) (g : G) (tail buf : Bytes) : G × Bytes × Bytes × Bytes :=
  if buf.length ≤ tail.length then (g, tail.drop buf.length, tail.take buf.length, [])
  else
    let rest := buf.drop tail.length
    let q := ctrGenN key ((rest.length + 31) / 32) g rest
    (q.1, q.2.drop rest.length, tail ++ q.2.take rest.length, q.2)

/-- any sequence of requests: returned octets per request, and everything generated -/
def ctrServeAll (key : Bytes) : G → Bytes → List Bytes → G × Bytes × List Bytes × Bytes
  | g, tail, [] => (g, tail, [], [])
  | g, tail, b :: bs =>
    let a := ctrServe key g tail b
    let c := ctrServeAll key a.1 a.2.1 bs
    (c.1, c.2.1, a.2.2.1 :: c.2.2.1, a.2.2.2 ++ c.2.2.2)

/-! ## brng-hmac -/

/-- `Y_t ← hmac(K, r ‖ S)`, `r ← hmac(K, r)` -/
def hmacStep (key iv r : Bytes) : Bytes × Bytes := (Belt.hmac key r, Belt.hmac key (r ++ iv))

/-- `n` steps from `r`: new `r`, `Y_1 ‖ … ‖ Y_n` -/
def hmacGenN (key iv : Bytes) : Nat → Bytes → Bytes × Bytes
  | 0, r => (r, [])
  | n + 1, r =>
    let a := hmacStep key iv r
    let b := hmacGenN key iv n a.1
    (b.1, a.2 ++ b.2)

/-- `r ← hmac(K, S)` -/
def hmacInit (key iv : Bytes) : Bytes := Belt.hmac key iv

def hmacServe (key iv : Bytes) (r tail : Bytes) (count : Nat) : Bytes × Bytes × Bytes × Bytes :=
  if count ≤ tail.length then (r, tail.drop count, tail.take count, [])
  else
    let m := count - tail.length
    let q := hmacGenN key iv ((m + 31) / 32) r
    (q.1, q.2.drop m, tail ++ q.2.take m, q.2)

def hmacServeAll (key iv : Bytes) : Bytes → Bytes → List Nat → Bytes × Bytes × List Bytes × Bytes
  | r, tail, [] => (r, tail, [], [])
  | r, tail, n :: ns =>
    let a := hmacServe key iv r tail n
    let c := hmacServeAll key iv a.1 a.2.1 ns
    (c.1, c.2.1, a.2.2.1 :: c.2.2.1, a.2.2.2 ++ c.2.2.2)

end Bee2V.C03.Spec

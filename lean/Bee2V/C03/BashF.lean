import Bee2V.Gen.C03
/-!
# bash-f as bash_f64.c computes it (model), and as STB 34.101.77 defines it (spec)

Model: `bashF0` executes the 24 generated `Round`s (`Bee2V.Gen.C03.rounds`, regenerated from the
preprocessed source on every run) IN PLACE on a 24-cell array, exactly like the C: every `bashS`
line reads three cells, runs the generated `bashS` template, writes the three cells back; then
`s[xc] ^= c`.  The word permutation of the standard never moves data in the C code — it is folded
into the cell indices (macros P0..P5).

Spec: `Spec.bashF` is written from the text of the standard: bash-s with `RotHi` = `BitVec.rotateLeft`,
rotation amounts by the rule (m1,n1,m2,n2) ← 7·(m1,n1,m2,n2) mod 64, the explicit word permutation,
round constants by the LFSR.
-/
namespace Bee2V.C03
open Bee2V.Gen.C03

abbrev State := Vector UInt64 24

/-- one expanded `bashS(s[i0], s[i1], s[i2], m1, n1, m2, n2, …)` line -/
def applyS (l : SLine) (s : State) : State :=
  let r := bashS l.m1 l.n1 l.m2 l.n2 s[l.i0] s[l.i1] s[l.i2]
  ((s.set l.i0 r.1).set l.i1 r.2.1).set l.i2 r.2.2

/-- one expanded `bashR` -/
def applyR (r : Round) (s : State) : State :=
  let s := r.lines.foldl (fun s l => applyS l s) s
  s.set r.xc (s[r.xc] ^^^ r.c)

/-- `bashF0` of bash_f64.c -/
def bashF0 (s : State) : State := rounds.foldl (fun s r => applyR r s) s

/-! ## octet interface: `bashF(octet block[192])` on a little-endian machine -/

def loadU64 (b : List UInt8) : UInt64 :=
  b.foldr (fun x acc => x.toUInt64 ||| (acc <<< 8)) 0

def storeU64 (w : UInt64) : List UInt8 :=
  (List.range 8).map fun i => (w >>> (8 * i).toUInt64).toUInt8

/-- the 24 words of a 192-octet block (`(u64*)block`, little-endian) -/
def toWords (b : List UInt8) : State :=
  Vector.ofFn fun i : Fin 24 => loadU64 ((b.drop (8 * i.val)).take 8)

def ofWords (s : State) : List UInt8 :=
  s.toList.flatMap storeU64

/-- `bashF` on octets -/
def bashF (b : List UInt8) : List UInt8 := ofWords (bashF0 (toWords b))

/-! ## Spec (STB 34.101.77, 6.1–6.2) -/
namespace Spec

abbrev W := BitVec 64

/-- algorithm bash-s, steps 1–12 in the order of the standard -/
def bashS (m1 n1 m2 n2 : Nat) (w0 w1 w2 : W) : W × W × W :=
  let t0 := w0.rotateLeft m1            -- 1. T0 ← RotHi^{m1}(W0)
  let w0 := w0 ^^^ w1 ^^^ w2            -- 2. W0 ← W0 ⊕ W1 ⊕ W2
  let t1 := w1 ^^^ w0.rotateLeft n1     -- 3. T1 ← W1 ⊕ RotHi^{n1}(W0)
  let w1 := t0 ^^^ t1                   -- 4. W1 ← T0 ⊕ T1
  let w2 := w2 ^^^ w2.rotateLeft m2 ^^^ t1.rotateLeft n2   -- 5.
  let t0 := ~~~ w2                      -- 6. T0 ← ¬W2
  let t1 := w0 ||| w2                   -- 7. T1 ← W0 ∨ W2
  let t2 := w0 &&& w1                   -- 8. T2 ← W0 ∧ W1
  let t0 := t0 ||| w1                   -- 9. T0 ← T0 ∨ W1
  (w0 ^^^ t0, w1 ^^^ t1, w2 ^^^ t2)     -- 10–12.

/-- rotation amounts of column `j`: start (8,53,14,1), then ×7 mod 64 per column -/
def rot (j : Nat) : Nat × Nat × Nat × Nat :=
  (8 * 7 ^ j % 64, 53 * 7 ^ j % 64, 14 * 7 ^ j % 64, 1 * 7 ^ j % 64)

/-- the word permutation: new S_x is old S_{perm x}
(S ← S15‖S10‖S9‖S12‖S11‖S14‖S13‖S8‖S17‖S16‖S19‖S18‖S21‖S20‖S23‖S22‖S6‖S3‖S0‖S5‖S2‖S7‖S4‖S1) -/
def permTab : Vector (Fin 24) 24 :=
  #v[15, 10, 9, 12, 11, 14, 13, 8, 17, 16, 19, 18, 21, 20, 23, 22, 6, 3, 0, 5, 2, 7, 4, 1]
def perm (x : Fin 24) : Fin 24 := permTab[x]

/-- round constants: C_1 = 0x3BF5080AC8BA94B1, C_{t+1} = (C_t ≫ 1) ⊕ (A ∧ −(C_t ∧ 1)), A = 0xDC2BE1997FE0D8AE -/
def C : Nat → W
  | 0 => 0x3BF5080AC8BA94B1#64
  | t + 1 => (C t >>> 1) ^^^ (0xDC2BE1997FE0D8AE#64 &&& (0 - (C t &&& 1)))

abbrev St := Fin 24 → W

/-- S-box layer: bash-s on each of the 8 columns (S_j, S_{8+j}, S_{16+j}) -/
def sLayer (S : St) : St := fun x =>
  let j : Fin 8 := ⟨x.val % 8, Nat.mod_lt _ (by decide)⟩
  let r := rot j.val
  let o := bashS r.1 r.2.1 r.2.2.1 r.2.2.2 (S ⟨j.val, by omega⟩) (S ⟨j.val + 8, by omega⟩) (S ⟨j.val + 16, by omega⟩)
  if x.val < 8 then o.1 else if x.val < 16 then o.2.1 else o.2.2

/-- round `t` (0-based: uses C_{t+1} of the standard) -/
def round (t : Nat) (S : St) : St := fun x =>
  let T := sLayer S
  if x = 23 then T (perm x) ^^^ C t else T (perm x)

def roundsFrom : Nat → Nat → St → St
  | _, 0, S => S
  | t, n + 1, S => roundsFrom (t + 1) n (round t S)

/-- bash-f: 24 rounds -/
def bashF (S : St) : St := roundsFrom 0 24 S

end Spec
end Bee2V.C03

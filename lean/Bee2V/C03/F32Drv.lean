import Bee2V.Base.Proto
import Bee2V.C03.BashF32
/-! driver hook of the BASH_32 model: `bashf32 <block192-hex>` -> hex of `F32.bashF32` -/
namespace Bee2V.C03.F32
open Bee2V.Proto

/-- `none`: not an op of this handler; `some "bad-op"`: malformed -/
def handleF32 : List String → Option String
  | "bashf32" :: args =>
    match args with
    | [h] =>
      match parseHex h with
      | some b => if b.length = 192 then some (toHex (bashF32 b)) else some "bad-op"
      | none => some "bad-op"
    | _ => some "bad-op"
  | _ => none

end Bee2V.C03.F32

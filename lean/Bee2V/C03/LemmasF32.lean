import Bee2V.C03.BashF32
import Bee2V.C03.LemmasF
/-!
# f32 = f64: the BASH_32 code (`bash_f32.c`, model `F32.bashF32`) computes the same function as
the 64-bit code (`bash_f64.c`, model `Bee2V.C03.bashF`), for every 192-octet block

Abstraction function `J : u32[2] → u64` = the code's own de-interleaving (`pack ∘ u32x2Deinter`).
1. `u32Shuffle` / `u32Deshuffle` are delta-swap networks, i.e. bit permutations (`u32Shuffle_getLsbD`).
2. hence `J_getLsbD`: bit `k` of `J p` is bit `k/2` of half `k mod 2` (the SPEC of interleaving), and
   `J_inter_split`: de-interleaving undoes interleaving.
3. `J` commutes with `^ | & ~`, and turns `u32x2RotHi(·, m)` (three cases) into a 64-bit rotation by `m`.
4. so one `bashS` line of bash_f32.c on interleaved halves is the `bashS` line of bash_f64.c on the words
   (`bashS_sim`); the generated navigation / rotation amounts / constants of the two files agree
   (`rounds_conv`, kernel evaluation); fold over 8 lines and 24 rounds.
-/
set_option linter.unusedSimpArgs false
namespace Bee2V.C03.F32
open Bee2V.Gen.C03F32

/-! ## 1. delta swaps are bit permutations -/

/-- one delta-swap step `t = (w ^ (w >> k)) & M, w ^= t ^ (t << k)` -/
def dswap (k : Nat) (M w : BitVec 32) : BitVec 32 :=
  let t := (w ^^^ (w >>> k)) &&& M
  w ^^^ (t ^^^ (t <<< k))

/-- where bit `i` of the result of a delta swap comes from -/
def dsIdx (k : Nat) (M : BitVec 32) (i : Nat) : Nat :=
  if M.getLsbD i then k + i else if k ≤ i ∧ M.getLsbD (i - k) then i - k else i

/-- the mask and its shift are disjoint and nothing is moved out of the word -/
def DsOk (k : Nat) (M : BitVec 32) : Prop :=
  ∀ i, i < 32 → dsIdx k M i < 32 ∧ ¬ (M.getLsbD i ∧ k ≤ i ∧ M.getLsbD (i - k))

instance (k : Nat) (M : BitVec 32) : Decidable (DsOk k M) := by unfold DsOk; infer_instance

theorem dswap_getLsbD (k : Nat) (M w : BitVec 32) (i : Nat) (hi : i < 32)
    (hok : ¬ (M.getLsbD i ∧ k ≤ i ∧ M.getLsbD (i - k))) :
    (dswap k M w).getLsbD i = w.getLsbD (dsIdx k M i) := by
  simp only [dswap, dsIdx, BitVec.getLsbD_xor, BitVec.getLsbD_and, BitVec.getLsbD_ushiftRight,
    BitVec.getLsbD_shiftLeft, hi, decide_true, Bool.true_and]
  by_cases h2 : k ≤ i
  · have h2' : ¬ i < k := by omega
    have e : k + (i - k) = i := by omega
    cases h1 : M.getLsbD i <;> cases h3 : M.getLsbD (i - k) <;>
      simp only [e, h1, h3, h2, h2', and_self, and_true, and_false, decide_false, decide_true, Bool.not_false, Bool.not_true,
        Bool.and_true, Bool.and_false, Bool.true_and, Bool.false_and, Bool.xor_false, Bool.false_xor, if_true, if_false,
        Bool.false_eq_true, reduceCtorEq] at hok ⊢
    · generalize w.getLsbD i = a; generalize w.getLsbD (i - k) = c
      cases a <;> cases c <;> rfl
    · generalize w.getLsbD i = a; generalize w.getLsbD (k + i) = c
      cases a <;> cases c <;> rfl
    · exact absurd trivial hok
  · have h2' : i < k := by omega
    cases h1 : M.getLsbD i <;>
      simp only [h1, h2, h2', false_and, and_false, decide_false, decide_true, Bool.not_false, Bool.not_true,
        Bool.and_true, Bool.and_false, Bool.true_and, Bool.false_and, Bool.xor_false, Bool.false_xor, if_true, if_false,
        Bool.false_eq_true, reduceCtorEq]
    generalize w.getLsbD i = a; generalize w.getLsbD (k + i) = c
    cases a <;> cases c <;> rfl

/-- `f` permutes bits: bit `i` of `f x` is bit `σ i` of `x` -/
def IsPerm (f : BitVec 32 → BitVec 32) (σ : Nat → Nat) : Prop :=
  ∀ x i, i < 32 → (f x).getLsbD i = x.getLsbD (σ i)

theorem IsPerm.id : IsPerm (fun x => x) (fun i => i) := fun _ _ _ => rfl

theorem IsPerm.dswap {f σ} (hf : IsPerm f σ) (k : Nat) (M : BitVec 32) (hok : DsOk k M) :
    IsPerm (fun x => dswap k M (f x)) (fun i => σ (dsIdx k M i)) := by
  intro x i hi
  rw [dswap_getLsbD k M _ i hi (hok i hi).2, hf x _ (hok i hi).1]

theorem u32Shuffle_dswaps (w : UInt32) : (u32Shuffle w).toBitVec =
    dswap 1 0x22222222#32 (dswap 2 0x0C0C0C0C#32 (dswap 4 0x00F000F0#32 (dswap 8 0x0000FF00#32 w.toBitVec))) := rfl

theorem u32Deshuffle_dswaps (w : UInt32) : (u32Deshuffle w).toBitVec =
    dswap 8 0x0000FF00#32 (dswap 4 0x00F000F0#32 (dswap 2 0x0C0C0C0C#32 (dswap 1 0x22222222#32 w.toBitVec))) := rfl

theorem ok1 : DsOk 1 0x22222222#32 := by decide
theorem ok2 : DsOk 2 0x0C0C0C0C#32 := by decide
theorem ok4 : DsOk 4 0x00F000F0#32 := by decide
theorem ok8 : DsOk 8 0x0000FF00#32 := by decide

theorem shufIdx : ∀ i, i < 32 →
    dsIdx 8 0x0000FF00#32 (dsIdx 4 0x00F000F0#32 (dsIdx 2 0x0C0C0C0C#32 (dsIdx 1 0x22222222#32 i)))
      = i / 2 + 16 * (i % 2) := by decide
theorem deshufIdx : ∀ i, i < 32 →
    dsIdx 1 0x22222222#32 (dsIdx 2 0x0C0C0C0C#32 (dsIdx 4 0x00F000F0#32 (dsIdx 8 0x0000FF00#32 i)))
      = if i < 16 then 2 * i else 2 * (i - 16) + 1 := by decide

/-- `u32Shuffle`: bit `i` of the result is bit `i/2` (i even) resp. `16 + i/2` (i odd) of the argument -/
theorem u32Shuffle_getLsbD (w : UInt32) (i : Nat) (hi : i < 32) :
    (u32Shuffle w).toBitVec.getLsbD i = w.toBitVec.getLsbD (i / 2 + 16 * (i % 2)) := by
  rw [u32Shuffle_dswaps, ← shufIdx i hi]
  exact ((((IsPerm.id.dswap 8 _ ok8).dswap 4 _ ok4).dswap 2 _ ok2).dswap 1 _ ok1) w.toBitVec i hi

/-- `u32Deshuffle`: even bits go to the low half, odd bits to the high half -/
theorem u32Deshuffle_getLsbD (w : UInt32) (i : Nat) (hi : i < 32) :
    (u32Deshuffle w).toBitVec.getLsbD i = w.toBitVec.getLsbD (if i < 16 then 2 * i else 2 * (i - 16) + 1) := by
  rw [u32Deshuffle_dswaps, ← deshufIdx i hi]
  exact ((((IsPerm.id.dswap 1 _ ok1).dswap 2 _ ok2).dswap 4 _ ok4).dswap 8 _ ok8) w.toBitVec i hi

/-! ## 2. interleaving: bit-level meaning of `u32x2Inter` / `u32x2Deinter` -/

theorem maskLo_getLsbD (j : Nat) : (0x0000FFFF#32).getLsbD j = decide (j < 16) := by
  by_cases h : j < 32
  · revert j; decide
  · rw [BitVec.getLsbD_of_ge _ _ (by omega)]; simp; omega

theorem maskHi_getLsbD (j : Nat) : (0xFFFF0000#32).getLsbD j = (decide (16 ≤ j) && decide (j < 32)) := by
  by_cases h : j < 32
  · revert j; decide
  · rw [BitVec.getLsbD_of_ge _ _ (by omega)]; simp; omega

theorem deinter_fst_bv (p : W2) : (deinter p).1.toBitVec =
    (u32Shuffle ⟨(p.1.toBitVec &&& 0x0000FFFF#32) ||| (p.2.toBitVec <<< 16)⟩).toBitVec := rfl
theorem deinter_snd_bv (p : W2) : (deinter p).2.toBitVec =
    (u32Shuffle ⟨(p.1.toBitVec >>> 16) ||| (p.2.toBitVec &&& 0xFFFF0000#32)⟩).toBitVec := rfl
theorem inter_fst_bv (p : W2) : (inter p).1.toBitVec =
    ((u32Deshuffle p.1).toBitVec &&& 0x0000FFFF#32) ||| ((u32Deshuffle p.2).toBitVec <<< 16) := rfl
theorem inter_snd_bv (p : W2) : (inter p).2.toBitVec =
    ((u32Deshuffle p.1).toBitVec >>> 16) ||| ((u32Deshuffle p.2).toBitVec &&& 0xFFFF0000#32) := rfl
theorem pack_bv (p : W2) : (pack p).toBitVec =
    (p.1.toBitVec.setWidth 64) ||| ((p.2.toBitVec.setWidth 64) <<< 32) := rfl
theorem split_fst_bv (w : UInt64) : (split w).1.toBitVec = w.toBitVec.setWidth 32 := rfl
theorem split_snd_bv (w : UInt64) : (split w).2.toBitVec = (w.toBitVec >>> 32).setWidth 32 := rfl


theorem deinter_fst_getLsbD (p : W2) (i : Nat) (hi : i < 32) : (deinter p).1.toBitVec.getLsbD i =
    if i % 2 = 0 then p.1.toBitVec.getLsbD (i / 2) else p.2.toBitVec.getLsbD (i / 2) := by
  rw [deinter_fst_bv, u32Shuffle_getLsbD _ i hi]
  simp only [BitVec.getLsbD_or, BitVec.getLsbD_and, BitVec.getLsbD_shiftLeft, maskLo_getLsbD]
  by_cases h : i % 2 = 0
  · have e : i / 2 + 16 * (i % 2) = i / 2 := by omega
    have h1 : i / 2 < 16 := by omega
    simp [h, e, h1]
  · have e : i / 2 + 16 * (i % 2) = i / 2 + 16 := by omega
    have h1 : ¬ i / 2 + 16 < 16 := by omega
    have h2 : i / 2 + 16 < 32 := by omega
    simp [h, e, h1, h2]

theorem deinter_snd_getLsbD (p : W2) (i : Nat) (hi : i < 32) : (deinter p).2.toBitVec.getLsbD i =
    if i % 2 = 0 then p.1.toBitVec.getLsbD (i / 2 + 16) else p.2.toBitVec.getLsbD (i / 2 + 16) := by
  rw [deinter_snd_bv, u32Shuffle_getLsbD _ i hi]
  simp only [BitVec.getLsbD_or, BitVec.getLsbD_and, BitVec.getLsbD_ushiftRight, maskHi_getLsbD]
  by_cases h : i % 2 = 0
  · have e : i / 2 + 16 * (i % 2) = i / 2 := by omega
    have h1 : ¬ 16 ≤ i / 2 := by omega
    simp [h, e, h1, Nat.add_comm]
  · have e : i / 2 + 16 * (i % 2) = i / 2 + 16 := by omega
    have h2 : i / 2 + 16 < 32 := by omega
    have h3 : p.1.toBitVec.getLsbD (16 + (i / 2 + 16)) = false := BitVec.getLsbD_of_ge _ _ (by omega)
    simp [h, e, h2, h3]

theorem inter_fst_getLsbD (p : W2) (i : Nat) (hi : i < 32) : (inter p).1.toBitVec.getLsbD i =
    if i < 16 then p.1.toBitVec.getLsbD (2 * i) else p.2.toBitVec.getLsbD (2 * (i - 16)) := by
  rw [inter_fst_bv]
  simp only [BitVec.getLsbD_or, BitVec.getLsbD_and, BitVec.getLsbD_shiftLeft, maskLo_getLsbD]
  by_cases h : i < 16
  · rw [u32Deshuffle_getLsbD _ i hi]; simp [h, hi]
  · rw [u32Deshuffle_getLsbD _ (i - 16) (by omega)]
    have h1 : i - 16 < 16 := by omega
    simp [h, hi, h1]

theorem inter_snd_getLsbD (p : W2) (i : Nat) (hi : i < 32) : (inter p).2.toBitVec.getLsbD i =
    if i < 16 then p.1.toBitVec.getLsbD (2 * i + 1) else p.2.toBitVec.getLsbD (2 * (i - 16) + 1) := by
  rw [inter_snd_bv]
  simp only [BitVec.getLsbD_or, BitVec.getLsbD_and, BitVec.getLsbD_ushiftRight, maskHi_getLsbD]
  by_cases h : i < 16
  · rw [u32Deshuffle_getLsbD _ (16 + i) (by omega)]
    have h1 : ¬ 16 + i < 16 := by omega
    have h2 : ¬ 16 ≤ i := by omega
    have e : 16 + i - 16 = i := by omega
    simp [h, h1, h2, e]
  · rw [u32Deshuffle_getLsbD _ i hi]
    have h2 : 16 ≤ i := by omega
    have h3 : (u32Deshuffle p.1).toBitVec.getLsbD (16 + i) = false := BitVec.getLsbD_of_ge _ _ (by omega)
    simp [h, hi, h2, h3]

theorem pack_getLsbD (p : W2) (k : Nat) : (pack p).toBitVec.getLsbD k =
    if k < 32 then p.1.toBitVec.getLsbD k else p.2.toBitVec.getLsbD (k - 32) := by
  rw [pack_bv]
  simp only [BitVec.getLsbD_or, BitVec.getLsbD_shiftLeft, BitVec.getLsbD_setWidth]
  by_cases h : k < 32
  · have : k < 64 := by omega
    simp [h, this]
  · by_cases h2 : k < 64
    · have h1 : p.1.toBitVec.getLsbD k = false := BitVec.getLsbD_of_ge _ _ (by omega)
      have h3 : k - 32 < 64 := by omega
      simp [h, h2, h1, h3]
    · have h1 : p.2.toBitVec.getLsbD (k - 32) = false := BitVec.getLsbD_of_ge _ _ (by omega)
      simp [h, h2, h1]

/-- the abstraction: the u64 word that an interleaved pair stands for (the code's own `u32x2Deinter`) -/
def J (p : W2) : UInt64 := pack (deinter p)

/-- SPEC of the interleaved form: bit `k` of the word is bit `k/2` of half `k mod 2` -/
theorem J_getLsbD (p : W2) (k : Nat) : (J p).toBitVec.getLsbD k =
    if k % 2 = 0 then p.1.toBitVec.getLsbD (k / 2) else p.2.toBitVec.getLsbD (k / 2) := by
  unfold J
  rw [pack_getLsbD]
  by_cases h : k < 32
  · rw [if_pos h, deinter_fst_getLsbD _ k h]
  · rw [if_neg h]
    by_cases h2 : k < 64
    · rw [deinter_snd_getLsbD _ (k - 32) (by omega)]
      have e1 : (k - 32) % 2 = k % 2 := by omega
      have e2 : (k - 32) / 2 + 16 = k / 2 := by omega
      rw [e1, e2]
    · rw [BitVec.getLsbD_of_ge _ _ (by omega), BitVec.getLsbD_of_ge _ (k / 2) (by omega),
        BitVec.getLsbD_of_ge _ (k / 2) (by omega)]
      simp

theorem J_inter (p : W2) : J (inter p) = pack p := by
  apply UInt64.eq_of_toBitVec_eq
  apply BitVec.eq_of_getLsbD_eq
  intro k hk
  rw [J_getLsbD, pack_getLsbD]
  have hi : k / 2 < 32 := by omega
  rw [inter_fst_getLsbD _ _ hi, inter_snd_getLsbD _ _ hi]
  by_cases h : k % 2 = 0 <;> by_cases h2 : k < 32
  · have : k / 2 < 16 := by omega
    have e : 2 * (k / 2) = k := by omega
    simp [h, h2, this, e]
  · have : ¬ k / 2 < 16 := by omega
    have e : 2 * (k / 2 - 16) = k - 32 := by omega
    simp [h, h2, this, e]
  · have : k / 2 < 16 := by omega
    have e : 2 * (k / 2) + 1 = k := by omega
    simp [h, h2, this, e]
  · have : ¬ k / 2 < 16 := by omega
    have e : 2 * (k / 2 - 16) + 1 = k - 32 := by omega
    simp [h, h2, this, e]

theorem pack_split (w : UInt64) : pack (split w) = w := by
  apply UInt64.eq_of_toBitVec_eq
  apply BitVec.eq_of_getLsbD_eq
  intro k hk
  rw [pack_getLsbD, split_fst_bv, split_snd_bv]
  simp only [BitVec.getLsbD_setWidth, BitVec.getLsbD_ushiftRight]
  by_cases h : k < 32
  · simp [h]
  · have e : 32 + (k - 32) = k := by omega
    have : k - 32 < 32 := by omega
    simp [h, e, this]

/-- de-interleaving undoes interleaving (on the code: Shuffle-network after Deshuffle-network) -/
theorem J_inter_split (w : UInt64) : J (inter (split w)) = w := by rw [J_inter, pack_split]

/-! ## 3. rotation of an interleaved word -/

/-- `x` is the word whose even bits are `a` and whose odd bits are `b` -/
def IsJoin (x : BitVec 64) (a b : BitVec 32) : Prop :=
  ∀ k, x.getLsbD k = if k % 2 = 0 then a.getLsbD (k / 2) else b.getLsbD (k / 2)

theorem IsJoin.rot_even {x a b} (hx : IsJoin x a b) (h : Nat) (h1 : h < 32) :
    IsJoin (x.rotateLeft (2 * h)) (a.rotateLeft h) (b.rotateLeft h) := by
  intro k
  simp only [BitVec.getLsbD_rotateLeft, hx _, Nat.mod_eq_of_lt h1, Nat.mod_eq_of_lt (show 2 * h < 64 by omega)]
  by_cases c1 : k % 2 = 0 <;> by_cases c2 : k < 2 * h
  · have c3 : k / 2 < h := by omega
    have e1 : (64 - 2 * h + k) % 2 = 0 := by omega
    have e2 : (64 - 2 * h + k) / 2 = 32 - h + k / 2 := by omega
    simp [c1, c2, c3, e1, e2]
  · have c3 : ¬ k / 2 < h := by omega
    have e1 : (k - 2 * h) % 2 = 0 := by omega
    have e2 : (k - 2 * h) / 2 = k / 2 - h := by omega
    by_cases c4 : k < 64
    · have c5 : k / 2 < 32 := by omega
      simp [c1, c2, c3, e1, e2, c4, c5]
    · have c5 : ¬ k / 2 < 32 := by omega
      simp [c1, c2, c3, e1, e2, c4, c5]
  · have c3 : k / 2 < h := by omega
    have e1 : ¬ (64 - 2 * h + k) % 2 = 0 := by omega
    have e2 : (64 - 2 * h + k) / 2 = 32 - h + k / 2 := by omega
    simp [c1, c2, c3, e1, e2]
  · have c3 : ¬ k / 2 < h := by omega
    have e1 : ¬ (k - 2 * h) % 2 = 0 := by omega
    have e2 : (k - 2 * h) / 2 = k / 2 - h := by omega
    by_cases c4 : k < 64
    · have c5 : k / 2 < 32 := by omega
      simp [c1, c2, c3, e1, e2, c4, c5]
    · have c5 : ¬ k / 2 < 32 := by omega
      simp [c1, c2, c3, e1, e2, c4, c5]

theorem IsJoin.rot_odd {x a b} (hx : IsJoin x a b) (m : Nat) (hm : m % 2 = 1) (h1 : m < 63) :
    IsJoin (x.rotateLeft m) (b.rotateLeft (m / 2 + 1)) (a.rotateLeft (m / 2)) := by
  intro k
  simp only [BitVec.getLsbD_rotateLeft, hx _, Nat.mod_eq_of_lt (show m / 2 < 32 by omega),
    Nat.mod_eq_of_lt (show m / 2 + 1 < 32 by omega), Nat.mod_eq_of_lt (show m < 64 by omega)]
  by_cases c1 : k % 2 = 0 <;> by_cases c2 : k < m
  · have c3 : k / 2 < m / 2 + 1 := by omega
    have e1 : ¬ (64 - m + k) % 2 = 0 := by omega
    have e2 : (64 - m + k) / 2 = 32 - (m / 2 + 1) + k / 2 := by omega
    simp only [c1, c2, c3, e1, e2, decide_true, cond_true, if_true, if_false]
  · have c3 : ¬ k / 2 < m / 2 + 1 := by omega
    have e1 : ¬ (k - m) % 2 = 0 := by omega
    have e2 : (k - m) / 2 = k / 2 - (m / 2 + 1) := by omega
    have e3 : decide (k < 64) = decide (k / 2 < 32) := by
      by_cases c4 : k < 64
      · have c5 : k / 2 < 32 := by omega
        simp [c4, c5]
      · have c5 : ¬ k / 2 < 32 := by omega
        simp [c4, c5]
    simp only [c1, c2, c3, e1, e2, e3, decide_false, cond_false, if_true, if_false]
  · have c3 : k / 2 < m / 2 := by omega
    have e1 : (64 - m + k) % 2 = 0 := by omega
    have e2 : (64 - m + k) / 2 = 32 - m / 2 + k / 2 := by omega
    simp only [c1, c2, c3, e1, e2, decide_true, cond_true, if_true, if_false]
  · have c3 : ¬ k / 2 < m / 2 := by omega
    have e1 : (k - m) % 2 = 0 := by omega
    have e2 : (k - m) / 2 = k / 2 - m / 2 := by omega
    have e3 : decide (k < 64) = decide (k / 2 < 32) := by
      by_cases c4 : k < 64
      · have c5 : k / 2 < 32 := by omega
        simp [c4, c5]
      · have c5 : ¬ k / 2 < 32 := by omega
        simp [c4, c5]
    simp only [c1, c2, c3, e1, e2, e3, decide_false, cond_false, if_true, if_false]

theorem IsJoin.rot_even' {x a b} (hx : IsJoin x a b) (m : Nat) (hm : m % 2 = 0) (h1 : m < 64) :
    IsJoin (x.rotateLeft m) (a.rotateLeft (m / 2)) (b.rotateLeft (m / 2)) := by
  have := hx.rot_even (m / 2) (by omega)
  rwa [show 2 * (m / 2) = m by omega] at this

theorem rotateLeft_zero32 (x : BitVec 32) : x.rotateLeft 0 = x := by
  apply BitVec.eq_of_getLsbD_eq
  intro i hi
  simp [BitVec.getLsbD_rotateLeft, hi]

/-- `u32RotHi(w, d)` as expanded in `u32x2RotHi` -/
theorem rot32_bv (w : UInt32) (d : Nat) (h0 : 0 < d) (h : d < 32) :
    ((w <<< UInt32.ofNat d) ||| (w >>> UInt32.ofNat (32 - d))).toBitVec = w.toBitVec.rotateLeft d := by
  have e1 : ((UInt32.ofNat d).toBitVec % 32).toNat = d := by
    simp [BitVec.toNat_umod]; omega
  have e2 : ((UInt32.ofNat (32 - d)).toBitVec % 32).toNat = 32 - d := by
    simp [BitVec.toNat_umod]; omega
  simp only [UInt32.toBitVec_or, UInt32.toBitVec_shiftLeft, UInt32.toBitVec_shiftRight, BitVec.rotateLeft_def,
    BitVec.shiftLeft_eq', BitVec.ushiftRight_eq', e1, e2, Nat.mod_eq_of_lt h]

/-- the three cases of `u32x2RotHi` rotate the interleaved word by `m` -/
theorem rotHi_join (a a' : UInt32) (x : BitVec 64) (hx : IsJoin x a.toBitVec a'.toBitVec)
    (m : Nat) (h0 : 0 < m) (h63 : m < 63) :
    IsJoin (x.rotateLeft m) (u32x2RotHi a a' m).1.toBitVec (u32x2RotHi a a' m).2.toBitVec := by
  by_cases hm : m % 2 = 0
  · simp only [u32x2RotHi, hm, if_true]
    rw [rot32_bv _ _ (by omega) (by omega), rot32_bv _ _ (by omega) (by omega)]
    exact hx.rot_even' m hm (by omega)
  · by_cases h1 : m > 1
    · simp only [u32x2RotHi, hm, h1, if_true, if_false]
      rw [rot32_bv _ _ (by omega) (by omega), rot32_bv _ _ (by omega) (by omega), Nat.add_comm 1 (m / 2)]
      exact hx.rot_odd m (by omega) h63
    · have e : m = 1 := by omega
      subst e
      have := hx.rot_odd 1 (by decide) (by decide)
      simp only [u32x2RotHi, hm, h1, if_true, if_false]
      have r := rot32_bv a' 1 (by decide) (by decide)
      rw [show (1 / 2 + 1) = 1 from rfl, show (1 / 2) = 0 from rfl, rotateLeft_zero32] at this
      rw [← r] at this
      exact this


theorem J_isJoin (a a' : UInt32) : IsJoin (J (a, a')).toBitVec a.toBitVec a'.toBitVec := J_getLsbD (a, a')

theorem ofNat64_toNat (m : Nat) (h : m < 64) : (UInt64.ofNat m).toNat = m := by
  simp [UInt64.toNat_ofNat']; omega

/-- rotation amounts for which neither the C (shift by 32) nor the model leaves the defined range -/
def RotOk32 (m : Nat) : Prop := 0 < m ∧ m < 63

theorem J_rot (a a' : UInt32) (m : Nat) (hm : RotOk32 m) :
    J ((u32x2RotHi a a' m).1, (u32x2RotHi a a' m).2) = Bee2V.Gen.C03.rotHi (J (a, a')) (UInt64.ofNat m) := by
  apply UInt64.eq_of_toBitVec_eq
  have e := ofNat64_toNat m (by have := hm.2; omega)
  rw [rotHi_toBitVec _ _ (by rw [e]; exact hm.1) (by rw [e]; have := hm.2; omega), e]
  apply BitVec.eq_of_getLsbD_eq
  intro k _
  rw [J_getLsbD]
  exact (rotHi_join a a' _ (J_isJoin a a') m hm.1 hm.2 k).symm

theorem J_xor (a a' b b' : UInt32) : J (a ^^^ b, a' ^^^ b') = J (a, a') ^^^ J (b, b') := by
  apply UInt64.eq_of_toBitVec_eq
  apply BitVec.eq_of_getLsbD_eq
  intro k _
  simp only [UInt64.toBitVec_xor, BitVec.getLsbD_xor, J_getLsbD, UInt32.toBitVec_xor]
  split <;> rfl

theorem J_or (a a' b b' : UInt32) : J (a ||| b, a' ||| b') = J (a, a') ||| J (b, b') := by
  apply UInt64.eq_of_toBitVec_eq
  apply BitVec.eq_of_getLsbD_eq
  intro k _
  simp only [UInt64.toBitVec_or, BitVec.getLsbD_or, J_getLsbD, UInt32.toBitVec_or]
  split <;> rfl

theorem J_and (a a' b b' : UInt32) : J (a &&& b, a' &&& b') = J (a, a') &&& J (b, b') := by
  apply UInt64.eq_of_toBitVec_eq
  apply BitVec.eq_of_getLsbD_eq
  intro k _
  simp only [UInt64.toBitVec_and, BitVec.getLsbD_and, J_getLsbD, UInt32.toBitVec_and]
  split <;> rfl

theorem J_not (a a' : UInt32) : J (~~~ a, ~~~ a') = ~~~ J (a, a') := by
  apply UInt64.eq_of_toBitVec_eq
  apply BitVec.eq_of_getLsbD_eq
  intro k hk
  have h2 : k / 2 < 32 := by omega
  simp only [UInt64.toBitVec_not, BitVec.getLsbD_not, J_getLsbD, UInt32.toBitVec_not, hk, h2, decide_true,
    Bool.true_and]
  split <;> rfl


/-- one `bashS` of bash_f32.c on interleaved halves = `bashS` of bash_f64.c on the words they stand for -/
theorem bashS_sim (m1 n1 m2 n2 : Nat) (h1 : RotOk32 m1) (h2 : RotOk32 n1) (h3 : RotOk32 m2) (h4 : RotOk32 n2)
    (a a' b b' c c' : UInt32) :
    (J (bashS m1 n1 m2 n2 a a' b b' c c').1, J (bashS m1 n1 m2 n2 a a' b b' c c').2.1,
      J (bashS m1 n1 m2 n2 a a' b b' c c').2.2)
      = Bee2V.Gen.C03.bashS (.ofNat m1) (.ofNat n1) (.ofNat m2) (.ofNat n2) (J (a, a')) (J (b, b')) (J (c, c')) := by
  simp only [bashS, Bee2V.Gen.C03.bashS, J_xor, J_or, J_and, J_not, J_rot _ _ m1 h1, J_rot _ _ n1 h2,
    J_rot _ _ m2 h3, J_rot _ _ n2 h4]
  generalize Bee2V.Gen.C03.rotHi (J (a, a') ^^^ (J (b, b') ^^^ J (c, c'))) (UInt64.ofNat n1) = R
  rw [UInt64.xor_comm R (J (b, b'))]

/-! ## 4. state level: 8 lines, 24 rounds -/

/-- the 64-bit state an interleaved state stands for -/
def JAll (s : State32) : Bee2V.C03.State := s.map J

def convL (l : SLine) : Bee2V.Gen.C03.SLine :=
  ⟨l.i0, l.i1, l.i2, .ofNat l.m1, .ofNat l.n1, .ofNat l.m2, .ofNat l.n2⟩
def convR (r : Round) : Bee2V.Gen.C03.Round := ⟨r.lines.map convL, r.xc, J (r.c0, r.c1)⟩

def LineOk (l : SLine) : Prop := RotOk32 l.m1 ∧ RotOk32 l.n1 ∧ RotOk32 l.m2 ∧ RotOk32 l.n2
instance (l : SLine) : Decidable (LineOk l) := by unfold LineOk RotOk32; infer_instance

/-- TIE of the two generated files: bash_f32.c and bash_f64.c use the same cells, the same rotation
amounts, and the constants of bash_f32.c are the interleaved constants of bash_f64.c -/
theorem rounds_conv : rounds.map convR = Bee2V.Gen.C03.rounds := by decide +kernel

/-- no rotation amount of bash_f32.c reaches a shift by 0 or 32 -/
theorem rounds_ok : ∀ r ∈ rounds, ∀ l ∈ r.lines, LineOk l := by decide +kernel

theorem applyS_sim (l : SLine) (hl : LineOk l) (s : State32) :
    JAll (applyS l s) = Bee2V.C03.applyS (convL l) (JAll s) := by
  have h := bashS_sim l.m1 l.n1 l.m2 l.n2 hl.1 hl.2.1 hl.2.2.1 hl.2.2.2
    s[l.i0].1 s[l.i0].2 s[l.i1].1 s[l.i1].2 s[l.i2].1 s[l.i2].2
  simp only [Prod.ext_iff, Prod.eta, Fin.getElem_fin] at h
  simp only [JAll, applyS, Bee2V.C03.applyS, convL, Vector.map_set, Fin.getElem_fin, Vector.getElem_map,
    h.1, h.2.1, h.2.2]

theorem foldS_sim : ∀ (ls : List SLine) (_ : ∀ l ∈ ls, LineOk l) (s : State32),
    JAll (ls.foldl (fun s l => applyS l s) s)
      = (ls.map convL).foldl (fun s l => Bee2V.C03.applyS l s) (JAll s) := by
  intro ls
  induction ls with
  | nil => intro _ s; rfl
  | cons l ls ih =>
    intro h s
    rw [List.foldl_cons, List.map_cons, List.foldl_cons, ih (fun x hx => h x (List.mem_cons_of_mem _ hx)),
      applyS_sim l (h l List.mem_cons_self)]

theorem applyR_sim (r : Round) (hr : ∀ l ∈ r.lines, LineOk l) (s : State32) :
    JAll (applyR r s) = Bee2V.C03.applyR (convR r) (JAll s) := by
  have h := foldS_sim r.lines hr s
  simp only [applyR, Bee2V.C03.applyR, convR, ← h]
  simp only [JAll, Vector.map_set, Fin.getElem_fin, Vector.getElem_map, J_xor]

theorem foldR_sim : ∀ (rs : List Round) (_ : ∀ r ∈ rs, ∀ l ∈ r.lines, LineOk l) (s : State32),
    JAll (rs.foldl (fun s r => applyR r s) s)
      = (rs.map convR).foldl (fun s r => Bee2V.C03.applyR r s) (JAll s) := by
  intro rs
  induction rs with
  | nil => intro _ s; rfl
  | cons r rs ih =>
    intro h s
    rw [List.foldl_cons, List.map_cons, List.foldl_cons, ih (fun x hx => h x (List.mem_cons_of_mem _ hx)),
      applyR_sim r (h r List.mem_cons_self)]

/-- `bashF0` of bash_f32.c on interleaved halves simulates `bashF0` of bash_f64.c -/
theorem bashF0_sim (s : State32) : JAll (bashF0_32 s) = Bee2V.C03.bashF0 (JAll s) := by
  unfold bashF0_32 Bee2V.C03.bashF0
  rw [foldR_sim rounds rounds_ok s, rounds_conv]

theorem deinterAll_eq (s : State32) : deinterAll s = JAll s := rfl

theorem JAll_interAll (s : Vector UInt64 24) : JAll (interAll s) = s := by
  simp only [JAll, interAll, Vector.map_map]
  exact Vector.map_id'' (fun w => J_inter_split w) s

/-- **f32 = f64 on words**: interleave, run the BASH_32 rounds, de-interleave = the 64-bit rounds. -/
theorem bashF0_32_eq (s : Vector UInt64 24) :
    deinterAll (bashF0_32 (interAll s)) = Bee2V.C03.bashF0 s := by
  rw [deinterAll_eq, bashF0_sim, JAll_interAll]

/-! ## 5. octet level: u32 loads/stores of a little-endian host vs the u64 loads/stores of bash_f64.c -/

theorem load8_lo (x0 x1 x2 x3 y0 y1 y2 y3 : UInt8) :
    (loadU64 [x0, x1, x2, x3, y0, y1, y2, y3]).toUInt32 = loadU32 [x0, x1, x2, x3] := by
  apply UInt32.eq_of_toBitVec_eq
  apply BitVec.eq_of_getLsbD_eq
  intro i hi
  have h : i - 8 - 8 - 8 < 8 := by omega
  simp [loadU64, loadU32, BitVec.getLsbD_or, BitVec.getLsbD_shiftLeft, BitVec.getLsbD_setWidth, h]

theorem load8_hi (x0 x1 x2 x3 y0 y1 y2 y3 : UInt8) :
    ((loadU64 [x0, x1, x2, x3, y0, y1, y2, y3]) >>> 32).toUInt32 = loadU32 [y0, y1, y2, y3] := by
  apply UInt32.eq_of_toBitVec_eq
  apply BitVec.eq_of_getLsbD_eq
  intro i hi
  have e : 32 + i - 8 - 8 - 8 - 8 = i := by omega
  have f0 : x0.toBitVec.getLsbD (32 + i) = false := BitVec.getLsbD_of_ge _ _ (by omega)
  have f1 : x1.toBitVec.getLsbD (32 + i - 8) = false := BitVec.getLsbD_of_ge _ _ (by omega)
  have f2 : x2.toBitVec.getLsbD (32 + i - 8 - 8) = false := BitVec.getLsbD_of_ge _ _ (by omega)
  have f3 : x3.toBitVec.getLsbD (32 + i - 8 - 8 - 8) = false := BitVec.getLsbD_of_ge _ _ (by omega)
  have h1 : ¬ 32 + i < 8 := by omega
  have h2 : ¬ 32 + i - 8 < 8 := by omega
  have h3 : ¬ 32 + i - 8 - 8 < 8 := by omega
  have h4 : ¬ 32 + i - 8 - 8 - 8 < 8 := by omega
  have g0 : 32 + i < 64 := by omega
  have g1 : 32 + i - 8 < 64 := by omega
  have g2 : 32 + i - 8 - 8 < 64 := by omega
  have g3 : 32 + i - 8 - 8 - 8 < 64 := by omega
  have g4 : i < 64 := by omega
  have g5 : i - 8 < 64 := by omega
  have g6 : i - 8 - 8 < 64 := by omega
  have g7 : i - 8 - 8 - 8 < 64 := by omega
  have k5 : i - 8 < 32 := by omega
  have k6 : i - 8 - 8 < 32 := by omega
  have k7 : i - 8 - 8 - 8 < 32 := by omega
  simp [loadU64, loadU32, BitVec.getLsbD_or, BitVec.getLsbD_shiftLeft, BitVec.getLsbD_setWidth,
    BitVec.getLsbD_ushiftRight, e, f0, f1, f2, f3, h1, h2, h3, h4, g0, g1, g2, g3, g4, g5, g6, g7, hi, k5, k6, k7]

theorem storeU64_list (w : UInt64) : storeU64 w =
    [(w >>> 0).toUInt8, (w >>> 8).toUInt8, (w >>> 16).toUInt8, (w >>> 24).toUInt8,
     (w >>> 32).toUInt8, (w >>> 40).toUInt8, (w >>> 48).toUInt8, (w >>> 56).toUInt8] := rfl
theorem storeU32_list (w : UInt32) : storeU32 w =
    [(w >>> 0).toUInt8, (w >>> 8).toUInt8, (w >>> 16).toUInt8, (w >>> 24).toUInt8] := rfl

theorem shr64_byte (w : UInt64) (n : UInt64) (i : Nat) (hi : i < 8) (hn : n.toNat < 64):
   (w >>> n).toUInt8.toBitVec.getLsbD i = w.toBitVec.getLsbD (n.toNat + i) := by
  have e : (n.toBitVec % 64).toNat = n.toNat := by
    rw [BitVec.toNat_umod]; exact Nat.mod_eq_of_lt hn
  simp [UInt64.toBitVec_shiftRight, BitVec.getLsbD_setWidth, hi, BitVec.ushiftRight_eq', e, Nat.mod_eq_of_lt hn]
  
theorem shr32_byte (w : UInt32) (n : UInt32) (i : Nat) (hi : i < 8) (hn : n.toNat < 32):
   (w >>> n).toUInt8.toBitVec.getLsbD i = w.toBitVec.getLsbD (n.toNat + i) := by
  have e : (n.toBitVec % 32).toNat = n.toNat := by
    rw [BitVec.toNat_umod]; exact Nat.mod_eq_of_lt hn
  simp [UInt32.toBitVec_shiftRight, BitVec.getLsbD_setWidth, hi, BitVec.ushiftRight_eq', e, Nat.mod_eq_of_lt hn]

theorem byte_lo (p : W2) (n : UInt64) (n' : UInt32) (h : n.toNat + 8 ≤ 32) (e : n'.toNat = n.toNat) :
    ((pack p) >>> n).toUInt8 = (p.1 >>> n').toUInt8 := by
  apply UInt8.eq_of_toBitVec_eq
  apply BitVec.eq_of_getLsbD_eq
  intro i hi
  rw [shr64_byte _ _ _ hi (by omega), shr32_byte _ _ _ hi (by omega), pack_getLsbD, if_pos (by omega), e]

theorem byte_hi (p : W2) (n : UInt64) (n' : UInt32) (h0 : 32 ≤ n.toNat) (h : n.toNat + 8 ≤ 64) (e : n'.toNat + 32 = n.toNat) :
    ((pack p) >>> n).toUInt8 = (p.2 >>> n').toUInt8 := by
  apply UInt8.eq_of_toBitVec_eq
  apply BitVec.eq_of_getLsbD_eq
  intro i hi
  rw [shr64_byte _ _ _ hi (by omega), shr32_byte _ _ _ hi (by omega), pack_getLsbD, if_neg (by omega)]
  congr 1; omega

theorem store_pack (p : W2) : storeU64 (pack p) = storeU32 p.1 ++ storeU32 p.2 := by
  rw [storeU64_list, storeU32_list, storeU32_list]
  rw [byte_lo p 0 0 (by decide) rfl, byte_lo p 8 8 (by decide) rfl, byte_lo p 16 16 (by decide) rfl,
    byte_lo p 24 24 (by decide) rfl, byte_hi p 32 0 (by decide) (by decide) rfl,
    byte_hi p 40 8 (by decide) (by decide) rfl, byte_hi p 48 16 (by decide) (by decide) rfl,
    byte_hi p 56 24 (by decide) (by decide) rfl]
  rfl

theorem eight_of_le (l : List UInt8) (h : 8 ≤ l.length) :
    ∃ x0 x1 x2 x3 y0 y1 y2 y3 t, l = x0 :: x1 :: x2 :: x3 :: y0 :: y1 :: y2 :: y3 :: t := by
  rcases l with _ | ⟨x0, _ | ⟨x1, _ | ⟨x2, _ | ⟨x3, _ | ⟨y0, _ | ⟨y1, _ | ⟨y2, _ | ⟨y3, t⟩⟩⟩⟩⟩⟩⟩⟩ <;>
    simp at h
  exact ⟨x0, x1, x2, x3, y0, y1, y2, y3, t, rfl⟩

theorem toPairs_eq (b : List UInt8) (hb : b.length = 192) : toPairs b = (Bee2V.C03.toWords b).map split := by
  apply Vector.ext
  intro k hk
  simp only [toPairs, Bee2V.C03.toWords, Vector.getElem_map, Vector.getElem_ofFn]
  obtain ⟨x0, x1, x2, x3, y0, y1, y2, y3, t, e⟩ := eight_of_le (b.drop (8 * k)) (by rw [List.length_drop]; omega)
  have e2 : b.drop (8 * k + 4) = (b.drop (8 * k)).drop 4 := by rw [List.drop_drop]
  rw [e2, e]
  show (loadU32 [x0, x1, x2, x3], loadU32 [y0, y1, y2, y3]) = split (Bee2V.C03.loadU64 [x0, x1, x2, x3, y0, y1, y2, y3])
  rw [split, load8_lo, load8_hi]

theorem ofPairs_eq (q : State32) : ofPairs q = Bee2V.C03.ofWords (q.map pack) := by
  simp only [ofPairs, Bee2V.C03.ofWords, Vector.toList_map, List.flatMap_map, store_pack]

/-- **f32 = f64 on octets**: `bashF` of bash_f32.c (BASH_32 build, little-endian host) returns exactly what
`bashF` of bash_f64.c returns, for every 192-octet block; with `bashF0_spec` both are bash-f of STB 34.101.77. -/
theorem bashF32_eq_bashF (b : List UInt8) (hb : b.length = 192) : bashF32 b = Bee2V.C03.bashF b := by
  unfold bashF32 Bee2V.C03.bashF
  rw [ofPairs_eq, toPairs_eq b hb, Vector.map_map, Vector.map_map]
  exact congrArg Bee2V.C03.ofWords (bashF0_32_eq (Bee2V.C03.toWords b))

/-- non-vacuity of `bashF32_eq_bashF`: 192-octet blocks exist, and on the zero block the BASH_32 model
returns the known first octets of bash-f(0) (kernel evaluation of the f32 model) -/
example : ∃ b : List UInt8, b.length = 192 ∧ (bashF32 b).take 4 = [0xfc, 0xc7, 0x71, 0x8c] :=
  ⟨List.replicate 192 0, rfl, by decide +kernel⟩

/-- with `bashF0_spec`: the BASH_32 code computes bash-f of STB 34.101.77 on every 1536-bit state -/
theorem bashF0_32_spec (s : Vector UInt64 24) (x : Fin 24) :
    (deinterAll (bashF0_32 (interAll s)))[x].toBitVec
      = Bee2V.C03.Spec.bashF (fun y => s[y].toBitVec) x := by
  rw [bashF0_32_eq]; exact Bee2V.C03.bashF0_spec s x

/-- non-vacuity of `bashF0_32_eq`: the rounds are not the identity on the interleaved zero state -/
example : bashF0_32 (interAll (Vector.replicate 24 0)) ≠ interAll (Vector.replicate 24 0) := by decide +kernel

end Bee2V.C03.F32

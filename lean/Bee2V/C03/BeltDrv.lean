/-
Line-protocol ops for the belt model (the C side is harness/c03_belt.h):
  belt.encr  <x16> <key32>            -> beltBlockEncr: 16 octets
  belt.compr <h32> <x32>              -> beltCompr: 32 octets
  belt.hash  <chunk> <chunk> ...      -> Start; for each chunk: StepH(chunk), StepG -> the StepG values
  belt.hmac  <key> <chunk> <chunk> .. -> Start(key); for each chunk: StepA(chunk), StepG -> the StepG values
  belt.addbits <block16> <count>      -> beltBlockAddBitSizeU32(block, count), count decimal < 2^64: 16 octets
-/
import Bee2V.C03.Belt
import Bee2V.Base.Proto
namespace Bee2V.C03.Belt
open Bee2V.Proto

/-- a hex token ("-" = empty; the empty token is rejected, as the C harness does) -/
def parseTok (s : String) : Option (List UInt8) := if s = "" then none else parseHex s

/-- all tokens as octet strings, or none -/
def parseAll : List String → Option (List (List UInt8))
  | [] => some []
  | t :: ts =>
    match parseTok t, parseAll ts with
    | some x, some xs => some (x :: xs)
    | _, _ => none

def hashChunks : List (List UInt8) → HashSt → List String
  | [], _ => []
  | c :: cs, st =>
    let st := hashStepH c st
    toHex (hashStepG st) :: hashChunks cs st

def hmacChunks : List (List UInt8) → HmacSt → List String
  | [], _ => []
  | c :: cs, st =>
    let st := hmacStepA c st
    toHex (hmacStepG st) :: hmacChunks cs st

def handleBelt : List String → Option String
  | ["belt.encr", x, k] =>
    match parseTok x, parseTok k with
    | some x, some k =>
      if x.length = 16 ∧ k.length = 32 then
        some (toHex (w4ToBytes (blockEncr (w4OfBytes x) (w8OfBytes k))))
      else some "bad-op"
    | _, _ => some "bad-op"
  | ["belt.compr", h, x] =>
    match parseTok h, parseTok x with
    | some h, some x =>
      if h.length = 32 ∧ x.length = 32 then
        some (toHex (w8ToBytes (compr (w8OfBytes h) (w8OfBytes x))))
      else some "bad-op"
    | _, _ => some "bad-op"
  | ["belt.addbits", b, ns] =>
    match parseTok b, parseNat ns with
    | some b, some n =>
      if b.length = 16 ∧ n < 2 ^ 64 ∧ ns.all Char.isDigit then
        some (toHex (w4ToBytes (addBitSizeU32 (w4OfBytes b) n)))
      else some "bad-op"
    | _, _ => some "bad-op"
  | "belt.addbits" :: _ => some "bad-op"
  | "belt.encr" :: _ => some "bad-op"
  | "belt.compr" :: _ => some "bad-op"
  | "belt.hash" :: chunks =>
    match parseAll chunks with
    | some (c :: cs) => some (" ".intercalate (hashChunks (c :: cs) hashStart))
    | _ => some "bad-op"
  | "belt.hmac" :: key :: chunks =>
    match parseTok key, parseAll chunks with
    | some key, some (c :: cs) => some (" ".intercalate (hmacChunks (c :: cs) (hmacStart key)))
    | _, _ => some "bad-op"
  | "belt.hmac" :: _ => some "bad-op"
  | _ => none

end Bee2V.C03.Belt

import Bee2V.C03.LemmasCtr
import Bee2V.C03.SpecBrng
/-!
# The request loops of brng.c (`reserved` bookkeeping) = the standard's generators + the header's buffering rule
-/
namespace Bee2V.C03
open Bee2V.Proto

/-- invariant of `brng_ctr_st` -/
structure CtrSt.Inv (key : Bytes) (st : CtrSt) : Prop where
  mem : st.mem.length = 64
  block : st.block.length = 32
  res : st.reserved < 32
  key : st.keySt = Belt.hashStepH key Belt.hashStart

/-- abstraction: the variables of the standard and the unread tail of the last block -/
def CtrSt.g (st : CtrSt) : Spec.G := ⟨st.s, st.r⟩
def CtrSt.tail (st : CtrSt) : Bytes := st.block.drop (32 - st.reserved)

theorem CtrSt.s_len {st : CtrSt} (h : st.mem.length = 64) : st.s.length = 32 := by
  simp [CtrSt.s, h]
theorem CtrSt.r_len {st : CtrSt} (h : st.mem.length = 64) : st.r.length = 32 := by
  simp [CtrSt.r, h]
theorem CtrSt.mem_eq {st : CtrSt} (h : st.mem.length = 64) : st.mem = st.s ++ st.r := by
  simp only [CtrSt.s, CtrSt.r]
  have e : (st.mem.drop 32).take 32 = st.mem.drop 32 :=
    List.take_of_length_le (by rw [List.length_drop, h]; decide)
  rw [e, List.take_append_drop]

theorem xorBytes_length (a b : Bytes) : (xorBytes a b).length = min a.length b.length := by
  simp [xorBytes]

/-- one block of the code = one step of the standard (state level) -/
theorem ctrNext_step (wb : Nat) (hwb : wb = 8 ∨ wb = 4) (key : Bytes) (st : CtrSt) (hi : st.Inv key)
    (xs : List Bytes) :
    let q := Spec.ctrStep key st.g xs.flatten
    ctrNext wb st xs = ({ st with mem := q.1.s ++ q.1.r }, q.2) ∧
      ({ st with mem := q.1.s ++ q.1.r } : CtrSt).Inv key ∧
      ({ st with mem := q.1.s ++ q.1.r } : CtrSt).g = q.1 ∧ q.2.length = 32 := by
  intro q
  have hs := CtrSt.s_len hi.mem
  have hr := CtrSt.r_len hi.mem
  have h8 : (0 < wb) ∧ wb ∣ 32 := by rcases hwb with h | h <;> subst h <;> exact ⟨by decide, by decide⟩
  have h := ctrNext_spec wb h8.1 h8.2 key st.s st.r hs hr xs st (CtrSt.mem_eq hi.mem) hi.key
  have hY : q.2.length = 32 := Belt.hash_length _
  have hqs : q.1.s.length = 32 := natLE_length _ _
  have hqr : q.1.r.length = 32 := by
    show (List.zipWith _ st.r (Belt.hash _)).length = 32
    simp [hr, Belt.hash_length]
  refine ⟨h, ⟨by simp [hqs, hqr], hi.block, hi.res, hi.key⟩, ?_, hY⟩
  simp only [CtrSt.g, CtrSt.s, CtrSt.r]
  rw [List.take_left' hqs, List.drop_left' hqs, List.take_of_length_le (by omega)]

theorem pad32_full (x : Bytes) (h : x.length = 32) : Spec.pad32 x = x := by
  simp [Spec.pad32, h, zeros]

/-- the loop over full blocks -/
theorem ctrFull_spec (wb : Nat) (hwb : wb = 8 ∨ wb = 4) (key : Bytes) :
    ∀ (n : Nat) (st : CtrSt) (buf : Bytes), st.Inv key → buf.length / 32 = n →
      let q := Spec.ctrGenN key n st.g buf
      ctrFull wb st buf = ({ st with mem := q.1.s ++ q.1.r }, buf.drop (32 * n), q.2) ∧
        ({ st with mem := q.1.s ++ q.1.r } : CtrSt).Inv key ∧
        ({ st with mem := q.1.s ++ q.1.r } : CtrSt).g = q.1 ∧ q.2.length = 32 * n := by
  intro n
  induction n with
  | zero =>
    intro st buf hi hn
    have hlt : ¬ 32 ≤ buf.length := by omega
    rw [ctrFull, dif_neg hlt]
    have hm := CtrSt.mem_eq hi.mem
    refine ⟨?_, ?_, ?_, rfl⟩
    · simp only [Spec.ctrGenN, CtrSt.g, Nat.mul_zero, List.drop_zero, ← hm]
    · simp only [Spec.ctrGenN, CtrSt.g, ← hm]; exact hi
    · simp only [Spec.ctrGenN, CtrSt.g, ← hm]
  | succ n ih =>
    intro st buf hi hn
    have hge : 32 ≤ buf.length := by omega
    have ht : (buf.take 32).length = 32 := by rw [List.length_take]; omega
    obtain ⟨h1, h2, h3, h4⟩ := ctrNext_step wb hwb key st hi [buf.take 32]
    simp only [List.flatten_cons, List.flatten_nil, List.append_nil] at h1 h2 h3 h4
    have hn' : (buf.drop 32).length / 32 = n := by rw [List.length_drop]; omega
    obtain ⟨i1, i2, i3, i4⟩ := ih _ (buf.drop 32) h2 hn'
    rw [ctrFull, dif_pos hge]
    simp only [h1, i1, Spec.ctrGenN, pad32_full _ ht, h3]
    refine ⟨?_, ?_, ?_, ?_⟩
    · simp only [List.drop_drop, show 32 + 32 * n = 32 * (n + 1) by omega]
    · simp only [h3] at i2; exact i2
    · simp only [h3] at i3; exact i3
    · rw [List.length_append, h4]; simp only [h3] at i4; rw [i4]; omega


theorem ctrGenN_snoc (key : Bytes) : ∀ (n : Nat) (g : Spec.G) (x : Bytes),
    Spec.ctrGenN key (n + 1) g x =
      ((Spec.ctrStep key (Spec.ctrGenN key n g x).1 (Spec.pad32 ((x.drop (32 * n)).take 32))).1,
        (Spec.ctrGenN key n g x).2 ++
          (Spec.ctrStep key (Spec.ctrGenN key n g x).1 (Spec.pad32 ((x.drop (32 * n)).take 32))).2) := by
  intro n
  induction n with
  | zero => intro g x; simp [Spec.ctrGenN]
  | succ n ih =>
    intro g x
    rw [Spec.ctrGenN, ih]
    simp only [Spec.ctrGenN, List.drop_drop, List.append_assoc,
      show 32 + 32 * n = 32 * (n + 1) by omega]

/-- `brngCTRStepR` once the reserve is used up: ⌈|buf|/32⌉ steps of the standard, the last block is kept -/
theorem ctrGen_spec (wb : Nat) (hwb : wb = 8 ∨ wb = 4) (key : Bytes) (st : CtrSt) (buf : Bytes)
    (hi : st.Inv key) (h0 : st.reserved = 0) :
    (ctrGen wb st buf).2 = (Spec.ctrGenN key ((buf.length + 31) / 32) st.g buf).2.take buf.length ∧
      (ctrGen wb st buf).1.Inv key ∧
      (ctrGen wb st buf).1.g = (Spec.ctrGenN key ((buf.length + 31) / 32) st.g buf).1 ∧
      (ctrGen wb st buf).1.tail = (Spec.ctrGenN key ((buf.length + 31) / 32) st.g buf).2.drop buf.length := by
  obtain ⟨f1, f2, f3, f4⟩ := ctrFull_spec wb hwb key (buf.length / 32) st buf hi rfl
  generalize hqq : Spec.ctrGenN key (buf.length / 32) st.g buf = qq at f1 f2 f3 f4
  by_cases hrest : buf.length % 32 = 0
  · -- no partial block
    have hN : (buf.length + 31) / 32 = buf.length / 32 := by omega
    have hdrop : (buf.drop (32 * (buf.length / 32))).length = 0 := by rw [List.length_drop]; omega
    have hg : ctrGen wb st buf = ({ st with mem := qq.1.s ++ qq.1.r }, qq.2) := by
      simp only [ctrGen, f1, hdrop, ne_eq, not_true_eq_false, if_false]
    rw [hg, hN, hqq]
    have hq2 : qq.2.length ≤ buf.length := by omega
    have hq3 : qq.2.length ≤ buf.length := hq2
    have hb32 : st.block.length ≤ 32 := by rw [hi.block]; exact Nat.le_refl _
    refine ⟨?_, f2, f3, ?_⟩
    · exact (List.take_of_length_le hq2).symm
    · simp only [CtrSt.tail, h0, Nat.sub_zero]
      rw [List.drop_eq_nil_of_le hb32, List.drop_eq_nil_of_le hq3]
  · -- a partial last block
    have hN : (buf.length + 31) / 32 = buf.length / 32 + 1 := by omega
    have hlt : buf.length % 32 < 32 := Nat.mod_lt _ (by decide)
    generalize hrest' : buf.drop (32 * (buf.length / 32)) = rest at f1
    have hrl : rest.length = buf.length % 32 := by rw [← hrest', List.length_drop]; omega
    have htake : rest.take 32 = rest := List.take_of_length_le (by omega)
    obtain ⟨n1, n2, n3, n4⟩ := ctrNext_step wb hwb key _ f2 [rest, zeros (32 - rest.length)]
    simp only [List.flatten_cons, List.flatten_nil, List.append_nil, f3] at n1 n2 n3 n4
    rw [hN, ctrGenN_snoc, hqq, hrest', htake]
    have hpad : Spec.pad32 rest = rest ++ zeros (32 - rest.length) := rfl
    rw [hpad]
    generalize Spec.ctrStep key qq.1 (rest ++ zeros (32 - rest.length)) = q1 at n1 n2 n3 n4
    have hne : ¬ (rest.length = 0) := by omega
    have hg : ctrGen wb st buf =
        ({ st with mem := q1.1.s ++ q1.1.r, block := q1.2, reserved := 32 - rest.length },
          qq.2 ++ q1.2.take rest.length) := by
      simp only [ctrGen, f1, ne_eq, hne, not_false_eq_true, if_true, n1]
    rw [hg]
    refine ⟨?_, ⟨n2.mem, n4, by simp only; omega, n2.key⟩, n3, ?_⟩
    · have hq2 : qq.2.length ≤ buf.length := by omega
      have hc : buf.length - qq.2.length = rest.length := by omega
      simp only
      rw [List.take_append, List.take_of_length_le hq2, hc]
    · have hq2 : qq.2.length ≤ buf.length := by omega
      have hc : buf.length - qq.2.length = rest.length := by omega
      have hc2 : 32 - (32 - rest.length) = rest.length := by omega
      simp only [CtrSt.tail]
      rw [List.drop_append, List.drop_eq_nil_of_le hq2, List.nil_append, hc, hc2]


theorem CtrSt.tail_len {key : Bytes} {st : CtrSt} (hi : st.Inv key) : st.tail.length = st.reserved := by
  have := hi.res
  simp only [CtrSt.tail, List.length_drop, hi.block]; omega

theorem ctrServe_le (key : Bytes) (g : Spec.G) (tail buf : Bytes) (h : buf.length ≤ tail.length) :
    Spec.ctrServe key g tail buf = (g, tail.drop buf.length, tail.take buf.length, []) := by
  unfold Spec.ctrServe; rw [if_pos h]

theorem ctrServe_gt (key : Bytes) (g : Spec.G) (tail buf : Bytes) (h : ¬ buf.length ≤ tail.length) :
    Spec.ctrServe key g tail buf =
      ((Spec.ctrGenN key (((buf.drop tail.length).length + 31) / 32) g (buf.drop tail.length)).1,
        (Spec.ctrGenN key (((buf.drop tail.length).length + 31) / 32) g (buf.drop tail.length)).2.drop
          (buf.drop tail.length).length,
        tail ++ (Spec.ctrGenN key (((buf.drop tail.length).length + 31) / 32) g (buf.drop tail.length)).2.take
          (buf.drop tail.length).length,
        (Spec.ctrGenN key (((buf.drop tail.length).length + 31) / 32) g (buf.drop tail.length)).2) := by
  unfold Spec.ctrServe; rw [if_neg h]

/-- **`brngCTRStepR` = the buffering rule of the header on top of the standard's steps**, any request, any state -/
theorem ctrStepR_spec (wb : Nat) (hwb : wb = 8 ∨ wb = 4) (key : Bytes) (st : CtrSt) (buf : Bytes)
    (hi : st.Inv key) :
    (ctrStepR wb buf st).2 = (Spec.ctrServe key st.g st.tail buf).2.2.1 ∧ (ctrStepR wb buf st).1.Inv key ∧
      (ctrStepR wb buf st).1.g = (Spec.ctrServe key st.g st.tail buf).1 ∧
      (ctrStepR wb buf st).1.tail = (Spec.ctrServe key st.g st.tail buf).2.1 := by
  have htl := CtrSt.tail_len hi
  have hres := hi.res
  by_cases hr0 : st.reserved = 0
  · -- nothing in reserve
    have ht : st.tail = [] := List.length_eq_zero_iff.mp (by rw [htl, hr0])
    have hm : ctrStepR wb buf st = ctrGen wb st buf := by
      simp only [ctrStepR, hr0, ne_eq, not_true_eq_false, if_false]
    obtain ⟨g1, g2, g3, g4⟩ := ctrGen_spec wb hwb key st buf hi hr0
    rw [hm, ht]
    by_cases hb : buf.length = 0
    · have hbn : buf = [] := List.length_eq_zero_iff.mp hb
      subst hbn
      simp only [List.length_nil, Nat.zero_add, Nat.reduceDiv, Spec.ctrGenN, List.take_nil, List.drop_nil] at g1 g3 g4
      rw [ctrServe_le key st.g [] [] (Nat.le_refl _)]
      exact ⟨g1, g2, g3, g4⟩
    · have hnle : ¬ (buf.length ≤ ([] : Bytes).length) := by simp only [List.length_nil]; omega
      rw [ctrServe_gt key st.g [] buf hnle]
      simp only [List.length_nil, List.drop_zero, List.nil_append]
      exact ⟨g1, g2, g3, g4⟩
  · by_cases hge : st.reserved ≥ buf.length
    · -- served from the reserve
      have hm : ctrStepR wb buf st =
          ({ st with reserved := st.reserved - buf.length }, (st.block.drop (32 - st.reserved)).take buf.length) := by
        simp only [ctrStepR, ne_eq, hr0, not_false_eq_true, if_true, hge]
      have hle : buf.length ≤ st.tail.length := by omega
      rw [hm, ctrServe_le key st.g st.tail buf hle]
      refine ⟨rfl, ⟨hi.mem, hi.block, by simp only; omega, hi.key⟩, rfl, ?_⟩
      simp only [CtrSt.tail, List.drop_drop]
      congr 1; omega
    · -- reserve, then new blocks
      have hm : ctrStepR wb buf st =
          ((ctrGen wb { st with reserved := 0 } (buf.drop st.reserved)).1,
            (st.block.drop (32 - st.reserved)).take st.reserved ++
              (ctrGen wb { st with reserved := 0 } (buf.drop st.reserved)).2) := by
        simp only [ctrStepR, ne_eq, hr0, not_false_eq_true, if_true, hge, if_false]
      have hi0 : ({ st with reserved := 0 } : CtrSt).Inv key := ⟨hi.mem, hi.block, Nat.zero_lt_succ _, hi.key⟩
      obtain ⟨g1, g2, g3, g4⟩ := ctrGen_spec wb hwb key _ (buf.drop st.reserved) hi0 rfl
      have hnle : ¬ (buf.length ≤ st.tail.length) := by omega
      have hfull : (st.block.drop (32 - st.reserved)).take st.reserved = st.tail := by
        apply List.take_of_length_le
        show st.tail.length ≤ st.reserved
        rw [htl]; exact Nat.le_refl _
      rw [hm, hfull, ctrServe_gt key st.g st.tail buf hnle, htl]
      exact ⟨by rw [g1]; rfl, g2, g3, g4⟩

/-- the code run over a list of requests -/
def ctrRun (wb : Nat) : List Bytes → CtrSt → CtrSt × List Bytes
  | [], st => (st, [])
  | b :: bs, st =>
    let a := ctrStepR wb b st
    let c := ctrRun wb bs a.1
    (c.1, a.2 :: c.2)

theorem ctrRun_spec (wb : Nat) (hwb : wb = 8 ∨ wb = 4) (key : Bytes) :
    ∀ (bufs : List Bytes) (st : CtrSt), st.Inv key →
      (ctrRun wb bufs st).2 = (Spec.ctrServeAll key st.g st.tail bufs).2.2.1 ∧
      (ctrRun wb bufs st).1.g = (Spec.ctrServeAll key st.g st.tail bufs).1 := by
  intro bufs
  induction bufs with
  | nil => intro st _; exact ⟨rfl, rfl⟩
  | cons b bs ih =>
    intro st hi
    obtain ⟨s1, s2, s3, s4⟩ := ctrStepR_spec wb hwb key st b hi
    obtain ⟨i1, i2⟩ := ih _ s2
    simp only [ctrRun, Spec.ctrServeAll]
    rw [i1, i2, s1, s3, s4]
    exact ⟨rfl, rfl⟩

theorem ctrStart_inv (key iv : Bytes) (hiv : iv.length = 32) :
    (ctrStart key iv).Inv key ∧ (ctrStart key iv).g = Spec.ctrInit iv ∧ (ctrStart key iv).tail = [] := by
  refine ⟨⟨by simp [ctrStart, hiv], by simp [ctrStart, zeros], by simp [ctrStart], rfl⟩, ?_, ?_⟩
  · simp only [CtrSt.g, CtrSt.s, CtrSt.r, ctrStart, Spec.ctrInit]
    rw [List.take_left' hiv, List.drop_left' hiv, List.take_of_length_le (by simp [hiv])]
  · simp [CtrSt.tail, ctrStart, zeros]

/-- spec-level sanity: what has been returned so far plus the unread tail is exactly what was generated -/
theorem ctrServeAll_prefix (key : Bytes) : ∀ (bufs : List Bytes) (g : Spec.G) (tail : Bytes),
    (Spec.ctrServeAll key g tail bufs).2.2.1.flatten ++ (Spec.ctrServeAll key g tail bufs).2.1
      = tail ++ (Spec.ctrServeAll key g tail bufs).2.2.2 := by
  intro bufs
  induction bufs with
  | nil => intro g tail; simp [Spec.ctrServeAll]
  | cons b bs ih =>
    intro g tail
    simp only [Spec.ctrServeAll, List.flatten_cons, List.append_assoc]
    rw [ih]
    simp only [Spec.ctrServe]
    split
    · simp only [← List.append_assoc, List.take_append_drop, List.append_nil]
    · simp only [← List.append_assoc, List.take_append_drop]
      simp only [List.append_assoc, List.take_append_drop]


/-! ## brng HMAC -/

structure HmacGenSt.Inv (key : Bytes) (st : HmacGenSt) : Prop where
  block : st.block.length = 32
  res : st.reserved < 32
  key : st.keySt = Belt.hmacStart key

def HmacGenSt.tail (st : HmacGenSt) : Bytes := st.block.drop (32 - st.reserved)

/-- one block: the code reuses the incremental HMAC state (`StepA(r); StepG → r'; StepA(iv); StepG → Y`),
which is `r' = hmac(K, r)`, `Y = hmac(K, r ‖ iv)` -/
theorem hmacGenNext_spec (key : Bytes) (st : HmacGenSt) (hk : st.keySt = Belt.hmacStart key) :
    hmacGenNext st = ({ st with r := (Spec.hmacStep key st.iv st.r).1 }, (Spec.hmacStep key st.iv st.r).2) := by
  simp only [hmacGenNext, Spec.hmacStep, hk, Belt.hmac]
  rw [Belt.hmacStepA_append _ (Belt.hmacStart_WF key)]

theorem hmacGenFull_spec (key : Bytes) : ∀ (n : Nat) (st : HmacGenSt), st.keySt = Belt.hmacStart key →
    hmacGenFull st n = ({ st with r := (Spec.hmacGenN key st.iv n st.r).1 }, (Spec.hmacGenN key st.iv n st.r).2) ∧
      (Spec.hmacGenN key st.iv n st.r).2.length = 32 * n := by
  intro n
  induction n with
  | zero => intro st _; exact ⟨rfl, rfl⟩
  | succ n ih =>
    intro st hk
    obtain ⟨i1, i2⟩ := ih { st with r := (Spec.hmacStep key st.iv st.r).1 } hk
    refine ⟨?_, ?_⟩
    · simp only [hmacGenFull, hmacGenNext_spec key st hk, Spec.hmacGenN, i1]
    · simp only [Spec.hmacGenN]
      rw [List.length_append, i2]
      simp only [Spec.hmacStep, Belt.hmac_length]; omega

/-- generic iteration (used to unfold the LAST step of `Spec.hmacGenN`) -/
def genN (f : Bytes → Bytes × Bytes) : Nat → Bytes → Bytes × Bytes
  | 0, r => (r, [])
  | n + 1, r => let a := f r; let b := genN f n a.1; (b.1, a.2 ++ b.2)

theorem genN_snoc (f : Bytes → Bytes × Bytes) : ∀ (n : Nat) (r : Bytes),
    genN f (n + 1) r = ((f (genN f n r).1).1, (genN f n r).2 ++ (f (genN f n r).1).2) := by
  intro n
  induction n with
  | zero => intro r; simp [genN]
  | succ n ih => intro r; rw [genN, ih]; simp only [genN, List.append_assoc]

theorem hmacGenN_eq (key iv : Bytes) : ∀ n r, Spec.hmacGenN key iv n r = genN (Spec.hmacStep key iv) n r := by
  intro n
  induction n with
  | zero => intro r; rfl
  | succ n ih => intro r; simp only [Spec.hmacGenN, genN, ih]

theorem hmacGenN_snoc (key iv : Bytes) (n : Nat) (r : Bytes) :
    Spec.hmacGenN key iv (n + 1) r =
      ((Spec.hmacStep key iv (Spec.hmacGenN key iv n r).1).1,
        (Spec.hmacGenN key iv n r).2 ++ (Spec.hmacStep key iv (Spec.hmacGenN key iv n r).1).2) := by
  rw [hmacGenN_eq, hmacGenN_eq, genN_snoc]

theorem hmacGenGen_spec (key : Bytes) (st : HmacGenSt) (count : Nat) (hi : st.Inv key) (h0 : st.reserved = 0) :
    (hmacGenGen st count).2 = (Spec.hmacGenN key st.iv ((count + 31) / 32) st.r).2.take count ∧
      (hmacGenGen st count).1.Inv key ∧ (hmacGenGen st count).1.iv = st.iv ∧
      (hmacGenGen st count).1.r = (Spec.hmacGenN key st.iv ((count + 31) / 32) st.r).1 ∧
      (hmacGenGen st count).1.tail = (Spec.hmacGenN key st.iv ((count + 31) / 32) st.r).2.drop count := by
  obtain ⟨f1, f2⟩ := hmacGenFull_spec key (count / 32) st hi.key
  generalize hqq : Spec.hmacGenN key st.iv (count / 32) st.r = qq at f1 f2
  by_cases hrest : count % 32 = 0
  · have hN : (count + 31) / 32 = count / 32 := by omega
    have hg : hmacGenGen st count = ({ st with r := qq.1 }, qq.2) := by
      simp only [hmacGenGen, hrest, ne_eq, not_true_eq_false, if_false, f1]
    have hq2 : qq.2.length ≤ count := by omega
    have hb32 : st.block.length ≤ 32 := by rw [hi.block]; exact Nat.le_refl _
    rw [hg, hN, hqq]
    refine ⟨(List.take_of_length_le hq2).symm, ⟨hi.block, hi.res, hi.key⟩, rfl, rfl, ?_⟩
    simp only [HmacGenSt.tail, h0, Nat.sub_zero]
    rw [List.drop_eq_nil_of_le hb32, List.drop_eq_nil_of_le hq2]
  · have hN : (count + 31) / 32 = count / 32 + 1 := by omega
    have hlt : count % 32 < 32 := Nat.mod_lt _ (by decide)
    have hn := hmacGenNext_spec key { st with r := qq.1 } hi.key
    rw [hN, hmacGenN_snoc, hqq]
    have hq1 : (Spec.hmacStep key st.iv qq.1).2.length = 32 := Belt.hmac_length _ _
    generalize Spec.hmacStep key st.iv qq.1 = q1 at hn hq1
    have hg : hmacGenGen st count =
        ({ st with r := q1.1, block := q1.2, reserved := 32 - count % 32 }, qq.2 ++ q1.2.take (count % 32)) := by
      simp only [hmacGenGen, ne_eq, hrest, not_false_eq_true, if_true, f1, hn]
    have hq2 : qq.2.length ≤ count := by omega
    have hc : count - qq.2.length = count % 32 := by omega
    have hc2 : 32 - (32 - count % 32) = count % 32 := by omega
    rw [hg]
    refine ⟨?_, ⟨hq1, by simp only; omega, hi.key⟩, rfl, rfl, ?_⟩
    · simp only
      rw [List.take_append, List.take_of_length_le hq2, hc]
    · simp only [HmacGenSt.tail]
      rw [List.drop_append, List.drop_eq_nil_of_le hq2, List.nil_append, hc, hc2]


theorem HmacGenSt.tail_len {key : Bytes} {st : HmacGenSt} (hi : st.Inv key) : st.tail.length = st.reserved := by
  have := hi.res
  simp only [HmacGenSt.tail, List.length_drop, hi.block]; omega

theorem hmacServe_le (key iv r tail : Bytes) (count : Nat) (h : count ≤ tail.length) :
    Spec.hmacServe key iv r tail count = (r, tail.drop count, tail.take count, []) := by
  unfold Spec.hmacServe; rw [if_pos h]

theorem hmacServe_gt (key iv r tail : Bytes) (count : Nat) (h : ¬ count ≤ tail.length) :
    Spec.hmacServe key iv r tail count =
      ((Spec.hmacGenN key iv ((count - tail.length + 31) / 32) r).1,
        (Spec.hmacGenN key iv ((count - tail.length + 31) / 32) r).2.drop (count - tail.length),
        tail ++ (Spec.hmacGenN key iv ((count - tail.length + 31) / 32) r).2.take (count - tail.length),
        (Spec.hmacGenN key iv ((count - tail.length + 31) / 32) r).2) := by
  unfold Spec.hmacServe; rw [if_neg h]

/-- **`brngHMACStepR` = the buffering rule on top of the standard's brng-hmac steps** -/
theorem hmacGenStepR_spec (key : Bytes) (st : HmacGenSt) (count : Nat) (hi : st.Inv key) :
    (hmacGenStepR count st).2 = (Spec.hmacServe key st.iv st.r st.tail count).2.2.1 ∧
      (hmacGenStepR count st).1.Inv key ∧ (hmacGenStepR count st).1.iv = st.iv ∧
      (hmacGenStepR count st).1.r = (Spec.hmacServe key st.iv st.r st.tail count).1 ∧
      (hmacGenStepR count st).1.tail = (Spec.hmacServe key st.iv st.r st.tail count).2.1 := by
  have htl := HmacGenSt.tail_len hi
  have hres := hi.res
  by_cases hr0 : st.reserved = 0
  · have ht : st.tail = [] := List.length_eq_zero_iff.mp (by rw [htl, hr0])
    have hm : hmacGenStepR count st = hmacGenGen st count := by
      simp only [hmacGenStepR, hr0, ne_eq, not_true_eq_false, if_false]
    obtain ⟨g1, g2, g3, g4, g5⟩ := hmacGenGen_spec key st count hi hr0
    rw [hm, ht]
    by_cases hb : count = 0
    · subst hb
      simp only [Nat.zero_add, Nat.reduceDiv, Spec.hmacGenN, List.take_nil, List.drop_nil] at g1 g4 g5
      rw [hmacServe_le key st.iv st.r [] 0 (Nat.le_refl _)]
      exact ⟨g1, g2, g3, g4, g5⟩
    · have hnle : ¬ (count ≤ ([] : Bytes).length) := by simp only [List.length_nil]; omega
      rw [hmacServe_gt key st.iv st.r [] count hnle]
      simp only [List.length_nil, Nat.sub_zero, List.nil_append]
      exact ⟨g1, g2, g3, g4, g5⟩
  · by_cases hge : st.reserved ≥ count
    · have hm : hmacGenStepR count st =
          ({ st with reserved := st.reserved - count }, (st.block.drop (32 - st.reserved)).take count) := by
        simp only [hmacGenStepR, ne_eq, hr0, not_false_eq_true, if_true, hge]
      have hle : count ≤ st.tail.length := by omega
      rw [hm, hmacServe_le key st.iv st.r st.tail count hle]
      refine ⟨rfl, ⟨hi.block, by simp only; omega, hi.key⟩, rfl, rfl, ?_⟩
      simp only [HmacGenSt.tail, List.drop_drop]
      congr 1; omega
    · have hm : hmacGenStepR count st =
          ((hmacGenGen { st with reserved := 0 } (count - st.reserved)).1,
            (st.block.drop (32 - st.reserved)).take st.reserved ++
              (hmacGenGen { st with reserved := 0 } (count - st.reserved)).2) := by
        simp only [hmacGenStepR, ne_eq, hr0, not_false_eq_true, if_true, hge, if_false]
      have hi0 : ({ st with reserved := 0 } : HmacGenSt).Inv key := ⟨hi.block, Nat.zero_lt_succ _, hi.key⟩
      obtain ⟨g1, g2, g3, g4, g5⟩ := hmacGenGen_spec key _ (count - st.reserved) hi0 rfl
      have hnle : ¬ (count ≤ st.tail.length) := by omega
      have hfull : (st.block.drop (32 - st.reserved)).take st.reserved = st.tail := by
        apply List.take_of_length_le
        show st.tail.length ≤ st.reserved
        rw [htl]; exact Nat.le_refl _
      rw [hm, hfull, hmacServe_gt key st.iv st.r st.tail count hnle, htl]
      exact ⟨by rw [g1], g2, g3, g4, g5⟩

def hmacGenRun : List Nat → HmacGenSt → HmacGenSt × List Bytes
  | [], st => (st, [])
  | n :: ns, st =>
    let a := hmacGenStepR n st
    let c := hmacGenRun ns a.1
    (c.1, a.2 :: c.2)

theorem hmacGenRun_spec (key : Bytes) : ∀ (ns : List Nat) (st : HmacGenSt), st.Inv key →
    (hmacGenRun ns st).2 = (Spec.hmacServeAll key st.iv st.r st.tail ns).2.2.1 := by
  intro ns
  induction ns with
  | nil => intro st _; rfl
  | cons n ns ih =>
    intro st hi
    obtain ⟨s1, s2, s3, s4, s5⟩ := hmacGenStepR_spec key st n hi
    simp only [hmacGenRun, Spec.hmacServeAll]
    rw [ih _ s2, s1, s3, s4, s5]

theorem hmacGenStart_inv (key iv : Bytes) :
    (hmacGenStart key iv).Inv key ∧ (hmacGenStart key iv).iv = iv ∧
      (hmacGenStart key iv).r = Spec.hmacInit key iv ∧ (hmacGenStart key iv).tail = [] := by
  refine ⟨⟨by simp [hmacGenStart, zeros], by simp [hmacGenStart], rfl⟩, rfl, rfl, ?_⟩
  simp [HmacGenSt.tail, hmacGenStart, zeros]

end Bee2V.C03

/-
C16 — lemmas for PropsC06: the laws of `ELaws` for the real curve group (`mathlibECtx`, InstC06.lean) and the
translation between C06's representation relation `RepN2` (reduced naturals standing for a point) and the
coordinate function `curveXY` of the C16 context.
-/
import Bee2V.C16.InstC06
import Bee2V.C16.LawsSig
import Bee2V.C06.PropsTop
import Bee2V.C06.PropsTop2
import Bee2V.C16.LemmasDstuSub
namespace Bee2V.C16.Br
open WeierstrassCurve Bee2V.C06 Bee2V.C16

section
variable {p : Nat} [Fact p.Prime] {A B : ZMod p}

theorem some_eq {x y x' y' : ZMod p} (h : (Wc A B).Nonsingular x y) (h' : (Wc A B).Nonsingular x' y')
    (hx : x = x') (hy : y = y') : Affine.Point.some x y h = Affine.Point.some x' y' h' := by
  subst hx; subst hy; rfl

theorem xy_none (P : (Wc A B).Point) : curveXY p A B P = none ↔ P = 0 := by
  cases P with
  | zero => exact ⟨fun _ => Affine.Point.zero_def.symm, fun _ => rfl⟩
  | some x y h =>
    constructor
    · intro h0; cases h0
    · intro h0; exact absurd h0 (Affine.Point.some_ne_zero h)

theorem xy_some {P : (Wc A B).Point} {x y : Nat} (h : curveXY p A B P = some (x, y)) :
    x < p ∧ y < p ∧ ∃ hns : (Wc A B).Nonsingular (x : ZMod p) (y : ZMod p), P = .some _ _ hns := by
  cases P with
  | zero => cases h
  | some a b hab =>
    simp only [curveXY, Option.some.injEq, Prod.mk.injEq] at h
    obtain ⟨rfl, rfl⟩ := h
    have ea : ((a.val : Nat) : ZMod p) = a := ZMod.natCast_zmod_val a
    have eb : ((b.val : Nat) : ZMod p) = b := ZMod.natCast_zmod_val b
    refine ⟨ZMod.val_lt a, ZMod.val_lt b, ?_, ?_⟩
    · rw [ea, eb]; exact hab
    · exact some_eq _ _ ea.symm eb.symm

theorem xy_of_some {x y : Nat} (hx : x < p) (hy : y < p)
    (hns : (Wc A B).Nonsingular (x : ZMod p) (y : ZMod p)) :
    curveXY p A B (.some _ _ hns) = some (x, y) := by
  simp only [curveXY, ZMod.val_cast_of_lt hx, ZMod.val_cast_of_lt hy]

theorem ofXY_some {x y : Nat} {P : (Wc A B).Point} (h : curveOfXY p A B x y = some P) :
    x < p ∧ y < p ∧ ∃ hns : (Wc A B).Nonsingular (x : ZMod p) (y : ZMod p), P = .some _ _ hns := by
  unfold curveOfXY at h
  split at h
  · rename_i hc
    exact ⟨hc.1, hc.2.1, hc.2.2, (Option.some.inj h).symm⟩
  · cases h

theorem ofXY_xy (P : (Wc A B).Point) (x y : Nat) (h : curveXY p A B P = some (x, y)) :
    curveOfXY p A B x y = some P := by
  obtain ⟨hx, hy, hns, rfl⟩ := xy_some h
  unfold curveOfXY
  rw [dif_pos ⟨hx, hy, hns⟩]

theorem xy_ofXY (x y : Nat) (P : (Wc A B).Point) (h : curveOfXY p A B x y = some P) :
    curveXY p A B P = some (x, y) := by
  obtain ⟨hx, hy, hns, rfl⟩ := ofXY_some h
  exact xy_of_some hx hy hns

theorem xy_lt {P : (Wc A B).Point} {x y : Nat} (h : curveXY p A B P = some (x, y)) : x < p ∧ y < p :=
  ⟨(xy_some h).1, (xy_some h).2.1⟩

/-- every law of `ELaws` except "q is a prime and the order of the base point" is a theorem -/
theorem eLaws {q : Nat} {base : (Wc A B).Point} (hq : Nat.Prime q)
    (hord : ∀ n : Nat, n • base = 0 ↔ q ∣ n) : ELaws (mathlibECtx p A B q base) where
  zero_eq := rfl
  add_eq := fun _ _ => rfl
  neg_eq := fun _ => rfl
  smul_eq := fun _ _ => rfl
  q_prime := hq
  order := hord
  xy_none := xy_none
  ofXY_xy := ofXY_xy
  xy_ofXY := xy_ofXY

end

/-! ### C06's `RepN2` and `curveXY` -/

section
variable {p : Nat} [Fact p.Prime] {A B : Nat}

theorem rep_of_xy {P : (Wc (A : ZMod p) (B : ZMod p)).Point} {b : Nat × Nat}
    (h : curveXY p (A : ZMod p) (B : ZMod p) P = some b) : RepN2 p A B b P := by
  obtain ⟨x, y⟩ := b
  obtain ⟨hx, hy, hns, rfl⟩ := xy_some h
  exact ⟨⟨hx, hy⟩, hns, rfl⟩

theorem xy_of_rep {P : (Wc (A : ZMod p) (B : ZMod p)).Point} {b : Nat × Nat}
    (h : RepN2 p A B b P) : curveXY p (A : ZMod p) (B : ZMod p) P = some b := by
  obtain ⟨x, y⟩ := b
  obtain ⟨⟨hx, hy⟩, hns, rfl⟩ := h
  exact xy_of_some hx hy hns

/-- a C06-style result (`none` ⇔ the group element is O, `some b` ⇒ b represents it) IS the coordinate
function of the C16 context -/
theorem result_eq {r : Option (Nat × Nat)} {S : (Wc (A : ZMod p) (B : ZMod p)).Point}
    (h0 : r = none ↔ S = 0) (h1 : ∀ b, r = some b → RepN2 p A B b S) :
    r = curveXY p (A : ZMod p) (B : ZMod p) S := by
  cases r with
  | none => exact ((xy_none S).2 (h0.1 rfl)).symm
  | some b => exact (xy_of_rep (h1 b rfl)).symm

end
end Bee2V.C16.Br

namespace Bee2V.C16.Br

/-- an element ≠ 0 killed by a prime q has order exactly q -/
theorem order_of_prime {G : Type} [AddCommGroup G] {q : Nat} (hq : q.Prime) {P : G} (h0 : P ≠ 0)
    (hq0 : q • P = 0) (n : Nat) : n • P = 0 ↔ q ∣ n := by
  have hd : addOrderOf P ∣ q := addOrderOf_dvd_of_nsmul_eq_zero hq0
  rcases (Nat.dvd_prime hq).1 hd with h1 | h1
  · exact absurd (AddMonoid.addOrderOf_eq_one_iff.1 h1) h0
  · rw [← h1]; exact addOrderOf_dvd_iff_nsmul_eq_zero.symm

end Bee2V.C16.Br

/-! ### a toy instance: y² = x³ + x + 1 over `ZMod 23`, G = (17, 3) of order 7 -/

namespace Bee2V.C16.Br
open WeierstrassCurve Bee2V.C06 Bee2V.C16

section toy
attribute [local instance] fact_prime_23

theorem toyNs (x y : Nat)
    (h : ((y : ZMod 23)) ^ 2 = (x : ZMod 23) ^ 3 + ((1 : Nat) : ZMod 23) * x + ((1 : Nat) : ZMod 23))
    (hy : (y : ZMod 23) + y ≠ 0) :
    (Wc ((1 : Nat) : ZMod 23) ((1 : Nat) : ZMod 23)).Nonsingular (x : ZMod 23) (y : ZMod 23) :=
  (Wc_nonsingular _ _ _ _).2 ⟨h, Or.inr hy⟩

theorem toyG_ns : (Wc ((1 : Nat) : ZMod 23) ((1 : Nat) : ZMod 23)).Nonsingular
    ((17 : Nat) : ZMod 23) ((3 : Nat) : ZMod 23) :=
  toyNs 17 3 (by decide) (by decide)

noncomputable def toyG : (Wc ((1 : Nat) : ZMod 23) ((1 : Nat) : ZMod 23)).Point := .some _ _ toyG_ns

theorem toyG_xy {q : Nat} {base} :
    (mathlibECtx 23 ((1 : Nat) : ZMod 23) ((1 : Nat) : ZMod 23) q base).xy toyG = some (17, 3) :=
  xy_of_some (by decide) (by decide) toyG_ns

/-- 7 • G = O is READ OFF the run of C06's model of `ecHasOrderA` (through `ecHasOrderA_nat`) -/
theorem toyG_order (n : Nat) : n • toyG = 0 ↔ 7 ∣ n :=
  order_of_prime (by decide) (Affine.Point.some_ne_zero _)
    ((ecHasOrderA_nat 23 (by decide) (A := 1) (B := 1) (by decide) (by decide) (x := 17) (y := 3)
      (by decide) (by decide) toyG_ns 64 1 7).1 (by decide +kernel)) n

end toy
end Bee2V.C16.Br

/-! ### binary curves -/

namespace Bee2V.C16.Br
open WeierstrassCurve Bee2V.C06 Bee2V.C16

section binary
set_option linter.unusedSectionVars false
variable {F : Type} [Field F] [DecidableEq F] {a B : F}

theorem xyB_none (P : (Wb a B).Point) : curveBXY a B P = none ↔ P = 0 := by
  cases P with
  | zero => exact ⟨fun _ => Affine.Point.zero_def.symm, fun _ => rfl⟩
  | some x y h =>
    constructor
    · intro h0; cases h0
    · intro h0; exact absurd h0 (Affine.Point.some_ne_zero h)

theorem repB_of_xy {P : (Wb a B).Point} {b : F × F} (h : curveBXY a B P = some b) : RepB2 a B b P := by
  cases P with
  | zero => cases h
  | some x y hxy =>
    simp only [curveBXY, Option.some.injEq] at h
    subst h
    exact ⟨hxy, rfl⟩

theorem xy_of_repB {P : (Wb a B).Point} {b : F × F} (h : RepB2 a B b P) : curveBXY a B P = some b := by
  obtain ⟨hns, rfl⟩ := h
  rfl

theorem ofXYB_xy (P : (Wb a B).Point) (x y : F) (h : curveBXY a B P = some (x, y)) :
    curveBOfXY a B x y = some P := by
  obtain ⟨hns, rfl⟩ := repB_of_xy h
  unfold curveBOfXY
  rw [dif_pos hns]

theorem xyB_ofXY (x y : F) (P : (Wb a B).Point) (h : curveBOfXY a B x y = some P) :
    curveBXY a B P = some (x, y) := by
  unfold curveBOfXY at h
  split at h
  · rw [← Option.some.inj h]; rfl
  · cases h

theorem resultB_eq {r : Option (F × F)} {S : (Wb a B).Point}
    (h0 : r = none ↔ S = 0) (h1 : ∀ b, r = some b → RepB2 a B b S) : r = curveBXY a B S := by
  cases r with
  | none => exact ((xyB_none S).2 (h0.1 rfl)).symm
  | some b => exact (xy_of_repB (h1 b rfl)).symm

variable {f : FOps F} {A : Bool} {n : Nat} {base : (Wb (bitF F A) B).Point}

/-- the group part of `DLaws` for the real binary curve: only "n is a prime > 2 and the order of the base
point" and the clauses about the octet code of field elements remain -/
theorem dLaws (hn : Nat.Prime n) (hord : ∀ k : Nat, k • base = 0 ↔ n ∣ k) (hn2 : 2 < n)
    (henc : ∀ x : F, f.ofNat (f.toNat x) = some x) (hlt : ∀ x : F, f.toNat x < 2 ^ f.m) (hm : 0 < f.m) :
    DLaws (mathlibDstu f A B n base) where
  zero_eq := rfl
  add_eq := fun _ _ => rfl
  neg_eq := fun _ => rfl
  smul_eq := fun _ _ => rfl
  n_prime := hn
  order := hord
  xy_none := xyB_none
  ofXY_xy := ofXYB_xy
  xy_ofXY := xyB_ofXY
  n_big := hn2
  enc_dec := henc
  toNat_lt := hlt
  m_pos := hm

/-- `DCurveLaws` for the real binary curve: the equation, and the doubling formula from C06's `addB_tangent`
(Mathlib's tangent addition in the shape of ec2.c) -/
theorem dCurveLaws [CharP F 2] (hodd : n % 2 = 1) : DCurveLaws (mathlibDstu f A B n base) where
  on_curve := by
    intro P x y h
    obtain ⟨hns, -⟩ := repB_of_xy h
    have he := ((Wb_nonsingular _ _ _ _).1 hns).1
    show y * y + x * y = x * x * x + (if A then x * x else 0) + B
    cases A
    · simp only [bitF, Bool.false_eq_true, if_false] at he ⊢
      linear_combination he
    · simp only [bitF, if_true] at he ⊢
      linear_combination he
  dbl_x := by
    intro P x y x' y' h h'
    obtain ⟨hns, rfl⟩ := repB_of_xy h
    by_cases hx : x = 0
    · exfalso
      subst hx
      rw [addB_order2 hns] at h'
      cases h'
    · have hr := addB_tangent hns hx
      have := xy_of_repB hr
      rw [show (mathlibDstu f A B n base).xy = curveBXY (bitF F A) B from rfl, this] at h'
      simp only [Option.some.injEq, Prod.mk.injEq] at h'
      show x' = (x + y / x) * (x + y / x) + (x + y / x) + (if A then 1 else 0)
      rw [← h'.1]
      unfold bitF
      ring
  n_odd := hodd

end binary
end Bee2V.C16.Br

/-! ### a toy binary instance: y² + xy = x³ + x² + 1 over GF(8), base point (3, 3) of order 7 -/

namespace Bee2V.C16.Br
open WeierstrassCurve Bee2V.C06 Bee2V.C16

instance gf8CharP : CharP Fld.GF8 2 :=
  CharTwo.of_one_ne_zero_of_two_eq_zero (by decide) (by rw [← one_add_one_eq_two]; exact Fld.gf8_laws.char2 1)

theorem gf8Ns (x y : Fld.GF8) (h : y ^ 2 + x * y = x ^ 3 + bitF Fld.GF8 true * x ^ 2 + 1) (hx : x ≠ 0) :
    (Wb (bitF Fld.GF8 true) (1 : Fld.GF8)).Nonsingular x y :=
  (Wb_nonsingular _ _ _ _).2 ⟨h, Or.inr hx⟩

theorem gf8P_ns : (Wb (bitF Fld.GF8 true) (1 : Fld.GF8)).Nonsingular ⟨3⟩ ⟨3⟩ :=
  gf8Ns _ _ (by decide +kernel) (by decide)

noncomputable def gf8P : (Wb (bitF Fld.GF8 true) (1 : Fld.GF8)).Point := .some _ _ gf8P_ns

/-- 7 • (3, 3) = O read off the run of the model of `ecHasOrderA` over the table of `ec2CreateLD` -/
theorem gf8P_order (k : Nat) : k • gf8P = 0 ↔ 7 ∣ k :=
  order_of_prime (by decide) (Affine.Point.some_ne_zero _)
    ((ecHasOrderA_curveB (A := bitF Fld.GF8 true) (B := (1 : Fld.GF8)) (a := (⟨3⟩, ⟨3⟩)) ⟨gf8P_ns, rfl⟩ 64 1 7).1
      (by decide +kernel)) k

end Bee2V.C16.Br

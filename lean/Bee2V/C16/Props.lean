/-
C16 — property theorems about the INSTANCES used by the correspondence run: the numeric hypotheses of
the Laws structures (LawsSig / LawsField / PropsPfok) hold for every standard parameter set regenerated
from the C sources, and the single Montgomery constant of pfok.  The scheme theorems themselves are in
PropsB96, PropsG12, PropsDstuSig, PropsDstuPoint, PropsPfok, PropsDstuSub (subgroup ⇒ trace, round trip for group
elements) and PropsC06 (the laws discharged by Mathlib's curve groups, bridges to the C06 theorems about ec.c).
-/
import Bee2V.C16.Inst
import Bee2V.C16.PropsB96
import Bee2V.C16.PropsG12
import Bee2V.C16.PropsDstuSig
import Bee2V.C16.PropsDstuPoint
import Bee2V.C16.PropsPfok
import Bee2V.C16.ToySig
import Bee2V.C16.PropsDstuSub
import Bee2V.C16.PropsC06
namespace Bee2V.C16
open Bee2V.Gen

/-- every pfok function of the model (keypairGen, pubkeyCalc, dh, mti) goes through `Pfok.mulM`, whose
only constant is `rinv = 2^(-lR) mod p`; the instance sets `lR = l + 2` — the value all five
`zmMontCreate(qr, params->p, no, params->l + 2, stack)` calls of pfok.c pass — once, for all of them -/
theorem pfok_single_constant (s : C16Params.Pfok) : (pfokCtx s).lR = s.l + 2 := rfl

/-- bign-curve96v1: 2^191 < q < 2^192 (so a 24-octet hash is reduced by ONE subtraction of q), q odd -/
theorem b96_std_q_range : 2 ^ 191 < C16Params.b96.q ∧ C16Params.b96.q < 2 ^ 192 ∧ C16Params.b96.q % 2 = 1 ∧ b96Ctx.q = C16Params.b96.q :=
  ⟨by decide +kernel, by decide +kernel, by decide +kernel, rfl⟩

/-- g12s standard sets: l ∈ {256, 512}, q < 2^l, 2 < q, the field needs at most `no` octets -/
theorem g12_std_ranges : ∀ s ∈ C16Params.g12.toList,
    (s.l = 256 ∨ s.l = 512) ∧ s.q < 2 ^ s.l ∧ 2 < s.q ∧ s.p < 2 ^ (8 * s.no) := by decide +kernel

/-- dstu standard curves: the extension degree is odd (gf2QSolve's half-trace needs it), A ∈ {0, 1},
the order has more than 160 bits and fits the field size -/
theorem dstu_std_ranges : ∀ s ∈ C16Params.dstu.toList,
    s.m % 2 = 1 ∧ s.A ≤ 1 ∧ 2 ^ 160 < s.n ∧ s.n < 2 ^ s.m ∧ s.B < 2 ^ s.m := by decide +kernel

/-- pfok standard sets: p is odd with exactly l bits, 0 < g < p, (l, r) is a row of the table -/
theorem pfok_std_ranges : ∀ s ∈ C16Params.pfok.toList,
    s.p % 2 = 1 ∧ 2 ^ (s.l - 1) < s.p ∧ s.p < 2 ^ s.l ∧ 0 < s.g ∧ s.g < s.p ∧ (s.l, s.r) ∈ C16Params.pfokLR ∧ s.n < s.l := by decide +kernel

example : C16Params.g12.size = 8 ∧ C16Params.dstu.size = 10 ∧ C16Params.pfok.size = 4 := by decide

end Bee2V.C16

/-
C16 ∘ C06 — the group-law hypotheses of the bign96 / g12s theorems discharged by the REAL elliptic-curve group,
and the abstract operations of the C16 contexts tied to what C06 proved about the library's scalar
multiplication code.

* `mathlib_ELaws` / `mathlib_B96Laws` / `mathlib_G12Laws`: for `mathlibECtx` (InstC06.lean: Mathlib's group of
  nonsingular points of y² = x³ + A x + B over `ZMod p`, coordinates = canonical residues) every clause of
  `ELaws` is a theorem except "q is prime and is the order of the base point"; the rest are size bounds.
* `c06_ecMulA_bridge`, `c06_ecHasOrderA_bridge`, `c06_ecAddMulA2_bridge`: the values `E.xy (E.smul d P)` and
  `E.xy (E.add (E.smul a G) (E.smul b Q))` that the C16 models read ARE the outputs of C06's models of ec.c's
  window-NAF `ecMulA` / `ecAddMulA` run over the function table of `ecpCreateJ` on reduced naturals
  (`ecOps (mkCurve (natFld p) A B)`, what `drv_c06` executes), for every word size W and length m.
* `g12_verify_exact_curve`, `b96_sign_complete_curve`: end-to-end statements without group-law hypotheses.
* binary curves (dstu): `mathlib_DLaws`, `mathlib_DCurveLaws` for Mathlib's group of y² + xy = x³ + A x² + B over a
  field of characteristic 2 (`mathlibDstu`), bridges `…_bridgeB` to `ecMulA` / `ecAddMulA` over the table of
  `ec2CreateLD` (C06 stage 2: over the field itself — C06 has no simulation theorem for the word-level gf2
  arithmetic), and `subgroup_trace_curve` / `subgroup_recover_compress_curve`: the theorems of PropsDstuSub
  with `DCurveLaws` DISCHARGED.
-/
import Bee2V.C16.LemmasC06
import Bee2V.C16.PropsG12
import Bee2V.C16.PropsB96
import Bee2V.C16.PropsDstuSub
import Bee2V.C16.PropsDstuSig
namespace Bee2V.C16
open WeierstrassCurve Bee2V.C06

/-! ### B1. the laws for the real curve group -/

section laws
variable (p : Nat) [Fact p.Prime] (A B : ZMod p) (q : Nat) (base : (Wc A B).Point)

/-- of `ELaws` only "q is prime and is the order of the base point" remains a hypothesis -/
theorem mathlib_ELaws (hq : Nat.Prime q) (hord : ∀ n : Nat, n • base = 0 ↔ q ∣ n) :
    ELaws (mathlibECtx p A B q base) :=
  Br.eLaws hq hord

/-- bign96 over the real curve: what remains are the sizes (q has 192 bits, p fits into 24 octets,
belt-hash returns 32 octets) -/
theorem mathlib_B96Laws (oidOk : Bytes → Bool) (hash : Bytes → Bytes) (b32 : Bytes → Nat → Bytes → Bytes)
    (hq : Nat.Prime q) (hord : ∀ n : Nat, n • base = 0 ↔ q ∣ n)
    (hq_lo : 2 ^ 191 < q) (hq_hi : q < 2 ^ 192) (hp : p ≤ 2 ^ 192) (hhash : ∀ m, (hash m).length = 32) :
    B96Laws (mathlibB96 p A B q base oidOk hash b32) where
  toELaws := Br.eLaws hq hord
  q_lo := hq_lo
  q_hi := hq_hi
  xy_lt := fun _ _ _ h => by
    have := Br.xy_lt (p := p) (A := A) (B := B) h
    omega
  hash_len := hhash

/-- g12s over the real curve: what remains are the sizes (l a positive multiple of 8, 2 < q < 2^l, p fits
into `no` octets) -/
theorem mathlib_G12Laws (l no : Nat) (hq : Nat.Prime q) (hord : ∀ n : Nat, n • base = 0 ↔ q ∣ n)
    (hl8 : l % 8 = 0) (hl0 : 0 < l) (hq_hi : q < 2 ^ l) (hq_lo : 2 < q) (hp : p ≤ 2 ^ (8 * no)) :
    G12Laws (mathlibG12 p A B q base l no) where
  toELaws := Br.eLaws hq hord
  l_mod := hl8
  l_pos := hl0
  q_hi := hq_hi
  q_lo := hq_lo
  xy_lt := fun _ _ _ h => by
    have := Br.xy_lt (p := p) (A := A) (B := B) h
    have e : (mathlibG12 p A B q base l no).no = no := rfl
    rw [e]
    omega

end laws

/-! ### B2. bridges to the C06 models of ec.c over the table of `ecpCreateJ` -/

section bridge
variable (p : Nat) [Fact p.Prime] (hp2 : p ≠ 2) {A B : Nat} (hA : A < p) (hB : B < p)
  (q : Nat) (base : (Wc (A : ZMod p) (B : ZMod p)).Point)
include hp2 hA hB

/-- `ecMulA` on the reduced coordinates (x, y) of the nonsingular point P, scalar d, any word size and
length: its result (FALSE = `none`) is `xy (d • P)` of the C16 context -/
theorem c06_ecMulA_bridge {x y : Nat} (hx : x < p) (hy : y < p)
    (hns : (Wc (A : ZMod p) (B : ZMod p)).Nonsingular (x : ZMod p) (y : ZMod p)) (W m d : Nat) :
    ecMulA (ecOps (mkCurve (natFld p) A B)) W (x, y) d m =
      (mathlibECtx p (A : ZMod p) (B : ZMod p) q base).xy
        ((mathlibECtx p (A : ZMod p) (B : ZMod p) q base).smul d (Affine.Point.some _ _ hns)) := by
  have h := ecMulA_spec (ecOps_nat_correct p hp2 hA hB)
    (Br.rep_of_xy (Br.xy_of_some (A := (A : ZMod p)) (B := (B : ZMod p)) hx hy hns)) W m d
  exact Br.result_eq h.1 h.2

/-- the same for any group element P given through its coordinates in the C16 context (e.g. `base`) -/
theorem c06_ecMulA_bridge_xy {P : (Wc (A : ZMod p) (B : ZMod p)).Point} {x y : Nat}
    (hP : (mathlibECtx p (A : ZMod p) (B : ZMod p) q base).xy P = some (x, y)) (W m d : Nat) :
    ecMulA (ecOps (mkCurve (natFld p) A B)) W (x, y) d m =
      (mathlibECtx p (A : ZMod p) (B : ZMod p) q base).xy
        ((mathlibECtx p (A : ZMod p) (B : ZMod p) q base).smul d P) := by
  have h := ecMulA_spec (ecOps_nat_correct p hp2 hA hB) (Br.rep_of_xy hP) W m d
  exact Br.result_eq h.1 h.2

/-- `ecHasOrderA(P, n)` is the test `xy (n • P) = none` of the models (`Dstu.hasOrder` has this form) -/
theorem c06_ecHasOrderA_bridge {P : (Wc (A : ZMod p) (B : ZMod p)).Point} {x y : Nat}
    (hP : (mathlibECtx p (A : ZMod p) (B : ZMod p) q base).xy P = some (x, y)) (W m n : Nat) :
    ecHasOrderA (ecOps (mkCurve (natFld p) A B)) W (x, y) n m =
      ((mathlibECtx p (A : ZMod p) (B : ZMod p) q base).xy
        ((mathlibECtx p (A : ZMod p) (B : ZMod p) q base).smul n P)).isNone := by
  unfold ecHasOrderA
  rw [c06_ecMulA_bridge_xy p hp2 hA hB q base hP]

/-- `ecAddMulA(.., 2, G, a, Q, b)` is `xy (a • G + b • Q)` of the C16 context (bign96Verify, g12sVerify) -/
theorem c06_ecAddMulA2_bridge {G Q : (Wc (A : ZMod p) (B : ZMod p)).Point} {xG yG xQ yQ : Nat}
    (hG : (mathlibECtx p (A : ZMod p) (B : ZMod p) q base).xy G = some (xG, yG))
    (hQ : (mathlibECtx p (A : ZMod p) (B : ZMod p) q base).xy Q = some (xQ, yQ)) (W a b : Nat) :
    ecAddMulA (ecOps (mkCurve (natFld p) A B)) W [((xG, yG), a), ((xQ, yQ), b)] =
      (mathlibECtx p (A : ZMod p) (B : ZMod p) q base).xy
        ((mathlibECtx p (A : ZMod p) (B : ZMod p) q base).add
          ((mathlibECtx p (A : ZMod p) (B : ZMod p) q base).smul a G)
          ((mathlibECtx p (A : ZMod p) (B : ZMod p) q base).smul b Q)) := by
  have h := ecAddMulA_nat p hp2 hA hB [((xG, yG), a), ((xQ, yQ), b)] [G, Q]
    (List.Forall₂.cons (Br.rep_of_xy hG) (List.Forall₂.cons (Br.rep_of_xy hQ) List.Forall₂.nil)) W
  simp only [List.zipWith_cons_cons, List.zipWith_nil_right, List.sum_cons, List.sum_nil, add_zero] at h
  exact Br.result_eq h.1 h.2

/-- any number of summands -/
theorem c06_ecAddMulA_bridge (args : List ((Nat × Nat) × Nat))
    (Ps : List (Wc (A : ZMod p) (B : ZMod p)).Point)
    (h : List.Forall₂ (fun ad P => (mathlibECtx p (A : ZMod p) (B : ZMod p) q base).xy P = some ad.1) args Ps)
    (W : Nat) :
    ecAddMulA (ecOps (mkCurve (natFld p) A B)) W args =
      (mathlibECtx p (A : ZMod p) (B : ZMod p) q base).xy
        (List.zipWith (fun ad P => ad.2 • P) args Ps).sum := by
  have h' := ecAddMulA_nat p hp2 hA hB args Ps (h.imp fun _ _ hxy => Br.rep_of_xy hxy) W
  exact Br.result_eq h'.1 h'.2

/-! ### B3. end to end -/

/-- the acceptance set of g12sVerify on the real curve, in terms of the library's `ecAddMulA`: the public
key is a pair of residues on the curve, 0 < r, s < q, and with v = e⁻¹ mod q the call
`ecAddMulA(R, ec, 2, G, s v mod q, Q, -(v r) mod q)` (as modelled and verified in C06, any word size)
returns TRUE with `x_R mod q = r`.  The only hypotheses about the group: q is prime and is the order of G. -/
theorem g12_verify_exact_curve (l no : Nat) (hq : Nat.Prime q) (hord : ∀ n : Nat, n • base = 0 ↔ q ∣ n)
    (hl8 : l % 8 = 0) (hl0 : 0 < l) (hq_hi : q < 2 ^ l) (hq_lo : 2 < q) (hp : p ≤ 2 ^ (8 * no))
    {xG yG : Nat} (hG : (mathlibECtx p (A : ZMod p) (B : ZMod p) q base).xy base = some (xG, yG))
    (W : Nat) (Hb sig pub : Bytes) :
    (mathlibG12 p (A : ZMod p) (B : ZMod p) q base l no).verify Hb sig pub = .ok ↔
      (leNat (pub.take no) < p ∧ leNat (pub.drop no) < p ∧
        (Wc (A : ZMod p) (B : ZMod p)).Nonsingular (leNat (pub.take no) : ZMod p) (leNat (pub.drop no) : ZMod p)) ∧
      0 < beNat (sig.take (l / 8)) ∧ beNat (sig.take (l / 8)) < q ∧
      0 < beNat (sig.drop (l / 8)) ∧ beNat (sig.drop (l / 8)) < q ∧
      ∃ v x y, v < q ∧
        (v * (mathlibG12 p (A : ZMod p) (B : ZMod p) q base l no).hashE Hb) % q = 1 ∧
        ecAddMulA (ecOps (mkCurve (natFld p) A B)) W
          [((xG, yG), (beNat (sig.drop (l / 8)) * v) % q),
           ((leNat (pub.take no), leNat (pub.drop no)), (q - (v * beNat (sig.take (l / 8))) % q) % q)]
          = some (x, y) ∧
        x % q = beNat (sig.take (l / 8)) := by
  rw [g12_verify_exact (mathlib_G12Laws p _ _ q base l no hq hord hl8 hl0 hq_hi hq_lo hp)]
  have eload : (mathlibG12 p (A : ZMod p) (B : ZMod p) q base l no).loadPub pub =
      curveOfXY p (A : ZMod p) (B : ZMod p) (leNat (pub.take no)) (leNat (pub.drop no)) := rfl
  have emo : (mathlibG12 p (A : ZMod p) (B : ZMod p) q base l no).mo = l / 8 := rfl
  have eq' : (mathlibG12 p (A : ZMod p) (B : ZMod p) q base l no).q = q := rfl
  rw [eload, emo, eq']
  constructor
  · rintro ⟨Q, hQ, h1, h2, h3, h4, v, x, y, hv, hve, hxy, hx⟩
    obtain ⟨hxp, hyp, hns, _⟩ := Br.ofXY_some hQ
    refine ⟨⟨hxp, hyp, hns⟩, h1, h2, h3, h4, v, x, y, hv, hve, ?_, hx⟩
    rw [c06_ecAddMulA2_bridge p hp2 hA hB q base hG (Br.xy_ofXY _ _ _ hQ)]
    exact hxy
  · rintro ⟨⟨hxp, hyp, hns⟩, h1, h2, h3, h4, v, x, y, hv, hve, hxy, hx⟩
    have hQ : curveOfXY p (A : ZMod p) (B : ZMod p) (leNat (pub.take no)) (leNat (pub.drop no)) =
        some (Affine.Point.some _ _ hns) := by
      unfold curveOfXY
      rw [dif_pos ⟨hxp, hyp, hns⟩]
    refine ⟨_, hQ, h1, h2, h3, h4, v, x, y, hv, hve, ?_, hx⟩
    rw [c06_ecAddMulA2_bridge p hp2 hA hB q base hG (Br.xy_ofXY _ _ _ hQ)] at hxy
    exact hxy

omit hp2 hA hB in
/-- bign96Sign is complete on the real curve: no hypothesis about the group beyond "q is prime and is the order
of the base point" -/
theorem b96_sign_complete_curve (oidOk : Bytes → Bool) (hash : Bytes → Bytes)
    (b32 : Bytes → Nat → Bytes → Bytes)
    (hq : Nat.Prime q) (hord : ∀ n : Nat, n • base = 0 ↔ q ∣ n)
    (hq_lo : 2 ^ 191 < q) (hq_hi : q < 2 ^ 192) (hp : p ≤ 2 ^ 192) (hhash : ∀ m, (hash m).length = 32)
    {oid Hb priv tape sig pub : Bytes} {used : Nat} (hH : Hb.length = 24)
    (hs : (mathlibB96 p (A : ZMod p) (B : ZMod p) q base oidOk hash b32).sign oid Hb priv tape = (.ok, sig, used))
    (hpk : (mathlibB96 p (A : ZMod p) (B : ZMod p) q base oidOk hash b32).pubkeyCalc priv = (.ok, pub)) :
    (mathlibB96 p (A : ZMod p) (B : ZMod p) q base oidOk hash b32).verify oid Hb sig pub = .ok :=
  b96_sign_complete (mathlib_B96Laws p _ _ q base oidOk hash b32 hq hord hq_lo hq_hi hp hhash) hH hs hpk

/-- the public key that bign96PubkeyCalc / g12sKeypairGen store is what the library's `ecMulA(Q, G, d)`
returns -/
theorem g12_keygen_curve (l no : Nat) {xG yG : Nat}
    (hG : (mathlibECtx p (A : ZMod p) (B : ZMod p) q base).xy base = some (xG, yG)) (W m : Nat)
    (tape : Bytes) :
    (mathlibG12 p (A : ZMod p) (B : ZMod p) q base l no).keypairGen tape =
      match randNZMod q tape with
      | (none, _, used) => (.badRng, [], used)
      | (some d, _, used) =>
        match ecMulA (ecOps (mkCurve (natFld p) A B)) W (xG, yG) d m with
        | some Q => (.ok, natLE (l / 8) d ++ (natLE no Q.1 ++ natLE no Q.2), used)
        | none => (.badParams, [], used) := by
  unfold G12.keypairGen
  have eq' : (mathlibG12 p (A : ZMod p) (B : ZMod p) q base l no).q = q := rfl
  rw [eq']
  rcases h : randNZMod q tape with ⟨_ | d, rest, used⟩
  · rfl
  · simp only []
    rw [c06_ecMulA_bridge_xy p hp2 hA hB q base hG W m d]
    rfl

end bridge

/-! ### B4. binary curves: the group part of `DLaws` and `DCurveLaws` for the real group -/

section binaryB
variable {F : Type} [Field F] [DecidableEq F] (f : FOps F) (A : Bool) (B : F) (n : Nat)
  (base : (Wb (bitF F A) B).Point)

/-- of `DLaws` only "n is a prime > 2 and the order of the base point" and the clauses about the octet code
remain (the latter follow from `FLaws f`) -/
theorem mathlib_DLaws (hn : Nat.Prime n) (hord : ∀ k : Nat, k • base = 0 ↔ n ∣ k) (hn2 : 2 < n)
    (henc : ∀ x : F, f.ofNat (f.toNat x) = some x) (hlt : ∀ x : F, f.toNat x < 2 ^ f.m) (hm : 0 < f.m) :
    DLaws (mathlibDstu f A B n base) :=
  Br.dLaws hn hord hn2 henc hlt hm

/-- `DCurveLaws` (LemmasDstuSub.lean) holds for the real curve: the equation is the definition of the points
and the doubling formula is Mathlib's tangent addition (C06 `addB_tangent`) -/
theorem mathlib_DCurveLaws [CharP F 2] (hodd : n % 2 = 1) : DCurveLaws (mathlibDstu f A B n base) :=
  Br.dCurveLaws hodd

/-- `ecMulA` over the table of `ec2CreateLD` returns `xy (d • P)` of the dstu context -/
theorem c06_ecMulA_bridgeB [CharP F 2] {P : (Wb (bitF F A) B).Point} {x y : F}
    (hP : (mathlibDstu f A B n base).xy P = some (x, y)) (W m d : Nat) :
    ecMulA (ecOps2 (curveB (bitF F A) B)) W (x, y) d m =
      (mathlibDstu f A B n base).xy ((mathlibDstu f A B n base).smul d P) := by
  have h := ecMulA_curveB (Br.repB_of_xy hP) W m d
  exact Br.resultB_eq h.1 h.2

/-- `Dstu.hasOrder` (dstuPointVal, dstuPointGen) IS the library's `ecHasOrderA(P, ec, ec->order, m)` -/
theorem c06_ecHasOrderA_bridgeB [CharP F 2] {P : (Wb (bitF F A) B).Point} {x y : F}
    (hP : (mathlibDstu f A B n base).xy P = some (x, y)) (W m : Nat) :
    ecHasOrderA (ecOps2 (curveB (bitF F A) B)) W (x, y) n m = (mathlibDstu f A B n base).hasOrder P := by
  unfold ecHasOrderA Dstu.hasOrder
  rw [c06_ecMulA_bridgeB f A B n base hP]
  rfl

/-- `ecAddMulA(.., 2, P, s, Q, r)` is `xy (s • P + r • Q)` of the dstu context (dstuVerify) -/
theorem c06_ecAddMulA2_bridgeB [CharP F 2] {G Q : (Wb (bitF F A) B).Point} {xG yG xQ yQ : F}
    (hG : (mathlibDstu f A B n base).xy G = some (xG, yG))
    (hQ : (mathlibDstu f A B n base).xy Q = some (xQ, yQ)) (W a b : Nat) :
    ecAddMulA (ecOps2 (curveB (bitF F A) B)) W [((xG, yG), a), ((xQ, yQ), b)] =
      (mathlibDstu f A B n base).xy
        ((mathlibDstu f A B n base).add ((mathlibDstu f A B n base).smul a G)
          ((mathlibDstu f A B n base).smul b Q)) := by
  have h := ecAddMulA_curveB [((xG, yG), a), ((xQ, yQ), b)] [G, Q]
    (List.Forall₂.cons (Br.repB_of_xy hG) (List.Forall₂.cons (Br.repB_of_xy hQ) List.Forall₂.nil)) W
  simp only [List.zipWith_cons_cons, List.zipWith_nil_right, List.sum_cons, List.sum_nil, add_zero] at h
  exact Br.resultB_eq h.1 h.2

/-- A1 for the REAL group of the binary curve: every point of the subgroup generated by the base point of prime
order n > 2 (indeed every point killed by n) has Tr(x) = A.  No hypothesis about the curve is left:
`FLaws f` says that `f` computes in the field F = GF(2^m), m odd. -/
theorem subgroup_trace_curve [CharP F 2] (FL : FLaws f) (hn : Nat.Prime n) (hn2 : 2 < n)
    (hord : ∀ k : Nat, k • base = 0 ↔ n ∣ k) (P : (Wb (bitF F A) B).Point) (x y : F)
    (hP : n • P = 0) (hxy : (mathlibDstu f A B n base).xy P = some (x, y)) :
    f.tr x = A :=
  subgroup_trace (mathlibDstu f A B n base)
    (mathlib_DLaws f A B n base hn hord hn2 FL.enc_dec FL.toNat_lt (by have := FL.m_odd; omega)) FL
    (mathlib_DCurveLaws f A B n base (by rcases hn.eq_two_or_odd with h | h <;> omega)) P x y hP hxy

/-- A2 for the real group: Recover ∘ Compress on the points of the subgroup -/
theorem subgroup_recover_compress_curve [CharP F 2] (FL : FLaws f) (hn : Nat.Prime n) (hn2 : 2 < n)
    (hord : ∀ k : Nat, k • base = 0 ↔ n ∣ k) (P : (Wb (bitF F A) B).Point) (x y : F)
    (hP : n • P = 0) (hxy : (mathlibDstu f A B n base).xy P = some (x, y)) :
    (x = 1 ∧ f.tr y = false ∧
      (mathlibDstu f A B n base).compress ((mathlibDstu f A B n base).encXY (x, y)) = (.badPoint, [])) ∨
    (∃ xp, (mathlibDstu f A B n base).compress ((mathlibDstu f A B n base).encXY (x, y)) = (.ok, xp) ∧
      xp.length = (mathlibDstu f A B n base).no ∧
      (mathlibDstu f A B n base).recover xp = (.ok, (mathlibDstu f A B n base).encXY (x, y))) :=
  subgroup_recover_compress (mathlibDstu f A B n base)
    (mathlib_DLaws f A B n base hn hord hn2 FL.enc_dec FL.toNat_lt (by have := FL.m_odd; omega)) FL
    (mathlib_DCurveLaws f A B n base (by rcases hn.eq_two_or_odd with h | h <;> omega)) P x y hP hxy

/-- the acceptance set of dstuVerify on the real binary curve in terms of the library's `ecAddMulA`: no
hypothesis about the group beyond "n is a prime > 2 and the order of the base point" -/
theorem dstu_verify_exact_curve [CharP F 2] (FL : FLaws f) (hn : Nat.Prime n) (hn2 : 2 < n)
    (hord : ∀ k : Nat, k • base = 0 ↔ n ∣ k) {xG yG : F}
    (hG : (mathlibDstu f A B n base).xy base = some (xG, yG)) (W ld : Nat) (Hb sig pub : Bytes) :
    (mathlibDstu f A B n base).verify ld Hb sig pub = .ok ↔
      ld % 16 = 0 ∧ 16 * (mathlibDstu f A B n base).oo ≤ ld ∧
      ∃ xq yq h, (mathlibDstu f A B n base).loadXY pub = some (xq, yq) ∧
        (Wb (bitF F A) B).Nonsingular xq yq ∧ (mathlibDstu f A B n base).hashF Hb = some h ∧
        (∀ b ∈ (sig.take (ld / 16)).drop (mathlibDstu f A B n base).oo, b = 0) ∧
        (∀ b ∈ (sig.drop (ld / 16)).drop (mathlibDstu f A B n base).oo, b = 0) ∧
        0 < leNat (sig.take (mathlibDstu f A B n base).oo) ∧
        leNat (sig.take (mathlibDstu f A B n base).oo) < n ∧
        0 < leNat ((sig.drop (ld / 16)).take (mathlibDstu f A B n base).oo) ∧
        leNat ((sig.drop (ld / 16)).take (mathlibDstu f A B n base).oo) < n ∧
        ∃ x y, ecAddMulA (ecOps2 (curveB (bitF F A) B)) W
            [((xG, yG), leNat ((sig.drop (ld / 16)).take (mathlibDstu f A B n base).oo)),
             ((xq, yq), leNat (sig.take (mathlibDstu f A B n base).oo))] = some (x, y) ∧
          leNat (sig.take (mathlibDstu f A B n base).oo) = (mathlibDstu f A B n base).truncR h x := by
  rw [dstu_verify_exact
    (mathlib_DLaws f A B n base hn hord hn2 FL.enc_dec FL.toNat_lt (by have := FL.m_odd; omega))]
  constructor
  · rintro ⟨h1, h2, xq, yq, Q, h, hl, hQ, hh, hp1, hp2, hr0, hr, hs0, hs, x, y, hxy, hx⟩
    have hQxy := Br.xyB_ofXY _ _ _ hQ
    obtain ⟨hns, -⟩ := Br.repB_of_xy hQxy
    refine ⟨h1, h2, xq, yq, h, hl, hns, hh, hp1, hp2, hr0, hr, hs0, hs, x, y, ?_, hx⟩
    rw [c06_ecAddMulA2_bridgeB f A B n base hG hQxy]
    exact hxy
  · rintro ⟨h1, h2, xq, yq, h, hl, hns, hh, hp1, hp2, hr0, hr, hs0, hs, x, y, hxy, hx⟩
    have hQ : (mathlibDstu f A B n base).ofXY xq yq = some (Affine.Point.some _ _ hns) := by
      show curveBOfXY (bitF F A) B xq yq = _
      unfold curveBOfXY
      rw [dif_pos hns]
    refine ⟨h1, h2, xq, yq, _, h, hl, hQ, hh, hp1, hp2, hr0, hr, hs0, hs, x, y, ?_, hx⟩
    rw [c06_ecAddMulA2_bridgeB f A B n base hG (Br.xyB_ofXY _ _ _ hQ)] at hxy
    exact hxy

end binaryB

/-! ### non-vacuity: y² = x³ + x + 1 over `ZMod 23` (28 points), G = 4·(3, 10) = (17, 3) of order q = 7

`Br.toyG_order` (LemmasC06.lean) obtains "7 • G = O" from C06's `ecHasOrderA_nat` and one evaluation of the
model of `ecHasOrderA`: the order hypothesis of the laws is itself discharged through the bridge. -/

section toy
attribute [local instance] fact_prime_23

example : ELaws (mathlibECtx 23 _ _ 7 Br.toyG) :=
  mathlib_ELaws 23 _ _ 7 Br.toyG (by decide) Br.toyG_order

example : G12Laws (mathlibG12 23 _ _ 7 Br.toyG 8 1) :=
  mathlib_G12Laws 23 _ _ 7 Br.toyG 8 1 (by decide) Br.toyG_order rfl (by decide) (by decide) (by decide)
    (by decide)

/-- `c06_ecMulA_bridge`: 3 • G = (5, 4), read off the run of the `ecMulA` model (64-bit words, m = 1) -/
example : (mathlibECtx 23 _ _ 7 Br.toyG).xy ((mathlibECtx 23 _ _ 7 Br.toyG).smul 3 Br.toyG) = some (5, 4) := by
  rw [show Br.toyG = Affine.Point.some _ _ Br.toyG_ns from rfl,
    ← c06_ecMulA_bridge 23 (by decide) (A := 1) (B := 1) (by decide) (by decide) 7 _ (x := 17) (y := 3)
      (by decide) (by decide) Br.toyG_ns 64 1 3]
  decide +kernel

/-- `c06_ecHasOrderA_bridge` / `c06_ecAddMulA2_bridge` on the same curve: 7 • G = O, 3 • G + 4 • (3 • G) = G -/
example : ((mathlibECtx 23 _ _ 7 Br.toyG).xy ((mathlibECtx 23 _ _ 7 Br.toyG).smul 7 Br.toyG)).isNone = true := by
  rw [← c06_ecHasOrderA_bridge 23 (by decide) (A := 1) (B := 1) (by decide) (by decide) 7 _ Br.toyG_xy 64 1 7]
  decide +kernel

/-- g12sVerify on the real curve group (the model is not executable there: `ofXY` is classical) ACCEPTS the
signature (r, s) = (3, 3) of the hash value 1 under the public key Q = 3 • G = (5, 4): by
`g12_verify_exact_curve` this follows from one run of the `ecAddMulA` model -/
example : (mathlibG12 23 _ _ 7 Br.toyG 8 1).verify [1] [3, 3] [5, 4] = .ok := by
  rw [g12_verify_exact_curve 23 (by decide) (A := 1) (B := 1) (by decide) (by decide) 7 Br.toyG 8 1
    (by decide) Br.toyG_order rfl (by decide) (by decide) (by decide) (by decide) Br.toyG_xy 64]
  refine ⟨⟨by decide, by decide, Br.toyNs 5 4 (by decide) (by decide)⟩, by decide, by decide, by decide,
    by decide, 1, 17, 3, by decide, by decide, by decide +kernel, by decide⟩

/-- … and REJECTS (r, s) = (3, 4) -/
example : (mathlibG12 23 _ _ 7 Br.toyG 8 1).verify [1] [3, 4] [5, 4] ≠ .ok := by
  rw [Ne, g12_verify_exact_curve 23 (by decide) (A := 1) (B := 1) (by decide) (by decide) 7 Br.toyG 8 1
    (by decide) Br.toyG_order rfl (by decide) (by decide) (by decide) (by decide) Br.toyG_xy 64]
  rintro ⟨_, _, _, _, _, v, x, y, hv, hve, hxy, hx⟩
  have hv1 : v = 1 := by
    have : ∀ v < 7, (v * (mathlibG12 23 _ _ 7 Br.toyG 8 1).hashE [1]) % 7 = 1 → v = 1 := by decide
    exact this v hv hve
  subst hv1
  have hrun : ecAddMulA (ecOps (mkCurve (natFld 23) 1 1)) 64 [((17, 3), 4), ((5, 4), 4)] = some (13, 16) := by
    decide +kernel
  have hxy' : ecAddMulA (ecOps (mkCurve (natFld 23) 1 1)) 64 [((17, 3), 4), ((5, 4), 4)] = some (x, y) := hxy
  rw [hrun] at hxy'
  simp only [Option.some.injEq, Prod.mk.injEq] at hxy'
  rw [← hxy'.1] at hx
  revert hx
  decide

/-- `mathlib_B96Laws` / `b96_sign_complete_curve`: a joint instance would need a curve with a 192-bit prime-order
base point (bign96 fixes the size of q) together with a primality proof of its 192-bit p; the hypotheses are
shown satisfiable SEPARATELY: the group hypotheses (q prime, q the order of the base point of a real curve) by
the toy curve above, the size hypotheses by the 192-bit prime of ToySig.lean -/
example : (Nat.Prime 7 ∧ ∀ n : Nat, n • Br.toyG = 0 ↔ 7 ∣ n) ∧
    (Nat.Prime ToySig.toyB96.q ∧ 2 ^ 191 < ToySig.toyB96.q ∧ ToySig.toyB96.q < 2 ^ 192 ∧
      ∀ m, (ToySig.toyB96.hash m).length = 32) :=
  ⟨⟨by decide, Br.toyG_order⟩, ToySig.toyB96Laws.q_prime, ToySig.toyB96Laws.q_lo, ToySig.toyB96Laws.q_hi,
    ToySig.toyB96Laws.hash_len⟩

end toy

/-! ### non-vacuity (binary): y² + xy = x³ + x² + 1 over GF(8), base point (3, 3) of order 7 in MATHLIB's group -/

example : DLaws (mathlibDstu Fld.gf8Ops true 1 7 Br.gf8P) ∧ DCurveLaws (mathlibDstu Fld.gf8Ops true 1 7 Br.gf8P) :=
  ⟨mathlib_DLaws _ _ _ _ _ (by decide) Br.gf8P_order (by decide) Fld.gf8_laws.enc_dec Fld.gf8_laws.toNat_lt
    (by decide), mathlib_DCurveLaws _ _ _ _ _ rfl⟩

/-- 2 • (3, 3) = (7, 7) by the bridge and a run of the `ecMulA` model; `subgroup_trace_curve` applies to it -/
example : (mathlibDstu Fld.gf8Ops true 1 7 Br.gf8P).xy ((2 : Nat) • Br.gf8P) = some (⟨7⟩, ⟨7⟩) ∧
    Fld.gf8Ops.tr (⟨7⟩ : Fld.GF8) = true := by
  have hxy : (mathlibDstu Fld.gf8Ops true 1 7 Br.gf8P).xy ((2 : Nat) • Br.gf8P) = some (⟨7⟩, ⟨7⟩) := by
    have := c06_ecMulA_bridgeB Fld.gf8Ops true 1 7 Br.gf8P (P := Br.gf8P) (x := ⟨3⟩) (y := ⟨3⟩) rfl 64 1 2
    rw [show (mathlibDstu Fld.gf8Ops true 1 7 Br.gf8P).smul 2 Br.gf8P = (2 : Nat) • Br.gf8P from rfl] at this
    rw [← this]
    decide +kernel
  refine ⟨hxy, subgroup_trace_curve Fld.gf8Ops true 1 7 Br.gf8P Fld.gf8_laws (by decide) (by decide)
    Br.gf8P_order _ _ _ ?_ hxy⟩
  rw [← mul_nsmul, (Br.gf8P_order _).2 (by decide)]

end Bee2V.C16

/-
C16 ∘ C06 — the group-law hypotheses of the bign96 / g12s theorems discharged by the REAL elliptic-curve group,
and the abstract operations of the C16 contexts tied to what C06 proved about the library's scalar
multiplication code.

* `mathlib_ELaws` / `mathlib_B96Laws` / `mathlib_G12Laws`: for `mathlibECtx` (InstC06.lean: Mathlib's group of
  nonsingular points of y² = x³ + A x + B over `ZMod p`, coordinates = canonical residues) every clause of
  `ELaws` is a theorem except "q is prime and is the order of the base point"; the rest are size bounds.
* `c06_ecMulA_bridge`, `c06_ecHasOrderA_bridge`, `c06_ecAddMulA2_bridge`: the values `E.xy (E.smul d P)` and
  `E.xy (E.add (E.smul a G) (E.smul b Q))` that the C16 models read ARE the outputs of C06's models of ec.c's
  window-NAF `ecMulA` / `ecAddMulA` run over the function table of `ecpCreateJ` on reduced naturals
  (`ecOps (mkCurve (natFld p) A B)`, what `drv_c06` executes), for every word size W and length m.
* `g12_verify_exact_curve`, `b96_sign_complete_curve`: end-to-end statements without group-law hypotheses.
-/
import Bee2V.C16.LemmasC06
import Bee2V.C16.PropsG12
import Bee2V.C16.PropsB96
namespace Bee2V.C16
open WeierstrassCurve Bee2V.C06

/-! ### B1. the laws for the real curve group -/

section laws
variable (p : Nat) [Fact p.Prime] (A B : ZMod p) (q : Nat) (base : (Wc A B).Point)

/-- of `ELaws` only "q is prime and is the order of the base point" remains a hypothesis -/
theorem mathlib_ELaws (hq : Nat.Prime q) (hord : ∀ n : Nat, n • base = 0 ↔ q ∣ n) :
    ELaws (mathlibECtx p A B q base) :=
  Br.eLaws hq hord

/-- bign96 over the real curve: what remains are the sizes (q has 192 bits, p fits into 24 octets,
belt-hash returns 32 octets) -/
theorem mathlib_B96Laws (oidOk : Bytes → Bool) (hash : Bytes → Bytes) (b32 : Bytes → Nat → Bytes → Bytes)
    (hq : Nat.Prime q) (hord : ∀ n : Nat, n • base = 0 ↔ q ∣ n)
    (hq_lo : 2 ^ 191 < q) (hq_hi : q < 2 ^ 192) (hp : p ≤ 2 ^ 192) (hhash : ∀ m, (hash m).length = 32) :
    B96Laws (mathlibB96 p A B q base oidOk hash b32) where
  toELaws := Br.eLaws hq hord
  q_lo := hq_lo
  q_hi := hq_hi
  xy_lt := fun _ _ _ h => by
    have := Br.xy_lt (p := p) (A := A) (B := B) h
    omega
  hash_len := hhash

/-- g12s over the real curve: what remains are the sizes (l a positive multiple of 8, 2 < q < 2^l, p fits
into `no` octets) -/
theorem mathlib_G12Laws (l no : Nat) (hq : Nat.Prime q) (hord : ∀ n : Nat, n • base = 0 ↔ q ∣ n)
    (hl8 : l % 8 = 0) (hl0 : 0 < l) (hq_hi : q < 2 ^ l) (hq_lo : 2 < q) (hp : p ≤ 2 ^ (8 * no)) :
    G12Laws (mathlibG12 p A B q base l no) where
  toELaws := Br.eLaws hq hord
  l_mod := hl8
  l_pos := hl0
  q_hi := hq_hi
  q_lo := hq_lo
  xy_lt := fun _ _ _ h => by
    have := Br.xy_lt (p := p) (A := A) (B := B) h
    have e : (mathlibG12 p A B q base l no).no = no := rfl
    rw [e]
    omega

end laws

/-! ### B2. bridges to the C06 models of ec.c over the table of `ecpCreateJ` -/

section bridge
variable (p : Nat) [Fact p.Prime] (hp2 : p ≠ 2) {A B : Nat} (hA : A < p) (hB : B < p)
  (q : Nat) (base : (Wc (A : ZMod p) (B : ZMod p)).Point)
include hp2 hA hB

/-- `ecMulA` on the reduced coordinates (x, y) of the nonsingular point P, scalar d, any word size and
length: its result (FALSE = `none`) is `xy (d • P)` of the C16 context -/
theorem c06_ecMulA_bridge {x y : Nat} (hx : x < p) (hy : y < p)
    (hns : (Wc (A : ZMod p) (B : ZMod p)).Nonsingular (x : ZMod p) (y : ZMod p)) (W m d : Nat) :
    ecMulA (ecOps (mkCurve (natFld p) A B)) W (x, y) d m =
      (mathlibECtx p (A : ZMod p) (B : ZMod p) q base).xy
        ((mathlibECtx p (A : ZMod p) (B : ZMod p) q base).smul d (Affine.Point.some _ _ hns)) := by
  have h := ecMulA_spec (ecOps_nat_correct p hp2 hA hB)
    (Br.rep_of_xy (Br.xy_of_some (A := (A : ZMod p)) (B := (B : ZMod p)) hx hy hns)) W m d
  exact Br.result_eq h.1 h.2

/-- the same for any group element P given through its coordinates in the C16 context (e.g. `base`) -/
theorem c06_ecMulA_bridge_xy {P : (Wc (A : ZMod p) (B : ZMod p)).Point} {x y : Nat}
    (hP : (mathlibECtx p (A : ZMod p) (B : ZMod p) q base).xy P = some (x, y)) (W m d : Nat) :
    ecMulA (ecOps (mkCurve (natFld p) A B)) W (x, y) d m =
      (mathlibECtx p (A : ZMod p) (B : ZMod p) q base).xy
        ((mathlibECtx p (A : ZMod p) (B : ZMod p) q base).smul d P) := by
  have h := ecMulA_spec (ecOps_nat_correct p hp2 hA hB) (Br.rep_of_xy hP) W m d
  exact Br.result_eq h.1 h.2

/-- `ecHasOrderA(P, n)` is the test `xy (n • P) = none` of the models (`Dstu.hasOrder` has this form) -/
theorem c06_ecHasOrderA_bridge {P : (Wc (A : ZMod p) (B : ZMod p)).Point} {x y : Nat}
    (hP : (mathlibECtx p (A : ZMod p) (B : ZMod p) q base).xy P = some (x, y)) (W m n : Nat) :
    ecHasOrderA (ecOps (mkCurve (natFld p) A B)) W (x, y) n m =
      ((mathlibECtx p (A : ZMod p) (B : ZMod p) q base).xy
        ((mathlibECtx p (A : ZMod p) (B : ZMod p) q base).smul n P)).isNone := by
  unfold ecHasOrderA
  rw [c06_ecMulA_bridge_xy p hp2 hA hB q base hP]

/-- `ecAddMulA(.., 2, G, a, Q, b)` is `xy (a • G + b • Q)` of the C16 context (bign96Verify, g12sVerify) -/
theorem c06_ecAddMulA2_bridge {G Q : (Wc (A : ZMod p) (B : ZMod p)).Point} {xG yG xQ yQ : Nat}
    (hG : (mathlibECtx p (A : ZMod p) (B : ZMod p) q base).xy G = some (xG, yG))
    (hQ : (mathlibECtx p (A : ZMod p) (B : ZMod p) q base).xy Q = some (xQ, yQ)) (W a b : Nat) :
    ecAddMulA (ecOps (mkCurve (natFld p) A B)) W [((xG, yG), a), ((xQ, yQ), b)] =
      (mathlibECtx p (A : ZMod p) (B : ZMod p) q base).xy
        ((mathlibECtx p (A : ZMod p) (B : ZMod p) q base).add
          ((mathlibECtx p (A : ZMod p) (B : ZMod p) q base).smul a G)
          ((mathlibECtx p (A : ZMod p) (B : ZMod p) q base).smul b Q)) := by
  have h := ecAddMulA_nat p hp2 hA hB [((xG, yG), a), ((xQ, yQ), b)] [G, Q]
    (List.Forall₂.cons (Br.rep_of_xy hG) (List.Forall₂.cons (Br.rep_of_xy hQ) List.Forall₂.nil)) W
  simp only [List.zipWith_cons_cons, List.zipWith_nil_right, List.sum_cons, List.sum_nil, add_zero] at h
  exact Br.result_eq h.1 h.2

/-- any number of summands -/
theorem c06_ecAddMulA_bridge (args : List ((Nat × Nat) × Nat))
    (Ps : List (Wc (A : ZMod p) (B : ZMod p)).Point)
    (h : List.Forall₂ (fun ad P => (mathlibECtx p (A : ZMod p) (B : ZMod p) q base).xy P = some ad.1) args Ps)
    (W : Nat) :
    ecAddMulA (ecOps (mkCurve (natFld p) A B)) W args =
      (mathlibECtx p (A : ZMod p) (B : ZMod p) q base).xy
        (List.zipWith (fun ad P => ad.2 • P) args Ps).sum := by
  have h' := ecAddMulA_nat p hp2 hA hB args Ps (h.imp fun _ _ hxy => Br.rep_of_xy hxy) W
  exact Br.result_eq h'.1 h'.2

/-! ### B3. end to end -/

/-- the acceptance set of g12sVerify on the real curve, in terms of the library's `ecAddMulA`: the public
key is a pair of residues on the curve, 0 < r, s < q, and with v = e⁻¹ mod q the call
`ecAddMulA(R, ec, 2, G, s v mod q, Q, -(v r) mod q)` (as modelled and verified in C06, any word size)
returns TRUE with `x_R mod q = r`.  The only hypotheses about the group: q is prime and is the order of G. -/
theorem g12_verify_exact_curve (l no : Nat) (hq : Nat.Prime q) (hord : ∀ n : Nat, n • base = 0 ↔ q ∣ n)
    (hl8 : l % 8 = 0) (hl0 : 0 < l) (hq_hi : q < 2 ^ l) (hq_lo : 2 < q) (hp : p ≤ 2 ^ (8 * no))
    {xG yG : Nat} (hG : (mathlibECtx p (A : ZMod p) (B : ZMod p) q base).xy base = some (xG, yG))
    (W : Nat) (Hb sig pub : Bytes) :
    (mathlibG12 p (A : ZMod p) (B : ZMod p) q base l no).verify Hb sig pub = .ok ↔
      (leNat (pub.take no) < p ∧ leNat (pub.drop no) < p ∧
        (Wc (A : ZMod p) (B : ZMod p)).Nonsingular (leNat (pub.take no) : ZMod p) (leNat (pub.drop no) : ZMod p)) ∧
      0 < beNat (sig.take (l / 8)) ∧ beNat (sig.take (l / 8)) < q ∧
      0 < beNat (sig.drop (l / 8)) ∧ beNat (sig.drop (l / 8)) < q ∧
      ∃ v x y, v < q ∧
        (v * (mathlibG12 p (A : ZMod p) (B : ZMod p) q base l no).hashE Hb) % q = 1 ∧
        ecAddMulA (ecOps (mkCurve (natFld p) A B)) W
          [((xG, yG), (beNat (sig.drop (l / 8)) * v) % q),
           ((leNat (pub.take no), leNat (pub.drop no)), (q - (v * beNat (sig.take (l / 8))) % q) % q)]
          = some (x, y) ∧
        x % q = beNat (sig.take (l / 8)) := by
  rw [g12_verify_exact (mathlib_G12Laws p _ _ q base l no hq hord hl8 hl0 hq_hi hq_lo hp)]
  have eload : (mathlibG12 p (A : ZMod p) (B : ZMod p) q base l no).loadPub pub =
      curveOfXY p (A : ZMod p) (B : ZMod p) (leNat (pub.take no)) (leNat (pub.drop no)) := rfl
  have emo : (mathlibG12 p (A : ZMod p) (B : ZMod p) q base l no).mo = l / 8 := rfl
  have eq' : (mathlibG12 p (A : ZMod p) (B : ZMod p) q base l no).q = q := rfl
  rw [eload, emo, eq']
  constructor
  · rintro ⟨Q, hQ, h1, h2, h3, h4, v, x, y, hv, hve, hxy, hx⟩
    obtain ⟨hxp, hyp, hns, _⟩ := Br.ofXY_some hQ
    refine ⟨⟨hxp, hyp, hns⟩, h1, h2, h3, h4, v, x, y, hv, hve, ?_, hx⟩
    rw [c06_ecAddMulA2_bridge p hp2 hA hB q base hG (Br.xy_ofXY _ _ _ hQ)]
    exact hxy
  · rintro ⟨⟨hxp, hyp, hns⟩, h1, h2, h3, h4, v, x, y, hv, hve, hxy, hx⟩
    have hQ : curveOfXY p (A : ZMod p) (B : ZMod p) (leNat (pub.take no)) (leNat (pub.drop no)) =
        some (Affine.Point.some _ _ hns) := by
      unfold curveOfXY
      rw [dif_pos ⟨hxp, hyp, hns⟩]
    refine ⟨_, hQ, h1, h2, h3, h4, v, x, y, hv, hve, ?_, hx⟩
    rw [c06_ecAddMulA2_bridge p hp2 hA hB q base hG (Br.xy_ofXY _ _ _ hQ)] at hxy
    exact hxy

omit hp2 hA hB in
/-- bign96Sign is complete on the real curve: no hypothesis about the group beyond "q is prime and is the order
of the base point" -/
theorem b96_sign_complete_curve (oidOk : Bytes → Bool) (hash : Bytes → Bytes)
    (b32 : Bytes → Nat → Bytes → Bytes)
    (hq : Nat.Prime q) (hord : ∀ n : Nat, n • base = 0 ↔ q ∣ n)
    (hq_lo : 2 ^ 191 < q) (hq_hi : q < 2 ^ 192) (hp : p ≤ 2 ^ 192) (hhash : ∀ m, (hash m).length = 32)
    {oid Hb priv tape sig pub : Bytes} {used : Nat} (hH : Hb.length = 24)
    (hs : (mathlibB96 p (A : ZMod p) (B : ZMod p) q base oidOk hash b32).sign oid Hb priv tape = (.ok, sig, used))
    (hpk : (mathlibB96 p (A : ZMod p) (B : ZMod p) q base oidOk hash b32).pubkeyCalc priv = (.ok, pub)) :
    (mathlibB96 p (A : ZMod p) (B : ZMod p) q base oidOk hash b32).verify oid Hb sig pub = .ok :=
  b96_sign_complete (mathlib_B96Laws p _ _ q base oidOk hash b32 hq hord hq_lo hq_hi hp hhash) hH hs hpk

/-- the public key that bign96PubkeyCalc / g12sKeypairGen store is what the library's `ecMulA(Q, G, d)`
returns -/
theorem g12_keygen_curve (l no : Nat) {xG yG : Nat}
    (hG : (mathlibECtx p (A : ZMod p) (B : ZMod p) q base).xy base = some (xG, yG)) (W m : Nat)
    (tape : Bytes) :
    (mathlibG12 p (A : ZMod p) (B : ZMod p) q base l no).keypairGen tape =
      match randNZMod q tape with
      | (none, _, used) => (.badRng, [], used)
      | (some d, _, used) =>
        match ecMulA (ecOps (mkCurve (natFld p) A B)) W (xG, yG) d m with
        | some Q => (.ok, natLE (l / 8) d ++ (natLE no Q.1 ++ natLE no Q.2), used)
        | none => (.badParams, [], used) := by
  unfold G12.keypairGen
  have eq' : (mathlibG12 p (A : ZMod p) (B : ZMod p) q base l no).q = q := rfl
  rw [eq']
  rcases h : randNZMod q tape with ⟨_ | d, rest, used⟩
  · rfl
  · simp only []
    rw [c06_ecMulA_bridge_xy p hp2 hA hB q base hG W m d]
    rfl

end bridge

/-! ### non-vacuity: y² = x³ + x + 1 over `ZMod 23` (28 points), G = 4·(3, 10) = (17, 3) of order q = 7

`Br.toyG_order` (LemmasC06.lean) obtains "7 • G = O" from C06's `ecHasOrderA_nat` and one evaluation of the
model of `ecHasOrderA`: the order hypothesis of the laws is itself discharged through the bridge. -/

section toy
attribute [local instance] fact_prime_23

example : ELaws (mathlibECtx 23 _ _ 7 Br.toyG) :=
  mathlib_ELaws 23 _ _ 7 Br.toyG (by decide) Br.toyG_order

example : G12Laws (mathlibG12 23 _ _ 7 Br.toyG 8 1) :=
  mathlib_G12Laws 23 _ _ 7 Br.toyG 8 1 (by decide) Br.toyG_order rfl (by decide) (by decide) (by decide)
    (by decide)

/-- `c06_ecMulA_bridge`: 3 • G = (5, 4), read off the run of the `ecMulA` model (64-bit words, m = 1) -/
example : (mathlibECtx 23 _ _ 7 Br.toyG).xy ((mathlibECtx 23 _ _ 7 Br.toyG).smul 3 Br.toyG) = some (5, 4) := by
  rw [show Br.toyG = Affine.Point.some _ _ Br.toyG_ns from rfl,
    ← c06_ecMulA_bridge 23 (by decide) (A := 1) (B := 1) (by decide) (by decide) 7 _ (x := 17) (y := 3)
      (by decide) (by decide) Br.toyG_ns 64 1 3]
  decide +kernel

/-- `c06_ecHasOrderA_bridge` / `c06_ecAddMulA2_bridge` on the same curve: 7 • G = O, 3 • G + 4 • (3 • G) = G -/
example : ((mathlibECtx 23 _ _ 7 Br.toyG).xy ((mathlibECtx 23 _ _ 7 Br.toyG).smul 7 Br.toyG)).isNone = true := by
  rw [← c06_ecHasOrderA_bridge 23 (by decide) (A := 1) (B := 1) (by decide) (by decide) 7 _ Br.toyG_xy 64 1 7]
  decide +kernel

/-- g12sVerify on the real curve group (the model is not executable there: `ofXY` is classical) ACCEPTS the
signature (r, s) = (3, 3) of the hash value 1 under the public key Q = 3 • G = (5, 4): by
`g12_verify_exact_curve` this follows from one run of the `ecAddMulA` model -/
example : (mathlibG12 23 _ _ 7 Br.toyG 8 1).verify [1] [3, 3] [5, 4] = .ok := by
  rw [g12_verify_exact_curve 23 (by decide) (A := 1) (B := 1) (by decide) (by decide) 7 Br.toyG 8 1
    (by decide) Br.toyG_order rfl (by decide) (by decide) (by decide) (by decide) Br.toyG_xy 64]
  refine ⟨⟨by decide, by decide, Br.toyNs 5 4 (by decide) (by decide)⟩, by decide, by decide, by decide,
    by decide, 1, 17, 3, by decide, by decide, by decide +kernel, by decide⟩

/-- … and REJECTS (r, s) = (3, 4) -/
example : (mathlibG12 23 _ _ 7 Br.toyG 8 1).verify [1] [3, 4] [5, 4] ≠ .ok := by
  rw [Ne, g12_verify_exact_curve 23 (by decide) (A := 1) (B := 1) (by decide) (by decide) 7 Br.toyG 8 1
    (by decide) Br.toyG_order rfl (by decide) (by decide) (by decide) (by decide) Br.toyG_xy 64]
  rintro ⟨_, _, _, _, _, v, x, y, hv, hve, hxy, hx⟩
  have hv1 : v = 1 := by
    have : ∀ v < 7, (v * (mathlibG12 23 _ _ 7 Br.toyG 8 1).hashE [1]) % 7 = 1 → v = 1 := by decide
    exact this v hv hve
  subst hv1
  have hrun : ecAddMulA (ecOps (mkCurve (natFld 23) 1 1)) 64 [((17, 3), 4), ((5, 4), 4)] = some (13, 16) := by
    decide +kernel
  have hxy' : ecAddMulA (ecOps (mkCurve (natFld 23) 1 1)) 64 [((17, 3), 4), ((5, 4), 4)] = some (x, y) := hxy
  rw [hrun] at hxy'
  simp only [Option.some.injEq, Prod.mk.injEq] at hxy'
  rw [← hxy'.1] at hx
  revert hx
  decide

end toy

end Bee2V.C16

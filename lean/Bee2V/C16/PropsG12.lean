/-
C16 — property theorems for the model of g12s.c (G12s.lean, GOST R 34.10-2012) under the hypotheses
`G12Laws C` (LawsSig.lean).  `beNat` is the number of a big-endian octet string (hash, r, s), `leNat`
of a little-endian one (private key, coordinates).

The model contains the REPAIRED behaviour of g12sSign (docs/C16.fix-6.diff): the draw is repeated when
s = 0 (step 5 of the standard); without it a returned signature with s = 0 is rejected by g12sVerify.
-/
import Bee2V.C16.LemmasSig3
import Bee2V.C16.ToySig
namespace Bee2V.C16
open Sig
variable {G : Type} [AddCommGroup G] {C : G12 G}

/-- g12sKeypairGen: whenever it succeeds (any tape) the private key is the little-endian code of a
number d in [1, q-1] and the public key decodes to dP -/
theorem g12_keygen_valid (L : G12Laws C) {tape kp : Bytes} {used : Nat}
    (h : C.keypairGen tape = (.ok, kp, used)) :
    ∃ d, 0 < d ∧ d < C.q ∧ kp.take C.mo = natLE C.mo d ∧
      C.loadPub (kp.drop C.mo) = some (d • C.base) := by
  unfold G12.keypairGen at h
  split at h
  · cases h
  · rename_i d rest used' hr
    obtain ⟨h0, hq⟩ := randNZMod_range hr
    obtain ⟨x, y, hxy⟩ := e_xy_base_mul L.toELaws h0 hq
    rw [hxy] at h
    simp only [Prod.mk.injEq, true_and] at h
    obtain ⟨hkp, _⟩ := h
    rw [L.smul_eq] at hxy
    refine ⟨d, h0, hq, ?_, ?_⟩
    · rw [← hkp]; exact take_natLE_append _ _ _
    · rw [← hkp, drop_natLE_append]; exact g_loadPub_encXY L hxy

omit [AddCommGroup G] in
/-- `e` depends only on the hash value modulo q: alterations of the hash that leave the reduced value
unchanged (H, H + q, …; 0 and 1; 0 and q) are not alterations -/
theorem g12_hashE_congr (C : G12 G) {H H' : Bytes} (h : beNat H % C.q = beNat H' % C.q) :
    C.hashE H = C.hashE H' := by
  unfold G12.hashE
  simp only [h]

/-- `e` is always in [1, q-1] (the rule e = 0 ⇒ e = 1) -/
theorem g12_hashE_range (L : G12Laws C) (H : Bytes) : 0 < C.hashE H ∧ C.hashE H < C.q :=
  g_hashE_range C L.q_prime.one_lt H

/-- g12sSign against g12sVerify: every returned signature — for EVERY hash value (0 with the e = 1
rule, ≥ q, multiples of q), every tape including the rounds repeated because r = 0 or s = 0 and the
draws rejected by zzRandNZMod — passes g12sVerify under the public key dP -/
theorem g12_sign_complete (L : G12Laws C) {Hb priv tape sig : Bytes} {fuel used : Nat}
    {Q : Nat × Nat} (hs : C.sign fuel Hb priv tape = some (.ok, sig, used))
    (hQ : C.xy (leNat priv • C.base) = some Q) :
    C.verify Hb sig (C.encXY Q) = .ok := by
  obtain ⟨_, _, k, x, y, hxy, hr0, hs0, hsig, _⟩ := g_sign_shape L hs
  rw [hsig]
  exact g_verify_sig L hxy hr0 hs0 (g_loadPub_encXY L hQ)

/-- both parts of every returned signature are in [1, q-1] (g12sSign repeats the draw when r = 0 or
s = 0) -/
theorem g12_sign_range (L : G12Laws C) {Hb priv tape sig : Bytes} {fuel used : Nat}
    (hs : C.sign fuel Hb priv tape = some (.ok, sig, used)) :
    sig.length = 2 * C.mo ∧ 0 < beNat (sig.take C.mo) ∧ beNat (sig.take C.mo) < C.q ∧
      0 < beNat (sig.drop C.mo) ∧ beNat (sig.drop C.mo) < C.q := by
  have hq := g_q_pos L
  obtain ⟨_, _, k, x, y, _, hr0, hs0, hsig, hb⟩ := g_sign_shape L hs
  rw [hb]
  rw [hsig, take_natBE_append, beNat_natBE, Nat.mod_eq_of_lt (g_lt_pow L (Nat.mod_lt _ hq))]
  refine ⟨?_, by omega, Nat.mod_lt _ hq, by omega, Nat.mod_lt _ hq⟩
  rw [List.length_append, natBE_length, natBE_length]
  omega

/-- the acceptance set of g12sVerify, exactly: public key on the curve, 0 < r, s < q, and with
v = e⁻¹ mod q: `R = (s v mod q) P + (-(v r) mod q) Q ≠ O` and `x_R mod q = r` -/
theorem g12_verify_exact (L : G12Laws C) {Hb sig pub : Bytes} :
    C.verify Hb sig pub = .ok ↔
      ∃ Q, C.loadPub pub = some Q ∧
        0 < beNat (sig.take C.mo) ∧ beNat (sig.take C.mo) < C.q ∧
        0 < beNat (sig.drop C.mo) ∧ beNat (sig.drop C.mo) < C.q ∧
        ∃ v x y, v < C.q ∧ (v * C.hashE Hb) % C.q = 1 ∧
          C.xy (((beNat (sig.drop C.mo) * v) % C.q) • C.base
                + ((C.q - (v * beNat (sig.take C.mo)) % C.q) % C.q) • Q) = some (x, y) ∧
          x % C.q = beNat (sig.take C.mo) := by
  have hq := g_q_pos L
  obtain ⟨he0, heq⟩ := g12_hashE_range L Hb
  obtain ⟨hvq, hve⟩ := invMod_spec L.q_prime he0 heq
  unfold G12.verify
  cases hl : G12.loadPub C pub with
  | none => simp
  | some Q =>
    simp only [Option.some.injEq, exists_eq_left']
    generalize beNat (sig.take C.mo) = r
    generalize beNat (sig.drop C.mo) = s
    by_cases hc : s = 0 ∨ r = 0 ∨ s ≥ C.q ∨ r ≥ C.q
    · rw [if_pos hc]
      constructor
      · intro h; cases h
      · intro h; omega
    · rw [if_neg hc]
      rw [negMod_eq (Nat.mod_lt _ hq), L.smul_eq, L.smul_eq, L.add_eq]
      cases hR : C.xy (((s * invMod (C.hashE Hb) C.q) % C.q) • C.base
          + ((C.q - (invMod (C.hashE Hb) C.q * r) % C.q) % C.q) • Q) with
      | none =>
        simp only
        constructor
        · intro h; cases h
        · rintro ⟨_, _, _, _, v, x, y, hv, hvi, hxy, _⟩
          have := invMod_unique L.q_prime he0 heq hv hvi
          subst this
          rw [hR] at hxy
          cases hxy
      | some R =>
        obtain ⟨x, y⟩ := R
        dsimp only
        by_cases hh : r = x % C.q
        · rw [if_pos hh]
          exact ⟨fun _ => ⟨by omega, by omega, by omega, by omega, _, x, y, hvq, hve, hR, hh.symm⟩,
            fun _ => rfl⟩
        · rw [if_neg hh]
          constructor
          · intro h; cases h
          · rintro ⟨_, _, _, _, v, x', y', hv, hvi, hxy, hx⟩
            have := invMod_unique L.q_prime he0 heq hv hvi
            subst this
            rw [hR] at hxy
            cases hxy
            exact absurd hx.symm hh

/-! ### non-vacuity: the hypotheses of the theorems above are satisfiable together (ToySig.lean:
`toyG12` over (ZMod 65521, +), l = 16) -/
section examples
open ToySig
set_option maxRecDepth 4000

example : ∃ C : G12 (ZMod 65521), G12Laws C := ⟨toyG12, toyG12Laws⟩

/-- the draws 0 and 65521 = q are rejected, 9 is accepted -/
example := g12_keygen_valid toyG12Laws (tape := [0, 0, 241, 255, 9, 0]) (kp := [9, 0, 9, 0, 9, 0])
  (used := 6) (by decide)

/-- hash value 65521 = q (e = 0 ⇒ e = 1), a rejected draw, then k = 7: signs and verifies -/
example : toyG12.sign 3 [255, 241] [5, 0] [0, 0, 7, 0] = some (.ok, [0, 7, 0, 42], 4) ∧
    toyG12.verify [255, 241] [0, 7, 0, 42] (toyG12.encXY (5, 5)) = .ok :=
  have hs : toyG12.sign 3 [255, 241] [5, 0] [0, 0, 7, 0] = some (.ok, [0, 7, 0, 42], 4) := by decide
  ⟨hs, g12_sign_complete toyG12Laws hs (by decide)⟩

example := g12_sign_range toyG12Laws (Hb := [255, 241]) (priv := [5, 0]) (tape := [0, 0, 7, 0])
  (sig := [0, 7, 0, 42]) (fuel := 3) (used := 4) (by decide)

/-- d + e = q: every one-time key gives s = 0, every round is repeated until the generator gives up -/
example : toyG12.sign 70 [255, 236] [5, 0] [7, 0, 8, 0] = some (.badRng, [], 134) := by decide

example := g12_verify_exact toyG12Laws (Hb := [255, 241]) (sig := [0, 7, 0, 42]) (pub := [5, 0, 5, 0])

/-- the hash values 0 and q give the same e -/
example := g12_hashE_congr toyG12 (H := [0, 0]) (H' := [255, 241]) (by decide)

example := g12_hashE_range toyG12Laws [0, 0]

end examples

end Bee2V.C16

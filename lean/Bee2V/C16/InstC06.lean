/-
C16 — the REAL elliptic-curve group as an instance of the abstract group context of the bign96 / g12s models:
`mathlibECtx p A B q base : ECtx (Wc A B).Point` over Mathlib's group of nonsingular points of
y² = x³ + A x + B over `ZMod p` (`Wc A B` is C06's curve, Bee2V/C06/Spec.lean).  The operations are the group
operations of `WeierstrassCurve.Affine.Point`; coordinates are the canonical residues.

Props-land only (noncomputable: `ofXY` decides the curve condition classically); the executable models are
not touched.
-/
import Bee2V.C06.Spec2
import Mathlib.Data.ZMod.Basic
import Mathlib.Algebra.Field.ZMod
import Bee2V.C16.Bign96
import Bee2V.C16.G12s
import Bee2V.C16.Dstu
namespace Bee2V.C16
open WeierstrassCurve Bee2V.C06

section
variable (p : Nat) [Fact p.Prime] (A B : ZMod p)

/-- affine coordinates of a point as canonical residues, `none` for the point at infinity -/
def curveXY : (Wc A B).Point → Option (Nat × Nat)
  | .zero => none
  | .some x y _ => some (x.val, y.val)

open Classical in
/-- `qrFrom(x) && qrFrom(y) && ecpIsOnA`: range checks and the curve condition (equation + nonsingularity,
the latter automatic on an elliptic curve) -/
noncomputable def curveOfXY (x y : Nat) : Option (Wc A B).Point :=
  if h : x < p ∧ y < p ∧ (Wc A B).Nonsingular (x : ZMod p) (y : ZMod p) then some (.some _ _ h.2.2) else none

/-- the group of points of y² = x³ + A x + B over `ZMod p` with a base point and its claimed order q -/
noncomputable def mathlibECtx (q : Nat) (base : (Wc A B).Point) : ECtx (Wc A B).Point where
  q := q
  zero := 0
  add := fun P Q => P + Q
  neg := fun P => -P
  smul := fun n P => n • P
  base := base
  xy := curveXY p A B
  ofXY := curveOfXY p A B

/-- bign96 over the real curve (belt left abstract) -/
noncomputable def mathlibB96 (q : Nat) (base : (Wc A B).Point) (oidOk : Bytes → Bool) (hash : Bytes → Bytes)
    (b32 : Bytes → Nat → Bytes → Bytes) : B96 (Wc A B).Point where
  toECtx := mathlibECtx p A B q base
  oidOk := oidOk
  hash := hash
  b32 := b32

/-- g12s over the real curve -/
noncomputable def mathlibG12 (q : Nat) (base : (Wc A B).Point) (l no : Nat) : G12 (Wc A B).Point where
  toECtx := mathlibECtx p A B q base
  l := l
  no := no

end

/-! ### binary curves: y² + xy = x³ + A x² + B over a field of characteristic 2 (`Wb`, C06/Spec2.lean) -/

section binary
variable {F : Type} [Field F] [DecidableEq F]

/-- the coefficient A ∈ {0, 1} of dstu as a field element -/
def bitF (F : Type) [Field F] (A : Bool) : F := if A then 1 else 0

def curveBXY (a B : F) : (Wb a B).Point → Option (F × F)
  | .zero => none
  | .some x y _ => some (x, y)

open Classical in
/-- `ec2IsOnA` -/
noncomputable def curveBOfXY (a B x y : F) : Option (Wb a B).Point :=
  if h : (Wb a B).Nonsingular x y then some (.some _ _ h) else none

/-- dstu over the real group of the binary curve; the field operations `f` are a parameter (tied to the field
by `FLaws f`) -/
noncomputable def mathlibDstu (f : FOps F) (A : Bool) (B : F) (n : Nat) (base : (Wb (bitF F A) B).Point) :
    Dstu (Wb (bitF F A) B).Point F where
  f := f
  A := A
  B := B
  n := n
  zero := 0
  add := fun P Q => P + Q
  neg := fun P => -P
  smul := fun k P => k • P
  base := base
  xy := curveBXY (bitF F A) B
  ofXY := curveBOfXY (bitF F A) B

end binary
end Bee2V.C16

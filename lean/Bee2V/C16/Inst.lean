/-
C16 — the executable instances: all standard parameter sets (generated from bign96.c, g12s.c, dstu.c,
pfok.c by xlate/x_c16.py), affine arithmetic (CurveP / CurveB), belt from the C01 model (hash, block
cipher for belt-32block) and the DER OID decoder of the C08 model.  No Mathlib.
-/
import Bee2V.C16.CurveB
import Bee2V.C16.Pfok
import Bee2V.Gen.C16Params
import Bee2V.C01.Model.Hash
import Bee2V.C08.Model2
namespace Bee2V.C16
open Bee2V.Gen

/-- belt-hash of a whole message (C01 model: beltHashStart, StepH, StepG) -/
def beltHash (m : Bytes) : Bytes :=
  (Bee2V.C01.hashStepG Bee2V.C01.beltCipher (Bee2V.C01.hashStepH Bee2V.C01.beltCipher Bee2V.C01.hashStart m) 32).2

def oidOkDER (der : Bytes) : Bool :=
  match Bee2V.C08.oidFromDER der with
  | .ok _ => true
  | _ => false

/-- `t[i] ^= round` on the little-endian u32 at the head of an 8-octet half -/
def xorRound (b : Bytes) (round : Nat) : Bytes :=
  Bee2V.C01.xorb (b.take 4) (natLE 4 (round % 2 ^ 32)) ++ b.drop 4

/-- `belt32BlockEncr(block[24], key, &round)` of bign96.c on three 8-octet halves; `theta` are the 32
octets passed to beltKeyExpand2 -/
def b32Encr (theta : Bytes) (round : Nat) (blk : Bytes) : Bytes :=
  let key := Bee2V.C01.fmtKey theta
  let enc := Bee2V.C01.beltCipher.enc key
  let h0 := blk.take 8
  let h1 := (blk.drop 8).take 8
  let h2 := (blk.drop 16).take 8
  -- round #1
  let e := enc (h1 ++ h2)
  let h1 := xorRound (e.take 8) round
  let h2 := e.drop 8
  let h0 := Bee2V.C01.xorb h0 h1
  -- round #2
  let e := enc (h2 ++ h0)
  let h2 := xorRound (e.take 8) (round + 1)
  let h0 := e.drop 8
  let h1 := Bee2V.C01.xorb h1 h2
  -- round #3
  let e := enc (h0 ++ h1)
  let h0 := xorRound (e.take 8) (round + 2)
  let h1 := e.drop 8
  let h2 := Bee2V.C01.xorb h2 h0
  h0 ++ h1 ++ h2

/-- bign96Start(params) for bign-curve96v1 -/
def b96Ctx : B96 Pt :=
  let s := C16Params.b96
  { toECtx := (CurveP.mk s.p s.a s.b).ectx s.q (.A 0 s.yG), oidOk := oidOkDER, hash := beltHash, b32 := b32Encr }

/-- g12sEcCreate(params) -/
def g12Ctx (s : C16Params.G12) : G12 Pt :=
  { toECtx := (CurveP.mk s.p s.a s.b).ectx s.q (.A s.xP s.yP), l := s.l, no := s.no }

def dstuCurve (s : C16Params.Dstu) : CurveB :=
  ⟨⟨s.m, [s.k1, s.k2, s.k3].filter (· != 0)⟩, s.A == 1, s.B⟩

/-- dstuEcCreate(params) with the base point P -/
def dstuCtx (s : C16Params.Dstu) (base : Pt) : Dstu Pt Nat := (dstuCurve s).dstu s.n base

def pfokCtx (s : C16Params.Pfok) : Pfok := ⟨s.l, s.r, s.n, s.p, s.g, s.l + 2⟩

end Bee2V.C16

/-
C16 — properties of the gf2Tr / gf2QSolve / dstuPointCompress / dstuPointRecover models over an
abstract field of characteristic 2 with 2^m elements, m odd (`FLaws`, LawsField.lean).
-/
import Bee2V.C16.LemmasField3

namespace Bee2V.C16

variable {F G : Type} [Field F]

/-! ### 1. the trace -/

/-- the loop of gf2Tr computes a + a² + … + a^(2^(m-1)) -/
theorem tr_loop (O : FOps F) (L : FLaws O) (a : F) :
    FOps.iter (fun t => O.add (O.sqr t) a) (O.m - 1) a = ∑ i ∈ Finset.range O.m, a ^ (2 ^ i) :=
  Fld.tr_val L a

theorem tr_spec (O : FOps F) (L : FLaws O) (a : F) :
    (O.tr a = true ↔ (∑ i ∈ Finset.range O.m, a ^ (2 ^ i)) = 1) ∧
    (O.tr a = false ↔ (∑ i ∈ Finset.range O.m, a ^ (2 ^ i)) = 0) ∧
    ((∑ i ∈ Finset.range O.m, a ^ (2 ^ i)) = 0 ∨ (∑ i ∈ Finset.range O.m, a ^ (2 ^ i)) = 1) :=
  ⟨Fld.tr_iff L a, Fld.tr_false_iff L a, Fld.Tr01 L a⟩

/-! ### 2. its algebra -/

theorem tr_sqr (O : FOps F) (L : FLaws O) (a : F) : O.tr (a * a) = O.tr a := Fld.tr_sqr L a

theorem tr_add (O : FOps F) (L : FLaws O) (a b : F) : O.tr (a + b) = xor (O.tr a) (O.tr b) :=
  Fld.tr_add L a b

theorem tr_one (O : FOps F) (L : FLaws O) : O.tr (1 : F) = true := Fld.tr_one L

theorem tr_zero (O : FOps F) (L : FLaws O) : O.tr (0 : F) = false := Fld.tr_zero L

/-! ### 3. the half-trace (m odd) -/

theorem htr_spec (O : FOps F) (L : FLaws O) (c : F) :
    O.htr c * O.htr c + O.htr c = c + (if O.tr c then 1 else 0) :=
  Fld.htr_eq L c

/-! ### 4. gf2QSolve -/

theorem sqrtF_spec (O : FOps F) (L : FLaws O) (b : F) : O.sqrtF b * O.sqrtF b = b :=
  Fld.sqrtF_sq L b

theorem qsolve_sound (O : FOps F) (L : FLaws O) {a b z : F} (h : O.qsolve a b = some z) :
    z * z + a * z = b :=
  Fld.qsolve_sound L h

/-- the solver says FALSE only if there is no solution -/
theorem qsolve_complete (O : FOps F) (L : FLaws O) {a b : F} (ha : a ≠ 0)
    (hz : ∃ z, z * z + a * z = b) : (O.qsolve a b).isSome = true :=
  Fld.qsolve_complete L ha hz

/-- a = 0: always solvable -/
theorem qsolve_zero (O : FOps F) (L : FLaws O) (b : F) : (O.qsolve 0 b).isSome = true := by
  unfold FOps.qsolve
  rw [if_pos ((L.isZero_iff 0).2 rfl)]
  rfl

/-! ### 5. the x-coordinate of a doubled point has trace A -/

theorem tr_x_of_double (O : FOps F) (L : FLaws O) (A : Bool) (x y : F) (_hx : x ≠ 0) :
    let lam := x + y / x
    O.tr (lam * lam + lam + (if A then 1 else 0)) = A := by
  intro lam
  rw [Fld.tr_add L, Fld.tr_sq_add_self L, Fld.tr_bool L]
  simp

/-! ### 6. Recover ∘ Compress = id on the points with tr(x) = A

The extra hypothesis `hx1` excludes the one point that the compressed format cannot represent: for
x = 1 clearing bit 0 gives 0, so (1, y) with tr(y) = 0 is stored as the zero string, which is the code
of the point (0, √B) (`compress_one_collision` below).  Such a point lies on the curve and has
tr(x) = A exactly when A = 1 and tr(B) = 0 (`recover_compress_A0`, `recover_compress_trB` discharge
`hx1` in the other cases). -/

theorem recover_compress (C : Dstu G F) (L : FLaws C.f) (x y : F)
    (hc : y * y + x * y = x * x * x + (if C.A then x * x else 0) + C.B)
    (htr : x = 0 ∨ C.f.tr x = C.A)
    (hx1 : x = 1 → C.f.tr y = true) :
    ∃ xp, C.compress (C.encXY (x, y)) = (.ok, xp) ∧ xp.length = C.no ∧
      C.recover xp = (.ok, C.encXY (x, y)) := by
  by_cases hx : x = 0
  · subst hx
    refine ⟨_, Fld.compress_zero C L y, Pf.zeros_length _, ?_⟩
    rw [Fld.recover_zero C L (Fld.decode_zeros C L _)]
    have hB : C.B = y * y := by
      have : y * y = C.B := by
        rw [← sub_eq_zero]
        have h := hc
        simp only [zero_mul, mul_zero, ite_self, add_zero, zero_add] at h
        linear_combination h
      exact this.symm
    rw [hB, Fld.sqrtF_mul_self L]
  · have ht : C.f.tr x = C.A := htr.resolve_left hx
    have hx1' : x = 1 → C.f.tr (y / x) = true := by
      intro h1; rw [h1, div_one]; exact hx1 h1
    obtain ⟨hs0, hslow, hsclr⟩ := Fld.stored_props C L hx (C.f.tr (y / x)) hx1'
    refine ⟨_, Fld.compress_nz C L hx y, Fld.encF_length C _, ?_⟩
    rw [Fld.recover_nz C L (Fld.decode_encF C L _) hs0, Fld.xfix_clearLow C L ht hsclr, hslow]
    obtain ⟨z, hz, hzw⟩ := Fld.qsolve_one L (Fld.curve_w C hx hc)
    rw [hz]
    simp only
    have hy : Fld.ysel C x z (C.f.tr (y / x)) = y := by
      unfold Fld.ysel
      have hxx : x * (y / x) = y := by field_simp
      rcases hzw with e | e
      · rw [e, beq_self_eq_true, if_pos rfl]
        exact hxx
      · rw [e, Fld.tr_add_one L]
        have : ((!C.f.tr (y / x)) == C.f.tr (y / x)) = false := by cases C.f.tr (y / x) <;> rfl
        rw [this]
        simp only [Bool.false_eq_true, if_false]
        linear_combination hxx + L.char2 x
    rw [hy]

theorem recover_compress_A0 (C : Dstu G F) (L : FLaws C.f) (x y : F) (hA : C.A = false)
    (hc : y * y + x * y = x * x * x + (if C.A then x * x else 0) + C.B)
    (htr : x = 0 ∨ C.f.tr x = C.A) :
    ∃ xp, C.compress (C.encXY (x, y)) = (.ok, xp) ∧ xp.length = C.no ∧
      C.recover xp = (.ok, C.encXY (x, y)) := by
  refine recover_compress C L x y hc htr ?_
  intro h1
  rcases htr with h0 | h
  · rw [h0] at h1; exact absurd h1 zero_ne_one
  · rw [h1, Fld.tr_one L, hA] at h; cases h

theorem recover_compress_trB (C : Dstu G F) (L : FLaws C.f) (x y : F) (hB : C.f.tr C.B = true)
    (hc : y * y + x * y = x * x * x + (if C.A then x * x else 0) + C.B)
    (htr : x = 0 ∨ C.f.tr x = C.A) :
    ∃ xp, C.compress (C.encXY (x, y)) = (.ok, xp) ∧ xp.length = C.no ∧
      C.recover xp = (.ok, C.encXY (x, y)) := by
  refine recover_compress C L x y hc htr ?_
  intro h1
  rcases htr with h0 | h
  · rw [h0] at h1; exact absurd h1 zero_ne_one
  · exfalso
    rw [h1, Fld.tr_one L] at h
    rw [h1, ← h] at hc
    simp only [if_true, mul_one, one_mul] at hc
    have : C.B = y * y + y := by linear_combination -hc - L.char2 1
    rw [this, Fld.tr_sq_add_self L] at hB
    cases hB

/-- the point (1, y) with tr(y) = 0 and the point (0, √B) have the same compressed form, and Recover
returns the latter -/
theorem compress_one_collision (C : Dstu G F) (L : FLaws C.f) (y : F) (hy : C.f.tr y = false) :
    C.compress (C.encXY (1, y)) = (.ok, zeros C.no) ∧
    C.compress (C.encXY (0, C.f.sqrtF C.B)) = (.ok, zeros C.no) ∧
    C.recover (zeros C.no) = (.ok, C.encXY (0, C.f.sqrtF C.B)) := by
  refine ⟨?_, Fld.compress_zero C L _, Fld.recover_zero C L (Fld.decode_zeros C L _)⟩
  rw [Fld.compress_nz C L one_ne_zero, div_one, hy, Fld.clearLow_true L (Fld.low_one L), L.char2]
  simp only [Bool.false_eq_true, if_false]
  rw [Fld.encF_zero C L]

/-! ### 7. Recover returns points of the curve only -/

theorem recover_sound (C : Dstu G F) (L : FLaws C.f) {xp pt : Bytes}
    (h : C.recover xp = (.ok, pt)) :
    ∃ x y, pt = C.encXY (x, y) ∧ pt.length = 2 * C.no ∧
      ((x ≠ 0 ∨ leNat xp = 0) → y * y + x * y = x * x * x + (if C.A then x * x else 0) + C.B) := by
  cases hd : C.f.ofNat (leNat xp) with
  | none => rw [Fld.recover_none C hd] at h; cases h
  | some x' =>
    by_cases hx' : x' = 0
    · subst hx'
      rw [Fld.recover_zero C L hd] at h
      simp only [Prod.mk.injEq, true_and] at h
      refine ⟨0, C.f.sqrtF C.B, h.symm, ?_, ?_⟩
      · rw [← h, Fld.encXY_length]; ring
      · intro _
        rw [Fld.sqrtF_sq L]
        cases C.A <;> simp
    · rw [Fld.recover_nz C L hd hx'] at h
      cases hq : C.f.qsolve C.f.one (Fld.bval C (Fld.xfix C x')) with
      | none => rw [hq] at h; cases h
      | some z =>
        rw [hq] at h
        simp only [Prod.mk.injEq, true_and] at h
        refine ⟨_, _, h.symm, ?_, ?_⟩
        · rw [← h, Fld.encXY_length]; ring
        · intro hx
          have hxn : Fld.xfix C x' ≠ 0 := by
            rcases hx with hx | hx
            · exact hx
            · exfalso
              have := L.dec_enc _ _ hd
              rw [hx] at this
              have h0 := L.enc_dec x'
              rw [this, ← L.toNat_zero, L.enc_dec] at h0
              exact hx' (Option.some.inj h0).symm
          have hz := Fld.qsolve_sound L hq
          rw [L.one_eq, one_mul] at hz
          exact Fld.curve_of_root C L hxn hz _

/-! ### non-vacuity

`FLaws` has models: GF(2) with m = 1 (`Fld.toyF2_laws`) and GF(8) = GF(2)[x]/(x³+x+1) with m = 3
(`Fld.gf8_laws`), both in LemmasField3.lean. -/

example : FLaws Fld.toyF2 := Fld.toyF2_laws
example : FLaws Fld.gf8Ops := Fld.gf8_laws

/-- GF(2), curve y² + xy = x³ + x²: the hypotheses of `recover_compress` hold for (1, 1) … -/
example : ∃ xp, Fld.toyDstu.compress (Fld.toyDstu.encXY (1, 1)) = (.ok, xp) ∧
    xp.length = Fld.toyDstu.no ∧ Fld.toyDstu.recover xp = (.ok, Fld.toyDstu.encXY (1, 1)) :=
  recover_compress Fld.toyDstu Fld.toyF2_laws 1 1 (by decide) (Or.inr (by decide)) (fun _ => by decide)

/-- … and for (0, 0) (branch x = 0) -/
example : ∃ xp, Fld.toyDstu.compress (Fld.toyDstu.encXY (0, 0)) = (.ok, xp) ∧
    xp.length = Fld.toyDstu.no ∧ Fld.toyDstu.recover xp = (.ok, Fld.toyDstu.encXY (0, 0)) :=
  recover_compress Fld.toyDstu Fld.toyF2_laws 0 0 (by decide) (Or.inl rfl) (fun h => by cases h)

/-- GF(8), curve y² + xy = x³ + x² + 1: the hypotheses hold for the point (5, 5) of order 7 -/
example : ∃ xp, Fld.gf8Dstu.compress (Fld.gf8Dstu.encXY (⟨5⟩, ⟨5⟩)) = (.ok, xp) ∧
    xp.length = Fld.gf8Dstu.no ∧ Fld.gf8Dstu.recover xp = (.ok, Fld.gf8Dstu.encXY (⟨5⟩, ⟨5⟩)) :=
  recover_compress Fld.gf8Dstu Fld.gf8_laws ⟨5⟩ ⟨5⟩ (by decide +kernel) (Or.inr (by decide +kernel))
    (fun h => by revert h; decide +kernel)

/-- the same run evaluated: both points with x = 5 round-trip through codes 05 and 04 -/
example : Fld.gf8Dstu.compress (Fld.gf8Dstu.encXY (⟨5⟩, ⟨5⟩)) = (.ok, [5]) ∧
    Fld.gf8Dstu.compress (Fld.gf8Dstu.encXY (⟨5⟩, ⟨0⟩)) = (.ok, [4]) ∧
    Fld.gf8Dstu.recover [5] = (.ok, Fld.gf8Dstu.encXY (⟨5⟩, ⟨5⟩)) ∧
    Fld.gf8Dstu.recover [4] = (.ok, Fld.gf8Dstu.encXY (⟨5⟩, ⟨0⟩)) := by
  decide +kernel

/-- the excluded corner evaluated on y² + xy = x³ + x² + x over GF(8): the point (1, 4) is on the
curve, tr(x) = 1 = A, yet Compress gives 00 and Recover 00 gives (0, √B) = (0, 6) -/
example : (⟨4⟩ : Fld.GF8) * ⟨4⟩ + 1 * ⟨4⟩ = 1 * 1 * 1 + 1 * 1 + Fld.gf8DstuB2.B ∧
    Fld.gf8DstuB2.f.tr 1 = Fld.gf8DstuB2.A ∧
    Fld.gf8DstuB2.compress (Fld.gf8DstuB2.encXY (1, ⟨4⟩)) = (.ok, [0]) ∧
    Fld.gf8DstuB2.recover [0] = (.ok, Fld.gf8DstuB2.encXY (0, ⟨6⟩)) := by
  decide +kernel

end Bee2V.C16

/-
C16 — properties of the gf2Tr / gf2QSolve / dstuPointCompress / dstuPointRecover models over an
abstract field of characteristic 2 with 2^m elements, m odd (`FLaws`, LawsField.lean).
-/
import Bee2V.C16.LemmasField3

namespace Bee2V.C16

variable {F G : Type} [Field F]

/-! ### 1. the trace -/

/-- the loop of gf2Tr computes a + a² + … + a^(2^(m-1)) -/
theorem tr_loop (O : FOps F) (L : FLaws O) (a : F) :
    FOps.iter (fun t => O.add (O.sqr t) a) (O.m - 1) a = ∑ i ∈ Finset.range O.m, a ^ (2 ^ i) :=
  Fld.tr_val L a

theorem tr_spec (O : FOps F) (L : FLaws O) (a : F) :
    (O.tr a = true ↔ (∑ i ∈ Finset.range O.m, a ^ (2 ^ i)) = 1) ∧
    (O.tr a = false ↔ (∑ i ∈ Finset.range O.m, a ^ (2 ^ i)) = 0) ∧
    ((∑ i ∈ Finset.range O.m, a ^ (2 ^ i)) = 0 ∨ (∑ i ∈ Finset.range O.m, a ^ (2 ^ i)) = 1) :=
  ⟨Fld.tr_iff L a, Fld.tr_false_iff L a, Fld.Tr01 L a⟩

/-! ### 2. its algebra -/

theorem tr_sqr (O : FOps F) (L : FLaws O) (a : F) : O.tr (a * a) = O.tr a := Fld.tr_sqr L a

theorem tr_add (O : FOps F) (L : FLaws O) (a b : F) : O.tr (a + b) = xor (O.tr a) (O.tr b) :=
  Fld.tr_add L a b

theorem tr_one (O : FOps F) (L : FLaws O) : O.tr (1 : F) = true := Fld.tr_one L

theorem tr_zero (O : FOps F) (L : FLaws O) : O.tr (0 : F) = false := Fld.tr_zero L

/-! ### 3. the half-trace (m odd) -/

theorem htr_spec (O : FOps F) (L : FLaws O) (c : F) :
    O.htr c * O.htr c + O.htr c = c + (if O.tr c then 1 else 0) :=
  Fld.htr_eq L c

/-! ### 4. gf2QSolve -/

theorem sqrtF_spec (O : FOps F) (L : FLaws O) (b : F) : O.sqrtF b * O.sqrtF b = b :=
  Fld.sqrtF_sq L b

theorem qsolve_sound (O : FOps F) (L : FLaws O) {a b z : F} (h : O.qsolve a b = some z) :
    z * z + a * z = b :=
  Fld.qsolve_sound L h

/-- the solver says FALSE only if there is no solution -/
theorem qsolve_complete (O : FOps F) (L : FLaws O) {a b : F} (ha : a ≠ 0)
    (hz : ∃ z, z * z + a * z = b) : (O.qsolve a b).isSome = true :=
  Fld.qsolve_complete L ha hz

/-- a = 0: always solvable -/
theorem qsolve_zero (O : FOps F) (L : FLaws O) (b : F) : (O.qsolve 0 b).isSome = true := by
  unfold FOps.qsolve
  rw [if_pos ((L.isZero_iff 0).2 rfl)]
  rfl

/-! ### 5. the x-coordinate of a doubled point has trace A -/

theorem tr_x_of_double (O : FOps F) (L : FLaws O) (A : Bool) (x y : F) (_hx : x ≠ 0) :
    let lam := x + y / x
    O.tr (lam * lam + lam + (if A then 1 else 0)) = A := by
  intro lam
  rw [Fld.tr_add L, Fld.tr_sq_add_self L, Fld.tr_bool L]
  simp

/-! ### 6. Recover ∘ Compress = id on the points with tr(x) = A

For x = 1 clearing bit 0 gives 0, so the point (1, y) with tr(y) = 0 would be stored as the zero
string, the code of (0, √B).  dstuPointCompress refuses exactly this point (docs/C16.fix-5.diff);
every other point of the curve with tr(x) = A round-trips, and the compressed code is injective. -/

/-- ERR_BAD_POINT on an encoded pair ⇔ it is (1, y) with tr(y) = 0 -/
theorem compress_refuses_iff (C : Dstu G F) (L : FLaws C.f) (x y : F) :
    C.compress (C.encXY (x, y)) = (.badPoint, []) ↔ x = 1 ∧ C.f.tr y = false :=
  Fld.compress_bad_iff C L x y

/-- MAIN -/
theorem recover_compress (C : Dstu G F) (L : FLaws C.f) (x y : F) {xp : Bytes}
    (hcomp : C.compress (C.encXY (x, y)) = (.ok, xp))
    (hc : y * y + x * y = x * x * x + (if C.A then x * x else 0) + C.B)
    (htr : x = 0 ∨ C.f.tr x = C.A) :
    xp.length = C.no ∧ C.recover xp = (.ok, C.encXY (x, y)) := by
  have hx1 : x = 1 → C.f.tr y = true := by
    intro h1
    cases hy : C.f.tr y
    · rw [(Fld.compress_bad_iff C L x y).2 ⟨h1, hy⟩] at hcomp; cases hcomp
    · rfl
  obtain ⟨xp', h1, h2, h3⟩ := Fld.recover_compress_aux C L x y hc htr hx1
  rw [hcomp] at h1
  simp only [Prod.mk.injEq, true_and] at h1
  subst h1
  exact ⟨h2, h3⟩

/-- the same as one statement: refused (exactly the point without a code) or round-trip -/
theorem recover_compress_total (C : Dstu G F) (L : FLaws C.f) (x y : F)
    (hc : y * y + x * y = x * x * x + (if C.A then x * x else 0) + C.B)
    (htr : x = 0 ∨ C.f.tr x = C.A) :
    (x = 1 ∧ C.f.tr y = false ∧ C.compress (C.encXY (x, y)) = (.badPoint, [])) ∨
    (∃ xp, C.compress (C.encXY (x, y)) = (.ok, xp) ∧ xp.length = C.no ∧
      C.recover xp = (.ok, C.encXY (x, y))) := by
  by_cases h : x = 1 ∧ C.f.tr y = false
  · exact Or.inl ⟨h.1, h.2, (Fld.compress_bad_iff C L x y).2 h⟩
  · right
    refine Fld.recover_compress_aux C L x y hc htr ?_
    intro h1
    cases hy : C.f.tr y
    · exact absurd ⟨h1, hy⟩ h
    · rfl

/-- no refusal at all on curves with A = 0 … -/
theorem recover_compress_A0 (C : Dstu G F) (L : FLaws C.f) (x y : F) (hA : C.A = false)
    (hc : y * y + x * y = x * x * x + (if C.A then x * x else 0) + C.B)
    (htr : x = 0 ∨ C.f.tr x = C.A) :
    ∃ xp, C.compress (C.encXY (x, y)) = (.ok, xp) ∧ xp.length = C.no ∧
      C.recover xp = (.ok, C.encXY (x, y)) := by
  refine Fld.recover_compress_aux C L x y hc htr ?_
  intro h1
  rcases htr with h0 | h
  · rw [h0] at h1; exact absurd h1 zero_ne_one
  · rw [h1, Fld.tr_one L, hA] at h; cases h

/-- … and on curves with tr(B) = 1 -/
theorem recover_compress_trB (C : Dstu G F) (L : FLaws C.f) (x y : F) (hB : C.f.tr C.B = true)
    (hc : y * y + x * y = x * x * x + (if C.A then x * x else 0) + C.B)
    (htr : x = 0 ∨ C.f.tr x = C.A) :
    ∃ xp, C.compress (C.encXY (x, y)) = (.ok, xp) ∧ xp.length = C.no ∧
      C.recover xp = (.ok, C.encXY (x, y)) := by
  refine Fld.recover_compress_aux C L x y hc htr ?_
  intro h1
  rcases htr with h0 | h
  · rw [h0] at h1; exact absurd h1 zero_ne_one
  · exfalso
    rw [h1, Fld.tr_one L] at h
    rw [h1, ← h] at hc
    simp only [if_true, mul_one, one_mul] at hc
    have : C.B = y * y + y := by linear_combination -hc - L.char2 1
    rw [this, Fld.tr_sq_add_self L] at hB
    cases hB

/-- the collision is gone: two points of the curve with tr(x) = A (or x = 0) that Compress accepts
with the same code are equal -/
theorem compress_injective (C : Dstu G F) (L : FLaws C.f) (x₁ y₁ x₂ y₂ : F) {xp : Bytes}
    (hc₁ : y₁ * y₁ + x₁ * y₁ = x₁ * x₁ * x₁ + (if C.A then x₁ * x₁ else 0) + C.B)
    (hc₂ : y₂ * y₂ + x₂ * y₂ = x₂ * x₂ * x₂ + (if C.A then x₂ * x₂ else 0) + C.B)
    (ht₁ : x₁ = 0 ∨ C.f.tr x₁ = C.A) (ht₂ : x₂ = 0 ∨ C.f.tr x₂ = C.A)
    (h₁ : C.compress (C.encXY (x₁, y₁)) = (.ok, xp))
    (h₂ : C.compress (C.encXY (x₂, y₂)) = (.ok, xp)) :
    x₁ = x₂ ∧ y₁ = y₂ := by
  have r₁ := (recover_compress C L x₁ y₁ h₁ hc₁ ht₁).2
  have r₂ := (recover_compress C L x₂ y₂ h₂ hc₂ ht₂).2
  rw [r₁] at r₂
  simp only [Prod.mk.injEq, true_and] at r₂
  have := Fld.encXY_inj C L r₂
  exact ⟨congrArg Prod.fst this, congrArg Prod.snd this⟩

/-! ### 7. Recover returns points of the curve only -/

theorem recover_sound (C : Dstu G F) (L : FLaws C.f) {xp pt : Bytes}
    (h : C.recover xp = (.ok, pt)) :
    ∃ x y, pt = C.encXY (x, y) ∧ pt.length = 2 * C.no ∧
      y * y + x * y = x * x * x + (if C.A then x * x else 0) + C.B := by
  cases hd : C.f.ofNat (leNat xp) with
  | none => rw [Fld.recover_none C hd] at h; cases h
  | some x' =>
    by_cases hx' : x' = 0
    · subst hx'
      rw [Fld.recover_zero C L hd] at h
      simp only [Prod.mk.injEq, true_and] at h
      refine ⟨0, C.f.sqrtF C.B, h.symm, ?_, ?_⟩
      · rw [← h, Fld.encXY_length]; ring
      · rw [Fld.sqrtF_sq L]
        cases C.A <;> simp
    · by_cases hxn : Fld.xfix C x' = 0
      · rw [Fld.recover_nz_zero C L hd hx' hxn] at h; cases h
      rw [Fld.recover_nz C L hd hx' hxn] at h
      cases hq : C.f.qsolve C.f.one (Fld.bval C (Fld.xfix C x')) with
      | none => rw [hq] at h; cases h
      | some z =>
        rw [hq] at h
        simp only [Prod.mk.injEq, true_and] at h
        refine ⟨_, _, h.symm, ?_, ?_⟩
        · rw [← h, Fld.encXY_length]; ring
        · have hz := Fld.qsolve_sound L hq
          rw [L.one_eq, one_mul] at hz
          exact Fld.curve_of_root C L hxn hz _

/-! ### non-vacuity

`FLaws` has models: GF(2) with m = 1 (`Fld.toyF2_laws`) and GF(8) = GF(2)[x]/(x³+x+1) with m = 3
(`Fld.gf8_laws`), both in LemmasField3.lean. -/

example : FLaws Fld.toyF2 := Fld.toyF2_laws
example : FLaws Fld.gf8Ops := Fld.gf8_laws

/-- GF(2), curve y² + xy = x³ + x²: the hypotheses of `recover_compress_total` hold for (1, 1) … -/
example : ∃ xp, Fld.toyDstu.compress (Fld.toyDstu.encXY (1, 1)) = (.ok, xp) ∧
    xp.length = Fld.toyDstu.no ∧ Fld.toyDstu.recover xp = (.ok, Fld.toyDstu.encXY (1, 1)) :=
  (recover_compress_total Fld.toyDstu Fld.toyF2_laws 1 1 (by decide) (Or.inr (by decide))).resolve_left
    (fun h => absurd h.2.1 (by decide))

/-- … and for (0, 0) (branch x = 0) -/
example : ∃ xp, Fld.toyDstu.compress (Fld.toyDstu.encXY (0, 0)) = (.ok, xp) ∧
    xp.length = Fld.toyDstu.no ∧ Fld.toyDstu.recover xp = (.ok, Fld.toyDstu.encXY (0, 0)) :=
  (recover_compress_total Fld.toyDstu Fld.toyF2_laws 0 0 (by decide) (Or.inl rfl)).resolve_left
    (fun h => absurd h.1 (by decide))

/-- GF(8), curve y² + xy = x³ + x² + 1: `recover_compress` applied to the point (5, 5) of order 7 -/
example : ([5] : Bytes).length = Fld.gf8Dstu.no ∧
    Fld.gf8Dstu.recover [5] = (.ok, Fld.gf8Dstu.encXY (⟨5⟩, ⟨5⟩)) :=
  recover_compress Fld.gf8Dstu Fld.gf8_laws ⟨5⟩ ⟨5⟩ (xp := [5]) (by decide +kernel)
    (by decide +kernel) (Or.inr (by decide +kernel))

/-- the same run evaluated: both points with x = 5 round-trip through codes 05 and 04 -/
example : Fld.gf8Dstu.compress (Fld.gf8Dstu.encXY (⟨5⟩, ⟨5⟩)) = (.ok, [5]) ∧
    Fld.gf8Dstu.compress (Fld.gf8Dstu.encXY (⟨5⟩, ⟨0⟩)) = (.ok, [4]) ∧
    Fld.gf8Dstu.recover [5] = (.ok, Fld.gf8Dstu.encXY (⟨5⟩, ⟨5⟩)) ∧
    Fld.gf8Dstu.recover [4] = (.ok, Fld.gf8Dstu.encXY (⟨5⟩, ⟨0⟩)) := by
  decide +kernel

/-- the corner evaluated on y² + xy = x³ + x² + x over GF(8) (A = 1, tr(B) = 0): the point (1, 4) is
on the curve, tr(x) = 1 = A, tr(y) = 0: Compress refuses it; (1, 5) is stored as 01 and comes back;
the code 00 belongs to (0, √B) = (0, 6) alone -/
example : (⟨4⟩ : Fld.GF8) * ⟨4⟩ + 1 * ⟨4⟩ = 1 * 1 * 1 + 1 * 1 + Fld.gf8DstuB2.B ∧
    Fld.gf8DstuB2.f.tr 1 = Fld.gf8DstuB2.A ∧
    Fld.gf8DstuB2.compress (Fld.gf8DstuB2.encXY (1, ⟨4⟩)) = (.badPoint, []) ∧
    Fld.gf8DstuB2.compress (Fld.gf8DstuB2.encXY (1, ⟨5⟩)) = (.ok, [1]) ∧
    Fld.gf8DstuB2.recover [1] = (.ok, Fld.gf8DstuB2.encXY (1, ⟨5⟩)) ∧
    Fld.gf8DstuB2.compress (Fld.gf8DstuB2.encXY (0, ⟨6⟩)) = (.ok, [0]) ∧
    Fld.gf8DstuB2.recover [0] = (.ok, Fld.gf8DstuB2.encXY (0, ⟨6⟩)) := by
  decide +kernel

end Bee2V.C16

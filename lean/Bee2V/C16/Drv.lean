/-
C16 — line protocol of `drv_c16` (see harness/c16.c for the C side and the list of ops).
-/
import Bee2V.C16.Inst
import Bee2V.Base.Proto
namespace Bee2V.C16.Drv
open Bee2V.C16 Bee2V.Proto Bee2V.Gen

/-- rounds of the unbounded C loops the driver is willing to run -/
def fuel : Nat := 4096

/-- "N" = NULL pointer -/
def optHex (s : String) : Option (Option Bytes) :=
  if s = "N" then some none else (parseHex s).map some

def outE (e : Err) (b : Bytes) : String :=
  if e = .ok then s!"{e.code} {toHex b}" else s!"{e.code} -"

def hx (n v : Nat) : String := toHex (C16.natLE n v)

def g12Of (s : String) : Option C16Params.G12 := (parseNat s).bind (C16Params.g12[·]?)
def dstuOf (s : String) : Option C16Params.Dstu := (parseNat s).bind (C16Params.dstu[·]?)
def pfokOf (s : String) : Option C16Params.Pfok := (parseNat s).bind (C16Params.pfok[·]?)

/-- the base point of a dstu op: 2·no octets, taken as given (dstuEcCreate does not validate it) -/
def basePt (s : C16Params.Dstu) (b : Bytes) : Option Pt :=
  let no := (s.m + 7) / 8
  if b.length = 2 * no then some (.A (C16.leNat (b.take no)) (C16.leNat (b.drop no))) else none

def handleB96 : List String → String
  | ["b96.params"] =>
    let s := C16Params.b96
    s!"{s.l} {hx 24 s.p} {hx 24 s.a} {hx 24 s.b} {hx 24 s.q} {hx 24 s.yG}"
  | ["b96.kgen", tape] =>
    match parseHex tape with
    | some tape => let r := b96Ctx.keypairGen tape; s!"{outE r.1 r.2.1} {r.2.2}"
    | _ => "bad-op"
  | ["b96.kval", priv, pub] =>
    match parseHex priv, parseHex pub with
    | some priv, some pub =>
      if priv.length = 24 ∧ pub.length = 48 then s!"{(b96Ctx.keypairVal priv pub).code}" else "bad-op"
    | _, _ => "bad-op"
  | ["b96.pval", pub] =>
    match parseHex pub with
    | some pub => if pub.length = 48 then s!"{(b96Ctx.pubkeyVal pub).code}" else "bad-op"
    | _ => "bad-op"
  | ["b96.pcalc", priv] =>
    match parseHex priv with
    | some priv => if priv.length = 24 then (let r := b96Ctx.pubkeyCalc priv; outE r.1 r.2) else "bad-op"
    | _ => "bad-op"
  | ["b96.sign", oid, h, priv, tape] =>
    match parseHex oid, parseHex h, parseHex priv, parseHex tape with
    | some oid, some h, some priv, some tape =>
      if h.length = 24 ∧ priv.length = 24 then
        (let r := b96Ctx.sign oid h priv tape; s!"{outE r.1 r.2.1} {r.2.2}") else "bad-op"
    | _, _, _, _ => "bad-op"
  | ["b96.sign2", oid, h, priv, t] =>
    match parseHex oid, parseHex h, parseHex priv, optHex t with
    | some oid, some h, some priv, some t =>
      if h.length = 24 ∧ priv.length = 24 then
        (match b96Ctx.sign2 fuel oid h priv t with
         | some r => outE r.1 r.2
         | none => "no-fuel") else "bad-op"
    | _, _, _, _ => "bad-op"
  | ["b96.vfy", oid, h, sig, pub] =>
    match parseHex oid, parseHex h, parseHex sig, parseHex pub with
    | some oid, some h, some sig, some pub =>
      if h.length = 24 ∧ sig.length = 34 ∧ pub.length = 48 then s!"{(b96Ctx.verify oid h sig pub).code}" else "bad-op"
    | _, _, _, _ => "bad-op"
  | _ => "bad-op"

def handleG12 : List String → String
  | ["g12.params", i] =>
    match g12Of i with
    | some s => s!"{s.l} {s.n} {hx s.no s.p} {hx s.no s.a} {hx s.no s.b} {hx (s.l / 8) s.q} {hx s.no s.xP} {hx s.no s.yP}"
    | none => "bad-op"
  | ["g12.kgen", i, tape] =>
    match g12Of i, parseHex tape with
    | some s, some tape => let r := (g12Ctx s).keypairGen tape; s!"{outE r.1 r.2.1} {r.2.2}"
    | _, _ => "bad-op"
  | ["g12.sign", i, h, priv, tape] =>
    match g12Of i, parseHex h, parseHex priv, parseHex tape with
    | some s, some h, some priv, some tape =>
      if h.length = s.l / 8 ∧ priv.length = s.l / 8 then
        (match (g12Ctx s).sign fuel h priv tape with
         | some r => s!"{outE r.1 r.2.1} {r.2.2}"
         | none => "no-fuel") else "bad-op"
    | _, _, _, _ => "bad-op"
  | ["g12.vfy", i, h, sig, pub] =>
    match g12Of i, parseHex h, parseHex sig, parseHex pub with
    | some s, some h, some sig, some pub =>
      if h.length = s.l / 8 ∧ sig.length = s.l / 4 ∧ pub.length = 2 * s.no then s!"{((g12Ctx s).verify h sig pub).code}" else "bad-op"
    | _, _, _, _ => "bad-op"
  | _ => "bad-op"

/-- result of an op whose C loop is unbounded: `none` = the tape could not serve a request -/
def outT (r : Option (Err × Bytes × Nat)) : String :=
  match r with
  | some r => s!"{outE r.1 r.2.1} {r.2.2}"
  | none => "exhausted"

def handleDstu : List String → String
  | ["dstu.params", i] =>
    match dstuOf i with
    | some s => let no := (s.m + 7) / 8; s!"{s.m} {s.k1} {s.k2} {s.k3} {s.A} {s.c} {hx no s.B} {hx no s.n}"
    | none => "bad-op"
  | ["dstu.pgen", i, tape] =>
    match dstuOf i, parseHex tape with
    | some s, some tape => outT ((dstuCtx s .O).pointGen fuel tape 0)
    | _, _ => "bad-op"
  | ["dstu.pval", i, pt] =>
    match dstuOf i, parseHex pt with
    | some s, some pt => if pt.length = 2 * ((s.m + 7) / 8) then s!"{((dstuCtx s .O).pointVal pt).code}" else "bad-op"
    | _, _ => "bad-op"
  | ["dstu.comp", i, pt] =>
    match dstuOf i, parseHex pt with
    | some s, some pt => if pt.length = 2 * ((s.m + 7) / 8) then (let r := (dstuCtx s .O).compress pt; outE r.1 r.2) else "bad-op"
    | _, _ => "bad-op"
  | ["dstu.rec", i, xp] =>
    match dstuOf i, parseHex xp with
    | some s, some xp => if xp.length = (s.m + 7) / 8 then (let r := (dstuCtx s .O).recover xp; outE r.1 r.2) else "bad-op"
    | _, _ => "bad-op"
  | ["dstu.kgen", i, P, tape] =>
    match dstuOf i, parseHex P, parseHex tape with
    | some s, some P, some tape =>
      match basePt s P with
      | some P => outT ((dstuCtx s P).keypairGen fuel tape)
      | none => "bad-op"
    | _, _, _ => "bad-op"
  | ["dstu.sign", i, P, ld, h, priv, tape] =>
    match dstuOf i, parseHex P, parseNat ld, parseHex h, parseHex priv, parseHex tape with
    | some s, some P, some ld, some h, some priv, some tape =>
      match basePt s P with
      | some P =>
        let C := dstuCtx s P
        if priv.length = C.oo ∧ ld ≤ 65536 then outT (C.sign fuel ld h priv tape) else "bad-op"
      | none => "bad-op"
    | _, _, _, _, _, _ => "bad-op"
  | ["dstu.vfy", i, P, ld, h, sig, pub] =>
    match dstuOf i, parseHex P, parseNat ld, parseHex h, parseHex sig, parseHex pub with
    | some s, some P, some ld, some h, some sig, some pub =>
      match basePt s P with
      | some P =>
        let C := dstuCtx s P
        if sig.length = (ld + 7) / 8 ∧ pub.length = 2 * C.no ∧ ld ≤ 65536 then s!"{(C.verify ld h sig pub).code}" else "bad-op"
      | none => "bad-op"
    | _, _, _, _, _, _ => "bad-op"
  | _ => "bad-op"

def handlePfok : List String → String
  | ["pfok.params", i] =>
    match pfokOf i with
    | some s => let no := (s.l + 7) / 8; s!"{s.l} {s.r} {s.n} {hx no s.p} {hx no s.g}"
    | none => "bad-op"
  | ["pfok.kgen", i, tape] =>
    match pfokOf i, parseHex tape with
    | some s, some tape => let r := (pfokCtx s).keypairGen tape; s!"{outE r.1 r.2.1} {r.2.2}"
    | _, _ => "bad-op"
  | ["pfok.pval", i, pub] =>
    match pfokOf i, parseHex pub with
    | some s, some pub => if pub.length = (pfokCtx s).no then s!"{((pfokCtx s).pubkeyVal pub).code}" else "bad-op"
    | _, _ => "bad-op"
  | ["pfok.pcalc", i, priv] =>
    match pfokOf i, parseHex priv with
    | some s, some priv => if priv.length = (pfokCtx s).mo then (let r := (pfokCtx s).pubkeyCalc priv; outE r.1 r.2) else "bad-op"
    | _, _ => "bad-op"
  | ["pfok.dh", i, priv, pub] =>
    match pfokOf i, parseHex priv, parseHex pub with
    | some s, some priv, some pub =>
      let C := pfokCtx s
      if priv.length = C.mo ∧ pub.length = C.no then (let r := C.dh priv pub; outE r.1 r.2) else "bad-op"
    | _, _, _ => "bad-op"
  | ["pfok.mti", i, priv, priv1, pub, pub1] =>
    match pfokOf i, parseHex priv, parseHex priv1, parseHex pub, parseHex pub1 with
    | some s, some priv, some priv1, some pub, some pub1 =>
      let C := pfokCtx s
      if priv.length = C.mo ∧ priv1.length = C.mo ∧ pub.length = C.no ∧ pub1.length = C.no then
        (let r := C.mti priv priv1 pub pub1; outE r.1 r.2) else "bad-op"
    | _, _, _, _, _ => "bad-op"
  | _ => "bad-op"

def handle (toks : List String) : String :=
  match toks with
  | ["hash", d] =>
    match parseHex d with
    | some d => toHex (beltHash d)
    | none => "bad-op"
  | op :: _ =>
    if op.startsWith "b96." then handleB96 toks
    else if op.startsWith "g12." then handleG12 toks
    else if op.startsWith "dstu." then handleDstu toks
    else if op.startsWith "pfok." then handlePfok toks
    else "bad-op"
  | [] => "bad-op"

end Bee2V.C16.Drv

/-
C16 — executable, code-shaped model of src/crypto/dstu.c (DSTU 4145-2002) and of gf2Tr / gf2QSolve
(src/math/gf2.c) over an abstract binary field `FOps F` and an abstract group context `Dstu G F`.
No Mathlib.

Field elements are abstract (`F`); the octet encodings go through `toNat` / `ofNat` (the polynomial-basis
code: bit i = coefficient of x^i).  The bit-0 manipulations of the C text (`wwTestBit(x, 0)`,
`wwSetBit(x, 0, b)`, `wwFlipBit(y, 0)`) are expressed by `low` and by adding the unity, which is what
they are in the polynomial basis.

Repaired behaviours: the public-key check `ec2IsOnA` in dstuVerify (docs/C16.fix-3.diff) and the
x = 0 branches of dstuPointCompress / dstuPointRecover (docs/C16.fix-4.diff), dstuPointCompress refusing the
point (1, y) with tr(y) = 0 (docs/C16.fix-5.diff), the private-key range check of dstuSign (docs/C16.fix-7.diff),
dstuPointRecover rejecting a string whose x becomes 0 after the trace rule (docs/C16.fix-8.diff).
-/
import Bee2V.C16.Common
namespace Bee2V.C16

/-- the operations of the `qr_o` of GF(2^m) that dstu.c and gf2Tr/gf2QSolve use -/
structure FOps (F : Type) where
  /-- extension degree `gf2Deg(f)` -/
  m : Nat
  zero : F
  one : F
  /-- `gf2Add` -/
  add : F → F → F
  /-- `qrMul` -/
  mul : F → F → F
  /-- `qrSqr` -/
  sqr : F → F
  /-- `qrDiv(c, a, b)`: a / b -/
  div : F → F → F
  /-- `qrIsZero` -/
  isZero : F → Bool
  /-- `wwTestBit(a, 0)`: the constant coefficient -/
  low : F → Bool
  /-- `qrTo` + `wwFrom`: the code of an element -/
  toNat : F → Nat
  /-- `qrFrom`: the element with this code, `none` if the code has a bit at position ≥ m -/
  ofNat : Nat → Option F

variable {F G : Type}

namespace FOps

/-- `n` times `t <- step t` -/
def iter (step : F → F) : Nat → F → F
  | 0, t => t
  | n + 1, t => iter step n (step t)

/-- gf2Tr: `t <- a; (m - 1) times: t <- t² + a; return t != 0` -/
def tr (O : FOps F) (a : F) : Bool :=
  !O.isZero (iter (fun t => O.add (O.sqr t) a) (O.m - 1) a)

/-- `x <- b; (m - 1) times: x <- x²` : b^(2^(m-1)) = √b -/
def sqrtF (O : FOps F) (b : F) : F := iter O.sqr (O.m - 1) b

/-- the half-trace loop of gf2QSolve: `x <- t; (m - 1)/2 times: x <- x⁴ + t` -/
def htr (O : FOps F) (t : F) : F :=
  iter (fun x => O.add (O.sqr (O.sqr x)) t) ((O.m - 1) / 2) t

/-- gf2QSolve(x, a, b): a solution of x² + a x = b, `none` = FALSE (odd m) -/
def qsolve (O : FOps F) (a b : F) : Option F :=
  if O.isZero a then some (O.sqrtF b)
  else if O.isZero b then some O.zero
  else
    let t := O.div b (O.sqr a)
    if O.tr t then none
    else some (O.mul (O.htr t) a)

/-- `wwSetBit(x, 0, 0)` -/
def clearLow (O : FOps F) (x : F) : F := if O.low x then O.add x O.one else x

end FOps

structure Dstu (G F : Type) where
  f : FOps F
  /-- coefficient A ∈ {0, 1} -/
  A : Bool
  B : F
  /-- `ec->order` (params->n) -/
  n : Nat
  zero : G
  add : G → G → G
  neg : G → G
  smul : Nat → G → G
  /-- `ec->base` (params->P) -/
  base : G
  /-- affine coordinates, `none` for O -/
  xy : G → Option (F × F)
  /-- the point with these coordinates if they satisfy the curve equation (`ec2IsOnA`) -/
  ofXY : F → F → Option G

namespace Dstu

/-- `O_OF_B(m)` -/
def no (C : Dstu G F) : Nat := (C.f.m + 7) / 8
/-- `order_nb = wwBitSize(ec->order)` -/
def nb (C : Dstu G F) : Nat := bitLen C.n
/-- `order_no` -/
def oo (C : Dstu G F) : Nat := (C.nb + 7) / 8
/-- `B^order_n` for 64-bit words -/
def Wn (C : Dstu G F) : Nat := 2 ^ (64 * ((C.nb + 63) / 64))

def encF (C : Dstu G F) (x : F) : Bytes := natLE C.no (C.f.toNat x)
def encXY (C : Dstu G F) (xy : F × F) : Bytes := C.encF xy.1 ++ C.encF xy.2

/-- `qrFrom(x, point) && qrFrom(y, point + no)` -/
def loadXY (C : Dstu G F) (pt : Bytes) : Option (F × F) :=
  match C.f.ofNat (leNat (pt.take C.no)), C.f.ofNat (leNat (pt.drop C.no)) with
  | some x, some y => some (x, y)
  | _, _ => none

/-- `ecHasOrderA(pt, ec, ec->order)`: n·pt = O -/
def hasOrder (C : Dstu G F) (P : G) : Bool := (C.xy (C.smul C.n P)).isNone

/-- the right-hand side `x³ + A x² + B` as computed in dstuPointGen -/
def rhs (C : Dstu G F) (x : F) : F :=
  let y := C.f.sqr x
  let t := C.f.mul x y
  let t := if C.A then C.f.add t y else t
  C.f.add t C.B

/-- dstuPointGen: (code, point, octets requested); `none` = the tape is exhausted (the C loop is
`while (1)`) or `fuel` rounds were not enough -/
def pointGen (C : Dstu G F) : Nat → Bytes → Nat → Option (Err × Bytes × Nat)
  | 0, _, _ => none
  | fuel + 1, tape, used =>
    match tapeReadStrict C.no tape with
    | none => none
    | some (chunk, rest) =>
      let used := used + C.no
      match C.f.ofNat (leNat chunk % 2 ^ C.f.m) with
      | none => none
      | some x =>
        match C.f.qsolve x (C.rhs x) with
        | none => pointGen C fuel rest used
        | some y =>
          match C.ofXY x y with
          | none => pointGen C fuel rest used
          | some P => if C.hasOrder P then some (.ok, C.encXY (x, y), used) else pointGen C fuel rest used

/-- dstuPointVal -/
def pointVal (C : Dstu G F) (pt : Bytes) : Err :=
  match C.loadXY pt with
  | none => .badPoint
  | some (x, y) =>
    match C.ofXY x y with
    | none => .badPoint
    | some P => if C.hasOrder P then .ok else .badPoint

/-- dstuPointCompress: the x-coordinate with its bit 0 replaced by tr(y / x) -/
def compress (C : Dstu G F) (pt : Bytes) : Err × Bytes :=
  match C.loadXY pt with
  | none => (.badPoint, [])
  | some (x, y) =>
    if C.f.isZero x then (.ok, zeros C.no) else
    let t := C.f.tr (C.f.div y x)
    -- the point (1, y) with tr(y) = 0 has no code of its own (it would get the code of (0, √B)): refused
    if C.f.isZero (C.f.add x C.f.one) && !t then (.badPoint, []) else
    let x0 := C.f.clearLow x
    (.ok, C.encF (if t then C.f.add x0 C.f.one else x0))

/-- dstuPointRecover -/
def recover (C : Dstu G F) (xp : Bytes) : Err × Bytes :=
  match C.f.ofNat (leNat xp) with
  | none => (.badPoint, [])
  | some x =>
    if C.f.isZero x then (.ok, zeros C.no ++ C.encF (C.f.sqrtF C.B)) else
    let trace := C.f.low x
    let x := C.f.clearLow x
    let x := if C.f.tr x != C.A then C.f.add x C.f.one else x
    -- only the zero string codes the point with x = 0 (REPAIRED behaviour, docs/C16.fix-8.diff)
    if C.f.isZero x then (.badPoint, []) else
    -- y <- x + a + b / x²
    let y := C.f.add (C.f.div C.B (C.f.sqr x)) x
    let y := if C.A then C.f.add y C.f.one else y
    match C.f.qsolve C.f.one y with
    | none => (.badParams, [])
    | some z =>
      let y := if C.f.tr z == trace then C.f.mul x z else C.f.add (C.f.mul x z) x
      (.ok, C.encXY (x, y))

/-- the rejection loop of dstuKeypairGen / step 8 of dstuSign: read order_no octets, keep order_nb - 1
bits, repeat while the value is 0.  `none` = tape exhausted / out of fuel. -/
def randTrim (C : Dstu G F) : Nat → Bytes → Nat → Option (Nat × Bytes × Nat)
  | 0, _, _ => none
  | fuel + 1, tape, used =>
    match tapeReadStrict C.oo tape with
    | none => none
    | some (chunk, rest) =>
      let v := leNat chunk % 2 ^ (C.nb - 1)
      if v = 0 then randTrim C fuel rest (used + C.oo) else some (v, rest, used + C.oo)

/-- dstuKeypairGen: (code, privkey ‖ pubkey, octets requested) -/
def keypairGen (C : Dstu G F) (fuel : Nat) (tape : Bytes) : Option (Err × Bytes × Nat) :=
  match C.randTrim fuel tape 0 with
  | none => none
  | some (d, _, used) =>
    match C.xy (C.neg (C.smul d C.base)) with
    | none => some (.badParams, [], used)
    | some Q => some (.ok, natLE C.oo d ++ C.encXY Q, used)

/-- steps 4–7 of dstuSign / 6–8 of dstuVerify: the hash value as a field element (section 5.9 of DSTU),
0 replaced by 1 -/
def hashF (C : Dstu G F) (Hb : Bytes) : Option F :=
  let v := if Hb.length < C.no then leNat Hb
           else leNat (Hb.take C.no) % 2 ^ (8 * (C.no - 1)) +
                2 ^ (8 * (C.no - 1)) * ((leNat (Hb.take C.no) / 2 ^ (8 * (C.no - 1))) % 2 ^ (C.f.m % 8))
  match C.f.ofNat v with
  | none => none
  | some h => some (if C.f.isZero h then C.f.one else h)

/-- steps 9–10 of dstuSign / 13–14 of dstuVerify: `r <- trunc(h·x)` to order_nb - 1 bits -/
def truncR (C : Dstu G F) (h x : F) : Nat := C.f.toNat (C.f.mul x h) % 2 ^ (C.nb - 1)

/-- the `step8:` loop of dstuSign -/
def signLoop (C : Dstu G F) (ld d : Nat) (h : F) : Nat → Bytes → Nat → Option (Err × Bytes × Nat)
  | 0, _, _ => none
  | fuel + 1, tape, used =>
    match C.randTrim (fuel + 1) tape used with
    | none => none
    | some (e, rest, used) =>
      match C.xy (C.smul e C.base) with
      | none => some (.badParams, [], used)
      | some (x, _) =>
        if C.f.isZero x then signLoop C ld d h fuel rest used else
        let r := C.truncR h x
        if r = 0 then signLoop C ld d h fuel rest used else
        let s := addMod C.Wn ((d * r) % C.n) e C.n
        if s = 0 then signLoop C ld d h fuel rest used else
        some (.ok, natLE C.oo r ++ zeros (ld / 16 - C.oo) ++ natLE C.oo s ++ zeros (ld / 16 - C.oo), used)

/-- dstuSign: (code, sig, octets requested) -/
def sign (C : Dstu G F) (fuel ld : Nat) (Hb priv tape : Bytes) : Option (Err × Bytes × Nat) :=
  if ld % 16 ≠ 0 ∨ ld < 16 * C.oo then some (.badInput, [], 0) else
  -- step 2: 0 < d < n (REPAIRED behaviour, docs/C16.fix-7.diff)
  if leNat priv = 0 ∨ leNat priv ≥ C.n then some (.badPrivkey, [], 0) else
  match C.hashF Hb with
  | none => none
  | some h => C.signLoop ld (leNat priv) h fuel tape 0

/-- dstuVerify (sig has ld/8 octets) -/
def verify (C : Dstu G F) (ld : Nat) (Hb sig pub : Bytes) : Err :=
  if ld % 16 ≠ 0 ∨ ld < 16 * C.oo then .badInput else
  match C.loadXY pub with
  | none => .badPubkey
  | some (xq, yq) =>
    match C.ofXY xq yq with
    | none => .badPubkey
    | some Q =>
      match C.hashF Hb with
      | none => .badInput
      | some h =>
        let half := ld / 16
        let r := leNat (sig.take C.oo)
        let s := leNat ((sig.drop half).take C.oo)
        if ((sig.take half).drop C.oo).any (· != 0) ∨ ((sig.drop half).drop C.oo).any (· != 0) then .badSig else
        if r = 0 ∨ s = 0 ∨ r ≥ C.n ∨ s ≥ C.n then .badSig else
        match C.xy (C.add (C.smul s C.base) (C.smul r Q)) with
        | none => .badSig
        | some (x, _) => if r = C.truncR h x then .ok else .badSig

end Dstu
end Bee2V.C16

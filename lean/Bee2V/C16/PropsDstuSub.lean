/-
C16 — dstu: the trace condition and the Compress/Recover round trip for GROUP ELEMENTS of the subgroup of
order n (not only for coordinate pairs with a trace hypothesis): `tr_x_of_double` composed with the abstract
group law through `DCurveLaws` (LemmasDstuSub.lean).
-/
import Bee2V.C16.LemmasDstuSub

namespace Bee2V.C16

variable {G F : Type} [AddCommGroup G] [Field F]

/-- A1: every point of the subgroup of (odd) order n is a double, hence Tr(x_P) = A -/
theorem subgroup_trace (C : Dstu G F) (L : DLaws C) (FL : FLaws C.f) (CL : DCurveLaws C)
    (P : G) (x y : F) (hP : C.n • P = 0) (hxy : C.xy P = some (x, y)) :
    C.f.tr x = C.A :=
  Sub.trace_of_order C L FL CL hP hxy

/-- the same in the words of the model: a point accepted by `hasOrder` (ecHasOrderA) -/
theorem hasOrder_trace (C : Dstu G F) (L : DLaws C) (FL : FLaws C.f) (CL : DCurveLaws C)
    (P : G) (x y : F) (hP : C.hasOrder P = true) (hxy : C.xy P = some (x, y)) :
    C.f.tr x = C.A := by
  refine Sub.trace_of_order C L FL CL ?_ hxy
  unfold Dstu.hasOrder at hP
  rw [Option.isNone_iff_eq_none, L.xy_none, L.smul_eq] at hP
  exact hP

/-- A2: the coordinates of a point of the subgroup round-trip through Compress/Recover, except for the one
point (1, y), tr(y) = 0, that Compress refuses -/
theorem subgroup_recover_compress (C : Dstu G F) (L : DLaws C) (FL : FLaws C.f) (CL : DCurveLaws C)
    (P : G) (x y : F) (hP : C.n • P = 0) (hxy : C.xy P = some (x, y)) :
    (x = 1 ∧ C.f.tr y = false ∧ C.compress (C.encXY (x, y)) = (.badPoint, [])) ∨
    (∃ xp, C.compress (C.encXY (x, y)) = (.ok, xp) ∧ xp.length = C.no ∧
      C.recover xp = (.ok, C.encXY (x, y))) :=
  recover_compress_total C FL x y (CL.on_curve P x y hxy)
    (Or.inr (Sub.trace_of_order C L FL CL hP hxy))

/-- A3: the same for the public key Q = -(d • base) computed by dstuKeypairGen -/
theorem pubkey_recover_compress (C : Dstu G F) (L : DLaws C) (FL : FLaws C.f) (CL : DCurveLaws C)
    (d : Nat) (x y : F) (hxy : C.xy (C.neg (C.smul d C.base)) = some (x, y)) :
    C.f.tr x = C.A ∧
    ((x = 1 ∧ C.f.tr y = false ∧ C.compress (C.encXY (x, y)) = (.badPoint, [])) ∨
     (∃ xp, C.compress (C.encXY (x, y)) = (.ok, xp) ∧ xp.length = C.no ∧
       C.recover xp = (.ok, C.encXY (x, y)))) :=
  ⟨Sub.trace_of_order C L FL CL (Sub.pub_order C L d) hxy,
   subgroup_recover_compress C L FL CL _ x y (Sub.pub_order C L d) hxy⟩

/-- A3 on the output of the model of dstuKeypairGen: the public-key half of the generated pair is the
code of a point with Tr(x) = A that round-trips (or is the refused point) -/
theorem keypairGen_recover_compress (C : Dstu G F) (L : DLaws C) (FL : FLaws C.f) (CL : DCurveLaws C)
    (fuel : Nat) (tape out : Bytes) (used : Nat)
    (h : C.keypairGen fuel tape = some (.ok, out, used)) :
    ∃ d x y, out = natLE C.oo d ++ C.encXY (x, y) ∧
      C.xy (C.neg (C.smul d C.base)) = some (x, y) ∧ C.f.tr x = C.A ∧
      ((x = 1 ∧ C.f.tr y = false ∧ C.compress (C.encXY (x, y)) = (.badPoint, [])) ∨
       (∃ xp, C.compress (C.encXY (x, y)) = (.ok, xp) ∧ xp.length = C.no ∧
         C.recover xp = (.ok, C.encXY (x, y)))) := by
  obtain ⟨d, _, x, y, _, hxy, hout⟩ := Sub.keypairGen_ok C h
  have := pubkey_recover_compress C L FL CL d x y hxy
  exact ⟨d, x, y, hout, hxy, this.1, this.2⟩

/-! ### non-vacuity

`Sub.gf8G`: the WHOLE group (cyclic, order 14) of y² + xy = x³ + x² + 1 over GF(8) as `ZMod 14` with the
coordinates tabulated, base point (3, 3) of order n = 7.  All three hypothesis structures hold for it. -/

example : DLaws Sub.gf8G ∧ FLaws Sub.gf8G.f ∧ DCurveLaws Sub.gf8G :=
  ⟨Sub.gf8G_DLaws, Fld.gf8_laws, Sub.gf8G_CurveLaws⟩

/-- A1 applied to 4·(2, 5) = (7, 7), an element of the subgroup … -/
example : Sub.gf8G.f.tr (⟨7⟩ : Fld.GF8) = true :=
  subgroup_trace Sub.gf8G Sub.gf8G_DLaws Fld.gf8_laws Sub.gf8G_CurveLaws 4 ⟨7⟩ ⟨7⟩
    (by decide +kernel) (by decide +kernel)

/-- … while the hypothesis n • P = 0 cannot be dropped: the generator (2, 5) of the whole group is on the
curve and has Tr(x) = 0 ≠ A -/
example : Sub.gf8G.xy 1 = some (⟨2⟩, ⟨5⟩) ∧ (7 : Nat) • (1 : ZMod 14) ≠ 0 ∧
    Sub.gf8G.f.tr (⟨2⟩ : Fld.GF8) = false := by
  decide +kernel

/-- A2 applied to the same element: the second alternative holds with the code 07 -/
example : ∃ xp, Sub.gf8G.compress (Sub.gf8G.encXY (⟨7⟩, ⟨7⟩)) = (.ok, xp) ∧ xp.length = Sub.gf8G.no ∧
    Sub.gf8G.recover xp = (.ok, Sub.gf8G.encXY (⟨7⟩, ⟨7⟩)) :=
  (subgroup_recover_compress Sub.gf8G Sub.gf8G_DLaws Fld.gf8_laws Sub.gf8G_CurveLaws 4 ⟨7⟩ ⟨7⟩
    (by decide +kernel) (by decide +kernel)).resolve_left (fun h => absurd h.1 (by decide +kernel))

/-- A3: the model of dstuKeypairGen run on the tape 03: d = 3, Q = -(3 • base) = 8·(2, 5) = (5, 5);
the theorem applies to its output -/
example : Sub.gf8G.keypairGen 1 [3] = some (.ok, [3, 5, 5], 1) ∧
    Sub.gf8G.f.tr (⟨5⟩ : Fld.GF8) = true := by
  have h : Sub.gf8G.keypairGen 1 [3] = some (.ok, [3, 5, 5], 1) := by decide +kernel
  have hxy : Sub.gf8G.xy (Sub.gf8G.neg (Sub.gf8G.smul 3 Sub.gf8G.base)) = some (⟨5⟩, ⟨5⟩) := by
    decide +kernel
  exact ⟨h, (pubkey_recover_compress Sub.gf8G Sub.gf8G_DLaws Fld.gf8_laws Sub.gf8G_CurveLaws 3 ⟨5⟩ ⟨5⟩
    hxy).1⟩

end Bee2V.C16

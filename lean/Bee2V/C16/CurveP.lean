/-
C16 — executable instance of the group operations for the prime curves (bign96, g12s): affine points of
y² = x³ + ax + b over F_p (`Nat` modulo p), textbook chord-and-tangent law, double-and-add.
Written independently of the library's Jacobian formulas (ecp.c): the correspondence run compares the
two.  No Mathlib.
-/
import Bee2V.C16.G12s
namespace Bee2V.C16

/-- affine point or the point at infinity (coordinates: residues for prime curves, polynomial codes for
binary curves) -/
inductive Pt
  | O
  | A (x y : Nat)
  deriving DecidableEq, Repr, Inhabited

def Pt.xy : Pt → Option (Nat × Nat)
  | .O => none
  | .A x y => some (x, y)

/-- (a - b) mod p for a, b < p -/
def fsub (p a b : Nat) : Nat := (a + p - b) % p

structure CurveP where
  p : Nat
  a : Nat
  b : Nat

namespace CurveP

/-- x, y < p and y² = x³ + ax + b (mod p) -/
def isOn (E : CurveP) (x y : Nat) : Bool :=
  x < E.p && y < E.p && (y * y) % E.p == (((x * x) % E.p * x) % E.p + (E.a * x) % E.p + E.b) % E.p

def add (E : CurveP) : Pt → Pt → Pt
  | .O, Q => Q
  | P, .O => P
  | .A x1 y1, .A x2 y2 =>
    let p := E.p
    if x1 = x2 then
      if (y1 + y2) % p = 0 then .O
      else
        let lam := ((3 * x1 * x1 + E.a) % p * invMod (2 * y1 % p) p) % p
        let x3 := fsub p (fsub p (lam * lam % p) x1) x2
        .A x3 (fsub p (lam * fsub p x1 x3 % p) y1)
    else
      let lam := (fsub p y2 y1 * invMod (fsub p x2 x1) p) % p
      let x3 := fsub p (fsub p (lam * lam % p) x1) x2
      .A x3 (fsub p (lam * fsub p x1 x3 % p) y1)

def neg (E : CurveP) : Pt → Pt
  | .O => .O
  | .A x y => .A x ((E.p - y) % E.p)

/-- k·P by binary double-and-add (recursion on k/2) -/
def smul (E : CurveP) (k : Nat) (P : Pt) : Pt :=
  if _h : k = 0 then .O
  else
    let h := E.smul (k / 2) P
    let d := E.add h h
    if k % 2 = 1 then E.add d P else d
termination_by k
decreasing_by omega

def ectx (E : CurveP) (q : Nat) (base : Pt) : ECtx Pt :=
  { q := q, zero := .O, add := E.add, neg := E.neg, smul := E.smul, base := base, xy := Pt.xy, ofXY := fun x y => if E.isOn x y then some (.A x y) else none }

end CurveP
end Bee2V.C16

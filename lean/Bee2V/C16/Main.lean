import Bee2V.C16.Drv
/-- driver executable of area C16 (`drv_c16`) -/
def main : IO Unit := Bee2V.Proto.runLoop Bee2V.C16.Drv.handle

/-
C16 — executable instance of GF(2^m) (polynomial basis, `Nat`-coded polynomials: bit i = coefficient of
x^i, modulus x^m + x^k1 + x^k2 + x^k3 + 1) and of the affine group law of the binary curve
y² + xy = x³ + A x² + B.  Written independently of gf2.c / pp.c / ec2.c (Lopez-Dahab coordinates):
the correspondence run compares the two.  No Mathlib.
-/
import Bee2V.C16.Dstu
import Bee2V.C16.CurveP
namespace Bee2V.C16

structure GF2 where
  m : Nat
  /-- the middle exponents (k1 > k2 > k3 > 0, or k1 alone for a trinomial) -/
  ks : List Nat

namespace GF2

/-- one folding step of the reduction: x^m = x^k1 + x^k2 + x^k3 + 1 -/
def fold (f : GF2) (t : Nat) : Nat :=
  let hi := t >>> f.m
  let lo := t % 2 ^ f.m
  f.ks.foldl (fun acc k => acc ^^^ (hi <<< k)) (lo ^^^ hi)

/-- reduction of a polynomial of degree < 2m (a few folds are enough; `fuel` bounds them) -/
def red (f : GF2) : Nat → Nat → Nat
  | 0, t => t
  | fuel + 1, t => if t >>> f.m = 0 then t else red f fuel (f.fold t)

/-- carry-less product: xor of a·x^i over the set bits i of b -/
def mulRaw (a b : Nat) : Nat :=
  (List.range (bitLen b)).foldl (fun acc i => if b.testBit i then acc ^^^ (a <<< i) else acc) 0

def mul (f : GF2) (a b : Nat) : Nat := f.red 64 (mulRaw a b)
def sqr (f : GF2) (a : Nat) : Nat := f.mul a a

/-- the modulus as a polynomial -/
def modulus (f : GF2) : Nat := f.ks.foldl (fun acc k => acc ^^^ (1 <<< k)) ((1 <<< f.m) ^^^ 1)

/-- extended Euclid over GF(2)[x]: invariant g1·a ≡ u, g2·a ≡ v (mod modulus); ends with u = 1 -/
def invLoop : Nat → Nat → Nat → Nat → Nat → Nat
  | 0, _, _, g1, _ => g1
  | fuel + 1, u, v, g1, g2 =>
    if u ≤ 1 then g1 else
    if bitLen u < bitLen v then invLoop fuel v u g2 g1
    else
      let j := bitLen u - bitLen v
      invLoop fuel (u ^^^ (v <<< j)) v (g1 ^^^ (g2 <<< j)) g2

/-- a⁻¹ (0 for a = 0) -/
def inv (f : GF2) (a : Nat) : Nat :=
  if a = 0 then 0 else f.red 64 (invLoop (4 * f.m + 8) a f.modulus 1 0)

def div (f : GF2) (a b : Nat) : Nat := f.mul a (f.inv b)

def fops (f : GF2) : FOps Nat :=
  { m := f.m, zero := 0, one := 1, add := fun a b => a ^^^ b, mul := f.mul, sqr := f.sqr, div := f.div, isZero := fun a => a == 0, low := fun a => a % 2 == 1, toNat := id, ofNat := fun v => if v < 2 ^ f.m then some v else none }

end GF2

structure CurveB where
  f : GF2
  A : Bool
  B : Nat

namespace CurveB

/-- x, y field elements with y² + xy = x³ + A x² + B -/
def isOn (E : CurveB) (x y : Nat) : Bool :=
  let f := E.f
  x < 2 ^ f.m && y < 2 ^ f.m &&
    (f.sqr y ^^^ f.mul x y) == (f.mul (f.sqr x) x ^^^ (if E.A then f.sqr x else 0) ^^^ E.B)

def neg (_E : CurveB) : Pt → Pt
  | .O => .O
  | .A x y => .A x (x ^^^ y)

def add (E : CurveB) : Pt → Pt → Pt
  | .O, Q => Q
  | P, .O => P
  | .A x1 y1, .A x2 y2 =>
    let f := E.f
    let a := if E.A then 1 else 0
    if x1 = x2 then
      if y1 ^^^ y2 = x1 then .O           -- Q = -P (includes the doubling of a point with x = 0)
      else
        -- doubling: λ = x + y/x
        let lam := x1 ^^^ f.div y1 x1
        let x3 := f.sqr lam ^^^ lam ^^^ a
        .A x3 (f.sqr x1 ^^^ f.mul (lam ^^^ 1) x3)
    else
      let lam := f.div (y1 ^^^ y2) (x1 ^^^ x2)
      let x3 := f.sqr lam ^^^ lam ^^^ x1 ^^^ x2 ^^^ a
      .A x3 (f.mul lam (x1 ^^^ x3) ^^^ x3 ^^^ y1)

def smul (E : CurveB) (k : Nat) (P : Pt) : Pt :=
  if _h : k = 0 then .O
  else
    let h := E.smul (k / 2) P
    let d := E.add h h
    if k % 2 = 1 then E.add d P else d
termination_by k
decreasing_by omega

def dstu (E : CurveB) (n : Nat) (base : Pt) : Dstu Pt Nat :=
  { f := E.f.fops, A := E.A, B := E.B, n := n, zero := .O, add := E.add, neg := E.neg, smul := E.smul, base := base, xy := Pt.xy, ofXY := fun x y => if E.isOn x y then some (.A x y) else none }

end CurveB
end Bee2V.C16

/-
C16 — helper lemmas for dstuPointCompress / dstuPointRecover: octet round trips of field elements and
the normal forms of the two functions over a field satisfying `FLaws`.
-/
import Bee2V.C16.LemmasField
import Bee2V.C16.LemmasPfok

namespace Bee2V.C16.Fld
open Bee2V.C16

variable {F G : Type} [Field F]

/-! ### octets of field elements -/

section enc
variable (C : Dstu G F) (L : FLaws C.f)

omit [Field F] in
theorem m_le_no : C.f.m ≤ 8 * C.no := by unfold Dstu.no; omega

omit [Field F] in
theorem encF_length (x : F) : (C.encF x).length = C.no := Pf.natLE_length _ _

omit [Field F] in
theorem encXY_length (p : F × F) : (C.encXY p).length = C.no + C.no := by
  unfold Dstu.encXY; rw [List.length_append, encF_length, encF_length]

include L

theorem leNat_encF (x : F) : leNat (C.encF x) = C.f.toNat x :=
  Pf.leNat_natLE' (lt_of_lt_of_le (L.toNat_lt x) (Nat.pow_le_pow_right (by norm_num) (m_le_no C)))

theorem decode_encF (x : F) : C.f.ofNat (leNat (C.encF x)) = some x := by
  rw [leNat_encF C L, L.enc_dec]

theorem encF_zero : C.encF 0 = zeros C.no := by
  unfold Dstu.encF; rw [L.toNat_zero, Pf.natLE_zero]

theorem decode_zeros (n : Nat) : C.f.ofNat (leNat (zeros n)) = some 0 := by
  rw [Pf.leNat_zeros, ← L.toNat_zero, L.enc_dec]

theorem loadXY_encXY (x y : F) : C.loadXY (C.encXY (x, y)) = some (x, y) := by
  unfold Dstu.loadXY Dstu.encXY
  simp only
  rw [List.take_left' (encF_length C x), List.drop_left' (encF_length C x),
    decode_encF C L, decode_encF C L]

/-- codes are injective -/
theorem encF_inj {x y : F} (h : C.encF x = C.encF y) : x = y := by
  have := decode_encF C L x
  rw [h, decode_encF C L] at this
  exact (Option.some.inj this).symm

end enc

/-! ### normal forms -/

section forms
variable (C : Dstu G F)

/-- the x-coordinate after `wwSetBit(x, 0, 0)` and the trace correction -/
def xfix (x' : F) : F :=
  if C.f.tr (C.f.clearLow x') != C.A then C.f.clearLow x' + 1 else C.f.clearLow x'

/-- x + A + B / x² as dstuPointRecover computes it -/
def bval (x : F) : F := if C.A then C.B / (x * x) + x + 1 else C.B / (x * x) + x

/-- the choice of the root -/
def ysel (x z : F) (trace : Bool) : F := if C.f.tr z == trace then x * z else x * z + x

variable (L : FLaws C.f)
include L

theorem compress_zero (y : F) : C.compress (C.encXY (0, y)) = (.ok, zeros C.no) := by
  unfold Dstu.compress
  rw [loadXY_encXY C L]
  simp only
  rw [if_pos ((L.isZero_iff 0).2 rfl)]

theorem isZero_add_one (x : F) : C.f.isZero (x + 1) = true ↔ x = 1 := by
  rw [L.isZero_iff]
  constructor
  · intro h; linear_combination h - L.char2 1
  · intro h; rw [h]; exact L.char2 1

/-- the point (1, y) with tr(y) = 0 is refused -/
theorem compress_one_refused {y : F} (hy : C.f.tr y = false) :
    C.compress (C.encXY (1, y)) = (.badPoint, []) := by
  unfold Dstu.compress
  rw [loadXY_encXY C L]
  simp only
  rw [(isZero_false_iff L 1).2 one_ne_zero]
  simp only [Bool.false_eq_true, if_false, L.div_eq, L.add_eq, L.one_eq, div_one, hy,
    (isZero_add_one C L 1).2 rfl, Bool.not_false, Bool.and_self, if_true]

theorem compress_nz {x : F} (hx : x ≠ 0) (y : F) (hx1 : x = 1 → C.f.tr (y / x) = true) :
    C.compress (C.encXY (x, y)) =
      (.ok, C.encF (if C.f.tr (y / x) then C.f.clearLow x + 1 else C.f.clearLow x)) := by
  have hcond : (C.f.isZero (x + 1) && !C.f.tr (y / x)) = false := by
    cases h : C.f.isZero (x + 1)
    · rfl
    · rw [hx1 ((isZero_add_one C L x).1 h)]; rfl
  unfold Dstu.compress
  rw [loadXY_encXY C L]
  simp only
  rw [(isZero_false_iff L x).2 hx]
  simp only [Bool.false_eq_true, if_false, L.div_eq, L.add_eq, L.one_eq, hcond]

omit [Field F] L in
theorem recover_none {xp : Bytes} (h : C.f.ofNat (leNat xp) = none) :
    C.recover xp = (.badPoint, []) := by
  unfold Dstu.recover; rw [h]

theorem recover_zero {xp : Bytes} (h : C.f.ofNat (leNat xp) = some 0) :
    C.recover xp = (.ok, C.encXY (0, C.f.sqrtF C.B)) := by
  unfold Dstu.recover
  rw [h]
  simp only
  rw [if_pos ((L.isZero_iff 0).2 rfl)]
  unfold Dstu.encXY
  rw [encF_zero C L]

theorem recover_nz {xp : Bytes} {x' : F} (h : C.f.ofNat (leNat xp) = some x') (hx : x' ≠ 0)
    (hf : xfix C x' ≠ 0) :
    C.recover xp =
      match C.f.qsolve C.f.one (bval C (xfix C x')) with
      | none => (.badParams, [])
      | some z => (.ok, C.encXY (xfix C x', ysel C (xfix C x') z (C.f.low x'))) := by
  have e := (isZero_false_iff L (xfix C x')).2 hf
  unfold xfix at e
  unfold Dstu.recover
  rw [h]
  simp only
  rw [(isZero_false_iff L x').2 hx]
  simp only [Bool.false_eq_true, if_false, L.div_eq, L.add_eq, L.one_eq, L.sqr_eq, L.mul_eq, e]
  rfl

/-- a string whose x-coordinate becomes 0 after the trace rule is rejected (docs/C16.fix-8.diff) -/
theorem recover_nz_zero {xp : Bytes} {x' : F} (h : C.f.ofNat (leNat xp) = some x') (hx : x' ≠ 0)
    (hf : xfix C x' = 0) : C.recover xp = (.badPoint, []) := by
  have e := (L.isZero_iff (xfix C x')).2 hf
  unfold xfix at e
  unfold Dstu.recover
  rw [h]
  simp only
  rw [(isZero_false_iff L x').2 hx]
  simp only [Bool.false_eq_true, if_false, L.add_eq, L.one_eq, e, if_true]

omit L in
/-- the curve equation in terms of w = y / x -/
theorem curve_w {x y : F} (hx : x ≠ 0)
    (hc : y * y + x * y = x * x * x + (if C.A then x * x else 0) + C.B) :
    (y / x) * (y / x) + y / x = bval C x := by
  unfold bval
  cases hA : C.A <;> rw [hA] at hc <;> simp only [Bool.false_eq_true, if_false, if_true] at hc ⊢ <;>
    field_simp <;> linear_combination hc

/-- and back: any root z of z² + z = x + A + B/x² gives the points (x, xz), (x, xz + x) -/
theorem curve_of_root {x z : F} (hx : x ≠ 0) (hz : z * z + z = bval C x) (trace : Bool) :
    ysel C x z trace * ysel C x z trace + x * ysel C x z trace
      = x * x * x + (if C.A then x * x else 0) + C.B := by
  have hb : (x * x) * bval C x = x * x * x + (if C.A then x * x else 0) + C.B := by
    unfold bval
    cases C.A <;> simp only [Bool.false_eq_true, if_false, if_true] <;> field_simp <;> ring
  rw [← hb, ← hz]
  unfold ysel
  split
  · ring
  · linear_combination L.char2 (x * x * z) + L.char2 (x * x)

omit [Field F] L in
theorem clearLow_false {O : FOps F} {x : F} (h : O.low x = false) : O.clearLow x = x := by
  unfold FOps.clearLow; rw [h]; simp

omit L in
theorem clearLow_true {O : FOps F} (L : FLaws O) {x : F} (h : O.low x = true) :
    O.clearLow x = x + 1 := by
  unfold FOps.clearLow; rw [h, if_pos rfl, L.add_eq, L.one_eq]

/-- the stored x-coordinate is not zero unless x = 1 and tr(y) = 0 -/
theorem stored_props {x : F} (hx : x ≠ 0) (t : Bool) (hx1 : x = 1 → t = true) :
    let x' := if t then C.f.clearLow x + 1 else C.f.clearLow x
    x' ≠ 0 ∧ C.f.low x' = t ∧ C.f.clearLow x' = C.f.clearLow x := by
  have hl0 := low_clearLow L x
  cases t
  · simp only [Bool.false_eq_true, if_false]
    refine ⟨?_, hl0, ?_⟩
    · intro h0
      rcases clearLow_cases L x with ⟨_, e⟩ | ⟨_, e⟩
      · exact hx (e.symm.trans h0)
      · rw [e] at h0
        have : x = 1 := by linear_combination h0 - L.char2 1
        exact absurd (hx1 this) (by simp)
    · exact clearLow_false hl0
  · simp only [if_true]
    have hl1 : C.f.low (C.f.clearLow x + 1) = true := by rw [L.low_add_one, hl0]; rfl
    refine ⟨?_, hl1, ?_⟩
    · intro h0
      rw [h0, L.low_zero] at hl1
      cases hl1
    · rw [clearLow_true L hl1, add_one_add_one L]

/-- clearing bit 0 and correcting the trace reconstructs x -/
theorem xfix_clearLow {x : F} (ht : C.f.tr x = C.A) {x' : F} (h : C.f.clearLow x' = C.f.clearLow x) :
    xfix C x' = x := by
  unfold xfix
  rw [h]
  rcases clearLow_cases L x with ⟨_, e⟩ | ⟨_, e⟩
  · rw [e, ht]; simp
  · rw [e, tr_add_one L, ht, add_one_add_one L]
    cases C.A <;> simp

/-- Recover ∘ Compress = id, the point (1, y) with tr(y) = 0 set aside -/
theorem recover_compress_aux (x y : F)
    (hc : y * y + x * y = x * x * x + (if C.A then x * x else 0) + C.B)
    (htr : x = 0 ∨ C.f.tr x = C.A)
    (hx1 : x = 1 → C.f.tr y = true) :
    ∃ xp, C.compress (C.encXY (x, y)) = (.ok, xp) ∧ xp.length = C.no ∧
      C.recover xp = (.ok, C.encXY (x, y)) := by
  by_cases hx : x = 0
  · subst hx
    refine ⟨_, compress_zero C L y, Pf.zeros_length _, ?_⟩
    rw [recover_zero C L (decode_zeros C L _)]
    have hB : C.B = y * y := by
      have : y * y = C.B := by
        rw [← sub_eq_zero]
        have h := hc
        simp only [zero_mul, mul_zero, ite_self, add_zero, zero_add] at h
        linear_combination h
      exact this.symm
    rw [hB, sqrtF_mul_self L]
  · have ht : C.f.tr x = C.A := htr.resolve_left hx
    have hx1' : x = 1 → C.f.tr (y / x) = true := by
      intro h1; rw [h1, div_one]; exact hx1 h1
    obtain ⟨hs0, hslow, hsclr⟩ := stored_props C L hx (C.f.tr (y / x)) hx1'
    refine ⟨_, compress_nz C L hx y hx1', encF_length C _, ?_⟩
    rw [recover_nz C L (decode_encF C L _) hs0 (by rw [xfix_clearLow C L ht hsclr]; exact hx), xfix_clearLow C L ht hsclr, hslow]
    obtain ⟨z, hz, hzw⟩ := qsolve_one L (curve_w C hx hc)
    rw [hz]
    simp only
    have hy : ysel C x z (C.f.tr (y / x)) = y := by
      unfold ysel
      have hxx : x * (y / x) = y := by field_simp
      rcases hzw with e | e
      · rw [e, beq_self_eq_true, if_pos rfl]
        exact hxx
      · rw [e, tr_add_one L]
        have : ((!C.f.tr (y / x)) == C.f.tr (y / x)) = false := by cases C.f.tr (y / x) <;> rfl
        rw [this]
        simp only [Bool.false_eq_true, if_false]
        linear_combination hxx + L.char2 x
    rw [hy]

/-- Compress says ERR_BAD_POINT on an encoded pair exactly for (1, y), tr(y) = 0 -/
theorem compress_bad_iff (x y : F) :
    C.compress (C.encXY (x, y)) = (.badPoint, []) ↔ x = 1 ∧ C.f.tr y = false := by
  constructor
  · intro h
    by_cases hx : x = 0
    · subst hx; rw [compress_zero C L] at h; cases h
    · by_contra hn
      have hx1 : x = 1 → C.f.tr (y / x) = true := by
        intro h1
        rw [h1, div_one]
        cases ht : C.f.tr y
        · exact absurd ⟨h1, ht⟩ hn
        · rfl
      rw [compress_nz C L hx y hx1] at h
      cases h
  · rintro ⟨h1, hy⟩
    rw [h1]; exact compress_one_refused C L hy

theorem encXY_inj {p q : F × F} (h : C.encXY p = C.encXY q) : p = q := by
  unfold Dstu.encXY at h
  obtain ⟨h1, h2⟩ := List.append_inj h (by rw [encF_length, encF_length])
  exact Prod.ext (encF_inj C L h1) (encF_inj C L h2)

end forms

end Bee2V.C16.Fld

/-
C16 — properties of the pfok model (src/crypto/pfok.c): the Montgomery group B_p with the single
constant R = 2^lR, exponentiation in it, and the agreement of pfokDH / pfokMTI.

Hypotheses used throughout: `hp : Nat.Prime C.p`, `hp2 : C.p ≠ 2`; where octets are decoded again:
`hno : C.p < 2 ^ (8 * C.no)` (p fits into `no` octets) and `hg : C.g % C.p ≠ 0`.
-/
import Bee2V.C16.LemmasPfok
import Mathlib.Tactic.NormNum.Prime

namespace Bee2V.C16
open Pf

/-! ### 1. halving, R⁻¹ -/

theorem halve_spec {p : Nat} (hp : p % 2 = 1) (x : Nat) :
    (2 * halve p x) % p = x % p ∧ (x < p → halve p x < p) :=
  ⟨halve_mod hp x, fun h => halve_lt h⟩

theorem rinv_spec (C : Pfok) (hp : Nat.Prime C.p) (hp2 : C.p ≠ 2) :
    (C.rinv * 2 ^ C.lR) % C.p = 1 % C.p :=
  rinv_mod C (odd_of_prime hp hp2)

/-! ### 2. the Montgomery multiplication: `mulM u v · 2^lR ≡ u v (mod p)` -/

theorem mulM_spec (C : Pfok) (hp : Nat.Prime C.p) (hp2 : C.p ≠ 2) (u v : Nat) :
    (C.mulM u v * 2 ^ C.lR) % C.p = (u * v) % C.p ∧ C.mulM u v < C.p :=
  ⟨mulM_mod C (odd_of_prime hp hp2) u v, mulM_lt C hp.pos u v⟩

theorem mulM_zmod (C : Pfok) (hp : Nat.Prime C.p) (hp2 : C.p ≠ 2) (u v : Nat) :
    ((C.mulM u v : Nat) : ZMod C.p) = u * v * ((2 : ZMod C.p) ^ C.lR)⁻¹ :=
  haveI : Fact (Nat.Prime C.p) := ⟨hp⟩
  mulM_cast C hp2 u v

theorem mulM_comm (C : Pfok) (u v : Nat) : C.mulM u v = C.mulM v u := by
  unfold Pfok.mulM; rw [Nat.mul_comm u v]

theorem mulM_assoc (C : Pfok) (hp : Nat.Prime C.p) (hp2 : C.p ≠ 2) (u v w : Nat) :
    C.mulM (C.mulM u v) w = C.mulM u (C.mulM v w) :=
  haveI : Fact (Nat.Prime C.p) := ⟨hp⟩
  Pf.mulM_assoc C hp2 u v w

theorem mulM_unity (C : Pfok) (hp : Nat.Prime C.p) (hp2 : C.p ≠ 2) {u : Nat} (hu : u < C.p) :
    C.mulM u C.unity = u :=
  haveI : Fact (Nat.Prime C.p) := ⟨hp⟩
  Pf.mulM_unity C hp2 hu

/-! ### 3. exponentiation in B_p -/

theorem powM_spec (C : Pfok) (hp : Nat.Prime C.p) (hp2 : C.p ≠ 2) (a e : Nat) :
    ((C.powM a e : Nat) : ZMod C.p)
      = ((a : ZMod C.p) * ((2 : ZMod C.p) ^ C.lR)⁻¹) ^ e * (2 : ZMod C.p) ^ C.lR :=
  haveI : Fact (Nat.Prime C.p) := ⟨hp⟩
  powM_cast C hp2 a e

theorem powM_lt (C : Pfok) (hp : Nat.Prime C.p) (a e : Nat) : C.powM a e < C.p :=
  Pf.powM_lt C hp.pos a e

theorem powM_zero (C : Pfok) (a : Nat) : C.powM a 0 = C.unity := by
  rw [Pfok.powM]; simp

theorem powM_one (C : Pfok) (hp : Nat.Prime C.p) (hp2 : C.p ≠ 2) {a : Nat} (ha : a < C.p) :
    C.powM a 1 = a := by
  have : Fact (Nat.Prime C.p) := ⟨hp⟩
  apply eq_of_cast_eq (Pf.powM_lt C hp.pos _ _) ha
  rw [powM_cast C hp2]
  have hR := R_ne_zero C hp2
  field_simp

theorem powM_add (C : Pfok) (hp : Nat.Prime C.p) (hp2 : C.p ≠ 2) (a x y : Nat) :
    C.powM a (x + y) = C.mulM (C.powM a x) (C.powM a y) := by
  have : Fact (Nat.Prime C.p) := ⟨hp⟩
  apply eq_of_cast_eq (Pf.powM_lt C hp.pos _ _) (mulM_lt C hp.pos _ _)
  rw [mulM_cast C hp2, powM_cast C hp2, powM_cast C hp2, powM_cast C hp2, pow_add]
  have hR := R_ne_zero C hp2
  field_simp

theorem powM_pow (C : Pfok) (hp : Nat.Prime C.p) (hp2 : C.p ≠ 2) (a x y : Nat) :
    C.powM (C.powM a x) y = C.powM a (x * y) :=
  haveI : Fact (Nat.Prime C.p) := ⟨hp⟩
  powM_powM C hp2 a x y

theorem powM_comm (C : Pfok) (hp : Nat.Prime C.p) (hp2 : C.p ≠ 2) (a x y : Nat) :
    C.powM (C.powM a x) y = C.powM (C.powM a y) x := by
  rw [powM_pow C hp hp2, powM_pow C hp hp2, Nat.mul_comm]

theorem powM_ne_zero (C : Pfok) (hp : Nat.Prime C.p) (hp2 : C.p ≠ 2) {a : Nat}
    (ha : a % C.p ≠ 0) (e : Nat) : C.powM a e ≠ 0 :=
  haveI : Fact (Nat.Prime C.p) := ⟨hp⟩
  Pf.powM_ne_zero C hp2 ha e

/-! ### 4. public keys -/

theorem pfok_pubkey_valid (C : Pfok) (hp : Nat.Prime C.p) (hp2 : C.p ≠ 2)
    (hno : C.p < 2 ^ (8 * C.no)) (hg : C.g % C.p ≠ 0) {priv : Bytes}
    (hx : leNat priv < 2 ^ C.r) :
    ∃ pub, C.pubkeyCalc priv = (.ok, pub) ∧ pub.length = C.no ∧ C.pubkeyVal pub = .ok ∧
      leNat pub = C.powM C.g (leNat priv) := by
  refine ⟨_, pubkeyCalc_eq C hx, natLE_length _ _, ?_, leNat_pub C hp.pos hno _ _⟩
  unfold Pfok.pubkeyVal
  simp only
  rw [leNat_pub C hp.pos hno, if_neg]
  have h0 := powM_ne_zero C hp hp2 hg (leNat priv)
  have h1 := powM_lt C hp C.g (leNat priv)
  omega

theorem pfok_keygen_valid (C : Pfok) (hp : Nat.Prime C.p) (hp2 : C.p ≠ 2)
    (hno : C.p < 2 ^ (8 * C.no)) (hg : C.g % C.p ≠ 0) {tape kp : Bytes} {used : Nat}
    (h : C.keypairGen tape = (.ok, kp, used)) :
    (kp.take C.mo).length = C.mo ∧ (kp.drop C.mo).length = C.no ∧
    leNat (kp.take C.mo) < 2 ^ C.r ∧
    C.pubkeyCalc (kp.take C.mo) = (.ok, kp.drop C.mo) ∧ C.pubkeyVal (kp.drop C.mo) = .ok := by
  unfold Pfok.keypairGen at h
  simp only [Prod.mk.injEq, true_and] at h
  obtain ⟨hkp, -⟩ := h
  subst hkp
  have hl : (natLE C.mo (leNat (tapeRead C.mo tape).1 % 2 ^ C.r)).length = C.mo := natLE_length _ _
  rw [List.take_left' hl, List.drop_left' hl]
  have hx : leNat (tapeRead C.mo tape).1 % 2 ^ C.r < 2 ^ C.r := Nat.mod_lt _ (Nat.pow_pos (by norm_num))
  have hx8 : leNat (tapeRead C.mo tape).1 % 2 ^ C.r < 2 ^ (8 * C.mo) :=
    lt_of_lt_of_le hx (Nat.pow_le_pow_right (by norm_num) (r_le_mo C))
  have hle := leNat_natLE' hx8
  have hx' : leNat (natLE C.mo (leNat (tapeRead C.mo tape).1 % 2 ^ C.r)) < 2 ^ C.r := by
    rw [hle]; exact hx
  obtain ⟨pub, h1, h2, h3, h4⟩ := pfok_pubkey_valid C hp hp2 hno hg hx'
  rw [pubkeyCalc_eq C hx'] at h1
  rw [hle] at h1
  simp only [Prod.mk.injEq, true_and] at h1
  subst h1
  refine ⟨hl, natLE_length _ _, hx', ?_, h3⟩
  rw [pubkeyCalc_eq C hx', hle]

/-! ### 5. pfokDH: both sides derive the same key -/

/-- the value of the shared key: g^(xa·xb) in B_p, trimmed to n bits -/
theorem pfok_dh_key (C : Pfok) (hp : Nat.Prime C.p) (hp2 : C.p ≠ 2)
    (hno : C.p < 2 ^ (8 * C.no)) (hg : C.g % C.p ≠ 0) {privA privB pubB : Bytes}
    (hA : leNat privA < 2 ^ C.r) (hB : leNat privB < 2 ^ C.r)
    (hpB : C.pubkeyCalc privB = (.ok, pubB)) :
    C.dh privA pubB = (.ok, C.trimKey (C.powM C.g (leNat privA * leNat privB))) := by
  rw [pubkeyCalc_eq C hB] at hpB
  simp only [Prod.mk.injEq, true_and] at hpB
  subst hpB
  have h0 := powM_ne_zero C hp hp2 hg (leNat privB)
  have h1 := powM_lt C hp C.g (leNat privB)
  rw [dh_eq C hA (by rw [leNat_pub C hp.pos hno]; exact h0) (by rw [leNat_pub C hp.pos hno]; exact h1),
    leNat_pub C hp.pos hno, powM_pow C hp hp2, Nat.mul_comm]

theorem pfok_dh_agree (C : Pfok) (hp : Nat.Prime C.p) (hp2 : C.p ≠ 2)
    (hno : C.p < 2 ^ (8 * C.no)) (hg : C.g % C.p ≠ 0) {privA privB pubA pubB : Bytes}
    (_hlA : privA.length = C.mo) (_hlB : privB.length = C.mo)
    (hA : leNat privA < 2 ^ C.r) (hB : leNat privB < 2 ^ C.r)
    (hpA : C.pubkeyCalc privA = (.ok, pubA)) (hpB : C.pubkeyCalc privB = (.ok, pubB)) :
    ∃ key, C.dh privA pubB = (.ok, key) ∧ C.dh privB pubA = (.ok, key) ∧ key.length = C.ko := by
  refine ⟨_, pfok_dh_key C hp hp2 hno hg hA hB hpB, ?_, natLE_length _ _⟩
  rw [pfok_dh_key C hp hp2 hno hg hB hA hpA, Nat.mul_comm]

/-! ### 6. pfokMTI -/

theorem pfok_mti_key (C : Pfok) (hp : Nat.Prime C.p) (hp2 : C.p ≠ 2)
    (hno : C.p < 2 ^ (8 * C.no)) (hg : C.g % C.p ≠ 0) {xa ua xb ub yb vb : Bytes}
    (hxa : leNat xa < 2 ^ C.r) (hua : leNat ua < 2 ^ C.r)
    (hxb : leNat xb < 2 ^ C.r) (hub : leNat ub < 2 ^ C.r)
    (hyb : C.pubkeyCalc xb = (.ok, yb)) (hvb : C.pubkeyCalc ub = (.ok, vb)) :
    C.mti xa ua yb vb = (.ok, C.trimKey (Nat.xor (C.powM C.g (leNat xb * leNat ua))
        (C.powM C.g (leNat ub * leNat xa)))) := by
  rw [pubkeyCalc_eq C hxb] at hyb
  rw [pubkeyCalc_eq C hub] at hvb
  simp only [Prod.mk.injEq, true_and] at hyb hvb
  subst hyb hvb
  have h0 := powM_ne_zero C hp hp2 hg (leNat xb)
  have h1 := powM_lt C hp C.g (leNat xb)
  have h2 := powM_ne_zero C hp hp2 hg (leNat ub)
  have h3 := powM_lt C hp C.g (leNat ub)
  rw [mti_eq C hxa hua (by rw [leNat_pub C hp.pos hno]; exact h0)
      (by rw [leNat_pub C hp.pos hno]; exact h1) (by rw [leNat_pub C hp.pos hno]; exact h2)
      (by rw [leNat_pub C hp.pos hno]; exact h3),
    leNat_pub C hp.pos hno, leNat_pub C hp.pos hno, powM_pow C hp hp2, powM_pow C hp hp2]

/-- A holds (xa, ya) long-term and (ua, va) one-time, B holds (xb, yb) and (ub, vb) -/
theorem pfok_mti_agree (C : Pfok) (hp : Nat.Prime C.p) (hp2 : C.p ≠ 2)
    (hno : C.p < 2 ^ (8 * C.no)) (hg : C.g % C.p ≠ 0) {xa ua xb ub ya va yb vb : Bytes}
    (hxa : leNat xa < 2 ^ C.r) (hua : leNat ua < 2 ^ C.r)
    (hxb : leNat xb < 2 ^ C.r) (hub : leNat ub < 2 ^ C.r)
    (hya : C.pubkeyCalc xa = (.ok, ya)) (hva : C.pubkeyCalc ua = (.ok, va))
    (hyb : C.pubkeyCalc xb = (.ok, yb)) (hvb : C.pubkeyCalc ub = (.ok, vb)) :
    ∃ key, C.mti xa ua yb vb = (.ok, key) ∧ C.mti xb ub ya va = (.ok, key) ∧ key.length = C.ko := by
  refine ⟨_, pfok_mti_key C hp hp2 hno hg hxa hua hxb hub hyb hvb, ?_, natLE_length _ _⟩
  rw [pfok_mti_key C hp hp2 hno hg hxb hub hxa hua hya hva]
  have e : Nat.xor (C.powM C.g (leNat xa * leNat ub)) (C.powM C.g (leNat ua * leNat xb))
      = Nat.xor (C.powM C.g (leNat xb * leNat ua)) (C.powM C.g (leNat ub * leNat xa)) := by
    rw [Nat.mul_comm (leNat xa), Nat.mul_comm (leNat ua)]
    exact Nat.xor_comm _ _
  rw [e]

/-! ### 7. one constant: the public key and the shared value as residues, with R = 2^lR of the SAME
context at every place (key generation, public-key calculation, DH) -/

theorem pfok_same_constant (C : Pfok) (hp : Nat.Prime C.p) (hp2 : C.p ≠ 2)
    (hno : C.p < 2 ^ (8 * C.no)) {priv pub : Bytes}
    (hx : leNat priv < 2 ^ C.r) (hpub : C.pubkeyCalc priv = (.ok, pub)) :
    ((leNat pub : Nat) : ZMod C.p)
      = ((C.g : ZMod C.p) * ((2 : ZMod C.p) ^ C.lR)⁻¹) ^ leNat priv * (2 : ZMod C.p) ^ C.lR := by
  rw [pubkeyCalc_eq C hx] at hpub
  simp only [Prod.mk.injEq, true_and] at hpub
  subst hpub
  rw [leNat_pub C hp.pos hno, powM_spec C hp hp2]

/-! ### non-vacuity: p = 23, g = 5, l = 5, lR = l + 2 = 7, r = 3, n = 4 (`Pf.toyPfok`) -/

example : Nat.Prime toyPfok.p ∧ toyPfok.p ≠ 2 ∧ toyPfok.p < 2 ^ (8 * toyPfok.no) ∧
    toyPfok.g % toyPfok.p ≠ 0 := by
  refine ⟨by norm_num [toyPfok], by decide, by decide, by decide⟩

example : ∃ key, toyPfok.dh [3] [2] = (.ok, key) ∧ toyPfok.dh [6] [7] = (.ok, key) ∧
    key.length = toyPfok.ko :=
  pfok_dh_agree toyPfok (by norm_num [toyPfok]) (by decide) (by decide) (by decide)
    (privA := [3]) (privB := [6]) rfl rfl (by decide) (by decide)
    toy_dh_eval.1 toy_dh_eval.2.1

/-- the evaluated runs (LemmasPfok.lean): DH with x_A = 3, x_B = 6 gives key 1 on both sides; MTI with
long-term (3, 7), (6, 2) and one-time (5, 19), (7, 22) gives key 8 on both sides -/
example : toyPfok.dh [3] [2] = (.ok, [1]) ∧ toyPfok.dh [6] [7] = (.ok, [1]) :=
  toy_dh_eval.2.2

example : toyPfok.mti [3] [5] [2] [22] = (.ok, [8]) ∧ toyPfok.mti [6] [7] [7] [19] = (.ok, [8]) :=
  toy_mti_eval.2.2

example : ∃ key, toyPfok.mti [3] [5] [2] [22] = (.ok, key) ∧ toyPfok.mti [6] [7] [7] [19] = (.ok, key) ∧
    key.length = toyPfok.ko :=
  pfok_mti_agree toyPfok (by norm_num [toyPfok]) (by decide) (by decide) (by decide)
    (xa := [3]) (ua := [5]) (xb := [6]) (ub := [7]) (by decide) (by decide) (by decide) (by decide)
    toy_dh_eval.1 toy_mti_eval.1 toy_dh_eval.2.1 toy_mti_eval.2.1

end Bee2V.C16

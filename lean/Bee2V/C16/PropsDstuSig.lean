/-
C16 — property theorems for the signature part of the model of dstu.c (Dstu.lean, DSTU 4145-2002)
under the hypotheses `DLaws C` (LawsSig.lean).  Private key d, public key Q = -dP; all numbers
little-endian; `ld` is the length of the signature in bits, `oo = order_no`.
-/
import Bee2V.C16.LemmasSig4
import Bee2V.C16.ToySig
namespace Bee2V.C16
open Sig
variable {G F : Type} [AddCommGroup G] {C : Dstu G F}

/-- dstuKeypairGen: whenever it succeeds (any tape, any number of zero draws) the private key is the
code of a number d in [1, n-1] (in fact d < 2^(nb-1)) and the public key is the encoding of -dP;
ERR_BAD_PARAMS is impossible -/
theorem dstu_keygen_valid (L : DLaws C) {fuel : Nat} {tape kp : Bytes} {used : Nat}
    (h : C.keypairGen fuel tape = some (.ok, kp, used)) :
    ∃ d, 0 < d ∧ d < C.n ∧ kp.take C.oo = natLE C.oo d ∧
      ∃ Q, C.xy (-(d • C.base)) = some Q ∧ kp.drop C.oo = C.encXY Q := by
  unfold Dstu.keypairGen at h
  split at h
  · cases h
  · rename_i d rest used' hr
    obtain ⟨h0, h1⟩ := d_randTrim_range C _ _ _ _ _ _ hr
    have hdn : d < C.n := Nat.lt_of_lt_of_le h1 (d_pow_lo L)
    rw [L.smul_eq, L.neg_eq] at h
    split at h
    · simp at h
    · rename_i Q hQ
      simp only [Option.some.injEq, Prod.mk.injEq, true_and] at h
      refine ⟨d, h0, hdn, ?_, Q, hQ, ?_⟩
      · rw [← h.1]; exact take_natLE_append _ _ _
      · rw [← h.1]; exact drop_natLE_append _ _ _

/-- dstuSign against dstuVerify: every returned signature — for every hash value of every length, every
admissible `ld` (minimal or larger), every tape including the rounds repeated because x_R = 0, r = 0 or
s = 0 — passes dstuVerify under the public key -dP -/
theorem dstu_sign_complete (L : DLaws C) {fuel ld : Nat} {Hb priv tape sig : Bytes} {used : Nat}
    {Q : F × F} (hs : C.sign fuel ld Hb priv tape = some (.ok, sig, used))
    (hQ : C.xy (-(leNat priv • C.base)) = some Q) :
    C.verify ld Hb sig (C.encXY Q) = .ok := by
  have hn := d_n_pos L
  unfold Dstu.sign at hs
  by_cases hc : ld % 16 ≠ 0 ∨ ld < 16 * C.oo
  · rw [if_pos hc] at hs; simp at hs
  rw [if_neg hc] at hs
  by_cases hd : leNat priv = 0 ∨ leNat priv ≥ C.n
  · rw [if_pos hd] at hs; simp at hs
  rw [if_neg hd] at hs
  split at hs
  · cases hs
  · rename_i h hh
    obtain ⟨e, x, y, _, he1, hxy, hr0, hs0, hsig⟩ := d_signLoop_shape C _ _ _ _ _ _ _ _ hs
    have hen : e < C.n := Nat.lt_of_lt_of_le he1 (d_pow_lo L)
    rw [addMod_eq (Nat.mod_lt _ hn) hen (d_n_lt_Wn C)] at hs0 hsig
    rw [L.smul_eq] at hxy
    rw [hsig]
    exact d_verify_sig L (by omega) (by omega) hh hxy hr0 hs0 hQ

/-- dstuSign rejects a private key outside {1, …, n − 1} (after the ld checks, before anything is drawn
from the generator) -/
theorem dstu_sign_rejects_privkey (C : Dstu G F) {fuel ld : Nat} {Hb priv tape : Bytes}
    (h1 : ld % 16 = 0) (h2 : 16 * C.oo ≤ ld) (hd : leNat priv = 0 ∨ leNat priv ≥ C.n) :
    C.sign fuel ld Hb priv tape = some (.badPrivkey, [], 0) := by
  unfold Dstu.sign
  rw [if_neg (by omega), if_pos hd]

/-- the acceptance set of dstuVerify, exactly: admissible `ld`, public key a pair of field elements on
the curve, a hash value that is loadable, zero padding in both halves, 0 < r, s < n, and
`R = sP + rQ ≠ O` with `trunc(h x_R) = r` -/
theorem dstu_verify_exact (L : DLaws C) {ld : Nat} {Hb sig pub : Bytes} :
    C.verify ld Hb sig pub = .ok ↔
      ld % 16 = 0 ∧ 16 * C.oo ≤ ld ∧
      ∃ xq yq Q h, C.loadXY pub = some (xq, yq) ∧ C.ofXY xq yq = some Q ∧ C.hashF Hb = some h ∧
        (∀ b ∈ (sig.take (ld / 16)).drop C.oo, b = 0) ∧ (∀ b ∈ (sig.drop (ld / 16)).drop C.oo, b = 0) ∧
        let r := leNat (sig.take C.oo)
        let s := leNat ((sig.drop (ld / 16)).take C.oo)
        0 < r ∧ r < C.n ∧ 0 < s ∧ s < C.n ∧
          ∃ x y, C.xy (s • C.base + r • Q) = some (x, y) ∧ r = C.truncR h x := by
  constructor
  · intro hv
    unfold Dstu.verify at hv
    split at hv
    · cases hv
    · rename_i hc
      split at hv
      · cases hv
      · rename_i xq yq hl
        split at hv
        · cases hv
        · rename_i Q hof
          split at hv
          · cases hv
          · rename_i h hh
            simp only at hv
            split at hv
            · cases hv
            · rename_i hpad
              split at hv
              · cases hv
              · rename_i hrs
                rw [L.smul_eq, L.smul_eq, L.add_eq] at hv
                split at hv
                · cases hv
                · rename_i x y hxy
                  split at hv
                  · rename_i hr
                    rw [not_or, not_any_ne_zero_iff, not_any_ne_zero_iff] at hpad
                    refine ⟨by omega, by omega, xq, yq, Q, h, hl, hof, hh, hpad.1, hpad.2, ?_⟩
                    dsimp only
                    exact ⟨by omega, by omega, by omega, by omega, x, y, hxy, hr⟩
                  · cases hv
  · rintro ⟨h16, hld, xq, yq, Q, h, hl, hof, hh, hp1, hp2, hrest⟩
    dsimp only at hrest
    obtain ⟨hr0, hrn, hs0, hsn, x, y, hxy, hr⟩ := hrest
    rw [← not_any_ne_zero_iff] at hp1 hp2
    unfold Dstu.verify
    rw [if_neg (by omega)]
    simp only [hl, hof, hh]
    rw [if_neg (by rw [not_or]; exact ⟨hp1, hp2⟩), if_neg (by omega), L.smul_eq, L.smul_eq, L.add_eq, hxy]
    simp only
    rw [if_pos hr]

/-- a non-zero octet in either padding region (positions oo ≤ i < ld/16 of the first or of the second
half of the signature) makes dstuVerify fail -/
theorem dstu_verify_rejects_padding (L : DLaws C) {ld : Nat} {Hb sig pub : Bytes} {i : Nat} {b : UInt8}
    (h1 : C.oo ≤ i) (h2 : i < ld / 16) (hb : b ≠ 0)
    (h : sig[i]? = some b ∨ sig[ld / 16 + i]? = some b) :
    C.verify ld Hb sig pub ≠ .ok := by
  intro hv
  obtain ⟨_, _, _, _, _, _, _, _, _, hp1, hp2, _⟩ := (dstu_verify_exact L).1 hv
  rcases h with h | h
  · exact hb (hp1 b (d_pad_mem1 h h1 h2))
  · exact hb (hp2 b (d_pad_mem2 h h1))

/-! ### non-vacuity: the hypotheses of the theorems above are satisfiable together (ToySig.lean:
`toyDstu` over (ZMod 65521, +), m = 16, oo = 2: minimal ld = 32) -/
section examples
open ToySig
set_option maxRecDepth 4000

example : ∃ C : Dstu (ZMod 65521) (Fin 65536), DLaws C := ⟨toyDstu, toyDLaws⟩

/-- a zero draw is repeated; d = 9, Q = -9P -/
example := dstu_keygen_valid toyDLaws (fuel := 3) (tape := [0, 0, 9, 0]) (kp := [9, 0, 9, 0, 232, 255])
  (used := 4) (by decide)

/-- ld larger than the minimum (64 > 32): zero padding in both halves; signs and verifies -/
example : toyDstu.sign 5 64 [1, 2, 3] [5, 0] [0, 0, 7, 0] = some (.ok, [7, 0, 0, 0, 42, 0, 0, 0], 4) ∧
    toyDstu.verify 64 [1, 2, 3] [7, 0, 0, 0, 42, 0, 0, 0] (toyDstu.encXY (5, 65516)) = .ok :=
  have hs : toyDstu.sign 5 64 [1, 2, 3] [5, 0] [0, 0, 7, 0]
      = some (.ok, [7, 0, 0, 0, 42, 0, 0, 0], 4) := by decide
  ⟨hs, dstu_sign_complete toyDLaws hs (by decide)⟩

/-- minimal ld -/
example : toyDstu.verify 32 [1, 2, 3] [7, 0, 42, 0] (toyDstu.encXY (5, 65516)) = .ok :=
  dstu_sign_complete toyDLaws (fuel := 5) (priv := [5, 0]) (tape := [0, 0, 7, 0]) (used := 4)
    (by decide) (by decide)

example := dstu_verify_exact toyDLaws (ld := 64) (Hb := [1, 2, 3]) (sig := [7, 0, 0, 0, 42, 0, 0, 0])
  (pub := [5, 0, 236, 255])

/-- the valid signature with one padding octet set (position 2 of the first half, of the second half) -/
example : toyDstu.verify 64 [1, 2, 3] [7, 0, 1, 0, 42, 0, 0, 0] (toyDstu.encXY (5, 65516)) ≠ .ok :=
  dstu_verify_rejects_padding toyDLaws (i := 2) (b := 1) (by decide) (by decide) (by decide)
    (Or.inl (by decide))

example : toyDstu.verify 64 [1, 2, 3] [7, 0, 0, 0, 42, 0, 1, 0] (toyDstu.encXY (5, 65516)) ≠ .ok :=
  dstu_verify_rejects_padding toyDLaws (i := 2) (b := 1) (by decide) (by decide) (by decide)
    (Or.inr (by decide))

end examples

end Bee2V.C16

/-
C16 — property theorems for the model of bign96.c (Bign96.lean) under the hypotheses `B96Laws C`
(LawsSig.lean): key pairs, bign96Sign / bign96Sign2 against bign96Verify, the exact acceptance set of
bign96Verify.  `leNat` is the number of a little-endian octet string.
-/
import Bee2V.C16.LemmasSig2
import Bee2V.C16.ToySig
namespace Bee2V.C16
open Sig
variable {G : Type} [AddCommGroup G] {C : B96 G}

/-- bign96PubkeyCalc: for every private key in [1, q-1] the result is a 48-octet public key that passes
bign96PubkeyVal and bign96KeypairVal and decodes to dG; ERR_BAD_PARAMS is impossible -/
theorem b96_pubkeyCalc_valid (L : B96Laws C) {priv : Bytes}
    (h0 : leNat priv ≠ 0) (hq : leNat priv < C.q) :
    ∃ pub, C.pubkeyCalc priv = (.ok, pub) ∧ pub.length = 48 ∧ C.pubkeyVal pub = .ok ∧
      C.keypairVal priv pub = .ok ∧ C.loadPub pub = some (leNat priv • C.base) := by
  obtain ⟨x, y, hxy⟩ := e_xy_base_mul L.toELaws (Nat.pos_of_ne_zero h0) hq
  have hxy' := hxy
  rw [L.smul_eq] at hxy'
  have hload := b_loadPub_encXY L hxy'
  refine ⟨B96.encXY (x, y), ?_, b_encXY_length _, ?_, ?_, hload⟩
  · unfold B96.pubkeyCalc
    simp only
    rw [if_neg (by omega), hxy]
  · unfold B96.pubkeyVal
    rw [hload]
  · unfold B96.keypairVal
    simp only
    rw [if_neg (by omega), hxy]
    simp

/-- bign96KeypairGen: whenever it succeeds (any tape, any number of rejected draws) the private key is
a number in [1, q-1] (sampled modulo the group order q) and the pair passes bign96KeypairVal and
bign96PubkeyVal -/
theorem b96_keygen_valid (L : B96Laws C) {tape kp : Bytes} {used : Nat}
    (h : C.keypairGen tape = (.ok, kp, used)) :
    C.keypairVal (kp.take 24) (kp.drop 24) = .ok ∧ C.pubkeyVal (kp.drop 24) = .ok ∧
      0 < leNat (kp.take 24) ∧ leNat (kp.take 24) < C.q := by
  unfold B96.keypairGen at h
  split at h
  · cases h
  · rename_i d rest used' hr
    obtain ⟨h0, hq⟩ := randNZMod_range hr
    obtain ⟨x, y, hxy⟩ := e_xy_base_mul L.toELaws h0 hq
    rw [hxy] at h
    simp only [Prod.mk.injEq, true_and] at h
    obtain ⟨hkp, _⟩ := h
    have ht : kp.take 24 = natLE 24 d := by rw [← hkp]; exact take_natLE_append _ _ _
    have hd : kp.drop 24 = B96.encXY (x, y) := by rw [← hkp]; exact drop_natLE_append _ _ _
    have hle := b_leNat_natLE L hq
    have hxy' := hxy
    rw [L.smul_eq] at hxy'
    rw [ht, hd, hle]
    refine ⟨?_, ?_, h0, hq⟩
    · unfold B96.keypairVal
      simp only [hle]
      rw [if_neg (by omega), hxy]
      simp
    · unfold B96.pubkeyVal
      rw [b_loadPub_encXY L hxy']

/-- bign96KeypairVal accepts exactly the pairs (d, <dG>) with 0 < d < q -/
theorem b96_keypairVal_exact (L : B96Laws C) {priv pub : Bytes}
    (hp : pub.length = 48) :
    C.keypairVal priv pub = .ok ↔
      0 < leNat priv ∧ leNat priv < C.q ∧ C.loadPub pub = some (leNat priv • C.base) := by
  unfold B96.keypairVal
  simp only
  by_cases hd : leNat priv = 0 ∨ leNat priv ≥ C.q
  · rw [if_pos hd]
    constructor
    · intro h; cases h
    · intro h; omega
  · rw [if_neg hd]
    have h0 : 0 < leNat priv := by omega
    have hq : leNat priv < C.q := by omega
    obtain ⟨x, y, hxy⟩ := e_xy_base_mul L.toELaws h0 hq
    rw [hxy]
    rw [L.smul_eq] at hxy
    simp only
    constructor
    · intro h
      refine ⟨h0, hq, ?_⟩
      by_cases he : B96.encXY (x, y) = pub
      · rw [← he]; exact b_loadPub_encXY L hxy
      · rw [if_neg he] at h; cases h
    · rintro ⟨_, _, hl⟩
      obtain ⟨hxy2, henc⟩ := b_encXY_of_loadPub L hp hl
      rw [hxy] at hxy2
      cases hxy2
      rw [if_pos henc]

/-- bign96Sign never fails for a valid identifier and a private key in [1, q-1] once the generator
yields a one-time key: 34 octets, and exactly the octets requested by zzRandNZMod are consumed -/
theorem b96_sign_ok (L : B96Laws C) {oid Hb priv tape : Bytes} {k : Nat} (ho : C.oidOk oid = true)
    (hd0 : 0 < leNat priv) (hdq : leNat priv < C.q) (hk : (randNZMod C.q tape).1 = some k) :
    ∃ sig, C.sign oid Hb priv tape = (.ok, sig, (randNZMod C.q tape).2.2) ∧ sig.length = 34 := by
  obtain ⟨hk0, hkq⟩ := randNZMod_range (q := C.q) (tape := tape) (v := k)
    (rest := (randNZMod C.q tape).2.1) (used := (randNZMod C.q tape).2.2) (by rw [← hk])
  obtain ⟨h1, h2⟩ := b_signWith_length L oid Hb (leNat priv) hk0 hkq
  refine ⟨(B96.signWith C oid Hb (leNat priv) k).2, ?_, h2⟩
  have hr : randNZMod C.q tape = (some k, (randNZMod C.q tape).2.1, (randNZMod C.q tape).2.2) := by
    rw [← hk]
  unfold B96.sign
  simp only [ho, Bool.not_true, Bool.false_eq_true, if_false]
  rw [if_neg (by omega)]
  rw [hr]
  simp only [h1]

/-- bign96Sign is complete: every signature it returns — for EVERY 24-octet hash value (0, all-ones,
≥ q, multiples of q), every identifier and every tape, including the rounds rejected by zzRandNZMod —
passes bign96Verify under the public key computed by bign96PubkeyCalc -/
theorem b96_sign_complete (L : B96Laws C) {oid Hb priv tape sig pub : Bytes} {used : Nat}
    (hH : Hb.length = 24)
    (hs : C.sign oid Hb priv tape = (.ok, sig, used)) (hp : C.pubkeyCalc priv = (.ok, pub)) :
    C.verify oid Hb sig pub = .ok := by
  unfold B96.sign at hs
  by_cases ho : C.oidOk oid = true
  swap
  · simp [ho] at hs
  simp only [ho, Bool.not_true, Bool.false_eq_true, if_false] at hs
  by_cases hd : leNat priv = 0 ∨ leNat priv ≥ C.q
  · rw [if_pos hd] at hs; cases hs
  rw [if_neg hd] at hs
  have h0 : leNat priv ≠ 0 := by omega
  have hq : leNat priv < C.q := by omega
  obtain ⟨pub', hp', _, _, _, hload⟩ := b96_pubkeyCalc_valid L h0 hq
  rw [hp] at hp'
  cases hp'
  split at hs
  · cases hs
  · rename_i k rest used' hr
    obtain ⟨hk0, hkq⟩ := randNZMod_range hr
    simp only [Prod.mk.injEq] at hs
    rw [← hs.2.1]
    exact b_verify_signWith L ho hH hk0 hkq hload

/-- bign96Sign2 (deterministic one-time key) is complete: whenever the nonce loop finishes, the
signature passes bign96Verify under the matching public key.
(Termination of the `while (1)` loop is not part of the statement: the model runs it with `fuel`.) -/
theorem b96_sign2_complete (L : B96Laws C) {oid Hb priv sig pub : Bytes} {fuel : Nat} {t : Option Bytes}
    (hH : Hb.length = 24)
    (hs : C.sign2 fuel oid Hb priv t = some (.ok, sig)) (hp : C.pubkeyCalc priv = (.ok, pub)) :
    C.verify oid Hb sig pub = .ok := by
  unfold B96.sign2 at hs
  by_cases ho : C.oidOk oid = true
  swap
  · simp [ho] at hs
  simp only [ho, Bool.not_true, Bool.false_eq_true, if_false] at hs
  by_cases hd : leNat priv = 0 ∨ leNat priv ≥ C.q
  · rw [if_pos hd] at hs; cases hs
  rw [if_neg hd] at hs
  have h0 : leNat priv ≠ 0 := by omega
  have hq : leNat priv < C.q := by omega
  obtain ⟨pub', hp', _, _, _, hload⟩ := b96_pubkeyCalc_valid L h0 hq
  rw [hp] at hp'
  cases hp'
  split at hs
  · cases hs
  · rename_i k hn
    obtain ⟨hk0, hkq⟩ := b_nonceLoop_range C _ _ _ _ _ hn
    simp only [Option.some.injEq] at hs
    have := b_verify_signWith (oid := oid) (d := leNat priv) L ho hH hk0 hkq hload
    rw [hs] at this
    exact this

/-- the acceptance set of bign96Verify, exactly: valid identifier, public key on the curve, `s1 < q`,
`R = ((s1 + H) mod q) G + (s0 + 2^103) Q ≠ O` and `belt-hash(oid ‖ <x_R>_24 ‖ H)[0..10) = s0`
(the constant of the code is 2^103, see `B96.s0Full`) -/
theorem b96_verify_exact (L : B96Laws C) {oid Hb sig pub : Bytes} (hH : Hb.length = 24) :
    C.verify oid Hb sig pub = .ok ↔
      C.oidOk oid = true ∧ ∃ Q, C.loadPub pub = some Q ∧ leNat (sig.drop 10) < C.q ∧
        ∃ x y, C.xy (((leNat (sig.drop 10) + leNat Hb) % C.q) • C.base
                      + (leNat (sig.take 10) + 2 ^ 103) • Q) = some (x, y) ∧
          B96.hash80 C (oid ++ natLE 24 x ++ Hb) = sig.take 10 := by
  have hq := b_q_pos L
  unfold B96.verify
  by_cases ho : C.oidOk oid = true
  swap
  · simp [ho]
  · simp only [ho, Bool.not_true, Bool.false_eq_true, if_false, true_and]
    cases hl : B96.loadPub C pub with
    | none => simp
    | some Q =>
      simp only [Option.some.injEq, exists_eq_left']
      by_cases hs : leNat (sig.drop 10) ≥ C.q
      · rw [if_pos hs]
        constructor
        · intro h; cases h
        · intro h; omega
      · rw [if_neg hs]
        have hs' : leNat (sig.drop 10) < C.q := by omega
        rw [redOnce_eq (b_leNat24 hH) (b_W_lt_2q L),
          addMod_eq hs' (Nat.mod_lt _ hq) (b_q_lt_W L), Nat.add_mod_mod, L.smul_eq, L.smul_eq, L.add_eq]
        unfold B96.s0Full
        cases hR : C.xy (((leNat (sig.drop 10) + leNat Hb) % C.q) • C.base
            + (leNat (sig.take 10) + 2 ^ 103) • Q) with
        | none => simp
        | some R =>
          obtain ⟨x, y⟩ := R
          dsimp only
          by_cases hh : B96.hash80 C (oid ++ natLE 24 x ++ Hb) = sig.take 10
          · rw [if_pos hh]
            exact ⟨fun _ => ⟨hs', x, y, rfl, hh⟩, fun _ => rfl⟩
          · rw [if_neg hh]
            constructor
            · intro h; exact absurd h (by simp)
            · rintro ⟨_, x', y', he, hh'⟩
              cases he
              exact absurd hh' hh

omit [AddCommGroup G] in
/-- a signature whose second part is not reduced (s1 ≥ q: s1 = q, s1 + q, 2^192 - 1, …) is rejected
with ERR_BAD_SIG -/
theorem b96_verify_rejects_s1 (C : B96 G) {oid Hb sig pub : Bytes} (h : leNat (sig.drop 10) ≥ C.q)
    (ho : C.oidOk oid = true) (hp : C.loadPub pub ≠ none) : C.verify oid Hb sig pub = .badSig := by
  unfold B96.verify
  simp only [ho, Bool.not_true, Bool.false_eq_true, if_false]
  cases hl : B96.loadPub C pub with
  | none => exact absurd hl hp
  | some Q => simp only; rw [if_pos h]

omit [AddCommGroup G] in
/-- a public key that is not a pair of field elements on the curve is rejected with ERR_BAD_PUBKEY -/
theorem b96_verify_rejects_pub (C : B96 G) {oid Hb sig pub : Bytes} (ho : C.oidOk oid = true)
    (hp : C.loadPub pub = none) : C.verify oid Hb sig pub = .badPubkey := by
  unfold B96.verify
  simp only [ho, Bool.not_true, Bool.false_eq_true, if_false, hp]

/-! ### non-vacuity: the hypotheses of the theorems above are satisfiable together (ToySig.lean:
`toyB96` over (ZMod Q96, +), Q96 = 13·2^188 + 1; private key 5, the hash value 2^192 - 1 ≥ q, a tape whose
first two draws (0 and 2^192 - 1) are rejected and whose third draw is 7) -/
section examples
open ToySig
set_option maxRecDepth 8000

example : ∃ C : B96 (ZMod Q96), B96Laws C := ⟨toyB96, toyB96Laws⟩

example := b96_pubkeyCalc_valid toyB96Laws (priv := priv5) (by decide) (by decide)

example : toyB96.keypairGen tape7 = (.ok, natLE 24 7 ++ natLE 24 7 ++ natLE 24 7, 72) := by decide

example := b96_keygen_valid toyB96Laws (tape := tape7) (kp := natLE 24 7 ++ natLE 24 7 ++ natLE 24 7)
  (used := 72) (by decide)

example := b96_keypairVal_exact toyB96Laws (priv := priv5) (pub := natLE 24 5 ++ natLE 24 5) (by decide)

example : randNZMod toyB96.q tape7 = (some 7, [], 72) := by decide

example := b96_sign_ok toyB96Laws (oid := [1]) (Hb := hFF) (priv := priv5) (tape := tape7) (k := 7)
  (by decide) (by decide) (by decide) (by decide)

/-- a run that really signs (after two rejected draws) and verifies -/
example : ∃ sig pub, toyB96.sign [1] hFF priv5 tape7 = (.ok, sig, 72) ∧ sig.length = 34 ∧
    toyB96.pubkeyCalc priv5 = (.ok, pub) ∧ toyB96.verify [1] hFF sig pub = .ok := by
  obtain ⟨sig, hs, hl⟩ := b96_sign_ok toyB96Laws (oid := [1]) (Hb := hFF) (priv := priv5)
    (tape := tape7) (k := 7) (by decide) (by decide) (by decide) (by decide)
  obtain ⟨pub, hp, _⟩ := b96_pubkeyCalc_valid toyB96Laws (priv := priv5) (by decide) (by decide)
  exact ⟨sig, pub, hs, hl, hp, b96_sign_complete toyB96Laws (by decide) hs hp⟩

/-- bign96Sign2 with H = 0 (the first iterate of the toy block cipher is 1): signs and verifies -/
example : ∃ sig pub, toyB96.sign2 3 [1] (zeros 24) priv5 none = some (.ok, sig) ∧
    toyB96.pubkeyCalc priv5 = (.ok, pub) ∧ toyB96.verify [1] (zeros 24) sig pub = .ok := by
  obtain ⟨pub, hp, _⟩ := b96_pubkeyCalc_valid toyB96Laws (priv := priv5) (by decide) (by decide)
  have hs : toyB96.sign2 3 [1] (zeros 24) priv5 none = some (.ok,
      [38, 31, 0, 0, 0, 0, 0, 0, 0, 0, 68, 100, 255, 255, 255, 255, 255, 255, 255, 255, 255, 255, 127,
       253, 255, 255, 255, 255, 255, 255, 255, 255, 255, 207]) := by decide
  exact ⟨_, pub, hs, hp, b96_sign2_complete toyB96Laws (by decide) hs hp⟩

example := b96_verify_exact toyB96Laws (oid := [1]) (Hb := hFF) (sig := zeros 34) (pub := zeros 48)
  (by decide)

example := b96_verify_rejects_s1 toyB96 (oid := [1]) (Hb := hFF)
  (sig := zeros 10 ++ List.replicate 24 255) (pub := natLE 24 5 ++ natLE 24 5)
  (by decide) (by decide) (by decide)

example := b96_verify_rejects_pub toyB96 (oid := [1]) (Hb := hFF) (sig := zeros 34) (pub := zeros 48)
  (by decide) (by decide)

end examples

end Bee2V.C16

import Bee2V.C12.LemmasVal2
import Bee2V.C12.LemmasSeed
import Bee2V.C12.LemmasSmooth
import Bee2V.C12.LemmasNextP
/-!
C12 — property theorems, second part: constants regenerated from the source, bign96, seed chains, dstuPointVal,
priIsSmooth, priNextPrime (multi-word).  Re-exports of LemmasVal2 / LemmasSeed / LemmasSmooth / LemmasNextP.
-/
namespace Bee2V.C12
open Bee2V.Gen.C12

/-! ### the constants written in the C sources are those of the standards (and of the models) -/

/-- MOV thresholds (bign 50, bign96 50, g12s 31 / 131, dstu 32), the size bounds of g12sEcCreate / dstuEcCreate /
    dstuParamsVal and the chain margins of stb99DiVal / pfokLiVal, as REGENERATED from the source on every run
    (Bee2V/Gen/C12Consts.lean), equal the values the models `g12sParamsValV`, `dstuParamsValV`, `g12sCreateOk`,
    `dstuCreate` carry as literals; `bignParamsVal` / `bign96ParamsVal` / `stb99SeedVal` / `pfokSeedVal` use the regenerated
    constants directly.  A changed constant in the C code makes this theorem false. -/
theorem validators_use_source_constants :
    movBign = 50 ∧ movBignGen = 50 ∧ movBign96 = 50 ∧ movG12s256 = 31 ∧ movG12s512 = 131 ∧ movDstu = 32 ∧
    dstuOrderBits = 160 ∧ dstuMinM = 160 ∧ dstuMaxM = 509 ∧ g12sPBits256 = 253 ∧ g12sPBits512 = 507 ∧
    g12sQBits256 = 254 ∧ g12sQBits512 = 508 ∧ stb99DiMargin = 16 ∧ pfokLiMargin = 16 := source_constants

/-- stb99RiVal applies the rule of stb99.h (`5 ri[i+1] / 4 < ri[i]`, no `+ 4`) — docs/C12.fix-6.diff. -/
theorem stb99_ri_rule_is_header_rule : stb99RiMargin = 0 := by decide

/-- bignParamsVal with the threshold of the source. -/
theorem bignParamsVal_source_ok_iff (isPrime : Nat → Bool) (operable : Bool) (v : BignVals) :
    bignParamsVal isPrime operable v = 0 ↔
      operable = true ∧ bignStartOk v = true ∧ v.B % v.p = v.b ∧ v.b ≠ 0 ∧
      ecpIsValid isPrime v.p v.a v.b = true ∧ ecpIsSafeGroup isPrime v.p v.q movBign = true ∧
      isQR v.b v.p = true ∧ powMod v.b ((v.p + 1) / 4) v.p = v.yG ∧
      Ecp.mul ⟨v.p, v.a, v.b⟩ v.q (some (0, v.yG)) = none := bignParamsVal_ok_iff' isPrime operable v

/-! ### bign96 -/

theorem bign96ParamsVal_iff (isPrime : Nat → Bool) (l : Nat) (v : BignVals) :
    bign96ParamsVal isPrime l v = 0 ↔
      l = 96 ∧ bign96StartOk v = true ∧ bignStartOk v = true ∧ v.B % v.p = v.b ∧ v.b ≠ 0 ∧
      ecpIsValid isPrime v.p v.a v.b = true ∧ ecpIsSafeGroup isPrime v.p v.q movBign96 = true ∧
      isQR v.b v.p = true ∧ powMod v.b ((v.p + 1) / 4) v.p = v.yG ∧
      Ecp.mul ⟨v.p, v.a, v.b⟩ v.q (some (0, v.yG)) = none := bign96ParamsVal_ok_iff isPrime l v

theorem bign96PubkeyVal_iff (l : Nat) (v : BignVals) (x y : Nat) :
    bign96PubkeyVal l v x y = 0 ↔
      l = 96 ∧ bign96StartOk v = true ∧ bignStartOk v = true ∧ x < v.p ∧ y < v.p ∧
      Ecp.onCurve ⟨v.p, v.a, v.b⟩ x y = true := bign96PubkeyVal_ok_iff l v x y

theorem bign96KeypairVal_iff (l : Nat) (v : BignVals) (d x y : Nat) :
    bign96KeypairVal l v d x y = 0 ↔
      l = 96 ∧ bign96StartOk v = true ∧ bignStartOk v = true ∧ 0 < d ∧ d < v.q ∧
      Ecp.mul ⟨v.p, v.a, v.b⟩ d (some (0, v.yG)) = some (x, y) := bign96KeypairVal_ok_iff l v d x y

/-! ### dstuPointVal -/

theorem dstuPointVal_iff (W : Nat) (v : DstuVals) (x y : Nat) :
    dstuPointValV W v x y = 0 ↔
      ∃ E, dstuCreate W v = some E ∧ x < 2 ^ v.p0 ∧ y < 2 ^ v.p0 ∧ E.onCurve x y = true ∧
        E.mul (v.n % 2 ^ (W * wordSize W (2 ^ v.p0 - 1))) (some (x, y)) = none := dstuPointValV_ok_iff W v x y

/-! ### seed chains (stb99SeedVal, pfokSeedVal) = the rules of the headers over the integers -/

/-- the machine-arithmetic chain test (size_t products, `SIZE_MAX / 5` guard, end of array) decides the integer rule
    x_i ≤ 2 x_{i+1}, 5 x_{i+1} + margin < 4 x_i, last element ≤ 32 (and > 16 for i ≥ 1), zeros after it. -/
theorem seed_chain_rule (S margin : Nat) (xs : List Nat) (hm : margin ≤ 64)
    (h0 : xs.headD 0 < (2 ^ S - 1) / 5) (hm0 : margin ≤ 4 * xs.headD 0) :
    chainOkM S margin xs = true ↔ Spec.chain margin xs := chainOkM_iff S margin xs hm h0 hm0

theorem stb99SeedVal_header_rules (lr : List (Nat × Nat)) (l : Nat) (zi di ri : List Nat)
    (hl : 32 < l) (hl' : l < 2 ^ 60) (hr : ∀ p ∈ lr, 16 < p.2 ∧ p.2 < 2 ^ 60) :
    stb99SeedVal 64 lr l zi di ri = 0 ↔
      ∃ r, lr.find? (·.1 = l) = some (l, r) ∧ (∀ z ∈ zi, 1 ≤ z ∧ z ≤ 65256) ∧
        l ≤ 2 * di.headD 0 ∧ 8 * di.headD 0 ≤ 7 * l - r ∧ Spec.chain stb99DiMargin di ∧
        ri.headD 0 = r ∧ Spec.chain stb99RiMargin ri :=
  stb99SeedVal64_iff lr l zi di ri (by decide) hl hl' hr

theorem pfokSeedVal_header_rules (S : Nat) (lr : List (Nat × Nat)) (l : Nat) (zi li : List Nat)
    (hl : 17 < l) (hlS : l - 1 < (2 ^ S - 1) / 5) :
    pfokSeedVal S lr l zi li = 0 ↔
      (∃ p ∈ lr, p.1 = l) ∧ (∀ z ∈ zi, 1 ≤ z ∧ z ≤ 65256) ∧ li.headD 0 = l - 1 ∧
        Spec.chain pfokLiMargin li := pfokSeedVal_iff S lr l zi li hl hlS

/-- the header's own chains of maximal length are accepted (they were rejected before fix-6) -/
example : stb99SeedVal 64 stb99Ls 2462 (List.replicate 31 1)
    [1897, 1514, 1207, 962, 766, 609, 483, 383, 303, 239, 187, 146, 113, 87, 66, 49, 35, 24]
    [257, 205, 163, 130, 103, 82, 65, 51, 40, 31] = 0 := by decide

/-! ### priIsSmooth, priNextPrime -/

/-- priIsSmooth (a ≠ 0) ⇔ every prime divisor of a is 2 or one of the first `bc` primes of the factor base. -/
theorem priIsSmooth_exact (a bc : Nat) (ha : a ≠ 0) (hbc : bc ≤ 1024) :
    priIsSmooth a bc = true ↔ ∀ p, Nat.Prime p → p ∣ a → p = 2 ∨ ∃ i, i < bc ∧ base[i]! = p :=
  priIsSmooth_iff a bc ha hbc

/-- priNextPrime (multi-word, incremental residues, trials): a returned p is odd, a ≤ p, of the same bit length, not
    divisible by the (adjusted) factor base, passes Miller–Rabin on some tape, respects the trials bound, and every
    earlier odd candidate was sieved out or rejected by Miller–Rabin.  (Primality of p itself is probabilistic:
    `priRMTest_fooled_by_liars`.) -/
theorem priNextPrime_least (W n a : Nat) (trials : Option Nat) (baseCount iter : Nat) (tape : List Nat) (fuel p : Nat)
    (hW : W = 16 ∨ W = 32 ∨ W = 64) (hbc : baseCount ≤ 1024) (ha : a < 2 ^ (n * W))
    (h : priNextPrime W n a trials baseCount iter tape fuel = some p) :
    let bc := if bitSize a ≤ W then adjustBaseCount (a ||| 1) true baseCount else baseCount
    2 ≤ bitSize a ∧ p % 2 = 1 ∧ a ≤ p ∧ p < 2 ^ (n * W) ∧ bitSize p = bitSize a ∧
      (∀ i, i < bc → p % base[i]! ≠ 0) ∧ (∃ tape', (priRMTestT p iter tape').1 = true) ∧
      (∀ t, trials = some t → p < (a ||| 1) + 2 * t) ∧
      ∀ x, x % 2 = 1 → a ≤ x → x < p →
        (∃ i, i < bc ∧ x % base[i]! = 0) ∨ ∃ tape'', (priRMTestT x iter tape'').1 = false :=
  priNextPrime_spec W n a trials baseCount iter tape fuel p hW hbc ha h

end Bee2V.C12
